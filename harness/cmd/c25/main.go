// c25: print with the forked printer, reparse with go/parser, compare, print again.
//
// Direct oracle (never consults the Coq model):
//
//	parsed trees  (files of $GOROOT/src and $VERIF_REPO, grammar-generated programs; type-parameter-free):
//	  A. whole file: go/parser tree (with comments) -> fork printer (the configuration of base/output) -> text1;
//	     go/parser accepts text1 and its declarations are structurally IDENTICAL (ParenExpr and comment groups included,
//	     positions excluded) to the original ones; printing the reparsed tree gives text1 again;
//	  B. interpreter path: fork parser nodes -> output.Stringer.Sprintf("%v", node) per declaration (= Config.Fprint on the node)
//	     -> concatenated -> go/parser -> declarations identical; printing again gives the same text.
//	built trees (what macro expansion produces: expressions nested against precedence WITHOUT ParenExpr nodes, e.g.
//	BinaryExpr{*, BinaryExpr{+,a,b}, c}, StarExpr over binary, selectors/calls/indexes of binary operands):
//	  C. fork printer -> text; go/parser accepts `var _ = text`; its tree equals the built tree MODULO ParenExpr; printing the
//	     reparsed tree gives the same text.
//
//	D. needed parentheses (headers.go): every parsed source again with ALL ParenExpr removed from the tree - what macro expansion
//	   (base.UnwrapTrivialAst) leaves before gomacro -m -w prints it - printed per declaration: go/parser accepts the text, its
//	   tree equals the stripped tree MODULO ParenExpr, the second print is identical.  A generator writes functions made of
//	   if/for/switch/range headers over composite literals and of parenthesised conversions in which every parenthesis is needed.
//
// Correspondence with coq/C25/Model.v: for built trees over operands/unary/binary/star/paren the printed token sequence
// (go/scanner) is compared with the model's print (cases_NNN.v).
package main

import (
	"bytes"
	"crypto/sha256"
	"fmt"
	"go/ast"
	"go/parser"
	stdprinter "go/printer"
	"go/scanner"
	"go/token"
	"os"
	"path/filepath"
	"sort"
	"strings"
	"time"

	"github.com/cosmos72/gomacro/base/output"
	"github.com/cosmos72/gomacro/go/etoken"
	fprinter "github.com/cosmos72/gomacro/go/printer"
	"verifh/c24lib"
	"verifh/vh"
)

var rep *vh.Report
var wd *vh.Watchdog

// the configuration base/output/output.go uses
var cfg = fprinter.Config{Mode: fprinter.UseSpaces | fprinter.TabIndent, Tabwidth: 8}

func forkPrint(fset *token.FileSet, node interface{}) (s string, err error) {
	defer func() {
		if e := recover(); e != nil {
			err = fmt.Errorf("panic: %v", e)
		}
	}()
	var buf bytes.Buffer
	err = cfg.Fprint(&buf, fset, node)
	return buf.String(), err
}

// stdNotIdempotent: go1.23's own go/printer (same configuration) is not idempotent on src either: print, reparse, print
// gives a different text.  Used only to RECOGNISE the recorded layout classes C25-4/C25-5 (behaviour the fork shares with
// upstream go/printer), never as the oracle.
func stdNotIdempotent(src []byte) bool {
	scfg := stdprinter.Config{Mode: stdprinter.UseSpaces | stdprinter.TabIndent, Tabwidth: 8}
	fset := token.NewFileSet()
	f, err := parser.ParseFile(fset, "x.go", src, parser.ParseComments)
	if err != nil {
		return false
	}
	var b1, b2 bytes.Buffer
	if scfg.Fprint(&b1, fset, f) != nil {
		return false
	}
	fset2 := token.NewFileSet()
	f2, err := parser.ParseFile(fset2, "x.go", b1.Bytes(), parser.ParseComments)
	if err != nil {
		return false
	}
	if scfg.Fprint(&b2, fset2, f2) != nil {
		return false
	}
	return b1.String() != b2.String()
}

// stdNotIdempotentDecls: the same, declaration by declaration (the interpreter path prints single declarations)
func stdNotIdempotentDecls(src []byte) bool {
	scfg := stdprinter.Config{Mode: stdprinter.UseSpaces | stdprinter.TabIndent, Tabwidth: 8}
	pr := func(text []byte) (string, bool) {
		fset := token.NewFileSet()
		f, err := parser.ParseFile(fset, "x.go", text, 0)
		if err != nil {
			return "", false
		}
		var sb strings.Builder
		sb.WriteString("package " + f.Name.Name + "\n\n")
		for _, d := range f.Decls {
			var b bytes.Buffer
			if scfg.Fprint(&b, fset, d) != nil {
				return "", false
			}
			sb.WriteString(b.String() + "\n\n")
		}
		return sb.String(), true
	}
	t1, ok := pr(src)
	if !ok {
		return false
	}
	t2, ok := pr([]byte(t1))
	if !ok {
		return false
	}
	t3, ok := pr([]byte(t2))
	return ok && (t1 != t2 || t2 != t3)
}

func clip(s string, n int) string {
	if len(s) > n {
		return s[:n] + fmt.Sprintf("... [%d bytes]", len(s))
	}
	return s
}

func key(src []byte) string {
	h := sha256.Sum256(src)
	return fmt.Sprintf("src:%x", h[:8])
}

func firstDiffLine(a, b string) string {
	la, lb := strings.Split(a, "\n"), strings.Split(b, "\n")
	for i := 0; i < len(la) && i < len(lb); i++ {
		if la[i] != lb[i] {
			return fmt.Sprintf("line %d: %q vs %q", i+1, clip(la[i], 200), clip(lb[i], 200))
		}
	}
	return fmt.Sprintf("line count %d vs %d", len(la), len(lb))
}

type input struct {
	name, origin string
	src          []byte
}

func fail(in input, k, what string, got, want interface{}) {
	if os.Getenv("C25_DEBUG") != "" {
		fmt.Fprintf(os.Stderr, "FAIL\t%s\t%s\t%v\t%v\n", in.name, what, got, want)
	}
	rep.Fail(vh.Failure{Key: k, What: what, Input: map[string]string{"name": in.name, "origin": in.origin, "source": clip(string(in.src), 6000)}, Got: got, Want: want})
}

// checkParsed: oracles A and B on one source text
func checkParsed(in input) string {
	src := in.src
	k := key(src)
	if in.origin != "generated" {
		k = in.origin + ":" + in.name
	}
	wd.Beat(map[string]string{"name": in.name, "origin": in.origin})
	fset := token.NewFileSet()
	sf, err := parser.ParseFile(fset, "x.go", src, parser.ParseComments)
	if err != nil {
		return "skipped:not-valid-go"
	}
	if c24lib.UsesTypeParams(sf) {
		return "excluded:type-parameters"
	}
	if m, other := c24lib.LexClass(src); m || other == "tilde" {
		return "excluded:identifier-macro-or-tilde"
	}
	// ---- A
	text1, err := forkPrint(fset, sf)
	if err != nil {
		fail(in, k, "fork printer failed on a go/parser tree", err.Error(), nil)
		return "FAIL:print"
	}
	fset2 := token.NewFileSet()
	sf2, err := parser.ParseFile(fset2, "x.go", text1, parser.ParseComments)
	if err != nil {
		fail(in, k, "printed file does not parse", clip(err.Error(), 300), nil)
		return "FAIL:reparse"
	}
	// recorded finding classes (by-design normalisations of go/printer, see known_findings.json C25-2/3/4), recognised on
	// the ORIGINAL tree / on the kind of difference; the corpus stream replays the recorded inputs under their keys
	note := ""
	// class C25-3 (explicit empty statements are not printed): the file is NOT dropped; every comparison below is made
	// modulo the EmptyStmt elements of statement lists (c24lib.CmpOpts.ModEmpty), everything else exactly, and the printed
	// text must still parse and print identically again
	modEmpty := c24lib.HasExplicitEmptyStmt(sf) && in.origin != "corpus"
	if modEmpty {
		note = "(known-class:explicit-empty-statement-dropped)"
	}
	if d := c24lib.Diff(sf.Decls, sf2.Decls, c24lib.CmpOpts{ModEmpty: modEmpty}); d != "" {
		if in.origin != "corpus" && c24lib.Diff(sf.Decls, sf2.Decls, c24lib.CmpOpts{ModParens: true, NoPos: true, ModEmpty: modEmpty}) == "" {
			note += "(known-class:redundant-parentheses-dropped)"
		} else {
			fail(in, k, "reparsed tree differs (file, comments ignored)", d, nil)
			return "FAIL:tree"
		}
	}
	if d := c24lib.Diff(sf.Name, sf2.Name, c24lib.CmpOpts{}); d != "" {
		fail(in, k, "reparsed package name differs", d, nil)
		return "FAIL:tree"
	}
	parensDropped := strings.Contains(note, "redundant-parentheses")
	commentsOK := c24lib.Diff(sf.Decls, sf2.Decls, c24lib.CmpOpts{Comments: true, ModParens: parensDropped, NoPos: parensDropped, ModEmpty: modEmpty}) == "" && len(sf.Comments) == len(sf2.Comments)
	text2, err := forkPrint(fset2, sf2)
	if err == nil && text2 != text1 && in.origin != "corpus" && c24lib.HasEmptyBodyAfterMultilineSignature(sf) {
		note += "(known-class:empty-body-after-multiline-signature)"
	} else if err == nil && text2 != text1 && in.origin != "corpus" && stdNotIdempotent(src) {
		note += "(known-class:layout-not-idempotent-in-go/printer-either)"
	} else if err != nil || text2 != text1 {
		got := ""
		if err != nil {
			got = err.Error()
		} else {
			got = firstDiffLine(text1, text2)
		}
		fail(in, k, "printing the reparsed file gives a different text", got, nil)
		return "FAIL:idempotent"
	}
	// ---- B: interpreter path
	nodes, ffset, ferr, pan := c24lib.ForkParse(src, 0)
	if pan != nil || ferr != nil || c24lib.ForkFileShape(nodes) != "" {
		if os.Getenv("C25_DEBUG") != "" {
			fmt.Fprintf(os.Stderr, "FORKREJECT\t%s\t%v %v\n%s\n", in.name, pan, ferr, src)
		}
		return "skipped:fork-parser-rejects" // C24's business
	}
	st := output.Stringer{Fileset: ffset}
	var sb strings.Builder
	sb.WriteString("package " + sf.Name.Name + "\n\n")
	for _, n := range nodes[1:] {
		s := st.Sprintf("%v", n)
		// the same through the printer API directly: must be the same text
		if s2, err := forkPrint(&ffset.FileSet, n); err != nil || s2 != s {
			fail(in, k, "output.Stringer and printer.Config.Fprint disagree", clip(s, 300), clip(s2, 300))
			return "FAIL:stringer"
		}
		sb.WriteString(s + "\n\n")
	}
	textB := sb.String()
	fsetB := token.NewFileSet()
	sfB, err := parser.ParseFile(fsetB, "x.go", textB, 0)
	if err != nil {
		fail(in, k, "declarations printed through output.Stringer do not parse", clip(err.Error(), 300), nil)
		return "FAIL:reparse(interp)"
	}
	var fdecls []ast.Decl
	for _, n := range nodes[1:] {
		fdecls = append(fdecls, n.(ast.Decl))
	}
	if d := c24lib.Diff(fdecls, sfB.Decls, c24lib.CmpOpts{ModEmpty: modEmpty}); d != "" {
		if in.origin != "corpus" && c24lib.Diff(fdecls, sfB.Decls, c24lib.CmpOpts{ModParens: true, NoPos: true, ModEmpty: modEmpty}) == "" {
			if !strings.Contains(note, "redundant-parentheses") {
				note += "(known-class:redundant-parentheses-dropped)"
			}
		} else {
			fail(in, k, "reparsed tree differs (interpreter path, per declaration)", d, nil)
			return "FAIL:tree(interp)"
		}
	}
	var sb2 strings.Builder
	sb2.WriteString("package " + sf.Name.Name + "\n\n")
	for _, d := range sfB.Decls {
		s, _ := forkPrint(fsetB, d)
		sb2.WriteString(s + "\n\n")
	}
	if sb2.String() != textB && in.origin != "corpus" && c24lib.HasEmptyBodyAfterMultilineSignature(sf) {
		if !strings.Contains(note, "empty-body") {
			note += "(known-class:empty-body-after-multiline-signature)"
		}
	} else if sb2.String() != textB && in.origin != "corpus" && (stdNotIdempotentDecls(src) || stdNotIdempotentDecls([]byte(textB))) {
		if !strings.Contains(note, "layout-not-idempotent") {
			note += "(known-class:layout-not-idempotent-in-go/printer-either)"
		}
	} else if sb2.String() != textB {
		fail(in, k, "printing the reparsed declarations gives a different text (interpreter path)", firstDiffLine(textB, sb2.String()), nil)
		return "FAIL:idempotent(interp)"
	}
	rep.Count(k, len(sf.Decls) > 0)
	if !commentsOK {
		note += "(comment groups re-associated)"
	}
	return "ok" + note
}

// ---------------------------------------------------------------- built trees

var binToks = []token.Token{token.LOR, token.LAND, token.EQL, token.NEQ, token.LSS, token.LEQ, token.GTR, token.GEQ, token.ADD, token.SUB, token.OR,
	token.XOR, token.MUL, token.QUO, token.REM, token.SHL, token.SHR, token.AND, token.AND_NOT}
var unToks = []token.Token{token.ADD, token.SUB, token.NOT, token.XOR, token.AND, token.ARROW}

var opName = map[token.Token]string{token.LOR: "LOR", token.LAND: "LAND", token.EQL: "EQL", token.NEQ: "NEQ", token.LSS: "LSS", token.LEQ: "LEQ",
	token.GTR: "GTR", token.GEQ: "GEQ", token.ADD: "ADD", token.SUB: "SUB", token.OR: "OR", token.XOR: "XOR", token.MUL: "MUL", token.QUO: "QUO",
	token.REM: "REM", token.SHL: "SHL", token.SHR: "SHR", token.AND: "AND", token.AND_NOT: "AND_NOT", token.NOT: "NOT", token.ARROW: "ARROW"}

type builder struct {
	r     *vh.Rng
	atoms int
	core  bool // only the model's alphabet: operand, unary, star, binary, paren
	shape map[string]bool
}

func (b *builder) atom() ast.Expr {
	b.atoms++
	return &ast.Ident{Name: fmt.Sprintf("a%d", b.atoms-1)}
}

func (b *builder) expr(d int) ast.Expr {
	if d <= 0 {
		return b.atom()
	}
	n := 12
	if b.core {
		n = 8
	}
	switch b.r.Intn(n) {
	case 0, 1, 2, 3:
		x, y := b.expr(d-1), b.expr(d-1)
		op := binToks[b.r.Intn(len(binToks))]
		for _, c := range []ast.Expr{x, y} {
			if cb, ok := c.(*ast.BinaryExpr); ok && cb.Op.Precedence() < op.Precedence() {
				b.shape["binary-under-tighter-binary"] = true
			}
		}
		if cb, ok := y.(*ast.BinaryExpr); ok && cb.Op.Precedence() == op.Precedence() {
			b.shape["right-nested-same-precedence"] = true
		}
		return &ast.BinaryExpr{X: x, Op: op, Y: y}
	case 4:
		x := b.expr(d - 1)
		if _, ok := x.(*ast.BinaryExpr); ok {
			b.shape["binary-under-unary"] = true
		}
		return &ast.UnaryExpr{Op: unToks[b.r.Intn(len(unToks))], X: x}
	case 5:
		x := b.expr(d - 1)
		if _, ok := x.(*ast.BinaryExpr); ok {
			b.shape["binary-under-star"] = true
		}
		return &ast.StarExpr{X: x}
	case 6:
		return &ast.ParenExpr{X: b.expr(d - 1)}
	case 7:
		return b.atom()
	case 8:
		x := b.expr(d - 1)
		b.shape["operand-of-selector"] = true
		return &ast.SelectorExpr{X: x, Sel: &ast.Ident{Name: "f"}}
	case 9:
		x := b.expr(d - 1)
		b.shape["operand-of-call"] = true
		var args []ast.Expr
		for i := b.r.Intn(3); i > 0; i-- {
			args = append(args, b.expr(d-1))
		}
		return &ast.CallExpr{Fun: x, Args: args}
	case 10:
		x := b.expr(d - 1)
		b.shape["operand-of-index"] = true
		if b.r.Bool() {
			return &ast.IndexExpr{X: x, Index: b.expr(d - 1)}
		}
		return &ast.SliceExpr{X: x, Low: b.expr(d - 1), High: b.expr(d - 1)}
	default:
		x := b.expr(d - 1)
		b.shape["operand-of-typeassert"] = true
		return &ast.TypeAssertExpr{X: x, Type: &ast.Ident{Name: "T"}}
	}
}

func coqTree(e ast.Expr) string {
	switch e := e.(type) {
	case *ast.Ident:
		var n int
		fmt.Sscanf(e.Name, "a%d", &n)
		return fmt.Sprintf("(EAtom %d)", n)
	case *ast.ParenExpr:
		return "(EParen " + coqTree(e.X) + ")"
	case *ast.StarExpr:
		return "(EStar " + coqTree(e.X) + ")"
	case *ast.UnaryExpr:
		return "(EUnary " + opName[e.Op] + " " + coqTree(e.X) + ")"
	case *ast.BinaryExpr:
		return "(EBinary " + coqTree(e.X) + " " + opName[e.Op] + " " + coqTree(e.Y) + ")"
	}
	return "(EAtom 999999)"
}

// coqTokens: the printed text as model tokens
func coqTokens(text string) (string, bool) {
	var s scanner.Scanner
	fset := token.NewFileSet()
	src := []byte(text)
	s.Init(fset.AddFile("x", -1, len(src)), src, func(token.Position, string) {}, 0)
	var out []string
	for {
		_, tok, lit := s.Scan()
		switch {
		case tok == token.EOF:
			return vh.CoqList(out, "token"), true
		case tok == token.SEMICOLON && lit == "\n":
		case tok == token.IDENT:
			var n int
			if _, err := fmt.Sscanf(lit, "a%d", &n); err != nil {
				return "", false
			}
			out = append(out, fmt.Sprintf("TAtom %d", n))
		case tok == token.LPAREN:
			out = append(out, "TLparen")
		case tok == token.RPAREN:
			out = append(out, "TRparen")
		case opName[tok] != "":
			out = append(out, "TOp "+opName[tok])
		default:
			return "", false
		}
	}
}

func main() {
	a := vh.ParseArgs()
	rng := vh.NewRng(a.Seed)
	rep = vh.NewReport(a, "parsed trees: corpus/C25/*.go, $GOROOT/src .go files outside testdata (quick: PRNG sample of 300, thorough: all), every .go file of $VERIF_REPO, grammar-generated programs (c24lib.Gen; every statement form, labels in front of any statement, statement lists of blocks / case clauses / type-switch clauses / communication clauses - final and non-final - closed by a labelled empty statement `L: ;`, `L:` newline `;` or `L:` before `}`; files with explicit empty statements are compared modulo the EmptyStmt elements of statement lists = class C25-3, everything else exactly); "+
		"type-parameter files and files with the identifier `macro` excluded (counted). Oracle A: go/parser tree -> fork printer (base/output configuration) -> go/parser: declarations identical incl. ParenExpr (positions excluded), second print = first print; "+
		"oracle B: fork parser nodes -> output.Stringer per declaration -> go/parser: identical, second print identical. Built trees: random expression trees over operands, 19 binary operators, unary + - ! ^ & <-, StarExpr, ParenExpr, selector/call/index/slice/type-assertion operands, "+
		"nested against precedence WITHOUT ParenExpr (macro-expansion shapes): print -> go/parser -> equal modulo ParenExpr -> print again identical. "+
		"Stream D (needed parentheses): every parsed source that passed A/B is parsed again, EVERY ParenExpr is removed from the tree (what fast.Comp.MacroExpandCodewalk does before gomacro -m -w prints), printed per declaration, reparsed with go/parser: must parse, equal the stripped tree modulo ParenExpr, and print identically again. "+
		"Headers generator (headers.go): functions whose statements are if/else-if/for/3-clause for/range/switch/type-switch headers (with and without init/post statements) containing composite literals of named struct/array/map/qualified/nested types as operands of == and !=, method receivers, call arguments, indexed, selected, under & and !, inside brackets, precedence parentheses and func literals, "+
		"plus conversions (<-chan T)(c) (chan<- T)(c) (chan T)(c) (*T)(p) (**T) (func())(f) ([]T)(x) (map[K]V)(m) (interface{})(x) (struct{})(x), channel-of-channel types chan (<-chan T) etc. in var declarations and conversions, conversions as operands of * <- selector call; every parenthesis in the generated text is needed, so parsed trees compare exactly; stream D runs on them with and without positions. Non-trivial (stream D): the printer had to write at least one parenthesis back. Non-trivial (other streams): parsed file with >=1 declaration; built tree containing a binary operand under a tighter operator, a right-nested operator of equal precedence, or a binary operand of a unary/star/selector/call/index; distinct by SHA-256")
	wd = vh.NewWatchdog(rep, 180*time.Second)
	verif := os.Getenv("VERIF_DIR")
	if verif == "" {
		verif = "/verif"
	}
	repo := os.Getenv("VERIF_REPO")
	if repo == "" {
		repo = "/repo"
	}
	run := func(in input) string {
		st := checkParsed(in)
		rep.Dist(in.origin + ":" + st)
		// stream D (headers.go): the same tree without any ParenExpr, as macro expansion leaves it
		if strings.HasPrefix(st, "ok") || in.origin == "corpus" {
			rep.Dist(in.origin + ":stripped:" + checkStripped(in, false))
		}
		return st
	}
	cfiles, _ := filepath.Glob(filepath.Join(verif, "corpus", "C25", "*.go"))
	sort.Strings(cfiles)
	for _, f := range cfiles {
		if src, err := os.ReadFile(f); err == nil {
			run(input{filepath.Base(f), "corpus", src})
		}
	}
	groot := c24lib.GoRootSrc()
	gfiles := c24lib.GoFiles(groot)
	grootReal, _ := filepath.EvalSymlinks(groot)
	nG := len(gfiles)
	if !a.Thorough() {
		for i := len(gfiles) - 1; i > 0; i-- {
			j := rng.Intn(i + 1)
			gfiles[i], gfiles[j] = gfiles[j], gfiles[i]
		}
		if len(gfiles) > 300 {
			gfiles = gfiles[:300]
		}
		sort.Strings(gfiles)
	}
	for _, f := range gfiles {
		if src, err := os.ReadFile(f); err == nil {
			rel, _ := filepath.Rel(grootReal, f)
			run(input{rel, "goroot", src})
		}
	}
	rfiles := c24lib.GoFiles(repo)
	repoReal, _ := filepath.EvalSymlinks(repo)
	for _, f := range rfiles {
		if src, err := os.ReadFile(f); err == nil {
			rel, _ := filepath.Rel(repoReal, f)
			run(input{rel, "repo", src})
		}
	}
	rep.Extra["goroot_files_total"] = nG
	rep.Extra["goroot_files_checked"] = len(gfiles)
	rep.Extra["repo_files_checked"] = len(rfiles)
	rep.Exhaustive = a.Thorough()

	nGen, nBuilt, nCore := 600, 3000, 2500
	if a.Thorough() {
		nGen, nBuilt, nCore = 12000, 60000, 20000
	}
	if a.N > 0 {
		nGen, nBuilt, nCore = a.N, a.N, a.N
	}
	g := &c24lib.Gen{R: rng.Fork(), EmbedUnqualified: true, NoExprNewlines: true, Feat: map[string]int{}}
	for i := 0; i < nGen; i++ {
		g.Comments = i%3 == 0
		src := []byte(g.File(1+g.R.Intn(5), 1+g.R.Intn(4)))
		if c24lib.CommentAfterMultilineToken(src) {
			rep.Dist("generated:skipped(known class C24-6)")
			continue
		}
		st := run(input{fmt.Sprintf("gen#%d", i), "generated", src})
		if i%200 == 5 {
			rep.Sample(map[string]string{"generated": clip(string(src), 500), "status": st})
		}
	}

	// statement-list tails of the generated programs (labelled empty statement closing a block / case / comm clause,
	// final and non-final) and labelled statements: how many generated files contain each form
	rep.Extra["generated_features"] = g.Feat

	// ---- headers and conversions (headers.go): every parenthesis of the source is needed.  Parsed trees: oracles A and B
	// (exact comparison); stream D with positions (macro expansion of parsed code) and without (trees built by hand)
	nHdr := 400
	if a.Thorough() {
		nHdr = 8000
	}
	if a.N > 0 {
		nHdr = a.N
	}
	hr := rng.Fork()
	for i := 0; i < nHdr; i++ {
		hg := &hgen{r: hr, feat: map[string]bool{}}
		src := []byte(hg.file(1+hr.Intn(3), 1+hr.Intn(4)))
		in := input{fmt.Sprintf("hdr#%d", i), "generated", src}
		st := checkParsed(in)
		rep.Dist("headers:" + st)
		if st == "skipped:not-valid-go" {
			// a defect of the generator, not of gomacro: reported so that it cannot go unnoticed
			fail(in, "harness:headers-generator-invalid", "harness: the header generator wrote invalid Go", nil, nil)
			continue
		}
		var feats []string
		for f := range hg.feat {
			feats = append(feats, f)
		}
		sort.Strings(feats)
		for _, f := range feats {
			rep.Dist("headers-feature:" + f)
		}
		if strings.HasPrefix(st, "ok") {
			rep.Dist("headers:stripped:" + checkStripped(in, false))
			in.name += "(no positions)"
			rep.Dist("headers:stripped,no-positions:" + checkStripped(in, true))
		}
		if i%100 == 7 {
			rep.Sample(map[string]string{"headers": clip(string(src), 700), "status": st})
		}
	}

	// ---- built trees
	perShard := 400
	if a.Thorough() {
		perShard = 800 // thorough: <= ~32 case files (the coqc start-up cost per file dominates under load)
	}
	cw := vh.NewCases(a, "From Coq Require Import List NArith ZArith.\nFrom Verif Require Import C24.Model C25.Model.\nImport ListNotations.\nOpen Scope Z_scope.\nOpen Scope N_scope.", "case", "mismatches", perShard)
	br := rng.Fork()
	ncase := 0
	id := func(n int) ast.Expr { return &ast.Ident{Name: fmt.Sprintf("a%d", n)} }
	bin := func(x ast.Expr, op token.Token, y ast.Expr) ast.Expr { return &ast.BinaryExpr{X: x, Op: op, Y: y} }
	// fixed regression trees (the corpus stream of the built trees; keys "built:<text printed by the fixed printer>")
	regress := []ast.Expr{
		&ast.StarExpr{X: bin(id(0), token.ADD, id(1))},                                     // C25-1: *(a0 + a1)
		bin(&ast.StarExpr{X: bin(id(0), token.MUL, id(1))}, token.SUB, id(2)),              // *(a0 * a1) - a2
		bin(bin(id(0), token.ADD, id(1)), token.MUL, id(2)),                                // (a0 + a1) * a2
		bin(id(0), token.SUB, bin(id(1), token.SUB, id(2))),                                // a0 - (a1 - a2): right-nested, same precedence
		bin(id(0), token.QUO, bin(id(1), token.MUL, id(2))),                                // a0 / (a1 * a2)
		&ast.UnaryExpr{Op: token.SUB, X: bin(id(0), token.ADD, id(1))},                     // -(a0 + a1)
		&ast.UnaryExpr{Op: token.ARROW, X: bin(id(0), token.LOR, id(1))},                   // <-(a0 || a1)
		&ast.SelectorExpr{X: bin(id(0), token.ADD, id(1)), Sel: &ast.Ident{Name: "f"}},     // (a0 + a1).f
		&ast.CallExpr{Fun: &ast.StarExpr{X: id(0)}, Args: []ast.Expr{id(1)}},               // (*a0)(a1)
		&ast.IndexExpr{X: &ast.UnaryExpr{Op: token.AND, X: id(0)}, Index: id(1)},           // (&a0)[a1]
		bin(id(0), token.LAND, bin(id(1), token.LOR, id(2))),                               // a0 && (a1 || a2)
		bin(bin(id(0), token.EQL, id(1)), token.EQL, bin(id(2), token.NEQ, id(3))),         // a0 == a1 == (a2 != a3)
		&ast.UnaryExpr{Op: token.SUB, X: &ast.UnaryExpr{Op: token.SUB, X: id(0)}},          // - -a0
		bin(id(0), token.SUB, &ast.UnaryExpr{Op: token.SUB, X: id(1)}),                     // a0 - -a1
		bin(id(0), token.QUO, &ast.StarExpr{X: id(1)}),                                     // a0 / *a1
		bin(id(0), token.AND, &ast.UnaryExpr{Op: token.AND, X: id(1)}),                     // a0 & &a1
		bin(id(0), token.LSS, &ast.UnaryExpr{Op: token.ARROW, X: id(1)}),                   // a0 < <-a1
	}
	for i := 0; i < len(regress)+nBuilt+nCore; i++ {
		b := &builder{r: br, core: i >= len(regress)+nBuilt || i < len(regress), shape: map[string]bool{}}
		var e ast.Expr
		if i < len(regress) {
			e = regress[i]
			b.shape["regression-tree"] = true
			b.core = coqTree(e) != "" && !strings.Contains(coqTree(e), "999999")
		} else {
			e = b.expr(1 + br.Intn(5))
		}
		fset := token.NewFileSet()
		wd.Beat(fmt.Sprintf("built#%d", i))
		text, err := forkPrint(fset, e)
		in := input{fmt.Sprintf("built#%d", i), "built", []byte(text)}
		k := "built:" + text
		if err != nil {
			fail(in, k, "fork printer failed on a built tree", err.Error(), nil)
			continue
		}
		st := output.Stringer{Fileset: etoken.NewFileSet()}
		if s2 := st.Sprintf("%v", ast.Node(e)); s2 != text {
			fail(in, k, "output.Stringer and printer.Config.Fprint disagree", clip(s2, 300), clip(text, 300))
		}
		var shapes []string
		for s := range b.shape {
			shapes = append(shapes, s)
		}
		sort.Strings(shapes)
		for _, s := range shapes {
			rep.Dist("built-shape:" + s)
		}
		rep.Count(k, len(shapes) > 0)
		fset2 := token.NewFileSet()
		sf, err := parser.ParseFile(fset2, "x.go", "package p\nvar _ = "+text+"\n", 0)
		if err != nil {
			fail(in, k, "printed built tree does not parse", clip(err.Error(), 300), nil)
		} else {
			re := sf.Decls[0].(*ast.GenDecl).Specs[0].(*ast.ValueSpec).Values[0]
			// compared as elements of []ast.Expr so that the top-level value is an ast.Expr interface too
			if d := c24lib.Diff([]ast.Expr{e}, []ast.Expr{re}, c24lib.CmpOpts{ModParens: true, NoPos: true}); d != "" {
				fail(in, k, "reparsed tree differs from the built tree modulo ParenExpr", d, nil)
			} else if text2, err := forkPrint(fset2, re); err != nil || text2 != text {
				fail(in, k, "printing the reparsed built tree gives a different text", text2, text)
			}
		}
		if b.core {
			if toks, ok := coqTokens(text); ok {
				cw.Add(fmt.Sprintf("mkCase %d %s %s", ncase, coqTree(e), toks))
				rep.CaseInput(ncase, text)
				ncase++
			}
		}
		if i%700 == 3 {
			rep.Sample(map[string]interface{}{"built": text, "shapes": shapes})
		}
	}
	cw.Close()
	rep.Write()
}

// c28: direct oracle + correspondence for go/typeutil (Identical, Hasher.Hash, Map) over the fork's go/types terms.
//
// Direct oracle (implementation only, never the Coq model), on a universe of type terms built twice
// (two pointer-disjoint instances of every term) with the go/types constructors:
//
//	no panic / no hang of Identical and Hash; Identical(x, twin(x)); symmetry on every ordered pair;
//	transitivity on every triple of the identity matrix; Identical(x,y) => Hash(x) == Hash(y);
//	Identical(x,y) => types.Identical(x,y) (the stock relation is coarser);
//	random Map histories against an association list keyed by pairwise Identical.
//
// Correspondence: blocks of terms (translated from the *built objects* through the exported accessors) with the
// observed hashes and identity matrix, and Map histories with the observed outputs, as Coq cases.
package main

import (
	"encoding/json"
	"fmt"
	"go/token"
	"os"
	"path/filepath"
	"sort"
	"strings"
	"time"

	"github.com/cosmos72/gomacro/go/types"
	"github.com/cosmos72/gomacro/go/typeutil"
	"verifh/vh"
)

// ---------------------------------------------------------------- specs (recipes)

type fieldSpec struct {
	Name string `json:"n"`
	Pkg  int    `json:"p,omitempty"` // 0 nil, 1 "p", 2 "q"
	Tag  string `json:"tag,omitempty"`
	Anon bool   `json:"anon,omitempty"`
	T    *spec  `json:"t"`
}
type methSpec struct {
	Name   string  `json:"n"`
	Pkg    int     `json:"p,omitempty"`
	Ps     []*spec `json:"ps,omitempty"`
	Rs     []*spec `json:"rs,omitempty"`
	Va     bool    `json:"va,omitempty"`
	Recv   string  `json:"recv,omitempty"`   // "" = none given (NewInterfaceType sets the interface itself); else a named type
	Shared string  `json:"shared,omitempty"` // key of a *Func object shared between interfaces
}
type spec struct {
	K       string      `json:"k"` // nil basic alias named ptr slice array map chan tuple sig struct iface
	Basic   int         `json:"basic,omitempty"`
	Name    string      `json:"name,omitempty"` // alias name or named key
	Len     int64       `json:"len,omitempty"`
	Dir     int         `json:"dir,omitempty"`
	A       *spec       `json:"a,omitempty"`
	B       *spec       `json:"b,omitempty"`
	L       []*spec     `json:"l,omitempty"`
	HasRecv bool        `json:"hasrecv,omitempty"`
	Recv    *spec       `json:"recv,omitempty"`
	Ps      []*spec     `json:"ps,omitempty"`
	Rs      []*spec     `json:"rs,omitempty"`
	Va      bool        `json:"va,omitempty"`
	Fs      []fieldSpec `json:"fs,omitempty"`
	Ms      []methSpec  `json:"ms,omitempty"`
	Embs    []string    `json:"embs,omitempty"`
	depth   int
}

func list(l []*spec) string {
	var s []string
	for _, x := range l {
		s = append(s, x.String())
	}
	return strings.Join(s, ", ")
}
func pk(i int) string { return [...]string{"", "p.", "q."}[i] }

func (s *spec) String() string {
	if s == nil {
		return "<nil>"
	}
	switch s.K {
	case "nil":
		return "<nil>"
	case "basic":
		return types.Typ[s.Basic].Name()
	case "alias", "named":
		return s.Name
	case "ptr":
		return "*" + s.A.String()
	case "slice":
		return "[]" + s.A.String()
	case "array":
		return fmt.Sprintf("[%d]%s", s.Len, s.A)
	case "map":
		return fmt.Sprintf("map[%s]%s", s.A, s.B)
	case "chan":
		return [...]string{"chan ", "chan<- ", "<-chan "}[s.Dir] + s.A.String()
	case "tuple":
		return "(" + list(s.L) + ")"
	case "sig":
		r := ""
		if s.HasRecv {
			r = "(" + s.Recv.String() + ") "
		}
		v := ""
		if s.Va {
			v = "..."
		}
		return "func " + r + "(" + list(s.Ps) + v + ") (" + list(s.Rs) + ")"
	case "struct":
		var fs []string
		for _, f := range s.Fs {
			x := pk(f.Pkg) + f.Name + " " + f.T.String()
			if f.Anon {
				x = "embedded " + x
			}
			if f.Tag != "" {
				x += " `" + f.Tag + "`"
			}
			fs = append(fs, x)
		}
		return "struct{" + strings.Join(fs, "; ") + "}"
	case "iface":
		var ms []string
		for _, e := range s.Embs {
			ms = append(ms, e)
		}
		for _, m := range s.Ms {
			v := ""
			if m.Va {
				v = "..."
			}
			x := pk(m.Pkg) + m.Name + "(" + list(m.Ps) + v + ") (" + list(m.Rs) + ")"
			if m.Recv != "" {
				x += " recv=" + m.Recv
			}
			if m.Shared != "" {
				x += " shared=" + m.Shared
			}
			ms = append(ms, x)
		}
		return "interface{" + strings.Join(ms, "; ") + "}"
	}
	return "?" + s.K
}

// ---------------------------------------------------------------- building real types

var (
	pkgs    = []*types.Package{nil, types.NewPackage("p", "p"), types.NewPackage("q", "q")}
	named   = map[string]*types.Named{}
	shared  = map[string]*types.Func{}
	namedID = map[*types.TypeName]int{}
	idNamed []*types.Named
)

func mkNamed(key string, pkg int, under types.Type) *types.Named {
	n := types.NewNamed(types.NewTypeName(token.NoPos, pkgs[pkg], key, nil), under, nil)
	named[key] = n
	namedID[n.Obj()] = len(idNamed) + 1
	idNamed = append(idNamed, n)
	return n
}

func fn(pkg int, name string, recv *types.Var, ps, rs []types.Type, va bool) *types.Func {
	return types.NewFunc(token.NoPos, pkgs[pkg], name, types.NewSignature(recv, tuple(ps), tuple(rs), va))
}
func tuple(ts []types.Type) *types.Tuple {
	var vs []*types.Var
	for _, t := range ts {
		vs = append(vs, types.NewVar(token.NoPos, nil, "", t))
	}
	return types.NewTuple(vs...)
}

// clone: every named type has a second, DIFFERENT named type whose underlying type is a separately built,
// structurally identical term (type Reader interface{M()}; type Writer interface{M()}): identity and hashing must go
// by the type name object, never by the underlying structure.  cloneOf maps a key to the key of its clone.
var cloneOf = map[string]string{}

func setupNamed() {
	tint := types.Typ[types.Int]
	for _, sfx := range []string{"", "b"} {
		mkNamed("N1"+sfx, 1, tint)
		mkNamed("N2"+sfx, 1, types.NewStruct([]*types.Var{types.NewField(token.NoPos, pkgs[1], "A", tint, false)}, nil))
		mkNamed("E0"+sfx, 1, types.NewInterfaceType(nil, nil).Complete())
		mkNamed("E1"+sfx, 1, types.NewInterfaceType([]*types.Func{fn(1, "M", nil, nil, nil, false)}, nil).Complete())
		// E2 and E2b embed the SAME named interface E1 (equal method sets, equal embedded lists, different names)
		mkNamed("E2"+sfx, 1, types.NewInterfaceType([]*types.Func{fn(1, "N", nil, []types.Type{tint}, nil, false)}, []types.Type{named["E1"]}).Complete())
		mkNamed("E3"+sfx, 2, types.NewInterfaceType([]*types.Func{fn(2, "m", nil, nil, nil, false)}, nil).Complete())
		if sfx != "" {
			for _, k := range []string{"N1", "N2", "E0", "E1", "E2", "E3"} {
				cloneOf[k] = k + sfx
			}
		}
	}
	// E2c embeds the clone E1b where E2 embeds E1: structurally identical two levels down
	mkNamed("E2c", 1, types.NewInterfaceType([]*types.Func{fn(1, "N", nil, []types.Type{tint}, nil, false)}, []types.Type{named["E1b"]}).Complete())
	// E4 has the flattened method set of E2 without embedding anything
	mkNamed("E4", 1, types.NewInterfaceType([]*types.Func{fn(1, "M", nil, nil, nil, false), fn(1, "N", nil, []types.Type{tint}, nil, false)}, nil).Complete())
	// a cycle through a named interface: type T interface { C() interface{T} }  (not a finite tree: direct oracle only)
	for _, key := range []string{"T", "Tb"} {
		t := types.NewNamed(types.NewTypeName(token.NoPos, pkgs[1], key, nil), types.NewInterfaceType(nil, nil), nil)
		named[key] = t
		namedID[t.Obj()] = len(idNamed) + 1
		idNamed = append(idNamed, t)
		inner := types.NewInterfaceType(nil, []types.Type{t})
		tu := types.NewInterfaceType([]*types.Func{fn(1, "C", nil, nil, []types.Type{inner}, false)}, nil)
		t.SetUnderlying(tu)
		tu.Complete()
		inner.Complete()
	}
	cloneOf["T"] = "Tb"
	shared["s1"] = fn(1, "S", nil, nil, nil, false)
	shared["s2"] = fn(1, "S", nil, []types.Type{tint}, nil, false)
	// second *types.Named NODE for every type name (types.NewNamed called again with the SAME *TypeName object):
	// the only way to obtain two named types that are identical without being pointer-equal
	for k, n := range named {
		namedTwin[k] = types.NewNamed(n.Obj(), n.Underlying(), nil)
	}
}

// namedTwin[k] shares its *types.TypeName with named[k] (identical type, different node); build uses it when gen == 1
var (
	namedTwin = map[string]*types.Named{}
	gen       int
)

func namedOf(key string) *types.Named {
	if gen == 1 {
		return namedTwin[key]
	}
	return named[key]
}

// buildGen builds s with every named type (atoms, method receivers, embedded interfaces) taken from generation g
func buildGen(s *spec, g int) types.Type {
	old := gen
	gen = g
	defer func() { gen = old }()
	return build(s)
}

// withClones adds, for every spec that embeds named interfaces, the variants with the embedded names replaced by
// their clones (all of them / only the first / only the last), and E2 -> E2c, E2 -> E4 variants
func withClones(l []*spec) []*spec {
	out := append([]*spec{}, l...)
	seen := map[string]bool{}
	for _, s := range l {
		seen[s.String()] = true
	}
	for _, s := range l {
		if s.K != "iface" || len(s.Embs) == 0 {
			continue
		}
		variant := func(f func(i int, e string) string) {
			c := *s
			c.Embs = nil
			for i, e := range s.Embs {
				c.Embs = append(c.Embs, f(i, e))
			}
			if k := c.String(); !seen[k] {
				seen[k] = true
				out = append(out, &c)
			}
		}
		cl := func(e string) string {
			if c, ok := cloneOf[e]; ok {
				return c
			}
			return e
		}
		variant(func(_ int, e string) string { return cl(e) })
		variant(func(i int, e string) string {
			if i == 0 {
				return cl(e)
			}
			return e
		})
		variant(func(i int, e string) string {
			if i == len(s.Embs)-1 {
				return cl(e)
			}
			return e
		})
		variant(func(_ int, e string) string {
			if e == "E2" {
				return "E2c"
			}
			return e
		})
		variant(func(_ int, e string) string {
			if e == "E2" {
				return "E4"
			}
			return e
		})
	}
	return out
}

func buildAll(l []*spec) []types.Type {
	var r []types.Type
	for _, x := range l {
		r = append(r, build(x))
	}
	return r
}

// build constructs a fresh object graph for s (named types, basic types and shared *Func objects are global).
func build(s *spec) types.Type {
	switch s.K {
	case "nil":
		return nil
	case "basic":
		return types.Typ[s.Basic]
	case "alias":
		return types.Universe.Lookup(s.Name).Type()
	case "named":
		return namedOf(s.Name)
	case "ptr":
		return types.NewPointer(build(s.A))
	case "slice":
		return types.NewSlice(build(s.A))
	case "array":
		return types.NewArray(build(s.A), s.Len)
	case "map":
		return types.NewMap(build(s.A), build(s.B))
	case "chan":
		return types.NewChan(types.ChanDir(s.Dir), build(s.A))
	case "tuple":
		return tuple(buildAll(s.L))
	case "sig":
		var recv *types.Var
		if s.HasRecv {
			recv = types.NewVar(token.NoPos, nil, "", build(s.Recv))
		}
		return types.NewSignature(recv, tuple(buildAll(s.Ps)), tuple(buildAll(s.Rs)), s.Va)
	case "struct":
		var fs []*types.Var
		var tags []string
		for _, f := range s.Fs {
			fs = append(fs, types.NewField(token.NoPos, pkgs[f.Pkg], f.Name, build(f.T), f.Anon))
			tags = append(tags, f.Tag)
		}
		return types.NewStruct(fs, tags)
	case "iface":
		var ms []*types.Func
		for _, m := range s.Ms {
			if m.Shared != "" {
				ms = append(ms, shared[m.Shared])
				continue
			}
			var recv *types.Var
			if m.Recv != "" {
				recv = types.NewVar(token.NoPos, nil, "", namedOf(m.Recv))
			}
			ms = append(ms, fn(m.Pkg, m.Name, recv, buildAll(m.Ps), buildAll(m.Rs), m.Va))
		}
		var es []types.Type
		for _, e := range s.Embs {
			es = append(es, namedOf(e))
		}
		return types.NewInterfaceType(ms, es).Complete()
	}
	panic("bad spec " + s.K)
}

// ---------------------------------------------------------------- translation of built objects to model terms

type xlate struct {
	h   typeutil.Hasher
	rep *vh.Report
}

func optStr(p *types.Package) string {
	if p == nil {
		return "None"
	}
	return "(Some " + vh.CoqStr(p.Path()) + ")"
}

var errDeep = fmt.Errorf("not a finite tree")

func (x *xlate) list(n int, at func(int) types.Type, depth int) (string, error) {
	var el []string
	for i := 0; i < n; i++ {
		s, err := x.term(at(i), depth)
		if err != nil {
			return "", err
		}
		el = append(el, s)
	}
	return vh.CoqList(el, "ty"), nil
}
func (x *xlate) tup(t *types.Tuple, depth int) (string, error) {
	return x.list(t.Len(), func(i int) types.Type { return t.At(i).Type() }, depth)
}

func (x *xlate) term(t types.Type, depth int) (string, error) {
	if depth > 14 {
		return "", errDeep
	}
	d := depth + 1
	switch t := t.(type) {
	case nil:
		return "TNil", nil
	case *types.Basic:
		return fmt.Sprintf("(TBasic %d)", int(t.Kind())), nil
	case *types.Named:
		return fmt.Sprintf("(TNamed %d%%N)", namedID[t.Obj()]), nil
	case *types.Pointer:
		e, err := x.term(t.Elem(), d)
		return "(TPointer " + e + ")", err
	case *types.Slice:
		e, err := x.term(t.Elem(), d)
		return "(TSlice " + e + ")", err
	case *types.Array:
		e, err := x.term(t.Elem(), d)
		return fmt.Sprintf("(TArray %s %s)", vh.CoqZ(t.Len()), e), err
	case *types.Map:
		k, err := x.term(t.Key(), d)
		if err != nil {
			return "", err
		}
		e, err := x.term(t.Elem(), d)
		return "(TMap " + k + " " + e + ")", err
	case *types.Chan:
		e, err := x.term(t.Elem(), d)
		return fmt.Sprintf("(TChan %d %s)", int(t.Dir()), e), err
	case *types.Tuple:
		l, err := x.tup(t, d)
		return "(TTuple " + l + ")", err
	case *types.Signature:
		recv := "None"
		if v := t.Recv(); v != nil {
			r, err := x.term(v.Type(), d)
			if err != nil {
				return "", err
			}
			recv = "(Some " + r + ")"
		}
		ps, err := x.tup(t.Params(), d)
		if err != nil {
			return "", err
		}
		rs, err := x.tup(t.Results(), d)
		return fmt.Sprintf("(TSig %s %s %s %s)", recv, ps, rs, vh.CoqBool(t.Variadic())), err
	case *types.Struct:
		var fs []string
		for i := 0; i < t.NumFields(); i++ {
			f := t.Field(i)
			ft, err := x.term(f.Type(), d)
			if err != nil {
				return "", err
			}
			fs = append(fs, fmt.Sprintf("(mkF %s %s %s %s, %s)", vh.CoqStr(f.Name()), optStr(f.Pkg()), vh.CoqStr(t.Tag(i)), vh.CoqBool(f.Anonymous()), ft))
		}
		return "(TStruct " + vh.CoqList(fs, "(finfo * ty)") + ")", nil
	case *types.Interface:
		// t.methods must be the subsequence of t.allMethods made of the explicit *Func objects (representation assumption of the model)
		ne := t.NumExplicitMethods()
		j := 0
		var ms []string
		for i := 0; i < t.NumMethods(); i++ {
			f := t.Method(i)
			exp := false
			if j < ne && t.ExplicitMethod(j) == f {
				exp = true
				j++
			}
			sig := f.Type().(*types.Signature)
			recv := "None"
			if rv := sig.Recv(); rv == nil {
				return "", fmt.Errorf("interface method without receiver")
			} else if rt, ok := rv.Type().(*types.Interface); !ok || rt != t {
				r, err := x.term(rv.Type(), d)
				if err != nil {
					return "", err
				}
				recv = "(Some " + r + ")"
			}
			ps, err := x.tup(sig.Params(), d)
			if err != nil {
				return "", err
			}
			rs, err := x.tup(sig.Results(), d)
			if err != nil {
				return "", err
			}
			ms = append(ms, fmt.Sprintf("(mkMeth %s %s %s %s %s %s %s)", vh.CoqBool(exp), vh.CoqStr(f.Name()), optStr(f.Pkg()), recv, ps, rs, vh.CoqBool(sig.Variadic())))
		}
		if j != ne {
			x.rep.Fail(vh.Failure{Key: "repr:" + t.String(), What: "explicit methods are not a subsequence of Method(i) (model representation assumption)", Input: t.String()})
		}
		var es []string
		for i := 0; i < t.NumEmbeddeds(); i++ {
			e := t.Embedded(i)
			if e == nil {
				return "", fmt.Errorf("embedded type is not named")
			}
			es = append(es, fmt.Sprintf("%d%%N", namedID[e.Obj()]))
		}
		return "(TIface " + vh.CoqList(ms, "(methT ty)") + " " + vh.CoqList(es, "N") + ")", nil
	}
	return "", fmt.Errorf("unknown type %T", t)
}

// nhs / env tables for every named type (ids are 1-based positions in idNamed)
func (x *xlate) tables() (string, string) {
	var nh, env []string
	for i, n := range idNamed {
		nh = append(nh, fmt.Sprintf("(%d%%N, %d)", i+1, x.h.Hash(n)))
		if it, ok := n.Underlying().(*types.Interface); ok {
			var ms []string
			for k := 0; k < it.NumMethods(); k++ {
				f := it.Method(k)
				ms = append(ms, "("+vh.CoqStr(f.Name())+", "+optStr(f.Pkg())+")")
			}
			env = append(env, fmt.Sprintf("(%d%%N, %s)", i+1, vh.CoqList(ms, "(str * option str)")))
		}
	}
	return vh.CoqList(nh, "(N * Z)"), vh.CoqList(env, "(N * list (str * option str))")
}

// ---------------------------------------------------------------- spec generation

func b(k types.BasicKind) *spec { return &spec{K: "basic", Basic: int(k)} }
func nm(k string) *spec         { return &spec{K: "named", Name: k} }

func atoms() []*spec {
	return []*spec{b(types.Bool), b(types.Int), b(types.Uint8), {K: "alias", Name: "byte"}, b(types.Int32), {K: "alias", Name: "rune"},
		b(types.String), b(types.Float64), b(types.UnsafePointer), b(types.UntypedNilR),
		nm("N1"), nm("N2"), nm("E0"), nm("E1"), nm("E2"), nm("E3"), nm("T"),
		nm("N1b"), nm("N2b"), nm("E0b"), nm("E1b"), nm("E2b"), nm("E2c"), nm("E3b"), nm("E4"), nm("Tb")}
}

var tnil = &spec{K: "nil"}

// expand applies every constructor rule to x (single-child rules exhaustively; y, z are partners for the n-ary rules)
func expand(x, y, z *spec) []*spec {
	d := x.depth + 1
	sl := &spec{K: "slice", A: y}
	out := []*spec{
		{K: "ptr", A: x}, {K: "slice", A: x},
		{K: "array", A: x, Len: 3}, {K: "array", A: x, Len: 0}, {K: "array", A: x, Len: -1}, {K: "array", A: x, Len: 2147483647}, {K: "array", A: x, Len: 4294967299},
		{K: "chan", A: x, Dir: 0}, {K: "chan", A: x, Dir: 1}, {K: "chan", A: x, Dir: 2},
		{K: "map", A: x, B: y}, {K: "map", A: y, B: x}, {K: "map", A: x, B: x},
		{K: "tuple", L: []*spec{x}}, {K: "tuple", L: []*spec{x, y}}, {K: "tuple", L: []*spec{y, x}}, {K: "tuple", L: []*spec{x, tnil}}, {K: "tuple", L: []*spec{x, y, z}},
		{K: "sig", Ps: []*spec{x}}, {K: "sig", Rs: []*spec{x}}, {K: "sig", Ps: []*spec{x}, Rs: []*spec{y, z}},
		{K: "sig", Ps: []*spec{x, sl}, Va: true}, {K: "sig", Ps: []*spec{x, sl}},
		{K: "sig", HasRecv: true, Recv: x}, {K: "sig", HasRecv: true, Recv: x, Ps: []*spec{y}}, {K: "sig", HasRecv: true, Recv: y, Ps: []*spec{x}},
		{K: "struct", Fs: []fieldSpec{{Name: "A", Pkg: 1, T: x}}}, {K: "struct", Fs: []fieldSpec{{Name: "A", Pkg: 2, T: x}}},
		{K: "struct", Fs: []fieldSpec{{Name: "a", Pkg: 1, T: x}}}, {K: "struct", Fs: []fieldSpec{{Name: "a", Pkg: 2, T: x}}}, {K: "struct", Fs: []fieldSpec{{Name: "a", Pkg: 0, T: x}}},
		{K: "struct", Fs: []fieldSpec{{Name: "A", Pkg: 1, T: x, Tag: "t"}}}, {K: "struct", Fs: []fieldSpec{{Name: "A", Pkg: 1, T: x, Tag: "u"}}},
		{K: "struct", Fs: []fieldSpec{{Name: "A", Pkg: 1, T: x, Anon: true}}},
		{K: "struct", Fs: []fieldSpec{{Name: "A", Pkg: 1, T: x}, {Name: "B", Pkg: 1, T: y}}}, {K: "struct", Fs: []fieldSpec{{Name: "B", Pkg: 1, T: y}, {Name: "A", Pkg: 1, T: x}}},
		{K: "struct", Fs: []fieldSpec{{Name: "A", Pkg: 1, T: x}, {Name: "B", Pkg: 1, T: y, Anon: true, Tag: "t"}}},
		{K: "iface", Ms: []methSpec{{Name: "P", Pkg: 1, Ps: []*spec{x}}}}, {K: "iface", Ms: []methSpec{{Name: "P", Pkg: 1, Rs: []*spec{x}}}},
		{K: "iface", Ms: []methSpec{{Name: "P", Pkg: 2, Ps: []*spec{x}}}},
		{K: "iface", Ms: []methSpec{{Name: "p", Pkg: 1, Ps: []*spec{x}}}}, {K: "iface", Ms: []methSpec{{Name: "p", Pkg: 2, Ps: []*spec{x}}}},
		{K: "iface", Ms: []methSpec{{Name: "P", Pkg: 1, Ps: []*spec{x, sl}, Va: true}}}, {K: "iface", Ms: []methSpec{{Name: "P", Pkg: 1, Ps: []*spec{x, sl}}}},
		{K: "iface", Ms: []methSpec{{Name: "P", Pkg: 1, Ps: []*spec{x}}, {Name: "Q", Pkg: 1, Rs: []*spec{y}}}},
		{K: "iface", Ms: []methSpec{{Name: "Q", Pkg: 1, Rs: []*spec{y}}, {Name: "P", Pkg: 1, Ps: []*spec{x}}}},
		{K: "iface", Ms: []methSpec{{Name: "P", Pkg: 1, Ps: []*spec{x}, Recv: "N1"}}}, {K: "iface", Ms: []methSpec{{Name: "P", Pkg: 1, Ps: []*spec{x}, Recv: "E1"}}},
		{K: "iface", Ms: []methSpec{{Name: "P", Pkg: 1, Ps: []*spec{x}}}, Embs: []string{"E0"}},
		{K: "iface", Ms: []methSpec{{Name: "P", Pkg: 1, Ps: []*spec{x}}}, Embs: []string{"E1"}},
		{K: "iface", Ms: []methSpec{{Name: "P", Pkg: 1, Ps: []*spec{x}}}, Embs: []string{"E0", "E1"}},
		{K: "iface", Ms: []methSpec{{Name: "P", Pkg: 1, Ps: []*spec{x}}}, Embs: []string{"E2"}},
		{K: "iface", Ms: []methSpec{{Name: "P", Pkg: 1, Ps: []*spec{x}}}, Embs: []string{"E1", "E2"}},
		{K: "iface", Ms: []methSpec{{Name: "P", Pkg: 1, Ps: []*spec{x}}}, Embs: []string{"E3"}},
		{K: "iface", Ms: []methSpec{{Name: "M", Pkg: 1}, {Name: "P", Pkg: 1, Ps: []*spec{x}}}},
		{K: "iface", Ms: []methSpec{{Name: "M", Pkg: 1}, {Name: "N", Pkg: 1, Ps: []*spec{b(types.Int)}}, {Name: "P", Pkg: 1, Ps: []*spec{x}}}},
		{K: "iface", Ms: []methSpec{{Shared: "s1"}, {Name: "P", Pkg: 1, Ps: []*spec{x}}}},
		{K: "iface", Ms: []methSpec{{Name: "S", Pkg: 1}, {Name: "P", Pkg: 1, Ps: []*spec{x}}}},
		{K: "iface", Ms: []methSpec{{Shared: "s2"}, {Name: "P", Pkg: 1, Ps: []*spec{x}}}},
	}
	var ok []*spec
	for _, s := range withClones(out) {
		if s.K == "map" && (s.A.K == "nil" || s.B.K == "nil") {
			continue
		}
		s.depth = d
		ok = append(ok, s)
	}
	return ok
}

// closed terms without children
func leaves() []*spec {
	l := []*spec{
		{K: "tuple"}, {K: "sig"}, {K: "sig", HasRecv: true, Recv: tnil}, {K: "struct"}, {K: "iface"},
		{K: "iface", Ms: []methSpec{{Name: "M", Pkg: 1}}}, {K: "iface", Ms: []methSpec{{Name: "M", Pkg: 2}}}, {K: "iface", Ms: []methSpec{{Name: "m", Pkg: 1}}}, {K: "iface", Ms: []methSpec{{Name: "m", Pkg: 2}}},
		{K: "iface", Embs: []string{"E0"}}, {K: "iface", Embs: []string{"E1"}}, {K: "iface", Embs: []string{"E2"}}, {K: "iface", Embs: []string{"E0", "E1"}}, {K: "iface", Embs: []string{"E1", "E2"}}, {K: "iface", Embs: []string{"E3"}}, {K: "iface", Embs: []string{"T"}},
		{K: "iface", Ms: []methSpec{{Name: "M", Pkg: 1}}, Embs: []string{"E0"}},
		{K: "iface", Ms: []methSpec{{Name: "M", Pkg: 1}, {Name: "N", Pkg: 1, Ps: []*spec{b(types.Int)}}}},
		{K: "iface", Ms: []methSpec{{Name: "N", Pkg: 1, Ps: []*spec{b(types.Int)}}}, Embs: []string{"E1"}},
		{K: "iface", Ms: []methSpec{{Name: "M", Pkg: 1, Recv: "N1"}}}, {K: "iface", Ms: []methSpec{{Name: "M", Pkg: 1, Recv: "E1"}}},
		{K: "iface", Ms: []methSpec{{Shared: "s1"}}}, {K: "iface", Ms: []methSpec{{Name: "S", Pkg: 1}}}, {K: "iface", Ms: []methSpec{{Shared: "s2"}}},
		{K: "iface", Ms: []methSpec{{Name: "C", Pkg: 1, Rs: []*spec{{K: "iface", Embs: []string{"T"}}}}}},
	}
	l = withClones(l)
	for _, s := range l {
		s.depth = 1
	}
	return l
}

// ---------------------------------------------------------------- universe and direct oracle

type term struct {
	s    *spec
	t    types.Type
	twin int    // index of the other instance built from the same spec
	coq  string // "" when not representable as a finite tree
	hash uint32
	g    int // 1: built with the second *types.Named node of every type name (types.NewNamed twice on one *TypeName)
}

func safeIdentical(x, y types.Type) (r bool, p interface{}) {
	defer func() { p = recover() }()
	return typeutil.Identical(x, y), nil
}

type bitrow []uint64

func (b bitrow) get(i int) bool { return b[i/64]>>(uint(i)%64)&1 == 1 }
func (b bitrow) set(i int)      { b[i/64] |= 1 << (uint(i) % 64) }

func pairKey(a, c *spec) string { return "pair:" + a.String() + " | " + c.String() }

func directOracle(u []term, rep *vh.Report, wd *vh.Watchdog) []bitrow {
	n := len(u)
	m := make([]bitrow, n)
	pan := make([]bitrow, n)
	for i := range u {
		m[i] = make(bitrow, (n+63)/64)
		pan[i] = make(bitrow, (n+63)/64)
	}
	npairs := 0
	for i := range u {
		wd.Beat("Identical row " + u[i].s.String())
		for j := range u {
			r, p := safeIdentical(u[i].t, u[j].t)
			npairs++
			if p != nil {
				pan[i].set(j)
				rep.Fail(vh.Failure{Key: pairKey(u[i].s, u[j].s), What: "Identical(x, y) panicked", Input: []*spec{u[i].s, u[j].s}, Got: fmt.Sprint(p), Want: "a boolean"})
				continue
			}
			if r {
				m[i].set(j)
			}
		}
	}
	for i := range u {
		wd.Beat("laws row " + u[i].s.String()) // thorough: ~20000 rows x 20000 columns, the whole loop outlasts the limit under load
		if !m[i].get(i) {
			rep.Fail(vh.Failure{Key: pairKey(u[i].s, u[i].s), What: "Identical(x, x) is false", Input: []*spec{u[i].s}})
		}
		if tw := u[i].twin; !m[i].get(tw) && !pan[i].get(tw) {
			rep.Fail(vh.Failure{Key: pairKey(u[i].s, u[tw].s), What: "not reflexive on structure: Identical(x, x') false for two separately built instances of the same term", Input: []*spec{u[i].s, u[tw].s}, Got: false, Want: true})
		}
		for j := range u {
			if pan[i].get(j) || pan[j].get(i) {
				continue
			}
			ij := m[i].get(j)
			if ij != m[j].get(i) && i < j {
				rep.Fail(vh.Failure{Key: pairKey(u[i].s, u[j].s), What: "not symmetric", Input: []*spec{u[i].s, u[j].s}, Got: fmt.Sprintf("Identical(x,y)=%v Identical(y,x)=%v", ij, !ij)})
			}
			if !ij {
				continue
			}
			if u[i].hash != u[j].hash {
				rep.Fail(vh.Failure{Key: pairKey(u[i].s, u[j].s), What: fmt.Sprintf("identical types with different hashes (named-node generation of x: %d, of y: %d; generation 1 = second types.NewNamed node on the same *TypeName)", u[i].g, u[j].g), Input: []*spec{u[i].s, u[j].s}, Got: []uint32{u[i].hash, u[j].hash}})
			}
			if !types.Identical(u[i].t, u[j].t) {
				rep.Fail(vh.Failure{Key: pairKey(u[i].s, u[j].s), What: "typeutil.Identical holds but go/types' Identical (coarser: ignores receivers and embedding structure) does not", Input: []*spec{u[i].s, u[j].s}})
			}
			// transitivity: every k identical to j must be identical to i
			for w, word := range m[j] {
				if bad := word &^ m[i][w] &^ pan[i][w]; bad != 0 {
					for k := w * 64; k < w*64+64 && k < n; k++ {
						if bad>>(uint(k)%64)&1 == 1 {
							rep.Fail(vh.Failure{Key: pairKey(u[i].s, u[k].s), What: "not transitive: Identical(x,y) && Identical(y,z) but !Identical(x,z)", Input: []*spec{u[i].s, u[j].s, u[k].s}})
						}
					}
				}
			}
		}
	}
	rep.Extra["direct_oracle_ordered_pairs"] = npairs
	return m
}

// ---------------------------------------------------------------- Map histories

type mapOp struct {
	Op  string `json:"op"` // set at del len items
	Key int    `json:"key,omitempty"`
	Val int    `json:"val,omitempty"`
}

type refEntry struct {
	key int
	val int
}

func coqOptZ(v interface{}) string {
	if v == nil {
		return "None"
	}
	return fmt.Sprintf("(Some %d)", v.(int))
}

// runMap executes ops on a fresh typeutil.Map, checks every output against an association list keyed by
// pairwise Identical, and renders ops and observed outputs as Coq terms.
func runMap(keys []term, ops []mapOp, rep *vh.Report, name string) (cops, couts []string, nontrivial bool) {
	var m typeutil.Map
	var ref []refEntry
	ptrIdx := map[types.Type]int{}
	for i, k := range keys {
		if _, ok := ptrIdx[k.t]; !ok {
			ptrIdx[k.t] = i
		}
	}
	find := func(k int) int {
		for i, e := range ref {
			if typeutil.Identical(keys[k].t, keys[e.key].t) {
				return i
			}
		}
		return -1
	}
	input := map[string]interface{}{"keys": specsOf(keys), "ops": ops}
	hit, prevHit := false, false
	for i, o := range ops {
		fail := func(what string, got, want interface{}) {
			key := fmt.Sprintf("map:%s:%d", name, i)
			if strings.HasPrefix(name, "corpus:") {
				key = name // one key per corpus file (matched against known_findings.json)
				what = fmt.Sprintf("%s (op %d)", what, i)
			}
			rep.Fail(vh.Failure{Key: key, What: what, Input: input, Got: got, Want: want})
		}
		switch o.Op {
		case "set":
			var prev interface{}
			if p := vh.Catch(func() { prev = m.Set(keys[o.Key].t, o.Val) }); p != nil {
				fail("Map.Set panicked", fmt.Sprint(p), nil)
			}
			var want interface{}
			if r := find(o.Key); r >= 0 {
				want = ref[r].val
				ref[r].val = o.Val
				prevHit = true
			} else {
				ref = append(ref, refEntry{o.Key, o.Val})
			}
			if prev != want {
				fail(fmt.Sprintf("Map.Set(%s) previous value", keys[o.Key].s), prev, want)
			}
			cops = append(cops, fmt.Sprintf("OSet %d%%N %d", o.Key, o.Val))
			couts = append(couts, "RPrev "+coqOptZ(prev))
		case "at":
			var got interface{}
			if p := vh.Catch(func() { got = m.At(keys[o.Key].t) }); p != nil {
				fail("Map.At panicked", fmt.Sprint(p), nil)
			}
			var want interface{}
			if r := find(o.Key); r >= 0 {
				want = ref[r].val
			}
			if got != want {
				fail(fmt.Sprintf("Map.At(%s)", keys[o.Key].s), got, want)
			}
			cops = append(cops, fmt.Sprintf("OAt %d%%N", o.Key))
			couts = append(couts, "RVal "+coqOptZ(got))
		case "del":
			var got bool
			if p := vh.Catch(func() { got = m.Delete(keys[o.Key].t) }); p != nil {
				fail("Map.Delete panicked", fmt.Sprint(p), nil)
			}
			r := find(o.Key)
			if r >= 0 {
				ref = append(ref[:r:r], ref[r+1:]...)
				hit = true
			}
			if got != (r >= 0) {
				fail(fmt.Sprintf("Map.Delete(%s) result", keys[o.Key].s), got, r >= 0)
			}
			cops = append(cops, fmt.Sprintf("ODel %d%%N", o.Key))
			couts = append(couts, "RDel "+vh.CoqBool(got))
		case "len":
			got := m.Len()
			if got != len(ref) {
				fail("Map.Len", got, len(ref))
			}
			cops = append(cops, "OLen")
			couts = append(couts, fmt.Sprintf("RLen %d", got))
		case "items":
			type kv struct{ k, v int }
			var got []kv
			bad := false
			m.Iterate(func(k types.Type, v interface{}) {
				idx, ok := ptrIdx[k]
				if !ok {
					bad = true
				}
				got = append(got, kv{idx, v.(int)})
			})
			sort.Slice(got, func(a, b int) bool { return got[a].k < got[b].k })
			want := append([]refEntry(nil), ref...)
			sort.Slice(want, func(a, b int) bool { return want[a].key < want[b].key })
			same := !bad && len(got) == len(want) && len(m.Keys()) == len(want)
			var items []string
			for j, g := range got {
				// the map keeps the key object of the first Set
				if same && (g.k != want[j].key || g.v != want[j].val) {
					same = false
				}
				items = append(items, fmt.Sprintf("(%d%%N, %d)", g.k, g.v))
			}
			if !same {
				fail("Map.Iterate/Keys as a set", fmt.Sprint(got), fmt.Sprint(want))
			}
			cops = append(cops, "OItems")
			couts = append(couts, "RItems "+vh.CoqList(items, "(N * Z)"))
		}
	}
	return cops, couts, hit && prevHit
}

func specsOf(ts []term) []string {
	var r []string
	for _, t := range ts {
		r = append(r, t.s.String())
	}
	return r
}

// ---------------------------------------------------------------- corpus (exact inputs of past findings, run first)

type corpusFile struct {
	Name  string    `json:"name"`
	Pairs [][]*spec `json:"pairs,omitempty"` // each: [x, y]
	Keys  []*spec   `json:"keys,omitempty"`
	Ops   []mapOp   `json:"ops,omitempty"`
}

func loadCorpus() []corpusFile {
	dir := os.Getenv("VERIF_DIR")
	if dir == "" {
		dir = "/verif"
	}
	files, _ := filepath.Glob(filepath.Join(dir, "corpus", "C28", "*.json"))
	sort.Strings(files)
	var out []corpusFile
	for _, f := range files {
		b, err := os.ReadFile(f)
		if err != nil {
			continue
		}
		var c corpusFile
		if err := json.Unmarshal(b, &c); err != nil {
			panic(fmt.Sprintf("corpus %s: %v", f, err))
		}
		if c.Name == "" {
			c.Name = filepath.Base(f)
		}
		out = append(out, c)
	}
	return out
}

// ---------------------------------------------------------------- main

func main() {
	a := vh.ParseArgs()
	rng := vh.NewRng(a.Seed)
	rep := vh.NewReport(a, "type terms built with the fork's go/types constructors: 26 atoms (basic kinds incl. the byte/rune alias objects, named types N1,N2, named interfaces E0 (empty), E1{M()}, E2{E1;N(int)}, E3{q.m()}, the cyclic T{C() interface{T}}, "+
		"and for EVERY named type a clone = a different type name with a separately built structurally identical underlying type (N1b,N2b,E0b,E1b,E2b,E3b,Tb; E2c{E1b;N(int)}; E4{M();N(int)} = E2 flattened)), every rule/literal that embeds named interfaces also in the variants with the clones embedded (all/first/last), "+
		"25 closed interface/struct/func literals, and 61 constructor rules (pointer, slice, arrays of 5 lengths incl. -1 and 2^31-1, chan x3, map, tuples incl. nil-typed vars, signatures with/without receiver and variadic, "+
		"structs with exported/unexported names in packages p/q/nil, tags, embedded flag, field order, interfaces with explicit methods, embedded named interfaces (also overlapping E1;E2), flattened variants, named receivers, shared *Func objects) applied exhaustively "+
		"to every atom (depth 1 exhaustive); depth 2 = PRNG sample of whole sibling groups (all 61 rules on one depth-1 term) out of the 60k-term exhaustive depth-2 set: quick >=1500 terms, thorough >=8000 plus 1500 depth-3 terms; n-ary partners drawn by PRNG; every term is built twice (pointer-disjoint twins; the second instance also takes every named type, method receiver and embedded interface from a SECOND *types.Named node created by types.NewNamed on the same *TypeName, and Map pools hold a named atom, its second node and such a twin of a composite key). "+
		"Direct oracle on ALL ordered pairs of the universe. Correspondence: blocks of 26 terms (a window of sibling terms, twins, random terms) -> 676 model pairs each, and Map histories over pools of 12 keys with forced hash collisions. "+
		"A counted case is one ordered pair of a block (non-trivial: both terms have the same outermost constructor other than Basic/Named) or one Map history (non-trivial: at least one successful Delete and one overwriting Set)")
	wd := vh.NewWatchdog(rep, 180*time.Second)
	setupNamed()
	h := typeutil.MakeHasher()
	xl := &xlate{h: h, rep: rep}

	// ---- corpus first
	for _, c := range loadCorpus() {
		wd.Beat("corpus " + c.Name)
		for _, pr := range c.Pairs {
			x, y := build(pr[0]), build(pr[1])
			key := "corpus:" + c.Name
			r1, p1 := safeIdentical(x, y)
			r2, p2 := safeIdentical(y, x)
			if p1 != nil || p2 != nil {
				rep.Fail(vh.Failure{Key: key, What: "Identical panicked", Input: pr, Got: fmt.Sprint(p1, " / ", p2)})
			} else if r1 != r2 {
				rep.Fail(vh.Failure{Key: key, What: "not symmetric", Input: pr, Got: fmt.Sprint(r1, " / ", r2)})
			} else if r1 && h.Hash(x) != h.Hash(y) {
				rep.Fail(vh.Failure{Key: key, What: "identical types with different hashes", Input: pr})
			}
		}
		if len(c.Keys) > 0 {
			var ks []term
			for _, s := range c.Keys {
				ks = append(ks, term{s: s, t: build(s)})
			}
			runMap(ks, c.Ops, rep, "corpus:"+c.Name)
		}
	}

	// ---- universe
	at := atoms()
	d1 := leaves()
	pick := func(l []*spec) *spec { return l[rng.Intn(len(l))] }
	for _, x := range at {
		d1 = append(d1, expand(x, pick(at), pick(at))...)
	}
	upto1 := append(append([]*spec{}, at...), d1...)
	var d2 []*spec
	for _, x := range d1 {
		d2 = append(d2, expand(x, pick(upto1), pick(upto1))...)
	}
	specs := append([]*spec{}, upto1...)
	n2 := 1500
	if a.Thorough() {
		// 8000 (universe 22992 terms, 5.3e8 ordered pairs) did not finish the direct oracle in 20 CPU minutes;
		// 4000 gives 15000 terms / 2.3e8 pairs in ~40 s
		n2 = 4000
	}
	if a.N > 0 {
		n2 = a.N
	}
	// whole sibling groups (all rules applied to the same child) so that near-miss pairs stay together
	for len(specs) < len(upto1)+n2 {
		e := expand(pick(d1), pick(upto1), pick(upto1))
		specs = append(specs, e...)
	}
	if a.Thorough() {
		for k := 0; k < 1500; k++ {
			e := expand(pick(d2), pick(upto1), pick(d2))
			specs = append(specs, e[rng.Intn(len(e))])
		}
	}
	rep.Extra["terms_depth_le1"] = len(upto1)
	rep.Extra["terms_depth2_exhaustive_set"] = len(d2)
	n := len(specs)
	u := make([]term, 2*n)
	for i, s := range specs {
		u[i] = term{s: s, t: build(s), twin: n + i}
		u[n+i] = term{s: s, t: buildGen(s, 1), twin: i, g: 1} // the twin also uses the second Named node of every type name
	}
	for i := range u {
		wd.Beat("hash " + u[i].s.String())
		if p := vh.Catch(func() { u[i].hash = h.Hash(u[i].t) }); p != nil {
			rep.Fail(vh.Failure{Key: "hash:" + u[i].s.String(), What: "Hash panicked", Input: u[i].s, Got: fmt.Sprint(p)})
		}
		if c, err := xl.term(u[i].t, 0); err == nil {
			u[i].coq = c
		} else {
			rep.Dist("not-a-finite-tree(direct oracle only)")
		}
		rep.Dist(fmt.Sprintf("term:%s:depth%d", u[i].s.K, u[i].s.depth))
	}
	rep.Extra["universe_terms"] = len(u)
	m := directOracle(u, rep, wd)
	nident := 0
	for i := range u {
		for j := range u {
			if i != j && m[i].get(j) {
				nident++
			}
		}
	}
	rep.Extra["identical_ordered_pairs_x_ne_y"] = nident

	// ---- correspondence cases
	nblocks, nhist, perShard := 40, 120, 20
	if a.Thorough() {
		nblocks, nhist, perShard = 900, 2500, 110
	}
	nhs, env := xl.tables()
	cw := vh.NewCases(a, "From Coq Require Import List NArith ZArith.\nFrom Verif Require Import Common.GoStr C28.Model.\nImport ListNotations.\nOpen Scope Z_scope.", "case", "mismatches", perShard)
	idx := 0
	var blockCases, mapCases []string
	modelable := func(i int) bool { return u[i].coq != "" }
	for bI := 0; bI < nblocks; bI++ {
		var blk []int
		seen := map[int]bool{}
		add := func(i int) {
			if i >= 0 && i < len(u) && modelable(i) && !seen[i] && len(blk) < 26 {
				seen[i] = true
				blk = append(blk, i)
			}
		}
		start := rng.Intn(n)
		if bI == 0 {
			start = 0
		}
		for k := 0; k < 12; k++ {
			add((start + k) % n)
		}
		for k := 0; k < 6 && len(blk) > 0; k++ {
			add(u[blk[rng.Intn(len(blk))]].twin)
		}
		for len(blk) < 26 {
			add(rng.Intn(len(u)))
		}
		wd.Beat(fmt.Sprint("block ", bI))
		var ts, hs, rows []string
		var in []string
		for _, i := range blk {
			ts = append(ts, u[i].coq)
			hs = append(hs, fmt.Sprint(u[i].hash))
			in = append(in, u[i].s.String())
			var row []string
			for _, j := range blk {
				row = append(row, vh.CoqBool(m[i].get(j)))
				nt := u[i].s.K == u[j].s.K && u[i].s.K != "basic" && u[i].s.K != "named" && u[i].s.K != "alias"
				rep.Count(u[i].s.String()+"|"+u[j].s.String(), nt)
			}
			rows = append(rows, vh.CoqList(row, "bool"))
		}
		blockCases = append(blockCases, fmt.Sprintf("CTypes %d %s %s\n  %s\n  %s\n  %s", idx, nhs, env, vh.CoqList(ts, "ty"), vh.CoqList(hs, "Z"), vh.CoqList(rows, "(list bool)")))
		rep.CaseInput(idx, map[string]interface{}{"kind": "types", "terms": in})
		if bI%17 == 1 {
			rep.Sample(in[:6])
		}
		idx++
	}

	// key pools with forced collisions: equal hash, not identical (hash ignores field/method packages and method receivers)
	st := func(p int) *spec {
		return &spec{K: "struct", Fs: []fieldSpec{{Name: "a", Pkg: p, T: b(types.Int)}}}
	}
	collide := []*spec{st(0), st(1), st(2),
		{K: "sig", HasRecv: true, Recv: st(1)}, {K: "sig", HasRecv: true, Recv: st(2)},
		{K: "iface", Ms: []methSpec{{Name: "M", Pkg: 1}}}, {K: "iface", Ms: []methSpec{{Name: "M", Pkg: 1, Recv: "N1"}}}, {K: "iface", Ms: []methSpec{{Name: "M", Pkg: 1, Recv: "E1"}}},
		{K: "iface", Ms: []methSpec{{Name: "m", Pkg: 1}}}, {K: "iface", Ms: []methSpec{{Name: "m", Pkg: 2}}},
		{K: "array", A: b(types.Int), Len: -1}, {K: "array", A: b(types.Int), Len: 2147483647}}
	for hI := 0; hI < nhist; hI++ {
		wd.Beat(fmt.Sprint("history ", hI))
		var keys []term
		mk := func(s *spec) { keys = append(keys, term{s: s, t: build(s)}) }
		g := rng.Intn(len(collide))
		for k := 0; k < 5; k++ {
			mk(collide[(g+k)%len(collide)])
		}
		mk(keys[rng.Intn(len(keys))].s) // twins (pointer-disjoint, identical)
		mk(keys[rng.Intn(len(keys))].s)
		for len(keys) < 9 {
			i := rng.Intn(len(u))
			if modelable(i) && u[i].s.K != "basic" && u[i].s.K != "named" && u[i].s.K != "alias" && u[i].s.K != "nil" {
				mk(u[i].s)
			}
		}
		// twins over the second Named node of every type name: a named atom and a random composite already in the pool
		nmk := atoms()[10+rng.Intn(16)]
		mk(nmk)
		for _, s := range []*spec{nmk, keys[7+rng.Intn(2)].s} {
			keys = append(keys, term{s: s, t: buildGen(s, 1)})
		}
		var kc []string
		okc := true
		for i := range keys {
			c, err := xl.term(keys[i].t, 0)
			if err != nil {
				okc = false
			}
			kc = append(kc, c)
		}
		nops := 20 + rng.Intn(60)
		var ops []mapOp
		for k := 0; k < nops; k++ {
			key := rng.Intn(len(keys))
			if rng.Chance(1, 2) {
				key = rng.Intn(7) // stay in the colliding group
			}
			switch x := rng.Intn(20); {
			case x < 8:
				ops = append(ops, mapOp{Op: "set", Key: key, Val: 1000*hI + k + 1})
			case x < 12:
				ops = append(ops, mapOp{Op: "at", Key: key})
			case x < 17:
				ops = append(ops, mapOp{Op: "del", Key: key})
			case x < 18:
				ops = append(ops, mapOp{Op: "len"})
			default:
				ops = append(ops, mapOp{Op: "items"})
			}
		}
		ops = append(ops, mapOp{Op: "len"}, mapOp{Op: "items"})
		cops, couts, nt := runMap(keys, ops, rep, fmt.Sprint(hI))
		rep.Count(fmt.Sprint(specsOf(keys), ops), nt)
		rep.Dist(fmt.Sprintf("map_history_len:%d-%d", nops/20*20, nops/20*20+19))
		if okc {
			mapCases = append(mapCases, fmt.Sprintf("CMap %d %s\n  %s\n  %s\n  %s", idx, nhs, vh.CoqList(kc, "ty"), vh.CoqList(cops, "(mop N)"), vh.CoqList(couts, "(mout N)")))
			rep.CaseInput(idx, map[string]interface{}{"kind": "map", "keys": specsOf(keys), "ops": ops})
			idx++
		}
		if hI == 3 {
			rep.Sample(map[string]interface{}{"keys": specsOf(keys), "ops": ops[:8]})
		}
	}
	// interleave the (heavier) type blocks with the map histories so that the shards take similar time
	for i, j := 0, 0; i < len(blockCases) || j < len(mapCases); {
		if i < len(blockCases) && i*len(mapCases) <= j*len(blockCases) {
			cw.Add(blockCases[i])
			i++
		} else if j < len(mapCases) {
			cw.Add(mapCases[j])
			j++
		} else {
			cw.Add(blockCases[i])
			i++
		}
	}
	cw.Close()
	rep.Extra["type_blocks"] = nblocks
	rep.Extra["map_histories"] = nhist
	rep.Write()
}

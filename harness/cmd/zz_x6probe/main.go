package main

import (
	"fmt"
	"reflect"
	"unsafe"

	"github.com/cosmos72/gomacro/fast"
)

func envOf(ir *fast.Interp) *fast.Env {
	f := reflect.ValueOf(ir).Elem().FieldByName("env")
	return (*fast.Env)(unsafe.Pointer(f.Pointer()))
}

func try(srcs ...string) {
	ir := fast.New()
	ir.Eval("var g uint64 = 7")
	ir.Eval("var p *uint64")
	func() {
		defer func() {
			if r := recover(); r != nil {
				fmt.Println("PANIC", r)
			}
		}()
		for _, s := range srcs {
			ir.Eval(s)
		}
	}()
	fmt.Printf("taken=%v  %q\n", envOf(ir).IntAddressTaken, srcs)
}

func main() {
	try("p = &g")
	try("func af() *uint64 { return &g }", "p = af()")
	try("{ a1 := 1; p = &g; _ = a1 }")
	try("func() { p = &g }()")
	try("for i1 := 0; i1 < 1; i1++ { p = &g }")
	try("if a1 := 1; a1 > 0 { p = &g }")
	try("func af() *uint64 { var r *uint64; { a1 := 1; r = &g; _ = a1 }; return r }", "p = af()")
	try("func af() *uint64 { var r *uint64; func() { r = &g }(); return r }", "p = af()")
	try("func af() *uint64 { var r *uint64; for i1 := 0; i1 < 1; i1++ { r = &g }; return r }", "p = af()")
	try("func af() *uint64 { return func() *uint64 { return &g }() }", "p = af()")
	try("{ a1 := 1; { b1 := a1; p = &g; _ = b1 } }")
	try("switch a1 := 1; a1 { case 1: p = &g }")
	try("func af() (r *uint64) { r = &g; return }", "p = af()")
}

package main

import (
	"fmt"
	"os"

	"github.com/cosmos72/gomacro/fast"
)

func try(ir *fast.Interp, src string) {
	defer func() {
		if e := recover(); e != nil {
			fmt.Printf("%-70s => ERROR %v\n", src, e)
		}
	}()
	vs, _ := ir.Eval(src)
	var out []interface{}
	for _, v := range vs {
		out = append(out, v.Interface())
	}
	fmt.Printf("%-70s => %v\n", src, out)
}

func main() {
	ir := fast.New()
	ir.Eval("type B struct{ F [3]int64 }")
	for _, s := range os.Args[1:] {
		try(ir, s)
	}
}

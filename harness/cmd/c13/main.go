// c13: interrupts delivered while interpreted code runs (fast/code.go exec/reExecWithFlags polling, Interp.Interrupt).
// Part 1 (deterministic): a compiled hook delivers ir.Interrupt at its k-th call for every k <= K and counts later calls;
//
//	direct oracle: the evaluation ends with panic(base.SigInterrupt), at most 14 later (non-deferred) hook calls,
//	Run state clean afterwards, evaluation battery = uninterrupted interpreter; correspondence: the exact count of
//	later calls equals the Coq model's (cases_*.v).
//
// Part 2 (asynchronous): another goroutine delivers the interrupt after a random delay into tight loops without
//
//	calls: the evaluation must end with the interrupt panic within a time bound; same battery.
package main

import (
	"fmt"
	"strings"
	"time"

	L "verifh/c13lib"
	"verifh/vh"
)

type shape struct {
	Name   string
	Prog   *L.Program
	Form   string // Go source of the evaluated form
	CoqFm  string // Coq `form`
	Decls  []string
	Direct bool
	MaxK   int // > 0: the form terminates after MaxK hook calls; only k <= MaxK is enumerated
}

func callShape(name string, entry int, arg int, funcs ...[]L.Stmt) shape {
	p := (&L.Program{Funcs: funcs}).Build()
	return shape{Name: name, Prog: p, Form: fmt.Sprintf("f%d(%d)", entry, arg), CoqFm: fmt.Sprintf("(FCall %d %d)", entry, arg), Decls: p.Decls}
}

func directShape(name string, form []L.Stmt, funcs ...[]L.Stmt) shape {
	p := (&L.Program{Funcs: funcs}).Build()
	src, idx := p.BuildDirect(form)
	return shape{Name: name, Prog: p, Form: src, CoqFm: fmt.Sprintf("(FDirect %d)", idx), Decls: p.Decls, Direct: true}
}

func shapes(rng *vh.Rng, nRandom int) []shape {
	H, I, G := L.Hook(), L.Inc(), L.GInc()
	ss := []shape{
		directShape("for{hook}", L.B(L.Forever(H))),
		directShape("for{hook;hook}", L.B(L.Forever(H, H))),
		directShape("for{14 hooks}", L.B(L.Forever(H, H, H, H, H, H, H, H, H, H, H, H, H, H))),
		directShape("for{n++;hook}", L.B(L.Forever(I, H))),
		directShape("for{x++;hook;x++;x++}", L.B(L.Forever(G, H, G, G))),
		directShape("for{n++;if/else}", L.B(L.Forever(I, L.IfMod(2, 0, L.B(H), L.B(H, H))))),
		directShape("for{n++;if;hook}", L.B(L.Forever(I, L.IfMod(3, 1, L.B(H, G), nil), H))),
		directShape("for{n++;if/else deep}", L.B(L.Forever(I, L.IfMod(5, 2, L.B(G, L.IfMod(2, 0, L.B(H), L.B(G, H))), L.B(H, G, G, H))))),
		callShape("f(){for{hook}}", 0, 0, L.B(L.Forever(H))),
		callShape("f(){pre;for{hook}}", 0, 0, L.B(G, G, H, L.Forever(G, H))),
		directShape("for{g()}", L.B(L.Forever(L.Call(0, L.Const(0)))), L.B(H)),
		directShape("for{hook;g();hook}", L.B(L.Forever(H, L.Call(0, L.Const(0)), H)), L.B(G, H, G, H)),
		directShape("for{g(3)} g recursive", L.B(L.Forever(L.Call(0, L.Const(3)))), L.B(H, L.IfPos(L.Call(0, L.Dec())), H)),
		callShape("f(){for{g();hook}} g loops", 0, 0, L.B(L.Forever(L.Call(1, L.Const(0)), H)), L.B(L.ForLt(4, H, I), H)),
		callShape("g has for3", 0, 0, L.B(L.Forever(L.Call(1, L.Const(9)), H)), L.B(L.For3(3, H), G)),
		// no hook() before the deferred loop starts: an interrupt delivered earlier aborts the function body and the
		// deferred loop then runs (as Go's panic semantics demand) until a second interrupt
		callShape("deferred closure loops", 0, 0, L.B(G, L.DeferFunc(L.Const(0), L.Forever(H)))),
		callShape("deferred named loops", 0, 0, L.B(L.DeferCall(1, L.Const(0)), G, G), L.B(L.Forever(I, H))),
		callShape("defer hook; loop", 0, 0, L.B(L.DeferHook(), L.Forever(H))),
		callShape("hook; defer; defer; loop", 0, 0, L.B(H, L.DeferHook(), G, L.DeferFunc(L.Same(), H, H), L.Forever(H, G))),
		callShape("defers inside the loop", 0, 0, L.B(L.Forever(I, L.IfMod(7, 0, L.B(L.DeferHook()), nil), H))),
		callShape("defers inside the loop 2", 0, 0, L.B(L.Forever(I, H, L.IfMod(4, 1, L.B(L.DeferHook(), L.DeferHook()), L.B(G))))),
		callShape("loop calls function with defers", 0, 0, L.B(L.Forever(L.Call(1, L.Const(0)), H)), L.B(L.DeferHook(), H, L.DeferFunc(L.Const(0), H))),
		directShape("top-level block with defer", L.B(L.DeferHook(), L.Forever(H, G))),
		directShape("top-level deferred closure loops", L.B(G, L.DeferFunc(L.Const(0), L.Forever(G, H)))),
		callShape("recursion", 0, 0, L.B(H, L.Call(0, L.Inc_()))),
		callShape("recursion with work", 0, 0, L.B(H, G, L.IfMod(3, 0, L.B(H), nil), L.Call(0, L.Inc_()))),
		callShape("call chain in recursion", 0, 0, L.B(H, L.Call(1, L.Const(2)), L.Call(0, L.Inc_())), L.B(G, H, L.IfPos(L.Call(1, L.Dec())), H)),
		callShape("recursion with defers", 0, 0, L.B(L.IfMod(3, 0, L.B(L.DeferHook()), nil), H, L.Call(0, L.Inc_()))),
	}
	// terminating forms whose LAST hook call happens in a deferred call: the flag is then only seen by restore()
	for _, t := range []shape{
		callShape("terminating: deferred compiled hook is the last call", 0, 0, L.B(H, L.DeferHook(), H)),
		callShape("terminating: deferred closure makes the last call", 0, 0, L.B(L.DeferFunc(L.Const(0), G, H), H, G)),
		callShape("terminating: callee's deferred hook, caller ends", 0, 0, L.B(H, L.Call(1, L.Const(0))), L.B(L.DeferHook(), H)),
		directShape("terminating top-level block, deferred hook last", L.B(L.DeferHook(), H, G)),
	} {
		t.MaxK = 2
		if strings.Contains(t.Name, "compiled hook is the last") || strings.Contains(t.Name, "callee's") {
			t.MaxK = 3
		}
		ss = append(ss, t)
	}
	// random loop bodies
	for r := 0; r < nRandom; r++ {
		var gen func(depth int) []L.Stmt
		gen = func(depth int) []L.Stmt {
			var out []L.Stmt
			n := 1 + rng.Intn(4)
			for i := 0; i < n; i++ {
				switch x := rng.Intn(10); {
				case x < 4:
					out = append(out, H)
				case x < 6:
					out = append(out, G)
				case x < 7:
					out = append(out, L.Call(1, L.Const(rng.Intn(3))))
				case x < 9 && depth < 2:
					m := 2 + rng.Intn(4)
					var els []L.Stmt
					if rng.Bool() {
						els = gen(depth + 1)
					}
					out = append(out, L.IfMod(m, rng.Intn(m), gen(depth+1), els))
				default:
					out = append(out, H)
				}
			}
			return out
		}
		body := append([]L.Stmt{I}, gen(0)...)
		body = append(body, H)
		callee := []L.Stmt{H}
		if rng.Bool() {
			callee = L.B(L.ForLt(2+rng.Intn(3), H, I), G)
		}
		pre := []L.Stmt{}
		if rng.Chance(1, 3) {
			pre = append(pre, L.DeferHook())
		}
		pre = append(pre, L.Forever(body...))
		ss = append(ss, callShape(fmt.Sprintf("random#%d", r), 0, 0, pre, callee))
	}
	return ss
}

type caseIn struct {
	Shape string   `json:"shape"`
	Decls []string `json:"decls"`
	Form  string   `json:"form"`
	K     int      `json:"k"`
	Async bool     `json:"async,omitempty"`
}

func mkProbe(sh shape) *L.Probe {
	pr := L.NewProbe()
	for i := len(sh.Decls) - 1; i >= 0; i-- { // callees first: a function may only call itself or higher-numbered functions
		pr.Ir.Eval(sh.Decls[i])
	}
	return pr
}

var cleanSnap = func() L.Snap { return L.NewProbe().Snapshot() }()

// fields of the Run record that must be back to their idle values after an evaluation was aborted by an interrupt
// (Interrupt, Sync, InstallDefer are excluded: written before every read, see coq/C12/Props.v; prepareEnv clears Sync)
func snapProblems(s L.Snap) []string {
	var out []string
	c := cleanSnap
	chk := func(name string, a, b interface{}) {
		if a != b {
			out = append(out, fmt.Sprintf("%s=%v want %v", name, a, b))
		}
	}
	chk("ExecFlags", s.ExecFlags, c.ExecFlags)
	chk("Signals.Debug", s.Debug, c.Debug)
	chk("Signals.Async", s.Async, c.Async)
	chk("CurrEnvNil", s.CurrEnvNil, c.CurrEnvNil)
	chk("DeferOfFunNil", s.DeferOfFunNil, c.DeferOfFunNil)
	chk("PanicFunNil", s.PanicFunNil, c.PanicFunNil)
	chk("DebugDepth", s.DebugDepth, c.DebugDepth)
	chk("CallDepth", s.CallDepth, c.CallDepth)
	return out
}

func main() {
	a := vh.ParseArgs()
	rng := vh.NewRng(a.Seed)
	K, nRandom, nAsync := 200, 12, 60
	perShard := 700
	if a.Thorough() {
		// K=2000 with 700 cases per shard gave 63 case files, 27 min wall on the loaded machine (model evaluation cost grows
		// with k: a shard of k=1400..2000 alone took 67 s); K=1500 and 1300 cases per shard: <= 32 shards
		K, nRandom, nAsync = 1500, 40, 1500
		perShard = 1300
	}
	if a.N > 0 {
		K = a.N
	}
	rep := vh.NewReport(a, fmt.Sprintf("part 1: 28 fixed loop shapes + 4 terminating forms whose last hook call is deferred (plain loops, if/else bodies, nested calls, loops inside called functions, "+
		"deferred closures/functions containing the loop, defer statements before and inside the loop, top-level blocks, recursion) + %d PRNG loop bodies; "+
		"for each shape and EVERY k in 1..%d (thorough: 1..1500 for the 12 basic shapes, 1..500 for the other fixed, 1..300 for PRNG shapes) the compiled hook calls Interp.Interrupt at its k-th call (one interpreter serves 16 consecutive k, then a fresh one); observed = number of later hook calls, panic class; "+
		"part 2: %d asynchronous deliveries from another goroutine a PRNG delay (0..3ms) after the evaluation signalled that it started running, into 6 call-free tight loops (time bound 5s); "+
		"after every case the Run record is compared with an idle interpreter's; after k<=16, k multiple of 14 or 15, k=71, k=K and after every async case a 22-evaluation battery is compared with an uninterrupted interpreter holding the same definitions; "+
		"part 3: every shape x k in 1..16 (thorough 1..64) + {28,29,30,42,45,56,70,71,85,100} under OptDebugger only, OptCtrlCEnterDebugger only (both must behave as the defaults: interrupt panic, same later count, debugger never called) and both options with a counting debugger installed (the debugger must be entered and its panic request must stop the evaluation); "+
		"a case is non-trivial when the interrupt was delivered while interpreted code was running (always); distinct by SHA-256 of (shape source, k)", nRandom, K, nAsync))
	wd := vh.NewWatchdog(rep, 180*time.Second) // generous: the machine may be heavily loaded; a real hang is still reported
	cw := vh.NewCases(a, "From Coq Require Import List Arith ZArith.\nFrom Verif Require Import C13.Model.\nImport ListNotations.", "case", "mismatches", perShard)

	idx := 0
	maxLater := 0
	allShapes := shapes(rng, nRandom)
	defLater := map[string]int{}
	for si, sh := range allShapes {
		wantBattery := mkProbe(sh).RunBattery()
		coqProg := sh.Prog.CoqProg()
		src := strings.Join(sh.Decls, " ; ") + " ;; " + sh.Form
		var pr *L.Probe
		Ksh := K
		if sh.MaxK > 0 {
			Ksh = sh.MaxK
		}
		// thorough: the first 12 (basic) shapes get every k <= 1500, the other fixed shapes every k <= 500,
		// the PRNG shapes every k <= 300 (model evaluation cost grows with k)
		if strings.HasPrefix(sh.Name, "random#") && Ksh > 300 {
			Ksh = 300
		} else if si >= 12 && Ksh > 500 {
			Ksh = 500
		}
		for k := 1; k <= Ksh; k++ {
			in := caseIn{Shape: sh.Name, Decls: sh.Decls, Form: sh.Form, K: k}
			wd.Beat(in)
			key := fmt.Sprintf("%s|k=%d", src, k)
			fail := func(what string, got, want interface{}) {
				rep.Fail(vh.Failure{Key: key, What: what, Input: in, Got: got, Want: want})
			}
			// one interpreter per shape is reused for consecutive k (every interrupted evaluation is then also a
			// "later evaluation" of the previous ones); a fresh one is taken every 16th k
			if pr == nil || k%16 == 1 {
				pr = mkProbe(sh)
				pr.Runaway = 5000
			}
			if sh.Direct {
				pr.Eval("n = 0")
			}
			pr.Arm(k, "interrupt")
			_, pk := pr.Eval(sh.Form)
			later, laterD := pr.Later, pr.LaterD
			defLater[fmt.Sprintf("%s|%d", sh.Name, k)] = later
			// ---- direct oracle
			if pk != "interrupt" {
				fail("evaluation did not end with panic(SigInterrupt)", pk, "interrupt")
			}
			if later-laterD > 14 {
				fail("more than 14 further (non-deferred) hook calls after the interrupt was delivered", later-laterD, "<=14")
			}
			if later-laterD > maxLater {
				maxLater = later - laterD
			}
			if bad := snapProblems(pr.Snapshot()); len(bad) > 0 {
				fail("Run record not idle after the interrupted evaluation", bad, nil)
			}
			if k <= 16 || k%14 == 0 || k%15 == 0 || k == 71 || k == Ksh {
				got := pr.RunBattery()
				for i := range got {
					if got[i] != wantBattery[i] {
						fail("battery evaluation differs from the uninterrupted interpreter: "+L.Battery[i], got[i], wantBattery[i])
						break
					}
				}
				rep.Dist("battery_runs")
			}
			// ---- correspondence
			cw.Add(fmt.Sprintf("mkCase %d %s %s %d %d %s", idx, coqProg, sh.CoqFm, k, later, vh.CoqBool(pk == "interrupt")))
			rep.CaseInput(idx, in)
			rep.Count(key, true)
			rep.Dist("shape:" + sh.Name)
			rep.Dist(fmt.Sprintf("later:%d", later))
			if idx%997 == 5 {
				rep.Sample(map[string]interface{}{"input": in, "later": later, "panic": pk})
			}
			idx++
		}
	}
	cw.Close()
	rep.Extra["max_later_nondeferred"] = maxLater

	// ---- part 2: asynchronous delivery into tight loops without calls
	// every form calls the compiled function started() once, BEFORE its loop: the interrupt is delivered only after
	// the evaluation has begun to run (an interrupt that arrives while the source is still being compiled is
	// discarded by prepareEnv on purpose - "in case we received a SigInterrupt in the meantime" - and is not the
	// subject of the property)
	tight := []struct{ decl, form string }{
		{"", "{ started(); for { } }"},
		{"", "{ started(); for { n++ } }"},
		{"", "{ started(); for { x++; if x%3 == 0 { n++ } else { n-- } } }"},
		{"func t0(n int) { started(); for { n++ } }", "t0(0)"},
		{"func t1(n int) { started(); for { for j := 0; j < 10; j++ { n += j } } }", "t1(0)"},
		{"func t2(n int) { defer func() { started(); for { x++ } }() }", "t2(0)"},
	}
	startCh := make(chan struct{}, 1)
	newTight := func(decl string) *L.Probe {
		pr := L.NewProbe()
		pr.Ir.DeclFunc("started", func() {
			select {
			case startCh <- struct{}{}:
			default:
			}
		})
		if decl != "" {
			pr.Ir.Eval(decl)
		}
		return pr
	}
	var wantB [][]string
	for _, t := range tight {
		wantB = append(wantB, newTight(t.decl).RunBattery())
	}
	maxStop := time.Duration(0)
	for c := 0; c < nAsync; c++ {
		ti := rng.Intn(len(tight))
		t := tight[ti]
		delay := time.Duration(rng.Intn(3000)) * time.Microsecond
		in := caseIn{Shape: "async", Decls: []string{t.decl}, Form: t.form, K: int(delay / time.Microsecond), Async: true}
		wd.Beat(in)
		key := fmt.Sprintf("async|%s|%s", t.decl, t.form)
		pr := newTight(t.decl)
		select { // drain
		case <-startCh:
		default:
		}
		done := make(chan time.Time, 1)
		go func() {
			<-startCh
			time.Sleep(delay)
			done <- time.Now()
			pr.Ir.Interrupt(nil)
		}()
		_, pk := pr.Eval(t.form)
		t1 := time.Now()
		t0 := <-done
		if d := t1.Sub(t0); d > maxStop {
			maxStop = d
		}
		if pk != "interrupt" {
			rep.Fail(vh.Failure{Key: key, What: "tight loop did not end with panic(SigInterrupt)", Input: in, Got: pk, Want: "interrupt"})
		}
		if t1.Sub(t0) > 5*time.Second {
			rep.Fail(vh.Failure{Key: key, What: "tight loop stopped too late after the interrupt", Input: in, Got: t1.Sub(t0).String(), Want: "<5s"})
		}
		if bad := snapProblems(pr.Snapshot()); len(bad) > 0 {
			rep.Fail(vh.Failure{Key: key, What: "Run record not idle after the interrupted evaluation", Input: in, Got: bad})
		}
		got := pr.RunBattery()
		for i := range got {
			if got[i] != wantB[ti][i] {
				rep.Fail(vh.Failure{Key: key, What: "battery evaluation differs from the uninterrupted interpreter: " + L.Battery[i], Input: in, Got: got[i], Want: wantB[ti][i]})
				break
			}
		}
		rep.Count(fmt.Sprintf("%s|%d|%d", key, delay, c), true)
		rep.Dist("async:" + t.form)
	}
	rep.Extra["async_max_stop_latency_us"] = maxStop.Microseconds()

	// ---- part 3: the deterministic matrix under the other combinations of OptDebugger / OptCtrlCEnterDebugger (options.go)
	optionMatrix(a, rep, wd, allShapes, defLater)
	rep.Write()
}

// Part 3 of c13: the deterministic interrupt matrix under the other three combinations of base.OptDebugger /
// base.OptCtrlCEnterDebugger (part 1 runs with the fast.New() defaults: neither set).
//
// base/type.go: "OptCtrlCEnterDebugger: Ctrl+C enters the debugger instead of injecting a panic. requires OptDebugger".
// Direct oracle:
//   - exactly one of the two options set: the interrupt must behave as with the defaults: the evaluation ends with
//     panic(SigInterrupt), the number of later hook calls equals the one observed with the default options for the
//     same (shape, k), the installed debugger is never called;
//   - both set and a debugger installed: the evaluation must enter the debugger (Debugger.At called) after a bounded
//     number of further hook calls and stop when the debugger answers with a panic request.
//
// In every combination the Run record must be idle afterwards and the battery must equal the one of an interpreter
// with the same options that was never interrupted (and must not call the debugger).
package main

import (
	"fmt"
	"strings"

	"github.com/cosmos72/gomacro/base"
	"github.com/cosmos72/gomacro/fast"

	L "verifh/c13lib"
	"verifh/vh"
)

const debuggerStop = "debugger-stop"

// countingDebugger counts its callbacks and asks to terminate the evaluation with panic(debuggerStop)
type countingDebugger struct {
	at, bp int
}

func (d *countingDebugger) op() fast.DebugOp {
	var p interface{} = debuggerStop
	return fast.DebugOp{Depth: 0, Panic: &p}
}
func (d *countingDebugger) Breakpoint(ir *fast.Interp, env *fast.Env) fast.DebugOp {
	d.bp++
	return d.op()
}
func (d *countingDebugger) At(ir *fast.Interp, env *fast.Env) fast.DebugOp {
	d.at++
	return d.op()
}

type optCombo struct {
	Name  string
	Opts  base.Options
	Enter bool // documented behaviour: the interrupt enters the debugger
}

var optCombos = []optCombo{
	{"OptDebugger", base.OptDebugger, false},
	{"OptCtrlCEnterDebugger", base.OptCtrlCEnterDebugger, false},
	{"OptDebugger|OptCtrlCEnterDebugger", base.OptDebugger | base.OptCtrlCEnterDebugger, true},
}

type optIn struct {
	Shape   string   `json:"shape"`
	Options string   `json:"options"`
	Decls   []string `json:"decls"`
	Form    string   `json:"form"`
	K       int      `json:"k"`
}

func mkProbeOpt(sh shape, c optCombo) (*L.Probe, *countingDebugger) {
	pr := L.NewProbe()
	pr.Ir.Comp.Globals.Options |= c.Opts // before the declarations: OptDebugger is read when functions are compiled
	d := &countingDebugger{}
	pr.Ir.SetDebugger(d)
	for i := len(sh.Decls) - 1; i >= 0; i-- {
		pr.Ir.Eval(sh.Decls[i])
	}
	return pr, d
}

// optionMatrix: defLater[shape index][k] = later hook calls observed by part 1 (default options)
func optionMatrix(a *vh.Args, rep *vh.Report, wd *vh.Watchdog, all []shape, defLater map[string]int) {
	ks := []int{}
	kmax := 16
	if a.Thorough() {
		kmax = 64
	}
	for k := 1; k <= kmax; k++ {
		ks = append(ks, k)
	}
	for _, k := range []int{28, 29, 30, 42, 45, 56, 70, 71, 85, 100} {
		if k > kmax {
			ks = append(ks, k)
		}
	}
	maxEnter := 0
	for _, sh := range all {
		src := strings.Join(sh.Decls, " ; ") + " ;; " + sh.Form
		for _, c := range optCombos {
			if c.Enter && sh.MaxK > 0 {
				// terminating forms whose last hook call is deferred: the evaluation is over before the request is seen
				continue
			}
			wpr, wd0 := mkProbeOpt(sh, c)
			wantBattery := wpr.RunBattery()
			if wd0.at+wd0.bp != 0 {
				rep.Fail(vh.Failure{Key: "options|" + c.Name + "|battery", What: "debugger called by an uninterrupted battery", Input: c.Name, Got: wd0.at + wd0.bp, Want: 0})
			}
			var pr *L.Probe
			var dbg *countingDebugger
			for _, k := range ks {
				if sh.MaxK > 0 && k > sh.MaxK {
					break
				}
				in := optIn{Shape: sh.Name, Options: c.Name, Decls: sh.Decls, Form: sh.Form, K: k}
				wd.Beat(in)
				key := fmt.Sprintf("options=%s|%s|k=%d", c.Name, src, k)
				fail := func(what string, got, want interface{}) {
					rep.Fail(vh.Failure{Key: key, What: what, Input: in, Got: got, Want: want})
				}
				if pr == nil || k%16 == 1 {
					pr, dbg = mkProbeOpt(sh, c)
					pr.Runaway = 5000
				}
				if sh.Direct {
					pr.Eval("n = 0")
				}
				dbg.at, dbg.bp = 0, 0
				pr.Arm(k, "interrupt")
				_, pk := pr.Eval(sh.Form)
				later, laterD := pr.Later, pr.LaterD
				if c.Enter {
					if dbg.at == 0 {
						fail("both debugger options set: the interrupt did not enter the debugger", fmt.Sprintf("At calls=0 panic=%q later=%d", pk, later), "Debugger.At called")
					}
					if pk != "other:"+debuggerStop {
						fail("both debugger options set: the evaluation did not stop when the debugger asked to terminate it", pk, "other:"+debuggerStop)
					}
					if later-laterD > maxEnter {
						maxEnter = later - laterD
					}
					if later-laterD > 15 {
						fail("both debugger options set: more than 15 further (non-deferred) hook calls before the debugger was entered", later-laterD, "<=15")
					}
				} else {
					if pk != "interrupt" {
						fail("evaluation did not end with panic(SigInterrupt) although only one of OptDebugger/OptCtrlCEnterDebugger is set", fmt.Sprintf("panic=%q later=%d debugger calls=%d", pk, later, dbg.at+dbg.bp), "interrupt")
					}
					if later-laterD > 14 {
						fail("more than 14 further (non-deferred) hook calls after the interrupt was delivered", later-laterD, "<=14")
					}
					if w, ok := defLater[fmt.Sprintf("%s|%d", sh.Name, k)]; ok && w != later {
						fail("number of later hook calls differs from the run with default options", later, w)
					}
					if dbg.at+dbg.bp != 0 {
						fail("debugger called although the interrupt must not enter it", dbg.at+dbg.bp, 0)
					}
				}
				if c.Enter {
					// a single-stepped evaluation aborted by a panic leaves the debug fields of the Run record set; they are
					// rewritten by the next RunExpr before they are read (coq/C12): the record is compared after one plain
					// evaluation, which must neither call the debugger nor panic
					dbg.at, dbg.bp = 0, 0
					if v, p := pr.Eval("40 + 2"); v != "42" || p != "" || dbg.at+dbg.bp != 0 {
						fail("plain evaluation after the debugger stopped the interrupted one", fmt.Sprintf("value=%s panic=%q debugger calls=%d", v, p, dbg.at+dbg.bp), "value=42 panic=\"\" debugger calls=0")
					}
				}
				if bad := snapProblems(pr.Snapshot()); len(bad) > 0 {
					fail("Run record not idle after the interrupted evaluation", bad, nil)
				}
				if k <= 3 || k%14 == 0 || k%15 == 0 || k == ks[len(ks)-1] {
					dbg.at, dbg.bp = 0, 0
					got := pr.RunBattery()
					for i := range got {
						if got[i] != wantBattery[i] {
							fail("battery evaluation differs from the uninterrupted interpreter: "+L.Battery[i], got[i], wantBattery[i])
							break
						}
					}
					if dbg.at+dbg.bp != 0 {
						fail("debugger called during the battery after the interrupted evaluation", dbg.at+dbg.bp, 0)
					}
					rep.Dist("options_battery_runs")
				}
				rep.Count(key, true)
				rep.Dist("options:" + c.Name)
			}
		}
	}
	rep.Extra["options_max_later_before_debugger"] = maxEnter
}

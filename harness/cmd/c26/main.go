// c26: correspondence + direct oracles for base/read.go ReadMultiline (multiline reader), driven exactly like
// fast.Interp.EvalReader: a BufReadline over a bufio.Reader, first call with ReadOptCollectAllComments, then plain
// calls until "" / -1 comes back.
//
// Inputs: (a) corpus/C26/*.txt (exact inputs of past findings), (b) sequences of line templates (bounded-exhaustive up to
// a length, sampled above), (c) files of $GOROOT/src (quick: a sample, thorough: all) and prefixes of small ones.
// Direct oracles (never the Coq model):
//
//	O1 lossless: concatenation of the chunks == delivered lines, except "#!" -> "//" where go/scanner sees a comment start
//	O2 never inside: no non-final chunk ends inside a string / raw string / rune / comment token of go/scanner run over the
//	   whole text, nor with more opening than closing brackets
//	O3 chunk parses: when the whole input parses with the fork parser (base.Globals.ParseBytes), every chunk does too
//	   (a cut after '.' or ':' is counted as outside_statement and the chunk is merged with the next one)
//	O4 continuation: the last token of a non-final chunk is no binary operator, comma, opening bracket
//	O5 keyword: ... and no keyword other than break/continue/fallthrough/return
//	O6 no run-on: when the whole input parses, the reader does not end with io.ErrUnexpectedEOF
//
// Correspondence: cases_NNN.v hold input bytes, delivered line lengths, observed chunks (length, firstToken, error),
// rewrite offsets and the go/scanner byte classification; Verif.C26.Model recomputes all of them.
package main

import (
	"bufio"
	"bytes"
	"encoding/hex"
	"encoding/json"
	"fmt"
	"go/scanner"
	"go/token"
	"io"
	"os"
	"os/exec"
	"path/filepath"
	"runtime"
	"sort"
	"strings"
	"time"

	"github.com/cosmos72/gomacro/base"
	"verifh/vh"
)

// ---------------------------------------------------------------- running the real reader

type recRL struct {
	in    base.Readline
	lines [][]byte
	eof   bool
	errs  []string // errors other than io.EOF returned by the line reader
}

func (r *recRL) Read(prompt string) ([]byte, error) {
	l, err := r.in.Read(prompt)
	if !r.eof {
		r.lines = append(r.lines, append([]byte(nil), l...)) // copy: ReadMultiline rewrites "#!" in place
	}
	if err == io.EOF {
		r.eof = true
	} else if err != nil {
		// not the end of the stream: keep recording (the bytes that follow are still delivered)
		r.errs = append(r.errs, err.Error())
	}
	return l, err
}

type chunk struct {
	Src   string
	First int
	Err   string // "", "EOF", "UnexpectedEOF", or other text
}

type obs struct {
	chunks  []chunk
	lines   [][]byte
	panic   interface{}
	runaway bool
	rlErrs  []string
}

func runReader(input string, allc bool) obs {
	var o obs
	rl := &recRL{in: base.MakeBufReadline(bufio.NewReader(strings.NewReader(input)))}
	o.panic = vh.Catch(func() {
		var opts base.ReadOptions
		if allc {
			opts = base.ReadOptCollectAllComments
		}
		for k := 0; ; k++ {
			if k > len(input)+4 {
				o.runaway = true
				return
			}
			src, ft, err := base.ReadMultiline(rl, opts, "")
			opts = 0
			if len(src) == 0 && ft < 0 {
				return
			}
			e := ""
			switch err {
			case nil:
			case io.EOF:
				e = "EOF"
			case io.ErrUnexpectedEOF:
				e = "UnexpectedEOF"
			default:
				e = "other: " + err.Error()
			}
			o.chunks = append(o.chunks, chunk{src, ft, e})
		}
	})
	o.lines = rl.lines
	o.rlErrs = rl.errs
	return o
}

// runWrapper reads the same input through Globals.ReadMultiline, the method every consumer of the reader calls
// (fast.Interp.Read / EvalReader / EvalFile, cmd -m -w, the classic interpreter, the debugger), driven exactly like
// EvalReader + ReadParseEvalPrint: the loop ends when "" / -1 comes back.  The method drops the reader's error value:
// the chunk that arrives together with io.EOF (last line without final newline) must still be delivered.
func runWrapper(g *base.Globals, input string, allc bool) (chunks []chunk, panicked interface{}, runaway bool) {
	save := g.Readline
	defer func() { g.Readline = save }()
	g.Readline = base.MakeBufReadline(bufio.NewReader(strings.NewReader(input)))
	panicked = vh.Catch(func() {
		var opts base.ReadOptions
		if allc {
			opts = base.ReadOptCollectAllComments
		}
		for k := 0; ; k++ {
			if k > len(input)+4 {
				runaway = true
				return
			}
			src, ft := g.ReadMultiline(opts, "")
			opts = 0
			if len(src) == 0 && ft < 0 {
				return
			}
			chunks = append(chunks, chunk{src, ft, ""})
		}
	})
	return
}

// ---------------------------------------------------------------- go/scanner view of a text

type tok struct {
	pos, end int
	tok      token.Token
	auto     bool // automatically inserted semicolon
}

type scanned struct {
	toks   []tok
	errors int
	class  []byte // per byte: 0 code 1 string 2 raw string 3 rune 4 line comment 5 block comment
}

var ps = []byte{0xe2, 0x80, 0xa9}

func scanText(text []byte) *scanned {
	sc := &scanned{class: make([]byte, len(text))}
	fset := token.NewFileSet()
	f := fset.AddFile("x.go", -1, len(text))
	var s scanner.Scanner
	s.Init(f, text, func(pos token.Position, msg string) { sc.errors++ }, scanner.ScanComments)
	for {
		p, t, lit := s.Scan()
		if t == token.EOF {
			break
		}
		pos := f.Offset(p)
		end := pos + len(lit)
		var cl byte
		switch t {
		case token.STRING:
			if len(lit) > 0 && lit[0] == '`' {
				cl = 2
				if j := bytes.IndexByte(text[pos+1:], '`'); j >= 0 { // the literal text has its \r removed
					end = pos + 1 + j + 1
				} else {
					end = len(text)
				}
			} else {
				cl = 1
			}
		case token.CHAR:
			cl = 3
		case token.COMMENT:
			if strings.HasPrefix(lit, "//") {
				cl = 4
				if j := bytes.IndexByte(text[pos:], '\n'); j >= 0 {
					end = pos + j
				} else {
					end = len(text)
				}
			} else {
				cl = 5
				if j := bytes.Index(text[pos+2:], []byte("*/")); j >= 0 {
					end = pos + 2 + j + 2
				} else {
					end = len(text)
				}
			}
		default:
			if lit == "" {
				end = pos + len(t.String())
			}
		}
		if end > len(text) {
			end = len(text)
		}
		auto := t == token.SEMICOLON && lit == "\n"
		if auto {
			end = pos
		}
		for i := pos; i < end && cl != 0; i++ {
			sc.class[i] = cl
		}
		sc.toks = append(sc.toks, tok{pos, end, t, auto})
	}
	return sc
}

func rle(cl []byte) string {
	var parts []string
	for i := 0; i < len(cl); {
		j := i
		for j < len(cl) && cl[j] == cl[i] {
			j++
		}
		parts = append(parts, fmt.Sprintf("(%d%%N, %d)", cl[i], j-i))
		i = j
	}
	return vh.CoqList(parts, "(N * Z)")
}

func isContinuationTok(t token.Token) bool {
	switch t {
	case token.ADD, token.SUB, token.MUL, token.QUO, token.REM, token.AND, token.OR, token.XOR, token.SHL, token.SHR, token.AND_NOT,
		token.ADD_ASSIGN, token.SUB_ASSIGN, token.MUL_ASSIGN, token.QUO_ASSIGN, token.REM_ASSIGN, token.AND_ASSIGN, token.OR_ASSIGN,
		token.XOR_ASSIGN, token.SHL_ASSIGN, token.SHR_ASSIGN, token.AND_NOT_ASSIGN, token.LAND, token.LOR, token.ARROW,
		token.EQL, token.LSS, token.GTR, token.ASSIGN, token.NOT, token.NEQ, token.LEQ, token.GEQ, token.DEFINE,
		token.COMMA, token.LPAREN, token.LBRACK, token.LBRACE:
		return true
	}
	return false
}

func isContinuationKeyword(t token.Token) bool {
	if !t.IsKeyword() {
		return false
	}
	switch t {
	case token.BREAK, token.CONTINUE, token.FALLTHROUGH, token.RETURN:
		return false
	}
	return true
}

// ---------------------------------------------------------------- oracles + case emission

type env struct {
	a     *vh.Args
	rep   *vh.Report
	cw    *vh.Cases
	wd    *vh.Watchdog
	g     *base.Globals
	idx   int
	extra map[string]int
	known map[string]bool // keys of status "known" entries of known_findings.json
	gw    *base.Globals   // Globals whose ReadMultiline method (the wrapper used by all consumers) reads every input once more
	// correspondence cases with long lines go to a shard of their own (cost is per byte, not per case)
	toLong    bool
	longCases []string
	wrapCases []string // cases for Verif.C26.Wrapper (cases_wrap_NNN.v)
}

func (e *env) parses(src string) bool {
	ok := true
	if p := vh.Catch(func() { e.g.ParseBytes([]byte(src)) }); p != nil {
		ok = false
	}
	return ok
}

func short(s string) string {
	if len(s) > 400 {
		return s[:400] + fmt.Sprintf("...(%d bytes)", len(s))
	}
	return s
}

// check runs the real reader on input and applies the oracles; toCoq: also emit a correspondence case.
// wantParse: apply O3 (the caller knows the input is a sequence of complete statements iff the whole input parses).
func (e *env) check(kind, name, input string, allc, toCoq, wantParse bool) {
	e.wd.Beat(map[string]string{"kind": kind, "name": name, "input": short(input)})
	key := kind + ":" + name
	if strings.HasPrefix(kind, "corpus") {
		key = "corpus:" + strings.TrimSuffix(name, ".txt") // the keys used in known_findings.json
	}
	// corpus files known-*.txt hold the exact inputs of (proposed) known findings: they are replayed with the strict
	// oracles (no tolerance for U+2029, no exclusion of Go 1.18 '~'); the failure is reported only when the key is
	// listed in known_findings.json (then ./check prints KNOWN-FINDING), otherwise it is noted in the evidence
	strict := strings.HasPrefix(key, "corpus:known-")
	fail := func(what string, got, want interface{}) {
		if strict && !e.known[key] {
			e.extra["proposed_known_finding_reproduced:"+key+": "+what]++
			return
		}
		e.rep.Fail(vh.Failure{Key: key, What: what, Input: map[string]interface{}{"kind": kind, "name": name, "allcomments_first": allc, "input": short(input), "input_len": len(input), "input_hex_prefix": hex.EncodeToString([]byte(short(input)))}, Got: got, Want: want})
		e.extra["fail:"+what]++
	}
	o := runReader(input, allc)
	if o.panic != nil {
		fail("ReadMultiline panicked", fmt.Sprint(o.panic), nil)
		return
	}
	if o.runaway {
		fail("reader loop does not end", nil, nil)
		return
	}
	if len(o.rlErrs) > 0 {
		fail("the line reader returned an error before the end of the stream: "+o.rlErrs[0], map[string]interface{}{"errors": len(o.rlErrs), "line_lengths": lineLens(o.lines)}, nil)
	}
	// ---- O1
	delivered := bytes.Join(o.lines, nil)
	if strict && !bytes.Equal(delivered, []byte(input)) {
		fail("O1 BufReadline delivered other bytes than the stream (U+2029 replaced by newline)", short(string(delivered)), short(input))
		return
	}
	if want := bytes.Replace([]byte(input), ps, []byte{'\n'}, -1); !bytes.Equal(delivered, want) {
		fail("BufReadline delivered other bytes than the stream", short(string(delivered)), short(string(want)))
		return
	}
	var outb strings.Builder
	otherErr := false
	for i, c := range o.chunks {
		outb.WriteString(c.Src)
		if strings.HasPrefix(c.Err, "other") {
			fail("ReadMultiline returned an error: "+c.Err, c.Src, nil)
			otherErr = true
		}
		if c.Err != "" && i != len(o.chunks)-1 {
			fail("error before the last chunk", c.Err, nil)
		}
	}
	out := []byte(outb.String())
	var rw []int
	lossless := len(out) == len(delivered)
	if lossless {
		for i := 0; i < len(out); i++ {
			if out[i] != delivered[i] {
				if i+1 < len(out) && delivered[i] == '#' && delivered[i+1] == '!' && out[i] == '/' && out[i+1] == '/' {
					rw = append(rw, i)
					i++
				} else {
					lossless = false
					break
				}
			}
		}
	}
	if !lossless {
		fail("O1 concatenation of chunks != input", short(string(out)), short(string(delivered)))
		return
	}
	_ = otherErr // (already reported; the chunks are still judged by O2-O5: an error does not excuse a cut inside a literal)
	var wobs []chunk
	haveW := false
	// ---- O1 once more, on what the consumers of the reader receive (Globals.ReadMultiline)
	if len(o.rlErrs) == 0 {
		if e.gw == nil {
			e.gw = base.NewGlobals()
			e.gw.Stderr, e.gw.Stdout = io.Discard, io.Discard
		}
		wc, wpanic, wrun := runWrapper(e.gw, input, allc)
		wobs, haveW = wc, wpanic == nil && !wrun
		var wb strings.Builder
		for _, c := range wc {
			wb.WriteString(c.Src)
		}
		switch {
		case wpanic != nil:
			fail("Globals.ReadMultiline panicked", fmt.Sprint(wpanic), nil)
		case wrun:
			fail("reader loop over Globals.ReadMultiline does not end", nil, nil)
		case wb.String() != string(out):
			lost := ""
			if strings.HasPrefix(string(out), wb.String()) {
				lost = string(out[len(wb.String()):])
			}
			fail("O1 concatenation of the chunks delivered by Globals.ReadMultiline (the reader as EvalReader / EvalFile / the REPL call it) != input: source text is lost",
				map[string]interface{}{"chunks_from_Globals.ReadMultiline": len(wc), "chunks_from_base.ReadMultiline": len(o.chunks), "lost_text": short(lost), "last_byte_is_newline": strings.HasSuffix(input, "\n")}, short(string(out)))
		default:
			for i := range wc {
				if i >= len(o.chunks) || wc[i].Src != o.chunks[i].Src || wc[i].First != o.chunks[i].First {
					fail("Globals.ReadMultiline delivers other chunks / firstToken offsets than base.ReadMultiline on the same input", map[string]interface{}{"chunk": i, "got": short(wc[i].Src), "first": wc[i].First}, nil)
					break
				}
			}
		}
		e.extra["inputs_also_read_through_Globals.ReadMultiline"]++
		if !strings.HasSuffix(input, "\n") && len(input) > 0 {
			e.rep.Dist("last-byte-not-newline")
			if n := len(o.chunks); n > 0 && o.chunks[n-1].First >= 0 {
				e.rep.Dist("last-byte-not-newline:final-chunk-has-tokens")
			}
		}
	}
	sc := scanText(out)
	for _, k := range rw {
		okStart := false
		for _, t := range sc.toks {
			if t.pos == k && t.tok == token.COMMENT {
				okStart = true
			}
		}
		if !okStart {
			fail("O1 '#!' rewritten to '//' where no comment starts", k, nil)
		}
	}
	// ---- O2, O4, O5 on the non-final chunks
	nontrivial := len(o.chunks) >= 2
	// Go >= 1.18 type sets (~T, ~[]byte) are not gomacro source: there '~' is the macro character and forms one token with the next byte
	hasTilde := false
	for _, t := range sc.toks {
		if t.tok == token.TILDE {
			hasTilde = true
		}
	}
	if hasTilde && !strict {
		e.extra["inputs_with_go1.18_tilde(O2-O5 skipped)"]++
	} else if sc.errors == 0 {
		off, ti := 0, 0
		for ci, c := range o.chunks {
			off += len(c.Src)
			if c.Err == "EOF" || c.Err == "UnexpectedEOF" || ci == len(o.chunks)-1 {
				break // the final chunk
			}
			depth, minDepth := 0, 0
			var last *tok
			for ; ti < len(sc.toks) && sc.toks[ti].pos < off; ti++ {
				t := &sc.toks[ti]
				switch t.tok {
				case token.LPAREN, token.LBRACK, token.LBRACE:
					depth++
				case token.RPAREN, token.RBRACK, token.RBRACE:
					depth--
				}
				if depth < minDepth {
					minDepth = depth
				}
				if t.tok != token.COMMENT && !t.auto {
					last = t
				}
				if t.end > off && (t.tok == token.STRING || t.tok == token.CHAR || t.tok == token.COMMENT) {
					fail("O2 chunk ends inside a "+t.tok.String()+" token", map[string]interface{}{"chunk": ci, "chunk_src": short(c.Src), "token_at": t.pos}, nil)
				}
			}
			if depth > 0 {
				fail("O2 chunk ends with unbalanced open brackets", map[string]interface{}{"chunk": ci, "chunk_src": short(c.Src), "depth": depth}, nil)
			}
			if last != nil && minDepth >= 0 && depth == 0 {
				if isContinuationTok(last.tok) {
					fail("O4 chunk ends after operator/comma/opening bracket "+last.tok.String(), map[string]interface{}{"chunk": ci, "chunk_src": short(c.Src)}, nil)
				}
				if isContinuationKeyword(last.tok) {
					fail("O5 chunk ends after keyword "+last.tok.String(), map[string]interface{}{"chunk": ci, "chunk_src": short(c.Src)}, nil)
				}
				if last.tok == token.PERIOD || last.tok == token.COLON {
					e.extra["cut_after_dot_or_colon"]++
				}
			}
		}
	} else {
		e.extra["inputs_with_scanner_errors(O2,O4,O5 skipped)"]++
	}
	// ---- O3
	if wantParse && sc.errors == 0 && !hasTilde && !strict {
		if e.parses(string(out)) {
			e.extra["O3_inputs_parsed_whole"]++
			for ci := 0; ci < len(o.chunks); ci++ {
				unit := o.chunks[ci].Src
				for !e.parses(unit) {
					// allowed only for a cut after '.' or ':' (outside the property's statement): merge with the next chunk
					us := scanText([]byte(unit))
					var last *tok
					for i := range us.toks {
						if t := &us.toks[i]; t.tok != token.COMMENT && !t.auto {
							last = t
						}
					}
					if last != nil && (last.tok == token.PERIOD || last.tok == token.COLON) && ci+1 < len(o.chunks) {
						e.extra["outside_statement"]++
						ci++
						unit += o.chunks[ci].Src
						continue
					}
					fail("O3 chunk does not parse on its own", map[string]interface{}{"chunk": ci, "chunk_src": short(unit)}, nil)
					break
				}
				e.extra["O3_chunks_parsed"]++
			}
			// ---- O6: the whole input is a sequence of complete statements (it parses, go/scanner reports no error): its
			// brackets are balanced, the reader must not end with "unexpected EOF" (= it still waits for a closing bracket)
			if n := len(o.chunks); n > 0 && o.chunks[n-1].Err == "UnexpectedEOF" {
				fail("O6 reader returns io.ErrUnexpectedEOF (open bracket at end of input) although the whole input parses: the last chunk runs on over complete statements",
					map[string]interface{}{"chunks": n, "last_chunk_src": short(o.chunks[n-1].Src)}, nil)
			}
			e.extra["O6_checked"]++
		} else {
			e.extra["O3_skipped_whole_input_does_not_parse"]++
		}
	}
	canon := fmt.Sprintf("%v|%s", allc, input)
	e.rep.Count(canon, nontrivial)
	e.rep.Dist("kind:" + kind)
	e.rep.Dist(fmt.Sprintf("chunks:%s", bucket(len(o.chunks))))
	if len(rw) > 0 {
		e.rep.Dist("hashbang_rewritten")
	}
	if toCoq && !strict {
		// lines delivered up to the first error
		var lens []string
		for _, l := range o.lines {
			lens = append(lens, fmt.Sprint(len(l)))
		}
		var rws []string
		for _, k := range rw {
			rws = append(rws, fmt.Sprint(k))
		}
		var cs []string
		for _, c := range o.chunks {
			er := "ENone"
			if c.Err == "EOF" {
				er = "EEOF"
			} else if c.Err == "UnexpectedEOF" {
				er = "EUnexpectedEOF"
			}
			cs = append(cs, fmt.Sprintf("mkO %d %s %s", len(c.Src), vh.CoqZ(int64(c.First)), er))
		}
		classes := "None"
		// the std scanner knows neither "#!" nor "~": compare classes only where it reports no error
		scIn := []byte(input)
		if bytes.HasPrefix(scIn, []byte("#!")) {
			scIn = append([]byte("//"), scIn[2:]...)
		}
		if si := scanText(scIn); si.errors == 0 && !bytes.Contains(scIn, ps) {
			classes = "(Some " + rle(si.class) + ")"
			e.extra["classification_compared_with_go/scanner"]++
		}
		term := fmt.Sprintf("mkCase %d %s false (unhex \"%s\") %s %s %s %s", e.idx, vh.CoqBool(allc), hex.EncodeToString([]byte(input)),
			vh.CoqList(lens, "Z"), vh.CoqList(rws, "Z"), vh.CoqList(cs, "ochunk"), classes)
		if e.toLong {
			e.longCases = append(e.longCases, term)
		} else {
			e.cw.Add(term)
			// the chunks Globals.ReadMultiline delivered, for Verif.C26.Wrapper (every input without final newline, 1/4 of the others)
			if haveW && (!strings.HasSuffix(input, "\n") || e.idx%4 == 0) {
				var ws []string
				for _, c := range wobs {
					ws = append(ws, fmt.Sprintf("(%d, %s)", len(c.Src), vh.CoqZ(int64(c.First))))
				}
				e.wrapCases = append(e.wrapCases, fmt.Sprintf("mkWCase %d %s (unhex \"%s\") %s", e.idx, vh.CoqBool(allc), hex.EncodeToString([]byte(input)), vh.CoqList(ws, "(Z * Z)")))
				e.extra["coq_wrapper_cases"]++
			}
		}
		e.rep.CaseInput(e.idx, map[string]interface{}{"kind": kind, "name": name, "allcomments_first": allc, "input": input})
		e.idx++
		e.extra["coq_cases"]++
		e.extra["coq_bytes"] += len(input)
	}
	if e.idx%53 == 7 {
		e.rep.Sample(map[string]interface{}{"kind": kind, "name": name, "input": short(input), "chunks": len(o.chunks)})
	}
}

func lineLens(lines [][]byte) []int {
	var out []int
	for _, l := range lines {
		out = append(out, len(l))
	}
	return out
}

func bucket(n int) string {
	switch {
	case n <= 4:
		return fmt.Sprint(n)
	case n <= 16:
		return "5-16"
	case n <= 64:
		return "17-64"
	}
	return "65+"
}

// ---------------------------------------------------------------- line templates

var templates = []string{
	"a := 1\n",
	"y = x +\n",
	"y = x %\n",
	"y = x /\n",
	"y -= x -\n",
	"y = f(x,\n",
	"x)\n",
	"r := `a\"b'\n",
	"c` + \"d\"\n",
	"/* c \"\n",
	"d */ z := 2\n",
	"// line ' comment\n",
	"for\n",
	"{ break }\n",
	"if x > 1 {\n",
	"}\n",
	"} else\n",
	"s := \"q\\\"//\" // c\n",
	"c := '\\''; d := '\"'; e := '`'\n",
	"x.y = 1.5\n",
	"x++\n",
	"z := a /(\n",
	"z /= 2; w := 10 /'('\n",
	"/***/ t := 1 /**/\n",
	"u := \"a\tb\"; v := '\t'\n",
	"return\n",
	"\n",
	"go\n",
	"x = y &^\n",
	"m := map[string]int{\n",
	"\"k\": 1,\n",
	"func() {\n",
	"}()\n",
	"x = a[i] *\n",
	"b /* c */ +\n",
	"   \t// only comment\n",
	"i--\n",
	"ch <-\n",
	"v\n",
}

// templates used only for the correspondence / lossless oracles (not Go: std scanner reports errors)
var templatesExt = []string{
	"#!/usr/bin/env gomacro\n",
	"x := ~'{y}; q := ~\"{z}\n",
	"s := \"unterminated\n",
	"w := 'u\n",
	"p := Pair#[int]{}\n",
	"x := \"a\\\n",
	"e \xe2\x80\xa9 f // ps\n",
	"last line without newline",
}

// ---------------------------------------------------------------- long physical lines

// longLineKinds: one physical line of exactly L bytes (newline included) for each syntactic place where a cut in
// the middle of the line would leave the reader inside a literal, a comment or an open bracket, or after an
// operator / comma. The readers buffer their input (bufio: 4096 bytes by default): a line must be delivered
// whole whatever its length.
var longLineKinds = []string{"string", "rawstring", "rune-list", "linecomment", "blockcomment", "list", "call", "binop", "stmts", "ident", "blanks", "nested"}

func fill(pattern string, n int) string {
	if n <= 0 {
		return ""
	}
	var sb strings.Builder
	for sb.Len() < n {
		sb.WriteString(pattern)
	}
	return sb.String()[:n]
}

// padTo appends blanks to body so that body + tail has exactly L-1 bytes, then the newline
func padTo(body, tail string, L int) string {
	return body + fill(" ", L-1-len(body)-len(tail)) + tail + "\n"
}

// repeatTo repeats unit while head + units + close fits in L-1 bytes, then pads with blanks
func repeatTo(head, unit, last, close string, L int) string {
	var sb strings.Builder
	sb.WriteString(head)
	for sb.Len()+len(unit)+len(last)+len(close) <= L-1 {
		sb.WriteString(unit)
	}
	sb.WriteString(last)
	return padTo(sb.String(), close, L)
}

func longLine(kind string, L int) string {
	switch kind {
	case "string": // content: brackets, comment starts and quotes of the other kinds
		return "s := \"" + fill("ab ({[ // /* ' ` + , ", L-8) + "\"\n"
	case "rawstring":
		return "r := `" + fill("ab ({[ // /* ' \" \\ + , ", L-8) + "`\n"
	case "rune-list":
		return repeatTo("q := []rune{", `'"', '(', '{', `, `'x'`, "}", L)
	case "linecomment":
		return "// " + fill("c \" ' ` ({[ /* + , ", L-4) + "\n"
	case "blockcomment":
		return "/* " + fill("c \" ' ` ({[ // + , ", L-14) + " */ q := 1\n"
	case "list":
		return repeatTo("v := []int{", "1, ", "2", "}", L)
	case "call":
		return repeatTo("f(", "x, g(y), ", "z", ")", L)
	case "binop":
		return repeatTo("y = 1", " + 1", "", "", L)
	case "stmts":
		return repeatTo("", "a++; ", "b--", "", L)
	case "ident":
		return "x" + fill("abcdefghij", L-7) + " := 1\n"
	case "blanks":
		return padTo("a := 1", "", L)
	case "nested":
		return repeatTo("w := [][]string{", `{"(", "{"}, `, `{"["}`, "}", L)
	}
	panic("longLine: unknown kind " + kind)
}

func seqName(ix []int) string {
	var p []string
	for _, i := range ix {
		p = append(p, fmt.Sprint(i))
	}
	return strings.Join(p, ".")
}

func main() {
	a := vh.ParseArgs()
	rng := vh.NewRng(a.Seed)
	rep := vh.NewReport(a, "inputs: (1) corpus/C26/*.txt; (2) sequences of line templates (39 Go templates: strings/runes with quotes and escapes, raw string and block comment spanning lines, "+
		"line comments, brackets, operators / % + - &^ <- , at line end, keywords at line end, selectors, ++/--, control bytes in literals, /***/): every sequence of length <=2 (quick) / <=3 (thorough), PRNG-sampled sequences of length 3..4 (quick) / 4..6 (thorough), "+
		"plus sequences mixing 8 non-Go templates (#!, ~quote, unterminated literals, '#', U+2029, missing final newline) for the lossless and correspondence checks only; "+
		"(2b) one physical line of exactly 4095, 4096, 4097, 8192, 8193, ~6000, ~12000 and ~65537 bytes (thorough: 32 more lengths up to 131073) of each of 12 kinds (string, raw string, rune list, line comment, block comment, composite literal, call, binary operators, statements, identifier, trailing blanks, nested literals), alone, between template lines and twice in a row; "+
		"(3) files of $GOROOT/src (quick: 300 sampled; thorough: all, testdata/vendor excluded) and line-boundary prefixes (<= 2.5 KB) of a sample of them for the Coq side. "+
		"Every sequence of length <= 2, 1/5 of the sampled sequences and 1/4 of the stdlib files are ALSO read with the final newline removed (last statement complete but unterminated: the reader returns the last chunk together with io.EOF). "+
		"Every input is read twice: through base.ReadMultiline (all oracles) and through the method Globals.ReadMultiline that EvalReader/EvalFile/REPL/debugger call (driven like EvalReader; its chunks must concatenate to the input and equal the first reading). "+
		"First call with ReadOptCollectAllComments (as EvalReader) and, for template sequences, also without (as Repl). "+
		"A case is non-trivial when the reader returned >= 2 chunks; distinct by SHA-256 of (option, input)")
	e := &env{a: a, rep: rep, wd: vh.NewWatchdog(rep, 180*time.Second), g: base.NewGlobals(), extra: map[string]int{}}
	e.g.Stderr = io.Discard
	e.g.Stdout = io.Discard
	coqHeader := "From Coq Require Import List NArith ZArith String.\nFrom Verif Require Import Common.GoStr C26.Model.\nImport ListNotations.\nOpen Scope string_scope.\nOpen Scope Z_scope."
	e.cw = vh.NewCases(a, coqHeader, "case", "mismatches", 200)

	// ---- (1) corpus
	verif := os.Getenv("VERIF_DIR")
	if verif == "" {
		verif = "/verif"
	}
	e.known = map[string]bool{}
	if b, err := os.ReadFile(filepath.Join(verif, "known_findings.json")); err == nil {
		var kf struct {
			Findings []struct {
				Property, Status, Key string
			} `json:"findings"`
		}
		if json.Unmarshal(b, &kf) == nil {
			for _, f := range kf.Findings {
				if f.Property == "C26" && f.Status == "known" {
					e.known[f.Key] = true
				}
			}
		}
	}
	cfiles, _ := filepath.Glob(filepath.Join(verif, "corpus", "C26", "*.txt"))
	sort.Strings(cfiles)
	for _, f := range cfiles {
		b, err := os.ReadFile(f)
		if err != nil {
			continue
		}
		e.check("corpus", filepath.Base(f), string(b), true, true, true)
		e.check("corpus-repl", filepath.Base(f), string(b), false, true, true)
	}

	// ---- (2) template sequences
	nT := len(templates)
	exhLen := 2
	sampleLens := []int{3, 4}
	nSample, nCoqSample, nExt := 6000, 700, 300
	if a.Thorough() {
		exhLen = 3
		sampleLens = []int{4, 5, 6}
		nSample, nCoqSample, nExt = 150000, 12000, 4000
	}
	if a.N > 0 {
		nSample = a.N
	}
	build := func(ix []int, tl []string) string {
		var sb strings.Builder
		for _, i := range ix {
			sb.WriteString(tl[i])
		}
		return sb.String()
	}
	var rec func(ix []int)
	nExh := 0
	rec = func(ix []int) {
		if len(ix) > 0 {
			in := build(ix, templates)
			toCoq := len(ix) <= 1 || rng.Chance(1, 4)
			e.check("seq", seqName(ix), in, true, toCoq, true)
			if len(ix) <= 2 {
				e.check("seq-repl", seqName(ix), in, false, len(ix) == 1 || rng.Chance(1, 12), true)
				// the same text as a file whose last byte is not a newline (last statement complete but unterminated)
				if t := strings.TrimSuffix(in, "\n"); t != in && t != "" {
					e.check("seq-nonl", seqName(ix), t, len(ix) == 1 || rng.Chance(1, 2), len(ix) == 1 || rng.Chance(1, 12), true)
				}
			}
			nExh++
		}
		if len(ix) == exhLen {
			return
		}
		for i := 0; i < nT; i++ {
			rec(append(ix, i))
		}
	}
	rec(nil)
	coqEvery := nSample / nCoqSample
	if coqEvery < 1 {
		coqEvery = 1
	}
	for k := 0; k < nSample; k++ {
		n := sampleLens[rng.Intn(len(sampleLens))]
		ix := make([]int, n)
		for i := range ix {
			ix[i] = rng.Intn(nT)
		}
		allc := !rng.Chance(1, 4)
		kind := "seq"
		if !allc {
			kind = "seq-repl"
		}
		in := build(ix, templates)
		if t := strings.TrimSuffix(in, "\n"); k%5 == 4 && t != in {
			in, kind = t, "seq-nonl" // last byte is not a newline
		}
		e.check(kind, seqName(ix), in, allc, k%coqEvery == 0, true)
	}
	// sequences mixing in the non-Go templates
	all := append(append([]string(nil), templates...), templatesExt...)
	for k := 0; k < nExt; k++ {
		n := 1 + rng.Intn(4)
		ix := make([]int, n)
		for i := range ix {
			if i == 0 && rng.Chance(1, 3) {
				ix[i] = nT // "#!" first line
			} else if rng.Chance(1, 2) {
				ix[i] = nT + rng.Intn(len(templatesExt))
			} else {
				ix[i] = rng.Intn(nT)
			}
		}
		e.check("seq-ext", seqName(ix), build(ix, all), !rng.Chance(1, 4), true, false)
	}
	rep.Extra["exhaustive_sequences"] = nExh

	// ---- (2b) long physical lines, alone and between template lines
	{
		lens := []int{4095, 4096, 4097, 8192, 8193, 4098 + rng.Intn(4000), 8194 + rng.Intn(8000), 65536 + rng.Intn(3)}
		if a.Thorough() {
			lens = append(lens, 4094, 4098, 8191, 12288, 12289, 16384, 16385, 131073)
			for k := 0; k < 24; k++ {
				lens = append(lens, 3000+rng.Intn(30000))
			}
		}
		for ki, kind := range longLineKinds {
			for li, L := range lens {
				pre := make([]int, rng.Intn(3))
				post := make([]int, rng.Intn(3))
				for i := range pre {
					pre[i] = rng.Intn(nT)
				}
				for i := range post {
					post[i] = rng.Intn(nT)
				}
				line := longLine(kind, L)
				if len(line) != L {
					panic(fmt.Sprintf("longLine(%s,%d) has %d bytes", kind, L, len(line)))
				}
				in := build(pre, templates) + line + build(post, templates)
				// the name is a complete recipe of the input (failure reports abbreviate the input itself)
				name := fmt.Sprintf("%s:len=%d:before=[%s]:after=[%s]", kind, L, seqName(pre), seqName(post))
				// Coq side: the five boundary lengths (4095..8193), one kind each (thorough: every kind, rotating)
				toCoq := li < 5 && li == ki%5 && (ki < 5 || a.Thorough())
				e.toLong = true
				e.check("longline", name, in, true, toCoq, true)
				e.toLong = false
				e.check("longline-repl", name, in, false, false, true)
				// and two long lines in a row: the second starts at an arbitrary offset of the reader's buffer
				if li%3 == 0 {
					e.check("longline", name+":twice", in+line, true, false, true)
				}
			}
		}
	}

	// ---- (2c) escaped / quote-bearing literals followed on the same line by brackets and further literals (escapes.go)
	e.runEscapes(a)

	// ---- (3) standard library
	goroot := ""
	if outb, err := exec.Command("go", "env", "GOROOT").Output(); err == nil {
		goroot = strings.TrimSpace(string(outb))
	}
	if goroot == "" {
		goroot = runtime.GOROOT()
	}
	src, err := filepath.EvalSymlinks(filepath.Join(goroot, "src"))
	var files []string
	if err == nil {
		filepath.Walk(src, func(p string, info os.FileInfo, err error) error {
			if err != nil {
				return nil
			}
			if info.IsDir() {
				if b := info.Name(); b == "testdata" || b == "vendor" {
					return filepath.SkipDir
				}
				return nil
			}
			if strings.HasSuffix(p, ".go") {
				files = append(files, p)
			}
			return nil
		})
	}
	sort.Strings(files)
	rep.Extra["stdlib_files_found"] = len(files)
	nFiles, nCoqFiles := 300, 24
	if a.Thorough() {
		nFiles, nCoqFiles = len(files), 400
	}
	if nFiles > len(files) {
		nFiles = len(files)
	}
	// deterministic sample: partial Fisher-Yates
	perm := append([]string(nil), files...)
	for i := 0; i < nFiles; i++ {
		j := i + rng.Intn(len(perm)-i)
		perm[i], perm[j] = perm[j], perm[i]
	}
	coqLeft := nCoqFiles
	for _, f := range perm[:nFiles] {
		b, err := os.ReadFile(f)
		if err != nil {
			continue
		}
		rel, _ := filepath.Rel(src, f)
		e.g = base.NewGlobals() // fresh file set
		e.g.Stderr, e.g.Stdout = io.Discard, io.Discard
		e.check("stdlib", rel, string(b), true, false, true)
		if t := bytes.TrimRight(b, "\n"); rng.Chance(1, 4) && len(t) > 0 {
			e.check("stdlib-nonl", rel, string(t), true, false, true) // the file without its final newline
		}
		if coqLeft > 0 && len(b) < 6000 {
			pre := b
			if len(pre) > 2500 {
				pre = pre[:2500]
				if j := bytes.LastIndexByte(pre, '\n'); j >= 0 {
					pre = pre[:j+1]
				}
			}
			e.check("stdlib-prefix", rel, string(pre), true, true, false)
			coqLeft--
		}
	}
	e.cw.Close()
	if len(e.longCases) > 0 {
		txt := coqHeader + "\nDefinition cases : list case := [\n " + strings.Join(e.longCases, ";\n ") +
			"\n].\nDefinition verif_mismatches : list Z := Eval vm_compute in mismatches cases.\nPrint verif_mismatches.\n"
		if err := os.WriteFile(a.Path("cases_long.v"), []byte(txt), 0o644); err != nil {
			panic(err)
		}
	}
	for sh := 0; sh*400 < len(e.wrapCases); sh++ {
		hi := (sh + 1) * 400
		if hi > len(e.wrapCases) {
			hi = len(e.wrapCases)
		}
		txt := strings.Replace(coqHeader, "C26.Model.", "C26.Model C26.Wrapper.", 1) + "\nDefinition cases : list wcase := [\n " + strings.Join(e.wrapCases[sh*400:hi], ";\n ") +
			"\n].\nDefinition verif_mismatches : list Z := Eval vm_compute in wmismatches cases.\nPrint verif_mismatches.\n"
		if err := os.WriteFile(a.Path(fmt.Sprintf("cases_wrap_%03d.v", sh)), []byte(txt), 0o644); err != nil {
			panic(err)
		}
	}
	for k, v := range e.extra {
		rep.Extra[k] = v
	}
	rep.Exhaustive = false
	rep.Write()
}

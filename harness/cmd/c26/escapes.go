// escapes.go: stream (2c) - every escaped / quote-bearing rune, string and raw string literal form, immediately
// followed ON THE SAME LINE by brackets and by further quote characters / literals, inside multi-line functions.
//
// The reader's literal states (rune, rune-escape, string, string-escape, raw string) end at the literal's closing
// quote; whatever follows on the line must be read in normal mode again: brackets are counted, quotes open new
// literals. A state that ends one byte too early or too late swallows the rest of the line, so the enclosing
// function is cut at an inner '}' (O3: the chunk does not parse) or runs on to the end of the input (O6).
//
// Bounded-exhaustive: literal form L x line pattern (what follows / precedes L on its line) x second literal M.
// Judged by the same direct oracles as every other stream (lossless, go/scanner token classes and bracket depth,
// fork parser on every chunk); a sample goes to the Coq correspondence.
package main

import (
	"fmt"
	"strings"

	"verifh/vh"
)

// literal forms (all valid Go tokens: go/scanner must report no error, otherwise O2-O5 are skipped)
var escLits = []struct{ name, src string }{
	// runes
	{"rune-esc-squote", `'\''`},
	{"rune-esc-backslash", `'\\'`},
	{"rune-dquote", `'"'`},
	{"rune-backquote", "'`'"},
	{"rune-esc-n", `'\n'`},
	{"rune-hex-squote", `'\x27'`},
	{"rune-oct-squote", `'\047'`},
	{"rune-u-squote", `'\u0027'`},
	{"rune-U-dquote", `'\U00000022'`},
	{"rune-lbrace", `'{'`},
	{"rune-rparen", `')'`},
	{"rune-slash", `'/'`},
	{"rune-plain", `'x'`},
	// interpreted strings
	{"str-esc-dquote", `"\""`},
	{"str-esc-backslash", `"\\"`},
	{"str-esc-backslash-dquote", `"\\\""`},
	{"str-esc-dquote-backslash", `"\"\\"`},
	{"str-squote", `"'"`},
	{"str-backquote", "\"`\""},
	{"str-esc-squote-hex", `"\x27\x22"`},
	{"str-empty", `""`},
	{"str-brackets", `"({["`},
	{"str-comment-start", `"/*"`},
	{"str-line-comment", `"//"`},
	{"str-ends-backslash-n", `"a\\n"`},
	// raw strings
	{"raw-backslash", "`\\`"},
	{"raw-backslash-dquote", "`\\\"`"},
	{"raw-backslash-squote", "`\\'`"},
	{"raw-squote", "`'`"},
	{"raw-dquote", "`\"`"},
	{"raw-empty", "``"},
	{"raw-brackets", "`)]}`"},
}

// second literals (what may follow L on the same line)
var escSeconds = []struct{ name, src string }{
	{"rune-esc-squote", `'\''`},
	{"rune-dquote", `'"'`},
	{"rune-lparen", `'('`},
	{"str-esc-dquote", `"\""`},
	{"str-squote-brace", `"'{"`},
	{"raw-backslash", "`\\`"},
	{"raw-quotes", "`'\"`"},
}

// line patterns: the body lines of a function; L is the literal under test, M the second literal.
// Every pattern is a sequence of complete statements whatever the types of L and M are (the oracle parses, it
// does not type-check). usesM: the pattern is instantiated once per second literal.
var escPatterns = []struct {
	name  string
	usesM bool
	lines []string
}{
	// opening brackets after L
	{"if-eq-lbrace", false, []string{"if c == L {", "\treturn true", "}"}},
	{"if-call-rparen-lbrace", false, []string{"if g(c, L) {", "\treturn true", "}"}},
	{"switch-case-lbrace", false, []string{"switch c {", "case L: {", "\tn++", "}", "}"}},
	{"for-cond-lbrace", false, []string{"for c != L {", "\tc = next()", "}"}},
	{"call-open-after", false, []string{"x := g(L, h(", "\t1, 2))", "_ = x"}},
	{"index-open-after", false, []string{"x := g(L)[", "\t0]", "_ = x"}},
	{"composite-open-after", false, []string{"x := g(L, []int{", "\t1, 2,", "})", "_ = x"}},
	{"funclit-after", false, []string{"y := h(L, func() {", "\tn++", "})", "_ = y"}},
	// closing brackets after L
	{"call-rparen", false, []string{"x := g(c, L)", "_ = x"}},
	{"call-rparen-rparen", false, []string{"x := g(h(c, L))", "_ = x"}},
	{"composite-rbrace", false, []string{"v := []T{L}", "_ = v"}},
	{"index-rbrack", false, []string{"w := m[L]", "_ = w"}},
	{"nested-closers", false, []string{"z := f(m[k{L}])", "_ = z"}},
	{"open-before-close-after-next-line", false, []string{"x := g(", "\tL)", "_ = x"}},
	{"multi-line-list", false, []string{"v := []T{", "\tL, L,", "\tL}", "_ = v"}},
	{"block-one-line", false, []string{"if ok { c = L }", "n++"}},
	{"block-one-line-else", false, []string{"if ok { c = L } else { c = L }", "n++"}},
	// comments after L
	{"line-comment-bracket-after", false, []string{"c = L // )]} ' \" `", "n++"}},
	{"block-comment-bracket-after", false, []string{"c = g(L /* ( ' */)", "n++"}},
	// no bracket: L at the end of the line, after an operator
	{"end-of-line", false, []string{"c = L", "n++"}},
	{"case-colon", false, []string{"switch c {", "case L:", "\tn++", "}"}},
	{"binop-continues", false, []string{"s := L +", "\tL", "_ = s"}},
	// further literals after L
	{"two-args-rparen", true, []string{"x := g(L, M)", "_ = x"}},
	{"two-args-swapped", true, []string{"x := g(M, L)", "_ = x"}},
	{"eq-or-lbrace", true, []string{"if c == L || c == M {", "\treturn true", "}"}},
	{"adjacent-in-composite", true, []string{"v := []T{L,M,L}", "_ = v"}},
	{"case-list-lbrace", true, []string{"switch c {", "case L, M: {", "\tn++", "}", "default:", "}"}},
	{"map-literal", true, []string{"mm := map[T]T{L: M, M: L}", "_ = mm"}},
	{"semicolon-stmts", true, []string{"a := L; b := M; if a == b {", "\tn++", "}"}},
	{"literal-then-open-multi-line", true, []string{"x := g(L, M, h(", "\tM, L), M)", "_ = x"}},
}

func escProgram(lines []string, L, M string, method bool) string {
	var sb strings.Builder
	sb.WriteString("var before = 0\n")
	if method {
		sb.WriteString("func (p *P) f(c rune) bool {\n")
	} else {
		sb.WriteString("func f(c rune) bool {\n")
	}
	sb.WriteString("\tn := 0\n")
	for _, l := range lines {
		l = strings.Replace(l, "L", L, -1)
		l = strings.Replace(l, "M", M, -1)
		sb.WriteString("\t" + l + "\n")
	}
	sb.WriteString("\treturn n > 0\n}\n")
	sb.WriteString("var after = 1\nfunc last() int {\n\treturn after\n}\n")
	return sb.String()
}

func (e *env) runEscapes(a *vh.Args) {
	rng := vh.NewRng(a.Seed*1000003 + 0xC26E5C)
	n := 0
	for pi, p := range escPatterns {
		seconds := escSeconds[:1]
		if p.usesM {
			seconds = escSeconds
		}
		for li, lit := range escLits {
			for si, sec := range seconds {
				name := fmt.Sprintf("%s:L=%s", p.name, lit.name)
				if p.usesM {
					name += ":M=" + sec.name
				}
				in := escProgram(p.lines, lit.src, sec.src, (pi+li+si)%3 == 0)
				// Coq side: every literal form with every M-free pattern once per 4 (rotating), 1/16 of the others
				toCoq := (!p.usesM && (pi+li)%4 == 0) || (p.usesM && rng.Chance(1, 16))
				if a.Thorough() {
					toCoq = !p.usesM || rng.Chance(1, 4)
				}
				e.check("escapes", name, in, true, toCoq, true)
				if (pi+li+si)%5 == 0 {
					e.check("escapes-repl", name, in, false, false, true)
				}
				// the function alone, as typed at the prompt, last byte not a newline
				if (pi+li+si)%7 == 0 {
					e.check("escapes-nonl", name, strings.TrimSuffix(in, "\n"), true, false, true)
				}
				n++
			}
		}
	}
	e.extra["escapes_inputs"] = n
}

// Package c13lib: shared by the harnesses of C13 (interrupts) and C12 (escaping panics).
// A tiny structured statement language is rendered twice: as Go source for the real interpreter and as the
// flat code of the Coq model (coq/C13/Model.v `instr`), slot by slot as gomacro lays statements out in Env.Code
// (one slot per simple statement, `if` = one conditional-jump slot (+ one jump slot before an else branch),
// `for` = condition slot + body + jump slot).  A wrong layout shows up as a model/implementation mismatch.
package c13lib

import (
	"fmt"
	"io"
	"strings"

	"github.com/cosmos72/gomacro/base"
	"github.com/cosmos72/gomacro/fast"
)

type Arg struct {
	Kind string // same dec inc const
	C    int
}

func Same() Arg       { return Arg{"same", 0} }
func Dec() Arg        { return Arg{"dec", 0} }
func Inc_() Arg       { return Arg{"inc", 0} }
func Const(c int) Arg { return Arg{"const", c} }

func (a Arg) src() string {
	switch a.Kind {
	case "same":
		return "n"
	case "dec":
		return "n-1"
	case "inc":
		return "n+1"
	}
	return fmt.Sprint(a.C)
}
func (a Arg) coq() string {
	switch a.Kind {
	case "same":
		return "ASame"
	case "dec":
		return "ADec"
	case "inc":
		return "AInc"
	}
	return fmt.Sprintf("(AConst %d)", a.C)
}

// Stmt is one node of the structured language
type Stmt struct {
	Op   string // hook inc set ginc call deferhook defercall deferfunc recover panic ret forever forlt for3 ifmod ifpos iflt
	F    int    // callee (call, defercall)
	A    Arg
	C, M int
	Body []Stmt
	Else []Stmt
}

func Hook() Stmt                      { return Stmt{Op: "hook"} }
func Inc() Stmt                       { return Stmt{Op: "inc"} }
func Set(c int) Stmt                  { return Stmt{Op: "set", C: c} }
func GInc() Stmt                      { return Stmt{Op: "ginc"} }
func Call(f int, a Arg) Stmt          { return Stmt{Op: "call", F: f, A: a} }
func DeferHook() Stmt                 { return Stmt{Op: "deferhook"} }
func DeferCall(f int, a Arg) Stmt     { return Stmt{Op: "defercall", F: f, A: a} }
func DeferFunc(a Arg, b ...Stmt) Stmt { return Stmt{Op: "deferfunc", A: a, Body: b} }
func Recover() Stmt                   { return Stmt{Op: "recover"} }
func Panic() Stmt                     { return Stmt{Op: "panic"} }
func Ret() Stmt                       { return Stmt{Op: "ret"} }
func Forever(b ...Stmt) Stmt          { return Stmt{Op: "forever", Body: b} }
func ForLt(c int, b ...Stmt) Stmt     { return Stmt{Op: "forlt", C: c, Body: b} }
func For3(c int, b ...Stmt) Stmt      { return Stmt{Op: "for3", C: c, Body: b} }
func IfMod(m, r int, then, els []Stmt) Stmt {
	return Stmt{Op: "ifmod", M: m, C: r, Body: then, Else: els}
}
func IfPos(then ...Stmt) Stmt       { return Stmt{Op: "ifpos", Body: then} }
func IfLt(c int, then ...Stmt) Stmt { return Stmt{Op: "iflt", C: c, Body: then} }
func B(s ...Stmt) []Stmt            { return s }

// Program: numbered functions `func fK(n int) { ... }`; function literals of DeferFunc get the next free numbers.
type Program struct {
	Funcs [][]Stmt
	// outputs of Build
	Decls []string   // Go source of each named function
	Code  [][]string // model code per function number (named functions first, then closures)
}

type builder struct {
	p      *Program
	extra  [][]string // closures
	nNamed int
}

// compile a statement list to (source, flat code); base = slot index of the first statement
func (b *builder) block(ss []Stmt, base int) (string, []string) {
	var src []string
	var code []string
	for _, s := range ss {
		at := base + len(code)
		switch s.Op {
		case "hook":
			src = append(src, "hook()")
			code = append(code, "IHook")
		case "inc":
			src = append(src, "n++")
			code = append(code, "IInc")
		case "set":
			src = append(src, fmt.Sprintf("n = %d", s.C))
			code = append(code, fmt.Sprintf("ISet %d", s.C))
		case "ginc":
			src = append(src, "x++")
			code = append(code, "IGInc")
		case "call":
			src = append(src, fmt.Sprintf("f%d(%s)", s.F, s.A.src()))
			code = append(code, fmt.Sprintf("ICall %d %s", s.F, s.A.coq()))
		case "deferhook":
			src = append(src, "defer dhook()")
			code = append(code, "IDefer DHook")
		case "defercall":
			src = append(src, fmt.Sprintf("defer f%d(%s)", s.F, s.A.src()))
			code = append(code, fmt.Sprintf("IDefer (DFun %d %s)", s.F, s.A.coq()))
		case "deferfunc":
			idx := b.nNamed + len(b.extra)
			b.extra = append(b.extra, nil)
			bs, bc := b.block(s.Body, 0)
			b.extra[idx-b.nNamed] = bc
			src = append(src, fmt.Sprintf("defer func(n int) { %s }(%s)", bs, s.A.src()))
			code = append(code, fmt.Sprintf("IDefer (DFun %d %s)", idx, s.A.coq()))
		case "recover":
			src = append(src, "note(recover() != nil)")
			code = append(code, "IRecover")
		case "panic":
			src = append(src, `panic("interpreted")`)
			code = append(code, "IPanic")
		case "ret":
			src = append(src, "return")
			code = append(code, "IRet")
		case "forever":
			bs, bc := b.block(s.Body, at)
			src = append(src, "for { "+bs+" }")
			code = append(code, bc...)
			code = append(code, fmt.Sprintf("IJmp %d", at))
		case "forlt":
			bs, bc := b.block(s.Body, at+1)
			end := at + 1 + len(bc) + 1
			src = append(src, fmt.Sprintf("for n < %d { %s }", s.C, bs))
			code = append(code, fmt.Sprintf("IIfLt %d %d", s.C, end))
			code = append(code, bc...)
			code = append(code, fmt.Sprintf("IJmp %d", at))
		case "for3":
			bs, bc := b.block(s.Body, at+2)
			end := at + 2 + len(bc) + 2
			src = append(src, fmt.Sprintf("for n = 0; n < %d; n++ { %s }", s.C, bs))
			code = append(code, "ISet 0", fmt.Sprintf("IIfLt %d %d", s.C, end))
			code = append(code, bc...)
			code = append(code, "IInc", fmt.Sprintf("IJmp %d", at+1))
		case "ifmod", "ifpos", "iflt":
			ts, tc := b.block(s.Body, at+1)
			var cond, ins string
			switch s.Op {
			case "ifmod":
				cond, ins = fmt.Sprintf("n%%%d == %d", s.M, s.C), fmt.Sprintf("IIfMod %d %d", s.M, s.C)
			case "ifpos":
				cond, ins = "n > 0", "IIfPos"
			default:
				cond, ins = fmt.Sprintf("n < %d", s.C), fmt.Sprintf("IIfLt %d", s.C)
			}
			if len(s.Else) == 0 {
				end := at + 1 + len(tc)
				src = append(src, fmt.Sprintf("if %s { %s }", cond, ts))
				code = append(code, fmt.Sprintf("%s %d", ins, end))
				code = append(code, tc...)
			} else {
				elseAt := at + 1 + len(tc) + 1
				es, ec := b.block(s.Else, elseAt)
				end := elseAt + len(ec)
				src = append(src, fmt.Sprintf("if %s { %s } else { %s }", cond, ts, es))
				code = append(code, fmt.Sprintf("%s %d", ins, elseAt))
				code = append(code, tc...)
				code = append(code, fmt.Sprintf("IJmp %d", end))
				code = append(code, ec...)
			}
		default:
			panic("c13lib: unknown op " + s.Op)
		}
	}
	return strings.Join(src, "; "), code
}

// Build renders every function; returns p for chaining
func (p *Program) Build() *Program {
	b := &builder{p: p, nNamed: len(p.Funcs)}
	p.Decls, p.Code = nil, nil
	for i, f := range p.Funcs {
		src, code := b.block(f, 0)
		p.Decls = append(p.Decls, fmt.Sprintf("func f%d(n int) { %s }", i, src))
		p.Code = append(p.Code, code)
	}
	p.Code = append(p.Code, b.extra...)
	return p
}

// BuildDirect renders the top-level form `{ ... }` (or a single `for`) of statements that run directly on the
// top-level Env: returns its source and its function number in p.Code.  Must be called after Build.
func (p *Program) BuildDirect(ss []Stmt) (string, int) {
	b := &builder{p: p, nNamed: len(p.Code) + 1} // closures of the form are numbered after the form itself
	src, code := b.block(ss, 0)
	idx := len(p.Code)
	p.Code = append(p.Code, code)
	p.Code = append(p.Code, b.extra...)
	if len(ss) == 1 && (ss[0].Op == "forever" || ss[0].Op == "forlt") {
		return src, idx
	}
	return "{ " + src + " }", idx
}

// CoqProg renders p.Code as a Coq `prog`
func (p *Program) CoqProg() string {
	var fs []string
	for _, c := range p.Code {
		if len(c) == 0 {
			fs = append(fs, "(@nil instr)")
		} else {
			fs = append(fs, "["+strings.Join(c, "; ")+"]")
		}
	}
	if len(fs) == 0 {
		return "(@nil code)"
	}
	return "[" + strings.Join(fs, "; ") + "]"
}

// ---------------------------------------------------------------------------------------------------

// Probe wraps one interpreter with the compiled hook
type Probe struct {
	Ir      *fast.Interp
	Calls   int // calls of hook/dhook since Arm
	K       int
	Fault   string // "interrupt" "panic" ""
	Later   int    // calls after the K-th
	LaterD  int    // ... through the name dhook (deferred)
	Notes   int    // note(true) calls
	Runaway int    // abort the evaluation after this many later calls
}

const HookPanic = "hook-panic"

// Prelude declares the interpreted globals used by the programs
const Prelude = "var x int; var n int"

func NewProbe() *Probe {
	pr := &Probe{Runaway: 100000}
	ir := fast.New()
	ir.Comp.Globals.Stderr = io.Discard
	ir.Comp.Globals.Stdout = io.Discard
	pr.Ir = ir
	call := func(deferred bool) {
		pr.Calls++
		if pr.Calls > pr.K { // K == 0: every call counts as later
			pr.Later++
			if deferred {
				pr.LaterD++
			}
			if pr.Later > pr.Runaway {
				panic("runaway")
			}
		}
		if pr.Calls == pr.K {
			switch pr.Fault {
			case "interrupt":
				ir.Interrupt(nil)
			case "panic":
				panic(HookPanic)
			}
		}
	}
	ir.DeclFunc("hook", func() { call(false) })
	ir.DeclFunc("dhook", func() { call(true) })
	ir.DeclFunc("note", func(b bool) {
		if b {
			pr.Notes++
		}
	})
	ir.Eval(Prelude)
	return pr
}

func (pr *Probe) Arm(k int, fault string) {
	pr.Calls, pr.K, pr.Fault, pr.Later, pr.LaterD, pr.Notes = 0, k, fault, 0, 0, 0
}

// Eval evaluates src; returns the rendered values and the classified panic ("" none, "interrupt", "hook", "interp", "runaway", "other:<text>")
func (pr *Probe) Eval(src string) (vals string, pk string) {
	defer func() {
		if p := recover(); p != nil {
			pk = ClassifyPanic(p)
		}
	}()
	vs, _ := pr.Ir.Eval(src)
	var out []string
	for _, v := range vs {
		if v.IsValid() && v.CanInterface() {
			out = append(out, fmt.Sprintf("%#v", v.Interface()))
		} else {
			out = append(out, "<invalid>")
		}
	}
	return strings.Join(out, ","), ""
}

func ClassifyPanic(p interface{}) string {
	switch v := p.(type) {
	case base.Signal:
		if v == base.SigInterrupt {
			return "interrupt"
		}
		return fmt.Sprintf("other:signal %d", v)
	case string:
		switch v {
		case HookPanic:
			return "hook"
		case "interpreted":
			return "interp"
		case "runaway":
			return "runaway"
		}
		return "other:" + v
	case error:
		return "other:" + v.Error()
	}
	return fmt.Sprintf("other:%v", p)
}

// Battery: evaluations run after an aborted evaluation; their results must equal those of an interpreter
// that saw the same definitions but not the aborted evaluation.  None of them calls hook().
// Globals touched by the probe programs (x, n) are assigned before they are read.
var Battery = []string{
	`1+1`,
	`x = 7; n = 3`,
	`x*6 + n`,
	`var s = 0; for j := 0; j < 100; j++ { s += j }; s`,
	`func bsum(a int) int { t := 0; for j := 1; j <= a; j++ { if j%3 == 0 { continue }; t += j }; return t }`,
	`bsum(30)`,
	`func bmk() func() int { c := 0; return func() int { c++; return c } }`,
	`bc := bmk(); bc(); bc(); bc()`,
	`func brec(v int) (r interface{}) { defer func() { r = recover() }(); if v > 0 { panic(v) }; return "none" }`,
	`brec(5)`,
	`brec(0)`,
	`var brr interface{} = "unset"`,
	`{ defer func() { brr = recover() }() }`,
	`brr`,
	`{ defer func() { brr = recover() }(); panic("top") }`,
	`brr`,
	`func bdef() (out []int) { for j := 0; j < 3; j++ { defer func(q int) { out = append(out, q) }(j) }; return nil }`,
	`bdef()`,
	`func bfib(v int) int { if v < 2 { return v }; return bfib(v-1) + bfib(v-2) }`,
	`bfib(12)`,
	`func bnest() (r interface{}) { defer func() { r = recover() }(); func() { defer func() { panic("second") }(); panic("first") }(); return 1 }`,
	`bnest()`,
}

// RunBattery returns one line per evaluation: "<values>|<panic class>"
func (pr *Probe) RunBattery() []string {
	pr.Arm(0, "")
	var out []string
	for _, src := range Battery {
		v, p := pr.Eval(src)
		if strings.HasPrefix(p, "other:") {
			p = "other" // compile errors etc: never compare message text
		}
		out = append(out, v+"|"+p)
	}
	return out
}

// Snapshot renders fast.VerifRunState (see hooks/fast/zz_verif_c12.go)
type Snap = fast.VerifRunSnapshot

func (pr *Probe) Snapshot() Snap { return fast.VerifRunState(pr.Ir) }

// Package c24lib: helpers shared by the C24 (fork parser vs go/parser) and C25 (print/reparse) harnesses:
// running both parsers, the deep structural comparison of syntax trees, file collection, classification
// of files outside the property's language (type parameters, identifier `macro`).
package c24lib

import (
	"fmt"
	"go/ast"
	"go/parser"
	"go/scanner"
	"go/token"
	"os"
	"path/filepath"
	"reflect"
	"sort"
	"strings"

	"github.com/cosmos72/gomacro/go/etoken"
	mp "github.com/cosmos72/gomacro/go/parser"
)

// ---------------------------------------------------------------- the two parsers

// ForkParse runs the parser the interpreter uses (base.Globals.ParseBytes: Parser.Configure(mode, '~'),
// Init(fileset, name, 0, src), Parse) on src.  panicked != nil when a panic escaped Parse.
func ForkParse(src []byte, mode mp.Mode) (nodes []ast.Node, fset *etoken.FileSet, err error, panicked interface{}) {
	fset = etoken.NewFileSet()
	defer func() {
		if e := recover(); e != nil {
			panicked = e
		}
	}()
	var p mp.Parser
	p.Configure(mode, '~')
	p.Init(fset, "x.go", 0, src)
	nodes, err = p.Parse()
	return
}

func StdParse(src []byte, mode parser.Mode) (*ast.File, *token.FileSet, error) {
	fset := token.NewFileSet()
	f, err := parser.ParseFile(fset, "x.go", src, mode)
	return f, fset, err
}

// ForkFileShape classifies the node list returned by Parser.Parse as a Go file:
// "" when it is [package clause, import declarations..., other declarations...]; otherwise the reason.
// The fork's top-level loop deliberately also accepts statements, expressions, repeated package clauses and
// late imports (the interpreter's REPL language); such a list is not a Go file and counts as a rejection.
func ForkFileShape(nodes []ast.Node) string {
	if len(nodes) == 0 {
		return "empty"
	}
	g, ok := nodes[0].(*ast.GenDecl)
	if !ok || g.Tok != token.PACKAGE {
		return "no-package-clause"
	}
	if len(g.Specs) != 1 {
		return "package-clause-shape"
	}
	if vs, ok := g.Specs[0].(*ast.ValueSpec); !ok || len(vs.Values) != 0 || len(vs.Names) != 1 || vs.Names[0] == nil || vs.Names[0].Name == "" {
		return "package-clause-string" // `package "path"` is an interpreter extension
	}
	seenDecl := false
	for _, n := range nodes[1:] {
		switch d := n.(type) {
		case *ast.GenDecl:
			switch d.Tok {
			case token.PACKAGE:
				return "second-package-clause"
			case token.IMPORT:
				if seenDecl {
					return "import-after-declaration"
				}
			default:
				seenDecl = true
			}
		case *ast.FuncDecl:
			seenDecl = true
		default:
			if n == nil {
				return "nil-node"
			}
			return "toplevel-" + strings.TrimPrefix(fmt.Sprintf("%T", n), "*ast.")
		}
	}
	return ""
}

// PackageName returns the identifier of the fork's package clause node.
func PackageName(nodes []ast.Node) *ast.Ident {
	if len(nodes) > 0 {
		if g, ok := nodes[0].(*ast.GenDecl); ok && len(g.Specs) == 1 {
			if vs, ok := g.Specs[0].(*ast.ValueSpec); ok && len(vs.Names) == 1 {
				return vs.Names[0]
			}
		}
	}
	return nil
}

// ---------------------------------------------------------------- language classification

// UsesTypeParams: the file (parsed by go/parser) declares or instantiates type parameters, or uses the
// constraint syntax (~T, A|B in interfaces) - outside the language of C24 (the fork predates Go generics).
func UsesTypeParams(f *ast.File) bool {
	found := false
	var isTypeExpr func(e ast.Expr) bool
	isTypeExpr = func(e ast.Expr) bool {
		switch e := e.(type) {
		case *ast.ArrayType, *ast.MapType, *ast.ChanType, *ast.FuncType, *ast.StructType, *ast.InterfaceType:
			return true
		case *ast.ParenExpr:
			return isTypeExpr(e.X)
		}
		return false
	}
	var typePos func(e ast.Expr)
	typePos = func(e ast.Expr) { // e stands where a type is expected
		switch e := e.(type) {
		case *ast.IndexExpr, *ast.IndexListExpr:
			found = true
		case *ast.StarExpr:
			typePos(e.X)
		case *ast.ParenExpr:
			typePos(e.X)
		case *ast.ArrayType:
			typePos(e.Elt)
		case *ast.MapType:
			typePos(e.Key)
			typePos(e.Value)
		case *ast.ChanType:
			typePos(e.Value)
		case *ast.Ellipsis:
			if e.Elt != nil {
				typePos(e.Elt)
			}
		}
	}
	fields := func(fl *ast.FieldList) {
		if fl != nil {
			for _, fd := range fl.List {
				typePos(fd.Type)
			}
		}
	}
	ast.Inspect(f, func(n ast.Node) bool {
		switch n := n.(type) {
		case *ast.FuncType:
			if n.TypeParams != nil {
				found = true
			}
			fields(n.Params)
			fields(n.Results)
		case *ast.FuncDecl:
			fields(n.Recv)
		case *ast.TypeSpec:
			if n.TypeParams != nil {
				found = true
			}
			typePos(n.Type)
		case *ast.ValueSpec:
			if n.Type != nil {
				typePos(n.Type)
			}
		case *ast.StructType:
			fields(n.Fields)
		case *ast.CompositeLit:
			if n.Type != nil {
				typePos(n.Type)
			}
		case *ast.TypeAssertExpr:
			if n.Type != nil {
				typePos(n.Type)
			}
		case *ast.ArrayType:
			typePos(n.Elt) // make([]weak.Pointer[T], n): a type literal anywhere has its element in type position
		case *ast.MapType:
			typePos(n.Key)
			typePos(n.Value)
		case *ast.ChanType:
			typePos(n.Value)
		case *ast.Ellipsis:
			if n.Elt != nil {
				typePos(n.Elt)
			}
		case *ast.IndexListExpr:
			found = true
		case *ast.IndexExpr:
			// f[[]int](x), G[map[K]V]{}: an index that is a type literal is an instantiation
			if isTypeExpr(n.Index) {
				found = true
			}
			if _, ok := n.Index.(*ast.IndexExpr); ok {
				// a[b[c]] is an ordinary expression in both parsers; nothing to do
			}
		case *ast.InterfaceType:
			if n.Methods != nil {
				for _, m := range n.Methods.List {
					if len(m.Names) == 0 {
						switch t := m.Type.(type) {
						case *ast.Ident, *ast.SelectorExpr:
						default:
							_ = t
							found = true // union, ~T, literal type, instantiated or parenthesised embedded element
						}
					}
				}
			}
		case *ast.UnaryExpr:
			if n.Op == token.TILDE {
				found = true
			}
		}
		return !found
	})
	return found
}

// LexClass scans src with go/scanner and reports the lexical features that put a file outside the
// language of the property: the identifier `macro` (a keyword of the fork), `template`, the characters ~ # and
// illegal tokens.
func LexClass(src []byte) (usesMacro bool, other string) {
	var s scanner.Scanner
	fset := token.NewFileSet()
	s.Init(fset.AddFile("x.go", -1, len(src)), src, func(token.Position, string) {}, 0)
	for {
		_, tok, lit := s.Scan()
		switch tok {
		case token.EOF:
			return
		case token.IDENT:
			if lit == "macro" {
				usesMacro = true
			}
		case token.TILDE:
			other = "tilde"
		case token.ILLEGAL:
			if other == "" {
				other = "illegal:" + lit
			}
		}
	}
}

// ---------------------------------------------------------------- deep structural comparison

type CmpOpts struct {
	Positions bool // compare token.Pos values (both sides parsed from the same text with base 1)
	Comments  bool // compare *ast.CommentGroup fields (Doc, Comment)
	ModParens bool // strip *ast.ParenExpr on both sides before comparing expressions
	NoPos     bool // ignore token.Pos values entirely (not even valid/invalid): trees built without positions
	// ModEmpty: compare statement lists after removing every *ast.EmptyStmt element, and treat any two EmptyStmt (the
	// statement of `L: ;` vs `L: }`) as equal: the printer never writes an empty statement of a list and writes the one
	// after a label only where the grammar needs it (class C25-3).  Everything else is still compared exactly.
	ModEmpty bool
	// FuncPosLoose: go/parser (>= go1.18?) leaves FuncType.Func = NoPos for interface methods exactly as the fork does;
	// nothing is loosened at present.
}

var (
	posType   = reflect.TypeOf(token.NoPos)
	cgType    = reflect.TypeOf((*ast.CommentGroup)(nil))
	objType   = reflect.TypeOf((*ast.Object)(nil))
	scopeType = reflect.TypeOf((*ast.Scope)(nil))
	exprType  = reflect.TypeOf((*ast.Expr)(nil)).Elem()
	stmtType  = reflect.TypeOf((*ast.Stmt)(nil)).Elem()
	emptyType = reflect.TypeOf(ast.EmptyStmt{})
)

// dropEmpty: the indexes of l (a []ast.Stmt) that do not hold an *ast.EmptyStmt
func dropEmpty(l reflect.Value) []int {
	var keep []int
	for i := 0; i < l.Len(); i++ {
		if _, ok := l.Index(i).Interface().(*ast.EmptyStmt); !ok {
			keep = append(keep, i)
		}
	}
	return keep
}

// Diff returns "" when a and b are structurally identical, else a description of the first difference.
// Ignored: ast.Object / ast.Scope links (Obj, Scope, Unresolved), comment groups unless o.Comments,
// positions unless o.Positions.
func Diff(a, b interface{}, o CmpOpts) string {
	return diff(reflect.ValueOf(a), reflect.ValueOf(b), "", o)
}

func stripParens(v reflect.Value) reflect.Value {
	for v.Kind() == reflect.Interface && !v.IsNil() {
		if p, ok := v.Interface().(*ast.ParenExpr); ok {
			nv := reflect.New(exprType).Elem()
			if p.X != nil {
				nv.Set(reflect.ValueOf(p.X))
			}
			v = nv
			continue
		}
		break
	}
	return v
}

func diff(a, b reflect.Value, path string, o CmpOpts) string {
	if a.IsValid() != b.IsValid() {
		return path + ": one side missing"
	}
	if !a.IsValid() {
		return ""
	}
	if a.Type() != b.Type() {
		return fmt.Sprintf("%s: type %s vs %s", path, a.Type(), b.Type())
	}
	switch a.Kind() {
	case reflect.Interface:
		if o.ModParens && a.Type() == exprType {
			a, b = stripParens(a), stripParens(b)
		}
		if a.IsNil() || b.IsNil() {
			if a.IsNil() != b.IsNil() {
				return fmt.Sprintf("%s: nil=%v vs nil=%v (%s)", path, a.IsNil(), b.IsNil(), dynType(a, b))
			}
			return ""
		}
		ea, eb := a.Elem(), b.Elem()
		if ea.Type() != eb.Type() {
			return fmt.Sprintf("%s: %s vs %s", path, ea.Type(), eb.Type())
		}
		return diff(ea, eb, path+"("+strings.TrimPrefix(ea.Type().String(), "*ast.")+")", o)
	case reflect.Ptr:
		t := a.Type()
		if t == objType || t == scopeType {
			return ""
		}
		if t == cgType && !o.Comments {
			return ""
		}
		if a.IsNil() || b.IsNil() {
			if a.IsNil() != b.IsNil() {
				return fmt.Sprintf("%s: nil=%v vs nil=%v (%s)", path, a.IsNil(), b.IsNil(), t)
			}
			return ""
		}
		return diff(a.Elem(), b.Elem(), path, o)
	case reflect.Struct:
		t := a.Type()
		if o.ModEmpty && t == emptyType {
			return ""
		}
		for i := 0; i < t.NumField(); i++ {
			name := t.Field(i).Name
			if name == "Obj" || name == "Scope" || name == "Unresolved" {
				continue
			}
			if d := diff(a.Field(i), b.Field(i), path+"."+name, o); d != "" {
				return d
			}
		}
		return ""
	case reflect.Slice:
		if o.ModEmpty && a.Type().Elem() == stmtType {
			ka, kb := dropEmpty(a), dropEmpty(b)
			if len(ka) != len(kb) {
				return fmt.Sprintf("%s: %d vs %d non-empty statements", path, len(ka), len(kb))
			}
			for i := range ka {
				if d := diff(a.Index(ka[i]), b.Index(kb[i]), fmt.Sprintf("%s[%d]", path, ka[i]), o); d != "" {
					return d
				}
			}
			return ""
		}
		if a.Len() != b.Len() {
			return fmt.Sprintf("%s: len %d vs %d", path, a.Len(), b.Len())
		}
		for i := 0; i < a.Len(); i++ {
			if d := diff(a.Index(i), b.Index(i), fmt.Sprintf("%s[%d]", path, i), o); d != "" {
				return d
			}
		}
		return ""
	default:
		if a.Type() == posType {
			if o.NoPos {
				return ""
			}
			if !o.Positions {
				// still distinguish "no position" from "some position" where it carries structure
				// (Lparen of GenDecl, Rparen/Ellipsis of CallExpr ...): valid vs invalid
				if (a.Int() == 0) != (b.Int() == 0) {
					return fmt.Sprintf("%s: pos valid=%v vs valid=%v", path, a.Int() != 0, b.Int() != 0)
				}
				return ""
			}
			if a.Int() != b.Int() {
				return fmt.Sprintf("%s: pos %d vs %d", path, a.Int(), b.Int())
			}
			return ""
		}
		if a.Interface() != b.Interface() {
			return fmt.Sprintf("%s: %v vs %v", path, a.Interface(), b.Interface())
		}
		return ""
	}
}

func dynType(a, b reflect.Value) string {
	for _, v := range []reflect.Value{a, b} {
		if !v.IsNil() {
			return v.Elem().Type().String()
		}
	}
	return "nil"
}

// ---------------------------------------------------------------- files

// GoFiles lists the .go files under root (symlink resolved), sorted; directories named testdata are skipped
// (they hold deliberately invalid sources for the toolchain's own tests), as are .git and build directories.
func GoFiles(root string) []string {
	real, err := filepath.EvalSymlinks(root)
	if err != nil {
		return nil
	}
	var out []string
	filepath.Walk(real, func(p string, info os.FileInfo, err error) error {
		if err != nil {
			return nil
		}
		if info.IsDir() {
			n := info.Name()
			if n == "testdata" || n == ".git" || n == "_obj" {
				return filepath.SkipDir
			}
			return nil
		}
		if strings.HasSuffix(p, ".go") {
			out = append(out, p)
		}
		return nil
	})
	sort.Strings(out)
	return out
}

func GoRootSrc() string {
	if r := os.Getenv("VERIF_GOROOT_SRC"); r != "" {
		return r
	}
	gr := os.Getenv("GOROOT")
	if gr == "" {
		gr = goEnvGOROOT()
	}
	return filepath.Join(gr, "src")
}

// ---------------------------------------------------------------- recorded finding classes (see known_findings.json)

// leftmostIndexes: the leftmost operand of e is an index or slice expression (`a[0] + 1`, `a[1:].f`)
func leftmostIndexes(e ast.Expr) bool {
	for {
		switch x := e.(type) {
		case *ast.IndexExpr, *ast.SliceExpr:
			return true
		case *ast.BinaryExpr:
			e = x.X
		case *ast.CallExpr:
			e = x.Fun
		case *ast.SelectorExpr:
			e = x.X
		case *ast.TypeAssertExpr:
			e = x.X
		default:
			return false
		}
	}
}

// ForkTreeClass inspects the fork's node list for the constructs behind the recorded C24 findings:
//
//	"expr-block"            a `{ ... }` block accepted as an operand (returned as UnaryExpr{Op: etoken.MACRO, X: FuncLit});
//	                        any unary/binary operator that is not a Go token is reported as this class too
//	"switch-body-statement" a statement that is not a case clause directly inside a switch body (patch "support switch foo { ~,{bar} }")
//	"array-length-starts-with-index-expression"  `type T [a[0]]int`: go/parser >= 1.18 takes `[a[` for a type parameter list
//	"ellipsis-array-field"  a named parameter/result/receiver/field whose type is `[...]T` (go/parser >= 1.18 rejects it
//	                        while parsing the parameter/field; the go1.10-era fork leaves it to the type checker)
//	"import-statement"      an import declaration accepted as a statement inside a function body or block
//	                        (parseStmt patch "allow imports inside statements. useful for ~quote and ~quasiquote")
func ForkTreeClass(nodes []ast.Node) string {
	cls := ""
	for _, n := range nodes {
		if n == nil {
			continue
		}
		ast.Inspect(n, func(x ast.Node) bool {
			switch x := x.(type) {
			case *ast.DeclStmt:
				if gd, ok := x.Decl.(*ast.GenDecl); ok && gd.Tok == token.IMPORT && cls == "" {
					cls = "import-statement"
				}
			case *ast.UnaryExpr:
				if x.Op > token.TILDE {
					cls = "expr-block"
				}
			case *ast.BinaryExpr:
				if x.Op > token.TILDE {
					cls = "expr-block"
				}
			case *ast.SwitchStmt:
				for _, st := range x.Body.List {
					if _, ok := st.(*ast.CaseClause); !ok && cls == "" {
						cls = "switch-body-statement"
					}
				}
			case *ast.TypeSwitchStmt:
				for _, st := range x.Body.List {
					if _, ok := st.(*ast.CaseClause); !ok && cls == "" {
						cls = "switch-body-statement"
					}
				}
			case *ast.TypeSpec:
				if at, ok := x.Type.(*ast.ArrayType); ok && at.Len != nil && cls == "" && leftmostIndexes(at.Len) {
					cls = "array-length-starts-with-index-expression"
				}
			case *ast.Field:
				if len(x.Names) > 0 {
					if at, ok := x.Type.(*ast.ArrayType); ok {
						if el, ok := at.Len.(*ast.Ellipsis); ok && el.Elt == nil && cls == "" {
							cls = "ellipsis-array-field"
						}
					}
				}
			}
			return true
		})
	}
	return cls
}

// CommentAfterMultilineToken: a comment starts on the line where a raw string literal spanning several lines ends.
// In ParseComments mode go/parser compares the comment's line with the line where the previous token STARTS, the fork
// (whose scanner emits the automatic semicolon before the comment, finding #14 of C23) with the line where it ends,
// so only the fork attaches such a comment as a line comment.
func CommentAfterMultilineToken(src []byte) bool {
	var s scanner.Scanner
	fset := token.NewFileSet()
	f := fset.AddFile("x.go", -1, len(src))
	s.Init(f, src, func(token.Position, string) {}, scanner.ScanComments)
	endLine := -1
	for {
		pos, tok, lit := s.Scan()
		switch {
		case tok == token.EOF:
			return false
		case tok == token.COMMENT:
			if endLine >= 0 && f.Line(pos) == endLine {
				return true
			}
		case tok == token.SEMICOLON && lit == "\n":
			// automatic semicolon: keeps endLine (go/scanner emits it after the comment)
			continue
		case tok == token.STRING && strings.Contains(lit, "\n"):
			endLine = f.Line(pos) + strings.Count(lit, "\n")
			continue
		}
		endLine = -1
	}
}

// ---------------------------------------------------------------- C25 finding classes (by-design normalisations of go/printer)

// HasExplicitEmptyStmt: a statement list contains an explicit empty statement `;` (the printer never prints it).
func HasExplicitEmptyStmt(n ast.Node) bool {
	found := false
	chk := func(l []ast.Stmt) {
		for _, s := range l {
			if e, ok := s.(*ast.EmptyStmt); ok && !e.Implicit {
				found = true
			}
		}
	}
	ast.Inspect(n, func(x ast.Node) bool {
		switch x := x.(type) {
		case *ast.BlockStmt:
			chk(x.List)
		case *ast.CaseClause:
			chk(x.Body)
		case *ast.CommClause:
			chk(x.Body)
		case *ast.LabeledStmt:
			if e, ok := x.Stmt.(*ast.EmptyStmt); ok && !e.Implicit {
				found = true
			}
		}
		return !found
	})
	return found
}

// HasEmptyBodyAfterMultilineSignature: a function declaration or literal with an empty body whose signature contains a
// struct or interface type literal with at least one field/method (the printer breaks such a signature over several
// lines; `{}` then becomes `{` newline `}` when the printed text is printed again).
func HasEmptyBodyAfterMultilineSignature(n ast.Node) bool {
	found := false
	multi := func(ft *ast.FuncType) bool {
		m := false
		ast.Inspect(ft, func(x ast.Node) bool {
			switch x := x.(type) {
			case *ast.StructType:
				if x.Fields != nil && len(x.Fields.List) > 0 {
					m = true
				}
			case *ast.InterfaceType:
				if x.Methods != nil && len(x.Methods.List) > 0 {
					m = true
				}
			case *ast.FuncLit:
				m = true // a function literal inside the signature (array length expression) is printed over several lines too
			}
			return !m
		})
		return m
	}
	ast.Inspect(n, func(x ast.Node) bool {
		switch x := x.(type) {
		case *ast.FuncDecl:
			if x.Body != nil && len(x.Body.List) == 0 && (multi(x.Type) || (x.Recv != nil && multi(&ast.FuncType{Params: x.Recv}))) {
				found = true
			}
		case *ast.FuncLit:
			if x.Body != nil && len(x.Body.List) == 0 && multi(x.Type) {
				found = true
			}
		}
		return !found
	})
	return found
}

// MethodWithoutReceiver: go/parser accepts `func () m() {}` (empty receiver list; the error is the type checker's), which is
// not valid Go: the receiver section must declare exactly one parameter.
func MethodWithoutReceiver(f *ast.File) bool {
	for _, d := range f.Decls {
		if fd, ok := d.(*ast.FuncDecl); ok && fd.Recv != nil && len(fd.Recv.List) != 1 {
			return true
		}
	}
	return false
}

package c24lib

import (
	"fmt"
	"go/scanner"
	"go/token"
	"os/exec"
	"runtime"
	"strings"

	"verifh/vh"
)

func goEnvGOROOT() string {
	out, err := exec.Command("go", "env", "GOROOT").Output()
	if err == nil && len(strings.TrimSpace(string(out))) > 0 {
		return strings.TrimSpace(string(out))
	}
	return runtime.GOROOT()
}

// ---------------------------------------------------------------- grammar-driven program generator
// Produces syntactically valid, type-parameter-free Go source text (no attempt at type correctness - neither parser
// type-checks).  Every production of the Go 1.17 grammar is reachable: all binary/unary operators, all statement and
// declaration forms, composite literals (also inside if/for/switch headers, where they must be parenthesised unless
// the literal type is not a bare type name), labelled statements, method expressions, struct tags, iota constant
// groups, anonymous structs/interfaces, channel directions, variadic parameters and calls, function literals,
// conversions, type switches, select, goto.  White space and comments are varied because positions are compared.

type Gen struct {
	R        *vh.Rng
	Comments bool // sprinkle comments
	sb       strings.Builder
	labels   int
	Feat     map[string]int // productions used (for the evidence distribution)
	// NoExprNewlines: no line breaks inside expressions / argument lists (C25: layout instabilities of the printer,
	// finding C25-5, depend on them)
	NoExprNewlines bool
	// EmbedUnqualified: also generate `interface { A; ... }` (finding C24-1 class; parses only with the fix)
	EmbedUnqualified bool
}

var BinOps = []string{"||", "&&", "==", "!=", "<", "<=", ">", ">=", "+", "-", "|", "^", "*", "/", "%", "<<", ">>", "&", "&^"}
var UnOps = []string{"+", "-", "!", "^", "&", "<-", "*"}
var assignOps = []string{"=", "+=", "-=", "*=", "/=", "%=", "&=", "|=", "^=", "<<=", ">>=", "&^="}
var idents = []string{"a", "b", "c", "x", "y", "z", "foo", "Bar", "n", "s", "i", "j", "k", "err", "ok", "v", "_x", "αβ", "x1"}
var typeNames = []string{"T", "S", "int", "string", "byte", "error", "bool", "float64", "U"}
var pkgs = []string{"fmt", "io", "os", "p1"}

func (g *Gen) feat(s string) {
	if g.Feat != nil {
		g.Feat[s]++
	}
}
func (g *Gen) w(s string)       { g.sb.WriteString(s) }
func (g *Gen) pick(xs []string) string { return xs[g.R.Intn(len(xs))] }
func (g *Gen) id() string       { return g.pick(idents) }

// sp: optional white space where Go's grammar does not care (no newline: auto-semicolons)
func (g *Gen) sp() {
	switch g.R.Intn(12) {
	case 0:
		g.w("  ")
	case 1:
		g.w("\t")
	case 2:
	default:
		g.w(" ")
	}
}

// nl: after an operator / comma / opening bracket a newline is allowed too
func (g *Gen) spnl(ind int) {
	if g.R.Intn(14) == 0 && !g.NoExprNewlines {
		g.w("\n" + strings.Repeat("\t", ind+1))
	} else if g.Comments && g.R.Intn(40) == 0 {
		g.w(" /* c */ ")
	} else {
		g.sp()
	}
}

func (g *Gen) lit() {
	switch g.R.Intn(12) {
	case 0:
		g.w(fmt.Sprint(g.R.Intn(1000)))
	case 1:
		g.w("0x" + fmt.Sprintf("%X", g.R.Intn(65536)))
	case 2:
		g.w("1.5e3")
	case 3:
		g.w("'x'")
	case 4:
		g.w(`'\n'`)
	case 5:
		g.w(`"s\t\"q\""`)
	case 6:
		g.w("`raw\n\tstring`")
	case 7:
		g.w("2i")
	case 8:
		g.w("0b1_01")
	case 9:
		g.w("0o17")
	case 10:
		g.w(".5")
	default:
		g.w(`""`)
	}
}

type ectx struct {
	noLit bool // inside an if/for/switch header: `T{}` must be parenthesised
	ind   int
}

func (g *Gen) typ(d int) {
	if d <= 0 {
		if g.R.Intn(4) == 0 {
			g.w(g.pick(pkgs) + "." + g.pick(typeNames))
		} else {
			g.w(g.pick(typeNames))
		}
		return
	}
	switch g.R.Intn(16) {
	case 0:
		g.w("*")
		g.typ(d - 1)
	case 1:
		g.w("[]")
		g.typ(d - 1)
	case 2:
		g.w("[")
		if g.R.Intn(3) == 0 {
			g.expr(1, ectx{})
		} else {
			g.w(fmt.Sprint(g.R.Intn(9)))
		}
		g.w("]")
		g.typ(d - 1)
	case 3:
		g.w("map[")
		g.typ(d - 1)
		g.w("]")
		g.typ(d - 1)
	case 4:
		g.feat("type:chan")
		g.w("chan ")
		g.typ(d - 1)
	case 5:
		g.feat("type:<-chan")
		g.w("<-chan ")
		g.typ(d - 1)
	case 6:
		g.feat("type:chan<-")
		g.w("chan<- ")
		g.typ(d - 1)
	case 7:
		g.feat("type:func")
		g.w("func")
		g.signature(d-1, false)
	case 8:
		g.structType(d - 1)
	case 9:
		g.interfaceType(d - 1)
	case 10:
		g.w("(")
		g.typ(d - 1)
		g.w(")")
	case 11:
		g.feat("type:chan-of-chan")
		g.w([]string{"chan<- chan ", "chan (<-chan ", "<-chan <-chan ", "chan<- <-chan "}[g.R.Intn(4)])
		closing := false
		if strings.HasSuffix(g.sb.String(), "(<-chan ") {
			closing = true
		}
		g.typ(d - 1)
		if closing {
			g.w(")")
		}
	default:
		g.typ(0)
	}
}

func (g *Gen) structType(d int) {
	g.feat("type:struct")
	g.w("struct {")
	n := g.R.Intn(4)
	for i := 0; i < n; i++ {
		if i > 0 {
			g.w("; ")
		}
		switch g.R.Intn(6) {
		case 0:
			g.feat("field:embedded")
			g.w(g.pick([]string{"T", "*T", "io.Reader", "*os.File", "S"}))
		case 1:
			g.w(fmt.Sprintf("f%d, g%d ", i, i))
			g.typ(d)
		default:
			g.w(fmt.Sprintf("f%d ", i))
			g.typ(d)
		}
		if g.R.Intn(3) == 0 {
			g.feat("field:tag")
			g.w(g.pick([]string{" `json:\"x,omitempty\"`", ` "tag"`}))
		}
	}
	g.w("}")
}

func (g *Gen) interfaceType(d int) {
	g.feat("type:interface")
	g.w("interface {")
	n := g.R.Intn(4)
	for i := 0; i < n; i++ {
		if i > 0 {
			g.w("; ")
		}
		switch g.R.Intn(5) {
		case 0:
			g.feat("iface:embedded-qualified")
			g.w(g.pick([]string{"io.Reader", "fmt.Stringer"}))
		case 1:
			if g.EmbedUnqualified {
				g.feat("iface:embedded-unqualified")
				g.w(g.pick([]string{"error", "T", "S"}))
			} else {
				g.w("io.Writer")
			}
		default:
			g.w(fmt.Sprintf("M%d", i))
			g.signature(d, false)
		}
	}
	g.w("}")
}

// signature: parameters and results (after the func keyword / method name)
func (g *Gen) signature(d int, named bool) {
	g.w("(")
	n := g.R.Intn(4)
	useNames := g.R.Bool() || named
	for i := 0; i < n; i++ {
		if i > 0 {
			g.w(", ")
		}
		if useNames {
			if g.R.Intn(4) == 0 && i+1 < n {
				g.w(fmt.Sprintf("p%d", i))
				continue // `a, b int` grouping
			}
			g.w(fmt.Sprintf("p%d ", i))
		}
		if i == n-1 && g.R.Intn(3) == 0 {
			g.feat("param:variadic")
			g.w("...")
		}
		g.typ(d)
	}
	if n > 0 && g.R.Intn(8) == 0 {
		g.w(",")
	}
	g.w(")")
	switch g.R.Intn(5) {
	case 0:
		g.w(" ")
		g.typ(d)
	case 1:
		g.feat("result:named")
		g.w(" (r0 ")
		g.typ(d)
		g.w(", err error)")
	case 2:
		g.w(" (")
		g.typ(d)
		g.w(", ")
		g.typ(d)
		g.w(")")
	}
}

func (g *Gen) exprList(d int, c ectx, min, max int) {
	n := min + g.R.Intn(max-min+1)
	for i := 0; i < n; i++ {
		if i > 0 {
			g.w(",")
			g.spnl(c.ind)
		}
		g.expr(d, c)
	}
}

func (g *Gen) compositeLit(d int, c ectx) {
	inner := ectx{ind: c.ind}
	switch g.R.Intn(8) {
	case 0:
		g.feat("lit:slice")
		g.w("[]")
		g.typ(0)
		g.w("{")
		g.exprList(d-1, inner, 0, 3)
		g.w("}")
	case 1:
		g.feat("lit:array...")
		g.w("[...]string{")
		if g.R.Bool() {
			g.w("2: ")
		}
		g.exprList(d-1, inner, 1, 2)
		g.w("}")
	case 2:
		g.feat("lit:map")
		g.w("map[string]")
		g.typ(0)
		g.w("{")
		n := g.R.Intn(3)
		for i := 0; i < n; i++ {
			g.w(fmt.Sprintf("\"k%d\": ", i))
			g.expr(d-1, inner)
			g.w(", ")
		}
		g.w("}")
	case 3:
		g.feat("lit:anon-struct")
		g.w("struct{ a int; b string }{")
		if g.R.Bool() {
			g.w("a: ")
			g.expr(d-1, inner)
		}
		g.w("}")
	case 4:
		g.feat("lit:nested-elided")
		g.w("[][]int{{1, 2}, {}, {3}}")
	case 5:
		g.feat("lit:map-elided")
		g.w("map[T]*S{{1}: {2}, {x: 3}: nil}")
	default:
		// T{...} with a bare type name: must be parenthesised in a control clause
		g.feat("lit:named")
		par := c.noLit
		if par {
			g.feat("lit:parenthesised-in-header")
			g.w("(")
		}
		if g.R.Intn(3) == 0 {
			g.w(g.pick(pkgs) + ".")
		}
		g.w(g.pick([]string{"T", "S", "Point"}))
		g.w("{")
		switch g.R.Intn(3) {
		case 0:
			n := g.R.Intn(3)
			for i := 0; i < n; i++ {
				if i > 0 {
					g.w(", ")
				}
				g.w(fmt.Sprintf("f%d: ", i))
				g.expr(d-1, inner)
			}
		case 1:
			g.exprList(d-1, inner, 0, 3)
			if g.R.Intn(4) == 0 && !g.NoExprNewlines {
				g.w(",\n" + strings.Repeat("\t", c.ind))
			}
		}
		g.w("}")
		if par {
			g.w(")")
		}
	}
}

func (g *Gen) funcLit(d int, c ectx) {
	g.feat("expr:funclit")
	g.w("func")
	g.signature(1, false)
	g.w(" ")
	g.block(d-1, c.ind, nil)
}

// primaryNoNum: a primary expression that may be followed by '.': a numeric literal is parenthesised
// (`1.x`, `0x1F.x` would be scanned as malformed floating-point literals)
func (g *Gen) primaryNoNum(d int, c ectx) {
	mark := g.sb.Len()
	g.primary(d, c)
	s := g.sb.String()
	if mark < len(s) && (s[mark] >= '0' && s[mark] <= '9' || s[mark] == '.') {
		tail := s[mark:]
		g.sb.Reset()
		g.sb.WriteString(s[:mark] + "(" + tail + ")")
	}
}

// primary: operand possibly followed by selectors, indexes, calls ...
func (g *Gen) primary(d int, c ectx) {
	inner := ectx{ind: c.ind}
	if d <= 0 {
		if g.R.Intn(3) == 0 {
			g.lit()
		} else {
			g.w(g.id())
		}
		return
	}
	switch g.R.Intn(20) {
	case 0, 1:
		g.feat("expr:paren")
		g.w("(")
		g.expr(d-1, inner)
		g.w(")")
	case 2:
		g.feat("expr:selector")
		g.primaryNoNum(d-1, c)
		g.w("." + g.id())
	case 3:
		g.feat("expr:index")
		g.primary(d-1, c)
		g.w("[")
		g.expr(d-1, inner)
		g.w("]")
	case 4:
		g.feat("expr:slice")
		g.primary(d-1, c)
		g.w("[")
		switch g.R.Intn(5) {
		case 0:
			g.w(":")
		case 1:
			g.expr(d-1, inner)
			g.w(":")
		case 2:
			g.w(":")
			g.expr(d-1, inner)
		case 3:
			g.expr(d-1, inner)
			g.w(" : ")
			g.expr(d-1, inner)
		default:
			g.feat("expr:slice3")
			if g.R.Bool() {
				g.expr(d-1, inner)
			}
			g.w(":")
			g.expr(d-1, inner)
			g.w(":")
			g.expr(d-1, inner)
		}
		g.w("]")
	case 5, 6:
		g.feat("expr:call")
		g.primary(d-1, c)
		g.w("(")
		n := g.R.Intn(4)
		for i := 0; i < n; i++ {
			if i > 0 {
				g.w(",")
				g.spnl(c.ind)
			}
			g.expr(d-1, inner)
		}
		if n > 0 && g.R.Intn(5) == 0 {
			g.feat("call:ellipsis")
			if s := g.sb.String(); s[len(s)-1] >= '0' && s[len(s)-1] <= '9' {
				g.w(" ") // `1...` would be scanned as the literal `1.` followed by `..`
			}
			g.w("...")
		}
		if n > 0 && g.R.Intn(8) == 0 && !g.NoExprNewlines {
			g.w(",\n" + strings.Repeat("\t", c.ind))
		}
		g.w(")")
	case 7:
		g.feat("expr:typeassert")
		g.primaryNoNum(d-1, c)
		g.w(".(")
		g.typ(1)
		g.w(")")
	case 8, 9:
		g.compositeLit(d, c)
	case 10:
		g.funcLit(d, c)
	case 11:
		g.feat("expr:conversion")
		switch g.R.Intn(6) {
		case 0:
			g.w("[]byte(")
		case 1:
			g.w("(*T)(")
		case 2:
			g.w("(<-chan int)(")
		case 3:
			g.w("(func())(")
		case 4:
			g.w("map[string]int(")
		default:
			g.w("interface{}(")
		}
		g.expr(d-1, inner)
		g.w(")")
	case 12:
		g.feat("expr:methodexpr")
		g.w(g.pick([]string{"T.Method", "(*T).Method", "pkg.T.Method", "(*pkg.T).Method", "(T).Method"}))
	case 13:
		g.feat("expr:builtin-type-arg")
		switch g.R.Intn(3) {
		case 0:
			g.w("make([]")
			g.typ(0)
			g.w(", ")
			g.expr(d-1, inner)
			g.w(")")
		case 1:
			g.w("new(")
			g.typ(1)
			g.w(")")
		default:
			g.w("make(chan<- int)")
		}
	case 14:
		g.feat("expr:addr-of-lit")
		g.w("&")
		g.compositeLit(d, c)
	case 15:
		g.feat("expr:funclit-call")
		g.funcLit(d, c)
		g.w("()")
	default:
		g.primary(0, c)
	}
}

// wop writes an operator; a blank is inserted when the previous byte is an operator character, so that two
// tokens never fuse into another one (`- -a`, `a & &b`, `a < -b`, `a / *p`).
func (g *Gen) wop(op string) {
	s := g.sb.String()
	if n := len(s); n > 0 && strings.ContainsRune("+-&<*^!=|>/%", rune(s[n-1])) {
		g.w(" ")
	}
	g.w(op)
}

func (g *Gen) unary(d int, c ectx) {
	if d > 0 && g.R.Intn(4) == 0 {
		op := g.pick(UnOps)
		g.feat("unary:" + op)
		g.wop(op)
		if g.R.Intn(6) == 0 {
			g.w(" ")
		}
		g.unary(d-1, c)
		return
	}
	g.primary(d, c)
}

// expr: a flat chain of operands and binary operators WITHOUT parentheses (the precedence climber decides the shape)
func (g *Gen) expr(d int, c ectx) {
	n := 0
	if d > 0 {
		switch g.R.Intn(6) {
		case 0, 1:
			n = 1
		case 2:
			n = 2 + g.R.Intn(4)
		}
	}
	g.unary(d, c)
	for i := 0; i < n; i++ {
		op := g.pick(BinOps)
		g.feat("binary:" + op)
		if g.R.Intn(8) == 0 {
			g.wop(op) // no blanks
		} else {
			g.sp()
			g.wop(op)
			g.spnl(c.ind)
		}
		g.unary(d-1, c)
	}
}

func (g *Gen) indent(ind int) { g.w(strings.Repeat("\t", ind)) }

func (g *Gen) comment(ind int) {
	if !g.Comments {
		return
	}
	switch g.R.Intn(10) {
	case 0:
		g.indent(ind)
		g.w("// line comment\n")
	case 1:
		g.indent(ind)
		g.w("/* general\n   comment */\n")
	}
}

func (g *Gen) trailingComment() {
	if g.Comments && g.R.Intn(12) == 0 {
		g.w(" // trailing")
	}
}

// block: { stmts }; loopLabels = labels of enclosing loops usable by break/continue
func (g *Gen) block(d, ind int, loops []string) {
	g.w("{")
	n := 0
	if d > 0 {
		n = g.R.Intn(4)
	}
	if n == 0 && g.R.Bool() {
		g.w("}")
		return
	}
	g.w("\n")
	for i := 0; i < n; i++ {
		g.comment(ind + 1)
		g.indent(ind + 1)
		g.stmt(d, ind+1, loops, i == n-1)
		g.trailingComment()
		g.w("\n")
	}
	if g.R.Intn(10) == 0 {
		g.labeledTail(ind+1, true, "block")
	}
	g.indent(ind)
	g.w("}")
}

// labeledTail: a labelled EMPTY statement closing a statement list (the body of a block, of a case clause or of a
// communication clause): `L: ;`, `L:` newline `;`, or - only where a `}` follows (beforeBrace) - `L:` alone (implicit
// empty statement).  Before `case`/`default` the empty statement must be written: `L:` newline `case` is a syntax error.
func (g *Gen) labeledTail(ind int, beforeBrace bool, where string) {
	g.labels++
	lab := fmt.Sprintf("E%d", g.labels)
	g.indent(ind)
	pos := "-nonfinal"
	if beforeBrace {
		pos = "-final"
	}
	switch k := g.R.Intn(3); {
	case k == 0 && beforeBrace:
		g.feat("tail:label-implicit-empty:" + where + pos)
		g.w(lab + ":")
	case k == 1:
		g.feat("tail:label-newline-semicolon:" + where + pos)
		g.w(lab + ":\n")
		g.indent(ind)
		g.w(";")
	default:
		g.feat("tail:label-semicolon:" + where + pos)
		g.w(lab + ": ;")
	}
	g.w("\n")
}

func (g *Gen) simpleStmt(d int, c ectx) {
	switch g.R.Intn(9) {
	case 0:
		g.feat("stmt:define")
		g.w(g.id())
		if g.R.Intn(3) == 0 {
			g.w(", " + g.id())
		}
		g.w(" := ")
		g.exprList(d, c, 1, 2)
	case 1, 2:
		op := g.pick(assignOps)
		g.feat("stmt:assign" + op)
		g.primary(1, c)
		if op == "=" && g.R.Intn(3) == 0 {
			g.w(", ")
			g.primary(1, c)
			g.w(" = ")
			g.exprList(d, c, 2, 2)
		} else {
			g.w(" " + op + " ")
			g.expr(d, c)
		}
	case 3:
		g.feat("stmt:incdec")
		g.primary(1, c)
		g.w(g.pick([]string{"++", "--"}))
	case 4:
		g.feat("stmt:send")
		g.primary(1, c)
		g.w(" <- ")
		g.expr(d, c)
	case 5:
		g.feat("stmt:recv-expr")
		g.w("<-")
		g.primary(1, c)
	default:
		g.feat("stmt:call")
		g.w(g.id() + "(")
		g.exprList(d, ectx{ind: c.ind}, 0, 2)
		g.w(")")
	}
}

func (g *Gen) stmt(d, ind int, loops []string, last bool) {
	c := ectx{ind: ind}
	h := ectx{ind: ind, noLit: true}
	if d <= 0 {
		g.simpleStmt(1, c)
		return
	}
	switch g.R.Intn(27) {
	case 26:
		// a label in front of ANY statement (same line or next line)
		g.feat("stmt:labeled-any")
		g.labels++
		g.w(fmt.Sprintf("A%d:", g.labels))
		if g.R.Bool() {
			g.w(" ")
		} else {
			g.w("\n")
			g.indent(ind)
		}
		g.stmt(d-1, ind, loops, last)
	case 0, 1, 2:
		g.simpleStmt(d, c)
	case 3:
		g.feat("stmt:var")
		g.w("var " + g.id())
		switch g.R.Intn(3) {
		case 0:
			g.w(" ")
			g.typ(1)
		case 1:
			g.w(" = ")
			g.expr(d-1, c)
		default:
			g.w(" ")
			g.typ(1)
			g.w(" = ")
			g.expr(d-1, c)
		}
	case 4:
		g.feat("stmt:const")
		g.w("const " + g.id() + " = ")
		g.expr(1, c)
	case 5:
		g.feat("stmt:type")
		g.w("type L" + fmt.Sprint(g.R.Intn(9)) + " ")
		g.typ(1)
	case 6:
		g.feat("stmt:go")
		g.w("go ")
		if g.R.Bool() {
			g.funcLit(d-1, c)
			g.w("()")
		} else {
			g.w("f(")
			g.exprList(d-1, c, 0, 2)
			g.w(")")
		}
	case 7:
		g.feat("stmt:defer")
		g.w("defer ")
		if g.R.Bool() {
			g.w("mu.Unlock()")
		} else {
			g.funcLit(d-1, c)
			g.w("(")
			g.exprList(1, c, 0, 1)
			g.w(")")
		}
	case 8:
		g.feat("stmt:return")
		g.w("return")
		if g.R.Intn(3) > 0 {
			g.w(" ")
			g.exprList(d-1, c, 1, 3)
		}
	case 9:
		g.feat("stmt:block")
		g.block(d-1, ind, loops)
	case 10, 11:
		g.feat("stmt:if")
		g.w("if ")
		if g.R.Intn(3) == 0 {
			g.feat("if:init")
			g.simpleStmt(d-1, h)
			g.w("; ")
		}
		g.expr(d-1, h)
		g.w(" ")
		g.block(d-1, ind, loops)
		for k := g.R.Intn(3); k > 0; k-- {
			g.feat("if:else-if")
			g.w(" else if ")
			g.expr(d-1, h)
			g.w(" ")
			g.block(d-1, ind, loops)
		}
		if g.R.Bool() {
			g.w(" else ")
			g.block(d-1, ind, loops)
		}
	case 12, 13, 14:
		lab := ""
		if g.R.Intn(3) == 0 {
			g.labels++
			lab = fmt.Sprintf("L%d", g.labels)
			g.feat("stmt:labeled-loop")
			g.w(lab + ":\n")
			g.indent(ind)
		}
		inner := loops
		if lab != "" {
			inner = append(append([]string{}, loops...), lab)
		} else {
			inner = append(append([]string{}, loops...), "")
		}
		g.w("for ")
		switch g.R.Intn(8) {
		case 0:
			g.feat("for:infinite")
		case 1:
			g.feat("for:cond")
			g.expr(d-1, h)
			g.w(" ")
		case 2:
			g.feat("for:3clause")
			if g.R.Intn(4) > 0 {
				g.simpleStmt(d-1, h)
			}
			g.w("; ")
			if g.R.Intn(4) > 0 {
				g.expr(d-1, h)
			}
			g.w("; ")
			if g.R.Intn(4) > 0 {
				g.w(g.id() + g.pick([]string{"++", " += 2", " = i << 1"}))
				g.w(" ")
			}
		case 3:
			g.feat("for:range-define2")
			g.w(g.id() + ", " + g.id() + " := range ")
			g.expr(d-1, h)
			g.w(" ")
		case 4:
			g.feat("for:range-define1")
			g.w(g.id() + " := range ")
			g.expr(d-1, h)
			g.w(" ")
		case 5:
			g.feat("for:range-assign")
			g.w("x.f, a[i] = range ")
			g.expr(d-1, h)
			g.w(" ")
		case 6:
			g.feat("for:range-bare")
			g.w("range ")
			g.expr(d-1, h)
			g.w(" ")
		default:
			g.feat("for:range-literal")
			g.w("_, v := range []int{1, 2, 3} ")
		}
		g.block(d-1, ind, inner)
	case 15, 16:
		g.feat("stmt:switch")
		lab := ""
		if g.R.Intn(5) == 0 {
			g.labels++
			lab = fmt.Sprintf("L%d", g.labels)
			g.w(lab + ": ")
		}
		g.w("switch ")
		if g.R.Intn(3) == 0 {
			g.feat("switch:init")
			g.simpleStmt(d-1, h)
			g.w("; ")
		}
		if g.R.Intn(4) > 0 {
			g.expr(d-1, h)
			g.w(" ")
		}
		g.w("{\n")
		nc := g.R.Intn(4)
		for i := 0; i < nc; i++ {
			g.indent(ind)
			if i == nc-1 && g.R.Bool() {
				g.w("default:")
			} else {
				g.w("case ")
				g.exprList(d-1, c, 1, 3)
				g.w(":")
			}
			g.w("\n")
			ns := g.R.Intn(3)
			for k := 0; k < ns; k++ {
				g.indent(ind + 1)
				g.stmt(d-2, ind+1, loops, false)
				g.w("\n")
			}
			if i < nc-1 && g.R.Intn(4) == 0 {
				g.feat("stmt:fallthrough")
				g.indent(ind + 1)
				g.w("fallthrough\n")
			} else if lab != "" && g.R.Bool() {
				g.indent(ind + 1)
				g.w("break " + lab + "\n")
			} else if g.R.Intn(6) == 0 {
				g.labeledTail(ind+1, i == nc-1, "case")
			}
		}
		g.indent(ind)
		g.w("}")
	case 17:
		g.feat("stmt:typeswitch")
		g.w("switch ")
		if g.R.Intn(4) == 0 {
			g.w("y := f(); ")
		}
		if g.R.Bool() {
			g.w("t := ")
		}
		// `&T{}.(type)` is &(T{}.(type)): not a type switch guard; parenthesise an operand that starts with an operator
		mark := g.sb.Len()
		g.primary(1, h)
		if s := g.sb.String(); mark < len(s) && strings.ContainsRune("&*-+!^<", rune(s[mark])) {
			tail := s[mark:]
			g.sb.Reset()
			g.sb.WriteString(s[:mark] + "(" + tail + ")")
		}
		g.w(".(type) {\n")
		nc := g.R.Intn(4)
		for i := 0; i < nc; i++ {
			g.indent(ind)
			if i == nc-1 && g.R.Bool() {
				g.w("default:\n")
			} else {
				g.w("case ")
				k := 1 + g.R.Intn(2)
				for j := 0; j < k; j++ {
					if j > 0 {
						g.w(", ")
					}
					if g.R.Intn(5) == 0 {
						g.w("nil")
					} else {
						g.typ(1)
					}
				}
				g.w(":\n")
			}
			if g.R.Bool() {
				g.indent(ind + 1)
				g.stmt(d-2, ind+1, loops, false)
				g.w("\n")
			}
			if g.R.Intn(6) == 0 {
				g.labeledTail(ind+1, i == nc-1, "typecase")
			}
		}
		g.indent(ind)
		g.w("}")
	case 18:
		g.feat("stmt:select")
		g.w("select {\n")
		nc := g.R.Intn(4)
		for i := 0; i < nc; i++ {
			g.indent(ind)
			switch g.R.Intn(6) {
			case 0:
				g.w("case ch <- ")
				g.expr(d-1, c)
				g.w(":\n")
			case 1:
				g.w("case <-ch:\n")
			case 2:
				g.w("case v := <-ch:\n")
			case 3:
				g.w("case v, ok := <-ch:\n")
			case 4:
				g.w("case a[i], x.ok = <-f():\n")
			default:
				g.w("default:\n")
			}
			for ns := g.R.Intn(3); ns > 0; ns-- {
				g.indent(ind + 1)
				g.stmt(d-2, ind+1, loops, false)
				g.w("\n")
			}
			if g.R.Intn(4) == 0 {
				g.labeledTail(ind+1, i == nc-1, "comm")
			}
		}
		g.indent(ind)
		g.w("}")
	case 19:
		// break / continue, possibly labelled (only labels of enclosing loops: both parsers resolve labels)
		if len(loops) == 0 {
			g.simpleStmt(d, c)
			return
		}
		kw := g.pick([]string{"break", "continue"})
		g.feat("stmt:" + kw)
		g.w(kw)
		if l := loops[g.R.Intn(len(loops))]; l != "" && g.R.Bool() {
			g.feat("stmt:" + kw + "-label")
			g.w(" " + l)
		}
	case 20:
		g.feat("stmt:goto")
		g.labels++
		lab := fmt.Sprintf("G%d", g.labels)
		g.w("goto " + lab + "\n")
		g.indent(ind)
		g.w(lab + ":")
		if !last || g.R.Bool() {
			g.w(" ")
			g.simpleStmt(1, c)
		} else {
			g.feat("stmt:label-before-brace") // implicit empty statement
		}
	case 21:
		g.feat("stmt:empty")
		g.w(";")
	case 22:
		g.feat("stmt:var-group")
		g.w("var (\n")
		g.indent(ind + 1)
		g.w("u, w = 1, 2\n")
		g.indent(ind + 1)
		g.w("q ")
		g.typ(1)
		g.w("\n")
		g.indent(ind)
		g.w(")")
	default:
		g.simpleStmt(d, c)
	}
}

func (g *Gen) decl(d int) {
	g.comment(0)
	switch g.R.Intn(14) {
	case 0:
		g.feat("decl:const-iota")
		g.w("const (\n\tA0 = iota\n\tA1\n\tA2, B2 = iota * 2, 1 << iota\n\t_, _\n\tA4 T = ")
		g.expr(1, ectx{})
		g.w("\n)")
	case 1:
		g.feat("decl:const")
		g.w("const " + g.id())
		if g.R.Bool() {
			g.w(" ")
			g.typ(0)
		}
		g.w(" = ")
		g.expr(d, ectx{})
	case 2, 3:
		g.feat("decl:var")
		g.w("var " + g.id())
		switch g.R.Intn(4) {
		case 0:
			g.w(", " + g.id() + " ")
			g.typ(d)
		case 1:
			g.w(" = ")
			g.expr(d, ectx{})
		case 2:
			g.w(", " + g.id() + " = ")
			g.expr(d, ectx{})
			g.w(", ")
			g.expr(d, ectx{})
		default:
			g.w(" ")
			g.typ(d)
			g.w(" = ")
			g.expr(d, ectx{})
		}
	case 4:
		g.feat("decl:var-group")
		g.w("var (\n")
		for i := g.R.Intn(3); i >= 0; i-- {
			g.w("\t" + g.id() + " ")
			if g.R.Bool() {
				g.typ(1)
			}
			if g.R.Bool() || true {
				g.w(" = ")
				g.expr(d-1, ectx{ind: 1})
			}
			g.trailingComment()
			g.w("\n")
		}
		g.w(")")
	case 5, 6:
		g.feat("decl:type")
		g.w("type " + g.pick(typeNames[:2]) + fmt.Sprint(g.R.Intn(9)) + " ")
		if g.R.Intn(5) == 0 {
			g.feat("decl:type-alias")
			g.w("= ")
		}
		g.typ(d)
	case 7:
		g.feat("decl:type-group")
		g.w("type (\n\tP1 ")
		g.typ(d)
		g.w("\n\tP2 = ")
		g.typ(1)
		g.w("\n\tP3 ")
		g.structType(1)
		g.w("\n)")
	case 8:
		g.feat("decl:empty-group")
		g.w(g.pick([]string{"var ()", "const ()", "type ()"}))
	case 9:
		g.feat("decl:func-nobody")
		g.w("func ext" + fmt.Sprint(g.R.Intn(9)))
		g.signature(1, true)
	case 10:
		g.feat("decl:method")
		g.w("func (" + g.pick([]string{"t T", "t *T", "T", "*T", "_ *S", "t (T)"}) + ") M" + fmt.Sprint(g.R.Intn(9)))
		g.signature(1, true)
		g.w(" ")
		g.block(d, 0, nil)
	default:
		g.feat("decl:func")
		g.w("func " + g.pick([]string{"f", "init", "main", "g", "Exported"}) + fmt.Sprint(g.R.Intn(9)))
		g.signature(1, true)
		g.w(" ")
		g.block(d, 0, nil)
	}
	g.trailingComment()
	g.w("\n")
}

// File generates one source file.
func (g *Gen) File(nDecls, depth int) string {
	g.sb.Reset()
	g.labels = 0
	if g.Comments && g.R.Bool() {
		g.w("// Package doc\n")
	}
	g.w("package p")
	g.trailingComment()
	g.w("\n\n")
	switch g.R.Intn(5) {
	case 0:
		g.feat("import:single")
		g.w("import \"fmt\"\n")
	case 1:
		g.feat("import:group")
		g.w("import (\n\t\"io\"\n\t. \"os\"\n\t_ \"embed\"\n\tp1 \"a/b/c\"; \"x\"\n)\n")
	case 2:
		g.feat("import:several")
		g.w("import f \"fmt\"\nimport ()\nimport (\"io\")\n")
	}
	for i := 0; i < nDecls; i++ {
		g.decl(depth)
		if g.R.Intn(3) == 0 {
			g.w("\n")
		}
	}
	return g.sb.String()
}

// ExprSource generates one expression (used by the C25 harness too).
func (g *Gen) ExprSource(depth int) string {
	g.sb.Reset()
	g.expr(depth, ectx{})
	return g.sb.String()
}

// ---------------------------------------------------------------- token mutation

type Tok struct {
	Tok token.Token
	Lit string
}

// Tokens scans src with go/scanner (auto-semicolons appear as ";" with literal "\n").
func Tokens(src []byte) []Tok {
	var s scanner.Scanner
	fset := token.NewFileSet()
	s.Init(fset.AddFile("x.go", -1, len(src)), src, func(token.Position, string) {}, 0)
	var out []Tok
	for {
		_, tok, lit := s.Scan()
		if tok == token.EOF {
			return out
		}
		out = append(out, Tok{tok, lit})
	}
}

func Render(toks []Tok) string {
	var sb strings.Builder
	for _, t := range toks {
		switch {
		case t.Tok == token.SEMICOLON && t.Lit == "\n":
			sb.WriteString("\n")
		case t.Tok == token.SEMICOLON:
			sb.WriteString("; ")
		case t.Tok.IsLiteral() || t.Tok == token.ILLEGAL:
			sb.WriteString(t.Lit + " ")
		default:
			sb.WriteString(t.Tok.String() + " ")
		}
	}
	return sb.String()
}

var mutTokens = []token.Token{token.ADD, token.SUB, token.MUL, token.QUO, token.REM, token.AND, token.OR, token.XOR, token.SHL, token.SHR,
	token.AND_NOT, token.ADD_ASSIGN, token.LAND, token.LOR, token.ARROW, token.INC, token.DEC, token.EQL, token.LSS, token.GTR, token.ASSIGN,
	token.NOT, token.NEQ, token.LEQ, token.GEQ, token.DEFINE, token.ELLIPSIS, token.LPAREN, token.LBRACK, token.LBRACE, token.COMMA,
	token.PERIOD, token.RPAREN, token.RBRACK, token.RBRACE, token.SEMICOLON, token.COLON, token.BREAK, token.CASE, token.CHAN, token.CONST,
	token.CONTINUE, token.DEFAULT, token.DEFER, token.ELSE, token.FALLTHROUGH, token.FOR, token.FUNC, token.GO, token.GOTO, token.IF,
	token.IMPORT, token.INTERFACE, token.MAP, token.PACKAGE, token.RANGE, token.RETURN, token.SELECT, token.STRUCT, token.SWITCH, token.TYPE, token.VAR}

// Mutate applies one token-level mutation; returns the new text and the kind of mutation.
func Mutate(toks []Tok, r *vh.Rng) (string, string) {
	if len(toks) < 3 {
		return Render(toks), "none"
	}
	out := append([]Tok(nil), toks...)
	i := r.Intn(len(out))
	kind := ""
	switch r.Intn(5) {
	case 0:
		kind = "delete"
		out = append(out[:i], out[i+1:]...)
	case 1:
		kind = "duplicate"
		out = append(out[:i+1], out[i:]...)
	case 2:
		kind = "swap"
		j := i + 1
		if j >= len(out) {
			j = i - 1
		}
		out[i], out[j] = out[j], out[i]
	case 3:
		kind = "replace"
		out[i] = Tok{mutTokens[r.Intn(len(mutTokens))], ""}
	default:
		kind = "insert"
		t := Tok{mutTokens[r.Intn(len(mutTokens))], ""}
		if r.Intn(4) == 0 {
			t = Tok{token.IDENT, "q"}
		}
		out = append(out[:i], append([]Tok{t}, out[i:]...)...)
	}
	return Render(out), kind
}

// Package vh: shared helpers for the verification harness commands
// (deterministic PRNG, Coq literal emitters, report writer).
package vh

import (
	"crypto/sha256"
	"encoding/hex"
	"encoding/json"
	"flag"
	"fmt"
	"os"
	"path/filepath"
	"strings"
	"time"
)

// ---------- SplitMix64 ----------
type Rng struct{ s uint64 }

func NewRng(seed uint64) *Rng { return &Rng{seed*0x9E3779B97F4A7C15 + 0x1234567} }
func (r *Rng) U64() uint64 {
	r.s += 0x9E3779B97F4A7C15
	z := r.s
	z = (z ^ (z >> 30)) * 0xBF58476D1CE4E5B9
	z = (z ^ (z >> 27)) * 0x94D049BB133111EB
	return z ^ (z >> 31)
}
func (r *Rng) Intn(n int) int {
	if n <= 0 {
		return 0
	}
	return int(r.U64() % uint64(n))
}
func (r *Rng) Bool() bool           { return r.U64()&1 == 1 }
func (r *Rng) Chance(p, q int) bool { return r.Intn(q) < p }
func (r *Rng) Fork() *Rng           { return &Rng{r.U64()} }

// ---------- command line ----------
type Args struct {
	Seed   uint64
	Tier   string
	Out    string
	Replay string
	N      int
}

func ParseArgs() *Args {
	a := &Args{}
	flag.Uint64Var(&a.Seed, "seed", 1, "PRNG seed")
	flag.StringVar(&a.Tier, "tier", "quick", "quick|thorough")
	flag.StringVar(&a.Out, "out", ".", "output directory")
	flag.StringVar(&a.Replay, "replay", "", "replay file")
	flag.IntVar(&a.N, "n", 0, "case count override")
	flag.Parse()
	os.MkdirAll(a.Out, 0o755)
	return a
}
func (a *Args) Thorough() bool          { return a.Tier == "thorough" }
func (a *Args) Path(name string) string { return filepath.Join(a.Out, name) }

// ---------- Coq literal emitters ----------
func CoqZ(i int64) string {
	if i < 0 {
		return fmt.Sprintf("(%d)%%Z", i)
	}
	return fmt.Sprintf("%d%%Z", i)
}
func CoqN(i uint64) string { return fmt.Sprintf("%d%%N", i) }
func CoqBool(b bool) string {
	if b {
		return "true"
	}
	return "false"
}

// CoqStr renders a Go string as a Coq `list N` of its bytes.
func CoqStr(s string) string {
	if len(s) == 0 {
		return "(@nil N)"
	}
	var sb strings.Builder
	sb.WriteString("[")
	for i := 0; i < len(s); i++ {
		if i > 0 {
			sb.WriteString(";")
		}
		fmt.Fprintf(&sb, "%d", s[i])
	}
	sb.WriteString("]%N")
	return sb.String()
}
func CoqList(elems []string, typ string) string {
	if len(elems) == 0 {
		return "(@nil " + typ + ")"
	}
	return "[" + strings.Join(elems, "; ") + "]"
}

// ---------- report ----------
type Failure struct {
	Key   string      `json:"key"`   // canonical identification of the failing input (matched against known_findings.json)
	What  string      `json:"what"`  // which oracle / predicate failed
	Input interface{} `json:"input"` // the concrete input / history
	Got   interface{} `json:"got,omitempty"`
	Want  interface{} `json:"want,omitempty"`
}

type Report struct {
	Evaluations  int                    `json:"evaluations"`
	Distinct     int                    `json:"distinct_nontrivial"`
	Rule         string                 `json:"rule"`
	Samples      []interface{}          `json:"samples"`
	Distribution map[string]int         `json:"distribution"`
	Failures     []Failure              `json:"failures"` // direct-oracle failures (never consult the model)
	Exhaustive   bool                   `json:"exhaustive"`
	Extra        map[string]interface{} `json:"extra,omitempty"`
	seen         map[string]bool
	args         *Args
	inputs       *os.File
}

func NewReport(a *Args, rule string) *Report {
	return &Report{Failures: []Failure{}, Samples: []interface{}{}, Rule: rule, Distribution: map[string]int{}, seen: map[string]bool{}, Extra: map[string]interface{}{}, args: a}
}

// Count registers one evaluated case; canon is its canonical form, nontrivial the per-property rule.
func (r *Report) Count(canon string, nontrivial bool) {
	r.Evaluations++
	if nontrivial {
		h := sha256.Sum256([]byte(canon))
		k := hex.EncodeToString(h[:8])
		if !r.seen[k] {
			r.seen[k] = true
			r.Distinct++
		}
	}
}
func (r *Report) Dist(k string) { r.Distribution[k]++ }
func (r *Report) Sample(x interface{}) {
	if len(r.Samples) < 5 {
		r.Samples = append(r.Samples, x)
	}
}
func (r *Report) Fail(f Failure) {
	if len(r.Failures) < 50 {
		r.Failures = append(r.Failures, f)
	}
}

// CaseInput records the input of case idx in <out>/inputs.jsonl (one JSON object per line),
// so that a model mismatch reported by index can be turned into a replay.
func (r *Report) CaseInput(idx int, x interface{}) {
	if r.inputs == nil {
		f, err := os.Create(r.args.Path("inputs.jsonl"))
		if err != nil {
			panic(err)
		}
		r.inputs = f
	}
	b, _ := json.Marshal(map[string]interface{}{"idx": idx, "input": x})
	r.inputs.Write(append(b, '\n'))
}
func (r *Report) Write() {
	path := r.args.Path("report.json")
	if r.inputs != nil {
		r.inputs.Close()
	}
	b, err := json.MarshalIndent(r, "", " ")
	if err != nil {
		panic(err)
	}
	if err := os.WriteFile(path, b, 0o644); err != nil {
		panic(err)
	}
}

// Catch runs f and returns the recovered panic value (nil if none).
func Catch(f func()) (p interface{}) {
	defer func() { p = recover() }()
	f()
	return nil
}

// ---------- sharded cases*.v writer ----------
// Cases collects Coq case terms and writes them as cases_000.v, cases_001.v, ... (compiled in parallel by ./check).
// Every shard defines `cases : list <typ>` and `verif_mismatches : list Z := Eval vm_compute in <fn> cases`.
type Cases struct {
	a      *Args
	header string
	typ    string
	fn     string
	shard  int
	per    int
	cur    []string
}

func NewCases(a *Args, header, typ, fn string, perShard int) *Cases {
	return &Cases{a: a, header: header, typ: typ, fn: fn, per: perShard}
}
func (c *Cases) Add(term string) {
	c.cur = append(c.cur, term)
	if len(c.cur) >= c.per {
		c.flush()
	}
}
func (c *Cases) flush() {
	if len(c.cur) == 0 {
		return
	}
	var sb strings.Builder
	sb.WriteString(c.header)
	sb.WriteString("\nDefinition cases : list " + c.typ + " := [\n ")
	sb.WriteString(strings.Join(c.cur, ";\n "))
	sb.WriteString("\n].\nDefinition verif_mismatches : list Z := Eval vm_compute in " + c.fn + " cases.\nPrint verif_mismatches.\n")
	if err := os.WriteFile(c.a.Path(fmt.Sprintf("cases_%03d.v", c.shard)), []byte(sb.String()), 0o644); err != nil {
		panic(err)
	}
	c.shard++
	c.cur = nil
}
func (c *Cases) Close() { c.flush() }

// ---------- watchdog ----------
// Watchdog guards against a hang of the implementation (e.g. a loop that no longer terminates):
// call Beat(desc) before each case; if no beat arrives for `limit` the current case is reported as a
// direct-oracle failure ("hang"), the report is written and the process exits 0 so ./check can decide.
type Watchdog struct {
	ch chan interface{}
}

func NewWatchdog(rep *Report, limit time.Duration) *Watchdog {
	w := &Watchdog{ch: make(chan interface{}, 1024)}
	go func() {
		var cur interface{}
		for {
			select {
			case x := <-w.ch:
				cur = x
			case <-time.After(limit):
				b, _ := json.Marshal(cur)
				rep.Fail(Failure{Key: "hang:" + string(b), What: fmt.Sprintf("implementation did not return within %v", limit), Input: cur})
				rep.Write()
				os.Exit(0)
			}
		}
	}()
	return w
}
func (w *Watchdog) Beat(cur interface{}) { w.ch <- cur }

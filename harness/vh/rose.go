package vh

// Rose trees mirroring ast2.Ast / coq/Common/Rose.v, a position-insensitive converter from go/ast, structural
// comparison and the Coq term emitter.  Shared by the C21 and C20 harnesses.
// The converter is written against go/ast directly (reflection over the node structs); it does not use ast2.

import (
	"fmt"
	"go/ast"
	"go/token"
	r "reflect"
	"strings"
)

// R is one rose tree node. Slice=false: fixed-arity node (Kids may hold nil = absent child);
// Slice=true: resizable list. Tag is the go/ast type name ("BinaryExpr") or the slice kind ("SBlock", "SExprs"...).
type R struct {
	Slice bool     `json:"s,omitempty"`
	Tag   string   `json:"t"`
	Atoms []string `json:"a,omitempty"` // operator/token numbers, names, literal values ... as strings
	Kids  []*R     `json:"k,omitempty"`
}

var posType = r.TypeOf(token.Pos(0))
var tokType = r.TypeOf(token.Token(0))
var nodeType = r.TypeOf((*ast.Node)(nil)).Elem()

var skipField = map[string]bool{"Doc": true, "Comment": true, "Obj": true, "Incomplete": true, "Slice3": true,
	"TypeParams": true, "Scope": true, "Unresolved": true, "Comments": true, "Imports": true, "EndPos": true}

// FromNode converts a go/ast tree; typed nil pointers and nil interfaces give nil.
func FromNode(n ast.Node) *R {
	if n == nil {
		return nil
	}
	v := r.ValueOf(n)
	if v.Kind() == r.Ptr && v.IsNil() {
		return nil
	}
	switch x := n.(type) {
	case *ast.BlockStmt:
		return &R{Slice: true, Tag: "SBlock", Kids: stmts(x.List)}
	case *ast.FieldList:
		out := &R{Slice: true, Tag: "SFieldList"}
		for _, f := range x.List {
			out.Kids = append(out.Kids, FromNode(f))
		}
		return out
	case *ast.GenDecl:
		out := &R{Slice: true, Tag: "SGenDecl", Atoms: []string{fmt.Sprint(int(x.Tok))}}
		for _, s := range x.Specs {
			out.Kids = append(out.Kids, FromNode(s))
		}
		return out
	case *ast.ReturnStmt:
		return &R{Slice: true, Tag: "SReturn", Kids: exprs(x.Results)}
	}
	s := v.Elem()
	t := s.Type()
	out := &R{Tag: t.Name()}
	for i := 0; i < t.NumField(); i++ {
		f := t.Field(i)
		fv := s.Field(i)
		if skipField[f.Name] {
			continue
		}
		if f.Type == posType {
			if (t.Name() == "CallExpr" && f.Name == "Ellipsis") || (t.Name() == "TypeSpec" && f.Name == "Assign") {
				out.Atoms = append(out.Atoms, b01(fv.Interface().(token.Pos).IsValid()))
			}
			continue
		}
		switch {
		case f.Type == tokType:
			out.Atoms = append(out.Atoms, fmt.Sprint(int(fv.Interface().(token.Token))))
		case fv.Kind() == r.String:
			out.Atoms = append(out.Atoms, "s:"+fv.String())
		case fv.Kind() == r.Bool:
			out.Atoms = append(out.Atoms, b01(fv.Bool()))
		case fv.Kind() == r.Int: // ast.ChanDir
			out.Atoms = append(out.Atoms, fmt.Sprint(fv.Int()))
		case fv.Kind() == r.Slice:
			if fv.IsNil() {
				out.Kids = append(out.Kids, nil)
				continue
			}
			sl := &R{Slice: true, Tag: sliceTag(f.Type.Elem())}
			for j := 0; j < fv.Len(); j++ {
				e := fv.Index(j)
				if (e.Kind() == r.Ptr || e.Kind() == r.Interface) && e.IsNil() {
					sl.Kids = append(sl.Kids, nil)
					continue
				}
				sl.Kids = append(sl.Kids, FromNode(e.Interface().(ast.Node)))
			}
			out.Kids = append(out.Kids, sl)
		case fv.Kind() == r.Ptr || fv.Kind() == r.Interface:
			if fv.IsNil() {
				out.Kids = append(out.Kids, nil)
				continue
			}
			out.Kids = append(out.Kids, FromNode(fv.Interface().(ast.Node)))
		default:
			panic("vh.FromNode: unsupported field " + t.Name() + "." + f.Name)
		}
	}
	return out
}

func b01(b bool) string {
	if b {
		return "1"
	}
	return "0"
}

func sliceTag(elem r.Type) string {
	switch elem.String() {
	case "ast.Expr":
		return "SExprs"
	case "ast.Stmt":
		return "SStmts"
	case "*ast.Ident":
		return "SIdents"
	case "*ast.Field":
		return "SFields"
	case "ast.Decl":
		return "SDecls"
	case "ast.Spec":
		return "SSpecs"
	}
	return "SNodes"
}

func stmts(l []ast.Stmt) []*R {
	var out []*R
	for _, s := range l {
		out = append(out, FromNode(s))
	}
	return out
}
func exprs(l []ast.Expr) []*R {
	var out []*R
	for _, s := range l {
		out = append(out, FromNode(s))
	}
	return out
}

// String renders a tree compactly (used in failure reports and as canonical form).
func (t *R) String() string {
	if t == nil {
		return "_"
	}
	var sb strings.Builder
	t.str(&sb)
	return sb.String()
}
func (t *R) str(sb *strings.Builder) {
	if t == nil {
		sb.WriteString("_")
		return
	}
	sb.WriteString(t.Tag)
	if len(t.Atoms) > 0 {
		sb.WriteString("<" + strings.Join(t.Atoms, ",") + ">")
	}
	if t.Slice {
		sb.WriteString("[")
	} else if len(t.Kids) > 0 {
		sb.WriteString("(")
	}
	for i, k := range t.Kids {
		if i > 0 {
			sb.WriteString(" ")
		}
		k.str(sb)
	}
	if t.Slice {
		sb.WriteString("]")
	} else if len(t.Kids) > 0 {
		sb.WriteString(")")
	}
}

// Canon: an empty bare slice child (ExprSlice, StmtSlice, IdentSlice ...) is the same as an absent child.
func (t *R) Canon() *R {
	if t == nil {
		return nil
	}
	out := &R{Slice: t.Slice, Tag: t.Tag, Atoms: t.Atoms}
	for _, k := range t.Kids {
		if k != nil && k.Slice && len(k.Kids) == 0 && !t.Slice && !sliceIsNode(k.Tag) {
			out.Kids = append(out.Kids, nil)
			continue
		}
		out.Kids = append(out.Kids, k.Canon())
	}
	return out
}

func sliceIsNode(tag string) bool {
	switch tag {
	case "SBlock", "SFieldList", "SFile", "SGenDecl", "SReturn":
		return true
	}
	return false
}

// Equal: strict structural equality (after Canon).
func Equal(a, b *R) bool { return a.Canon().String() == b.Canon().String() }

// Count returns the number of nodes.
func (t *R) Count() int {
	if t == nil {
		return 0
	}
	n := 1
	for _, k := range t.Kids {
		n += k.Count()
	}
	return n
}

// Walk calls f on every node (pre-order).
func (t *R) Walk(f func(*R)) {
	if t == nil {
		return
	}
	f(t)
	for _, k := range t.Kids {
		k.Walk(f)
	}
}

// Interner maps strings to the numbers used as atoms in the Coq terms ("nil" is 1).
type Interner struct{ m map[string]int }

func NewInterner() *Interner { return &Interner{m: map[string]int{"s:nil": 1}} }
func (in *Interner) atom(a string) string {
	if !strings.HasPrefix(a, "s:") {
		return a + "%N"
	}
	id, ok := in.m[a]
	if !ok {
		id = len(in.m) + 1
		in.m[a] = id
	}
	return fmt.Sprintf("%d%%N", id)
}

// Coq renders the tree as a Common.Rose term (all ids 0).
func (in *Interner) Coq(t *R) string {
	var sb strings.Builder
	in.coq(&sb, t)
	return sb.String()
}
func (in *Interner) coq(sb *strings.Builder, t *R) {
	if t.Slice {
		sb.WriteString("(Slice 0 " + t.Tag + " [")
	} else {
		sb.WriteString("(Node 0 T" + t.Tag + " [")
	}
	for i, a := range t.Atoms {
		if i > 0 {
			sb.WriteString(";")
		}
		sb.WriteString(in.atom(a))
	}
	sb.WriteString("] [")
	for i, k := range t.Kids {
		if i > 0 {
			sb.WriteString("; ")
		}
		if t.Slice {
			if k == nil {
				panic("vh.Coq: nil element in a slice")
			}
			in.coq(sb, k)
		} else if k == nil {
			sb.WriteString("None")
		} else {
			sb.WriteString("Some ")
			in.coq(sb, k)
		}
	}
	sb.WriteString("])")
}

// CoqOpt renders an optional tree.
func (in *Interner) CoqOpt(t *R) string {
	if t == nil {
		return "None"
	}
	return "(Some " + in.Coq(t) + ")"
}

// AtomN renders a string atom as the interned number (for environments keyed by identifier name).
func (in *Interner) AtomN(name string) string { return in.atom("s:" + name) }

// HasNilElem reports whether some slice in the tree holds a nil element (not representable in the Coq model).
func (t *R) HasNilElem() bool {
	bad := false
	t.Walk(func(x *R) {
		if x.Slice {
			for _, k := range x.Kids {
				if k == nil {
					bad = true
				}
			}
		}
	})
	return bad
}

//go:build verif

// Read-only accessor used by the verification harness of properties C12 and C13
// (/verif/harness/cmd/c12, /verif/harness/cmd/c13).  Add-only file: no existing line is touched,
// and nothing here is compiled without the build tag "verif".

package fast

// VerifRunSnapshot is a by-value projection of the interpreter's per-goroutine Run record
// (fast/global.go Run): no pointer escapes, pointers are reported by nil-ness and by identity
// with the top-level (global) environment only.
type VerifRunSnapshot struct {
	ExecFlags      uint32 // Run.ExecFlags (EFStartDefer=1, EFDefer=2, EFDebug=4)
	Sync           uint8  // Run.Signals.Sync
	Debug          uint8  // Run.Signals.Debug
	Async          uint8  // Run.Signals.Async
	CurrEnvNil     bool   // Run.CurrEnv == nil
	CurrEnvIsTop   bool   // Run.CurrEnv == ir.env
	InterruptNil   bool   // Run.Interrupt == nil
	InstallNil     bool   // Run.InstallDefer == nil
	DeferOfFunNil  bool   // Run.DeferOfFun == nil
	DeferOfFunTop  bool   // Run.DeferOfFun == ir.env
	PanicFunNil    bool   // Run.PanicFun == nil
	PanicFunTop    bool   // Run.PanicFun == ir.env
	PanicNil       bool   // Run.Panic == nil
	DebugDepth     int    // Run.DebugDepth
	PoolSize       int    // Run.PoolSize
	CallDepth      int    // ir.env.CallDepth
	TopIP          int    // ir.env.IP
	TopUsedClosure bool   // ir.env.UsedByClosure
}

// VerifRunState returns a snapshot of the Run record owned by the interpreter's goroutine.
// It reads only; it must be called from the goroutine that owns ir (as Eval is).
func VerifRunState(ir *Interp) VerifRunSnapshot {
	env := ir.env
	run := env.Run
	return VerifRunSnapshot{
		ExecFlags:      uint32(run.ExecFlags),
		Sync:           uint8(run.Signals.Sync),
		Debug:          uint8(run.Signals.Debug),
		Async:          uint8(run.Signals.Async),
		CurrEnvNil:     run.CurrEnv == nil,
		CurrEnvIsTop:   run.CurrEnv == env,
		InterruptNil:   run.Interrupt == nil,
		InstallNil:     run.InstallDefer == nil,
		DeferOfFunNil:  run.DeferOfFun == nil,
		DeferOfFunTop:  run.DeferOfFun == env,
		PanicFunNil:    run.PanicFun == nil,
		PanicFunTop:    run.PanicFun == env,
		PanicNil:       run.Panic == nil,
		DebugDepth:     run.DebugDepth,
		PoolSize:       run.PoolSize,
		CallDepth:      env.CallDepth,
		TopIP:          env.IP,
		TopUsedClosure: env.UsedByClosure,
	}
}

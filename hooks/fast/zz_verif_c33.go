//go:build verif

// Read-only accessors used by the verification harness of properties C33 and C10
// (/verif/harness/cmd/c33, /verif/harness/cmd/c10).  Add-only file: no existing line is touched,
// and nothing here is compiled without the build tag "verif".

package fast

import (
	"sort"
	"unsafe"
)

// VerifRegEntry is one entry of IrGlobals.gls: key, address of the *Run (used as identity only)
// and the owner identity stored in the Run (immutable after creation).
type VerifRegEntry struct {
	Goid  uintptr
	Run   uintptr
	Owner uintptr
}

// VerifRegistry returns a snapshot of IrGlobals.gls taken under the registry lock, sorted by key.
// Only immutable fields of the Run records are read.
func (ir *Interp) VerifRegistry() []VerifRegEntry {
	g := ir.Comp.IrGlobals
	g.lock.Lock()
	ret := make([]VerifRegEntry, 0, len(g.gls))
	for goid, run := range g.gls {
		e := VerifRegEntry{Goid: goid}
		if run != nil {
			e.Run = uintptr(unsafe.Pointer(run))
			e.Owner = run.goid
		}
		ret = append(ret, e)
	}
	g.lock.Unlock()
	sort.Slice(ret, func(i, j int) bool { return ret[i].Goid < ret[j].Goid })
	return ret
}

// VerifRunOf returns the address and the owner identity of the Run referenced by the Env
// of this *Interp (for an *Interp received by a DeclEnvFunc function: the Env of the call site).
func (ir *Interp) VerifRunOf() (run uintptr, owner uintptr) {
	r := ir.env.Run
	if r == nil {
		return 0, 0
	}
	return uintptr(unsafe.Pointer(r)), r.goid
}

// VerifRunState returns mutable bookkeeping of the Run referenced by this *Interp's Env.
// To be called only from the goroutine that owns that Run (or when no other goroutine runs).
func (ir *Interp) VerifRunState() (poolSize int, currEnvNil bool, execFlags uint32, callDepth int) {
	r := ir.env.Run
	return r.PoolSize, r.CurrEnv == nil, uint32(r.ExecFlags), ir.env.CallDepth
}

// VerifFrame describes one Env of the Outer chain.
type VerifFrame struct {
	Env           uintptr
	Run           uintptr
	Owner         uintptr // owner identity of the Run the frame was allocated from (0 if Run is nil)
	UsedByClosure bool
	Top           bool // Outer == nil
	File          bool // the frame is its own FileEnv or the top frame (never recycled)
}

// VerifEnvChain walks ir.env, ir.env.Outer, ... and reports each frame.
func (ir *Interp) VerifEnvChain() []VerifFrame {
	var ret []VerifFrame
	for env := ir.env; env != nil; env = env.Outer {
		f := VerifFrame{Env: uintptr(unsafe.Pointer(env)), UsedByClosure: env.UsedByClosure, Top: env.Outer == nil}
		if r := env.Run; r != nil {
			f.Run = uintptr(unsafe.Pointer(r))
			f.Owner = r.goid
		}
		f.File = env.Outer == nil || env.FileEnv == env
		ret = append(ret, f)
	}
	return ret
}

// VerifPoolFrames returns the addresses of the frames sitting in the pool of the Run referenced by
// this *Interp's Env (owner goroutine only).
func (ir *Interp) VerifPoolFrames() []uintptr {
	r := ir.env.Run
	ret := make([]uintptr, 0, r.PoolSize)
	for i := 0; i < r.PoolSize; i++ {
		ret = append(ret, uintptr(unsafe.Pointer(r.Pool[i])))
	}
	return ret
}

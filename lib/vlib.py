"""Shared machinery for ./check: building, running Coq, the harness, deciding, writing evidence.

Flow of one check (see DESIGN.md section 1):
  1. gate: no Admitted/Axiom/... anywhere in the Coq development
  2. translators (if the property has any) regenerate build/<ID>/Gen*.v from $VERIF_REPO
  3. proof: (re)compile the property's Coq cone and Props.v (+ generated files), parse Print Assumptions
  4. harness: go build -tags verif against $VERIF_REPO, run with the seed -> cases*.v, report.json
  5. correspondence: coqc the cases*.v (vm_compute of the model on the same inputs), collect mismatches
  6. decide: direct-oracle failures -> VIOLATION with replay; broken proof/correspondence without a
     failing input -> VIOLATION ... no-failing-input-found; known findings -> KNOWN-FINDING lines
  7. evidence/<ID>.json
"""
import concurrent.futures as cf
import glob
import hashlib
import json
import os
import re
import shutil
import subprocess
import sys
import time

VERIF = os.path.dirname(os.path.dirname(os.path.abspath(__file__)))
COQ = os.path.join(VERIF, "coq")
FORBIDDEN = re.compile(
    r"\b(Admitted|admit|Axiom|Axioms|Parameter|Parameters|Conjecture|Conjectures|Hypothesis|Hypotheses|Variable|Variables)\b"
    r"|Unset\s+Guard|bypass_check|Admit\s+Obligations|type-in-type|impredicative-set|Unset\s+Positivity|Unset\s+Universe")
SECTION_OK = re.compile(r"\b(Variable|Variables|Hypothesis|Hypotheses|Context)\b")


def log(*a):
    print(*a, flush=True)


def go_env(repo):
    e = dict(os.environ)
    e.update(GOFLAGS="-mod=mod", GOPROXY="off", GOSUMDB="off", GOTOOLCHAIN="local", CGO_ENABLED=e.get("CGO_ENABLED", "1"))
    e["VERIF_REPO"] = repo
    return e


def sh(cmd, timeout=600, cwd=None, env=None, quiet=False):
    """run a command under a timeout; returns (rc, output). rc=124 on timeout."""
    t0 = time.time()
    try:
        p = subprocess.run(cmd, cwd=cwd, env=env, timeout=timeout, stdout=subprocess.PIPE, stderr=subprocess.STDOUT,
                           shell=isinstance(cmd, str))
        out = p.stdout.decode("utf-8", "replace")
        rc = p.returncode
    except subprocess.TimeoutExpired as ex:
        out = (ex.stdout or b"").decode("utf-8", "replace") + "\n[timeout after %ss]" % timeout
        rc = 124
    if not quiet:
        log("  $ %s  [rc=%d, %.1fs]" % (cmd if isinstance(cmd, str) else " ".join(cmd), rc, time.time() - t0))
    return rc, out


# ---------------------------------------------------------------- Coq

def strip_comments(src):
    out, depth, i = [], 0, 0
    while i < len(src):
        if src.startswith("(*", i):
            depth += 1
            i += 2
        elif src.startswith("*)", i) and depth > 0:
            depth -= 1
            i += 2
        else:
            if depth == 0:
                out.append(src[i])
            i += 1
    return "".join(out)


def coq_gate(paths):
    """textual gate: forbidden commands anywhere (Variable/Hypothesis allowed only inside a Section)."""
    bad = []
    for path in paths:
        src = strip_comments(open(path, encoding="utf-8", errors="replace").read())
        depth = 0
        for ln, line in enumerate(src.split("\n"), 1):
            if re.match(r"\s*Section\b", line):
                depth += 1
            if re.match(r"\s*End\b", line) and depth > 0:
                depth -= 1
            for m in FORBIDDEN.finditer(line):
                w = m.group(0)
                if SECTION_OK.fullmatch(w) and depth > 0:
                    continue
                # 'admit' inside identifiers is excluded by \b; allow the word in strings is not attempted
                bad.append("%s:%d: %s" % (path, ln, w))
    return bad


def coq_files():
    return sorted(glob.glob(os.path.join(COQ, "**", "*.v"), recursive=True))


def ensure_coq_makefile():
    """(re)generate coq/_CoqProject and coq/Makefile from the .v files present."""
    files = [os.path.relpath(f, COQ) for f in coq_files()]
    proj = "-Q . Verif\n" + "\n".join(files) + "\n"
    pp = os.path.join(COQ, "_CoqProject")
    old = open(pp).read() if os.path.exists(pp) else None
    if old != proj or not os.path.exists(os.path.join(COQ, "Makefile")):
        tmp = pp + ".%d" % os.getpid()
        open(tmp, "w").write(proj)
        os.replace(tmp, pp)
        sh(["coq_makefile", "-f", "_CoqProject", "-o", "Makefile"], cwd=COQ, timeout=120)


def coq_make(targets, timeout=1800, jobs=16):
    ensure_coq_makefile()
    return sh(["make", "-j%d" % jobs] + targets, cwd=COQ, timeout=timeout)


def coq_build_cone(dirs, timeout=1800, clean_dirs=()):
    """Build Common + the given property directories in dependency order (coqdep -sort).  One lock per directory
    (coq/<dir>/.lock) is held while files of that directory are checked/compiled, so that concurrent checks of
    different properties only serialise on the directories they share.  Returns (rc, output)."""
    import fcntl
    files = []
    for d in ["Common"] + [x for x in dirs if x != "Common"]:
        files += sorted(glob.glob(os.path.join(COQ, d, "*.v")))
    rel = [os.path.relpath(f, COQ) for f in files]
    held = {"dir": None, "fh": None}

    def lock_dir(d):
        if held["dir"] == d:
            return
        unlock()
        fh = open(os.path.join(COQ, d, ".lock"), "w")
        fcntl.flock(fh, fcntl.LOCK_EX)
        held["dir"], held["fh"] = d, fh

    def unlock():
        if held["fh"] is not None:
            fcntl.flock(held["fh"], fcntl.LOCK_UN)
            held["fh"].close()
            held["dir"], held["fh"] = None, None
    try:
        for d in clean_dirs:
            lock_dir(d)
            for f in glob.glob(os.path.join(COQ, d, "*.vo")):
                os.remove(f)
        unlock()
        rc, out = sh(["coqdep", "-Q", ".", "Verif"] + rel, cwd=COQ, timeout=120, quiet=True)
        if rc != 0:
            return rc, out
        deps = {}
        for line in out.split("\n"):
            m = re.match(r"^(\S+)\.vo \S+\.glob .*?: (\S+\.v)\s*(.*)$", line)
            if m:
                deps[m.group(2)] = [d[:-1] for d in m.group(3).split() if d.endswith(".vo")]   # X.vo -> X.v
        # topological order over the cone (dependencies outside the cone = stdlib, ignored)
        order, seen = [], set()

        def visit(v):
            if v in seen or v not in deps:
                return
            seen.add(v)
            for d in deps[v]:
                visit(d)
            order.append(v)
        for v in rel:
            visit(v)
        log_out = []
        t0 = time.time()
        rebuilt = set()
        for v in order:
            lock_dir(v.split("/")[0])
            vp = os.path.join(COQ, v)
            vo = vp + "o"
            need = (not os.path.exists(vo)) or os.path.getmtime(vo) < os.path.getmtime(vp)
            if not need:
                for d in deps[v]:
                    dvo = os.path.join(COQ, d) + "o"
                    if d in rebuilt or (os.path.exists(dvo) and os.path.getmtime(dvo) > os.path.getmtime(vo)):
                        need = True
                        break
            if need:
                rc, o = sh(["coqc", "-Q", ".", "Verif", v], cwd=COQ, timeout=max(60, timeout - (time.time() - t0)))
                log_out.append(o)
                if rc != 0:
                    return rc, "\n".join(log_out)[-4000:]
                rebuilt.add(v)
        return 0, "\n".join(log_out)
    finally:
        unlock()


def coqc(path, timeout=900, cwd=None, extra=()):
    return sh(["coqc", "-Q", COQ, "Verif"] + list(extra) + [path], timeout=timeout, cwd=cwd or os.path.dirname(path), quiet=True)


def parse_props(path, output):
    """pair the theorems declared in a Props file with the Print Assumptions blocks of the coqc output."""
    src = strip_comments(open(path).read())
    printed = re.findall(r"Print\s+Assumptions\s+([A-Za-z0-9_']+)\s*\.", src)
    theorems = re.findall(r"^\s*(?:Theorem|Lemma|Corollary)\s+([A-Za-z0-9_']+)", src, re.M)
    # every block starts at "Closed under the global context" or "Axioms:" (Props files print nothing else)
    blocks = []
    cur = None
    for line in output.split("\n"):
        if line.startswith("Closed under the global context"):
            blocks.append([])
            cur = None
        elif line.startswith("Axioms:"):
            cur = []
            blocks.append(cur)
        elif cur is not None:
            m = re.match(r"^([A-Za-z_][A-Za-z0-9_.']*)\s*:", line)
            if m:
                cur.append(m.group(1))
    res = []
    for i, name in enumerate(printed):
        ax = blocks[i] if i < len(blocks) else None
        res.append({"theorem": name, "axioms": ax})
    return theorems, res


def run_cases(casedir, pattern="cases*.v", timeout=1500, jobs=8):
    """compile every cases file (model evaluated by vm_compute on the harness' inputs); returns (ok, mismatches, logs)"""
    files = sorted(glob.glob(os.path.join(casedir, pattern)))
    mism, logs, ok = [], [], True

    def one(f):
        rc, out = coqc(f, timeout=timeout, cwd=casedir, extra=["-noglob", "-Q", casedir, "Gen"])
        return f, rc, out
    with cf.ThreadPoolExecutor(max_workers=jobs) as ex:
        for f, rc, out in ex.map(one, files):
            flat = " ".join(out.split())
            m = re.search(r"verif_mismatches\s*=\s*(\[[^\]]*\]|nil)", flat)
            if rc != 0 or not m:
                ok = False
                logs.append("%s: rc=%d\n%s" % (f, rc, out[-2000:]))
                continue
            body = m.group(1)
            if body not in ("nil", "[]"):
                for tok in re.findall(r"-?\d+", body):
                    mism.append(int(tok))
    return ok, mism, logs, len(files)


# ---------------------------------------------------------------- harness

def ensure_harness_mod(repo="/repo"):
    """harness/go.mod always points at /repo (only (re)written when missing or stale: go.sum follows /repo/go.sum).
    For another tree ($VERIF_REPO) a private modfile build/mod/<hash>.mod is used with `go build -modfile`,
    so concurrent checks against different trees never rewrite each other's module file."""
    hdir = os.path.join(VERIF, "harness")
    tmpl = open(os.path.join(hdir, "go.mod.tmpl")).read()
    for name, content in (("go.mod", tmpl.replace("@REPO@", "/repo")), ("go.sum", open("/repo/go.sum").read())):
        p = os.path.join(hdir, name)
        if not os.path.exists(p) or open(p).read() != content:
            tmp = p + ".%d" % os.getpid()
            open(tmp, "w").write(content)
            os.replace(tmp, p)
    if os.path.realpath(repo) == "/repo":
        return None
    md = os.path.join(VERIF, "build", "mod")
    os.makedirs(md, exist_ok=True)
    h = hashlib.sha256(os.path.realpath(repo).encode()).hexdigest()[:12]
    mf = os.path.join(md, h + ".mod")
    for p, content in ((mf, tmpl.replace("@REPO@", os.path.realpath(repo))), (os.path.join(md, h + ".sum"), open(os.path.join(repo, "go.sum")).read())):
        if not os.path.exists(p) or open(p).read() != content:
            tmp = p + ".%d" % os.getpid()
            open(tmp, "w").write(content)
            os.replace(tmp, p)
    return mf


def harness_build_cmd(name, repo, out, tags="verif", race=False, pkg=None):
    mf = ensure_harness_mod(repo)
    return (["go", "build", "-tags", tags] + (["-race"] if race else []) + (["-modfile=" + mf] if mf else [])
            + ["-o", out, pkg or ("./cmd/" + name)])


def build_harness(name, repo, tags="verif", race=False, timeout=900):
    hdir = os.path.join(VERIF, "harness")
    suffix = ("-race" if race else "") + ("" if os.path.realpath(repo) == "/repo" else "-" + hashlib.sha256(os.path.realpath(repo).encode()).hexdigest()[:8])
    out = os.path.join(VERIF, "build", "bin", name + suffix)
    os.makedirs(os.path.dirname(out), exist_ok=True)
    rc, o = sh(harness_build_cmd(name, repo, out, tags, race), cwd=hdir, env=go_env(repo), timeout=timeout)
    return rc, o, out


# ---------------------------------------------------------------- findings / evidence

def load_known(pid):
    p = os.path.join(VERIF, "known_findings.json")
    if not os.path.exists(p):
        return []
    return [e for e in json.load(open(p)).get("findings", []) if e.get("property") == pid]


def write_replay(pid, n, obj):
    d = os.path.join(VERIF, "build", "replay")
    os.makedirs(d, exist_ok=True)
    p = os.path.join(d, "%s-%d.json" % (pid, n))
    json.dump(obj, open(p, "w"), indent=1, default=str)
    return p


def read_case_input(casedir, idx):
    p = os.path.join(casedir, "inputs.jsonl")
    if not os.path.exists(p):
        return None
    for line in open(p):
        try:
            o = json.loads(line)
        except Exception:
            continue
        if o.get("idx") == idx:
            return o.get("input")
    return None


def write_evidence(pid, tier, seed, level, coverage, assumptions, wall, violations, outdir=None):
    # evidence/<ID>.json describes runs against /repo only; a run against another tree (VERIF_REPO) writes into its scratch dir
    d = outdir or os.path.join(VERIF, "evidence")
    os.makedirs(d, exist_ok=True)
    ev = {"property_id": pid, "tier": tier, "seed": seed, "level": level, "coverage": coverage,
          "assumptions": assumptions, "wall_s": round(wall, 2), "violations": violations}
    tmp = os.path.join(d, pid + ".json.tmp")
    json.dump(ev, open(tmp, "w"), indent=1, default=str)
    os.replace(tmp, os.path.join(d, pid + ".json"))


def tree_hash(paths):
    h = hashlib.sha256()
    for p in sorted(paths):
        h.update(p.encode())
        h.update(open(p, "rb").read())
    return h.hexdigest()[:16]

package p

var x = { 1 }

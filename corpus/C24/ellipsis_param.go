package p

func f(p [...]int) {}

package p

x := 1

package p

type A interface{ M() int }

// finding C24-1 (fixed by 7ccf7e5): an interface embedded by unqualified name made the fork parser panic
// "go/parser internal error: identifier already declared or resolved"
type R interface {
	A
	N() int
}

type E interface{ error }

type W interface {
	error
	A
	io.Reader
	Unwrap() error
}

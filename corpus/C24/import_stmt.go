package p

func f() {
	import "fmt"
}

package p

var x = `raw
	string` // trailing

package p

type T [a[0]]int

package p

func f(x int) {
	switch x {
		q()
	}
}

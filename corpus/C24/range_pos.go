package p

// finding C24-2: ast.RangeStmt.Range (position of the "range" keyword) was left NoPos by the fork parser
func f(x []int, m map[string]int, c chan int) {
	for i := range x {
		_ = i
	}
	for k, v := range m {
		_, _ = k, v
	}
	for range c {
	}
	var i, j int
	for i, j = range x {
	}
L:
	for _, v := range []int{1, 2, 3} {
		if v > 1 {
			break L
		}
	}
}

package p

// finding C25-3: an explicit empty statement is not printed
func f() {
	;
	x := 1
	_ = x
}

package p

// finding C25-2: redundant parentheses are dropped by the printer (types in signatures, doubled parentheses, control clauses)
func f(a (int), b (*T)) (int) {
	if (a > 0) {
		return ((a))
	}
	return 0
}

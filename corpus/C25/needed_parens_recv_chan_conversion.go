package p

// finding C25-6: conversion to a receive-only channel type printed without parentheses once macro expansion has removed
// the ParenExpr: `<-chan int(c)` is a receive from the conversion chan int(c)
func f(c chan int, p *int, g func()) {
	r := (<-chan int)(c)
	s := (chan<- int)(c)
	b := (chan int)(c)
	q := (*int)(p)
	h := (func())(g)
	y := ([]int)(nil)
	x := <-(chan int)(c)
	if (<-chan int)(c) != nil {
	}
	_, _, _, _, _, _, _ = r, s, b, q, h, y, x
}

package p

// finding C25-6: macro expansion removes every ParenExpr (gomacro -m -w prints the result); the printer wrote composite
// literals in if/for/switch/range headers without the parentheses the grammar needs: `if t == T{1, 2} {` does not parse
func f(t T, a A) int {
	n := 0
	if t == (T{1, 2}) {
		n++
	}
	if x := (T{1, 2}); x == t {
		n++
	}
	for t == (T{3, 4}) {
		n++
	}
	for i := (T{1, 2}).A; i < (T{1, 9}).B; i += (T{1, 1}).A {
		n++
	}
	switch (T{1, 2}) {
	case t:
		n++
	}
	switch x := (T{1, 2}); t == (p.T{A: 1}) {
	case x == t:
		n++
	}
	switch y := (T{1, 2}).I.(type) {
	case int:
		_ = y
	}
	for _, e := range (A{1, 2}) {
		n += e
	}
	if (T{1, 2}).M() && f(T{1, 2}, a) > 0 && &(T{1, 2}) != nil && a[T{1, 2}.A] > 0 {
		n++
	}
	if (n+(T{1, 2}.A))*(T{1, 2}).B > 0 || func() bool { return t == T{1, 2} }() {
		n++
	}
	return n
}

package p

// finding C25-4: `{}` after a signature that the printer breaks over several lines becomes `{` newline `}` on the second print
func f(p struct{ a int; b string }) {}

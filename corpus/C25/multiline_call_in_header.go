package p

// finding C25-5: not idempotent (go/printer of go1.23 behaves the same)
func f() {
	if g(h(a,
	) | b, c,
	) {
	}
}

package p

// finding C25-6: channel of receive-only channels printed without parentheses once macro expansion has removed the
// ParenExpr: `chan <-chan int` is chan<- (chan int)
var c1 chan (<-chan int)
var c2 chan<- (chan int)
var c3 <-chan (<-chan int)
var c4 chan (chan<- int)
var c5 map[string]chan (<-chan T)

func f(c chan (<-chan int)) chan (<-chan int) {
	return (chan (<-chan int))(nil)
}

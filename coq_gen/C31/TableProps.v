(* C31 — property theorems, part 2: the statements of DESIGN §5 about the tables REGENERATED on this run from
   $VERIF_REPO/imports (GenTables.v, translators/tr_imports) and go/types' view of the same packages (GenSpec.v).
   Compiled in build/C31 after the generated files (meta/C31.json: props_after_gen).  The checker hypotheses of the
   part-1 theorems are discharged by vm_compute over the finite tables; each theorem then speaks about EVERY
   package table and EVERY row / proxy method / wrapper list.  A row that breaks its statement makes the
   corresponding [*_checked] lemma fail to compile, i.e. the proof breaks and ./check reports it. *)
From Coq Require Import List NArith ZArith Bool.
From Verif Require Import Common.GoStr C31.Untyped C31.Model C31.Proof C31.Props.
From Gen Require Import GenTables GenSpec.
Import ListNotations.
Open Scope N_scope.

Lemma keys_checked : all_rows key_ok tables = true.                         Proof. vm_compute. reflexivity. Qed.
Lemma kinds_checked : all_rows (kind_ok spec_objs) tables = true.           Proof. vm_compute. reflexivity. Qed.
Lemma untypeds_checked : all_rows (untyped_ok spec_objs) tables = true.     Proof. vm_compute. reflexivity. Qed.
Lemma consts_checked : all_rows (const_ok spec_objs) tables = true.         Proof. vm_compute. reflexivity. Qed.
Lemma proxy_rows_checked :
  all_rows (proxy_row_ok id_Object id_blank spec_objs spec_ifaces proxies) tables = true.
Proof. vm_compute. reflexivity. Qed.
Lemma proxies_checked : forallb (proxy_ok id_Object id_blank) proxies = true. Proof. vm_compute. reflexivity. Qed.
Lemma wrappers_checked : all_rows (wrapper_ok spec_objs spec_wtypes) tables = true. Proof. vm_compute. reflexivity. Qed.
Lemma coverage_checked : coverage_ok files tables = true.                   Proof. vm_compute. reflexivity. Qed.

(* every Binds / Types row: key = selected identifier, selector package = the table's package, and the expression
   shape is the one for the kind of symbol Go declares under that name (function: ValueOf(p.F); variable:
   ValueOf(&p.V).Elem(); constant: ValueOf(p.C) / ValueOf(T(p.C)); type: TypeOf(( *p.T)(nil)).Elem()) *)
Theorem C31_key_is_symbol : forall pt r, In pt tables -> In r (pt_rows pt) ->
  KeyIsSymbol pt r /\ KindMatches spec_objs pt r.
Proof. exact (C31_key_is_symbol_sound spec_objs tables keys_checked kinds_checked). Qed.
Print Assumptions C31_key_is_symbol.

(* every Untypeds row: untyped.Unmarshal (C32's model) of the table string = (kind, exact value) Go assigns *)
Theorem C31_untyped_decodes_exactly : forall pt r, In pt tables -> In r (pt_rows pt) -> UntypedExact spec_objs pt r.
Proof. exact (C31_untyped_decodes_exactly_sound spec_objs tables untypeds_checked). Qed.
Print Assumptions C31_untyped_decodes_exactly.

Theorem C31_typed_const_value : forall pt r, In pt tables -> In r (pt_rows pt) -> ConstBound spec_objs pt r.
Proof. exact (C31_typed_const_value_sound spec_objs tables consts_checked). Qed.
Print Assumptions C31_typed_const_value.

(* every method M of every proxy struct, for all objects and argument values: returns P.M_(P.Object, args...) unchanged *)
Theorem C31_proxy_forwards : forall px m, In px proxies -> In m (px_methods px) ->
  (forall (V : Type) (object : V) (args : list V), length args = length (m_params m) ->
     exec V m object args = Some (mkCall V (m_name m) true (object :: args) true))
  /\ m_recv_ptr m = true /\ m_recv_type m = px_name px
  /\ (exists f, find_field (m_name m) (px_fields px) = Some f /\ fd_ty f = FFunc true (m_type m))
  /\ Layout id_Object px.
Proof.
  intros px m Hpx Hm. pose proof proxies_checked as H. rewrite forallb_forall in H. specialize (H px Hpx).
  unfold proxy_ok in H. apply andb_true_iff in H as [S M]. rewrite forallb_forall in M.
  destruct (C31_proxy_forwards_sound id_blank px m (M m Hm)) as (A & B & C & D).
  repeat split; auto. apply struct_ok_layout. exact S.
Qed.
Print Assumptions C31_proxy_forwards.

(* every Proxies row: a checked proxy struct whose methods are, in reflect's order, exactly the methods of the interface *)
Theorem C31_proxy_implements : forall pt r, In pt tables -> In r (pt_rows pt) ->
  ProxyImplements id_Object id_blank spec_objs spec_ifaces proxies pt r.
Proof. exact (C31_proxy_implements_sound _ _ _ _ _ tables proxy_rows_checked). Qed.
Print Assumptions C31_proxy_implements.

Theorem C31_wrappers_are_promoted : forall pt r, In pt tables -> In r (pt_rows pt) -> WrappersPromoted spec_wtypes pt r.
Proof. exact (C31_wrappers_are_promoted_sound spec_objs spec_wtypes tables wrappers_checked). Qed.
Print Assumptions C31_wrappers_are_promoted.

Theorem C31_coverage : Covered files tables.
Proof. exact (C31_coverage_sound files tables coverage_checked). Qed.
Print Assumptions C31_coverage.

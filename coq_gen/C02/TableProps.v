(* C02 -- theorems over the tables regenerated from fast/var_ops.go, var_set.go, var_set_value.go, var_shifts.go,
   place_ops.go, place_set.go, place_set_value.go, place_shifts.go by translators/tr_golite.
   Compiled on every run in build/C02, after the Gen_<file>.v tables (-Q build/C02 Gen). *)
From Coq Require Import ZArith List Bool.
From Verif Require Import Common.GoInt Common.GoStr GoLite.Syntax GoLite.Sem C01.Model C02.Model C02.ProofA C02.ProofB C02.ProofC.
From Gen Require Gen_var_ops Gen_var_set Gen_var_set_value Gen_var_shifts Gen_place_ops Gen_place_set Gen_place_set_value Gen_place_shifts.
Import ListNotations.
Open Scope Z_scope.

Definition var_tables : list entry := Gen_var_ops.table ++ Gen_var_set.table ++ Gen_var_shifts.table.

(* diagnostics for the replay file: source lines of the rows the checker rejects, per file *)
Definition bad (t : list entry) := map e_line (filter (fun e => negb (row_ok e)) t).
Definition bad_rows := Eval vm_compute in (bad Gen_var_ops.table, bad Gen_var_set.table, bad Gen_var_shifts.table).
Print bad_rows.
Definition rows_in_scope := Eval vm_compute in (length (filter in_scope var_tables), length var_tables).
Print rows_in_scope.

(* the per-run obligation: a finite sweep over the regenerated tables *)
Lemma tables_ok : forallb row_ok var_tables = true.
Proof. vm_compute. reflexivity. Qed.

Lemma row_sound e : In e var_tables -> in_scope e = true ->
  exists t, classify e = Some t /\ tmpl_valid t = true /\ closure_of e = closure_of_tmpl t.
Proof.
  intros Hin Hsc. pose proof (proj1 (forallb_forall row_ok var_tables) tables_ok e Hin) as H.
  unfold row_ok in H. rewrite Hsc in H. unfold entry_ok in H.
  destruct (classify e) as [t|]; [|discriminate]. apply andb_true_iff in H as [Hv Hc].
  exists t. repeat split; auto. apply closure_beq_eq. exact Hc.
Qed.

(* every basic-kind closure of varAddConst ... varAndnotExpr, varShl/ShrConst/Expr (fast/var_ops.go, var_shifts.go):
   it IS the template of its (operator, kind, case of `switch upn`, storage class, constant / expression), hence for ALL
   operand functions / constants / frames / states it performs x OP= e as specified by spec_tmpl (C02_var_opassign_sound) *)
Theorem C02_var_opassign_table_sound :
  forall F fbin fcmp fun1 fconv fpart fofbits ftobits e, In e var_tables -> in_scope e = true ->
    forall op k h c r, classify e = Some (TVarOp op k h c r) ->
    forall (i : inputs F) p s fuel, inputs_ok F (TVarOp op k h c r) i -> hops_ok h (in_upn F i) fuel ->
      run_stmt F fbin fcmp fun1 fconv fpart fofbits ftobits fuel (roots_of F (TVarOp op k h c r) i) (closure_of e) p s
      = spec_tmpl F fbin fcmp fconv fofbits ftobits (TVarOp op k h c r) i p s.
Proof.
  intros F fbin fcmp fun1 fconv fpart fofbits ftobits e Hin Hsc op k h c r Hcl i p s fuel Hi Hh.
  destruct (row_sound e Hin Hsc) as (t & Ht & _ & Hc). rewrite Hcl in Ht. injection Ht as <-.
  rewrite Hc. apply var_op_sound; assumption.
Qed.
Print Assumptions C02_var_opassign_table_sound.

(* x = e : every basic-kind closure of varSetConst / varSetExpr (fast/var_set.go) *)
Theorem C02_set_table_sound :
  forall F fbin fcmp fun1 fconv fpart fofbits ftobits e, In e var_tables -> in_scope e = true ->
    forall k h c r, classify e = Some (TVarSet k h c r) ->
    forall (i : inputs F) p s fuel, inputs_ok F (TVarSet k h c r) i -> hops_ok h (in_upn F i) fuel ->
      run_stmt F fbin fcmp fun1 fconv fpart fofbits ftobits fuel (roots_of F (TVarSet k h c r) i) (closure_of e) p s
      = spec_tmpl F fbin fcmp fconv fofbits ftobits (TVarSet k h c r) i p s.
Proof.
  intros F fbin fcmp fun1 fconv fpart fofbits ftobits e Hin Hsc k h c r Hcl i p s fuel Hi Hh.
  destruct (row_sound e Hin Hsc) as (t & Ht & _ & Hc). rewrite Hcl in Ht. injection Ht as <-.
  rewrite Hc. apply var_set_sound; assumption.
Qed.
Print Assumptions C02_set_table_sound.

(* EVERY in-scope row of var_ops.go, var_set.go, var_shifts.go (x op= e, x <<>>= n, x = e, x /= +-2^n as shift):
   for all inputs, frames and states the closure performs the statement specified by spec_tmpl *)
Theorem C02_var_tables_sound :
  forall F fbin fcmp fun1 fconv fpart fofbits ftobits e, In e var_tables -> in_scope e = true ->
    exists t, classify e = Some t /\ tmpl_valid t = true /\
      forall (i : inputs F) p s fuel, inputs_ok F t i -> hops_ok (tmpl_hops t) (in_upn F i) fuel ->
        run_stmt F fbin fcmp fun1 fconv fpart fofbits ftobits fuel (roots_of F t i) (closure_of e) p s
        = spec_tmpl F fbin fcmp fconv fofbits ftobits t i p s.
Proof.
  intros F fbin fcmp fun1 fconv fpart fofbits ftobits e Hin Hsc.
  pose proof (proj1 (forallb_forall row_ok var_tables) tables_ok e Hin) as H.
  unfold row_ok in H. rewrite Hsc in H. apply entry_ok_sound. exact H.
Qed.
Print Assumptions C02_var_tables_sound.

(* x /= +-2^n : the rows of varQuoPow2 *)
Theorem C02_var_pow2_table_sound :
  forall F fbin fcmp fun1 fconv fpart fofbits ftobits e, In e var_tables -> in_scope e = true ->
    forall k h negy, classify e = Some (TVarQuoPow2 k h negy) ->
    forall (i : inputs F) p s fuel, inputs_ok F (TVarQuoPow2 k h negy) i -> hops_ok h (in_upn F i) fuel ->
      run_stmt F fbin fcmp fun1 fconv fpart fofbits ftobits fuel (roots_of F (TVarQuoPow2 k h negy) i) (closure_of e) p s
      = spec_tmpl F fbin fcmp fconv fofbits ftobits (TVarQuoPow2 k h negy) i p s.
Proof.
  intros F fbin fcmp fun1 fconv fpart fofbits ftobits e Hin Hsc k h negy Hcl i p s fuel Hi Hh.
  destruct (row_sound e Hin Hsc) as (t & Ht & Hv & Hc). rewrite Hcl in Ht. injection Ht as <-.
  rewrite Hc. apply var_quopow2_sound; assumption.
Qed.
Print Assumptions C02_var_pow2_table_sound.

(* ---- non-variable places: place_ops.go, place_set.go, place_shifts.go (pointer, element, field, map entry) *)
Definition place_tables : list entry := Gen_place_ops.table ++ Gen_place_set.table ++ Gen_place_shifts.table.
Definition bad_place_rows := Eval vm_compute in map e_line (filter (fun e => negb (place_row_ok e)) place_tables).
Print bad_place_rows.
Definition place_rows := Eval vm_compute in
  (length (filter (fun e => match place_fn_ops (e_func e) with Some _ => true | None => false end) place_tables), length place_tables).
Print place_rows.
Lemma place_tables_ok : forallb place_row_ok place_tables = true.
Proof. vm_compute. reflexivity. Qed.

(* Single evaluation, on the closure text (the GoLite call trace of a straight-line body is its list of calls):
   in every statement closure of placeAddConst ... placeAndnotExpr, placeShl/ShrConst/Expr, placeQuoPow2, placeSetConst,
   placeSetExpr the calls f(env) of captured functions, in evaluation order, are: the place function (place.Fun), then the
   key function (place.MapKey, map entries only), then at most one operand function -- each in a position that is executed
   exactly once (no branch, no loop, no && / ||), so each is invoked exactly once per execution, in Go's order;
   the body ends with env.IP++; return env.Code[env.IP], env; and the only arithmetic / shift operator in the body is the
   one named by the enclosing function.  _partial: this is a syntactic statement; the value stored through the
   reflect.Value / SetMapIndex is tied by the harness (call logs + final values against compiled Go). *)
Theorem C02_place_opassign_single_eval_partial :
  forall e, In e place_tables ->
    forall allowed pf, place_fn_ops (e_func e) = Some allowed -> let_of e placeFunE = Some pf ->
    exists calls, scalls (e_body e) = Some calls /\
      let head := match let_of e placeKeyE with Some k => [pf; k] | None => [pf] end in
      forallb2_ident (firstn (length head) calls) head = true /\
      (length (skipn (length head) calls) <= 1)%nat /\
      forallb (fun x => negb (ident_beq x pf) && match let_of e placeKeyE with Some k => negb (ident_beq x k) | None => true end)
              (skipn (length head) calls) = true /\
      ends_with_epilogue (e_body e) = true /\
      forallb (fun o => existsb (binop_beq o) allowed) (sops (e_body e)) = true.
Proof.
  intros e Hin allowed pf Hop Hpf.
  pose proof (proj1 (forallb_forall place_row_ok place_tables) place_tables_ok e Hin) as H.
  unfold place_row_ok in H. rewrite Hop, Hpf in H.
  destruct (scalls (e_body e)) as [calls|]; [|discriminate]. exists calls. split; [reflexivity|].
  cbv zeta. repeat (apply andb_true_iff in H; destruct H as [H ?]).
  repeat split; try assumption. apply Nat.leb_le. assumption.
Qed.
Print Assumptions C02_place_opassign_single_eval_partial.

(* every place closure that belongs to the property has its place function bound (no row is skipped by the theorem above) *)
Theorem C02_place_rows_have_place_fun :
  forall e, In e place_tables -> forall allowed, place_fn_ops (e_func e) = Some allowed -> exists pf, let_of e placeFunE = Some pf.
Proof.
  intros e Hin allowed Hop.
  pose proof (proj1 (forallb_forall place_row_ok place_tables) place_tables_ok e Hin) as H.
  unfold place_row_ok in H. rewrite Hop in H. destruct (let_of e placeFunE) as [pf|]; [eauto|discriminate].
Qed.
Print Assumptions C02_place_rows_have_place_fun.

(* no function literal of the eight files escapes the tables *)
Theorem C02_funclit_coverage :
  Z.of_nat (length Gen_var_ops.table) = Gen_var_ops.count_funclits /\
  Z.of_nat (length Gen_var_set.table) = Gen_var_set.count_funclits /\
  Z.of_nat (length Gen_var_set_value.table) = Gen_var_set_value.count_funclits /\
  Z.of_nat (length Gen_var_shifts.table) = Gen_var_shifts.count_funclits /\
  Z.of_nat (length Gen_place_ops.table) = Gen_place_ops.count_funclits /\
  Z.of_nat (length Gen_place_set.table) = Gen_place_set.count_funclits /\
  Z.of_nat (length Gen_place_set_value.table) = Gen_place_set_value.count_funclits /\
  Z.of_nat (length Gen_place_shifts.table) = Gen_place_shifts.count_funclits.
Proof. vm_compute. repeat split; reflexivity. Qed.
Print Assumptions C02_funclit_coverage.

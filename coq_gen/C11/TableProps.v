(* C11 — property theorems, part 2, over the proxy tables REGENERATED on this run (GenTables.v / GenSpec.v,
   translators/tr_imports); copied to build/C11/GenZ_TableProps.v by a pre_step and compiled after them. *)
From Coq Require Import List NArith ZArith Bool.
From Verif Require Import Common.GoStr C31.Untyped C31.Model C31.Proof C31.Props C11.Model C11.Proof C11.Props.
From Gen Require Import GenTables GenSpec.
Import ListNotations.
Open Scope N_scope.

Lemma proxies_checked : forallb (c11_proxy_ok id_Object id_blank) proxies = true. Proof. vm_compute. reflexivity. Qed.
Lemma proxy_rows_checked :
  all_rows (proxy_row_ok id_Object id_blank spec_objs spec_ifaces proxies) tables = true.
Proof. vm_compute. reflexivity. Qed.

(* every method M of every proxy struct in the tables, for ALL objects and argument values:
   M calls field M_ with the receiver's Object first and the arguments in order, and returns its results unchanged *)
Theorem C11_proxy_forwarding : forall px m, In px proxies -> In m (px_methods px) ->
  (forall (V : Type) (object : V) (args : list V), length args = length (m_params m) ->
     exec V m object args = Some (mkCall V (m_name m) true (object :: args) true))
  /\ exists f, find_field (m_name m) (px_fields px) = Some f /\ fd_ty f = FFunc true (m_type m).
Proof.
  intros px m Hpx Hm. pose proof proxies_checked as H. rewrite forallb_forall in H. specialize (H px Hpx).
  unfold c11_proxy_ok, proxy_ok in H.
  repeat match type of H with (_ && _ = true) => apply andb_true_iff in H as [H ?] end.
  match goal with X : forallb (method_ok _ px) _ = true |- _ => rewrite forallb_forall in X; specialize (X m Hm);
    destruct (C31_proxy_forwards_sound id_blank px m X) as (A & _ & _ & D) end.
  split; assumption.
Qed.
Print Assumptions C11_proxy_forwarding.

(* the table obligation converterToProxy relies on: the proxy registered for interface I has its fields in I's method
   order (reflect order = sorted by name, as go/types reports it): field i+1 is named after interface method i *)
Theorem C11_proxy_fields_in_interface_method_order : forall pt r, In pt tables -> In r (pt_rows pt) -> r_tab r = TProxies ->
  exists px i, find_proxy (pt_file pt) (r_sel r) proxies = Some px /\ find_iface (pt_pkg pt) (r_key r) spec_ifaces = Some i
    /\ map m_name (px_methods px) = map im_name (if_methods i) /\ Layout id_Object px.
Proof.
  intros pt r Hpt Hr T.
  destruct (C31_proxy_implements_sound _ _ _ _ _ tables proxy_rows_checked pt r Hpt Hr T)
    as (px & i & A & B & _ & _ & _ & E & L & _).
  exists px, i. auto.
Qed.
Print Assumptions C11_proxy_fields_in_interface_method_order.

(* end to end, for every proxy of the tables and every source method table: after a successful converterToProxy, calling
   interface method i on the proxy reaches the source type's unique method of that name with (object, args...) *)
Theorem C11_proxy_call_reaches_named_method : forall (M : Type) px, In px proxies ->
  forall i m, nth_error (px_methods px) i = Some m ->
  forall (tm : mtable M) slots, fill M (map m_name (px_methods px)) tm = FillOk M slots ->
  (exists f, nth_error (px_fields px) (S i) = Some f /\ fd_base f = m_name m /\ fd_us f = true)
  /\ (exists impl, nth_error slots i = Some impl /\ method_by_name M tm (m_name m) = [impl])
  /\ (forall (V : Type) (object : V) (args : list V), length args = length (m_params m) ->
        exec V m object args = Some (mkCall V (m_name m) true (object :: args) true))
  /\ NoDup (map m_name (px_methods px)) /\ NoDup (map fd_name (px_fields px)).
Proof.
  intros M px Hpx. pose proof proxies_checked as H. rewrite forallb_forall in H.
  exact (C11_proxy_call_reaches_named_method_sound id_Object id_blank M px (H px Hpx)).
Qed.
Print Assumptions C11_proxy_call_reaches_named_method.

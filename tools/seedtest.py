#!/usr/bin/env python3
"""tools/seedtest.py <seed-out-dir> [...]: confirm an independently written regression and run the matching check against it.

For each directory (containing patch.diff, demo/run.sh, meta.json):
  1. scratch worktree of /repo HEAD (outside /repo and /verif), `git apply patch.diff`, go build ./...
  2. the 947-test baseline on the mutated tree (tools/baseline.py)
  3. demo/run.sh on the clean /repo (must exit 0) and on the mutated tree (must exit non-zero)
  4. VERIF_REPO=<mutated tree> ./check <ID> (quick): caught iff exit 1 with a VIOLATION line
  5. on success of 1-3 the directory is copied to /verif/seeded/<name>/ with meta.json extended by what was run
The worktree is removed afterwards.  Results are appended to /verif/seeded/RESULTS.jsonl."""
import json, os, shutil, subprocess, sys, time

V = os.path.dirname(os.path.dirname(os.path.abspath(__file__)))
ENV = dict(os.environ, GOFLAGS="-mod=mod", GOPROXY="off", GOSUMDB="off", GOTOOLCHAIN="local")


def sh(cmd, cwd=None, timeout=3600, env=None):
    try:
        p = subprocess.run(cmd, cwd=cwd, shell=isinstance(cmd, str), stdout=subprocess.PIPE, stderr=subprocess.STDOUT, timeout=timeout, env=env or ENV)
        return p.returncode, p.stdout.decode("utf-8", "replace")
    except subprocess.TimeoutExpired as e:
        return 124, (e.stdout or b"").decode("utf-8", "replace") + "\n[timeout]"


def one(d, skip_baseline=False):
    d = os.path.abspath(d.rstrip("/"))
    name = os.path.basename(d)
    meta = json.load(open(os.path.join(d, "meta.json")))
    pid = meta.get("property", name.split("-")[0]).strip().upper()[:3]
    res = {"name": name, "property": pid, "time": time.strftime("%F %T")}
    wt = "/tmp/seedtest-%s-%d" % (name, os.getpid())
    sh(["git", "-C", "/repo", "worktree", "add", "--detach", wt, "HEAD"])
    try:
        rc, out = sh(["git", "apply", os.path.join(d, "patch.diff")], cwd=wt)
        res["applies"] = rc == 0
        if rc != 0:
            res["error"] = out[-500:]
            return res
        rc, out = sh(["go", "build", "./..."], cwd=wt)
        res["builds"] = rc == 0
        if rc != 0:
            res["error"] = out[-500:]
            return res
        if not skip_baseline:
            rc, out = sh([os.path.join(V, "tools", "baseline.py"), wt], timeout=3000)
            res["baseline_ok"] = rc == 0
            res["baseline"] = out.strip().split("\n")[0]
        run = os.path.join(d, "demo", "run.sh")
        rc1, o1 = sh(["bash", run, "/repo"], cwd=os.path.join(d, "demo"), timeout=1800)
        rc2, o2 = sh(["bash", run, wt], cwd=os.path.join(d, "demo"), timeout=1800)
        res["demo_clean_rc"], res["demo_mutated_rc"] = rc1, rc2
        res["demo_mutated_tail"] = o2.strip().split("\n")[-1][:300] if o2.strip() else ""
        res["confirmed"] = bool(res.get("baseline_ok", skip_baseline) and rc1 == 0 and rc2 != 0)
        env = dict(ENV, VERIF_REPO=wt)
        t0 = time.time()
        rc, out = sh([os.path.join(V, "check"), pid, "--tier", "quick"], cwd=V, timeout=5400, env=env)
        viol = [l for l in out.split("\n") if l.startswith("VIOLATION")]
        res["check_rc"], res["check_wall_s"] = rc, round(time.time() - t0)
        res["caught"] = rc == 1 and bool(viol)
        res["violation_lines"] = viol[:3]
        res["with_failing_input"] = any("no-failing-input-found" not in l for l in viol)
        # keep the first replay
        if viol:
            rp = viol[0].split("replay=")[1].split()[0]
            if os.path.exists(rp):
                res["replay_excerpt"] = open(rp).read()[:1500]
        if res["confirmed"]:
            dst = os.path.join(V, "seeded", name)
            if os.path.abspath(dst) != os.path.abspath(d):
                if os.path.exists(dst):
                    shutil.rmtree(dst)
                shutil.copytree(d, dst, ignore=shutil.ignore_patterns("go.sum", "*.test", "demo_bin", "bin"))
            meta["verif_run"] = {k: res[k] for k in res if k not in ("replay_excerpt",)}
            meta["verif_run"]["commands"] = ["git worktree add --detach <wt> HEAD; git apply patch.diff; go build ./...",
                                             "tools/baseline.py <wt>", "demo/run.sh /repo ; demo/run.sh <wt>", "VERIF_REPO=<wt> ./check %s --tier quick" % pid]
            json.dump(meta, open(os.path.join(dst, "meta.json"), "w"), indent=1)
        return res
    finally:
        sh(["git", "-C", "/repo", "worktree", "remove", "--force", wt])
        shutil.rmtree(wt, ignore_errors=True)


if __name__ == "__main__":
    args = [a for a in sys.argv[1:] if not a.startswith("--")]
    os.makedirs(os.path.join(V, "seeded"), exist_ok=True)
    for d in args:
        r = one(d, skip_baseline="--skip-baseline" in sys.argv)
        open(os.path.join(V, "seeded", "RESULTS.jsonl"), "a").write(json.dumps(r) + "\n")
        print(json.dumps({k: r.get(k) for k in ("name", "property", "applies", "builds", "baseline_ok", "demo_clean_rc", "demo_mutated_rc", "confirmed", "caught", "with_failing_input", "check_wall_s")}), flush=True)

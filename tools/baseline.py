#!/usr/bin/env python3
"""tools/baseline.py [repo] [-tags verif]: run the repository's test suite (go test -json ./...) and compare the set of
passing tests with /root/.vp/BASELINE.json stable_pass.  Exit 0 iff every stable_pass test passes."""
import json, os, subprocess, sys
repo = sys.argv[1] if len(sys.argv) > 1 and not sys.argv[1].startswith("-") else "/repo"
extra = [a for a in sys.argv[1:] if a.startswith("-") or a == "verif"]
env = dict(os.environ, GOFLAGS="-mod=mod", GOPROXY="off", GOSUMDB="off", GOTOOLCHAIN="local")
p = subprocess.run(["go", "test"] + extra + ["-json", "-vet=off", "-count=1", "-timeout", "25m", "./..."], cwd=repo, env=env,
                   stdout=subprocess.PIPE, stderr=subprocess.DEVNULL)
passed = set()
for line in p.stdout.decode("utf-8", "replace").split("\n"):
    try:
        o = json.loads(line)
    except Exception:
        continue
    if o.get("Action") == "pass" and o.get("Test"):
        passed.add(o["Package"] + "::" + o["Test"])
base = json.load(open("/root/.vp/BASELINE.json"))["stable_pass"]
missing = [t for t in base if t not in passed]
# load-sensitive tests (20 ms sleeps, "running too slowly" self-checks) flake on a busy machine: re-run the missing ones alone, twice at most
for attempt in range(2):
    if not missing or len(missing) > 12:
        break
    for t in list(missing):
        pkg, name = t.split("::", 1)
        rx = "/".join("^%s$" % x.replace("#", ".") for x in name.split("/"))
        q = subprocess.run(["go", "test"] + extra + ["-json", "-vet=off", "-count=1", "-timeout", "20m", "-run", rx, pkg], cwd=repo, env=env,
                           stdout=subprocess.PIPE, stderr=subprocess.DEVNULL)
        for line in q.stdout.decode("utf-8", "replace").split("\n"):
            try:
                o = json.loads(line)
            except Exception:
                continue
            if o.get("Action") == "pass" and o.get("Test"):
                passed.add(o["Package"] + "::" + o["Test"])
    missing = [t for t in base if t not in passed]
print("stable_pass:", len(base), "passed now:", len(passed), "missing:", len(missing))
for t in missing[:20]:
    print("  MISSING", t)
sys.exit(1 if missing else 0)

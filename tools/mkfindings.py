#!/usr/bin/env python3
"""Render known_findings.json as a markdown table between the FINDINGS markers of DESIGN.md."""
import json, os, re
V = os.path.dirname(os.path.dirname(os.path.abspath(__file__)))
F = json.load(open(os.path.join(V, "known_findings.json")))["findings"]
rows = ["| id | property | status | commit | key | what |", "|---|---|---|---|---|---|"]
for f in sorted(F, key=lambda f: (f["property"], f["id"])):
    what = f.get("what", "").replace("|", "\\|").replace("\n", " ")
    key = f.get("key", "").replace("|", "\\|").replace("\n", "\\n")
    rows.append("| %s | %s | %s | %s | `%s` | %s |" % (f["id"], f["property"], f["status"], f.get("commit", ""), key, what))
p = os.path.join(V, "DESIGN.md")
s = open(p).read()
block = "<!-- FINDINGS:BEGIN -->\n" + "\n".join(rows) + "\n<!-- FINDINGS:END -->"
if "<!-- FINDINGS:BEGIN -->" in s:
    s = re.sub(r"<!-- FINDINGS:BEGIN -->.*?<!-- FINDINGS:END -->", lambda m: block, s, flags=re.S)
else:
    s = s.replace("## 8. Cost", "### 7b. Defects confirmed by the built checks (generated from known_findings.json by tools/mkfindings.py)\n\n"
                  "`fixed` = repaired by the named `fix:` commit in /repo (the reproducing input stays in corpus/<ID> and runs first on every check);\n"
                  "`known` = reproduced, not repairable by a small safe patch; the check prints `KNOWN-FINDING` for exactly this key.\n\n" + block + "\n\n## 8. Cost")
open(p, "w").write(s)
print(len(F), "findings rendered")

#!/bin/bash
# tools/applybatch.sh <ID-n> ...: apply each /verif/fixes/<ID-n>.diff as its own commit (build check only),
# then run the 947-test baseline once for the whole batch. Prints APPLIED/SKIPPED per fix.
cd /repo
export GOFLAGS=-mod=mod GOPROXY=off GOSUMDB=off GOTOOLCHAIN=local
start=$(git rev-parse HEAD)
for n in "$@"; do
  if ! git apply --check /verif/fixes/$n.diff 2>/tmp/applyerr.txt; then echo "SKIPPED $n: does not apply: $(head -3 /tmp/applyerr.txt | tr '\n' ' ')"; continue; fi
  git apply /verif/fixes/$n.diff
  if ! go build ./... 2>/tmp/builderr.txt; then echo "SKIPPED $n: build failed: $(head -5 /tmp/builderr.txt | tr '\n' ' ')"; git checkout -q -- .; git clean -fdq; continue; fi
  git add -A; git commit -q -F /verif/fixes/$n.msg; echo "APPLIED $n $(git log --oneline | head -1 | cut -c1-60)"
done
if /verif/tools/baseline.py /repo | tail -4; then echo "BASELINE OK"; else echo "BASELINE FAILED since $start"; fi

#!/bin/bash
# usage: goal.sh <file.v> <line>   (run from /verif/coq) : show goals after the given line
f=$1; n=$2
(head -n $n "$f"; echo "Show.") | timeout 120 coqtop -Q /verif/coq Verif 2>&1 | tail -${3:-40}

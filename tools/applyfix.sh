#!/bin/bash
# tools/applyfix.sh <ID-n>: apply /verif/fixes/<ID-n>.diff to /repo, run the 947-test baseline, commit with /verif/fixes/<ID-n>.msg
set -e
n=$1
cd /repo
git apply --check /verif/fixes/$n.diff
git apply /verif/fixes/$n.diff
export GOFLAGS=-mod=mod GOPROXY=off GOSUMDB=off GOTOOLCHAIN=local
if ! go build ./... ; then echo BUILD FAILED; git checkout -- .; exit 1; fi
if ! /verif/tools/baseline.py /repo | tail -3; then echo BASELINE FAILED; git checkout -- .; exit 1; fi
git add -A
git commit -q -F /verif/fixes/$n.msg
git log --oneline | head -1

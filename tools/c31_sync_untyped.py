#!/usr/bin/env python3
"""pre_step of C31/C11: keep coq/C31/Untyped.v an exact copy (behind a fixed header) of coq/C32/Model.v.
C31 decodes the Untypeds strings with C32's model of untyped.Unmarshal, but must not pull the whole coq/C32 directory into
its build cone (C32's proofs are long and are rebuilt under the global coq lock).  The copy is rewritten only when the
content differs, atomically."""
import os, sys
verif = sys.argv[1]
src = os.path.join(verif, "coq", "C32", "Model.v")
dst = os.path.join(verif, "coq", "C31", "Untyped.v")
header = "(* COPY of coq/C32/Model.v (synchronised by tools/c31_sync_untyped.py on every ./check C31) - do not edit. *)\n"
if not os.path.exists(src):
    sys.exit(0)  # keep the last copy
want = header + open(src).read()
if not os.path.exists(dst) or open(dst).read() != want:
    tmp = dst + ".%d" % os.getpid()
    open(tmp, "w").write(want)
    os.replace(tmp, dst)
    print("Untyped.v refreshed from C32/Model.v")

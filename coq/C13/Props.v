(* C13 -- property theorems only: each closed by [exact lemma], followed by Print Assumptions. *)
From Coq Require Import List Arith Bool ZArith.
From Verif Require Import C13.Model C13.Proof.
Import ListNotations.

(* the closed form [remaining] is what the unrolled loops of exec/reExecWithFlags compute (5 rounds of 14 slots,
   then blocks of 15 slots), for every statement number t >= 1 *)
Theorem C13_remaining_closed_form : forall t, 1 <= t -> remaining t = remaining_walk t.
Proof. exact remaining_is_walk. Qed.
Print Assumptions C13_remaining_closed_form.

(* For EVERY frame behaviour fr (any sequence of plain statements, calls of interpreted functions, defer statements,
   returns) and every t >= 1: if Async is set while the t-th statement of the frame runs (no defer statement before),
   then the number r of further statements of that frame that complete before panic(SigInterrupt) is raised is at
   most remaining t (<= 14) plus the number of defer statements among them (each defer statement executed as the
   15th slot of a steady block buys one single-stepped statement). The true constant is 14 for a flag set DURING a
   statement; a flag set between two statements (asynchronous delivery) is the case t-1, i.e. at most 15 statements
   start after it. *)
Theorem C13_interrupt_bound : forall fuel (fr : frame) t r, 1 <= t -> further fuel fr t = Some r ->
  r <= remaining t + count_defers fr t r /\ r <= 14 + count_defers fr t r.
Proof. exact further_bound. Qed.
Print Assumptions C13_interrupt_bound.

(* ... and the count is EXACTLY remaining t when the next remaining t statements are plain (no call, defer, return) *)
Theorem C13_interrupt_exact : forall fuel (fr : frame) t, 1 <= t -> remaining t <= fuel ->
  (forall i, 1 <= i <= remaining t -> fr (t + i) = KPlain) -> further fuel fr t = Some (remaining t).
Proof. exact further_exact. Qed.
Print Assumptions C13_interrupt_exact.

Theorem C13_remaining_le_14 : forall t, remaining t <= 14.
Proof. exact remaining_le_14. Qed.
Print Assumptions C13_remaining_le_14.

(* ---- the same bound on the WHOLE machine (flat code, nested frames, deferred calls, recursion): for every program P,
   every top-level form and every k: when the compiled hook delivers the interrupt at its k-th call, the number of
   statements that start and complete while Async is set is at most 14, not counting defer statements; it holds for
   every frame separately because a call of an interpreted function with the flag set panics at the callee's entry
   and every way out of a frame polls the flag (invariant LI/J in Proof.v, by induction over the executor).
   If the evaluation nevertheless returns normally (an interpreted recover() stopped the interrupt panic, or the
   hook was never called k times) no interrupt is left pending. *)
Theorem C13_machine_bound : forall fuel P fx fm k o g', eval fuel P fx fm (glob0 k FInterrupt) = (o, g') ->
  after_all g' <= 14 + after_def g' /\ (o = ONormal -> async (rn g') = false).
Proof. exact eval_bound. Qed.
Print Assumptions C13_machine_bound.

(* the invariant itself, for every piece of the executor started in any state satisfying it *)
Theorem C13_executor_invariant : forall fuel P fx t g o g', go fuel P fx t g = (o, g') -> J g ->
  (forall fs, t = TLoop fs -> LI fs g) -> J g' /\ post2 t g o g'.
Proof. exact go_J. Qed.
Print Assumptions C13_executor_invariant.

(* definitions are kept: whatever happens (interrupt, panic, unwinding through deferred calls, restore, the exit of
   RunExpr) the interpreted global changes only through executed `x++` statements; the program (the declared
   functions) is not part of the executor's mutable state.  With C12_restore (C12/Props.v, same machine) the Run
   record is idle again after the interrupt panic has left the evaluation. *)
Theorem C13_definitions_kept : forall fuel P fx fm g o g', eval fuel P fx fm g = (o, g') ->
  gx g' + gincs g = gx g + gincs g'.
Proof. exact eval_keeps_definitions. Qed.
Print Assumptions C13_definitions_kept.

(* the design-time probe: `for { hook() }` has 2 statements per iteration, the k-th hook call is statement 2k-1 and
   remaining/2 further calls were observed: 6,5,2,0,6,5,5,2,3 for k = 1,2,5,14,15,16,30,71,100 *)
Example C13_remaining_matches_probe :
  map (fun k => remaining (2 * k - 1) / 2) [1; 2; 5; 14; 15; 16; 30; 71; 100] = [6; 5; 2; 0; 6; 5; 5; 2; 3].
Proof. vm_compute. reflexivity. Qed.

(* the same numbers from the whole machine (flat code [hook(); goto 0] run on the top-level Env) *)
Example C13_machine_matches_probe :
  map (fun k => let '(o, g) := eval FUEL [[IHook; IJmp 0]] true (FDirect 0) (glob0 k FInterrupt) in (o, later g))
      [1; 2; 5; 14; 15; 16; 30; 71; 100]
  = map (fun n => (OPanic 3, n)) [6; 5; 2; 0; 6; 5; 5; 2; 3].
Proof. vm_compute. reflexivity. Qed.

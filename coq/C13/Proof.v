(* C13 -- lemmas about the polling structure (part 1) and the flat-code machine (part 2) of C13/Model.v *)
From Coq Require Import List Arith Bool ZArith Lia.
From Verif Require Import C13.Model.
Import ListNotations.

Ltac dm x d := pose proof (Nat.div_mod x d ltac:(lia)); pose proof (Nat.mod_upper_bound x d ltac:(lia)).

Lemma phase_after_closed : forall s,
  phase_after s = if s <? 70 then PPro (s / 14) (s mod 14) else PSteady ((s - 70) mod 15).
Proof.
  induction s as [|s IH]; [reflexivity|].
  cbn [phase_after]. rewrite IH. clear IH.
  dm s 14. dm (S s) 14. dm (s - 70) 15. dm (S s - 70) 15.
  destruct (Nat.ltb_spec s 70) as [L|L].
  - unfold advance, PRO_LEN, next_round, PRO_ROUNDS.
    destruct (Nat.ltb_spec (S (s mod 14)) 14) as [A|A]; cbn [fst].
    + destruct (Nat.ltb_spec (S s) 70); [|exfalso; lia].
      f_equal; lia.
    + destruct (Nat.ltb_spec (S (s / 14)) 5) as [B|B].
      * destruct (Nat.ltb_spec (S s) 70); [|exfalso; lia]. f_equal; lia.
      * destruct (Nat.ltb_spec (S s) 70); [exfalso; lia|]. f_equal; lia.
  - unfold advance, STEADY_LEN.
    destruct (Nat.ltb_spec (S s) 70); [exfalso; lia|].
    destruct (Nat.ltb_spec (S ((s - 70) mod 15)) 15) as [A|A]; cbn [fst]; f_equal; lia.
Qed.

Lemma remaining_is_walk : forall t, 1 <= t -> remaining t = remaining_walk t.
Proof.
  intros [|s] H; [lia|]. unfold remaining_walk. rewrite phase_after_closed.
  unfold remaining, PRO_ROUNDS, PRO_LEN, STEADY_LEN. change (5 * 14) with 70.
  dm s 14. dm (S s) 14. dm (s - 70) 15. dm (S s - 70) 15.
  destruct (Nat.ltb_spec s 70) as [L|L].
  - destruct (Nat.leb_spec (S s) 70); [|exfalso; lia].
    unfold advance, PRO_LEN, next_round, PRO_ROUNDS.
    destruct (Nat.ltb_spec (S (s mod 14)) 14) as [A|A]; unfold slack_of, budget, PRO_LEN.
    + destruct (Nat.eqb_spec (S s mod 14) 0); lia.
    + destruct (Nat.eqb_spec (S s mod 14) 0); lia.
  - destruct (Nat.leb_spec (S s) 70); [exfalso; lia|].
    unfold advance, STEADY_LEN.
    destruct (Nat.ltb_spec (S ((s - 70) mod 15)) 15) as [A|A]; unfold slack_of, budget, STEADY_LEN;
      destruct (Nat.eqb_spec ((S s - 70) mod 15) 0); lia.
Qed.

Lemma remaining_le_14 : forall t, remaining t <= 14.
Proof.
  intros t. unfold remaining, PRO_ROUNDS, PRO_LEN, STEADY_LEN.
  destruct (t <=? 5 * 14).
  - destruct (t mod 14 =? 0); lia.
  - destruct ((t - 5 * 14) mod 15 =? 0) eqn:E; [lia|]. apply Nat.eqb_neq in E. lia.
Qed.

(* well-formed phases: the slot counter is inside its block *)
Definition wf_phase (ph : phase) : Prop :=
  match ph with PPro j p => j < 5 /\ p < 14 | PSteady p => p < 15 | PSingle => True end.

Lemma wf_advance ph k : wf_phase ph -> wf_phase (fst (advance ph k)).
Proof.
  destruct ph as [j p|p|], k; simpl; unfold next_round, PRO_LEN, STEADY_LEN, PRO_ROUNDS; intros H;
    repeat match goal with |- context [?a <? ?b] => destruct (Nat.ltb_spec a b) end; simpl; lia.
Qed.

Lemma wf_phase_after s : wf_phase (phase_after s).
Proof. induction s; [simpl; lia|]. change (phase_after (S s)) with (fst (advance (phase_after s) SkCont)). apply wf_advance; assumption. Qed.

Lemma budget_pos ph : wf_phase ph -> 1 <= budget ph.
Proof. destruct ph; unfold wf_phase, budget, PRO_LEN, STEADY_LEN; lia. Qed.

Lemma budget_le ph : wf_phase ph -> budget ph <= 15.
Proof. destruct ph; unfold wf_phase, budget, PRO_LEN, STEADY_LEN; lia. Qed.

Lemma advance_cont_budget ph ph' : wf_phase ph -> advance ph SkCont = (ph', false) -> S (budget ph') = budget ph.
Proof.
  destruct ph as [j p|p|]; unfold advance, wf_phase, next_round, PRO_LEN, STEADY_LEN, PRO_ROUNDS; intros H;
    repeat match goal with |- context [?a <? ?b] => destruct (Nat.ltb_spec a b) end; intros E; inversion E; subst;
    unfold budget, PRO_LEN, STEADY_LEN; lia.
Qed.

Lemma advance_cont_poll ph ph' : wf_phase ph -> advance ph SkCont = (ph', true) -> budget ph = 1.
Proof.
  destruct ph as [j p|p|]; unfold advance, wf_phase, next_round, PRO_LEN, STEADY_LEN, PRO_ROUNDS; intros H;
    repeat match goal with |- context [?a <? ?b] => destruct (Nat.ltb_spec a b) end; intros E; inversion E; subst;
    unfold budget, PRO_LEN, STEADY_LEN; lia.
Qed.

Lemma advance_defer_budget ph ph' : advance ph SkDefer = (ph', false) -> budget ph' = 1.
Proof.
  destruct ph as [j p|p|]; simpl; intros E; inversion E; subst; reflexivity.
Qed.

(* number of defer statements among statements t+1 .. t+m of the frame *)
Fixpoint count_defers (fr : frame) (t m : nat) : nat :=
  match m with
  | O => 0
  | S m' => (match fr (S t) with KDefer => 1 | _ => 0 end) + count_defers fr (S t) m'
  end.

Lemma after_flag_bound : forall fuel fr t ph n r, wf_phase ph ->
  after_flag fuel fr t ph n = Some r ->
  n <= r /\ r <= n + budget ph + count_defers fr t (r - n).
Proof.
  induction fuel as [|fuel IH]; intros fr t ph n r W E; [discriminate|].
  cbn [after_flag] in E. pose proof (budget_pos ph W) as BP.
  destruct (fr (S t)) eqn:K.
  - (* plain *)
    destruct (advance ph SkCont) as [ph' c] eqn:A. destruct c.
    + inversion E; subst. lia.
    + pose proof (advance_cont_budget _ _ W A) as B.
      assert (W' : wf_phase ph') by (pose proof (wf_advance ph SkCont W) as X; rewrite A in X; exact X).
      destruct (IH _ _ _ _ _ W' E) as [L U]. split; [lia|].
      replace (r - n) with (S (r - S n)) by lia. simpl. rewrite K. lia.
  - inversion E; subst. lia.
  - (* defer *)
    destruct (advance ph SkDefer) as [ph' c] eqn:A. destruct c.
    + inversion E; subst. replace (S n - n) with 1 by lia. simpl. rewrite K. lia.
    + pose proof (advance_defer_budget _ _ A) as B.
      assert (W' : wf_phase ph') by (pose proof (wf_advance ph SkDefer W) as X; rewrite A in X; exact X).
      destruct (IH _ _ _ _ _ W' E) as [L U]. split; [lia|].
      replace (r - n) with (S (r - S n)) by lia. simpl. rewrite K. lia.
  - inversion E; subst. lia.
Qed.

(* exact count when the following statements are plain *)
Lemma after_flag_exact : forall m fuel fr t ph n, wf_phase ph -> m = budget ph -> m <= fuel ->
  (forall i, 1 <= i <= m -> fr (t + i) = KPlain) ->
  after_flag fuel fr t ph n = Some (n + m).
Proof.
  induction m as [|m IH]; intros fuel fr t ph n W B F P.
  - pose proof (budget_pos ph W). lia.
  - destruct fuel as [|fuel]; [lia|]. cbn [after_flag].
    rewrite <- (Nat.add_1_r t) at 1. rewrite (P 1) by lia.
    destruct (advance ph SkCont) as [ph' c] eqn:A. destruct c.
    + (* polled: budget was 1 *)
      assert (m = 0) by (pose proof (advance_cont_poll _ _ W A); lia).
      subst. f_equal. lia.
    + pose proof (advance_cont_budget _ _ W A) as B'.
      assert (W' : wf_phase ph') by (pose proof (wf_advance ph SkCont W) as X; rewrite A in X; exact X).
      rewrite (IH fuel fr (S t) ph' (S n) W'); [f_equal; lia|lia|lia|].
      intros i Hi. replace (S t + i) with (t + S i) by lia. apply P. lia.
Qed.

(* the whole observation for one frame: flag set during its t-th statement (t >= 1), no defer statement among
   the first t statements *)
Definition further (fuel : nat) (fr : frame) (t : nat) : option nat :=
  let '(ph, c) := advance (phase_after (pred t)) SkCont in
  if c then Some 0 else after_flag fuel fr t ph 0.

Lemma further_bound : forall fuel fr t r, 1 <= t -> further fuel fr t = Some r ->
  r <= remaining t + count_defers fr t r /\ r <= 14 + count_defers fr t r.
Proof.
  intros fuel fr t r T E. rewrite (remaining_is_walk t T).
  assert (r <= remaining_walk t + count_defers fr t r).
  { unfold further in E. destruct t as [|s]; [lia|]. simpl pred in E. unfold remaining_walk.
    destruct (advance (phase_after s) SkCont) as [ph c] eqn:A. destruct c.
    - inversion E; subst. lia.
    - assert (W : wf_phase ph) by (pose proof (wf_advance _ SkCont (wf_phase_after s)) as X; rewrite A in X; exact X).
      destruct (after_flag_bound _ _ _ _ _ _ W E) as [_ U]. rewrite Nat.sub_0_r in U. unfold slack_of. lia. }
  split; [assumption|]. rewrite <- (remaining_is_walk t T) in H. pose proof (remaining_le_14 t). lia.
Qed.

Lemma further_exact : forall fuel fr t, 1 <= t -> remaining t <= fuel ->
  (forall i, 1 <= i <= remaining t -> fr (t + i) = KPlain) ->
  further fuel fr t = Some (remaining t).
Proof.
  intros fuel fr t T F P. rewrite (remaining_is_walk t T) in *. unfold further.
  destruct t as [|s]; [lia|]. simpl pred. unfold remaining_walk in *.
  destruct (advance (phase_after s) SkCont) as [ph c] eqn:A. destruct c; [reflexivity|].
  assert (W : wf_phase ph) by (pose proof (wf_advance _ SkCont (wf_phase_after s)) as X; rewrite A in X; exact X).
  unfold slack_of in *. apply (after_flag_exact (budget ph) fuel fr (S s) ph 0 W eq_refl F P).
Qed.

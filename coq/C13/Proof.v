(* C13 -- lemmas about the polling structure (part 1) and the flat-code machine (part 2) of C13/Model.v *)
From Coq Require Import List Arith Bool ZArith Lia.
From Verif Require Import C13.Model.
Import ListNotations.

Ltac dm x d := pose proof (Nat.div_mod x d ltac:(lia)); pose proof (Nat.mod_upper_bound x d ltac:(lia)).

Lemma phase_after_closed : forall s,
  phase_after s = if s <? 70 then PPro (s / 14) (s mod 14) else PSteady ((s - 70) mod 15).
Proof.
  induction s as [|s IH]; [reflexivity|].
  cbn [phase_after]. rewrite IH. clear IH.
  dm s 14. dm (S s) 14. dm (s - 70) 15. dm (S s - 70) 15.
  destruct (Nat.ltb_spec s 70) as [L|L].
  - unfold advance, PRO_LEN, next_round, PRO_ROUNDS.
    destruct (Nat.ltb_spec (S (s mod 14)) 14) as [A|A]; cbn [fst].
    + destruct (Nat.ltb_spec (S s) 70); [|exfalso; lia].
      f_equal; lia.
    + destruct (Nat.ltb_spec (S (s / 14)) 5) as [B|B].
      * destruct (Nat.ltb_spec (S s) 70); [|exfalso; lia]. f_equal; lia.
      * destruct (Nat.ltb_spec (S s) 70); [exfalso; lia|]. f_equal; lia.
  - unfold advance, STEADY_LEN.
    destruct (Nat.ltb_spec (S s) 70); [exfalso; lia|].
    destruct (Nat.ltb_spec (S ((s - 70) mod 15)) 15) as [A|A]; cbn [fst]; f_equal; lia.
Qed.

Lemma remaining_is_walk : forall t, 1 <= t -> remaining t = remaining_walk t.
Proof.
  intros [|s] H; [lia|]. unfold remaining_walk. rewrite phase_after_closed.
  unfold remaining, PRO_ROUNDS, PRO_LEN, STEADY_LEN. change (5 * 14) with 70.
  dm s 14. dm (S s) 14. dm (s - 70) 15. dm (S s - 70) 15.
  destruct (Nat.ltb_spec s 70) as [L|L].
  - destruct (Nat.leb_spec (S s) 70); [|exfalso; lia].
    unfold advance, PRO_LEN, next_round, PRO_ROUNDS.
    destruct (Nat.ltb_spec (S (s mod 14)) 14) as [A|A]; unfold slack_of, budget, PRO_LEN.
    + destruct (Nat.eqb_spec (S s mod 14) 0); lia.
    + destruct (Nat.eqb_spec (S s mod 14) 0); lia.
  - destruct (Nat.leb_spec (S s) 70); [exfalso; lia|].
    unfold advance, STEADY_LEN.
    destruct (Nat.ltb_spec (S ((s - 70) mod 15)) 15) as [A|A]; unfold slack_of, budget, STEADY_LEN;
      destruct (Nat.eqb_spec ((S s - 70) mod 15) 0); lia.
Qed.

Lemma remaining_le_14 : forall t, remaining t <= 14.
Proof.
  intros t. unfold remaining, PRO_ROUNDS, PRO_LEN, STEADY_LEN.
  destruct (t <=? 5 * 14).
  - destruct (t mod 14 =? 0); lia.
  - destruct ((t - 5 * 14) mod 15 =? 0) eqn:E; [lia|]. apply Nat.eqb_neq in E. lia.
Qed.

(* well-formed phases: the slot counter is inside its block *)
Definition wf_phase (ph : phase) : Prop :=
  match ph with PPro j p => j < 5 /\ p < 14 | PSteady p => p < 15 | PSingle => True end.

Lemma wf_advance ph k : wf_phase ph -> wf_phase (fst (advance ph k)).
Proof.
  destruct ph as [j p|p|], k; simpl; unfold next_round, PRO_LEN, STEADY_LEN, PRO_ROUNDS; intros H;
    repeat match goal with |- context [?a <? ?b] => destruct (Nat.ltb_spec a b) end; simpl; lia.
Qed.

Lemma wf_phase_after s : wf_phase (phase_after s).
Proof. induction s; [simpl; lia|]. change (phase_after (S s)) with (fst (advance (phase_after s) SkCont)). apply wf_advance; assumption. Qed.

Lemma budget_pos ph : wf_phase ph -> 1 <= budget ph.
Proof. destruct ph; unfold wf_phase, budget, PRO_LEN, STEADY_LEN; lia. Qed.

Lemma budget_le ph : wf_phase ph -> budget ph <= 15.
Proof. destruct ph; unfold wf_phase, budget, PRO_LEN, STEADY_LEN; lia. Qed.

Lemma advance_cont_budget ph ph' : wf_phase ph -> advance ph SkCont = (ph', false) -> S (budget ph') = budget ph.
Proof.
  destruct ph as [j p|p|]; unfold advance, wf_phase, next_round, PRO_LEN, STEADY_LEN, PRO_ROUNDS; intros H;
    repeat match goal with |- context [?a <? ?b] => destruct (Nat.ltb_spec a b) end; intros E; inversion E; subst;
    unfold budget, PRO_LEN, STEADY_LEN; lia.
Qed.

Lemma advance_cont_poll ph ph' : wf_phase ph -> advance ph SkCont = (ph', true) -> budget ph = 1.
Proof.
  destruct ph as [j p|p|]; unfold advance, wf_phase, next_round, PRO_LEN, STEADY_LEN, PRO_ROUNDS; intros H;
    repeat match goal with |- context [?a <? ?b] => destruct (Nat.ltb_spec a b) end; intros E; inversion E; subst;
    unfold budget, PRO_LEN, STEADY_LEN; lia.
Qed.

Lemma advance_defer_budget ph ph' : advance ph SkDefer = (ph', false) -> budget ph' = 1.
Proof.
  destruct ph as [j p|p|]; simpl; intros E; inversion E; subst; reflexivity.
Qed.

(* number of defer statements among statements t+1 .. t+m of the frame *)
Fixpoint count_defers (fr : frame) (t m : nat) : nat :=
  match m with
  | O => 0
  | S m' => (match fr (S t) with KDefer => 1 | _ => 0 end) + count_defers fr (S t) m'
  end.

Lemma after_flag_bound : forall fuel fr t ph n r, wf_phase ph ->
  after_flag fuel fr t ph n = Some r ->
  n <= r /\ r <= n + budget ph + count_defers fr t (r - n).
Proof.
  induction fuel as [|fuel IH]; intros fr t ph n r W E; [discriminate|].
  cbn [after_flag] in E. pose proof (budget_pos ph W) as BP.
  destruct (fr (S t)) eqn:K.
  - (* plain *)
    destruct (advance ph SkCont) as [ph' c] eqn:A. destruct c.
    + inversion E; subst. lia.
    + pose proof (advance_cont_budget _ _ W A) as B.
      assert (W' : wf_phase ph') by (pose proof (wf_advance ph SkCont W) as X; rewrite A in X; exact X).
      destruct (IH _ _ _ _ _ W' E) as [L U]. split; [lia|].
      replace (r - n) with (S (r - S n)) by lia. simpl. rewrite K. lia.
  - inversion E; subst. lia.
  - (* defer *)
    destruct (advance ph SkDefer) as [ph' c] eqn:A. destruct c.
    + inversion E; subst. replace (S n - n) with 1 by lia. simpl. rewrite K. lia.
    + pose proof (advance_defer_budget _ _ A) as B.
      assert (W' : wf_phase ph') by (pose proof (wf_advance ph SkDefer W) as X; rewrite A in X; exact X).
      destruct (IH _ _ _ _ _ W' E) as [L U]. split; [lia|].
      replace (r - n) with (S (r - S n)) by lia. simpl. rewrite K. lia.
  - inversion E; subst. lia.
Qed.

(* exact count when the following statements are plain *)
Lemma after_flag_exact : forall m fuel fr t ph n, wf_phase ph -> m = budget ph -> m <= fuel ->
  (forall i, 1 <= i <= m -> fr (t + i) = KPlain) ->
  after_flag fuel fr t ph n = Some (n + m).
Proof.
  induction m as [|m IH]; intros fuel fr t ph n W B F P.
  - pose proof (budget_pos ph W). lia.
  - destruct fuel as [|fuel]; [lia|]. cbn [after_flag].
    rewrite <- (Nat.add_1_r t) at 1. rewrite (P 1) by lia.
    destruct (advance ph SkCont) as [ph' c] eqn:A. destruct c.
    + (* polled: budget was 1 *)
      assert (m = 0) by (pose proof (advance_cont_poll _ _ W A); lia).
      subst. f_equal. lia.
    + pose proof (advance_cont_budget _ _ W A) as B'.
      assert (W' : wf_phase ph') by (pose proof (wf_advance ph SkCont W) as X; rewrite A in X; exact X).
      rewrite (IH fuel fr (S t) ph' (S n) W'); [f_equal; lia|lia|lia|].
      intros i Hi. replace (S t + i) with (t + S i) by lia. apply P. lia.
Qed.

(* the whole observation for one frame: flag set during its t-th statement (t >= 1), no defer statement among
   the first t statements *)
Definition further (fuel : nat) (fr : frame) (t : nat) : option nat :=
  let '(ph, c) := advance (phase_after (pred t)) SkCont in
  if c then Some 0 else after_flag fuel fr t ph 0.

Lemma further_bound : forall fuel fr t r, 1 <= t -> further fuel fr t = Some r ->
  r <= remaining t + count_defers fr t r /\ r <= 14 + count_defers fr t r.
Proof.
  intros fuel fr t r T E. rewrite (remaining_is_walk t T).
  assert (r <= remaining_walk t + count_defers fr t r).
  { unfold further in E. destruct t as [|s]; [lia|]. simpl pred in E. unfold remaining_walk.
    destruct (advance (phase_after s) SkCont) as [ph c] eqn:A. destruct c.
    - inversion E; subst. lia.
    - assert (W : wf_phase ph) by (pose proof (wf_advance _ SkCont (wf_phase_after s)) as X; rewrite A in X; exact X).
      destruct (after_flag_bound _ _ _ _ _ _ W E) as [_ U]. rewrite Nat.sub_0_r in U. unfold slack_of. lia. }
  split; [assumption|]. rewrite <- (remaining_is_walk t T) in H. pose proof (remaining_le_14 t). lia.
Qed.

Lemma further_exact : forall fuel fr t, 1 <= t -> remaining t <= fuel ->
  (forall i, 1 <= i <= remaining t -> fr (t + i) = KPlain) ->
  further fuel fr t = Some (remaining t).
Proof.
  intros fuel fr t T F P. rewrite (remaining_is_walk t T) in *. unfold further.
  destruct t as [|s]; [lia|]. simpl pred. unfold remaining_walk in *.
  destruct (advance (phase_after s) SkCont) as [ph c] eqn:A. destruct c; [reflexivity|].
  assert (W : wf_phase ph) by (pose proof (wf_advance _ SkCont (wf_phase_after s)) as X; rewrite A in X; exact X).
  unfold slack_of in *. apply (after_flag_exact (budget ph) fuel fr (S s) ph 0 W eq_refl F P).
Qed.
(* ---------- part 2: the bound on the whole machine ---------- *)

Definition J (g : glob) : Prop :=
  after_all g <= 14 + after_def g /\ (hooks g < kk g -> async (rn g) = false /\ after_all g = 0).

(* counters and flag are the same *)
Definition same_cnt (g g' : glob) : Prop :=
  after_all g' = after_all g /\ after_def g' = after_def g /\ hooks g' = hooks g /\ kk g' = kk g /\ async (rn g') = async (rn g).
Lemma same_cnt_refl g : same_cnt g g. Proof. repeat split. Qed.
Lemma same_cnt_J g g' : same_cnt g g' -> J g -> J g'.
Proof. unfold J, same_cnt. intros (A & B & C & D & E) [J1 J2]. rewrite A, B, C, D, E. auto. Qed.

Lemma J_clear_async g : J g -> J (apply_async g).
Proof. unfold J, apply_async. simpl. intros [J1 J2]. split; [exact J1|]. intros H. split; [reflexivity|]. apply J2. exact H. Qed.

Lemma upd_run_cnt f g : async (f (rn g)) = async (rn g) -> same_cnt g (upd_run f g).
Proof. intros H. repeat split; simpl; auto. Qed.

(* the hook: either nothing changes for the counters, or this is the k-th call and the flag is set now *)
Lemma hook_call_J g ov g1 : hook_call g = (ov, g1) -> J g ->
  J g1 /\ after_all g1 = after_all g /\ after_def g1 = after_def g /\
  (async (rn g) = true -> async (rn g1) = true) /\
  (async (rn g) = false -> async (rn g1) = true -> after_all g1 = 0).
Proof.
  unfold hook_call, J. intros H [J1 J2].
  destruct (Nat.eqb_spec (S (hooks g)) (kk g)) as [E|E].
  - assert (L : hooks g < kk g) by lia. destruct (J2 L) as [A Z].
    destruct (flt g); inversion H; subst; simpl; (split; [split; [assumption|intros; lia]|]); repeat split; auto; congruence.
  - inversion H; subst; simpl. split; [split; [assumption|]|repeat split; auto; congruence].
    intros L. apply J2. lia.
Qed.

Lemma exec_instr_cont_J fs ins g k fs1 ip i g1 : exec_instr fs ins g = RCont k fs1 ip i g1 -> J g ->
  J g1 /\ after_all g1 = after_all g /\ after_def g1 = after_def g /\ fs_ph fs1 = fs_ph fs /\ fs_flags fs1 = fs_flags fs /\
  (async (rn g) = true -> async (rn g1) = true) /\
  (async (rn g) = false -> async (rn g1) = true -> after_all g1 = 0).
Proof.
  intros H JJ. unfold exec_instr in H.
  destruct ins as [ins|]; [|discriminate].
  destruct ins; try discriminate;
    try (inversion H; subst; split; [exact JJ|repeat split; auto; intros; congruence]; fail).
  - destruct (hook_call g) as [[v|] g2] eqn:HC; [discriminate|]. inversion H; subst.
    destruct (hook_call_J _ _ _ HC JJ) as (A & B & C & D & E). split; [exact A|repeat split; auto].
  - inversion H; subst. split; [exact JJ|repeat split; auto; intros; simpl in *; congruence].
  - destruct (fs_flags fs) eqn:FLG; [|discriminate]. inversion H; subst. split; [exact JJ|repeat split; auto; intros; simpl in *; congruence].
  - destruct (call_recover (rn g)) as [b r] eqn:CR. inversion H; subst.
    assert (AR : async r = async (rn g)).
    { unfold call_recover in CR. destruct (negb (ef_defer (rn g))); [inversion CR; auto|].
      destruct (panic_fun (rn g)); [|inversion CR; auto]. destruct (defer_of (rn g)); [|inversion CR; auto].
      destruct (n0 =? n); inversion CR; auto. }
    split; [unfold J in *; destruct b; simpl; rewrite AR; exact JJ|destruct b; simpl; rewrite AR; repeat split; auto; intros; simpl in *; congruence].
Qed.

Lemma exec_instr_panic_J fs ins g v g1 : exec_instr fs ins g = RPanic v g1 -> J g -> J g1.
Proof.
  intros H JJ. unfold exec_instr in H.
  destruct ins as [ins|]; [|discriminate].
  destruct ins; try discriminate.
  - destruct (hook_call g) as [[w|] g2] eqn:HC; [|discriminate]. inversion H; subst.
    apply (hook_call_J _ _ _ HC JJ).
  - destruct (fs_flags fs); discriminate.
  - destruct (call_recover (rn g)); discriminate.
  - inversion H; subst; auto.
Qed.

Lemma exec_instr_leave' fs ins g g1 : exec_instr fs ins g = RLeave g1 -> g1 = upd_run (set_sync SReturn) g.
Proof.
  unfold exec_instr. destruct ins as [ins|]; [|intros H; inversion H; reflexivity].
  destruct ins; try discriminate; try (intros H; inversion H; reflexivity).
  - destruct (hook_call g) as [[w|] g2]; discriminate.
  - destruct (fs_flags fs); discriminate.
  - destruct (call_recover (rn g)); discriminate.
Qed.

(* the loop invariant of a frame: while the flag is set, statements completed since + what the current block still
   allows never exceeds 14 (defer statements not counted) *)
Definition LI (fs : fstate) (g : glob) : Prop :=
  wf_phase (fs_ph fs) /\ (async (rn g) = true -> after_all g + budget (fs_ph fs) <= 14 + after_def g).

Lemma advance_defer_poll ph ph' c : wf_phase ph -> advance ph SkDefer = (ph', c) -> wf_phase ph' /\ (c = false -> budget ph' = 1).
Proof.
  intros W A. pose proof (wf_advance ph SkDefer W) as X. rewrite A in X. split; [exact X|].
  intros ->. apply (advance_defer_budget _ _ A).
Qed.

Lemma after_stmt_J a0 fs k fs1 ip i g :
  J g -> wf_phase (fs_ph fs) -> fs_ph fs1 = fs_ph fs -> fs_flags fs1 = fs_flags fs ->
  (a0 = true -> async (rn g) = true) ->
  (a0 = false -> async (rn g) = true -> after_all g = 0) ->
  (a0 = true -> after_all g + budget (fs_ph fs) <= 14 + after_def g) ->
  match after_stmt a0 fs k fs1 ip i g with
  | CGo fs' g' => J g' /\ LI fs' g' /\ fs_flags fs' = fs_flags fs
  | CIntrFlags fs2 g' => J g' /\ async (rn g') = false /\ fs_flags fs = true
  | CIntrPlain g' => J g' /\ async (rn g') = false
  end.
Proof.
  intros [J1 J2] W PH FL ST FR BU. unfold after_stmt. rewrite PH.
  pose proof (budget_pos _ W) as BP. pose proof (budget_le _ W) as BL.
  destruct (advance (fs_ph fs) k) as [ph poll] eqn:ADV.
  assert (Wph : wf_phase ph) by (pose proof (wf_advance (fs_ph fs) k W) as X; rewrite ADV in X; exact X).
  set (g1 := if a0 then bump_after (sk_is_defer k) g else g).
  assert (A1 : async (rn g1) = async (rn g)) by (unfold g1; destruct a0; reflexivity).
  assert (H1 : hooks g1 = hooks g /\ kk g1 = kk g) by (unfold g1; destruct a0; split; reflexivity).
  (* the counters of g1 *)
  assert (CNT : async (rn g) = true ->
            after_all g1 + (if poll then 0 else budget ph) <= 14 + after_def g1).
  { intros AT. unfold g1. destruct a0 eqn:A0.
    - specialize (BU eq_refl). simpl. destruct k.
      + simpl. destruct poll.
        * lia.
        * pose proof (advance_cont_budget _ _ W ADV). lia.
      + simpl. destruct poll; [lia|]. pose proof (advance_defer_budget _ _ ADV). lia.
    - specialize (FR eq_refl AT). destruct poll; [lia|].
      destruct k.
      + pose proof (advance_cont_budget _ _ W ADV). lia.
      + pose proof (advance_defer_budget _ _ ADV). lia. }
  assert (JG1 : J g1).
  { unfold J. destruct H1 as [HH HK]. rewrite HH, HK, A1. split.
    - destruct (async (rn g)) eqn:AT.
      + specialize (CNT eq_refl). lia.
      + unfold g1. destruct a0 eqn:A0; [specialize (ST eq_refl); congruence|exact J1].
    - intros L. destruct (J2 L) as [AF Z]. split; [exact AF|].
      unfold g1. destruct a0 eqn:A0; [specialize (ST eq_refl); congruence|exact Z]. }
  rewrite A1.
  destruct (poll && async (rn g)) eqn:PA.
  - apply andb_prop in PA. destruct PA as [-> AT].
    destruct (fs_flags fs) eqn:FLG.
    + destruct (intr_of (fs_ph fs)).
      * split; [apply J_clear_async; exact JG1|split; reflexivity].
      * split; [apply J_clear_async; apply (same_cnt_J g1); [apply upd_run_cnt; reflexivity|exact JG1]|split; reflexivity].
    + split; [apply J_clear_async; apply (same_cnt_J g1); [apply upd_run_cnt; reflexivity|exact JG1]|reflexivity].
  - split; [apply (same_cnt_J g1); [apply upd_run_cnt; reflexivity|exact JG1]|].
    split; [|simpl; exact FL].
    unfold LI. simpl. split; [exact Wph|]. rewrite A1. intros AT. specialize (CNT AT).
    destruct poll; [simpl in PA; congruence|exact CNT].
Qed.

Definition post2 (t : task) (g : glob) (o : outcome) (g' : glob) : Prop :=
  match t with
  | TCallF _ _ => o = ONormal -> (async (rn g) = true -> g' = g) /\ (async (rn g') = false \/ g' = g)
  | _ => o = ONormal -> async (rn g') = false
  end.

Lemma enter_frame_J c f env i0 g : J g ->
  match enter_frame c f env i0 g with
  | inl (o, g') => J g' /\ o <> ONormal /\ async (rn g) = true
  | inr (fs, g1) => J g1 /\ LI fs g1 /\ async (rn g) = false
  end.
Proof.
  intros JJ. unfold enter_frame. simpl.
  destruct (async (rn g)) eqn:A.
  - split; [apply J_clear_async; apply (same_cnt_J g); [apply upd_run_cnt; reflexivity|exact JJ]|split; [discriminate|reflexivity]].
  - destruct (with_defers c || ef_start (rn g) || ef_defer (rn g) || ef_debug (rn g)).
    + split; [apply (same_cnt_J g); [repeat split; simpl; auto|exact JJ]|]. split; [|reflexivity].
      unfold LI. simpl. split; [unfold PRO_LEN; lia|]. rewrite A. discriminate.
    + split; [apply (same_cnt_J g); [repeat split; simpl; auto|exact JJ]|]. split; [|reflexivity].
      unfold LI. simpl. split; [unfold PRO_LEN; lia|]. rewrite A. discriminate.
Qed.

Lemma do_restore_J fx fs gp g o g' : do_restore fx fs gp g = (o, g') -> J g -> J g' /\ (o = ONormal -> async (rn g') = false).
Proof.
  unfold do_restore. intros H JJ.
  assert (SC : same_cnt g (upd_run (restore_run fx fs) g)).
  { apply upd_run_cnt. unfold restore_run. destruct fx; simpl; [|reflexivity].
    destruct (panic_fun (rn g)) as [pf|]; simpl; [destruct (pf =? fs_env fs); reflexivity|reflexivity]. }
  pose proof (same_cnt_J _ _ SC JJ) as J1.
  destruct (async (rn (upd_run (restore_run fx fs) g))) eqn:A.
  - inversion H; subst. split; [apply J_clear_async; exact J1|discriminate].
  - destruct gp; inversion H; subst; (split; [exact J1|]); [discriminate|intros _; exact A].
Qed.

Lemma go_J : forall fuel P fx t g o g', go fuel P fx t g = (o, g') -> J g ->
  (forall fs, t = TLoop fs -> LI fs g) -> J g' /\ post2 t g o g'.
Proof.
  induction fuel as [|fuel IH]; intros P fx t g o g' H JJ LL.
  { simpl in H. inversion H; subst. split; [exact JJ|]. destruct t; simpl; discriminate. }
  destruct t as [f i0|f env i0|fs|fs ds pk pk2 gp]; [simpl in H|cbn [go] in H|cbn [go] in H|cbn [go] in H].
  - (* TCallF *)
    destruct (nth_error P f) as [[|x c]|] eqn:NE;
      try (inversion H; subst; split; [exact JJ|simpl; auto]).
    destruct (go fuel P fx (TEnter f (next_env g) i0) (upd_run (set_curr (Some (next_env g))) (bump_env g))) as [o1 g2] eqn:E.
    set (g1 := upd_run (set_curr (Some (next_env g))) (bump_env g)) in *.
    assert (J1 : J g1) by (apply (same_cnt_J g); [repeat split|exact JJ]).
    (* with the flag set the callee panics at its entry *)
    assert (ENT : async (rn g) = true -> o1 <> ONormal).
    { intros AT. destruct fuel as [|fuel']; [simpl in E; inversion E; discriminate|].
      cbn [go] in E. pose proof (enter_frame_J (nth f P []) f (next_env g) i0 g1 J1) as EF.
      destruct (enter_frame (nth f P []) f (next_env g) i0 g1) as [[oo gg]|[fs gg]].
      - inversion E; subst. apply EF.
      - destruct EF as (_ & _ & AF). unfold g1 in AF. simpl in AF. congruence. }
    destruct (IH _ _ _ _ _ _ E J1) as [J2 P2]; [intros; discriminate|]. simpl in P2.
    destruct o1; inversion H; subst.
    + split; [apply (same_cnt_J g2); [apply upd_run_cnt; reflexivity|exact J2]|].
      simpl. intros _. split; [intros AT; exfalso; apply (ENT AT); reflexivity|left; simpl; apply P2; reflexivity].
    + split; [exact J2|simpl; discriminate].
    + split; [exact J2|simpl; discriminate].
  - (* TEnter *)
    pose proof (enter_frame_J (nth f P []) f env i0 g JJ) as EF.
    destruct (enter_frame (nth f P []) f env i0 g) as [[oo gg]|[fs g1]].
    + inversion H; subst. split; [apply EF|]. simpl. intros ->. destruct EF as (_ & N & _). congruence.
    + destruct EF as (J1 & L1 & _).
      destruct (IH _ _ _ _ _ _ H J1) as [J2 P2]; [intros fs' EQ; inversion EQ; subst; exact L1|].
      split; [exact J2|exact P2].
  - (* TLoop *)
    destruct (LL fs eq_refl) as [W BU].
    set (ins := nth_error (nth (fs_fn fs) P []) (fs_ip fs)) in *.
    pose proof (budget_pos _ W) as BP.
    assert (CONT : forall c,
              match c with
              | CGo fs' g' => J g' /\ LI fs' g' /\ fs_flags fs' = fs_flags fs
              | CIntrFlags fs2 g' => J g' /\ async (rn g') = false /\ fs_flags fs = true
              | CIntrPlain g' => J g' /\ async (rn g') = false
              end ->
              match c with
              | CGo fs' g' => go fuel P fx (TLoop fs') g'
              | CIntrFlags fs2 g' => go fuel P fx (TDefers fs2 (fs_defers fs2) true false (Some PV_INTERRUPT)) g'
              | CIntrPlain g' => (OPanic PV_INTERRUPT, g')
              end = (o, g') -> J g' /\ post2 (TLoop fs) g o g').
    { intros c HC HH. destruct c as [fs' g2|fs2 g2|g2].
      - destruct HC as (J2 & L2 & _). destruct (IH _ _ _ _ _ _ HH J2) as [J3 P3]; [intros fs'' EQ; inversion EQ; subst; exact L2|].
        split; [exact J3|exact P3].
      - destruct HC as (J2 & _). destruct (IH _ _ _ _ _ _ HH J2) as [J3 P3]; [intros; discriminate|]. split; [exact J3|exact P3].
      - inversion HH; subst. split; [apply HC|simpl; discriminate]. }
    assert (PANIC : forall v g1, J g1 ->
              (if fs_flags fs then go fuel P fx (TDefers fs (fs_defers fs) true false (Some v)) g1 else (OPanic v, g1)) = (o, g') ->
              J g' /\ post2 (TLoop fs) g o g').
    { intros v g1 J1 HH. destruct (fs_flags fs).
      - destruct (IH _ _ _ _ _ _ HH J1) as [J3 P3]; [intros; discriminate|]. split; [exact J3|exact P3].
      - inversion HH; subst. split; [exact J1|simpl; discriminate]. }
    destruct (exec_instr fs ins g) as [k fs1 ip i g1|v g1|f i0|g0|] eqn:EX.
    + destruct (exec_instr_cont_J _ _ _ _ _ _ _ _ EX JJ) as (J1 & AA & AD & PH & FL & ST & FR).
      apply (CONT (after_stmt (async (rn g)) fs k fs1 ip i g1)); [|exact H].
      apply after_stmt_J; auto.
      intros AT. rewrite AA, AD. apply BU. exact AT.
    + apply (PANIC v g1); [apply (exec_instr_panic_J _ _ _ _ _ EX JJ)|exact H].
    + destruct (go fuel P fx (TCallF f i0) g) as [o1 g1] eqn:E.
      destruct (IH _ _ _ _ _ _ E JJ) as [J1 P1]; [intros; discriminate|]. simpl in P1.
      destruct o1.
      * destruct (P1 eq_refl) as [PA PB].
        apply (CONT (after_stmt (async (rn g)) fs SkCont fs (S (fs_ip fs)) (fs_i fs) g1)); [|exact H].
        apply after_stmt_J; auto.
        -- intros AT. rewrite (PA AT). exact AT.
        -- intros AF AT. destruct PB as [PB|PB]; [congruence|]. rewrite PB in AT. congruence.
        -- intros AT. rewrite (PA AT). apply BU. exact AT.
      * apply (PANIC v g1 J1 H).
      * inversion H; subst. split; [exact J1|simpl; discriminate].
    + pose proof (exec_instr_leave' _ _ _ _ EX) as ->.
      set (gl := count_ret (async (rn g)) ins (upd_run (set_sync SReturn) g)) in *.
      assert (JL : J gl /\ async (rn gl) = async (rn g)).
      { unfold gl, count_ret. destruct ins as [[]|]; try (split; [apply (same_cnt_J g); [apply upd_run_cnt; reflexivity|exact JJ]|reflexivity]).
        destruct (async (rn g)) eqn:AT; [|split; [apply (same_cnt_J g); [apply upd_run_cnt; reflexivity|exact JJ]|simpl; exact AT]].
        specialize (BU eq_refl). split; [|simpl; exact AT]. destruct JJ as [J1 J2]. unfold J. simpl. split; [lia|].
        intros L. destruct (J2 L). congruence. }
      destruct JL as [JL AL]. clearbody gl.
      destruct (fs_flags fs).
      * destruct (async (rn gl)) eqn:AG.
        -- destruct (IH _ _ _ _ _ _ H (J_clear_async _ JL)) as [J3 P3]; [intros; discriminate|]. split; [exact J3|exact P3].
        -- destruct (IH _ _ _ _ _ _ H JL) as [J3 P3]; [intros; discriminate|]. split; [exact J3|exact P3].
      * unfold leave_plain in H.
        assert (J2 : J (upd_run (set_intr (fs_sv_intr fs)) gl)) by (apply (same_cnt_J gl); [apply upd_run_cnt; reflexivity|exact JL]).
        simpl in H. destruct (async (rn gl)) eqn:AG.
        -- inversion H; subst. split; [apply J_clear_async; exact J2|simpl; discriminate].
        -- inversion H; subst. split; [apply (same_cnt_J gl); [repeat split; simpl; auto|exact JL]|simpl; intros _; exact AG].
    + inversion H; subst. split; [exact JJ|simpl; discriminate].
  - (* TDefers *)
    destruct ds as [|d ds'].
    + destruct (do_restore_J _ _ _ _ _ _ H JJ) as [J1 P1]. split; [exact J1|exact P1].
    + destruct (rundefer_pre fs pk pk2 gp g) as [pk1 g2] eqn:RP.
      assert (J2 : J g2).
      { unfold rundefer_pre in RP. inversion RP; subst. apply (same_cnt_J g); [|exact JJ].
        destruct pk, pk2; repeat split; simpl; auto. }
      destruct (match d with
                | DIHook => match hook_call g2 with (Some v, g'0) => (OPanic v, g'0) | (None, g'0) => (ONormal, g'0) end
                | DIFun f i0 => go fuel P fx (TCallF f i0) g2
                end) as [o3 g3] eqn:EF.
      assert (J3 : J g3).
      { destruct d as [|f i0].
        - destruct (hook_call g2) as [[v|] gh] eqn:HC; inversion EF; subst; apply (hook_call_J _ _ _ HC J2).
        - destruct (IH _ _ _ _ _ _ EF J2) as [X _]; [intros; discriminate|exact X]. }
      set (g4 := upd_run (fun r => let r1 := pop_defer (defer_of (rn g)) (ef_defer (rn g)) r in
                                  if fx then set_panicv (panicv (rn g)) (set_panic_fun (panic_fun (rn g)) r1) else r1) g3) in *.
      assert (J4 : J g4) by (apply (same_cnt_J g3); [apply upd_run_cnt; destruct fx; reflexivity|exact J3]).
      assert (REST : forall pk' pk2' gp', go fuel P fx (TDefers fs ds' pk' pk2' gp') g4 = (o, g') ->
                J g' /\ post2 (TDefers fs (d :: ds') pk pk2 gp) g o g').
      { intros pk' pk2' gp' HH. destruct (IH _ _ _ _ _ _ HH J4) as [J5 P5]; [intros; discriminate|]. split; [exact J5|exact P5]. }
      destruct o3.
      * destruct pk1; [destruct (panic_fun (rn g3))|]; eapply REST; exact H.
      * eapply REST; exact H.
      * inversion H; subst. split; [exact J3|simpl; discriminate].
Qed.

(* the whole evaluation, from a fresh interpreter whose hook delivers the interrupt at its k-th call *)
Lemma eval_bound : forall fuel P fx fm k o g', eval fuel P fx fm (glob0 k FInterrupt) = (o, g') ->
  after_all g' <= 14 + after_def g' /\ (o = ONormal -> async (rn g') = false).
Proof.
  intros fuel P fx fm k o g' H. unfold eval in H.
  set (g2 := upd_run (set_curr (Some 0)) (upd_run (fun r => set_dbgsig false (set_ef_debug false (set_debug_depth 0 (set_async false (set_sync SNone r))))) (glob0 k FInterrupt))) in *.
  assert (J2 : J g2) by (unfold J, g2; simpl; split; [lia|auto]).
  assert (A2 : async (rn g2) = false) by reflexivity.
  destruct fm as [f i0|f].
  - destruct (go fuel P fx (TCallF f i0) g2) as [o3 g3] eqn:E. inversion H; subst.
    destruct (go_J _ _ _ _ _ _ _ E J2) as [[J3 _] P3]; [intros; discriminate|]. simpl in *.
    split; [exact J3|]. intros ->. destruct (P3 eq_refl) as [_ [X|X]]; [exact X|rewrite X; exact A2].
  - destruct (nth f P []) eqn:NE.
    + inversion H; subst. simpl. split; [lia|reflexivity].
    + destruct (go fuel P fx (TEnter f 0 0) g2) as [o3 g3] eqn:E. inversion H; subst.
      destruct (go_J _ _ _ _ _ _ _ E J2) as [[J3 _] P3]; [intros; discriminate|]. simpl in *.
      split; [exact J3|exact P3].
Qed.

(* definitions are kept: the executor (loop, unwinding, restore, RunExpr exit) never touches the interpreted global
   except by executing an `x++` statement, and the program is not part of the mutable state at all *)
Lemma hook_call_x g ov g1 : hook_call g = (ov, g1) -> gx g1 = gx g /\ gincs g1 = gincs g.
Proof. unfold hook_call. intros H. destruct (S (hooks g) =? kk g); [destruct (flt g)|]; inversion H; subst; auto. Qed.

Definition K (g g' : glob) : Prop := gx g' + gincs g = gx g + gincs g'.
Lemma K_refl g : K g g. Proof. unfold K; lia. Qed.
Lemma K_trans a b c : K a b -> K b c -> K a c. Proof. unfold K; lia. Qed.
Lemma K_upd f g : K g (upd_run f g). Proof. unfold K; simpl; lia. Qed.
Lemma K_hook g ov g1 : hook_call g = (ov, g1) -> K g g1.
Proof. intros H. destruct (hook_call_x _ _ _ H). unfold K; lia. Qed.

Lemma exec_instr_K fs ins g : match exec_instr fs ins g with
  | RCont _ _ _ _ g1 => K g g1 | RPanic _ g1 => K g g1 | RLeave g1 => K g g1 | _ => True end.
Proof.
  unfold exec_instr. destruct ins as [ins|]; [|apply K_upd].
  destruct ins; try apply K_refl; try apply K_upd; auto.
  - destruct (hook_call g) as [[v|] g1] eqn:HC; apply (K_hook _ _ _ HC).
  - unfold K; simpl; lia.
  - destruct (fs_flags fs); [apply K_upd|exact I].
  - destruct (call_recover (rn g)) as [b r]. destruct b; unfold K; simpl; lia.
Qed.

Lemma after_stmt_K a0 fs k fs1 ip i g : match after_stmt a0 fs k fs1 ip i g with
  | CGo _ g' => K g g' | CIntrFlags _ g' => K g g' | CIntrPlain g' => K g g' end.
Proof.
  unfold after_stmt. destruct (advance (fs_ph fs1) k) as [ph poll].
  destruct (poll && async (rn (if a0 then bump_after (sk_is_defer k) g else g))).
  - destruct (fs_flags fs); [destruct (intr_of (fs_ph fs))|]; destruct a0; unfold K; simpl; lia.
  - destruct a0; unfold K; simpl; lia.
Qed.

Lemma go_K : forall fuel P fx t g o g', go fuel P fx t g = (o, g') -> K g g'.
Proof.
  induction fuel as [|fuel IH]; intros P fx t g o g' H; [simpl in H; inversion H; apply K_refl|].
  destruct t as [f i0|f env i0|fs|fs ds pk pk2 gp]; cbn [go] in H.
  - destruct (nth_error P f) as [[|x c]|]; try (inversion H; apply K_refl).
    destruct (go fuel P fx (TEnter f (next_env g) i0) (upd_run (set_curr (Some (next_env g))) (bump_env g))) as [o1 g2] eqn:E.
    apply IH in E. destruct o1; inversion H; subst; unfold K in *; simpl in *; lia.
  - unfold enter_frame in H. simpl in H.
    destruct (async (rn g)).
    + inversion H; subst. unfold K; simpl; lia.
    + destruct (with_defers (nth f P []) || ef_start (rn g) || ef_defer (rn g) || ef_debug (rn g)); apply IH in H; unfold K in *; simpl in *; lia.
  - set (ins := nth_error (nth (fs_fn fs) P []) (fs_ip fs)) in *.
    assert (CONT : forall c g1, K g g1 -> match c with CGo _ g' => K g1 g' | CIntrFlags _ g' => K g1 g' | CIntrPlain g' => K g1 g' end ->
              match c with
              | CGo fs' g' => go fuel P fx (TLoop fs') g'
              | CIntrFlags fs2 g' => go fuel P fx (TDefers fs2 (fs_defers fs2) true false (Some PV_INTERRUPT)) g'
              | CIntrPlain g' => (OPanic PV_INTERRUPT, g')
              end = (o, g') -> K g g').
    { intros c g1 K1 K2 HH. destruct c; [apply IH in HH|apply IH in HH|inversion HH; subst]; eauto using K_trans. }
    assert (PANIC : forall v g1, K g g1 ->
              (if fs_flags fs then go fuel P fx (TDefers fs (fs_defers fs) true false (Some v)) g1 else (OPanic v, g1)) = (o, g') -> K g g').
    { intros v g1 K1 HH. destruct (fs_flags fs); [apply IH in HH; eauto using K_trans|inversion HH; subst; exact K1]. }
    pose proof (exec_instr_K fs ins g) as EK.
    destruct (exec_instr fs ins g) as [k fs1 ip i g1|v g1|f i0|g0|].
    + apply (CONT (after_stmt (async (rn g)) fs k fs1 ip i g1) g1 EK); [apply after_stmt_K|exact H].
    + apply (PANIC v g1 EK H).
    + destruct (go fuel P fx (TCallF f i0) g) as [o1 g1] eqn:E. apply IH in E.
      destruct o1.
      * apply (CONT (after_stmt (async (rn g)) fs SkCont fs (S (fs_ip fs)) (fs_i fs) g1) g1 E); [apply after_stmt_K|exact H].
      * apply (PANIC v g1 E H).
      * inversion H; subst; exact E.
    + assert (KL : K g (count_ret (async (rn g)) ins g0)).
      { unfold count_ret. destruct ins as [[]|]; auto. destruct (async (rn g)); auto; unfold K in *; simpl; lia. }
      destruct (fs_flags fs).
      * destruct (async (rn (count_ret (async (rn g)) ins g0))); apply IH in H; eapply K_trans; eauto; unfold K in *; simpl in *; lia.
      * unfold leave_plain in H. simpl in H. destruct (async (rn (count_ret (async (rn g)) ins g0))); inversion H; subst; unfold K in *; simpl in *; lia.
    + inversion H; apply K_refl.
  - destruct ds as [|d ds'].
    + unfold do_restore in H. destruct (async (rn (upd_run (restore_run fx fs) g))); [|destruct gp]; inversion H; subst; unfold K; simpl; lia.
    + destruct (rundefer_pre fs pk pk2 gp g) as [pk1 g2] eqn:RP.
      assert (K2 : K g g2) by (unfold rundefer_pre in RP; inversion RP; subst; destruct (pk || pk2); unfold K; simpl; lia).
      destruct (match d with
                | DIHook => match hook_call g2 with (Some v, g'0) => (OPanic v, g'0) | (None, g'0) => (ONormal, g'0) end
                | DIFun f i0 => go fuel P fx (TCallF f i0) g2
                end) as [o3 g3] eqn:EF.
      assert (K3 : K g2 g3).
      { destruct d as [|f i0]; [|apply IH in EF; exact EF].
        destruct (hook_call g2) as [[v|] gh] eqn:HC; inversion EF; subst; apply (K_hook _ _ _ HC). }
      assert (K4 : K g (upd_run (pop_defer (defer_of (rn g)) (ef_defer (rn g))) g3)) by (unfold K in *; simpl; lia).
      destruct o3.
      * destruct pk1; [destruct (panic_fun (rn g3))|]; apply IH in H; eapply K_trans; eauto.
      * apply IH in H; eapply K_trans; eauto.
      * inversion H; subst. eapply K_trans; [exact K2|exact K3].
Qed.

Lemma eval_keeps_definitions : forall fuel P fx fm g o g', eval fuel P fx fm g = (o, g') -> gx g' + gincs g = gx g + gincs g'.
Proof.
  intros fuel P fx fm g o g' H. unfold eval in H.
  destruct fm as [f i0|f].
  - match type of H with (let '(_, _) := ?X in _) = _ => destruct X as [o3 g3] eqn:E end.
    apply go_K in E. inversion H; subst. unfold K in *; simpl in *; lia.
  - destruct (nth f P []).
    + inversion H; subst. simpl; lia.
    + match type of H with (let '(_, _) := ?X in _) = _ => destruct X as [o3 g3] eqn:E end.
      apply go_K in E. inversion H; subst. unfold K in *; simpl in *; lia.
Qed.

(* C13 (and C12) -- executable model of gomacro's statement executor:
     fast/code.go   exec, execWithFlags, reExecWithFlags, spinInterrupt, applyAsyncSignal, restore,
                    pushDefer, popDefer, rundefer (with its deferred restorePanic, fix C07-1), maybeRepanic, Run.interrupt
     fast/repl.go   Interp.RunExpr (applyDebugOp(DebugOpContinue), deferred setCurrEnv), prepareEnv (signals cleared)
     fast/compile.go newEnv4Func / freeEnv4Func (Run.CurrEnv), fast/builtin.go callRecover,
     fast/statement.go Defer (SigDefer), stmtReturn (SigReturn), fast/func0ret0.go (nop function, call wrapper).
   Definitions only (no proofs).

   Part 1: the polling structure (how many statements run between two looks at Run.Signals).
   Part 2: a small flat-code machine whose frames run under exactly that structure and which carries the
           Run record (ExecFlags, CurrEnv, Interrupt, Signals, DeferOfFun, PanicFun, Panic, DebugDepth).
   Part 3: correspondence cases for the C13 harness. (The C12 cases are in C12/Model.v.) *)
From Coq Require Import List Arith Bool ZArith.
Import ListNotations.

(* ====================================================================================== *)
(* Part 1: polling structure                                                               *)
(* ====================================================================================== *)

(* exec / reExecWithFlags: `for j := 0; j < 5; j++ { 14 nested stmt calls; if Signals.IsEmpty() continue ... }`
   then `run.Interrupt = spinInterrupt; for { 15 stmt calls; if !Signals.IsEmpty() break }`.
   PPro j p  : prologue round j (0..4), p of its 14 slots used.   Run.Interrupt = nil
   PSteady p : steady loop, p of the 15 slots of the current block used.   Run.Interrupt = spinInterrupt
   PSingle   : reExecWithFlags, steady loop, inside `for run.Signals.Sync == SigDefer { ...; stmt, env = stmt(env) }`:
               the next statement is single-stepped outside any block. *)
Inductive phase := PPro (j p : nat) | PSteady (p : nat) | PSingle.

Definition PRO_ROUNDS := 5.
Definition PRO_LEN := 14.
Definition STEADY_LEN := 15.

Definition ph0 : phase := PPro 0 0.

(* prologue round j has ended with empty Signals: `continue` *)
Definition next_round (j : nat) : phase :=
  if S j <? PRO_ROUNDS then PPro (S j) 0 else PSteady 0.

(* what the loop sees of a statement that does not end the frame *)
Inductive skind := SkCont (* returns the next statement *) | SkDefer (* sets Sync = SigDefer, returns Run.Interrupt *).

(* advance ph k = (phase in which the next statement runs, are the Signals polled before it?) *)
Definition advance (ph : phase) (k : skind) : phase * bool :=
  match k, ph with
  | SkCont, PPro j p => if S p <? PRO_LEN then (PPro j (S p), false) else (next_round j, true)
  | SkCont, PSteady p => if S p <? STEADY_LEN then (PSteady (S p), false) else (PSteady 0, true)
  | SkCont, PSingle => (PSteady 0, true)
  (* prologue: Run.Interrupt = nil ends the nest; defer installed; `if !run.Signals.IsEmpty() goto signal; continue` *)
  | SkDefer, PPro j _ => (next_round j, true)
  (* steady: the rest of the block runs spinInterrupt (which polls Async) - unless the defer was the 15th slot -
     then the defer is installed and ONE statement is single-stepped before the Signals are looked at *)
  | SkDefer, PSteady p => (PSingle, S p <? STEADY_LEN)
  | SkDefer, PSingle => (PSingle, false)
  end.

(* number of further non-defer statements that can complete before the next poll *)
Definition budget (ph : phase) : nat :=
  match ph with PPro _ p => PRO_LEN - p | PSteady p => STEADY_LEN - p | PSingle => 1 end.

(* Run.Interrupt while the frame is in phase ph (false = nil, true = spinInterrupt) *)
Definition intr_of (ph : phase) : bool := match ph with PPro _ _ => false | _ => true end.

(* phase after s statements of a frame that executed no defer statement so far *)
Fixpoint phase_after (s : nat) : phase :=
  match s with O => ph0 | S s' => fst (advance (phase_after s') SkCont) end.

(* CLOSED FORM.  The async flag is set while the t-th statement (t >= 1) of a frame runs, no defer statement
   among its first t statements: number of further statements of that frame before Signals are polled. *)
Definition remaining (t : nat) : nat :=
  if t <=? PRO_ROUNDS * PRO_LEN
  then (if t mod PRO_LEN =? 0 then 0 else PRO_LEN - t mod PRO_LEN)
  else (let u := (t - PRO_ROUNDS * PRO_LEN) mod STEADY_LEN in if u =? 0 then 0 else STEADY_LEN - u).

(* the same number computed by walking the loop structure *)
Definition slack_of (ph : phase) (polled : bool) : nat := if polled then 0 else budget ph.
Definition remaining_walk (t : nat) : nat :=
  match t with O => 0 | S t' => let '(ph, c) := advance (phase_after t') SkCont in slack_of ph c end.

(* Abstract single frame: the kind of its i-th executed statement (i = 1, 2, ...) *)
Inductive kind := KPlain | KCall | KDefer | KRet.
Definition frame := nat -> kind.

(* statements of the frame that complete after statement number t (during which Async was set), before
   panic(SigInterrupt) is raised: walk the frame from phase ph (the phase in which statement t+1 would run).
   n = statements completed so far. A call of an interpreted function panics at the callee's entry
   (exec: `if sig := run.Signals.Async; sig != SigNone { run.applyAsyncSignal(sig) }`), return polls at finish/signal. *)
Fixpoint after_flag (fuel : nat) (fr : frame) (t : nat) (ph : phase) (n : nat) : option nat :=
  match fuel with
  | O => None
  | S fuel' =>
      match fr (S t) with
      | KCall => Some n
      | KRet => Some (S n)    (* the return statement itself completes; then finish:/signal: polls *)
      | KPlain => let '(ph', c) := advance ph SkCont in if c then Some (S n) else after_flag fuel' fr (S t) ph' (S n)
      | KDefer => let '(ph', c) := advance ph SkDefer in if c then Some (S n) else after_flag fuel' fr (S t) ph' (S n)
      end
  end.

(* ====================================================================================== *)
(* Part 2: flat-code machine                                                               *)
(* ====================================================================================== *)

Inductive arg := ASame | ADec | AInc | AConst (n : nat).
Inductive dtarget := DHook | DFun (f : nat) (a : arg).

(* one slot of Env.Code *)
Inductive instr :=
| IHook                          (* hook()        compiled function registered with DeclFunc *)
| IInc                           (* n++           frame-local counter (the function's parameter n) *)
| ISet (n : nat)                 (* n = c *)
| IGInc                          (* x++           interpreted global variable *)
| IPlain                         (* any other statement that falls through (pushEnv-less) *)
| IJmp (t : nat)
| IIfMod (m r t : nat)           (* if i % m == r fall through else goto t *)
| IIfLt (n t : nat)              (* if i < n fall through else goto t *)
| IIfPos (t : nat)               (* if i > 0 fall through else goto t *)
| ICall (f : nat) (a : arg)      (* f(arg) : interpreted function *)
| IDefer (d : dtarget)           (* defer hook() / defer f(arg) / defer func(){...}() *)
| IRecover                       (* note(recover() != nil) : note is a compiled function counting its true arguments *)
| IPanic                         (* panic("interpreted") *)
| IRet.

Definition code := list instr.
Definition prog := list code.      (* function number f -> body *)

Definition is_defer (x : instr) : bool := match x with IDefer _ => true | _ => false end.
Definition with_defers (c : code) : bool := existsb is_defer c.   (* Code.WithDefers *)

Inductive sig := SNone | SDefer | SReturn.

(* fast/global.go Run (fields relevant here); pointers to Env are frame identities (0 = the top-level Env) *)
Record run := mkRun {
  ef_start : bool; ef_defer : bool; ef_debug : bool;    (* ExecFlags: EFStartDefer, EFDefer, EFDebug *)
  curr : option nat;                                     (* CurrEnv *)
  intr : bool;                                           (* Interrupt: false = nil, true = spinInterrupt *)
  sync : sig; dbgsig : bool; async : bool;               (* Signals.Sync / Debug / Async(SigInterrupt) *)
  defer_of : option nat; panic_fun : option nat;         (* DeferOfFun, PanicFun *)
  panicv : option nat;                                   (* Panic *)
  debug_depth : nat }.

Definition set_ef_start b r := mkRun b (ef_defer r) (ef_debug r) (curr r) (intr r) (sync r) (dbgsig r) (async r) (defer_of r) (panic_fun r) (panicv r) (debug_depth r).
Definition set_ef_defer b r := mkRun (ef_start r) b (ef_debug r) (curr r) (intr r) (sync r) (dbgsig r) (async r) (defer_of r) (panic_fun r) (panicv r) (debug_depth r).
Definition set_ef_debug b r := mkRun (ef_start r) (ef_defer r) b (curr r) (intr r) (sync r) (dbgsig r) (async r) (defer_of r) (panic_fun r) (panicv r) (debug_depth r).
Definition set_curr c r := mkRun (ef_start r) (ef_defer r) (ef_debug r) c (intr r) (sync r) (dbgsig r) (async r) (defer_of r) (panic_fun r) (panicv r) (debug_depth r).
Definition set_intr b r := mkRun (ef_start r) (ef_defer r) (ef_debug r) (curr r) b (sync r) (dbgsig r) (async r) (defer_of r) (panic_fun r) (panicv r) (debug_depth r).
Definition set_sync s r := mkRun (ef_start r) (ef_defer r) (ef_debug r) (curr r) (intr r) s (dbgsig r) (async r) (defer_of r) (panic_fun r) (panicv r) (debug_depth r).
Definition set_dbgsig b r := mkRun (ef_start r) (ef_defer r) (ef_debug r) (curr r) (intr r) (sync r) b (async r) (defer_of r) (panic_fun r) (panicv r) (debug_depth r).
Definition set_async b r := mkRun (ef_start r) (ef_defer r) (ef_debug r) (curr r) (intr r) (sync r) (dbgsig r) b (defer_of r) (panic_fun r) (panicv r) (debug_depth r).
Definition set_defer_of d r := mkRun (ef_start r) (ef_defer r) (ef_debug r) (curr r) (intr r) (sync r) (dbgsig r) (async r) d (panic_fun r) (panicv r) (debug_depth r).
Definition set_panic_fun p r := mkRun (ef_start r) (ef_defer r) (ef_debug r) (curr r) (intr r) (sync r) (dbgsig r) (async r) (defer_of r) p (panicv r) (debug_depth r).
Definition set_panicv p r := mkRun (ef_start r) (ef_defer r) (ef_debug r) (curr r) (intr r) (sync r) (dbgsig r) (async r) (defer_of r) (panic_fun r) p (debug_depth r).
Definition set_debug_depth n r := mkRun (ef_start r) (ef_defer r) (ef_debug r) (curr r) (intr r) (sync r) (dbgsig r) (async r) (defer_of r) (panic_fun r) (panicv r) n.

(* a fresh interpreter's Run *)
Definition run0 : run := mkRun false false false None false SNone false false None None None 0.

(* what the compiled hook does at its k-th call *)
Inductive fault := FNone | FInterrupt (* ir.Interrupt(sig) *) | FPanic (* panic("hook") *).

(* panic values *)
Definition PV_HOOK := 1.
Definition PV_INTERP := 2.
Definition PV_INTERRUPT := 3.   (* base.SigInterrupt *)

Record glob := mkGlob {
  hooks : nat;            (* calls of hook() so far *)
  kk : nat; flt : fault;  (* the kk-th call delivers flt *)
  later : nat;            (* calls of hook() after the kk-th *)
  after_all : nat;        (* statements started and completed while Async was set *)
  after_def : nat;        (* ... of which defer statements *)
  raised : bool;          (* applyAsyncSignal executed panic(SigInterrupt) *)
  gx : nat;               (* the interpreted global x *)
  gincs : nat;            (* executed x++ statements *)
  next_env : nat;         (* next fresh Env identity *)
  recs : nat;             (* calls of recover() that returned a non-nil value *)
  rn : run }.

Definition upd_run (f : run -> run) (g : glob) : glob :=
  mkGlob (hooks g) (kk g) (flt g) (later g) (after_all g) (after_def g) (raised g) (gx g) (gincs g) (next_env g) (recs g) (f (rn g)).
Definition set_raised (g : glob) : glob :=
  mkGlob (hooks g) (kk g) (flt g) (later g) (after_all g) (after_def g) true (gx g) (gincs g) (next_env g) (recs g) (rn g).
Definition bump_env (g : glob) : glob :=
  mkGlob (hooks g) (kk g) (flt g) (later g) (after_all g) (after_def g) (raised g) (gx g) (gincs g) (S (next_env g)) (recs g) (rn g).
Definition bump_recs (g : glob) : glob :=
  mkGlob (hooks g) (kk g) (flt g) (later g) (after_all g) (after_def g) (raised g) (gx g) (gincs g) (next_env g) (S (recs g)) (rn g).
Definition bump_x (g : glob) : glob :=
  mkGlob (hooks g) (kk g) (flt g) (later g) (after_all g) (after_def g) (raised g) (S (gx g)) (S (gincs g)) (next_env g) (recs g) (rn g).
Definition bump_after (d : bool) (g : glob) : glob :=
  mkGlob (hooks g) (kk g) (flt g) (later g) (S (after_all g)) (if d then S (after_def g) else after_def g) (raised g) (gx g) (gincs g) (next_env g) (recs g) (rn g).
Definition set_hooks (h l : nat) (g : glob) : glob :=
  mkGlob h (kk g) (flt g) l (after_all g) (after_def g) (raised g) (gx g) (gincs g) (next_env g) (recs g) (rn g).

(* the compiled hook: returns Some v when it panics *)
Definition hook_call (g : glob) : option nat * glob :=
  let h := S (hooks g) in
  let g1 := set_hooks h (if kk g <? h then S (later g) else later g) g in
  if h =? kk g then
    match flt g with
    | FNone => (None, g1)
    | FInterrupt => (None, upd_run (set_async true) g1)      (* Run.interrupt: Signals.Async = SigInterrupt *)
    | FPanic => (Some PV_HOOK, g1)
    end
  else (None, g1).

(* Run.applyAsyncSignal(SigInterrupt): Signals.Async = SigNone; panic(SigInterrupt) *)
Definition apply_async (g : glob) : glob := set_raised (upd_run (set_async false) g).

Definition apply_arg (a : arg) (i : nat) : nat :=
  match a with ASame => i | ADec => pred i | AInc => S i | AConst n => n end.

Inductive dinst := DIHook | DIFun (f : nat) (i0 : nat).     (* Run.InstallDefer closure with evaluated arguments *)

Record fstate := mkFs {
  fs_fn : nat; fs_env : nat; fs_ip : nat; fs_i : nat; fs_ph : phase;
  fs_flags : bool;                   (* false: exec   true: reExecWithFlags *)
  fs_defers : list dinst;            (* Go defer stack of this reExecWithFlags activation (head = last installed) *)
  fs_sv_isdefer : bool; fs_sv_intr : bool; fs_sv_curr : option nat   (* captured by `defer restore(...)` / saveInterrupt *)
}.
Definition fs_step (fs : fstate) (ip i : nat) (ph : phase) : fstate :=
  mkFs (fs_fn fs) (fs_env fs) ip i ph (fs_flags fs) (fs_defers fs) (fs_sv_isdefer fs) (fs_sv_intr fs) (fs_sv_curr fs).
Definition fs_push (fs : fstate) (d : dinst) : fstate :=
  mkFs (fs_fn fs) (fs_env fs) (fs_ip fs) (fs_i fs) (fs_ph fs) (fs_flags fs) (d :: fs_defers fs) (fs_sv_isdefer fs) (fs_sv_intr fs) (fs_sv_curr fs).

Inductive outcome := ONormal | OPanic (v : nat) | OFuel.

Inductive task :=
| TCallF (f : nat) (i0 : nat)                   (* call wrapper: newEnv4Func; funcbody(env); freeEnv4Func *)
| TEnter (f : nat) (env : nat) (i0 : nat)       (* the closure returned by exec / execWithFlags *)
| TLoop (fs : fstate)                           (* the statement loop, next statement at fs_ip *)
| TDefers (fs : fstate) (ds : list dinst) (pk pk2 : bool) (gp : option nat).
    (* reExecWithFlags is being left: Go runs the deferred rundefer(fun)s, then restore.
       pk/pk2 = its locals panicking/panicking2, gp = Go panic in flight *)

(* callRecover *)
Definition call_recover (r : run) : bool * run :=
  if negb (ef_defer r) then (false, r)
  else match panic_fun r with
       | None => (false, r)
       | Some pf =>
           match defer_of r with
           | Some d => if d =? pf then (true, set_panic_fun None (set_panicv None r)) else (false, r)
           | None => (false, r)
           end
       end.

(* popDefer(run, deferOf, isDefer) *)
Definition pop_defer (saved_dof : option nat) (saved_isdefer : bool) (r : run) : run :=
  set_ef_defer saved_isdefer (set_ef_start false (set_defer_of saved_dof r)).

(* restore(run, funenv, isDefer, interrupt, caller) without its final applyAsyncSignal.
   fx = true: the code as it is now, with the fixes C12-1 (restore forgets the panic of the exiting function) and C07-1
   (rundefer reinstates Run.Panic / Run.PanicFun on exit: deferred restorePanic); fx = false: the code before both fixes
   (only used for the refutation witnesses) *)
Definition restore_run (fx : bool) (fs : fstate) (r : run) : run :=
  let r1 := set_sync SNone (set_curr (fs_sv_curr fs) (set_intr (fs_sv_intr fs) (set_ef_defer (fs_sv_isdefer fs) r))) in
  if fx then
    match panic_fun r1 with
    | Some pf => if pf =? fs_env fs then set_panicv None (set_panic_fun None r1) else r1
    | None => r1
    end
  else r1.

Definition sk_is_defer (k : skind) : bool := match k with SkDefer => true | SkCont => false end.

(* ---- one statement, without the recursion into callees ---- *)
Inductive sres :=
| RCont (k : skind) (fs1 : fstate) (ip i : nat) (g : glob)    (* completed; the frame goes on at ip with counter i *)
| RPanic (v : nat) (g : glob)                                 (* the statement panicked *)
| RCall (f i0 : nat)                                          (* call of an interpreted function, then RCont at ip+1 *)
| RLeave (g : glob)                                           (* return statement / end of code *)
| RStuck.                                                     (* defer statement outside execWithFlags: unreachable *)

Definition exec_instr (fs : fstate) (ins : option instr) (g : glob) : sres :=
  let ip := fs_ip fs in
  let i := fs_i fs in
  match ins with
  | None => RLeave (upd_run (set_sync SReturn) g)          (* the appended spinInterrupt: Sync = SigReturn *)
  | Some IHook =>
      match hook_call g with
      | (Some v, g1) => RPanic v g1
      | (None, g1) => RCont SkCont fs (S ip) i g1
      end
  | Some IInc => RCont SkCont fs (S ip) (S i) g
  | Some (ISet n) => RCont SkCont fs (S ip) n g
  | Some IGInc => RCont SkCont fs (S ip) i (bump_x g)
  | Some IPlain => RCont SkCont fs (S ip) i g
  | Some (IJmp t) => RCont SkCont fs t i g
  | Some (IIfMod m r t) => RCont SkCont fs (if Nat.modulo i m =? r then S ip else t) i g
  | Some (IIfLt n t) => RCont SkCont fs (if i <? n then S ip else t) i g
  | Some (IIfPos t) => RCont SkCont fs (if 0 <? i then S ip else t) i g
  | Some (ICall f a) => RCall f (apply_arg a i)
  | Some (IDefer d) =>
      let di := match d with DHook => DIHook | DFun f a => DIFun f (apply_arg a i) end in
      if fs_flags fs then RCont SkDefer (fs_push fs di) (S ip) i (upd_run (set_sync SDefer) g)
      else RStuck     (* Code.WithDefers selects execWithFlags *)
  | Some IRecover =>
      let '(b, r) := call_recover (rn g) in
      RCont SkCont fs (S ip) i (upd_run (fun _ => r) (if b then bump_recs g else g))
  | Some IPanic => RPanic PV_INTERP g
  | Some IRet => RLeave (upd_run (set_sync SReturn) g)
  end.

(* ---- what the loop does after a completed statement ---- *)
Inductive cres :=
| CGo (fs' : fstate) (g : glob)                 (* next statement *)
| CIntrFlags (fs2 : fstate) (g : glob)          (* reExecWithFlags, signal: panic(SigInterrupt); fs2 holds the installed defers *)
| CIntrPlain (g : glob).                        (* exec, finish: panic(SigInterrupt) *)

(* a0 = Async was already set when the statement started *)
Definition after_stmt (a0 : bool) (fs : fstate) (k : skind) (fs1 : fstate) (ip i : nat) (g : glob) : cres :=
  let g1 := if a0 then bump_after (sk_is_defer k) g else g in
  let '(ph, poll) := advance (fs_ph fs1) k in
  if poll && async (rn g1) then
    if fs_flags fs then
      (* prologue: the defer statement returned nil, `defer rundefer(fun)` is executed, then `goto signal`.
         steady loop: the spinInterrupt slots that follow the defer statement see Async and panic BEFORE the
         installation loop runs: the deferred call is lost and Run.InstallDefer / Signals.Sync stay set *)
      let fs2 := if intr_of (fs_ph fs) then fs else fs1 in
      let g2 := if intr_of (fs_ph fs) then g1 else upd_run (set_sync SNone) g1 in
      CIntrFlags fs2 (apply_async g2)
    else CIntrPlain (apply_async (upd_run (set_intr (fs_sv_intr fs)) g1))
  else CGo (fs_step fs1 ip i ph) (upd_run (fun r => set_sync SNone (set_intr (intr_of ph) r)) g1).

(* exec, finish: run.Interrupt = saveInterrupt; async?; Signals.Sync = SigNone *)
Definition leave_plain (fs : fstate) (g : glob) : outcome * glob :=
  let g1 := upd_run (set_intr (fs_sv_intr fs)) g in
  if async (rn g1) then (OPanic PV_INTERRUPT, apply_async g1)
  else (ONormal, upd_run (set_sync SNone) g1).

(* Interp.Eval of a statement counts it when the flag was set before it started *)
Definition count_ret (a0 : bool) (ins : option instr) (g : glob) : glob :=
  match ins with Some IRet => if a0 then bump_after false g else g | _ => g end.

(* entry of the closure returned by exec / execWithFlags: Left = panic(SigInterrupt) before anything is saved *)
Definition enter_frame (c : code) (f env i0 : nat) (g : glob) : (outcome * glob) + (fstate * glob) :=
  let g1 := upd_run (set_sync SNone) g in
  let r := rn g1 in
  let flags := with_defers c || ef_start r || ef_defer r || ef_debug r in    (* execWithFlags, or ExecFlags != 0 *)
  if async r then inl (OPanic PV_INTERRUPT, apply_async g1)
  else if flags then
    inr (mkFs f env 0 i0 ph0 true [] (ef_defer r) (intr r) (curr r),
         upd_run (fun r => set_intr false (set_ef_debug (dbgsig r) (set_ef_start false (set_ef_defer (ef_start r) r)))) g1)
  else
    inr (mkFs f env 0 i0 ph0 false [] (ef_defer r) (intr r) (curr r), upd_run (set_intr false) g1).

(* rundefer(fun) up to the call of fun: recover(), pushDefer *)
Definition rundefer_pre (fs : fstate) (pk pk2 : bool) (gp : option nat) (g : glob) : bool * glob :=
  let rec := pk || pk2 in
  let pk1 := if rec then true else pk in
  let g1 := if rec then upd_run (set_panicv gp) g else g in        (* run.Panic = recover() *)
  (pk1, upd_run (fun r => set_ef_start true (set_defer_of (Some (fs_env fs)) (if pk1 then set_panic_fun (Some (fs_env fs)) r else r))) g1).

(* the last deferred function of reExecWithFlags: restore(...) *)
Definition do_restore (fx : bool) (fs : fstate) (gp : option nat) (g : glob) : outcome * glob :=
  let g1 := upd_run (restore_run fx fs) g in
  if async (rn g1) then (OPanic PV_INTERRUPT, apply_async g1)
  else match gp with Some v => (OPanic v, g1) | None => (ONormal, g1) end.

Fixpoint go (fuel : nat) (P : prog) (fx : bool) (t : task) (g : glob) : outcome * glob :=
  match fuel with
  | O => (OFuel, g)
  | S fuel' =>
    match t with
    | TCallF f i0 =>
        match nth_error P f with
        | None | Some [] => (ONormal, g)                   (* empty body: valueOfNopFunc, no Env, no frame *)
        | Some _ =>
            let env := next_env g in
            let caller := curr (rn g) in                    (* env.Caller = run.CurrEnv *)
            let g1 := upd_run (set_curr (Some env)) (bump_env g) in
            let '(o, g2) := go fuel' P fx (TEnter f env i0) g1 in
            match o with
            | ONormal => (ONormal, upd_run (set_curr caller) g2)   (* freeEnv4Func: run.CurrEnv = env.Caller *)
            | _ => (o, g2)                                   (* a panic skips freeEnv4Func *)
            end
        end
    | TEnter f env i0 =>
        match enter_frame (nth f P []) f env i0 g with
        | inl res => res
        | inr (fs, g1) => go fuel' P fx (TLoop fs) g1
        end
    | TLoop fs =>
        let a0 := async (rn g) in            (* was the flag already set when this statement started? *)
        let ins := nth_error (nth (fs_fn fs) P []) (fs_ip fs) in
        (* a statement of this frame panicked with v *)
        let stmt_panic (v : nat) (g : glob) : outcome * glob :=
          if fs_flags fs then go fuel' P fx (TDefers fs (fs_defers fs) true false (Some v)) g
          else (OPanic v, g) in
        let continue (c : cres) : outcome * glob :=
          match c with
          | CGo fs' g' => go fuel' P fx (TLoop fs') g'
          | CIntrFlags fs2 g' => go fuel' P fx (TDefers fs2 (fs_defers fs2) true false (Some PV_INTERRUPT)) g'
          | CIntrPlain g' => (OPanic PV_INTERRUPT, g')
          end in
        match exec_instr fs ins g with
        | RCont k fs1 ip i g1 => continue (after_stmt a0 fs k fs1 ip i g1)
        | RPanic v g1 => stmt_panic v g1
        | RCall f i0 =>
            let '(o, g1) := go fuel' P fx (TCallF f i0) g in
            match o with
            | ONormal => continue (after_stmt a0 fs SkCont fs (S (fs_ip fs)) (fs_i fs) g1)
            | OPanic v => stmt_panic v g1
            | OFuel => (OFuel, g1)
            end
        | RLeave g0 =>
            let g1 := count_ret a0 ins g0 in
            if fs_flags fs then
              (* signal: *)
              if async (rn g1) then go fuel' P fx (TDefers fs (fs_defers fs) true false (Some PV_INTERRUPT)) (apply_async g1)
              else go fuel' P fx (TDefers fs (fs_defers fs) false false None) g1
            else leave_plain fs g1
        | RStuck => (OFuel, g)
        end
    | TDefers fs ds pk pk2 gp =>
        match ds with
        | [] => do_restore fx fs gp g
        | d :: ds' =>
            (* rundefer(fun) *)
            let saved_dof := defer_of (rn g) in
            let saved_isdefer := ef_defer (rn g) in
            let saved_pv := panicv (rn g) in
            let saved_pf := panic_fun (rn g) in
            let '(pk1, g2) := rundefer_pre fs pk pk2 gp g in
            (* fun() *)
            let '(o, g3) := match d with
                            | DIHook => match hook_call g2 with (Some v, g') => (OPanic v, g') | (None, g') => (ONormal, g') end
                            | DIFun f i0 => go fuel' P fx (TCallF f i0) g2
                            end in
            (* deferred popDefer, then (fix C07-1) deferred restorePanic(run, run.Panic, run.PanicFun) - arguments evaluated on entry *)
            let g4 := upd_run (fun r => let r1 := pop_defer saved_dof saved_isdefer r in
                                        if fx then set_panicv saved_pv (set_panic_fun saved_pf r1) else r1) g3 in
            match o with
            | OFuel => (OFuel, g3)
            | OPanic v =>    (* panicking2 stays true; Go goes on unwinding *)
                go fuel' P fx (TDefers fs ds' pk1 true (Some v)) g4
            | ONormal =>
                if pk1 then
                  match panic_fun (rn g3) with
                  | Some _ =>    (* maybeRepanic: panic(run.Panic) *)
                      go fuel' P fx (TDefers fs ds' true false (Some (match panicv (rn g3) with Some v => v | None => 0 end))) g4
                  | None =>      (* recover() was called: no longer panicking *)
                      go fuel' P fx (TDefers fs ds' false false None) g4
                  end
                else go fuel' P fx (TDefers fs ds' false false None) g4
            end
        end
    end
  end.

(* one evaluation (Interp.Eval = Compile + RunExpr) of a top-level form *)
Inductive form :=
| FCall (f : nat) (i0 : nat)     (* `f(i0)`: an expression statement is compiled as an expression: no top-level frame *)
| FDirect (f : nat).             (* `{ ... }` / `for ... { }`: the code of "function" f runs on the top-level Env (identity 0) *)

Definition eval (fuel : nat) (P : prog) (fx : bool) (fm : form) (g : glob) : outcome * glob :=
  (* prepareEnv: Signals.Sync = Signals.Async = SigNone; applyDebugOp(DebugOpContinue) *)
  let g1 := upd_run (fun r => set_dbgsig false (set_ef_debug false (set_debug_depth 0 (set_async false (set_sync SNone r))))) g in
  let old := curr (rn g1) in
  let g2 := upd_run (set_curr (Some 0)) g1 in                (* defer run.setCurrEnv(run.setCurrEnv(env)) *)
  let '(o, g3) := match fm with
                  | FCall f i0 => go fuel P fx (TCallF f i0) g2
                  | FDirect f => match nth f P [] with [] => (ONormal, g2) | _ => go fuel P fx (TEnter f 0 0) g2 end
                  end in
  (o, upd_run (set_curr old) g3).

Definition glob0 (k : nat) (fl : fault) : glob := mkGlob 0 k fl 0 0 0 false 0 0 1 0 run0.

(* re-arm the hook for the next evaluation in the same interpreter *)
Definition rearm (k : nat) (fl : fault) (g : glob) : glob :=
  mkGlob 0 k fl 0 0 0 false (gx g) (gincs g) (next_env g) 0 (rn g).

(* ====================================================================================== *)
(* Part 3: correspondence cases of the C13 harness                                         *)
(* ====================================================================================== *)

(* the harness evaluated `fm` of program P in a fresh interpreter, the hook delivering the interrupt at its k-th
   call, and observed: later = further calls of the hook, intr = the evaluation ended with panic(SigInterrupt) *)
Record case := mkCase { c_idx : Z; c_prog : prog; c_form : form; c_k : nat; c_later : nat; c_intr : bool }.

Definition FUEL := 20000.

Definition case_ok (c : case) : bool :=
  let '(o, g) := eval FUEL (c_prog c) true (c_form c) (glob0 (c_k c) FInterrupt) in
  match o with
  | OPanic 3 => c_intr c && (later g =? c_later c) && raised g
  | ONormal => negb (c_intr c) && (later g =? c_later c)
  | _ => false
  end.

Definition mismatches (cs : list case) : list Z :=
  map c_idx (filter (fun c => negb (case_ok c)) cs).

(* C33 — how a goroutine ENDS, and why Comp.Go must DEFER the removal of its registry entry.
   fast/statement.go Comp.Go, code run by the new goroutine:
       tg2 := tg.new(gls.GoID()); tg2.glsStore(); defer tg2.glsDel(); funv.Call(argv)
   A goroutine does not only end by returning from funv.Call: runtime.Goexit() (directly, or through
   testing.T.FailNow ...) called inside interpreted frames ends it while the frames are active; then
   only DEFERRED calls run, the statements after funv.Call(argv) do not.
   The base machine (Model.v) has one ending event, EFinish ("returns or unwinds"), which always
   continues with the glsDel protocol.  Here the two endings are separate events and the machine has
   a parameter saying whether glsDel is deferred (the code as written) or a plain call placed after
   funv.Call (the variant a refactoring could produce).  Definitions only (no proofs). *)
From Coq Require Import List Arith Bool.
From Verif Require Import C33.Model.
Import ListNotations.

Inductive xevent :=
| XE (e : event)          (* any event of the base machine; XE (EFinish t): the function of goroutine t returns *)
| XGoexit (t : nat).      (* goroutine t ends inside its interpreted frames (runtime.Goexit): all frames are
                             abandoned, deferred calls run, the tail of the goroutine's code is skipped *)

Definition xstep (deferred : bool) (s : state) (x : xevent) : option state :=
  match x with
  | XE e => step s e
  | XGoexit t =>
      let th := thr s t in
      if t_live th && is_idle (t_pc th) then
        match t_kind th with
        | KMain => None    (* the creator runs Eval: not modelled as ending *)
        | KGo => Some (set_thr s t (mkT KGo (t_id th) true (if deferred then PDelLock else PDone) [] (t_mine th) (t_seen th)))
        | KForeign => Some (set_thr s t (mkT KForeign (t_id th) true PDone [] (t_mine th) (t_seen th)))
        end
      else None
  end.

Fixpoint xrun (deferred : bool) (s : state) (tr : list xevent) : option state :=
  match tr with
  | [] => Some s
  | x :: tr' => match xstep deferred s x with Some s' => xrun deferred s' tr' | None => None end
  end.

(* with the deferred removal a Goexit is, for the registry, the same as a return *)
Definition erase (x : xevent) : event :=
  match x with XE e => e | XGoexit t => EFinish t end.

(* the pc values at which a go-statement goroutine has completed (or skipped) its glsDel *)
Definition gone (p : pc) : bool :=
  match p with PDelUnlock | PDone | PExited => true | _ => false end.

(* "goroutine t was started by a go statement, has ended, and the record the go statement created for it is
    still in the registry" - what the property forbids: the next goroutine with that identity would get it *)
Definition leftover (s : state) (t r : nat) : Prop :=
  t_kind (thr s t) = KGo /\ t_live (thr s t) = false /\ t_mine (thr s t) = Some r /\ reg s (t_id (thr s t)) = Some r.

(* C33 — executable model of the per-goroutine runtime-record registry of gomacro:
     fast/global.go    IrGlobals{gls map[uintptr]*Run; lock atomic.SpinLock}, Run{goid,...}
     fast/compile.go   glsGet / getRun4Goid / glsStore / glsDel / Run.new / newEnv4Func
     fast/statement.go Comp.Go (parent: newEnv(tg,...); child: tg.new(gls.GoID()), glsStore, defer glsDel)
     fast/interpreter.go newTopInterp (main record registered at creation)
     atomic/spinlock.go  SpinLock.Lock (CAS 0->1, retry) / Unlock (store 0)
   Definitions only (no proofs).

   Granularity: every CAS, every map access and every unlock is its own atomic step; everything
   else a goroutine does between those is interleavable with all other goroutines.  Goroutines
   ("threads", named 0,1,2,... in creation order, names never reused) are unbounded in number.
   The identity returned by gls.GoID() is the field t_id, fixed when the runtime creates the
   goroutine (constant within a goroutine, by construction of the state); the value is chosen by
   the environment in the spawn event, so identities of exited goroutines may be reused.  That
   identities are pairwise distinct among LIVE goroutines is the hypothesis [ids_inj] (Proof.v). *)
From Coq Require Import List Arith Bool ZArith.
Import ListNotations.

Definition upd {A : Type} (f : nat -> A) (k : nat) (v : A) : nat -> A :=
  fun x => if Nat.eqb x k then v else f x.

Inductive kind := KMain | KGo | KForeign.

(* where a goroutine stands inside a registry operation *)
Inductive pc :=
| PIdle                               (* running its own code, not inside a registry operation *)
| PChildNew                           (* go-statement child, before tg.new(gls.GoID()) *)
| PGetLock                            (* glsGet: g.lock.Lock() spinning on the CAS *)
| PGetBody                            (* glsGet: holds the lock, before ret := g.gls[goid] *)
| PGetUnlock (r : option nat)         (* glsGet: before g.lock.Unlock() *)
| PGot (r : option nat)               (* getRun4Goid: glsGet returned r; if nil: run.new + glsStore *)
| PStoreLock (r : nat) (use : bool)   (* glsStore of record r; use=true: called from getRun4Goid *)
| PStoreBody (r : nat) (use : bool)
| PStoreUnlock (r : nat) (use : bool)
| PDelLock | PDelBody | PDelUnlock    (* deferred tg2.glsDel() of a go-statement child *)
| PDone                               (* about to vanish *)
| PExited.

Record thread := mkT {
  t_kind : kind;
  t_id : nat;                 (* gls.GoID() of this goroutine *)
  t_live : bool;
  t_pc : pc;
  t_frames : list nat;        (* records used by the active interpreted frames, innermost first *)
  t_mine : option nat;        (* tg2 of a go-statement child *)
  t_seen : option nat         (* ghost: record obtained by the first completed registration/lookup *)
}.

Definition dead_thread : thread := mkT KForeign 0 false PExited [] None None.

Record state := mkS {
  lockw : bool;                    (* the int32 of the SpinLock: true = 1 *)
  reg : nat -> option nat;         (* IrGlobals.gls : identity -> record *)
  owner : nat -> nat;              (* Run.goid of each record (immutable after creation) *)
  creator : nat -> nat;            (* ghost: name of the goroutine that allocated the record *)
  nrec : nat;                      (* records allocated so far: 0..nrec-1 *)
  thr : nat -> thread;
  nthr : nat;                      (* goroutines created so far *)
  nid : nat                        (* 1 + largest identity seen (for snapshots only) *)
}.

Inductive event :=
| ESpawnGo (p c id : nat)        (* p executes a go statement (its part: newEnv(tg, env, 0, 0) on its current record,
                                    evaluation of function and arguments); the runtime creates goroutine c with identity id *)
| ESpawnForeign (c id : nat)     (* compiled code starts goroutine c *)
| EChildNew (c : nat)            (* child: tg2 := tg.new(gls.GoID()); env2.Run = tg2 *)
| ECall (t ro : nat)             (* newEnv4Func with outer.Run = record ro: fast path when ro.goid == gls.GoID() *)
| ELock (t : nat)                (* successful CAS 0 -> 1 *)
| ESpin (t : nat)                (* failed CAS (lock word is 1): no change, retry *)
| EBody (t : nat)                (* the map access inside the critical section *)
| EUnlock (t : nat)              (* atomic store 0 *)
| EAfterGet (t : nat)            (* getRun4Goid after glsGet: use the record found, or allocate a new one *)
| EReturn (t : nat)              (* an interpreted frame is left *)
| EFinish (t : nat)              (* the goroutine's function returns (or unwinds): deferred glsDel for a go child *)
| EExit (t : nat).               (* the goroutine is gone *)

Definition set_thr (s : state) (t : nat) (th : thread) : state :=
  mkS (lockw s) (reg s) (owner s) (creator s) (nrec s) (upd (thr s) t th) (nthr s) (nid s).
Definition set_lock (s : state) (b : bool) : state :=
  mkS b (reg s) (owner s) (creator s) (nrec s) (thr s) (nthr s) (nid s).
Definition set_reg (s : state) (k : nat) (v : option nat) : state :=
  mkS (lockw s) (upd (reg s) k v) (owner s) (creator s) (nrec s) (thr s) (nthr s) (nid s).
(* Run.new(goid) executed by goroutine t *)
Definition alloc (s : state) (t id : nat) : state :=
  mkS (lockw s) (reg s) (upd (owner s) (nrec s) id) (upd (creator s) (nrec s) t) (S (nrec s)) (thr s) (nthr s) (nid s).
Definition add_thr (s : state) (th : thread) : state :=
  mkS (lockw s) (reg s) (owner s) (creator s) (nrec s) (upd (thr s) (nthr s) th) (S (nthr s)) (Nat.max (nid s) (S (t_id th))).

Definition with_pc (th : thread) (p : pc) : thread :=
  mkT (t_kind th) (t_id th) (t_live th) p (t_frames th) (t_mine th) (t_seen th).
Definition push_frame (th : thread) (r : nat) : thread :=
  mkT (t_kind th) (t_id th) (t_live th) PIdle (r :: t_frames th) (t_mine th)
      (match t_seen th with None => Some r | x => x end).
Definition push_fast (th : thread) (r : nat) : thread :=
  mkT (t_kind th) (t_id th) (t_live th) PIdle (r :: t_frames th) (t_mine th) (t_seen th).
Definition registered (th : thread) (r : nat) : thread :=
  mkT (t_kind th) (t_id th) (t_live th) PIdle (t_frames th) (t_mine th)
      (match t_seen th with None => Some r | x => x end).

Definition is_idle (p : pc) : bool := match p with PIdle => true | _ => false end.
Definition is_main (k : kind) : bool := match k with KMain => true | _ => false end.

Definition step (s : state) (e : event) : option state :=
  match e with
  | ESpawnGo p c id =>
      let th := thr s p in
      if t_live th && is_idle (t_pc th) && Nat.eqb c (nthr s) && negb (Nat.eqb (length (t_frames th)) 0)
      then Some (add_thr s (mkT KGo id true PChildNew [] None None)) else None
  | ESpawnForeign c id =>
      if Nat.eqb c (nthr s) then Some (add_thr s (mkT KForeign id true PIdle [] None None)) else None
  | EChildNew c =>
      let th := thr s c in
      match t_pc th with
      | PChildNew =>
          let r := nrec s in
          Some (set_thr (alloc s c (t_id th)) c
                  (mkT (t_kind th) (t_id th) (t_live th) (PStoreLock r false) (t_frames th) (Some r) (t_seen th)))
      | _ => None
      end
  | ECall t ro =>
      let th := thr s t in
      if t_live th && is_idle (t_pc th) && Nat.ltb ro (nrec s) then
        if Nat.eqb (owner s ro) (t_id th) then Some (set_thr s t (push_fast th ro))
        else Some (set_thr s t (with_pc th PGetLock))
      else None
  | ELock t =>
      let th := thr s t in
      if lockw s then None else
      match t_pc th with
      | PGetLock => Some (set_thr (set_lock s true) t (with_pc th PGetBody))
      | PStoreLock r u => Some (set_thr (set_lock s true) t (with_pc th (PStoreBody r u)))
      | PDelLock => Some (set_thr (set_lock s true) t (with_pc th PDelBody))
      | _ => None
      end
  | ESpin t =>
      let th := thr s t in
      if lockw s then
        match t_pc th with
        | PGetLock | PStoreLock _ _ | PDelLock => Some s
        | _ => None
        end
      else None
  | EBody t =>
      let th := thr s t in
      match t_pc th with
      | PGetBody => Some (set_thr s t (with_pc th (PGetUnlock (reg s (t_id th)))))
      | PStoreBody r u => Some (set_thr (set_reg s (owner s r) (Some r)) t (with_pc th (PStoreUnlock r u)))
      | PDelBody =>
          match t_mine th with
          | Some r => Some (set_thr (set_reg s (owner s r) None) t (with_pc th PDelUnlock))
          | None => None
          end
      | _ => None
      end
  | EUnlock t =>
      let th := thr s t in
      match t_pc th with
      | PGetUnlock x => Some (set_thr (set_lock s false) t (with_pc th (PGot x)))
      | PStoreUnlock r true => Some (set_thr (set_lock s false) t (push_frame th r))
      | PStoreUnlock r false => Some (set_thr (set_lock s false) t (registered th r))
      | PDelUnlock => Some (set_thr (set_lock s false) t (with_pc th PDone))
      | _ => None
      end
  | EAfterGet t =>
      let th := thr s t in
      match t_pc th with
      | PGot (Some r) => Some (set_thr s t (push_frame th r))
      | PGot None => Some (set_thr (alloc s t (t_id th)) t (with_pc th (PStoreLock (nrec s) true)))
      | _ => None
      end
  | EReturn t =>
      let th := thr s t in
      if t_live th && is_idle (t_pc th) then
        match t_frames th with
        | [] => None
        | r :: rest =>
            if is_main (t_kind th) && Nat.eqb (length rest) 0 then None   (* the top-level Env is never left *)
            else Some (set_thr s t (mkT (t_kind th) (t_id th) (t_live th) PIdle rest (t_mine th) (t_seen th)))
        end
      else None
  | EFinish t =>
      let th := thr s t in
      if t_live th && is_idle (t_pc th) then
        match t_kind th with
        | KMain => None
        | KGo => Some (set_thr s t (mkT KGo (t_id th) true PDelLock [] (t_mine th) (t_seen th)))
        | KForeign => Some (set_thr s t (mkT KForeign (t_id th) true PDone [] (t_mine th) (t_seen th)))
        end
      else None
  | EExit t =>
      let th := thr s t in
      match t_pc th with
      | PDone => Some (set_thr s t (mkT (t_kind th) (t_id th) false PExited [] (t_mine th) (t_seen th)))
      | _ => None
      end
  end.

(* newTopInterp executed by goroutine 0 with identity id0: record 0, registered before anything is shared *)
Definition init (id0 : nat) : state :=
  mkS false (upd (fun _ => None) id0 (Some 0)) (fun _ => id0) (fun _ => 0) 1
      (upd (fun _ => dead_thread) 0 (mkT KMain id0 true PIdle [0] None (Some 0))) 1 (S id0).

Fixpoint run (s : state) (tr : list event) : option state :=
  match tr with
  | [] => Some s
  | e :: tr' => match step s e with Some s' => run s' tr' | None => None end
  end.

(* ------------------------------------------------------------------------------------------- *)
(* Harness-level events: one call / spawn / exit completes before the next one starts          *)
(* (deterministic schedules dictated through channels); each expands into the micro steps above *)

Definition next_ev (t : nat) (p : pc) : option event :=
  match p with
  | PIdle | PExited => None
  | PChildNew => Some (EChildNew t)
  | PGetLock | PStoreLock _ _ | PDelLock => Some (ELock t)
  | PGetBody | PStoreBody _ _ | PDelBody => Some (EBody t)
  | PGetUnlock _ | PStoreUnlock _ _ | PDelUnlock => Some (EUnlock t)
  | PGot _ => Some (EAfterGet t)
  | PDone => Some (EExit t)
  end.

Fixpoint run_thread (fuel : nat) (s : state) (t : nat) : option state :=
  match fuel with
  | O => None
  | S f =>
      match next_ev t (t_pc (thr s t)) with
      | None => Some s
      | Some e => match step s e with Some s' => run_thread f s' t | None => None end
      end
  end.

Inductive hevent :=
| HSpawnGo (p c id : nat)
| HSpawnForeign (c id : nat)
| HCall (t ro : nat)
| HReturn (t : nat)
| HExit (t : nat)
| HGoexit (t : nat).   (* the goroutine ends INSIDE its interpreted frames: runtime.Goexit(), or a panic that unwinds to the
                          function of the goroutine: all frames are abandoned and only deferred calls run.  Comp.Go defers
                          tg2.glsDel(), so the registry protocol is the one of HExit (C33/ExitModel.v: with a plain call after
                          funv.Call the entry would stay) *)

Definition bindo {A B} (x : option A) (f : A -> option B) : option B :=
  match x with Some a => f a | None => None end.

Definition hstep (s : state) (h : hevent) : option state :=
  match h with
  | HSpawnGo p c id => bindo (step s (ESpawnGo p c id)) (fun s' => run_thread 20 s' c)
  | HSpawnForeign c id => step s (ESpawnForeign c id)
  | HCall t ro => bindo (step s (ECall t ro)) (fun s' => run_thread 20 s' t)
  | HReturn t => step s (EReturn t)
  | HExit t | HGoexit t => bindo (step s (EFinish t)) (fun s' => run_thread 20 s' t)
  end.

Fixpoint hrun (s : state) (hs : list hevent) : option state :=
  match hs with
  | [] => Some s
  | h :: hs' => bindo (hstep s h) (fun s' => hrun s' hs')
  end.

(* registry snapshot: (identity, record) pairs sorted by identity *)
Fixpoint snap_upto (s : state) (n : nat) : list (nat * nat) :=
  match n with
  | O => []
  | S k => snap_upto s k ++ (match reg s k with Some r => [(k, r)] | None => [] end)
  end.
Definition snapshot (s : state) : list (nat * nat) := snap_upto s (nid s).

(* observation made by the harness after a group of harness events:
   the registry, and for every goroutine named in [o_tops] the record of its innermost frame *)
Record obs := mkObs { o_reg : list (nat * nat); o_tops : list (nat * nat) }.

Fixpoint pairs_eqb (a b : list (nat * nat)) : bool :=
  match a, b with
  | [], [] => true
  | (x1, y1) :: a', (x2, y2) :: b' => Nat.eqb x1 x2 && Nat.eqb y1 y2 && pairs_eqb a' b'
  | _, _ => false
  end.

Definition top_ok (s : state) (p : nat * nat) : bool :=
  match t_frames (thr s (fst p)) with
  | r :: _ => Nat.eqb r (snd p)
  | [] => false
  end.

Definition obs_ok (s : state) (o : obs) : bool :=
  pairs_eqb (snapshot s) (o_reg o) && forallb (top_ok s) (o_tops o).

Fixpoint check_steps (s : state) (l : list (list hevent * obs)) : bool :=
  match l with
  | [] => true
  | (hs, o) :: l' =>
      match hrun s hs with
      | Some s' => obs_ok s' o && check_steps s' l'
      | None => false
      end
  end.

Record case := mkCase { c_idx : Z; c_main_id : nat; c_steps : list (list hevent * obs) }.

Definition case_ok (c : case) : bool := check_steps (init (c_main_id c)) (c_steps c).

Definition mismatches (cs : list case) : list Z :=
  map c_idx (filter (fun c => negb (case_ok c)) cs).

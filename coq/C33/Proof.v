(* C33 — lemmas: invariants of the registry machine over all interleavings. *)
From Coq Require Import List Arith Bool ZArith Lia.
From Verif Require Import C33.Model.
Import ListNotations.

(* ---------- hypothesis on the Go runtime: identities are pairwise distinct among live goroutines ---------- *)
Definition ids_inj (s : state) : Prop :=
  forall t1 t2, t_live (thr s t1) = true -> t_live (thr s t2) = true ->
                t_id (thr s t1) = t_id (thr s t2) -> t1 = t2.

(* reachable states: any number of goroutines, any interleaving of the atomic steps, the runtime
   hypothesis holding in every state passed through *)
Inductive reach (id0 : nat) : state -> Prop :=
| reach_init : reach id0 (init id0)
| reach_step : forall s e s', reach id0 s -> step s e = Some s' -> ids_inj s' -> reach id0 s'.

(* the same thing over event lists *)
Fixpoint run_inj (s : state) (tr : list event) : Prop :=
  match tr with
  | [] => True
  | e :: tr' => match step s e with
                | Some s' => ids_inj s' /\ run_inj s' tr'
                | None => True
                end
  end.

Lemma run_reach_gen : forall id0 tr s s', reach id0 s -> run s tr = Some s' -> run_inj s tr -> reach id0 s'.
Proof.
  induction tr as [|e tr IH]; simpl; intros s s' R H Hi.
  - inversion H; subst; exact R.
  - destruct (step s e) as [s1|] eqn:E; [|discriminate].
    destruct Hi as [Hi1 Hi2]. apply (IH s1 s'); auto. eapply reach_step; eauto.
Qed.

Lemma run_reach : forall id0 tr s, run (init id0) tr = Some s -> run_inj (init id0) tr -> reach id0 s.
Proof. intros. eapply run_reach_gen; eauto. constructor. Qed.

(* ---------- basic facts ---------- *)
Lemma upd_same : forall A (f : nat -> A) k v, upd f k v k = v.
Proof. intros. unfold upd. rewrite Nat.eqb_refl. reflexivity. Qed.
Lemma upd_other : forall A (f : nat -> A) k v x, x <> k -> upd f k v x = f x.
Proof. intros. unfold upd. destruct (Nat.eqb x k) eqn:E; auto. apply Nat.eqb_eq in E. contradiction. Qed.

Definition pc_cs (p : pc) : bool :=
  match p with
  | PGetBody | PGetUnlock _ | PStoreBody _ _ | PStoreUnlock _ _ | PDelBody | PDelUnlock => true
  | _ => false
  end.

Definition rec_ok (s : state) (id r : nat) : Prop := r < nrec s /\ owner s r = id.

Definition pc_ok (s : state) (th : thread) : Prop :=
  match t_pc th with
  | PGetUnlock (Some r) | PGot (Some r) => rec_ok s (t_id th) r
  | PStoreLock r _ | PStoreBody r _ | PStoreUnlock r _ => rec_ok s (t_id th) r
  | _ => True
  end.

(* per-goroutine structural invariant *)
Record tinv (s : state) (th : thread) : Prop := {
  ti_dead : t_live th = false -> t_pc th = PExited /\ t_frames th = [];
  ti_exited : t_pc th = PExited -> t_live th = false;
  ti_frames : forall r, In r (t_frames th) -> rec_ok s (t_id th) r;
  ti_mine : forall r, t_mine th = Some r -> rec_ok s (t_id th) r;
  ti_seen : forall r, t_seen th = Some r -> rec_ok s (t_id th) r;
  ti_pc : pc_ok s th
}.

Record ginv (s : state) : Prop := {
  gi_thr : forall t, tinv s (thr s t);
  gi_unborn : forall t, nthr s <= t -> thr s t = dead_thread;
  gi_reg : forall id r, reg s id = Some r -> rec_ok s id r;
  gi_lock_a : forall t, pc_cs (t_pc (thr s t)) = true -> lockw s = true;
  gi_lock_b : forall t1 t2, pc_cs (t_pc (thr s t1)) = true -> pc_cs (t_pc (thr s t2)) = true -> t1 = t2
}.

(* rec_ok / tinv are stable under the changes a step makes to the global maps *)
Definition ext (s s' : state) : Prop :=
  nrec s <= nrec s' /\ (forall r, r < nrec s -> owner s' r = owner s r).

Lemma ext_refl : forall s, ext s s.
Proof. split; auto. Qed.

Lemma rec_ok_ext : forall s s' id r, ext s s' -> rec_ok s id r -> rec_ok s' id r.
Proof. intros s s' id r [H1 H2] [H3 H4]. split; [lia|]. rewrite H2; auto. Qed.

Lemma tinv_ext : forall s s' th, ext s s' -> tinv s th -> tinv s' th.
Proof.
  intros s s' th E [A B C D F G]. constructor; auto.
  - intros; eapply rec_ok_ext; eauto.
  - intros; eapply rec_ok_ext; eauto.
  - intros; eapply rec_ok_ext; eauto.
  - unfold pc_ok in *. destruct (t_pc th); auto; try (destruct r; auto); eapply rec_ok_ext; eauto.
Qed.

Lemma ext_alloc : forall s t id, ext s (alloc s t id).
Proof. intros. split; simpl; [lia|]. intros. apply upd_other. lia. Qed.
Lemma ext_set_thr : forall s t th, ext s (set_thr s t th).
Proof. intros; split; simpl; auto. Qed.
Lemma ext_set_lock : forall s b, ext s (set_lock s b).
Proof. intros; split; simpl; auto. Qed.
Lemma ext_set_reg : forall s k v, ext s (set_reg s k v).
Proof. intros; split; simpl; auto. Qed.
Lemma ext_add_thr : forall s th, ext s (add_thr s th).
Proof. intros; split; simpl; auto. Qed.
Lemma ext_trans : forall a b c, ext a b -> ext b c -> ext a c.
Proof. intros a b c [A B] [C D]. split; [lia|]. intros. rewrite D by lia. auto. Qed.

Lemma rec_ok_alloc_new : forall s t id, rec_ok (alloc s t id) id (nrec s).
Proof. intros. split; simpl; [lia|]. apply upd_same. Qed.

Lemma init_ginv : forall id0, ginv (init id0).
Proof.
  intros id0. constructor.
  - intros t. simpl. unfold upd. destruct (Nat.eqb t 0).
    + constructor; simpl; try discriminate; auto.
      * intros r [<-|[]]. split; simpl; auto.
      * intros r H; inversion H; subst. split; simpl; auto.
      * exact I.
    + constructor; simpl; auto; try discriminate. intros r []. exact I.
  - intros t H. simpl in *. unfold upd. destruct (Nat.eqb t 0) eqn:E; auto. apply Nat.eqb_eq in E. lia.
  - intros id r. simpl. unfold upd. destruct (Nat.eqb id id0) eqn:E; [|discriminate].
    intros H; inversion H; subst. apply Nat.eqb_eq in E. subst. split; simpl; auto.
  - intros t. simpl. unfold upd. destruct (Nat.eqb t 0); simpl; discriminate.
  - intros t1 t2. simpl. unfold upd. destruct (Nat.eqb t1 0); simpl; discriminate.
Qed.

(* ---------- preservation of the structural invariant by every step (no runtime hypothesis needed) ---------- *)
Lemma born : forall s t, ginv s -> thr s t <> dead_thread -> t < nthr s.
Proof. intros s t G H. destruct (le_lt_dec (nthr s) t); auto. exfalso. apply H. apply gi_unborn; auto. Qed.

Lemma born_pc : forall s t, ginv s -> t_pc (thr s t) <> PExited -> t < nthr s.
Proof. intros. apply born; auto. intros E. rewrite E in H0. apply H0. reflexivity. Qed.

Lemma born_live : forall s t, ginv s -> t_live (thr s t) = true -> t < nthr s.
Proof. intros. apply born; auto. intros E. rewrite E in H0. discriminate. Qed.

Lemma ginv_local : forall s S t th',
  ginv s -> ext s S -> nthr S = nthr s -> thr S = thr s -> t < nthr s ->
  (forall id r, reg S id = Some r -> rec_ok S id r) ->
  tinv S th' ->
  (pc_cs (t_pc th') = true -> lockw S = true /\ forall x, x <> t -> pc_cs (t_pc (thr s x)) = false) ->
  (forall x, x <> t -> pc_cs (t_pc (thr s x)) = true -> lockw S = true) ->
  ginv (set_thr S t th').
Proof.
  intros s S t th' G E Hn Ht Hb Hreg Hti Hl1 Hl2.
  assert (E' : ext s (set_thr S t th')) by (eapply ext_trans; eauto; apply ext_set_thr).
  constructor.
  - intros x. simpl. unfold upd. destruct (Nat.eqb x t) eqn:Ex.
    + eapply tinv_ext; [apply ext_set_thr|]; auto.
    + rewrite Ht. eapply tinv_ext; eauto. apply gi_thr; auto.
  - intros x Hx. simpl in *. unfold upd. destruct (Nat.eqb x t) eqn:Ex.
    + apply Nat.eqb_eq in Ex. lia.
    + rewrite Ht. apply gi_unborn; auto. lia.
  - intros id r H. simpl in H. eapply rec_ok_ext; [apply ext_set_thr|]. auto.
  - intros x. simpl. unfold upd. destruct (Nat.eqb x t) eqn:Ex.
    + intros H. apply Hl1; auto.
    + rewrite Ht. apply Nat.eqb_neq in Ex. apply Hl2; auto.
  - intros x y. simpl. unfold upd.
    destruct (Nat.eqb x t) eqn:Ex; destruct (Nat.eqb y t) eqn:Ey; rewrite ?Ht.
    + apply Nat.eqb_eq in Ex, Ey. congruence.
    + intros H1 H2. apply Nat.eqb_neq in Ey. destruct (Hl1 H1) as [_ H3]. rewrite H3 in H2; auto. discriminate.
    + intros H1 H2. apply Nat.eqb_neq in Ex. destruct (Hl1 H2) as [_ H3]. rewrite H3 in H1; auto. discriminate.
    + apply gi_lock_b; auto.
Qed.

(* the acting goroutine is outside the critical section before and after: nothing about the lock changes *)
Lemma ginv_local_nocs : forall s S t th',
  ginv s -> ext s S -> nthr S = nthr s -> thr S = thr s -> lockw S = lockw s -> t < nthr s ->
  (forall id r, reg S id = Some r -> rec_ok S id r) ->
  tinv S th' -> pc_cs (t_pc th') = false ->
  ginv (set_thr S t th').
Proof.
  intros. eapply ginv_local; eauto.
  - rewrite H7. discriminate.
  - intros x _ Hx. rewrite H3. eapply gi_lock_a; eauto.
Qed.

Lemma reg_ext : forall s S, ginv s -> ext s S -> reg S = reg s -> forall id r, reg S id = Some r -> rec_ok S id r.
Proof. intros s S G E H id r H1. rewrite H in H1. eapply rec_ok_ext; eauto. apply gi_reg; auto. Qed.

Lemma others_not_cs : forall s t, ginv s -> pc_cs (t_pc (thr s t)) = true ->
  forall x, x <> t -> pc_cs (t_pc (thr s x)) = false.
Proof.
  intros s t G H x Hx. destruct (pc_cs (t_pc (thr s x))) eqn:E; auto.
  exfalso. apply Hx. eapply gi_lock_b; eauto.
Qed.

Lemma nobody_cs : forall s, ginv s -> lockw s = false -> forall x, pc_cs (t_pc (thr s x)) = false.
Proof.
  intros s G H x. destruct (pc_cs (t_pc (thr s x))) eqn:E; auto.
  apply gi_lock_a in E; auto. congruence.
Qed.

Lemma ginv_add : forall s th,
  ginv s -> tinv s th -> pc_cs (t_pc th) = false ->
  ginv (add_thr s th).
Proof.
  intros s th G T Hc.
  assert (E : ext s (add_thr s th)) by apply ext_add_thr.
  constructor.
  - intros x. simpl. unfold upd. destruct (Nat.eqb x (nthr s)); eapply tinv_ext; eauto. apply gi_thr; auto.
  - intros x Hx. simpl in *. unfold upd. destruct (Nat.eqb x (nthr s)) eqn:Ex.
    + apply Nat.eqb_eq in Ex. lia.
    + apply gi_unborn; auto. lia.
  - intros id r H. simpl in H. eapply rec_ok_ext; eauto. apply gi_reg; auto.
  - intros x. simpl. unfold upd. destruct (Nat.eqb x (nthr s)).
    + rewrite Hc. discriminate.
    + apply gi_lock_a; auto.
  - intros x y. simpl. unfold upd.
    destruct (Nat.eqb x (nthr s)) eqn:Ex; destruct (Nat.eqb y (nthr s)) eqn:Ey; try (rewrite Hc; discriminate).
    apply gi_lock_b; auto.
Qed.

Ltac tinv_tac G t :=
  let A := fresh "A" in let B := fresh "B" in let C := fresh "C" in
  let D := fresh "D" in let F := fresh "F" in let P := fresh "P" in
  destruct (gi_thr _ G t) as [A B C D F P]; unfold pc_ok in P.

Ltac bool_hyps :=
  repeat match goal with
  | H : _ && _ = true |- _ => apply andb_true_iff in H; destruct H
  | H : negb _ = true |- _ => apply negb_true_iff in H
  | H : Nat.eqb _ _ = true |- _ => apply Nat.eqb_eq in H
  | H : Nat.ltb _ _ = true |- _ => apply Nat.ltb_lt in H
  | H : is_idle ?p = true |- _ => destruct p eqn:?; simpl in H; try discriminate; clear H
  end.

Ltac tinv_basic A :=
  constructor; simpl; try discriminate; auto;
  try (let L := fresh in intros L; apply A in L; destruct L; congruence); try exact I.

Lemma step_ginv : forall s e s', ginv s -> step s e = Some s' -> ginv s'.
Proof.
  intros s e s' G H. destruct e; unfold step in H.
  - (* ESpawnGo *)
    destruct (_ && _) eqn:Hc in H; [|discriminate]. inversion H; subst; clear H.
    apply ginv_add; auto. constructor; simpl; auto; try discriminate. intros r []. exact I.
  - (* ESpawnForeign *)
    destruct (Nat.eqb c (nthr s)); [|discriminate]. inversion H; subst; clear H.
    apply ginv_add; auto. constructor; simpl; auto; try discriminate. intros r []. exact I.
  - (* EChildNew *)
    destruct (t_pc (thr s c)) eqn:Hpc; try discriminate. inversion H; subst; clear H.
    tinv_tac G c.
    apply ginv_local_nocs with (s := s); auto using ext_alloc.
    + apply born_pc; auto. congruence.
    + apply reg_ext with (s := s); auto using ext_alloc.
    + constructor; simpl; try discriminate.
      * intros L. apply A in L. destruct L; congruence.
      * intros r Hr. eapply rec_ok_ext; [apply ext_alloc|]. auto.
      * intros r Hr. inversion Hr; subst. apply rec_ok_alloc_new.
      * intros r Hr. eapply rec_ok_ext; [apply ext_alloc|]. auto.
      * unfold pc_ok; simpl. apply rec_ok_alloc_new.
  - (* ECall *)
    destruct (_ && _) eqn:Hc in H; [|discriminate]. bool_hyps.
    tinv_tac G t.
    destruct (Nat.eqb (owner s ro) (t_id (thr s t))) eqn:Ho; inversion H; subst; clear H.
    + apply Nat.eqb_eq in Ho.
      apply ginv_local_nocs with (s := s); auto using ext_refl.
      * apply born_live; auto.
      * apply gi_reg; auto.
      * constructor; simpl; try discriminate; auto.
        -- intros L. congruence.
        -- intros r [<-|Hr]; auto. split; auto.
        -- exact I.
    + apply ginv_local_nocs with (s := s); auto using ext_refl.
      * apply born_live; auto.
      * apply gi_reg; auto.
      * constructor; simpl; try discriminate; auto.
        -- intros L. congruence.
        -- exact I.
  - (* ELock *)
    destruct (lockw s) eqn:Hl; [discriminate|].
    tinv_tac G t.
    assert (Hb : t_pc (thr s t) <> PExited -> t < nthr s) by (apply born_pc; auto).
    pose proof (nobody_cs _ G Hl) as Hn.
    destruct (t_pc (thr s t)) eqn:Hpc; try discriminate; inversion H; subst; clear H;
      (apply ginv_local with (s := s); auto using ext_set_lock;
       [ apply Hb; discriminate
       | apply reg_ext with (s := s); auto using ext_set_lock
       | constructor; simpl; try discriminate; auto;
         try (intros L; apply A in L; destruct L; congruence); unfold pc_ok; simpl; auto; exact P ]).
  - (* ESpin *)
    destruct (lockw s); [|discriminate].
    destruct (t_pc (thr s t)); try discriminate; inversion H; subst; auto.
  - (* EBody *)
    tinv_tac G t.
    assert (Hb : t_pc (thr s t) <> PExited -> t < nthr s) by (apply born_pc; auto).
    destruct (t_pc (thr s t)) eqn:Hpc; try discriminate.
    + (* glsGet body *)
      inversion H; subst; clear H.
      assert (Hcs : pc_cs (t_pc (thr s t)) = true) by (rewrite Hpc; reflexivity).
      apply ginv_local with (s := s); auto using ext_refl.
      * apply Hb; discriminate.
      * apply gi_reg; auto.
      * constructor; simpl; try discriminate; auto.
        -- intros L; apply A in L; destruct L; congruence.
        -- unfold pc_ok; simpl. destruct (reg s (t_id (thr s t))) eqn:Hr; auto. apply gi_reg; auto.
      * intros _. split. eapply gi_lock_a; eauto. apply others_not_cs; auto.
      * intros x _ Hx. eapply gi_lock_a; eauto.
    + (* glsStore body *)
      inversion H; subst; clear H.
      assert (Hcs : pc_cs (t_pc (thr s t)) = true) by (rewrite Hpc; reflexivity).
      apply ginv_local with (s := s); auto using ext_set_reg.
      * apply Hb; discriminate.
      * intros id r0. simpl. unfold upd. destruct (Nat.eqb id (owner s r)) eqn:Ei.
        -- intros Hr; inversion Hr; subst. apply Nat.eqb_eq in Ei. subst. destruct P. split; auto.
        -- intros Hr. apply (gi_reg _ G) in Hr. exact Hr.
      * constructor; simpl; try discriminate; auto.
        intros L; apply A in L; destruct L; congruence.
      * intros _. split. simpl. eapply gi_lock_a; eauto. apply others_not_cs; auto.
      * intros x _ Hx. simpl. eapply gi_lock_a; eauto.
    + (* glsDel body *)
      destruct (t_mine (thr s t)) eqn:Hm; [|discriminate]. inversion H; subst; clear H.
      assert (Hcs : pc_cs (t_pc (thr s t)) = true) by (rewrite Hpc; reflexivity).
      apply ginv_local with (s := s); auto using ext_set_reg.
      * apply Hb; discriminate.
      * intros id r0. simpl. unfold upd. destruct (Nat.eqb id (owner s n)) eqn:Ei; [discriminate|].
        intros Hr. apply (gi_reg _ G) in Hr. exact Hr.
      * constructor; simpl; try discriminate; auto.
        -- intros L; apply A in L; destruct L; congruence.
        -- intros r0 Hr0. rewrite Hm in Hr0. apply D in Hr0. exact Hr0.
      * intros _. split. simpl. eapply gi_lock_a; eauto. apply others_not_cs; auto.
      * intros x _ Hx. simpl. eapply gi_lock_a; eauto.
  - (* EUnlock *)
    tinv_tac G t.
    assert (Hb : t_pc (thr s t) <> PExited -> t < nthr s) by (apply born_pc; auto).
    assert (Hoth : pc_cs (t_pc (thr s t)) = true -> forall x, x <> t -> pc_cs (t_pc (thr s x)) = true -> False).
    { intros Hcs x Hx Hx'. rewrite (others_not_cs _ _ G Hcs x Hx) in Hx'. discriminate. }
    destruct (t_pc (thr s t)) eqn:Hpc; try discriminate; try destruct use; inversion H; subst; clear H;
      (apply ginv_local with (s := s); auto using ext_set_lock;
       [ apply Hb; discriminate
       | apply reg_ext with (s := s); auto using ext_set_lock
       | tinv_basic A
       | simpl; discriminate
       | intros x Hx Hx'; exfalso; eapply Hoth; eauto ]).
    all: try (unfold pc_ok; simpl; exact P).
    all: try (intros r0 [<-|Hr]; [exact P | apply C; exact Hr]; fail).
    all: intros r0; destruct (t_seen (thr s t)) eqn:Hs; intros Hr; inversion Hr; subst; try exact P; apply F; reflexivity.
  - (* EAfterGet *)
    tinv_tac G t.
    assert (Hb : t_pc (thr s t) <> PExited -> t < nthr s) by (apply born_pc; auto).
    destruct (t_pc (thr s t)) eqn:Hpc; try discriminate. destruct r as [r|]; inversion H; subst; clear H.
    + apply ginv_local_nocs with (s := s); auto using ext_refl.
      * apply Hb; discriminate.
      * apply gi_reg; auto.
      * tinv_basic A.
        all: try (intros r0 [<-|Hr]; [exact P | apply C; exact Hr]; fail).
        all: intros r0; destruct (t_seen (thr s t)) eqn:Hs; intros Hr; inversion Hr; subst; try exact P; apply F; reflexivity.
    + apply ginv_local_nocs with (s := s); auto using ext_alloc.
      * apply Hb; discriminate.
      * apply reg_ext with (s := s); auto using ext_alloc.
      * tinv_basic A.
        all: try (intros; eapply rec_ok_ext; [apply ext_alloc|]; auto; fail).
        unfold pc_ok; simpl. apply rec_ok_alloc_new.
  - (* EReturn *)
    destruct (_ && _) eqn:Hc in H; [|discriminate]. bool_hyps.
    tinv_tac G t.
    destruct (t_frames (thr s t)) as [|r rest] eqn:Hf; [discriminate|].
    destruct (_ && _) in H; [discriminate|]. inversion H; subst; clear H.
    apply ginv_local_nocs with (s := s); auto using ext_refl.
    + apply born_live; auto.
    + apply gi_reg; auto.
    + tinv_basic A. intros r0 Hr. apply C. right; auto.
  - (* EFinish *)
    destruct (_ && _) eqn:Hc in H; [|discriminate]. bool_hyps.
    tinv_tac G t.
    destruct (t_kind (thr s t)) eqn:Hk; try discriminate; inversion H; subst; clear H;
      (apply ginv_local_nocs with (s := s); auto using ext_refl;
       [ apply born_live; auto | apply gi_reg; auto | tinv_basic A ]).
    all: intros r [].
  - (* EExit *)
    tinv_tac G t.
    assert (Hb : t_pc (thr s t) <> PExited -> t < nthr s) by (apply born_pc; auto).
    destruct (t_pc (thr s t)) eqn:Hpc; try discriminate. inversion H; subst; clear H.
    apply ginv_local_nocs with (s := s); auto using ext_refl.
    + apply Hb; discriminate.
    + apply gi_reg; auto.
    + tinv_basic A. intros r [].
Qed.

Lemma init_ids_inj : forall id0, ids_inj (init id0).
Proof.
  intros id0 t1 t2. simpl. unfold upd.
  destruct (Nat.eqb t1 0) eqn:E1; destruct (Nat.eqb t2 0) eqn:E2; simpl; try discriminate.
  apply Nat.eqb_eq in E1, E2. congruence.
Qed.

Lemma reach_ids_inj : forall id0 s, reach id0 s -> ids_inj s.
Proof. intros id0 s R. destruct R; auto. apply init_ids_inj. Qed.

Lemma reach_ginv : forall id0 s, reach id0 s -> ginv s.
Proof. induction 1. apply init_ginv. eapply step_ginv; eauto. Qed.

(* ---------- invariants that need the runtime hypothesis ---------- *)
(* per goroutine: the registry entry of a live goroutine's identity is written only by that goroutine, hence
   stable between its own registry operations; a go-statement child is registered with a record it created *)
Definition tj (s : state) (x : nat) : Prop :=
  let th := thr s x in
  t_live th = true ->
  (forall r, t_seen th = Some r ->
             match t_pc th with PDelUnlock | PDone => True | _ => reg s (t_id th) = Some r end) /\
  match t_pc th with
  | PGetUnlock y | PGot y => reg s (t_id th) = y
  | PStoreUnlock r _ => reg s (t_id th) = Some r /\ t_seen th = None
  | PChildNew | PStoreLock _ _ | PStoreBody _ _ => t_seen th = None
  | _ => True
  end /\
  (t_kind th = KGo ->
   match t_pc th with
   | PChildNew => t_mine th = None
   | PStoreLock r u | PStoreBody r u | PStoreUnlock r u => u = false /\ t_mine th = Some r /\ creator s r = x
   | _ => exists r, t_mine th = Some r /\ t_seen th = Some r /\ creator s r = x
   end).

Definition hinv (s : state) : Prop := forall x, tj s x.

Lemma tj_other : forall s s' x,
  ginv s -> tj s x -> thr s' x = thr s x ->
  (t_live (thr s x) = true -> reg s' (t_id (thr s x)) = reg s (t_id (thr s x))) ->
  (forall r, r < nrec s -> creator s' r = creator s r) ->
  tj s' x.
Proof.
  intros s s' x G T Ht Hr Hc. unfold tj in *. rewrite Ht. intros L.
  specialize (T L). specialize (Hr L). rewrite Hr. destruct T as [T1 [T2 T3]].
  split; [|split]; auto.
  intros K. specialize (T3 K).
  destruct (gi_thr _ G x) as [A B C D F P]. unfold pc_ok in P.
  destruct (t_pc (thr s x)); auto.
  all: try (destruct T3 as [r0 [M [S E]]]; exists r0; repeat split; auto; rewrite Hc; auto; apply D in M; destruct M; auto; fail).
  all: destruct T3 as [U [M E]]; repeat split; auto; rewrite Hc; auto; apply D in M; destruct M; auto.
Qed.

Lemma init_hinv : forall id0, hinv (init id0).
Proof.
  intros id0 x. unfold tj. simpl. unfold upd. destruct (Nat.eqb x 0) eqn:E; simpl; [|discriminate].
  intros _. split; [|split]; auto; try discriminate.
  intros r H; inversion H; subst. rewrite Nat.eqb_refl. reflexivity.
Qed.

Lemma live_of_pc : forall s t, ginv s -> t_pc (thr s t) <> PExited -> t_live (thr s t) = true.
Proof.
  intros s t G H. destruct (t_live (thr s t)) eqn:L; auto.
  apply (ti_dead _ _ (gi_thr _ G t)) in L. destruct L; contradiction.
Qed.

Lemma tj_other_set : forall s S t th' x,
  ginv s -> tj s x -> x <> t -> thr S = thr s ->
  (t_live (thr s x) = true -> reg S (t_id (thr s x)) = reg s (t_id (thr s x))) ->
  (forall r, r < nrec s -> creator S r = creator s r) ->
  tj (set_thr S t th') x.
Proof.
  intros. eapply tj_other; eauto.
  simpl. rewrite upd_other; auto. rewrite H2. reflexivity.
Qed.

Lemma creator_alloc : forall s t id r, r < nrec s -> creator (alloc s t id) r = creator s r.
Proof. intros. simpl. apply upd_other. lia. Qed.

Ltac other_tac G Hh :=
  eapply tj_other_set; eauto; try (intros; apply creator_alloc; auto).

Lemma step_hinv : forall s e s', ginv s -> ids_inj s -> hinv s -> step s e = Some s' -> hinv s'.
Proof.
  intros s e s' G Inj Hh H x. pose proof (Hh x) as Tx. destruct e; unfold step in H.
  - (* ESpawnGo *)
    destruct (_ && _) eqn:Hc in H; [|discriminate]. inversion H; subst; clear H.
    destruct (Nat.eq_dec x (nthr s)) as [->|Nx].
    + unfold tj. simpl. rewrite upd_same. simpl. intros _. split; [discriminate|]. auto.
    + eapply tj_other; eauto. simpl. apply upd_other; auto.
  - (* ESpawnForeign *)
    destruct (Nat.eqb c (nthr s)); [|discriminate]. inversion H; subst; clear H.
    destruct (Nat.eq_dec x (nthr s)) as [->|Nx].
    + unfold tj. simpl. rewrite upd_same. simpl. intros _. split; [discriminate|]. split; auto. discriminate.
    + eapply tj_other; eauto. simpl. apply upd_other; auto.
  - (* EChildNew *)
    destruct (t_pc (thr s c)) eqn:Hpc; try discriminate. inversion H; subst; clear H.
    destruct (Nat.eq_dec x c) as [->|Nx]; [|other_tac G Hh].
    unfold tj in *. simpl. rewrite upd_same. simpl. rewrite Hpc in Tx. intros L. destruct (Tx L) as [T1 [T2 T3]].
    rewrite T2. split; [discriminate|]. split; auto. intros K. repeat split; auto. apply upd_same.
  - (* ECall *)
    destruct (_ && _) eqn:Hc in H; [|discriminate]. bool_hyps.
    destruct (Nat.eqb (owner s ro) (t_id (thr s t))); inversion H; subst; clear H;
      (destruct (Nat.eq_dec x t) as [->|Nx]; [|other_tac G Hh]);
      unfold tj in *; simpl; rewrite upd_same; simpl; rewrite Heqp in Tx; auto.
  - (* ELock *)
    destruct (lockw s); [discriminate|].
    destruct (t_pc (thr s t)) eqn:Hpc; try discriminate; inversion H; subst; clear H;
      (destruct (Nat.eq_dec x t) as [->|Nx]; [|other_tac G Hh]);
      unfold tj in *; simpl; rewrite upd_same; simpl; rewrite Hpc in Tx; auto.
  - (* ESpin *)
    destruct (lockw s); [|discriminate].
    destruct (t_pc (thr s t)); try discriminate; inversion H; subst; auto.
  - (* EBody *)
    destruct (gi_thr _ G t) as [A B C D F P]; unfold pc_ok in P.
    destruct (t_pc (thr s t)) eqn:Hpc; try discriminate.
    + inversion H; subst; clear H.
      destruct (Nat.eq_dec x t) as [->|Nx]; [|other_tac G Hh].
      unfold tj in *; simpl; rewrite upd_same; simpl; rewrite Hpc in Tx.
      intros L. destruct (Tx L) as [T1 [T2 T3]]. auto.
    + inversion H; subst; clear H. destruct P as [P1 P2].
      destruct (Nat.eq_dec x t) as [->|Nx].
      * unfold tj in *; simpl; rewrite upd_same; simpl; rewrite Hpc in Tx.
        intros L. destruct (Tx L) as [T1 [T2 T3]]. rewrite T2. rewrite P2. rewrite upd_same.
        split; [discriminate|]. auto.
      * other_tac G Hh. intros L. simpl. apply upd_other. rewrite P2. intros E. apply Nx.
        apply Inj; auto. apply live_of_pc; auto. congruence.
    + destruct (t_mine (thr s t)) eqn:Hm; [|discriminate]. inversion H; subst; clear H.
      destruct (D _ eq_refl) as [D1 D2].
      destruct (Nat.eq_dec x t) as [->|Nx].
      * unfold tj in *; simpl; rewrite upd_same; simpl; rewrite Hpc in Tx.
        intros L. destruct (Tx L) as [T1 [T2 T3]]. rewrite Hm in *. auto.
      * other_tac G Hh. intros L. simpl. apply upd_other. rewrite D2. intros E. apply Nx.
        apply Inj; auto. apply live_of_pc; auto. congruence.
  - (* EUnlock *)
    destruct (t_pc (thr s t)) eqn:Hpc; try discriminate; try destruct use; inversion H; subst; clear H;
      (destruct (Nat.eq_dec x t) as [->|Nx]; [|other_tac G Hh]);
      unfold tj in *; simpl; rewrite upd_same; simpl; rewrite Hpc in Tx;
      intros L; destruct (Tx L) as [T1 [T2 T3]]; auto.
    + destruct T2 as [T2 T4]. rewrite T4. split; [|split]; auto.
      * intros r0 Hr0; inversion Hr0; subst; auto.
      * intros K. destruct (T3 K) as [U _]. discriminate.
    + destruct T2 as [T2 T4]. rewrite T4. split; [|split]; auto.
      * intros r0 Hr0; inversion Hr0; subst; auto.
      * intros K. destruct (T3 K) as [_ [M E]]. exists r. auto.
  - (* EAfterGet *)
    destruct (t_pc (thr s t)) eqn:Hpc; try discriminate. destruct r as [r|]; inversion H; subst; clear H;
      (destruct (Nat.eq_dec x t) as [->|Nx]; [|other_tac G Hh]);
      unfold tj in *; simpl; rewrite upd_same; simpl; rewrite Hpc in Tx;
      intros L; destruct (Tx L) as [T1 [T2 T3]].
    + split; [|split]; auto.
      * destruct (t_seen (thr s t)) eqn:Hs; intros r0 Hr0; inversion Hr0; subst; auto.
      * intros K. destruct (T3 K) as [r0 [M [S E]]]. exists r0. rewrite S. auto.
    + destruct (t_seen (thr s t)) eqn:Hs.
      * specialize (T1 _ eq_refl). congruence.
      * split; [discriminate|]. split; auto. intros K. destruct (T3 K) as [r0 [M [S E]]]. discriminate.
  - (* EReturn *)
    destruct (_ && _) eqn:Hc in H; [|discriminate]. bool_hyps.
    destruct (t_frames (thr s t)) as [|r rest] eqn:Hf; [discriminate|].
    destruct (_ && _) in H; [discriminate|]. inversion H; subst; clear H.
    destruct (Nat.eq_dec x t) as [->|Nx]; [|other_tac G Hh].
    unfold tj in *; simpl; rewrite upd_same; simpl; rewrite Heqp in Tx. auto.
  - (* EFinish *)
    destruct (_ && _) eqn:Hc in H; [|discriminate]. bool_hyps.
    destruct (t_kind (thr s t)) eqn:Hk; try discriminate; inversion H; subst; clear H;
      (destruct (Nat.eq_dec x t) as [->|Nx]; [|other_tac G Hh]);
      unfold tj in *; simpl; rewrite upd_same; simpl; rewrite Heqp in Tx;
      intros L; destruct (Tx H0) as [T1 [T2 T3]]; auto.
    split; auto. split; auto. discriminate.
  - (* EExit *)
    destruct (t_pc (thr s t)) eqn:Hpc; try discriminate. inversion H; subst; clear H.
    destruct (Nat.eq_dec x t) as [->|Nx]; [|other_tac G Hh].
    unfold tj; simpl; rewrite upd_same; simpl. discriminate.
Qed.

Lemma reach_hinv : forall id0 s, reach id0 s -> hinv s.
Proof.
  induction 1. apply init_hinv.
  apply (step_hinv s e s'); auto. apply (reach_ginv id0); auto. apply (reach_ids_inj id0); auto.
Qed.

(* ---------- statements used by Props.v ---------- *)
Definition in_cs (s : state) (t : nat) : Prop := pc_cs (t_pc (thr s t)) = true.

Definition Mutex (s : state) : Prop :=
  (forall t1 t2, in_cs s t1 -> in_cs s t2 -> t1 = t2) /\ (forall t, in_cs s t -> lockw s = true).

Lemma lock_mutex : forall id0 tr s, run (init id0) tr = Some s -> run_inj (init id0) tr -> Mutex s.
Proof.
  intros id0 tr s H Hi. pose proof (reach_ginv _ _ (run_reach _ _ _ H Hi)) as G.
  split. apply gi_lock_b; auto. apply gi_lock_a; auto.
Qed.

(* the lock invariant does not depend on the runtime hypothesis at all *)
Lemma run_ginv : forall tr s s', ginv s -> run s tr = Some s' -> ginv s'.
Proof.
  induction tr as [|e tr IH]; simpl; intros s s' G H.
  - inversion H; subst; auto.
  - destruct (step s e) eqn:E; [|discriminate]. apply (IH s0 s'); auto. apply (step_ginv s e s0); auto.
Qed.

Lemma lock_mutex_any : forall id0 tr s, run (init id0) tr = Some s -> Mutex s.
Proof.
  intros id0 tr s H. pose proof (run_ginv _ _ _ (init_ginv id0) H) as G.
  split. apply gi_lock_b; auto. apply gi_lock_a; auto.
Qed.

(* the registry map is read and written only by the lock holder *)
Lemma registry_access_locked : forall s e s', step s e = Some s' ->
  (reg s' <> reg s -> exists t, e = EBody t /\ in_cs s t) /\
  (forall t, e = EBody t -> in_cs s t).
Proof.
  intros s e s' H. split.
  - intros Hne. destruct e; unfold step in H;
      repeat match type of H with
             | context [if ?c then _ else _] => destruct c eqn:?; try discriminate
             | context [match t_pc ?x with _ => _ end] => destruct (t_pc x) eqn:?; try discriminate
             | context [match ?x with _ => _ end] => destruct x eqn:?; try discriminate
             end; inversion H; subst; try (exfalso; apply Hne; reflexivity).
    all: exists t; split; auto; unfold in_cs; rewrite Heqp; reflexivity.
  - intros t ->. unfold step in H. unfold in_cs. destruct (t_pc (thr s t)); try discriminate; reflexivity.
Qed.

Definition Inv33 (s : state) : Prop :=
  (forall g r, reg s g = Some r -> owner s r = g) /\
  (forall t r, In r (t_frames (thr s t)) -> t_live (thr s t) = true /\ owner s r = t_id (thr s t)) /\
  (forall t1 t2 r, In r (t_frames (thr s t1)) -> In r (t_frames (thr s t2)) -> t1 = t2).

Lemma frames_live : forall s t r, ginv s -> In r (t_frames (thr s t)) -> t_live (thr s t) = true.
Proof.
  intros s t r G H. destruct (t_live (thr s t)) eqn:L; auto.
  apply (ti_dead _ _ (gi_thr _ G t)) in L. destruct L as [_ L]. rewrite L in H. destruct H.
Qed.

Lemma reach_inv33 : forall id0 s, reach id0 s -> Inv33 s.
Proof.
  intros id0 s R. pose proof (reach_ginv _ _ R) as G. pose proof (reach_ids_inj _ _ R) as I.
  split; [|split].
  - intros g r H. apply (gi_reg _ G) in H. destruct H; auto.
  - intros t r H. split. eapply frames_live; eauto.
    apply (ti_frames _ _ (gi_thr _ G t)) in H. destruct H; auto.
  - intros t1 t2 r H1 H2. apply I.
    + eapply frames_live; eauto.
    + eapply frames_live; eauto.
    + apply (ti_frames _ _ (gi_thr _ G t1)) in H1. apply (ti_frames _ _ (gi_thr _ G t2)) in H2.
      destruct H1, H2. congruence.
Qed.

Lemma owner_invariant : forall id0 tr s, run (init id0) tr = Some s -> run_inj (init id0) tr -> Inv33 s.
Proof. intros. eapply reach_inv33. eapply run_reach; eauto. Qed.

(* every registry lookup made by a goroutine during its life returns the same record *)
Definition Stable (s : state) : Prop :=
  forall t r y, t_live (thr s t) = true -> t_seen (thr s t) = Some r -> t_pc (thr s t) = PGot y -> y = Some r.

Lemma lookup_stable : forall id0 tr s, run (init id0) tr = Some s -> run_inj (init id0) tr -> Stable s.
Proof.
  intros id0 tr s H Hi t r y L S P.
  pose proof (reach_hinv _ _ (run_reach _ _ _ H Hi) t) as T. unfold tj in T.
  destruct (T L) as [T1 [T2 _]]. rewrite P in *. specialize (T1 _ S). congruence.
Qed.

(* a goroutine started by a go statement gets from the registry the record it created itself,
   whatever stale entry its (possibly reused) identity had before *)
Definition GoFresh (s : state) : Prop :=
  forall t y, t_live (thr s t) = true -> t_kind (thr s t) = KGo -> t_pc (thr s t) = PGot y ->
    exists r, y = Some r /\ creator s r = t /\ t_mine (thr s t) = Some r.

Lemma go_child_fresh : forall id0 tr s, run (init id0) tr = Some s -> run_inj (init id0) tr -> GoFresh s.
Proof.
  intros id0 tr s H Hi t y L K P.
  pose proof (reach_hinv _ _ (run_reach _ _ _ H Hi) t) as T. unfold tj in T.
  destruct (T L) as [T1 [T2 T3]]. rewrite P in *. destruct (T3 K) as [r [M [S E]]].
  exists r. specialize (T1 _ S). split; [congruence|]. auto.
Qed.

(* ---------- decidable form of the runtime hypothesis, for concrete traces ---------- *)
Definition pair_okb (s : state) (t1 t2 : nat) : bool :=
  negb (t_live (thr s t1) && t_live (thr s t2) && Nat.eqb (t_id (thr s t1)) (t_id (thr s t2))) || Nat.eqb t1 t2.

Definition ids_injb (s : state) : bool :=
  forallb (fun t1 => forallb (fun t2 => pair_okb s t1 t2) (seq 0 (nthr s))) (seq 0 (nthr s)).

Lemma ids_injb_sound : forall s, ginv s -> ids_injb s = true -> ids_inj s.
Proof.
  intros s G H t1 t2 L1 L2 E.
  assert (B1 : t1 < nthr s) by (apply born_live; auto).
  assert (B2 : t2 < nthr s) by (apply born_live; auto).
  unfold ids_injb in H. rewrite forallb_forall in H.
  specialize (H t1). rewrite in_seq in H. specialize (H ltac:(lia)).
  rewrite forallb_forall in H. specialize (H t2). rewrite in_seq in H. specialize (H ltac:(lia)).
  unfold pair_okb in H. rewrite L1, L2, E, Nat.eqb_refl in H. simpl in H. apply Nat.eqb_eq; auto.
Qed.

Fixpoint run_injb (s : state) (tr : list event) : bool :=
  match tr with
  | [] => true
  | e :: tr' => match step s e with
                | Some s' => ids_injb s' && run_injb s' tr'
                | None => true
                end
  end.

Lemma run_injb_sound : forall tr s, ginv s -> run_injb s tr = true -> run_inj s tr.
Proof.
  induction tr as [|e tr IH]; simpl; intros s G H; auto.
  destruct (step s e) eqn:E; auto. apply andb_true_iff in H. destruct H.
  assert (ginv s0) by (eapply step_ginv; eauto).
  split. apply ids_injb_sound; auto. apply IH; auto.
Qed.

(* ---------- refutation of the stronger "fresh record" reading of reuse safety ---------- *)
(* goroutine 1 (identity 5, started by compiled code) calls an interpreted function: lookup finds nothing,
   creates record 1 and registers it; it returns and exits - nothing unregisters record 1.
   goroutine 2 is given the same identity 5; its lookup finds record 1, created by goroutine 1. *)
Definition stale_trace : list event :=
  [ESpawnForeign 1 5; ECall 1 0; ELock 1; EBody 1; EUnlock 1; EAfterGet 1; ELock 1; EBody 1; EUnlock 1;
   EReturn 1; EFinish 1; EExit 1;
   ESpawnForeign 2 5; ECall 2 0; ELock 2; EBody 2; EUnlock 2; EAfterGet 2].

Definition StaleUse (s : state) (t r : nat) : Prop :=
  t_live (thr s t) = true /\ In r (t_frames (thr s t)) /\ creator s r <> t /\ t_live (thr s (creator s r)) = false.

Lemma reuse_refuted : exists id0 tr s t r,
  run (init id0) tr = Some s /\ run_inj (init id0) tr /\ StaleUse s t r.
Proof.
  exists 0, stale_trace.
  destruct (run (init 0) stale_trace) as [s|] eqn:E; [|vm_compute in E; discriminate].
  exists s, 2, 1. split; auto. split.
  - apply run_injb_sound. apply init_ginv. vm_compute. reflexivity.
  - vm_compute in E. inversion E; subst; clear E. unfold StaleUse. vm_compute.
    repeat split; auto. discriminate.
Qed.

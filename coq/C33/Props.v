(* C33 — property theorems only.  Model: C33/Model.v (atomic steps of the registry protocol of
   fast/compile.go, fast/statement.go Comp.Go, atomic/spinlock.go; unboundedly many goroutines).
   [run (init id0) tr = Some s]: s is reached from the state after newTopInterp by the event list tr (any
   interleaving).  [run_inj (init id0) tr]: the runtime hypothesis - in every state passed through, the
   identities (gls.GoID) of live goroutines are pairwise distinct; an identity is constant within a
   goroutine by construction and may be given again to a later goroutine after its holder exited. *)
From Coq Require Import List Arith Bool ZArith.
From Verif Require Import C33.Model C33.Proof C33.ExitModel C33.ExitProof.
Import ListNotations.

(* at most one goroutine is between a successful CAS and its unlock, and then the lock word is 1.
   Needs no hypothesis on identities. *)
Theorem C33_lock_mutex : forall id0 tr s, run (init id0) tr = Some s ->
  (forall t1 t2, in_cs s t1 -> in_cs s t2 -> t1 = t2) /\ (forall t, in_cs s t -> lockw s = true).
Proof. exact lock_mutex_any. Qed.
Print Assumptions C33_lock_mutex.

(* IrGlobals.gls changes only in a step of the lock holder; every map access is made by the lock holder *)
Theorem C33_registry_access_locked : forall s e s', step s e = Some s' ->
  (reg s' <> reg s -> exists t, e = EBody t /\ in_cs s t) /\ (forall t, e = EBody t -> in_cs s t).
Proof. exact registry_access_locked. Qed.
Print Assumptions C33_registry_access_locked.

(* registry[g] = r -> owner r = g;  the record of every active interpreted frame of goroutine t belongs to
   t's identity and t is live;  no record is used by the frames of two goroutines *)
Theorem C33_owner_invariant : forall id0 tr s, run (init id0) tr = Some s -> run_inj (init id0) tr ->
  (forall g r, reg s g = Some r -> owner s r = g) /\
  (forall t r, In r (t_frames (thr s t)) -> t_live (thr s t) = true /\ owner s r = t_id (thr s t)) /\
  (forall t1 t2 r, In r (t_frames (thr s t1)) -> In r (t_frames (thr s t2)) -> t1 = t2).
Proof. exact owner_invariant. Qed.
Print Assumptions C33_owner_invariant.

(* during the life of one goroutine every registry lookup (getRun4Goid) returns the same record:
   t_seen is the record obtained by its first completed registration or lookup *)
Theorem C33_lookup_stable : forall id0 tr s, run (init id0) tr = Some s -> run_inj (init id0) tr ->
  forall t r y, t_live (thr s t) = true -> t_seen (thr s t) = Some r -> t_pc (thr s t) = PGot y -> y = Some r.
Proof. exact lookup_stable. Qed.
Print Assumptions C33_lookup_stable.

(* reuse safety, part that holds: a goroutine started by a go statement always gets from the registry the
   record it allocated itself (its registration overwrites whatever an exited goroutine with the same identity
   left behind).  Partial: says nothing about goroutines started by compiled code - see the refutation below. *)
Theorem C33_reuse_safe_go_stmt_partial : forall id0 tr s, run (init id0) tr = Some s -> run_inj (init id0) tr ->
  forall t y, t_live (thr s t) = true -> t_kind (thr s t) = KGo -> t_pc (thr s t) = PGot y ->
    exists r, y = Some r /\ creator s r = t /\ t_mine (thr s t) = Some r.
Proof. exact go_child_fresh. Qed.
Print Assumptions C33_reuse_safe_go_stmt_partial.

(* reuse safety in the strong reading ("a reused identity never observes a record of the exited goroutine")
   is refuted by the model of the current code: getRun4Goid registers, nothing unregisters when a goroutine
   not started by a go statement exits.  Witness: Proof.stale_trace (replayed on the real code by the
   harness, observation "C33-stale-foreign-record").  The record is still used by one live goroutine only
   (C33_owner_invariant). *)
Theorem C33_reuse_safe_refuted : exists id0 tr s t r,
  run (init id0) tr = Some s /\ run_inj (init id0) tr /\
  t_live (thr s t) = true /\ In r (t_frames (thr s t)) /\ creator s r <> t /\ t_live (thr s (creator s r)) = false.
Proof. exact reuse_refuted. Qed.
Print Assumptions C33_reuse_safe_refuted.

(* ---------------- endings of a goroutine (C33/ExitModel.v) ----------------
   [xrun d (init id0) tr]: histories in which a goroutine may also end INSIDE its interpreted frames
   ([XGoexit t]: runtime.Goexit(); only deferred calls run, the code after funv.Call in Comp.Go does not).
   d = true is the code as written (defer tg2.glsDel()), d = false the removal as a plain call after funv.Call. *)

(* with the deferred removal such an ending is, for the registry, a return: every history of the extended machine is a
   history of the base machine, so all theorems above hold for it *)
Theorem C33_goexit_is_return : forall tr s, xrun true s tr = run s (map erase tr).
Proof. exact xrun_deferred. Qed.
Print Assumptions C33_goexit_is_return.

Theorem C33_goexit_owner_invariant : forall id0 tr s, xrun true (init id0) tr = Some s -> run_inj (init id0) (map erase tr) ->
  ((forall g r, reg s g = Some r -> owner s r = g) /\
   (forall t r, In r (t_frames (thr s t)) -> t_live (thr s t) = true /\ owner s r = t_id (thr s t)) /\
   (forall t1 t2 r, In r (t_frames (thr s t1)) -> In r (t_frames (thr s t2)) -> t1 = t2)) /\
  (forall t r y, t_live (thr s t) = true -> t_seen (thr s t) = Some r -> t_pc (thr s t) = PGot y -> y = Some r) /\
  (forall t y, t_live (thr s t) = true -> t_kind (thr s t) = KGo -> t_pc (thr s t) = PGot y ->
     exists r, y = Some r /\ creator s r = t /\ t_mine (thr s t) = Some r).
Proof. exact goexit_invariants. Qed.
Print Assumptions C33_goexit_owner_invariant.

(* the record a go statement creates for its goroutine is in NO registry slot once that goroutine has ended - by return
   or inside its frames - in every reachable state of every interleaving (no hypothesis on identities needed):
   a goroutine that is later given the same identity cannot receive it *)
Theorem C33_go_child_unregistered_on_every_exit : forall id0 tr s, xrun true (init id0) tr = Some s ->
  forall t r, t_kind (thr s t) = KGo -> t_live (thr s t) = false -> t_mine (thr s t) = Some r ->
  forall id, reg s id <> Some r.
Proof. exact go_child_unregistered. Qed.
Print Assumptions C33_go_child_unregistered_on_every_exit.

(* the removal MUST be deferred: with a plain call after funv.Call the model has a history (identities pairwise distinct
   among live goroutines throughout) after which the go-statement goroutine 1 is gone, its record 1 is still registered
   under its identity, and goroutine 2 - started by compiled code, given the same identity - runs an interpreted frame
   on that record.  Witness: ExitProof.goexit_trace ++ goexit_tail false; replayed on the code by the harness
   (parts B and E: go statement whose goroutine calls runtime.Goexit() in an interpreted frame). *)
Theorem C33_plain_delete_refuted : exists id0 tr s t r t2,
  xrun false (init id0) tr = Some s /\ xrun_injb false (init id0) tr = true /\
  leftover s t r /\ t2 <> t /\ t_live (thr s t2) = true /\ In r (t_frames (thr s t2)).
Proof. exact plain_delete_refuted. Qed.
Print Assumptions C33_plain_delete_refuted.

(* non-vacuity: the same history on the code as written - the child's entry is removed although it never returned,
   and goroutine 2 allocates a record of its own (record 2) *)
Example C33_ex_goexit_deferred : exists s,
  xrun true (init 0) (goexit_trace ++ goexit_tail true ++ [XE (ELock 2); XE (EBody 2); XE (EUnlock 2)]) = Some s /\
  t_kind (thr s 1) = KGo /\ t_live (thr s 1) = false /\ t_mine (thr s 1) = Some 1 /\
  snapshot s = [(0, 0); (7, 2)] /\ t_frames (thr s 2) = [2] /\ creator s 2 = 2.
Proof. eexists. split. vm_compute. reflexivity. vm_compute. repeat split; reflexivity. Qed.

(* harness-level event HGoexit (cases_NNN.v): same registry protocol as HExit *)
Example C33_ex_goexit_h : exists s,
  hrun (init 0) [HSpawnGo 0 1 7; HCall 1 0; HCall 1 0; HGoexit 1; HSpawnForeign 2 7; HCall 2 0] = Some s /\
  snapshot s = [(0, 0); (7, 2)] /\ t_frames (thr s 2) = [2] /\ t_live (thr s 1) = false.
Proof. eexists. split. vm_compute. reflexivity. vm_compute. repeat split; reflexivity. Qed.

(* ---------------- non-vacuity: a concrete interleaving with contention on the lock and identity reuse ------------- *)
(* main (goroutine 0, identity 0) runs a go statement: child 1 gets identity 7; compiled code starts goroutine 2
   (identity 9) which calls an interpreted function while the child is registering: its CAS fails once (ESpin);
   child 1 finishes and unregisters; main's second go statement creates child 3, which is given identity 7 again *)
Definition ex_trace : list event :=
  [ESpawnGo 0 1 7; EChildNew 1; ESpawnForeign 2 9; ECall 2 0; ELock 1; ESpin 2; EBody 1; EUnlock 1;
   ELock 2; EBody 2; EUnlock 2; EAfterGet 2; ECall 1 0; ELock 2; EBody 2; ELock 1 (* not enabled: see ex_blocked *)].
Definition ex_trace2 : list event :=
  [ESpawnGo 0 1 7; EChildNew 1; ESpawnForeign 2 9; ECall 2 0; ELock 1; ESpin 2; EBody 1; EUnlock 1;
   ELock 2; EBody 2; EUnlock 2; EAfterGet 2; ECall 1 0; ELock 2; EBody 2; ESpin 1; EUnlock 2; ELock 1; EBody 1; EUnlock 1;
   EAfterGet 1; EReturn 1; EFinish 1; ELock 1; EBody 1; EUnlock 1; EExit 1;
   ESpawnGo 0 3 7; EChildNew 3; ELock 3; EBody 3; EUnlock 3; ECall 3 0; ELock 3; EBody 3; EUnlock 3; EAfterGet 3].

Example C33_ex_blocked : run (init 0) ex_trace = None.      (* a second CAS cannot succeed while the lock is held *)
Proof. vm_compute. reflexivity. Qed.

Example C33_ex_runs : exists s, run (init 0) ex_trace2 = Some s /\ run_inj (init 0) ex_trace2 /\
  snapshot s = [(0, 0); (7, 3); (9, 2)] /\            (* child 1's record 1 is gone, record 3 registered under 7 *)
  t_frames (thr s 3) = [3] /\ t_frames (thr s 2) = [2] /\ t_live (thr s 1) = false /\
  t_id (thr s 1) = t_id (thr s 3) /\ creator s 3 = 3.
Proof.
  destruct (run (init 0) ex_trace2) as [s|] eqn:E; [|vm_compute in E; discriminate].
  exists s. split; auto. split.
  - apply run_injb_sound. apply init_ginv. vm_compute. reflexivity.
  - vm_compute in E. inversion E; subst; clear E. vm_compute. repeat split; reflexivity.
Qed.

(* the harness-level expansion (one call / spawn / exit at a time) of the refutation witness *)
Example C33_ex_stale_h : exists s,
  hrun (init 0) [HSpawnForeign 1 5; HCall 1 0; HReturn 1; HExit 1; HSpawnForeign 2 5; HCall 2 0] = Some s /\
  snapshot s = [(0, 0); (5, 1)] /\ t_frames (thr s 2) = [1] /\ creator s 1 = 1.
Proof. eexists. split. vm_compute. reflexivity. vm_compute. repeat split; reflexivity. Qed.

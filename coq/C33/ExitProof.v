(* C33 — lemmas about goroutine endings (ExitModel.v). *)
From Coq Require Import List Arith Bool Lia.
From Verif Require Import C33.Model C33.Proof.
From Verif Require Import C33.ExitModel.
Import ListNotations.

(* ---------- deferred removal: Goexit = return, every base theorem carries over ---------- *)
Lemma xstep_deferred : forall s x, xstep true s x = step s (erase x).
Proof. intros s [e|t]; reflexivity. Qed.

Lemma xrun_deferred : forall tr s, xrun true s tr = run s (map erase tr).
Proof.
  induction tr as [|x tr IH]; intros s; simpl; auto.
  rewrite xstep_deferred. destruct (step s (erase x)); auto.
Qed.

(* ---------- a go-statement goroutine that has ended has no registry entry left ---------- *)
Definition pc_store (p : pc) (r : nat) : Prop :=
  match p with PStoreLock r' _ | PStoreBody r' _ | PStoreUnlock r' _ => r' = r | _ => False end.

Definition uthr (s : state) (x : nat) (th : thread) : Prop :=
  (forall r, pc_store (t_pc th) r -> creator s r = x /\ r < nrec s) /\
  (t_kind th = KGo -> forall r, t_mine th = Some r ->
     creator s r = x /\ r < nrec s /\ (gone (t_pc th) = true -> forall id, reg s id <> Some r)).

Definition uinv (s : state) : Prop := forall x, uthr s x (thr s x).

Lemma uthr_mono : forall s S x th, uthr s x th ->
  nrec s <= nrec S -> (forall r, r < nrec s -> creator S r = creator s r) ->
  (t_kind th = KGo -> forall r, t_mine th = Some r -> gone (t_pc th) = true -> forall id, reg S id <> Some r) ->
  uthr S x th.
Proof.
  intros s S x th [A B] Hn Hc Hr. split.
  - intros r P. destruct (A r P) as [A1 A2]. split; [rewrite Hc; auto | lia].
  - intros K r M. destruct (B K r M) as [B1 [B2 B3]]. split; [rewrite Hc; auto|]. split; [lia|].
    intros Gn. apply Hr; auto.
Qed.

Lemma uthr_same_reg : forall s S x th, uthr s x th ->
  nrec s <= nrec S -> (forall r, r < nrec s -> creator S r = creator s r) -> reg S = reg s -> uthr S x th.
Proof.
  intros s S x th U Hn Hc Hr. eapply uthr_mono; eauto.
  intros K r M Gn id. rewrite Hr. destruct U as [_ B]. destruct (B K r M) as [_ [_ B3]]. apply B3; auto.
Qed.

Lemma init_uinv : forall id0, uinv (init id0).
Proof.
  intros id0 x. unfold uthr. simpl. unfold upd. destruct (Nat.eqb x 0); simpl; split; intros; try contradiction; discriminate.
Qed.

(* a step of goroutine t that changes neither the registry nor the allocation maps *)
Lemma uinv_local : forall s S t th',
  uinv s -> nrec S = nrec s -> creator S = creator s -> reg S = reg s -> thr S = thr s ->
  uthr S t th' -> uinv (set_thr S t th').
Proof.
  intros s S t th' U Hn Hc Hr Ht Hth x. simpl. unfold upd. destruct (Nat.eqb x t) eqn:E.
  - apply Nat.eqb_eq in E. subst. exact Hth.
  - rewrite Ht. apply uthr_same_reg with s; [apply U | simpl; lia | intros; simpl; rewrite Hc; auto | simpl; auto].
Qed.

(* goroutine t only moves its pc to one that stores nothing and is not "gone" (kind and t_mine unchanged) *)
Lemma uthr_pc : forall s x th p,
  uthr s x th -> (forall r, ~ pc_store p r) -> gone p = false ->
  uthr s x (mkT (t_kind th) (t_id th) (t_live th) p (t_frames th) (t_mine th) (t_seen th)).
Proof.
  intros s x th p [A B] Hs Hg. split; simpl.
  - intros r P. destruct (Hs r P).
  - intros K r M. destruct (B K r M) as [B1 [B2 _]]. repeat split; auto. rewrite Hg. discriminate.
Qed.

Lemma uthr_nostore : forall s x th th', uthr s x th -> t_kind th' = t_kind th -> t_mine th' = t_mine th ->
  (forall r, ~ pc_store (t_pc th') r) -> gone (t_pc th') = false -> uthr s x th'.
Proof.
  intros s x th th' [A B] Hk Hm Hs Hg. split.
  - intros r P. destruct (Hs r P).
  - rewrite Hk, Hm. intros K r M. destruct (B K r M) as [B1 [B2 _]]. repeat split; auto. rewrite Hg. discriminate.
Qed.

Lemma uthr_store : forall s x th th' r, uthr s x th -> pc_store (t_pc th) r -> t_kind th' = t_kind th -> t_mine th' = t_mine th ->
  (forall r', pc_store (t_pc th') r' -> r' = r) -> gone (t_pc th') = false -> uthr s x th'.
Proof.
  intros s x th th' r [A B] P Hk Hm Hs Hg. split.
  - intros r' P'. apply Hs in P'. subst. auto.
  - rewrite Hk, Hm. intros K r0 M. destruct (B K r0 M) as [B1 [B2 _]]. repeat split; auto. rewrite Hg. discriminate.
Qed.

Lemma uthr_gone : forall s x th th', uthr s x th -> gone (t_pc th) = true -> t_kind th' = t_kind th -> t_mine th' = t_mine th ->
  (forall r, ~ pc_store (t_pc th') r) -> uthr s x th'.
Proof.
  intros s x th th' [A B] Gn Hk Hm Hs. split.
  - intros r P. destruct (Hs r P).
  - rewrite Hk, Hm. intros K r M. destruct (B K r M) as [B1 [B2 B3]]. repeat split; auto.
Qed.

Ltac nostore := let r := fresh in let P := fresh in intros r P; simpl in P; try contradiction; try discriminate.

Lemma step_uinv : forall s e s', ginv s -> uinv s -> step s e = Some s' -> uinv s'.
Proof.
  intros s e s' G U H. destruct e; unfold step in H.
  - (* ESpawnGo *)
    destruct (_ && _) in H; [|discriminate]. inversion H; subst; clear H.
    intros x. simpl. unfold upd. destruct (Nat.eqb x (nthr s)) eqn:E.
    + split; simpl; intros; try contradiction; discriminate.
    + apply uthr_same_reg with s; simpl; auto.
  - (* ESpawnForeign *)
    destruct (Nat.eqb c (nthr s)) in H; [|discriminate]. inversion H; subst; clear H.
    intros x. simpl. unfold upd. destruct (Nat.eqb x (nthr s)) eqn:E.
    + split; simpl; intros; try contradiction; discriminate.
    + apply uthr_same_reg with s; simpl; auto.
  - (* EChildNew *)
    destruct (t_pc (thr s c)) eqn:P; try discriminate. inversion H; subst; clear H.
    intros x. simpl. unfold upd at 1. destruct (Nat.eqb x c) eqn:E.
    + apply Nat.eqb_eq in E. subst. split; simpl.
      * intros r <-. rewrite upd_same. split; auto.
      * intros K r M. inversion M; subst. rewrite upd_same. repeat split; auto. discriminate.
    + apply uthr_same_reg with s; simpl; auto. intros r Hr. apply upd_other. lia.
  - (* ECall *)
    destruct (_ && _) in H; [|discriminate].
    destruct (Nat.eqb (owner s ro) (t_id (thr s t))) in H; inversion H; subst; clear H.
    + apply uinv_local with s; auto. eapply uthr_nostore; [apply U| | | |]; simpl; auto; nostore.
    + apply uinv_local with s; auto. eapply uthr_nostore; [apply U| | | |]; simpl; auto; nostore.
  - (* ELock *)
    destruct (lockw s); [discriminate|].
    destruct (t_pc (thr s t)) eqn:P; try discriminate; inversion H; subst; clear H.
    + apply uinv_local with s; auto. eapply uthr_nostore; [apply U| | | |]; simpl; auto; nostore.
    + apply uinv_local with s; auto. eapply uthr_store with (r := r); [apply U| | | | |]; simpl; auto. rewrite P; simpl; auto.
    + apply uinv_local with s; auto. eapply uthr_nostore; [apply U| | | |]; simpl; auto; nostore.
  - (* ESpin *)
    destruct (lockw s); [|discriminate].
    destruct (t_pc (thr s t)); try discriminate; inversion H; subst; auto.
  - (* EBody *)
    destruct (t_pc (thr s t)) eqn:P; try discriminate.
    + inversion H; subst; clear H.
      apply uinv_local with s; auto. eapply uthr_nostore; [apply U| | | |]; simpl; auto; nostore.
    + (* store *) inversion H; subst; clear H.
      assert (St : creator s r = t /\ r < nrec s) by (apply (proj1 (U t)); rewrite P; simpl; auto).
      intros x. simpl. unfold upd at 1. destruct (Nat.eqb x t) eqn:E.
      * apply Nat.eqb_eq in E. subst x.
        apply uthr_mono with s; simpl; auto; [|discriminate].
        eapply uthr_store with (r := r); [apply U| | | | |]; simpl; auto. rewrite P; simpl; auto.
      * apply Nat.eqb_neq in E.
        apply uthr_mono with s; simpl; auto.
        intros K r0 M Gn id. unfold upd. destruct (Nat.eqb id (owner s r)).
        -- intros Q. inversion Q; subst. destruct (proj2 (U x) K _ M) as [C _]. destruct St. congruence.
        -- destruct (proj2 (U x) K _ M) as [_ [_ C]]. apply C; auto.
    + (* delete *) destruct (t_mine (thr s t)) as [r|] eqn:M; [|discriminate]. inversion H; subst; clear H.
      intros x. simpl. unfold upd at 1. destruct (Nat.eqb x t) eqn:E.
      * apply Nat.eqb_eq in E. subst x. split; simpl; [nostore|].
        intros K r0 M0. rewrite M in M0. inversion M0; subst r0.
        destruct (proj2 (U t) K _ M) as [C1 [C2 _]]. repeat split; auto.
        intros _ id. unfold upd. destruct (Nat.eqb id (owner s r)) eqn:E2; [discriminate|].
        apply Nat.eqb_neq in E2. intros Q. apply (gi_reg _ G) in Q. destruct Q as [_ Q]. congruence.
      * apply uthr_mono with s; simpl; auto.
        intros K r0 M0 Gn id. unfold upd. destruct (Nat.eqb id (owner s r)); [discriminate|].
        destruct (proj2 (U x) K _ M0) as [_ [_ C]]. apply C; auto.
  - (* EUnlock *)
    destruct (t_pc (thr s t)) eqn:P; try discriminate.
    + inversion H; subst; clear H.
      apply uinv_local with s; auto. eapply uthr_nostore; [apply U| | | |]; simpl; auto; nostore.
    + destruct use; inversion H; subst; clear H.
      * apply uinv_local with s; auto. eapply uthr_nostore; [apply U| | | |]; simpl; auto; nostore.
      * apply uinv_local with s; auto. eapply uthr_nostore; [apply U| | | |]; simpl; auto; nostore.
    + inversion H; subst; clear H.
      apply uinv_local with s; auto. eapply uthr_gone; [apply U| | | |]; simpl; auto. try (rewrite P; auto); nostore.
  - (* EAfterGet *)
    destruct (t_pc (thr s t)) eqn:P; try discriminate. destruct r as [r|]; inversion H; subst; clear H.
    + apply uinv_local with s; auto. eapply uthr_nostore; [apply U| | | |]; simpl; auto; nostore.
    + intros x. simpl. unfold upd at 1. destruct (Nat.eqb x t) eqn:E.
      * apply Nat.eqb_eq in E. subst x. split; simpl.
        -- intros r <-. rewrite upd_same. split; auto.
        -- intros K r M. destruct (proj2 (U t) K _ M) as [C1 [C2 _]]. rewrite upd_other by lia. repeat split; auto. discriminate.
      * apply uthr_same_reg with s; simpl; auto. intros r Hr. apply upd_other. lia.
  - (* EReturn *)
    destruct (_ && _) in H; [|discriminate].
    destruct (t_frames (thr s t)) eqn:F; [discriminate|].
    destruct (_ && _) in H; [discriminate|]. inversion H; subst; clear H.
    assert (I : is_idle (t_pc (thr s t)) = true -> True) by auto.
    apply uinv_local with s; auto.
    destruct (U t) as [A B]. split; simpl; [intros r []|].
    intros K r M. destruct (B K r M) as [B1 [B2 _]]. repeat split; auto. discriminate.
  - (* EFinish *)
    destruct (t_live (thr s t) && is_idle (t_pc (thr s t))) eqn:C in H; [|discriminate].
    apply andb_true_iff in C. destruct C as [_ C].
    destruct (t_kind (thr s t)) eqn:K; try discriminate; inversion H; subst; clear H.
    + apply uinv_local with s; auto. eapply uthr_nostore; [apply U| | | |]; simpl; auto; nostore.
    + apply uinv_local with s; auto. split; simpl; [nostore | discriminate].
  - (* EExit *)
    destruct (t_pc (thr s t)) eqn:P; try discriminate. inversion H; subst; clear H.
    apply uinv_local with s; auto. eapply uthr_gone; [apply U| | | |]; simpl; auto. try (rewrite P; auto); nostore.
Qed.

Lemma run_ginv_uinv : forall tr s s', ginv s -> uinv s -> run s tr = Some s' -> ginv s' /\ uinv s'.
Proof.
  induction tr as [|e tr IH]; simpl; intros s s' G U H.
  - inversion H; subst; auto.
  - destruct (step s e) as [s1|] eqn:E; [|discriminate].
    apply (IH s1 s'); auto. eapply step_ginv; eauto. eapply step_uinv; eauto.
Qed.

(* the record a go statement created for its goroutine is in no registry slot once that goroutine has ended,
   whether its function returned or it ended inside interpreted frames (XGoexit); needs no hypothesis on identities *)
Lemma go_child_unregistered : forall id0 tr s, xrun true (init id0) tr = Some s ->
  forall t r, t_kind (thr s t) = KGo -> t_live (thr s t) = false -> t_mine (thr s t) = Some r ->
  forall id, reg s id <> Some r.
Proof.
  intros id0 tr s H t r K L M id. rewrite xrun_deferred in H.
  destruct (run_ginv_uinv _ _ _ (init_ginv id0) (init_uinv id0) H) as [G U].
  destruct (proj2 (U t) K _ M) as [_ [_ C]]. apply C.
  destruct (ti_dead _ _ (gi_thr _ G t) L) as [P _]. rewrite P. reflexivity.
Qed.

Lemma no_leftover : forall id0 tr s, xrun true (init id0) tr = Some s -> forall t r, ~ leftover s t r.
Proof.
  intros id0 tr s H t r [K [L [M R]]]. eapply go_child_unregistered; eauto.
Qed.

(* the theorems of the base machine hold for histories with Goexit endings *)
Lemma goexit_invariants : forall id0 tr s, xrun true (init id0) tr = Some s -> run_inj (init id0) (map erase tr) ->
  Inv33 s /\ Stable s /\ GoFresh s.
Proof.
  intros id0 tr s H Hi. rewrite xrun_deferred in H. split; [|split].
  - eapply owner_invariant; eauto.
  - eapply lookup_stable; eauto.
  - eapply go_child_fresh; eauto.
Qed.

(* ---------- the removal as a plain call after funv.Call: refuted ---------- *)
(* the runtime hypothesis along a trace of the extended machine, decidable form *)
Fixpoint xrun_injb (d : bool) (s : state) (tr : list xevent) : bool :=
  match tr with
  | [] => true
  | x :: tr' => match xstep d s x with
                | Some s' => ids_injb s' && xrun_injb d s' tr'
                | None => true
                end
  end.

(* main (goroutine 0, identity 0) executes a go statement: child 1, identity 7, registers record 1, calls an interpreted
   function (registry lookup finds record 1) and ends by Goexit inside that frame; compiled code then starts goroutine 2,
   which is given identity 7 again and calls an interpreted function *)
Definition goexit_trace : list xevent :=
  [XE (ESpawnGo 0 1 7); XE (EChildNew 1); XE (ELock 1); XE (EBody 1); XE (EUnlock 1);
   XE (ECall 1 0); XE (ELock 1); XE (EBody 1); XE (EUnlock 1); XE (EAfterGet 1);
   XGoexit 1].
Definition goexit_tail (deferred : bool) : list xevent :=
  (if deferred then [XE (ELock 1); XE (EBody 1); XE (EUnlock 1)] else []) ++
  [XE (EExit 1); XE (ESpawnForeign 2 7); XE (ECall 2 0); XE (ELock 2); XE (EBody 2); XE (EUnlock 2); XE (EAfterGet 2)].

Lemma plain_delete_refuted : exists id0 tr s t r t2,
  xrun false (init id0) tr = Some s /\ xrun_injb false (init id0) tr = true /\
  leftover s t r /\ t2 <> t /\ t_live (thr s t2) = true /\ In r (t_frames (thr s t2)).
Proof.
  exists 0, (goexit_trace ++ goexit_tail false).
  destruct (xrun false (init 0) (goexit_trace ++ goexit_tail false)) as [s|] eqn:E; [|vm_compute in E; discriminate].
  exists s, 1, 1, 2. split; auto. split; [vm_compute; reflexivity|].
  vm_compute in E. inversion E; subst; clear E. unfold leftover. vm_compute.
  repeat split; auto. discriminate.
Qed.

(* C14 — redefinition of a name with a type that is not identical to the previous one (commit C14-4):
   the new bind gets fresh slots, beyond every slot of the previous bind *)
From Coq Require Import List ZArith Bool Lia.
From Verif Require Import C14.Model C14.Proof.
Import ListNotations.
Open Scope Z_scope.

Lemma redefinition_other_type_new_slot : forall c x k cv b,
  wf c -> x <> 0 -> bget (binds c) x = Some b -> kind_eqb (bkind b) k = false ->
  let nb := snd (newBind c x CVar k cv) in
  match bcls nb with
  | CInt => bidx nb = intBindNum c /\ (bcls b = CInt -> bidx b + need (bkind b) <= bidx nb)
  | _ => bidx nb = bindNum c /\ (bcls b = CVar \/ bcls b = CFunc -> bidx b < bidx nb)
  end.
Proof.
  intros c x k cv b W X G K. destruct W as [_ _ Wok _]. pose proof (Wok _ _ G) as OK. unfold bind_ok in OK.
  cbv zeta. unfold newBind. destruct (Z.eqb_spec x 0) as [|_]; [contradiction|].
  rewrite G, K, andb_false_r.
  destruct (choose_class_cases c CVar k) as [[E _]|[[E _]|[_ [[E _]|[E _]]]]]; try discriminate; rewrite E; simpl.
  - split; [reflexivity|]. intros CI. rewrite CI in OK. lia.
  - split; [reflexivity|]. intros [CV|CF]; [rewrite CV in OK | rewrite CF in OK]; lia.
Qed.

(* `var a int = 3` . `p := &a` . `var a float64 = 5` (another one-slot type) . `*p`  =>  3: the pointer keeps the OLD
   variable; the new a has slot 1 *)
Definition redef_witness : list (list stmt) :=
  [[SVar 1 KInt1 (EZ 3)]; [SVar 2 KBox (EAddr 1)]; [SVar 1 (KInt1T 1) (EZ 5)]].

Lemma redef_other_type_pointer_keeps_old :
  snd (evalInput fixed (runHistory fixed state0 redef_witness) [SRead (EDeref (EV 2))]) = Some (VZ 3) /\
  snd (evalInput fixed (runHistory fixed state0 redef_witness) [SRead (EV 1)]) = Some (VZ 5) /\
  lookupCI (scomp (runHistory fixed state0 redef_witness)) 1 = (0, 1).
Proof. vm_compute. auto. Qed.

(* same type: slot 0 is reused, the pointer follows the redefined variable (REPL semantics) *)
Definition redef_same : list (list stmt) :=
  [[SVar 1 KInt1 (EZ 3)]; [SVar 2 KBox (EAddr 1)]; [SVar 1 KInt1 (EZ 5)]].
Lemma redef_same_type_pointer_follows :
  snd (evalInput fixed (runHistory fixed state0 redef_same) [SRead (EDeref (EV 2))]) = Some (VZ 5) /\
  lookupCI (scomp (runHistory fixed state0 redef_same)) 1 = (0, 0).
Proof. vm_compute. auto. Qed.

(* C14 gap pass: the call-site callee cache of fast/call0ret1.go, call1ret1.go, callnret0.go (variants for a callee found in
   FileEnv) and why it is only sound for functions declared with `func` (FuncBind), not for variables of function type.

   Hand model, definitions + proofs in one small file (no correspondence run: the direct oracle is the funcvar stream of
   harness/cmd/c14/funcvar.go against compiled Go).

   A file-scope slot Vals[index] holds an xr.Value: [ident] stands for the identity of that xr.Value (type, pointer, flags:
   what `cachedfunv != funv` compares), [fn] for the function currently stored in it.
     f = lit            stores THROUGH the addressable xr.Value  -> same ident, new fn      (EAssign)
     func f() {...}     again: a NEW xr.Value is put in Vals[index] -> fresh ident, new fn  (ERedecl)
   The call site keeps (ident, fn) of the last callee it converted with funv.Interface().(func...). *)
From Coq Require Import List ZArith Bool Lia.
Import ListNotations.
Open Scope Z_scope.

Record cell := mkCell { ident : Z; fn : Z }.

Inductive ev :=
| EAssign (f : Z)
| ERedecl (f : Z)
| ECall.

Record st := mkSt { cur : cell; next : Z; cache : option (Z * Z) }.

Definition write (s : st) (e : ev) : st :=
  match e with
  | EAssign f => mkSt (mkCell (ident (cur s)) f) (next s) (cache s)
  | ERedecl f => mkSt (mkCell (next s) f) (next s + 1) (cache s)
  | ECall => s
  end.

(* the cached call site: `if cachedfunv != funv { cachedfun = funv.Interface().(func...); cachedfunv = funv }; cachedfun()` *)
Definition call_cached (s : st) : st * Z :=
  match cache s with
  | Some (i, g) =>
      if i =? ident (cur s) then (s, g)
      else (mkSt (cur s) (next s) (Some (ident (cur s), fn (cur s))), fn (cur s))
  | None => (mkSt (cur s) (next s) (Some (ident (cur s), fn (cur s))), fn (cur s))
  end.

(* the uncached call site: `fun := exprfun(env).Interface().(func...); fun()` *)
Definition call_uncached (s : st) : st * Z := (s, fn (cur s)).

Fixpoint run (call : st -> st * Z) (s : st) (evs : list ev) : list Z :=
  match evs with
  | [] => []
  | ECall :: r => let (s', v) := call s in v :: run call s' r
  | e :: r => run call (write s e) r
  end.

(* Go: a call executes the function most recently stored in / declared as f *)
Fixpoint spec (f : Z) (evs : list ev) : list Z :=
  match evs with
  | [] => []
  | ECall :: r => f :: spec f r
  | EAssign g :: r | ERedecl g :: r => spec g r
  end.

Definition no_assign (evs : list ev) : Prop := forall g, ~ In (EAssign g) evs.

Definition init (f : Z) : st := mkSt (mkCell 0 f) 1 None.

(* after commit C14-5: Comp.call_any selects the cached variants only for FuncBind callees *)
Definition run_fixed (isvar : bool) := if isvar then run call_uncached else run call_cached.

Lemma uncached_is_spec : forall evs s, run call_uncached s evs = spec (fn (cur s)) evs.
Proof.
  induction evs as [|e r IH]; intros s; [reflexivity|].
  destruct e; simpl; rewrite IH; reflexivity.
Qed.

Definition inv (s : st) : Prop :=
  ident (cur s) < next s /\
  match cache s with
  | Some (i, g) => i < next s /\ (i = ident (cur s) -> g = fn (cur s))
  | None => True
  end.

Lemma call_cached_inv : forall s, inv s -> inv (fst (call_cached s)) /\ snd (call_cached s) = fn (cur s) /\ cur (fst (call_cached s)) = cur s.
Proof.
  intros s [H1 H2]. unfold call_cached.
  destruct (cache s) as [[i g]|] eqn:E.
  - destruct (i =? ident (cur s)) eqn:Q; simpl.
    + apply Z.eqb_eq in Q. destruct H2 as [H2 H3]. repeat split; auto.
      unfold inv. rewrite E. auto.
    + repeat split; simpl; auto.
  - repeat split; simpl; auto.
Qed.

Lemma cached_is_spec_without_assign : forall evs s, inv s -> no_assign evs -> run call_cached s evs = spec (fn (cur s)) evs.
Proof.
  induction evs as [|e r IH]; intros s Hi Hn; [reflexivity|].
  assert (Hr : no_assign r) by (intros g Hg; apply (Hn g); right; exact Hg).
  destruct e as [f|f|].
  - exfalso. apply (Hn f). left. reflexivity.
  - simpl. rewrite IH; auto.
    destruct Hi as [H1 H2]. unfold inv; simpl. split; [lia|].
    destruct (cache s) as [[i g]|]; auto.
    destruct H2 as [H2 _]. split; [lia|]. intros ->. lia.
  - simpl. destruct (call_cached_inv s Hi) as [Hi' [Hv Hc]].
    destruct (call_cached s) as [s' v]. simpl in *. subst v.
    f_equal. rewrite IH; auto. rewrite Hc. reflexivity.
Qed.

Lemma init_inv : forall f, inv (init f).
Proof. intros f. unfold inv, init; simpl. split; [lia|exact I]. Qed.

(* every call site of the code after C14-5 executes the current callee, for every history: variables of function type
   (assigned any number of times) through the uncached variant, declared functions (re-declared any number of times;
   Go and gomacro reject an assignment to them) through the cached variant *)
Theorem call_site_sees_current_callee :
  forall (isvar : bool) f evs, (isvar = false -> no_assign evs) -> run_fixed isvar (init f) evs = spec f evs.
Proof.
  intros [|] f evs H; unfold run_fixed.
  - apply (uncached_is_spec evs (init f)).
  - apply (cached_is_spec_without_assign evs (init f)); [apply init_inv|auto].
Qed.

(* the code before C14-5 used the cached variant for variables too: the reported history *)
Theorem cell_keyed_cache_refuted_for_variables :
  exists f evs, run call_cached (init f) evs <> spec f evs.
Proof.
  exists 1, [ECall; EAssign 2; ECall]. vm_compute. discriminate.
Qed.

(* C14 — lemmas: bind-table well-formedness (slots in range, pairwise disjoint), stability of earlier
   binds, no reallocation of Env.Ints once an address was taken, IntBind/VarBind choice at the limit. *)
From Coq Require Import List ZArith Bool Lia.
From Verif Require Import C14.Model.
Import ListNotations.
Open Scope Z_scope.

(* ---------------- association lists ---------------- *)
Lemma bget_cons_eq : forall A (l : list (Z * A)) x b, bget ((x, b) :: l) x = Some b.
Proof. intros. simpl. rewrite Z.eqb_refl. reflexivity. Qed.

Lemma bget_cons_neq : forall A (l : list (Z * A)) x y b, y <> x -> bget ((x, b) :: l) y = bget l y.
Proof. intros. simpl. destruct (Z.eqb_spec y x); [contradiction | reflexivity]. Qed.

(* ---------------- well-formed bind tables ---------------- *)
Definition bind_ok (c : comp) (b : bind) : Prop :=
  match bcls b with
  | CInt => 0 <= bidx b /\ bidx b + need (bkind b) <= intBindNum c
  | CConst => bidx b = NoIndex
  | _ => 0 <= bidx b < bindNum c
  end.

(* two visible binds never share a slot *)
Definition disjoint (a b : bind) : Prop :=
  match bcls a, bcls b with
  | CInt, CInt => bidx a + need (bkind a) <= bidx b \/ bidx b + need (bkind b) <= bidx a
  | CConst, _ | _, CConst => True
  | CInt, _ | _, CInt => True
  | _, _ => bidx a <> bidx b
  end.

Record wf (c : comp) : Prop := mkWf {
  wf_bn : 0 <= bindNum c;
  wf_ibn : 0 <= intBindNum c;
  wf_ok : forall x b, bget (binds c) x = Some b -> bind_ok c b;
  wf_dis : forall x y bx by', x <> y -> bget (binds c) x = Some bx -> bget (binds c) y = Some by' -> disjoint bx by'
}.

(* the limit learnt from the environment is respected *)
Definition max_ok (c : comp) : Prop := intBindMax c = 0 \/ intBindNum c <= intBindMax c.

Lemma need_pos : forall k, 1 <= need k <= 2.
Proof. destruct k; simpl; lia. Qed.

Lemma wf_comp0 : wf comp0.
Proof. constructor; simpl; try lia; intros; discriminate. Qed.

Lemma choose_class_cases : forall c cl k,
  (cl = CFunc /\ choose_class c cl k = CFunc) \/ (cl = CConst /\ choose_class c cl k = CConst) \/
  ((cl = CInt \/ cl = CVar) /\
   ((choose_class c cl k = CInt /\ is_intkind k = true /\ (intBindMax c = 0 \/ intBindNum c + need k <= intBindMax c)) \/
    (choose_class c cl k = CVar /\ (is_intkind k = false \/ (intBindMax c <> 0 /\ intBindNum c + need k > intBindMax c))))).
Proof.
  intros c cl k.
  assert (H :
    ((if ((intBindMax c =? 0) || (intBindNum c + need k <=? intBindMax c)) && is_intkind k then CInt else CVar) = CInt /\
       is_intkind k = true /\ (intBindMax c = 0 \/ intBindNum c + need k <= intBindMax c)) \/
    ((if ((intBindMax c =? 0) || (intBindNum c + need k <=? intBindMax c)) && is_intkind k then CInt else CVar) = CVar /\
       (is_intkind k = false \/ (intBindMax c <> 0 /\ intBindNum c + need k > intBindMax c)))).
  { destruct (Z.eqb_spec (intBindMax c) 0) as [E0|E0];
    destruct (Z.leb_spec (intBindNum c + need k) (intBindMax c)) as [E1|E1];
    destruct (is_intkind k) eqn:E2; simpl; auto.
    right. split; auto. right. split; lia. }
  destruct cl; simpl; auto.
Qed.

(* shape of the table after NewBind *)
Lemma newBind_binds : forall c x cl k cv,
  let r := newBind c x cl k cv in
  (x = 0 /\ fst r = c) \/ (x <> 0 /\ binds (fst r) = (x, snd r) :: binds c).
Proof.
  intros c x cl k cv. unfold newBind. destruct (Z.eqb_spec x 0); [left; auto | right; split; auto].
  destruct (choose_class c cl k); simpl;
  repeat match goal with |- context [if ?b then _ else _] => destruct b end; reflexivity.
Qed.

Lemma newBind_max : forall c x cl k cv, intBindMax (fst (newBind c x cl k cv)) = intBindMax c.
Proof.
  intros. unfold newBind. destruct (x =? 0); [reflexivity|].
  destruct (choose_class c cl k); simpl;
  repeat match goal with |- context [if ?b then _ else _] => destruct b end; reflexivity.
Qed.

Lemma newBind_other : forall c x cl k cv y, y <> x ->
  bget (binds (fst (newBind c x cl k cv))) y = bget (binds c) y.
Proof.
  intros. destruct (newBind_binds c x cl k cv) as [[_ E] | [_ E]]; cbv zeta in E.
  - rewrite E. reflexivity.
  - rewrite E. apply bget_cons_neq. assumption.
Qed.

Lemma newBind_self : forall c x cl k cv, x <> 0 ->
  bget (binds (fst (newBind c x cl k cv))) x = Some (snd (newBind c x cl k cv)).
Proof.
  intros. destruct (newBind_binds c x cl k cv) as [[E _] | [_ E]]; cbv zeta in E; [contradiction|].
  rewrite E. apply bget_cons_eq.
Qed.

Lemma newBind_counters_mono : forall c x cl k cv,
  bindNum c <= bindNum (fst (newBind c x cl k cv)) /\ intBindNum c <= intBindNum (fst (newBind c x cl k cv)).
Proof.
  intros. unfold newBind. destruct (x =? 0); [simpl; lia|].
  pose proof (need_pos k).
  destruct (choose_class c cl k); simpl;
  repeat match goal with |- context [if ?b then _ else _] => destruct b end; simpl; lia.
Qed.

Lemma bind_ok_mono : forall c c' b, bindNum c <= bindNum c' -> intBindNum c <= intBindNum c' -> bind_ok c b -> bind_ok c' b.
Proof. unfold bind_ok. intros. destruct (bcls b); lia. Qed.

Lemma disjoint_sym : forall a b, disjoint a b -> disjoint b a.
Proof. unfold disjoint. intros a b. destruct (bcls a), (bcls b); intuition. Qed.

(* the class of the bind returned by NewBind *)
Lemma newBind_cls : forall c x cl k cv, bcls (snd (newBind c x cl k cv)) = choose_class c cl k /\ bkind (snd (newBind c x cl k cv)) = k.
Proof.
  intros. unfold newBind. destruct (x =? 0); [simpl; auto|].
  destruct (choose_class c cl k); simpl;
  repeat match goal with |- context [if ?b then _ else _] => destruct b end; simpl; auto.
Qed.

(* NewBind keeps the table well formed, and respects the limit *)
Lemma newBind_wf : forall c x cl k cv, wf c -> max_ok c ->
  wf (fst (newBind c x cl k cv)) /\ max_ok (fst (newBind c x cl k cv)).
Proof.
  intros c x cl k cv W M. destruct W as [Wb Wi Wok Wdis].
  pose proof (need_pos k) as NP.
  pose proof (choose_class_cases c cl k) as CC.
  unfold newBind. destruct (Z.eqb_spec x 0) as [X0|X0].
  { simpl. split; [constructor; auto | auto]. }
  set (class := choose_class c cl k) in *.
  set (idx0 := match bget (binds c) x with
    | Some b => if Bool.eqb (is_CInt (bcls b)) (is_CInt class) && kind_eqb (bkind b) k then bidx b else NoIndex
    | None => NoIndex end).
  (* facts about a reused index *)
  assert (R : idx0 = NoIndex \/ exists b, bget (binds c) x = Some b /\ idx0 = bidx b /\
              is_CInt (bcls b) = is_CInt class /\ need k <= need (bkind b)).
  { unfold idx0. destruct (bget (binds c) x) as [b|] eqn:G; [|auto].
    destruct (Bool.eqb (is_CInt (bcls b)) (is_CInt class)) eqn:E1; simpl; [|auto].
    destruct (kind_eqb (bkind b) k) eqn:E2; [|auto].
    right. exists b. repeat split; auto. apply eqb_prop; auto.
    destruct (bkind b), k; simpl in *; try lia; discriminate. }
  clearbody idx0.
  (* generic builder: a new table (x, nb) :: binds c with monotone counters *)
  assert (BUILD : forall nb bn ibn,
            bindNum c <= bn -> intBindNum c <= ibn ->
            bind_ok (mkComp ((x, nb) :: binds c) bn ibn (intBindMax c)) nb ->
            (forall y by', y <> x -> bget (binds c) y = Some by' -> disjoint nb by') ->
            wf (mkComp ((x, nb) :: binds c) bn ibn (intBindMax c))).
  { intros nb bn ibn H1 H2 H3 H4. constructor; simpl; try lia.
    - intros y b G. destruct (Z.eqb_spec y x).
      + inversion G; subst; auto.
      + apply Wok in G. eapply bind_ok_mono; [| |exact G]; simpl; lia.
    - intros y z by' bz NE Gy Gz. destruct (Z.eqb_spec y x), (Z.eqb_spec z x); subst.
      + contradiction.
      + inversion Gy; subst. exact (H4 z bz n Gz).
      + inversion Gz; subst. apply disjoint_sym. exact (H4 y by' n Gy).
      + exact (Wdis y z by' bz NE Gy Gz). }
  destruct class eqn:CL.
  - (* CInt *)
    assert (LIM : intBindMax c = 0 \/ intBindNum c + need k <= intBindMax c).
    { destruct CC as [[_ E]|[[_ E]|[_ [[_ [_ L]]|[E _]]]]]; try discriminate; auto. }
    destruct (Z.eqb_spec idx0 NoIndex) as [NI|NI]; simpl.
    + split.
      * apply BUILD; try lia.
        -- unfold bind_ok; simpl. lia.
        -- intros y by' NE G. pose proof (Wok _ _ G) as OK. unfold bind_ok in OK. unfold disjoint; simpl.
           destruct (bcls by'); auto. right. lia.
      * unfold max_ok in *; simpl. lia.
    + destruct R as [R|[b [G [E [CI NK]]]]]; [contradiction|]. split.
      * apply BUILD; try lia.
        -- pose proof (Wok _ _ G) as OK. unfold bind_ok in *; simpl in *.
           destruct (bcls b); simpl in CI; try discriminate. lia.
        -- intros y by' NE G'. pose proof (Wdis x y b by' (not_eq_sym NE) G G') as D.
           pose proof (Wok _ _ G) as OK. unfold bind_ok in OK.
           unfold disjoint in *; simpl in *. destruct (bcls b); simpl in CI; try discriminate.
           destruct (bcls by'); auto. lia.
      * unfold max_ok in *; simpl. auto.
  - (* CVar *)
    destruct (Z.eqb_spec idx0 NoIndex) as [NI|NI]; simpl.
    + split.
      * apply BUILD; try lia.
        -- unfold bind_ok; simpl. lia.
        -- intros y by' NE G. pose proof (Wok _ _ G) as OK. unfold bind_ok in OK. unfold disjoint; simpl.
           destruct (bcls by'); auto; lia.
      * unfold max_ok in *; simpl. auto.
    + destruct R as [R|[b [G [E [CI NK]]]]]; [contradiction|]. split.
      * apply BUILD; try lia.
        -- pose proof (Wok _ _ G) as OK. unfold bind_ok in *; simpl in *.
           destruct (bcls b); simpl in CI; try discriminate; try lia; unfold NoIndex in *; lia.
        -- intros y by' NE G'. pose proof (Wdis x y b by' (not_eq_sym NE) G G') as D.
           pose proof (Wok _ _ G) as OK. unfold bind_ok in OK.
           unfold disjoint in *; simpl in *. destruct (bcls b); simpl in CI; try discriminate;
           destruct (bcls by'); auto; try lia. all: unfold NoIndex in *; try lia.
           all: pose proof (Wok _ _ G') as OK'; unfold bind_ok in OK'; try lia.
      * unfold max_ok in *; simpl. auto.
  - (* CFunc *)
    destruct (Z.eqb_spec idx0 NoIndex) as [NI|NI]; simpl.
    + split.
      * apply BUILD; try lia.
        -- unfold bind_ok; simpl. lia.
        -- intros y by' NE G. pose proof (Wok _ _ G) as OK. unfold bind_ok in OK. unfold disjoint; simpl.
           destruct (bcls by'); auto; lia.
      * unfold max_ok in *; simpl. auto.
    + destruct R as [R|[b [G [E [CI NK]]]]]; [contradiction|]. split.
      * apply BUILD; try lia.
        -- pose proof (Wok _ _ G) as OK. unfold bind_ok in *; simpl in *.
           destruct (bcls b); simpl in CI; try discriminate; try lia; unfold NoIndex in *; lia.
        -- intros y by' NE G'. pose proof (Wdis x y b by' (not_eq_sym NE) G G') as D.
           pose proof (Wok _ _ G) as OK. unfold bind_ok in OK.
           unfold disjoint in *; simpl in *. destruct (bcls b); simpl in CI; try discriminate;
           destruct (bcls by'); auto; try lia. all: unfold NoIndex in *; try lia.
           all: pose proof (Wok _ _ G') as OK'; unfold bind_ok in OK'; try lia.
      * unfold max_ok in *; simpl. auto.
  - (* CConst *)
    simpl. split.
    + apply BUILD; try lia.
      * unfold bind_ok; simpl. reflexivity.
      * intros. unfold disjoint; simpl. destruct (bcls by'); auto.
    + unfold max_ok in *; simpl. auto.
Qed.

(* ---------------- compile phase ---------------- *)
Definition undeclared (s : stmt) (x : name) : Prop :=
  match s with SVar y _ _ => x <> y | SFunc y _ _ => x <> y | SConst y _ => x <> y | _ => True end.

Record cstep (c c' : comp) : Prop := mkCstep {
  cs_wf : wf c -> max_ok c -> wf c' /\ max_ok c';
  cs_max : intBindMax c' = intBindMax c;
  cs_bn : bindNum c <= bindNum c';
  cs_ibn : intBindNum c <= intBindNum c'
}.

Lemma cstep_refl : forall c, cstep c c.
Proof. intros. constructor; auto; lia. Qed.

Lemma cstep_trans : forall a b c, cstep a b -> cstep b c -> cstep a c.
Proof.
  intros a b c [W1 M1 B1 I1] [W2 M2 B2 I2]. constructor; try lia.
  intros. destruct (W1 H H0). auto.
Qed.

Lemma cstep_newBind : forall c x cl k cv, cstep c (fst (newBind c x cl k cv)).
Proof.
  intros. constructor.
  - intros. apply newBind_wf; auto.
  - apply newBind_max.
  - apply newBind_counters_mono.
  - apply newBind_counters_mono.
Qed.

Lemma compileStmt_step : forall c s c' code, compileStmt c s = Some (c', code) ->
  cstep c c' /\ (forall x, undeclared s x -> bget (binds c') x = bget (binds c) x).
Proof.
  intros c s c' code H. destruct s; simpl in H.
  - destruct (compileExpr c e); [|discriminate].
    destruct (newBind c x CVar k 0) as [c1 b] eqn:NB.
    assert (c' = c1) by (destruct (bidx b =? NoIndex); [|destruct (bcls b)]; inversion H; auto). subst c1.
    change c' with (fst (c', b)). rewrite <- NB. split; [apply cstep_newBind|].
    intros y U. apply newBind_other. exact U.
  - destruct (bget (binds c) x) as [b|]; [|discriminate]. destruct (compileExpr c e); [|discriminate].
    destruct (bcls b); inversion H; subst; split; auto using cstep_refl.
  - destruct (compileExpr c p); [|discriminate]. destruct (compileExpr c e); [|discriminate].
    inversion H; subst; split; auto using cstep_refl.
  - destruct (compileExpr c e); [|discriminate]. inversion H; subst; split; auto using cstep_refl.
  - destruct (newBind c f CFunc (KBoxT t) 0) as [c1 b] eqn:NB. destruct ok; [|discriminate].
    assert (c' = c1) by (destruct (bidx b =? NoIndex); inversion H; auto). subst c1.
    change c' with (fst (c', b)). rewrite <- NB. split; [apply cstep_newBind|].
    intros y U. apply newBind_other. exact U.
  - destruct (newBind c x CConst KBox z) as [c1 b] eqn:NB. inversion H; subst.
    change c' with (fst (c', b)). rewrite <- NB. split; [apply cstep_newBind|].
    intros y U. apply newBind_other. exact U.
  - inversion H; subst; split; auto using cstep_refl.
  - discriminate.
Qed.

Lemma compileAll_step : forall ss c acc c' code, compileAll c ss acc = (c', Some code) ->
  cstep c c' /\ (forall x, ~ In x (declared ss) -> bget (binds c') x = bget (binds c) x).
Proof.
  induction ss as [|s ss IH]; intros c acc c' code H; simpl in H.
  - inversion H; subst. split; auto using cstep_refl.
  - destruct (compileStmt c s) as [[c1 code1]|] eqn:CS.
    + destruct (compileStmt_step _ _ _ _ CS) as [S1 O1].
      destruct (IH _ _ _ _ H) as [S2 O2]. split; [eapply cstep_trans; eauto|].
      intros x NI. rewrite O2, O1; auto.
      * destruct s; simpl in *; auto; intro; subst; apply NI; auto.
      * intro. apply NI. unfold declared in *. simpl. apply in_or_app. right. exact H0.
    + destruct s; try discriminate. destruct ok; discriminate.
Qed.

(* ---------------- execution never resizes or moves the slot arrays ---------------- *)
Record same_shape (e e' : env) : Prop := mkShape {
  sh_vc : valsCap e' = valsCap e; sh_vl : valsLen e' = valsLen e;
  sh_ic : intsCap e' = intsCap e; sh_il : intsLen e' = intsLen e;
  sh_id : intsId e' = intsId e;
  sh_tk : taken e = true -> taken e' = true
}.

Lemma shape_refl : forall e, same_shape e e.
Proof. intros; constructor; auto. Qed.

Lemma shape_trans : forall a b c, same_shape a b -> same_shape b c -> same_shape a c.
Proof. intros a b c [] []. constructor; try congruence. auto. Qed.

Fixpoint has_addr (ce : cexpr) : bool :=
  match ce with
  | CAddrInt _ => true
  | CDeref a => has_addr a
  | CAdd a b => has_addr a || has_addr b
  | _ => false
  end.

Definition instr_has_addr (i : instr) : bool :=
  match i with
  | IInt _ e | IBoxDecl _ e | IBoxSet _ e | IEval e | IRead e => has_addr e
  | IStore p e => has_addr p || has_addr e
  | IFun _ _ => false
  end.

Lemma evalC_shape : forall ce e, same_shape e (fst (evalC e ce)) /\
  (taken (fst (evalC e ce)) = true -> taken e = true \/ has_addr ce = true).
Proof.
  induction ce; intros e; simpl; try (split; [apply shape_refl | auto]).
  - split; [constructor; auto | auto].
  - specialize (IHce e). destruct (evalC e ce) as [e1 p]. simpl in *. exact IHce.
  - specialize (IHce1 e). destruct (evalC e ce1) as [e1 x]. simpl in *.
    specialize (IHce2 e1). destruct (evalC e1 ce2) as [e2 y]. simpl in *.
    destruct IHce1 as [S1 T1], IHce2 as [S2 T2]. split; [eapply shape_trans; eauto|].
    intro T. destruct (T2 T) as [T'|A]; [destruct (T1 T') as [|A]; auto|]; right.
    + rewrite A. reflexivity.
    + rewrite A. apply orb_true_r.
Qed.

Lemma execInstr_shape : forall i e, same_shape e (fst (execInstr e i)) /\
  (taken (fst (execInstr e i)) = true -> taken e = true \/ instr_has_addr i = true).
Proof.
  destruct i; intros e0; simpl.
  - pose proof (evalC_shape e e0) as [S T]. destruct (evalC e0 e) as [e1 v]. simpl in *.
    split; [destruct S; constructor; auto | auto].
  - pose proof (evalC_shape e e0) as [S T]. destruct (evalC e0 e) as [e1 v]. simpl in *.
    split; [destruct S; constructor; auto | auto].
  - pose proof (evalC_shape e e0) as [S T]. destruct (evalC e0 e) as [e1 v]. simpl in *.
    destruct (bget (vals e1) i); simpl; split; auto; destruct S; constructor; auto.
  - split; [constructor; auto | auto].
  - pose proof (evalC_shape p e0) as [S1 T1]. destruct (evalC e0 p) as [e1 pv]. simpl in *.
    pose proof (evalC_shape e e1) as [S2 T2]. destruct (evalC e1 e) as [e2 v]. simpl in *.
    assert (S : same_shape e0 e2) by (eapply shape_trans; eauto).
    assert (T : taken e2 = true -> taken e0 = true \/ has_addr p || has_addr e = true).
    { intro T. destruct (T2 T) as [T'|A]; [destruct (T1 T') as [|A]; auto|]; right.
      - rewrite A. reflexivity.
      - rewrite A. apply orb_true_r. }
    unfold storeVia. destruct pv; simpl; auto; try (split; auto; destruct S; constructor; auto; fail).
    destruct (aid =? intsId e2); simpl; split; auto; destruct S; constructor; auto.
  - pose proof (evalC_shape e e0) as [S T]. destruct (evalC e0 e) as [e1 v]. simpl in *. auto.
  - pose proof (evalC_shape e e0) as [S T]. destruct (evalC e0 e) as [e1 v]. simpl in *. auto.
Qed.

Definition code_has_addr (code : list instr) : bool := existsb instr_has_addr code.

Lemma execAll_shape : forall code e last, same_shape e (fst (execAll e code last)) /\
  (taken (fst (execAll e code last)) = true -> taken e = true \/ code_has_addr code = true).
Proof.
  induction code as [|i code IH]; intros e last; simpl.
  - split; [apply shape_refl | auto].
  - pose proof (execInstr_shape i e) as [S1 T1]. destruct (execInstr e i) as [e1 r]. simpl in *.
    specialize (IH e1 (match r with Some v => Some v | None => last end)). destruct IH as [S2 T2].
    split; [eapply shape_trans; eauto|].
    intro T. destruct (T2 T) as [T'|A]; [destruct (T1 T') as [|A]; auto|]; right.
    + rewrite A. reflexivity.
    + rewrite A. apply orb_true_r.
Qed.

(* code that takes the address of an Ints slot can only be compiled when such a slot exists *)
Lemma compileExpr_addr : forall c e ce, wf c -> compileExpr c e = Some ce -> has_addr ce = true -> 1 <= intBindNum c.
Proof.
  intros c e. induction e; intros ce W H A; simpl in H.
  - inversion H; subst; discriminate.
  - destruct (bget (binds c) x) as [b|]; [|discriminate]. destruct (bcls b); inversion H; subst; discriminate.
  - destruct (bget (binds c) x) as [b|] eqn:G; [|discriminate].
    destruct (bcls b) eqn:CL; inversion H; subst; try discriminate.
    pose proof (wf_ok _ W _ _ G) as OK. unfold bind_ok in OK. rewrite CL in OK. pose proof (need_pos (bkind b)). lia.
  - destruct (compileExpr c e) as [a|]; [|discriminate]. inversion H; subst. simpl in A. eauto.
  - destruct (compileExpr c e1) as [a|]; [|discriminate]. destruct (compileExpr c e2) as [b|]; [|discriminate].
    inversion H; subst. simpl in A. apply orb_true_iff in A. destruct A; eauto.
Qed.

Lemma compileStmt_addr : forall c s c' code, wf c -> max_ok c -> compileStmt c s = Some (c', code) ->
  code_has_addr code = true -> 1 <= intBindNum c.
Proof.
  intros c s c' code W M H A. destruct s; simpl in H.
  - destruct (compileExpr c e) as [ce|] eqn:CE; [|discriminate].
    destruct (newBind c x CVar k 0) as [c1 b].
    assert (code = [IEval ce] \/ code = [IInt (bidx b) ce] \/ code = [IBoxDecl (bidx b) ce])
      by (destruct (bidx b =? NoIndex); [|destruct (bcls b)]; inversion H; auto).
    destruct H0 as [|[|]]; subst; simpl in A; rewrite orb_false_r in A; eapply compileExpr_addr; eauto.
  - destruct (bget (binds c) x) as [b|]; [|discriminate]. destruct (compileExpr c e) as [ce|] eqn:CE; [|discriminate].
    destruct (bcls b); inversion H; subst; simpl in A; rewrite orb_false_r in A; eapply compileExpr_addr; eauto.
  - destruct (compileExpr c p) as [cp|] eqn:CP; [|discriminate]. destruct (compileExpr c e) as [ce|] eqn:CE; [|discriminate].
    inversion H; subst; simpl in A; rewrite orb_false_r in A. apply orb_true_iff in A.
    destruct A as [A|A]; [exact (compileExpr_addr _ _ _ W CP A) | exact (compileExpr_addr _ _ _ W CE A)].
  - destruct (compileExpr c e) as [ce|] eqn:CE; [|discriminate].
    inversion H; subst; simpl in A; rewrite orb_false_r in A; eapply compileExpr_addr; eauto.
  - destruct (newBind c f CFunc (KBoxT t) 0) as [c1 b]. destruct ok; [|discriminate].
    destruct (bidx b =? NoIndex); inversion H; subst; simpl in A; discriminate.
  - destruct (newBind c x CConst KBox z). inversion H; subst. discriminate.
  - inversion H; subst. discriminate.
  - discriminate.
Qed.

Lemma code_has_addr_app : forall a b, code_has_addr (a ++ b) = code_has_addr a || code_has_addr b.
Proof. intros. unfold code_has_addr. apply existsb_app. Qed.

Lemma compileAll_addr : forall ss c acc c' code, wf c -> max_ok c -> compileAll c ss acc = (c', Some code) ->
  code_has_addr code = true -> code_has_addr acc = true \/ 1 <= intBindNum c'.
Proof.
  induction ss as [|s ss IH]; intros c acc c' code W M H A; simpl in H.
  - inversion H; subst. auto.
  - destruct (compileStmt c s) as [[c1 code1]|] eqn:CS.
    + destruct (compileStmt_step _ _ _ _ CS) as [S1 _]. destruct (cs_wf _ _ S1 W M) as [W1 M1].
      destruct (IH _ _ _ _ W1 M1 H A) as [AA|]; auto.
      rewrite code_has_addr_app in AA. apply orb_true_iff in AA. destruct AA as [|A1]; auto.
      right. pose proof (compileStmt_addr _ _ _ _ W M CS A1).
      destruct (compileAll_step _ _ _ _ _ H) as [S2 _]. pose proof (cs_ibn _ _ S1). pose proof (cs_ibn _ _ S2). lia.
    + destruct s; try discriminate. destruct ok; discriminate.
Qed.

(* ---------------- prepareEnv ---------------- *)
Lemma grow_ge : forall cap min d, cap < min -> min <= grow cap min d.
Proof.
  intros. unfold grow. destruct (Z.ltb_spec (cap * 2) min);
  match goal with |- context [if ?b then _ else _] => destruct b eqn:E end;
  try apply Z.ltb_lt in E; try apply Z.ltb_ge in E; lia.
Qed.

(* the state invariant between evaluations *)
Record Inv (st : state) : Prop := mkInv {
  i_wf : wf (scomp st);
  i_max0 : taken (senv st) = false -> intBindMax (scomp st) = 0;
  i_max : intBindMax (scomp st) = 0 \/ intBindMax (scomp st) = intsCap (senv st);
  i_cap1 : taken (senv st) = true -> 1 <= intsCap (senv st);
  i_vals : bindNum (scomp st) <= valsLen (senv st) <= valsCap (senv st);
  i_ints : intBindNum (scomp st) <= intsLen (senv st) <= intsCap (senv st)
}.

Lemma Inv0 : Inv state0.
Proof. constructor; simpl; auto using wf_comp0; try lia; try discriminate. Qed.

Lemma wf_setMax : forall c m, wf c -> wf (setMax c m).
Proof. intros c m []. constructor; auto. Qed.

Definition out_state (r : state * status * option val) : state := fst (fst r).
Definition out_status (r : state * status * option val) : status := snd (fst r).

(* one evaluation (current code): invariant kept, never the internal error, Ints never moves once an
   address was taken, binds of names the input does not declare are untouched *)
Lemma evalInput_inv : forall st ss, Inv st ->
  let r := evalInput fixed st ss in
  Inv (out_state r) /\ out_status r <> InternalError /\
  (taken (senv st) = true -> intsId (senv (out_state r)) = intsId (senv st) /\ taken (senv (out_state r)) = true) /\
  (forall x, ~ In x (declared ss) -> bget (binds (scomp (out_state r))) x = bget (binds (scomp st)) x) /\
  (out_status r = CompileError -> senv (out_state r) = senv st /\ binds (scomp (out_state r)) = binds (scomp st)
     /\ bindNum (scomp (out_state r)) = bindNum (scomp st) /\ intBindNum (scomp (out_state r)) = intBindNum (scomp st)).
Proof.
  intros [c e] ss [W M0 MX C1 VL IL]; simpl in *.
  unfold evalInput; simpl.
  set (c0 := updateIntBindMax c e).
  assert (B0 : binds c0 = binds c /\ bindNum c0 = bindNum c /\ intBindNum c0 = intBindNum c)
    by (unfold c0, updateIntBindMax; destruct (taken e); simpl; auto).
  destruct B0 as [B0 [B1 B2]].
  assert (W0 : wf c0) by (unfold c0, updateIntBindMax; destruct (taken e); auto using wf_setMax).
  assert (MAX0 : (taken e = true -> intBindMax c0 = intsCap e) /\ (taken e = false -> intBindMax c0 = 0)).
  { unfold c0, updateIntBindMax. destruct (taken e); simpl; split; auto; discriminate. }
  destruct MAX0 as [MT MF].
  assert (MO : max_ok c0).
  { unfold max_ok. destruct (taken e) eqn:T; [right; rewrite MT, B2; auto; lia | left; auto]. }
  destruct (compileAll c0 ss []) as [c1 [code|]] eqn:CA.
  - (* compiled *)
    destruct (compileAll_step _ _ _ _ _ CA) as [S OTH].
    destruct (cs_wf _ _ S W0 MO) as [W1 MO1].
    pose proof (cs_max _ _ S) as MX1. pose proof (cs_bn _ _ S) as BN1. pose proof (cs_ibn _ _ S) as IBN1.
    unfold prepareEnv.
    (* Vals part *)
    set (ev := prepareVals c1 e).
    assert (EV : bindNum c1 <= valsLen ev <= valsCap ev /\ intsCap ev = intsCap e /\ intsLen ev = intsLen e /\
                 intsId ev = intsId e /\ taken ev = taken e).
    { unfold ev, prepareVals. destruct (Z.ltb_spec (valsCap e) (bindNum c1)); simpl.
      - pose proof (grow_ge (valsCap e) (bindNum c1) 16 H). repeat split; auto; lia.
      - destruct (Z.ltb_spec (valsLen e) (bindNum c1)); simpl; repeat split; auto; lia. }
    destruct EV as [EV1 [EV2 [EV3 [EV4 EV5]]]].
    unfold prepareInts. rewrite EV2, EV3, EV5.
    destruct (Z.ltb_spec (intsCap e) (intBindNum c1)) as [LT|GE].
    + destruct (taken e) eqn:T.
      * (* impossible: the limit was known to the compiler *)
        exfalso. specialize (MT eq_refl). specialize (C1 eq_refl).
        unfold max_ok in MO1. rewrite MX1, MT in MO1. lia.
      * (* reallocation while no address was taken *)
        simpl.
        match goal with |- context [execAll ?ee code None] => set (e2 := ee) end.
        pose proof (execAll_shape code e2 None) as [SH TK]. destruct (execAll e2 code None) as [e3 r]. simpl in *.
        destruct SH as [s1 s2 s3 s4 s5 s6]. unfold e2 in *; simpl in *.
        pose proof (grow_ge (intsCap e) (intBindNum c1) 1024 LT) as GG.
        unfold out_state, out_status; simpl.
        split; [|split; [discriminate|split; [discriminate|split; [|discriminate]]]].
        -- assert (MZ : intBindMax c1 = 0) by (rewrite MX1; auto).
           constructor; simpl; [exact W1 | auto | auto | | lia | lia].
           intro T3. destruct (TK T3) as [|A]; [discriminate|].
              destruct (compileAll_addr _ _ _ _ _ W0 MO CA A) as [|]; [discriminate|]. lia.
        -- intros x NI. rewrite OTH, B0; auto.
    + (* no reallocation *)
      assert (E2 : exists e2, (if intsLen e <? intBindNum c1
                  then Some (mkEnv (valsCap ev) (valsLen ev) (vals ev) (cells ev) (nextCell ev) (intsCap e) (intBindNum c1) (intsId ev) (ints ev) (dead ev) (taken e))
                  else Some ev) = Some e2 /\ valsCap e2 = valsCap ev /\ valsLen e2 = valsLen ev /\ intsCap e2 = intsCap e /\
                  intBindNum c1 <= intsLen e2 <= intsCap e /\ intsId e2 = intsId e /\ taken e2 = taken e).
      { destruct (Z.ltb_spec (intsLen e) (intBindNum c1)).
        - eexists; split; [reflexivity|]; simpl; repeat split; auto; lia.
        - exists ev; repeat split; auto; lia. }
      destruct E2 as [e2 [E2 [F1 [F2 [F3 [F4 [F5 F6]]]]]]]. rewrite E2. simpl.
      set (c2 := if taken e2 then setMax c1 (intsCap e2) else c1).
      pose proof (execAll_shape code e2 None) as [SH TK]. destruct (execAll e2 code None) as [e3 r]. simpl in *.
      destruct SH as [s1 s2 s3 s4 s5 s6].
      unfold out_state, out_status; simpl.
      assert (C2 : binds c2 = binds c1 /\ bindNum c2 = bindNum c1 /\ intBindNum c2 = intBindNum c1 /\ wf c2)
        by (unfold c2; destruct (taken e2); simpl; auto using wf_setMax).
      destruct C2 as [C2a [C2b [C2c C2d]]].
      split; [|split; [discriminate|split; [|split; [|discriminate]]]].
      * constructor; simpl; auto; try lia.
        -- intro T3. assert (T2 : taken e2 = false) by (destruct (taken e2); auto; specialize (s6 eq_refl); congruence).
           unfold c2. rewrite T2. rewrite MX1. apply MF. congruence.
        -- unfold c2. destruct (taken e2) eqn:T2; simpl; [right; congruence|].
           left. rewrite MX1. apply MF. congruence.
        -- intro T3. rewrite s3, F3. destruct (taken e) eqn:T; [auto|].
           destruct (TK T3) as [T2|A]; [congruence|].
           destruct (compileAll_addr _ _ _ _ _ W0 MO CA A) as [|]; [discriminate|]. lia.
      * intro T. split; [congruence|]. apply s6. congruence.
      * intros x NI. rewrite C2a, OTH, B0; auto.
  - (* compile error: the table is restored *)
    unfold out_state, out_status; simpl.
    split; [|split; [discriminate|split; [auto|split; [|intros _; auto]]]].
    + constructor; simpl; auto; try lia.
      * unfold c0, updateIntBindMax. destruct (taken e); simpl; auto.
    + intros. rewrite B0. reflexivity.
Qed.

(* ---------------- histories ---------------- *)
Lemma runHistory_app : forall g h1 h2 st, runHistory g st (h1 ++ h2) = runHistory g (runHistory g st h1) h2.
Proof. induction h1; intros; simpl; auto. Qed.

Lemma history_inv : forall h st, Inv st -> Inv (runHistory fixed st h).
Proof.
  induction h as [|ss h IH]; intros st I; simpl; auto.
  apply IH. apply (evalInput_inv st ss I).
Qed.

Theorem slots_invariant : forall h, Inv (runHistory fixed state0 h).
Proof. intros. apply history_inv, Inv0. Qed.

Theorem no_realloc_error : forall h ss,
  out_status (evalInput fixed (runHistory fixed state0 h) ss) <> InternalError.
Proof. intros. apply (evalInput_inv _ ss (slots_invariant h)). Qed.

Lemma addr_stable_from : forall h st, Inv st -> taken (senv st) = true ->
  intsId (senv (runHistory fixed st h)) = intsId (senv st) /\ taken (senv (runHistory fixed st h)) = true.
Proof.
  induction h as [|ss h IH]; intros st I T; simpl; auto.
  destruct (evalInput_inv st ss I) as [I' [_ [A _]]]. destruct (A T) as [A1 A2].
  destruct (IH _ I' A2) as [B1 B2]. split; [|exact B2]. unfold out_state in *. congruence.
Qed.

Theorem addr_stable : forall h1 h2,
  let st := runHistory fixed state0 h1 in
  taken (senv st) = true ->
  intsId (senv (runHistory fixed state0 (h1 ++ h2))) = intsId (senv st) /\
  taken (senv (runHistory fixed state0 (h1 ++ h2))) = true.
Proof. intros. rewrite runHistory_app. apply addr_stable_from; auto. apply slots_invariant. Qed.

Lemma visible_from : forall h st x, Inv st -> (forall ss, In ss h -> ~ In x (declared ss)) ->
  bget (binds (scomp (runHistory fixed st h))) x = bget (binds (scomp st)) x.
Proof.
  induction h as [|ss h IH]; intros st x I N; simpl; auto.
  destruct (evalInput_inv st ss I) as [I' [_ [_ [V _]]]].
  rewrite IH; auto.
  - apply V. apply N. left; auto.
  - intros. apply N. right; auto.
Qed.

Theorem later_decls_visible : forall h1 h2 x,
  (forall ss, In ss h2 -> ~ In x (declared ss)) ->
  bget (binds (scomp (runHistory fixed state0 (h1 ++ h2)))) x = bget (binds (scomp (runHistory fixed state0 h1))) x.
Proof. intros. rewrite runHistory_app. apply visible_from; auto. apply slots_invariant. Qed.

(* the pointer produced by &x designates the current backing array, and marks it *)
Lemma addr_creates_current : forall e i, evalC e (CAddrInt i) = (setTaken e, VPtrI (intsId e) i).
Proof. reflexivity. Qed.

(* `*p = v` through a pointer taken in an earlier evaluation, then a read of x, whatever happened in between *)
Theorem pointer_stays_aliased : forall h1 h2 x b v,
  let st1 := runHistory fixed state0 h1 in
  let st2 := runHistory fixed state0 (h1 ++ h2) in
  taken (senv st1) = true ->
  bget (binds (scomp st1)) x = Some b -> bcls b = CInt ->
  (forall ss, In ss h2 -> ~ In x (declared ss)) ->
  let p := VPtrI (intsId (senv st1)) (bidx b) in
  compileExpr (scomp st2) (EV x) = Some (CIntSlot (bidx b)) /\
  snd (evalC (storeVia (senv st2) p v) (CIntSlot (bidx b))) = v.
Proof.
  intros h1 h2 x b v st1 st2 T G CL N p.
  pose proof (later_decls_visible h1 h2 x N) as V. fold st2 st1 in V.
  destruct (addr_stable h1 h2 T) as [ID _]. fold st2 st1 in ID.
  split.
  - simpl. rewrite V, G, CL. reflexivity.
  - unfold p, storeVia. rewrite <- ID, Z.eqb_refl. simpl. unfold vget. rewrite bget_cons_eq. reflexivity.
Qed.

(* IntBind while the array has room, boxed (VarBind) after *)
Theorem boxed_after_max : forall c e x k cv,
  taken e = true -> 1 <= intsCap e ->
  bcls (snd (newBind (updateIntBindMax c e) x CVar k cv)) =
    if is_intkind k && (intBindNum c + need k <=? intsCap e) then CInt else CVar.
Proof.
  intros c e x k cv T C. destruct (newBind_cls (updateIntBindMax c e) x CVar k cv) as [E _]. rewrite E.
  unfold updateIntBindMax. rewrite T. unfold choose_class, setMax; simpl.
  destruct (Z.eqb_spec (intsCap e) 0); [lia|]. simpl. rewrite andb_comm. reflexivity.
Qed.

(* every slot of a well-formed table is inside the arrays prepared for execution *)
Theorem slots_in_range : forall h x b, bget (binds (scomp (runHistory fixed state0 h))) x = Some b ->
  let st := runHistory fixed state0 h in
  match bcls b with
  | CInt => 0 <= bidx b /\ bidx b + need (bkind b) <= intsLen (senv st)
  | CConst => True
  | _ => 0 <= bidx b < valsLen (senv st)
  end.
Proof.
  intros h x b G st. pose proof (slots_invariant h) as I. fold st in I.
  pose proof (wf_ok _ (i_wf _ I) _ _ G) as OK. unfold bind_ok in OK.
  pose proof (i_vals _ I). pose proof (i_ints _ I).
  destruct (bcls b); auto; lia.
Qed.

Theorem slots_disjoint : forall h x y bx by', x <> y ->
  bget (binds (scomp (runHistory fixed state0 h))) x = Some bx ->
  bget (binds (scomp (runHistory fixed state0 h))) y = Some by' -> disjoint bx by'.
Proof. intros h. exact (wf_dis _ (i_wf _ (slots_invariant h))). Qed.

(* ---------------- the defect repaired by commit C14-2, on the model of the previous code ---------------- *)
Definition decls1100 : list stmt := map (fun i => SVar (3 + Z.of_nat i) KInt1 (EZ (Z.of_nat i))) (seq 0 1100).
Definition witness13 : list (list stmt) := [[SVar 1 KInt1 (EZ 0)]; [SVar 2 KBox (EAddr 1)]].

Lemma growth_refuted_before_fix :
  out_status (evalInput before_fix (runHistory before_fix state0 witness13) decls1100) = InternalError /\
  (* and every later input fails as well *)
  out_status (evalInput before_fix (runHistory before_fix state0 (witness13 ++ [decls1100])) [SRead (EV 1)]) = InternalError /\
  (* one declaration per evaluation works *)
  out_status (evalInput before_fix (runHistory before_fix state0 (witness13 ++ map (fun s => [s]) decls1100)) [SRead (EV 1)]) = Ok.
Proof. vm_compute. auto. Qed.

Lemma growth_ok_after_fix :
  out_status (evalInput fixed (runHistory fixed state0 witness13) decls1100) = Ok /\
  evalInput fixed (runHistory fixed state0 (witness13 ++ [decls1100; [SStore (EV 2) (EZ 7)]])) [SRead (EV 1)]
    = (runHistory fixed state0 (witness13 ++ [decls1100; [SStore (EV 2) (EZ 7)]; [SRead (EV 1)]]), Ok, Some (VZ 7)).
Proof. vm_compute. auto. Qed.

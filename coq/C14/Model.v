(* C14 — executable model of the global-slot machinery behind REPL-style evaluation:
     fast/global.go      CompBinds {Binds, BindNum, IntBindNum, IntBindMax}, Env {Vals, Ints, IntAddressTaken}
     fast/declaration.go Comp.NewBind (IntBind/VarBind choice), CompBinds.NewBind (slot reuse on redefinition with an identical type)
     fast/repl.go        Interp.CompileAst (updateIntBindMax, snapshot/restore), Interp.prepareEnv, Interp.RunExpr
     fast/address.go     Var.Address (&x of an Ints slot sets IntAddressTaken; of a Vals slot returns the cell)
   One evaluation = compile every statement of the input (mutating the bind table), and only if all of
   them compiled: prepareEnv, then execute.  Definitions only, no proofs.

   Abstractions: identifiers are numbers (0 is "_"); a type is reduced to the number of Ints slots it
   needs (kind); values are integers or pointers; the right-hand sides are a small expression language.
   [cfg] selects the code before/after the fix: commits C14-2 (IntBindMax learnt before compiling) and
   C15-1 (bind table restored after a compile error); the theorems about the current tree use [fixed]. *)
From Coq Require Import List ZArith Bool.
Import ListNotations.
Open Scope Z_scope.

Definition name := Z.
Definition NoIndex : Z := -1.

(* how a type is stored: 1 slot of Env.Ints (bool, ints, uints, floats, complex64), 2 slots (complex128),
   or boxed in a reflect.Value held in Env.Vals (everything else) *)
Inductive kind := KInt1 | KCplx | KBox
| KInt1T (t : Z)     (* any other one-slot type (int8, float64, bool, a named type ...); t identifies the type *)
| KCplxT (t : Z)     (* a named type whose underlying type is complex128: two slots *)
| KBoxT (t : Z).     (* any other boxed type (slices, structs, pointers, function types ...) *)
Inductive cls := CInt | CVar | CFunc | CConst.          (* IntBind VarBind FuncBind ConstBind *)

Definition need (k : kind) : Z := match k with KCplx | KCplxT _ => 2 | _ => 1 end.
Definition is_intkind (k : kind) : bool := match k with KBox | KBoxT _ => false | _ => true end.
(* xr.Type.IdenticalTo: KInt1 is int, KCplx complex128, KBox string; the other types carry their identity *)
Definition kind_eqb (a b : kind) : bool :=
  match a, b with
  | KInt1, KInt1 | KCplx, KCplx | KBox, KBox => true
  | KInt1T s, KInt1T t | KCplxT s, KCplxT t | KBoxT s, KBoxT t => s =? t
  | _, _ => false
  end.
Definition is_cplx (k : kind) : bool := match k with KCplx | KCplxT _ => true | _ => false end.
Definition is_CInt (c : cls) : bool := match c with CInt => true | _ => false end.
Definition cls_code (c : cls) : Z := match c with CInt => 0 | CVar => 1 | CFunc => 2 | CConst => 3 end.

Record bind := mkBind { bcls : cls; bidx : Z; bkind : kind; bconst : Z (* value of a constant *) }.

(* association list, newest first: c.Binds[name] = bind is a cons *)
Fixpoint bget {A} (l : list (Z * A)) (x : Z) : option A :=
  match l with
  | [] => None
  | (y, b) :: l' => if Z.eqb x y then Some b else bget l' x
  end.

Record comp := mkComp { binds : list (name * bind); bindNum : Z; intBindNum : Z; intBindMax : Z }.
Definition comp0 : comp := mkComp [] 0 0 0.

(* Comp.NewBind: IntBind while the Ints array may still hold it, else VarBind *)
Definition choose_class (c : comp) (class : cls) (k : kind) : cls :=
  match class with
  | CInt | CVar =>
      if ((intBindMax c =? 0) || (intBindNum c + need k <=? intBindMax c)) && is_intkind k then CInt else CVar
  | _ => class
  end.

(* CompBinds.NewBind *)
Definition newBind (c : comp) (x : name) (class0 : cls) (k : kind) (cv : Z) : comp * bind :=
  let class := choose_class c class0 k in
  if x =? 0 then (c, mkBind class NoIndex k cv) else
  let idx0 :=
    match bget (binds c) x with
    | Some b =>
        (* commit C14-4: the slot of the previous bind is reused only for an identical type; before it the
           test was [is_cplx (bkind b) || negb (is_cplx k)] (not more slots than before) *)
        if Bool.eqb (is_CInt (bcls b)) (is_CInt class) && kind_eqb (bkind b) k
        then bidx b else NoIndex
    | None => NoIndex
    end in
  match class with
  | CConst =>
      let b := mkBind class NoIndex k cv in
      (mkComp ((x, b) :: binds c) (bindNum c) (intBindNum c) (intBindMax c), b)
  | CInt =>
      if idx0 =? NoIndex then
        let b := mkBind class (intBindNum c) k cv in
        (mkComp ((x, b) :: binds c) (bindNum c) (intBindNum c + need k) (intBindMax c), b)
      else
        let b := mkBind class idx0 k cv in
        (mkComp ((x, b) :: binds c) (bindNum c) (intBindNum c) (intBindMax c), b)
  | _ =>
      if idx0 =? NoIndex then
        let b := mkBind class (bindNum c) k cv in
        (mkComp ((x, b) :: binds c) (bindNum c + 1) (intBindNum c) (intBindMax c), b)
      else
        let b := mkBind class idx0 k cv in
        (mkComp ((x, b) :: binds c) (bindNum c) (intBindNum c) (intBindMax c), b)
  end.

(* ---------------- values, environment ---------------- *)
Inductive val :=
| VZ (z : Z)
| VPtrI (aid : Z) (i : Z)     (* &Ints[i] of the backing array with identity aid *)
| VPtrC (cid : Z)             (* address of the boxed cell cid *)
| VFun (f : Z)
| VNone.                      (* invalid reflect.Value: slot never initialised *)

Definition vget (l : list (Z * val)) (i : Z) (dflt : val) : val :=
  match bget l i with Some v => v | None => dflt end.

Record env := mkEnv {
  valsCap : Z; valsLen : Z;
  vals : list (Z * Z);               (* Vals[index] = id of the boxed cell (xr.New(t).Elem()) or function value *)
  cells : list (Z * val);            (* contents of the boxed cells *)
  nextCell : Z;
  intsCap : Z; intsLen : Z;
  intsId : Z;                        (* identity of the backing array of Env.Ints *)
  ints : list (Z * val);             (* its contents, default 0 *)
  dead : list (Z * list (Z * val));  (* contents of former backing arrays (still reachable through pointers) *)
  taken : bool                       (* Env.IntAddressTaken *)
}.
Definition env0 : env := mkEnv 0 0 [] [] 0 0 0 0 [] [] false.

(* capacity chosen by prepareEnv when cap < min *)
Definition grow (cap min minDelta : Z) : Z :=
  let c := cap * 2 in
  let c := if c <? min then min else c in
  if c - cap <? minDelta then cap + minDelta else c.

Record cfg := mkCfg { sync_before_compile : bool; restore_on_error : bool }.
Definition fixed : cfg := mkCfg true true.
Definition before_fix : cfg := mkCfg false false.

(* Interp.prepareEnv(16, 1024); None = "internal error: attempt to reallocate Env.Ints[] after one of
   its addresses was taken".  Returns the updated Comp (IntBindMax) as well. *)
Definition prepareVals (c : comp) (e : env) : env :=
  let min := bindNum c in
  if valsCap e <? min then
    mkEnv (grow (valsCap e) min 16) min (vals e) (cells e) (nextCell e)
          (intsCap e) (intsLen e) (intsId e) (ints e) (dead e) (taken e)
  else if valsLen e <? min then
    mkEnv (valsCap e) min (vals e) (cells e) (nextCell e)
          (intsCap e) (intsLen e) (intsId e) (ints e) (dead e) (taken e)
  else e.

Definition prepareInts (c : comp) (e : env) : option env :=
  let min := intBindNum c in
  if intsCap e <? min then
    if taken e then None
    else Some (mkEnv (valsCap e) (valsLen e) (vals e) (cells e) (nextCell e)
                     (grow (intsCap e) min 1024) min (intsId e + 1) (ints e)
                     ((intsId e, ints e) :: dead e) (taken e))
  else if intsLen e <? min then
    Some (mkEnv (valsCap e) (valsLen e) (vals e) (cells e) (nextCell e)
                (intsCap e) min (intsId e) (ints e) (dead e) (taken e))
  else Some e.

Definition setMax (c : comp) (m : Z) : comp := mkComp (binds c) (bindNum c) (intBindNum c) m.

Definition prepareEnv (c : comp) (e : env) : option (comp * env) :=
  match prepareInts c (prepareVals c e) with
  | None => None
  | Some e' => Some (if taken e' then setMax c (intsCap e') else c, e')
  end.

(* Interp.updateIntBindMax (commit C14-2) *)
Definition updateIntBindMax (c : comp) (e : env) : comp :=
  if taken e then setMax c (intsCap e) else c.

(* ---------------- source statements of one input ---------------- *)
Inductive expr :=
| EZ (z : Z)
| EV (x : name)            (* variable, constant or function name *)
| EAddr (x : name)         (* &x *)
| EDeref (e : expr)        (* *e *)
| EAdd (a b : expr).

Inductive stmt :=
| SVar (x : name) (k : kind) (e : expr)   (* var x T = e   /   x := e *)
| SSet (x : name) (e : expr)              (* x = e *)
| SStore (p : expr) (e : expr)            (* *p = e *)
| SRead (e : expr)                        (* expression statement; its value is the result of the input *)
| SFunc (f : name) (t : Z) (ok : bool)    (* func f() {...} of the function type identified by t; ok=false: the body fails to compile *)
| SConst (x : name) (z : Z)
| SNop                                    (* type/method declaration, call of an opaque function ... *)
| SBad.                                   (* mentions an undefined identifier: compile error *)

(* compiled code: names resolved to slots *)
Inductive cexpr :=
| CZ (z : Z)
| CIntSlot (i : Z)
| CBoxSlot (i : Z)
| CFunSlot (i : Z)
| CAddrInt (i : Z)
| CAddrBox (i : Z)
| CDeref (e : cexpr)
| CAdd (a b : cexpr)
| CInvalid.                (* use of "_" or of the address of a constant/function: rejected *)

Inductive instr :=
| IInt (i : Z) (e : cexpr)         (* Ints[i] = e   (declaration and assignment are the same) *)
| IBoxDecl (i : Z) (e : cexpr)     (* Vals[i] = new cell holding e *)
| IBoxSet (i : Z) (e : cexpr)      (* Vals[i].Set(e) *)
| IFun (i : Z) (f : Z)             (* Vals[i] = function value *)
| IStore (p e : cexpr)
| IEval (e : cexpr)                (* side effects only ("_" declarations) *)
| IRead (e : cexpr).

Fixpoint cexpr_ok (e : cexpr) : bool :=
  match e with
  | CInvalid => false
  | CDeref a => cexpr_ok a
  | CAdd a b => cexpr_ok a && cexpr_ok b
  | _ => true
  end.

Fixpoint compileExpr (c : comp) (e : expr) : option cexpr :=
  match e with
  | EZ z => Some (CZ z)
  | EV x =>
      match bget (binds c) x with
      | None => None
      | Some b =>
          match bcls b with
          | CInt => Some (CIntSlot (bidx b))
          | CVar => Some (CBoxSlot (bidx b))
          | CFunc => Some (CFunSlot (bidx b))
          | CConst => Some (CZ (bconst b))
          end
      end
  | EAddr x =>
      match bget (binds c) x with
      | None => None
      | Some b =>
          match bcls b with
          | CInt => Some (CAddrInt (bidx b))
          | CVar => Some (CAddrBox (bidx b))
          | _ => None                  (* cannot take the address of a constant / function *)
          end
      end
  | EDeref a => match compileExpr c a with Some a' => Some (CDeref a') | None => None end
  | EAdd a b =>
      match compileExpr c a, compileExpr c b with
      | Some a', Some b' => Some (CAdd a' b')
      | _, _ => None
      end
  end.

(* one statement: None = compile error.  The initialiser is compiled BEFORE the name is declared
   (prepareDeclConstsOrVars, then NewBind): `var x = x + 1` refers to the previous x. *)
Definition compileStmt (c : comp) (s : stmt) : option (comp * list instr) :=
  match s with
  | SVar x k e =>
      match compileExpr c e with
      | None => None
      | Some ce =>
          let (c', b) := newBind c x CVar k 0 in
          if bidx b =? NoIndex then Some (c', [IEval ce])
          else match bcls b with
               | CInt => Some (c', [IInt (bidx b) ce])
               | _ => Some (c', [IBoxDecl (bidx b) ce])
               end
      end
  | SSet x e =>
      match bget (binds c) x, compileExpr c e with
      | Some b, Some ce =>
          match bcls b with
          | CInt => Some (c, [IInt (bidx b) ce])
          | CVar => Some (c, [IBoxSet (bidx b) ce])
          | _ => None                  (* cannot assign to a constant / function *)
          end
      | _, _ => None
      end
  | SStore p e =>
      match compileExpr c p, compileExpr c e with
      | Some cp, Some ce => Some (c, [IStore cp ce])
      | _, _ => None
      end
  | SRead e =>
      match compileExpr c e with
      | Some ce => Some (c, [IRead ce])
      | None => None
      end
  | SFunc f t ok =>
      (* Comp.DeclFunc: the name is declared before the body is compiled (recursion); on a compile error
         of the body the deferred function restores the previous binding of the name *)
      let (c', b) := newBind c f CFunc (KBoxT t) 0 in
      if ok then
        if bidx b =? NoIndex then Some (c', []) else Some (c', [IFun (bidx b) f])
      else None
  | SConst x z => let (c', _) := newBind c x CConst KBox z in Some (c', [])
  | SNop => Some (c, [])
  | SBad => None
  end.

(* DeclFunc's deferred restore, visible when the table is NOT restored as a whole (before_fix):
   Binds[f] = oldbind / delete(Binds, f); BindNum is not restored. *)
Definition funcRestore (c c' : comp) (f : name) : comp :=
  match bget (binds c) f with
  | Some b => mkComp ((f, b) :: binds c') (bindNum c') (intBindNum c') (intBindMax c')
  | None => mkComp (filter (fun p => negb (Z.eqb (fst p) f)) (binds c')) (bindNum c') (intBindNum c') (intBindMax c')
  end.

(* compile the statements in order; on error return the table as the failing compile left it *)
Fixpoint compileAll (c : comp) (ss : list stmt) (acc : list instr) : comp * option (list instr) :=
  match ss with
  | [] => (c, Some acc)
  | s :: ss' =>
      match compileStmt c s with
      | Some (c', code) => compileAll c' ss' (acc ++ code)
      | None =>
          match s with
          | SFunc f t false => (funcRestore c (fst (newBind c f CFunc (KBoxT t) 0)) f, None)
          | _ => (c, None)
          end
      end
  end.

(* ---------------- execution ---------------- *)
Definition intsOf (e : env) (aid : Z) : list (Z * val) :=
  if aid =? intsId e then ints e else match bget (dead e) aid with Some l => l | None => [] end.

Definition setTaken (e : env) : env :=
  mkEnv (valsCap e) (valsLen e) (vals e) (cells e) (nextCell e) (intsCap e) (intsLen e) (intsId e) (ints e) (dead e) true.

Definition vadd (a b : val) : val := match a, b with VZ x, VZ y => VZ (x + y) | _, _ => VNone end.

(* evaluation may set IntAddressTaken; returns the environment too *)
Fixpoint evalC (e : env) (ce : cexpr) : env * val :=
  match ce with
  | CZ z => (e, VZ z)
  | CIntSlot i => (e, vget (ints e) i (VZ 0))
  | CBoxSlot i => (e, match bget (vals e) i with Some cid => vget (cells e) cid VNone | None => VNone end)
  | CFunSlot i => (e, match bget (vals e) i with Some cid => vget (cells e) cid VNone | None => VNone end)
  | CAddrInt i => (setTaken e, VPtrI (intsId e) i)
  | CAddrBox i => (e, match bget (vals e) i with Some cid => VPtrC cid | None => VNone end)
  | CDeref a =>
      let (e1, p) := evalC e a in
      (e1, match p with
           | VPtrI aid i => vget (intsOf e1 aid) i (VZ 0)
           | VPtrC cid => vget (cells e1) cid VNone
           | _ => VNone
           end)
  | CAdd a b =>
      let (e1, x) := evalC e a in
      let (e2, y) := evalC e1 b in
      (e2, vadd x y)
  | CInvalid => (e, VNone)
  end.

Definition setInt (e : env) (i : Z) (v : val) : env :=
  mkEnv (valsCap e) (valsLen e) (vals e) (cells e) (nextCell e) (intsCap e) (intsLen e) (intsId e)
        ((i, v) :: ints e) (dead e) (taken e).
Definition setCell (e : env) (cid : Z) (v : val) : env :=
  mkEnv (valsCap e) (valsLen e) (vals e) ((cid, v) :: cells e) (nextCell e) (intsCap e) (intsLen e) (intsId e)
        (ints e) (dead e) (taken e).
Definition newCell (e : env) (i : Z) (v : val) : env :=
  mkEnv (valsCap e) (valsLen e) ((i, nextCell e) :: vals e) ((nextCell e, v) :: cells e) (nextCell e + 1)
        (intsCap e) (intsLen e) (intsId e) (ints e) (dead e) (taken e).
Definition setDead (e : env) (aid i : Z) (v : val) : env :=
  mkEnv (valsCap e) (valsLen e) (vals e) (cells e) (nextCell e) (intsCap e) (intsLen e) (intsId e)
        (ints e) ((aid, (i, v) :: intsOf e aid) :: dead e) (taken e).

(* *p = v *)
Definition storeVia (e : env) (p v : val) : env :=
  match p with
  | VPtrI aid i => if aid =? intsId e then setInt e i v else setDead e aid i v
  | VPtrC cid => setCell e cid v
  | _ => e
  end.

Definition execInstr (e : env) (ins : instr) : env * option val :=
  match ins with
  | IInt i ce => let (e1, v) := evalC e ce in (setInt e1 i v, None)
  | IBoxDecl i ce => let (e1, v) := evalC e ce in (newCell e1 i v, None)
  | IBoxSet i ce =>
      let (e1, v) := evalC e ce in
      (match bget (vals e1) i with Some cid => setCell e1 cid v | None => e1 end, None)
  | IFun i f => (newCell e i (VFun f), None)
  | IStore cp ce =>
      (* Go evaluates the pointer operand, then the value *)
      let (e1, p) := evalC e cp in
      let (e2, v) := evalC e1 ce in
      (storeVia e2 p v, None)
  | IEval ce => (fst (evalC e ce), None)
  | IRead ce => let (e1, v) := evalC e ce in (e1, Some v)
  end.

Fixpoint execAll (e : env) (code : list instr) (last : option val) : env * option val :=
  match code with
  | [] => (e, last)
  | ins :: code' =>
      let (e1, r) := execInstr e ins in
      execAll e1 code' (match r with Some v => Some v | None => last end)
  end.

(* ---------------- one evaluation: Interp.Eval(src) ---------------- *)
Inductive status := Ok | CompileError | InternalError.
Record state := mkState { scomp : comp; senv : env }.
Definition state0 : state := mkState comp0 env0.

Definition evalInput (g : cfg) (st : state) (ss : list stmt) : state * status * option val :=
  let c0 := if sync_before_compile g then updateIntBindMax (scomp st) (senv st) else scomp st in
  match compileAll c0 ss [] with
  | (c1, None) =>
      (mkState (if restore_on_error g then c0 else c1) (senv st), CompileError, None)
  | (c1, Some code) =>
      match prepareEnv c1 (senv st) with
      | None => (mkState c1 (prepareVals c1 (senv st)), InternalError, None)
      | Some (c2, e2) =>
          let (e3, r) := execAll e2 code None in
          (mkState c2 e3, Ok, r)
      end
  end.

Fixpoint runHistory (g : cfg) (st : state) (h : list (list stmt)) : state :=
  match h with
  | [] => st
  | ss :: h' => runHistory g (fst (fst (evalInput g st ss))) h'
  end.

(* ---------------- correspondence with the implementation ---------------- *)
Definition status_code (s : status) : Z := match s with Ok => 0 | CompileError => 1 | InternalError => 2 end.

Record obs := mkObs {
  o_status : Z;
  o_bindNum : Z; o_intBindNum : Z; o_intBindMax : Z;
  o_valsCap : Z; o_valsLen : Z; o_intsCap : Z; o_intsLen : Z;
  o_taken : bool;
  o_moved : bool;                        (* the backing array of Env.Ints changed during this evaluation *)
  o_decls : list (name * (Z * Z));       (* names declared by the input: class code, index (after the evaluation) *)
  o_val : option Z                       (* integer result of the input, when it has one *)
}.

Definition declared (ss : list stmt) : list name :=
  flat_map (fun s => match s with SVar x _ _ => [x] | SFunc f _ _ => [f] | SConst x _ => [x] | _ => [] end) ss.

Definition lookupCI (c : comp) (x : name) : Z * Z :=
  match bget (binds c) x with Some b => (cls_code (bcls b), bidx b) | None => (-1, -1) end.

Definition Zpair_eqb (a b : Z * Z) : bool := (fst a =? fst b) && (snd a =? snd b).

Fixpoint decls_match (c : comp) (l : list (name * (Z * Z))) : bool :=
  match l with
  | [] => true
  | (x, ci) :: l' => Zpair_eqb (lookupCI c x) ci && decls_match c l'
  end.

Definition val_match (values : bool) (r : option val) (o : option Z) : bool :=
  if values then
    match r, o with
    | Some (VZ z), Some z' => z =? z'
    | _, None => true                    (* nothing printable observed (pointer, function, no result) *)
    | _, _ => false
    end
  else true.

Definition obs_match (values : bool) (st0 st : state) (s : status) (r : option val) (o : obs) : bool :=
  let c := scomp st in let e := senv st in
  (status_code s =? o_status o) && (bindNum c =? o_bindNum o) && (intBindNum c =? o_intBindNum o) &&
  (intBindMax c =? o_intBindMax o) && (valsCap e =? o_valsCap o) && (valsLen e =? o_valsLen o) &&
  (intsCap e =? o_intsCap o) && (intsLen e =? o_intsLen o) && Bool.eqb (taken e) (o_taken o) &&
  Bool.eqb (negb (intsId e =? intsId (senv st0))) (o_moved o) &&
  decls_match c (o_decls o) && val_match values r (o_val o).

Fixpoint history_match (values : bool) (st : state) (h : list (list stmt)) (os : list obs) : bool :=
  match h, os with
  | [], [] => true
  | ss :: h', o :: os' =>
      match evalInput fixed st ss with
      | (st', s, r) => obs_match values st st' s r o && history_match values st' h' os'
      end
  | _, _ => false
  end.

Record case := mkCase { c_idx : Z; c_values : bool; c_hist : list (list stmt); c_obs : list obs }.

Definition mismatches (cs : list case) : list Z :=
  flat_map (fun c => if history_match (c_values c) state0 (c_hist c) (c_obs c) then [] else [c_idx c]) cs.

(* C14 — property theorems only: each closed by [exact lemma], followed by Print Assumptions.
   All statements are about [fixed] = the current code (after commits C14-2, C15-1) and quantify over
   ALL histories of evaluations (lists of inputs, each input a list of statements). *)
From Coq Require Import List ZArith Bool.
From Verif Require Import C14.Model C14.Proof C14.Proof2.
From Verif Require C14.CallCache.
Import ListNotations.
Open Scope Z_scope.

(* after every history the state satisfies the invariant: bind table well formed (every visible bind's
   slot range inside [0,BindNum) / [0,IntBindNum), distinct names never share a slot), IntBindMax is 0
   or cap(Env.Ints), IntBindNum <= len(Ints) <= cap(Ints), BindNum <= len(Vals) <= cap(Vals) *)
Theorem C14_slots_invariant : forall h, Inv (runHistory fixed state0 h).
Proof. exact slots_invariant. Qed.
Print Assumptions C14_slots_invariant.

(* each evaluation sees all earlier binds at unchanged class and index: an input (compiled or not)
   changes only the binds of the names it declares *)
Theorem C14_later_decls_visible : forall h1 h2 x,
  (forall ss, In ss h2 -> ~ In x (declared ss)) ->
  bget (binds (scomp (runHistory fixed state0 (h1 ++ h2)))) x =
  bget (binds (scomp (runHistory fixed state0 h1))) x.
Proof. exact later_decls_visible. Qed.
Print Assumptions C14_later_decls_visible.

(* no later declaration is given a slot that overlaps an earlier variable's slot *)
Theorem C14_slots_disjoint : forall h x y bx by', x <> y ->
  bget (binds (scomp (runHistory fixed state0 h))) x = Some bx ->
  bget (binds (scomp (runHistory fixed state0 h))) y = Some by' -> disjoint bx by'.
Proof. exact slots_disjoint. Qed.
Print Assumptions C14_slots_disjoint.

(* and every slot is inside the arrays that prepareEnv sized: no index out of range at run time *)
Theorem C14_slots_in_range : forall h x b, bget (binds (scomp (runHistory fixed state0 h))) x = Some b ->
  let st := runHistory fixed state0 h in
  match bcls b with
  | CInt => 0 <= bidx b /\ bidx b + need (bkind b) <= intsLen (senv st)
  | CConst => True
  | _ => 0 <= bidx b < valsLen (senv st)
  end.
Proof. exact slots_in_range. Qed.
Print Assumptions C14_slots_in_range.

(* once &x of an Ints slot was executed, every later prepareEnv keeps the same backing array, however
   many declarations are added later (and the flag stays set) *)
Theorem C14_addr_stable : forall h1 h2,
  let st := runHistory fixed state0 h1 in
  taken (senv st) = true ->
  intsId (senv (runHistory fixed state0 (h1 ++ h2))) = intsId (senv st) /\
  taken (senv (runHistory fixed state0 (h1 ++ h2))) = true.
Proof. exact addr_stable. Qed.
Print Assumptions C14_addr_stable.

(* &x yields a pointer into the CURRENT backing array and sets IntAddressTaken *)
Theorem C14_addr_creates_current : forall e i, evalC e (CAddrInt i) = (setTaken e, VPtrI (intsId e) i).
Proof. exact addr_creates_current. Qed.
Print Assumptions C14_addr_creates_current.

(* so the pointer stays aliased to x: after ANY later history h2 that does not redeclare x,
   x still compiles to the same Ints slot, and a store through the old pointer is what a read of x returns *)
Theorem C14_pointer_stays_aliased : forall h1 h2 x b v,
  let st1 := runHistory fixed state0 h1 in
  let st2 := runHistory fixed state0 (h1 ++ h2) in
  taken (senv st1) = true ->
  bget (binds (scomp st1)) x = Some b -> bcls b = CInt ->
  (forall ss, In ss h2 -> ~ In x (declared ss)) ->
  let p := VPtrI (intsId (senv st1)) (bidx b) in
  compileExpr (scomp st2) (EV x) = Some (CIntSlot (bidx b)) /\
  snd (evalC (storeVia (senv st2) p v) (CIntSlot (bidx b))) = v.
Proof. exact pointer_stays_aliased. Qed.
Print Assumptions C14_pointer_stays_aliased.

(* the internal error "attempt to reallocate Env.Ints[] after one of its addresses was taken" is
   unreachable: for every history and every next input *)
Theorem C14_no_realloc_error : forall h ss,
  out_status (evalInput fixed (runHistory fixed state0 h) ss) <> InternalError.
Proof. exact no_realloc_error. Qed.
Print Assumptions C14_no_realloc_error.

(* after an address was taken, a new variable of an Ints kind gets an Ints slot exactly while
   IntBindNum + (slots it needs) <= cap(Env.Ints); afterwards it is boxed (VarBind) *)
Theorem C14_boxed_after_max : forall c e x k cv,
  taken e = true -> 1 <= intsCap e ->
  bcls (snd (newBind (updateIntBindMax c e) x CVar k cv)) =
    if is_intkind k && (intBindNum c + need k <=? intsCap e) then CInt else CVar.
Proof. exact boxed_after_max. Qed.
Print Assumptions C14_boxed_after_max.

(* DESIGN section 7 #13 on the model of the code BEFORE commit C14-2 (IntBindMax learnt only by the next
   prepareEnv): `var a int` . `p := &a` . ONE input declaring 1100 int variables raises the internal
   error, and so does every later input; the same declarations one per evaluation work *)
Theorem C14_growth_refuted_before_fix :
  out_status (evalInput before_fix (runHistory before_fix state0 witness13) decls1100) = InternalError /\
  out_status (evalInput before_fix (runHistory before_fix state0 (witness13 ++ [decls1100])) [SRead (EV 1)]) = InternalError /\
  out_status (evalInput before_fix (runHistory before_fix state0 (witness13 ++ map (fun s => [s]) decls1100)) [SRead (EV 1)]) = Ok.
Proof. exact growth_refuted_before_fix. Qed.
Print Assumptions C14_growth_refuted_before_fix.

(* commit C14-4: a redefinition `var x U = ...` whose type is not identical to the type of the previous x is a NEW
   variable: it gets the next free slot(s), beyond every slot of the previous bind, which pointers taken earlier and
   functions compiled earlier keep using with the previous type (before the commit an Ints slot was reused for any
   other one-slot type: `var n int; pn := &n; var n float64 = 2.5; *pn` read the float's bits) *)
Theorem C14_redefinition_other_type_new_slot : forall c x k cv b,
  wf c -> x <> 0 -> bget (binds c) x = Some b -> kind_eqb (bkind b) k = false ->
  let nb := snd (newBind c x CVar k cv) in
  match bcls nb with
  | CInt => bidx nb = intBindNum c /\ (bcls b = CInt -> bidx b + need (bkind b) <= bidx nb)
  | _ => bidx nb = bindNum c /\ (bcls b = CVar \/ bcls b = CFunc -> bidx b < bidx nb)
  end.
Proof. exact redefinition_other_type_new_slot. Qed.
Print Assumptions C14_redefinition_other_type_new_slot.

(* ---------------- the hypotheses are satisfiable on non-trivial values ---------------- *)
(* the same witness on the current code: runs, and `*p = 7` . `a` reads 7 after 1100 later declarations *)
Example C14_ex_witness_after_fix :
  out_status (evalInput fixed (runHistory fixed state0 witness13) decls1100) = Ok /\
  evalInput fixed (runHistory fixed state0 (witness13 ++ [decls1100; [SStore (EV 2) (EZ 7)]])) [SRead (EV 1)]
    = (runHistory fixed state0 (witness13 ++ [decls1100; [SStore (EV 2) (EZ 7)]; [SRead (EV 1)]]), Ok, Some (VZ 7)).
Proof. exact growth_ok_after_fix. Qed.

(* premises of C14_pointer_stays_aliased / C14_addr_stable hold for h1 = witness13, x = 1 *)
Example C14_ex_taken : taken (senv (runHistory fixed state0 witness13)) = true /\
  bget (binds (scomp (runHistory fixed state0 witness13))) 1 = Some (mkBind CInt 0 KInt1 0).
Proof. vm_compute. auto. Qed.

(* variable 1024 of the 1100 is the first boxed one (IntBindMax = cap = 1024), complex128 needs two slots *)
Example C14_ex_boxed :
  let st := runHistory fixed state0 (witness13 ++ [decls1100]) in
  lookupCI (scomp st) (3 + 1022) = (0, 1023) /\ lookupCI (scomp st) (3 + 1023) = (1, 1) /\
  intBindNum (scomp st) = 1024 /\ intBindMax (scomp st) = 1024.
Proof. vm_compute. auto. Qed.

(* `var a int = 3` . `p := &a` . `var a float64 = 5` . `*p` = 3, a = 5, the new a is Ints slot 1; with the SAME type
   slot 0 is reused and the pointer follows the redefined variable (REPL semantics, known finding C14-K1) *)
Example C14_ex_redefinition :
  snd (evalInput fixed (runHistory fixed state0 redef_witness) [SRead (EDeref (EV 2))]) = Some (VZ 3) /\
  snd (evalInput fixed (runHistory fixed state0 redef_witness) [SRead (EV 1)]) = Some (VZ 5) /\
  lookupCI (scomp (runHistory fixed state0 redef_witness)) 1 = (0, 1) /\
  snd (evalInput fixed (runHistory fixed state0 redef_same) [SRead (EDeref (EV 2))]) = Some (VZ 5).
Proof. vm_compute. auto. Qed.

(* gap pass (tester report, fix C14-5), hand model coq/C14/CallCache.v of the call-site callee cache of fast/call*ret*.go:
   on the code after C14-5 every call site executes the CURRENT callee for every history of assignments (variables of
   function type: uncached variant) and re-declarations (declared functions: variant caching on the identity of the
   xr.Value in FileEnv.Vals[index]; an assignment to a declared function is rejected at compile time) *)
Theorem C14_call_site_sees_current_callee :
  forall (isvar : bool) f evs, (isvar = false -> CallCache.no_assign evs) ->
  CallCache.run_fixed isvar (CallCache.init f) evs = CallCache.spec f evs.
Proof. exact CallCache.call_site_sees_current_callee. Qed.
Print Assumptions C14_call_site_sees_current_callee.

(* ... and the cached variant, used for variables too before C14-5, calls a stale function: call . f = lit . call *)
Theorem C14_cell_keyed_cache_refuted_for_variables :
  exists f evs, CallCache.run CallCache.call_cached (CallCache.init f) evs <> CallCache.spec f evs.
Proof. exact CallCache.cell_keyed_cache_refuted_for_variables. Qed.
Print Assumptions C14_cell_keyed_cache_refuted_for_variables.

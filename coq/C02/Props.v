(* C02 -- property theorems (static part): each closed by [exact lemma], followed by Print Assumptions.
   The theorems over the tables regenerated from fast/var_ops.go, var_set.go, var_shifts.go, place_*.go are in
   coq_gen/C02/TableProps.v (compiled on every run after the translator, in build/C02).
   F and the f* operators are an arbitrary interpretation of float / complex arithmetic and of the bit layout of floats. *)
From Coq Require Import ZArith List Bool.
From Verif Require Import Common.GoInt Common.GoStr GoLite.Syntax GoLite.Sem C01.Model C02.Model C02.ProofA C02.ProofB C02.ProofC C02.PlacesModel C02.PlacesProof.
Import ListNotations.
Open Scope Z_scope.

(* x OP= e and x <<= n, x >>= n on a variable: every operator, every kind, the five cases of `switch upn`
   (0, 1, 2, file frame, hop loop), both storage classes (IntBind / VarBind), constant / expression operand.
   For ALL operand functions, constants, frames and states the statement closure
   - resolves the frame of the variable upn hops up (target; nil Outer = panic),
   - evaluates the operand ONCE (IntBind: before the load of the old value; VarBind: after lhs.Int()),
   - stores OLD OP operand into slot (frame, idx) and nowhere else (int_op: narrow store; val_op: reflect setter),
   - increments env.IP and returns (Code[IP], env)  (next_stmt) *)
Theorem C02_var_opassign_sound :
  forall F fbin fcmp fun1 fconv fpart fofbits ftobits op k h c r (i : inputs F) p s fuel,
    inputs_ok F (TVarOp op k h c r) i -> hops_ok h (in_upn F i) fuel ->
    run_stmt F fbin fcmp fun1 fconv fpart fofbits ftobits fuel (roots_of F (TVarOp op k h c r) i) (closure_of_tmpl (TVarOp op k h c r)) p s
    = spec_tmpl F fbin fcmp fconv fofbits ftobits (TVarOp op k h c r) i p s.
Proof. exact var_op_sound. Qed.
Print Assumptions C02_var_opassign_sound.

(* the shifts are the instances op = Shl / Shr of the same theorem: the count reaches the closure as a uint64
   (constant: constAsUint64; expression: Expr.AsUint64, proved in C01) and is not converted *)
Theorem C02_var_shift_sound :
  forall F fbin fcmp fun1 fconv fpart fofbits ftobits (left : bool) k h c r (i : inputs F) p s fuel,
    let op := if left then Shl else Shr in
    hops_ok h (in_upn F i) fuel ->
    run_stmt F fbin fcmp fun1 fconv fpart fofbits ftobits fuel (roots_of F (TVarOp op k h c r) i) (closure_of_tmpl (TVarOp op k h c r)) p s
    = spec_tmpl F fbin fcmp fconv fofbits ftobits (TVarOp op k h c r) i p s.
Proof.
  intros F fbin fcmp fun1 fconv fpart fofbits ftobits left k h c r i p s fuel op Hh.
  apply var_op_sound; [|exact Hh]. destruct left, r; exact I.
Qed.
Print Assumptions C02_var_shift_sound.

(* x /= +-2^sh compiled as a shift (varQuoPow2, class IntBind): n := *addr; if n < 0 { n += 2^sh - 1 }; *addr = [-](n >> sh)
   (unsigned: *addr >>= sh) stores the truncated quotient x / +-2^sh, including the divisor MinInt (sh = width-1) *)
Theorem C02_var_pow2_sound :
  forall F fbin fcmp fun1 fconv fpart fofbits ftobits k h negy (i : inputs F) p s fuel,
    tmpl_valid (TVarQuoPow2 k h negy) = true -> inputs_ok F (TVarQuoPow2 k h negy) i -> hops_ok h (in_upn F i) fuel ->
    run_stmt F fbin fcmp fun1 fconv fpart fofbits ftobits fuel (roots_of F (TVarQuoPow2 k h negy) i) (closure_of_tmpl (TVarQuoPow2 k h negy)) p s
    = spec_tmpl F fbin fcmp fconv fofbits ftobits (TVarQuoPow2 k h negy) i p s.
Proof. exact var_quopow2_sound. Qed.
Print Assumptions C02_var_pow2_sound.

(* soundness of the boolean checker that is run on every regenerated table row *)
Theorem C02_entry_ok_sound :
  forall F fbin fcmp fun1 fconv fpart fofbits ftobits e, entry_ok e = true ->
    exists t, classify e = Some t /\ tmpl_valid t = true /\
      forall (i : inputs F) p s fuel, inputs_ok F t i -> hops_ok (tmpl_hops t) (in_upn F i) fuel ->
        run_stmt F fbin fcmp fun1 fconv fpart fofbits ftobits fuel (roots_of F t i) (closure_of e) p s
        = spec_tmpl F fbin fcmp fconv fofbits ftobits t i p s.
Proof. exact entry_ok_sound. Qed.
Print Assumptions C02_entry_ok_sound.

(* x = e *)
Theorem C02_set_sound :
  forall F fbin fcmp fun1 fconv fpart fofbits ftobits k h c r (i : inputs F) p s fuel,
    inputs_ok F (TVarSet k h c r) i -> hops_ok h (in_upn F i) fuel ->
    run_stmt F fbin fcmp fun1 fconv fpart fofbits ftobits fuel (roots_of F (TVarSet k h c r) i) (closure_of_tmpl (TVarSet k h c r)) p s
    = spec_tmpl F fbin fcmp fconv fofbits ftobits (TVarSet k h c r) i p s.
Proof. exact var_set_sound. Qed.
Print Assumptions C02_set_sound.

(* x++ / x-- : Comp.IncDec compiles them as x += 1 / x -= 1 (hand model of the dispatch: incdec_tmpl), so the closure
   that runs is the compound-assignment closure with the constant 1 *)
Theorem C02_incdec_is_opassign_1 :
  forall F fbin fcmp fun1 fconv fpart fofbits ftobits inc k h c idx upn p s fuel,
    is_integer k = true -> hops_ok h upn fuel ->
    let i := mkInputs F idx upn (VInt k 1) (fun _ => stuck F) 0 in
    run_stmt F fbin fcmp fun1 fconv fpart fofbits ftobits fuel (roots_of F (incdec_tmpl inc k h c) i) (closure_of_tmpl (incdec_tmpl inc k h c)) p s
    = spec_tmpl F fbin fcmp fconv fofbits ftobits (TVarOp (if inc then Add else Sub) k h c RConst) i p s.
Proof.
  intros F fbin fcmp fun1 fconv fpart fofbits ftobits inc k h c idx upn p s fuel Hk Hh i.
  unfold incdec_tmpl. apply var_op_sound; [|exact Hh].
  destruct inc; simpl; (split; [reflexivity|split; [exact Hk|]]); destruct k; try discriminate Hk; split; discriminate.
Qed.
Print Assumptions C02_incdec_is_opassign_1.

(* the effect of the IntBind store on integers: slot idx of frame q receives the Go result at kind k (GoInt through
   Sem.arith) by a narrow store; division by zero panics and stores nothing *)
Theorem C02_var_opassign_int_effect :
  forall F fbin fcmp fofbits ftobits op k q idx (fr : frame F) w y r (s : state F),
    is_integer k = true -> is_shiftop op = false -> get_frame F s q = Some fr -> zth (fr_ints F fr) idx = Some w ->
    arith F k op (GoInt.wrap (ikd k) w) y = Ok (VInt k r) ->
    int_op F fbin fcmp fofbits ftobits op k q idx (ret F (VInt k y)) s =
    Ok (tt, set_frame F s q (with_ints F fr (set_nth (fr_ints F fr) (Z.to_nat idx) (narrow_store k w r)))).
Proof. exact int_op_effect. Qed.
Print Assumptions C02_var_opassign_int_effect.

Theorem C02_var_opassign_div0_panics :
  forall F fbin fcmp fofbits ftobits op k q idx (fr : frame F) w y p (s : state F),
    is_integer k = true -> is_shiftop op = false -> get_frame F s q = Some fr -> zth (fr_ints F fr) idx = Some w ->
    arith F k op (GoInt.wrap (ikd k) w) y = Panic p ->
    int_op F fbin fcmp fofbits ftobits op k q idx (ret F (VInt k y)) s = Panic p.
Proof. exact int_op_panic. Qed.
Print Assumptions C02_var_opassign_div0_panics.

(* every other frame is untouched by the store *)
Theorem C02_store_other_frames_unchanged :
  forall F (s : state F) q q' fr, q <> q' -> get_frame F (set_frame F s q fr) q' = get_frame F s q'.
Proof. exact get_set_other. Qed.
Print Assumptions C02_store_other_frames_unchanged.

(* writing kind k through the unsafe.Pointer cast changes only the low size-k bytes of the uint64 slot *)
Theorem C02_narrow_store_preserves_neighbours :
  forall k w z, 0 <= w < 2 ^ 64 ->
    let w' := narrow_store k w z in
    w' / 2 ^ slot_bits k = w / 2 ^ slot_bits k /\ w' mod 2 ^ slot_bits k = z mod 2 ^ slot_bits k /\ 0 <= w' < 2 ^ 64.
Proof. exact narrow_store_spec. Qed.
Print Assumptions C02_narrow_store_preserves_neighbours.

Theorem C02_load_after_narrow_store :
  forall k w z, is_integer k = true -> 0 <= w < 2 ^ 64 ->
    GoInt.wrap (ikd k) (narrow_store k w z) = GoInt.wrap (ikd k) z.
Proof. exact load_after_narrow_store. Qed.
Print Assumptions C02_load_after_narrow_store.

(* class VarBind computes at 64 bits and the reflect setter truncates: same result as the operation at kind k *)
Theorem C02_varbind_wide_path_exact :
  forall k (f : Z -> Z -> Z) a b,
    GoInt.wrap (ikd k) (GoInt.wrap (wide_ik k) (f a b)) = GoInt.wrap (ikd k) (f a b).
Proof. exact wide_then_narrow. Qed.
Print Assumptions C02_varbind_wide_path_exact.

Theorem C02_varbind_wide_quo :
  forall k a b, b <> 0 -> option_map (GoInt.wrap (ikd k)) (GoInt.quo (wide_ik k) a b) = GoInt.quo (ikd k) a b.
Proof. exact wide_quo. Qed.
Print Assumptions C02_varbind_wide_quo.

Theorem C02_varbind_wide_shr :
  forall k a n, 0 <= n -> in_range (ikd k) a -> GoInt.wrap (ikd k) (GoInt.shr (wide_ik k) a n) = GoInt.shr (ikd k) a n.
Proof. exact wide_shr. Qed.
Print Assumptions C02_varbind_wide_shr.

(* multi-assignment through temporaries = simultaneous assignment; a, b = b, a swaps *)
Theorem C02_multi_assign_parallel :
  forall V (st : store V) ps es i p e,
    length es = length ps -> nth_error ps i = Some (Some p) -> nth_error es i = Some e ->
    ~ In (Some p) (skipn (S i) ps) -> multi_assign V st ps es p = e st.
Proof. exact multi_assign_parallel. Qed.
Print Assumptions C02_multi_assign_parallel.

Theorem C02_multi_assign_frame :
  forall V (st : store V) ps es q, ~ In (Some q) ps -> multi_assign V st ps es q = st q.
Proof. exact multi_assign_frame. Qed.
Print Assumptions C02_multi_assign_frame.

Theorem C02_multi_assign_swap :
  forall V (st : store V) a b, a <> b ->
    let st' := multi_assign V st [Some a; Some b] [fun s => s b; fun s => s a] in
    st' a = st b /\ st' b = st a /\ forall q, q <> a -> q <> b -> st' q = st q.
Proof. exact multi_assign_swap. Qed.
Print Assumptions C02_multi_assign_swap.

(* the one-by-one loop that assignment.go warns about is NOT a swap *)
Theorem C02_naive_assign_refuted :
  exists st : store nat,
    naive_assign nat st [Some 0%nat; Some 1%nat] [fun s => s 1%nat; fun s => s 0%nat] 1%nat <> st 0%nat.
Proof. exact naive_assign_does_not_swap. Qed.
Print Assumptions C02_naive_assign_refuted.

(* the two-phase rule INCLUDING the operands of the places on the left (index, map key, pointer, the container):
   they are read in the store as it is before the statement, so in `k, m[k] = v1, v2` / `m[k], k = ..` /
   `i, s[i] = ..` / `p, *p = ..` the element designated by the OLD value of the operand is stored (assignMulti copies
   objs[i] and keys[i] before any store) *)
Theorem C02_multi_assign_place_operands_old :
  forall V (st : store V) pes es i pe p e,
    length es = length pes -> nth_error pes i = Some pe -> pe st = Some p -> nth_error es i = Some e ->
    ~ In (Some p) (skipn (S i) (eval_places V st pes)) -> multi_assign_places V st pes es p = e st.
Proof. exact multi_assign_places_old. Qed.
Print Assumptions C02_multi_assign_place_operands_old.

Theorem C02_multi_assign_places_frame :
  forall V (st : store V) pes es q,
    ~ In (Some q) (eval_places V st pes) -> multi_assign_places V st pes es q = st q.
Proof. exact multi_assign_places_frame. Qed.
Print Assumptions C02_multi_assign_places_frame.

(* keeping a reference to the operand variable instead of its value is NOT Go's rule: `k, m[k] = 1, 2` with k = 0
   (slot 0 = k, slot 10+j = m[j]) stores into m[0]; the aliasing variant stores into m[1] *)
Theorem C02_aliased_place_operand_refuted :
  let st : store nat := fun _ => 0%nat in
  let pes : list (pexpr nat) := [fun _ => Some 0%nat; fun s => Some (10 + s 0%nat)%nat] in
  let es : list (store nat -> nat) := [fun _ => 1%nat; fun _ => 2%nat] in
  multi_assign_places nat st pes es 0%nat = 1%nat /\ multi_assign_places nat st pes es 10%nat = 2%nat /\
  multi_assign_places nat st pes es 11%nat = 0%nat /\
  alias_assign nat st pes es 10%nat = 0%nat /\ alias_assign nat st pes es 11%nat = 2%nat.
Proof. exact alias_assign_differs. Qed.
Print Assumptions C02_aliased_place_operand_refuted.

(* non-vacuity *)
Example C02_example_hop_loop :
  case_spec (mkCase 0 (KOp Add) GInt8 CInt HLoop RExpr 127 (VInt GInt8 1) (ObsVal (-128))) = Ok (-128).
Proof. reflexivity. Qed.
Example C02_example_swap : multi_assign Z (fun q => Z.of_nat q) [Some 3%nat; Some 5%nat] [fun s => s 5%nat; fun s => s 3%nat] 3%nat = 5.
Proof. reflexivity. Qed.
Example C02_example_narrow : narrow_store GInt8 18446744073709551615 5 = 18446744073709551365.
Proof. reflexivity. Qed.

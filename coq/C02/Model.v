(* C02 -- assignments and compound assignments on every kind of place:
   fast/var_ops.go, var_set.go, var_shifts.go, place_ops.go, place_set.go, place_shifts.go (+ *_set_value.go).
   Executable definitions only.  The statement closures `func(env *Env) (Stmt, *Env)` of these files are regenerated
   from the sources on every run by translators/tr_golite (build/C02/Gen_*.v).  This file gives
   - the statement semantics the closures need on top of GoLite.Sem (stores through the unsafe.Pointer cast of &Ints[i] to a pointer to K,
     reflect.Value setters on Vals[i], env.IP++, the hop loop, `return env.Code[env.IP], env`),
   - for every row, from the enclosing function and the path conditions, the template it must be (classify),
     the closure of that template (closure_of_tmpl) and the Go statement it has to implement (spec_tmpl). *)
From Coq Require Import ZArith List Bool.
From Verif Require Import Common.GoInt Common.GoStr GoLite.Syntax GoLite.Sem C01.Model.
Import ListNotations.
Open Scope Z_scope.

(* ------------------------------------------------------------------ templates *)
Inductive hops := H0 | H1 | H2 | HFile | HLoop.   (* the five cases of `switch upn` *)
Inductive sclass := CInt | CVal.                  (* IntBind (slot of Env.Ints) | VarBind (reflect.Value in Env.Vals) *)
Inductive rhsform := RConst | RExpr.

Inductive tmpl :=
  | TVarOp (op : binop) (k : gokind) (h : hops) (c : sclass) (r : rhsform)   (* x op= e, op in + - * / % & | ^ &^ << >> *)
  | TVarSet (k : gokind) (h : hops) (c : sclass) (r : rhsform)               (* x = e *)
  | TVarQuoPow2 (k : gokind) (h : hops) (negy : bool).                       (* x /= +-2^sh, class IntBind only *)

Definition is_shiftop (op : binop) : bool := match op with Shl | Shr => true | _ => false end.

Definition op_ok (op : binop) (k : gokind) : bool :=
  match op with
  | Add => numeric k || match k with GString => true | _ => false end
  | Sub | Mul | Quo => numeric k
  | Rem | And | Or | Xor | AndNot | Shl | Shr => is_integer k
  | _ => false
  end.
(* string variables always have class VarBind *)
Definition class_ok (k : gokind) (c : sclass) : bool :=
  match k, c with GString, CInt => false | _, _ => true end.

Definition tmpl_valid (t : tmpl) : bool :=
  match t with
  | TVarOp op k h c r => op_ok op k && class_ok k c
  | TVarSet k h c r => class_ok k c
  | TVarQuoPow2 k h negy => is_integer k && (negb negy || is_signed k)
  end.

(* ------------------------------------------------------------------ the closure of a template *)
Definition venv := EVar V_env.
Definition envE (h : hops) : expr :=
  match h with
  | H0 => venv
  | H1 => ESel venv F_Outer
  | H2 => ESel (ESel venv F_Outer) F_Outer
  | HFile => ESel venv F_FileEnv
  | HLoop => EVar V_o
  end.
Definition hop_loop : stmt :=
  SFor (SDefine V_i (ELit 3)) (EBin Lss (EVar V_i) (EVar V_upn)) (SIncDec true (EVar V_i))
       (SAssign (EVar V_o) (ESel (EVar V_o) F_Outer)).
Definition with_hops (h : hops) (rest : stmt) : stmt :=
  match h with
  | HLoop => SSeq (SDefine V_o (ESel (ESel (ESel venv F_Outer) F_Outer) F_Outer)) (SSeq hop_loop rest)
  | _ => rest
  end.
Definition epilogue : stmt :=
  SSeq (SIncDec true (ESel venv F_IP)) (SReturn2 (EIndex (ESel venv F_Code) (ESel venv F_IP)) venv).

Definition ptrE (k : gokind) (h : hops) : expr :=
  EConv (TPtr k) (EConv TUnsafePtr (EAddr (EIndex (ESel (envE h) F_Ints) (EVar V_index)))).
(* the place of an IntBind variable: uint64 is the slot itself *)
Definition slotE (k : gokind) (h : hops) : expr :=
  match k with
  | GUint64 => EIndex (ESel (envE h) F_Ints) (EVar V_index)
  | _ => EDeref (ptrE k h)
  end.
Definition valsE (h : hops) : expr := EIndex (ESel (envE h) F_Vals) (EVar V_index).

Definition wide_kind (k : gokind) : gokind :=
  if is_signed k then GInt64 else if is_unsigned k then GUint64 else if is_float k then GFloat64
  else if is_complex k then GComplex128 else k.
Definition set_meth (k : gokind) : meth :=
  if is_signed k then M_SetInt else if is_unsigned k then M_SetUint else if is_float k then M_SetFloat
  else if is_complex k then M_SetComplex else match k with GString => M_SetString | _ => M_SetBool end.

Definition rhsE (r : rhsform) : expr :=
  match r with RConst => EVar V_val | RExpr => ECall1 (EVar V_fun) venv end.

(* lhs.SetInt(lhs.Int() OP int64(e)) : every numeric operand is widened (also int64), strings and shift counts are not *)
Definition widen_op (op : binop) (k : gokind) (e : expr) : expr :=
  if is_shiftop op then e else match k with GString => e | _ => EConv (TK (wide_kind k)) e end.
(* env.Vals[i].SetInt(int64(e)) : widened unless already wide *)
Definition widen_set (k : gokind) (e : expr) : expr := if wide k then e else EConv (TK (wide_kind k)) e.

Definition op_stmt (op : binop) (k : gokind) (h : hops) (c : sclass) (r : rhsform) : stmt :=
  match c with
  | CInt => SOpAssign op (slotE k h) (rhsE r)
  | CVal =>
      SBlock (SSeq (SDefine V_lhs (valsE h))
                   (SExpr (ECall1 (EMeth (EVar V_lhs) (set_meth k))
                                  (EBin op (ECall0 (EMeth (EVar V_lhs) (acc_meth k))) (widen_op op k (rhsE r))))))
  end.
Definition set_stmt (k : gokind) (h : hops) (c : sclass) (r : rhsform) : stmt :=
  match c with
  | CInt => SAssign (slotE k h) (rhsE r)
  | CVal => SExpr (ECall1 (EMeth (valsE h) (set_meth k)) (widen_set k (rhsE r)))
  end.

Definition index_let := (V_index, ECall0 (EMeth (ESel (EVar V_va) F_Desc) M_Index)).
Definition upn_let := (V_upn, ESel (EVar V_va) F_Upn).
Definition hop_lets (h : hops) : list (ident * expr) :=
  match h with HLoop => [upn_let; index_let] | _ => [index_let] end.
Definition v_ival := V_other 2505861083.   (* the parameter `ival` of varShlConst / varShrConst *)
Definition shiftConstE := EProj 0 (ECall1 (EGlob G_constAsUint64) (EVar v_ival)).
Definition shiftFunE := ECall0 (EMeth (EVar V_e) M_AsUint64).
Definition eFunE := ESel (EVar V_e) F_Fun.

Definition op_lets (op : binop) (k : gokind) (r : rhsform) : list (ident * expr) :=
  if is_shiftop op then
    match r with RConst => [(V_val, shiftConstE)] | RExpr => [(V_fun, shiftFunE)] end
  else
    match r with
    | RConst => [(V_val, cextract k (valueOf (EVar V_val)))]
    | RExpr => [assertf k V_fun]
    end.
Definition set_lets (k : gokind) (r : rhsform) : list (ident * expr) :=
  match r with
  | RConst => [(V_val, cextract k (EVar V_v))]
  | RExpr => [(V_fun, eFunE); assertf k V_fun]
  end.

Definition stmt_results : list ty := [TStmt; TEnv].

Definition vn := EVar V_n.
Definition closure_of_tmpl (t : tmpl) : closure :=
  match t with
  | TVarOp op k h c r =>
      mkClosure (hop_lets h ++ op_lets op k r) envp stmt_results (with_hops h (SSeq (op_stmt op k h c r) epilogue))
  | TVarSet k h c r =>
      mkClosure (hop_lets h ++ set_lets k r) envp stmt_results (with_hops h (SSeq (set_stmt k h c r) epilogue))
  | TVarQuoPow2 k h negy =>
      if is_signed k then
        mkClosure ((shiftlet :: hop_lets h) ++ [y1let k]) envp stmt_results
          (with_hops h
            (SSeq (SDefine V_addr (ptrE k h))
            (SSeq (SDefine V_n (EDeref (EVar V_addr)))
            (SSeq (SIf (EBin Lss vn (ELit 0)) (SOpAssign Add vn (EVar V_y_1)) SSkip)
            (SSeq (SAssign (EDeref (EVar V_addr))
                           (if negy then EUn Neg (EBin Shr vn (EVar V_shift)) else EBin Shr vn (EVar V_shift)))
                  epilogue)))))
      else
        mkClosure (shiftlet :: hop_lets h) envp stmt_results
          (with_hops h (SSeq (SOpAssign Shr (slotE k h) (EVar V_shift)) epilogue))
  end.

(* ------------------------------------------------------------------ classification of a row *)
Inductive fnclass := FOp (op : binop) (r : rhsform) | FSet (r : rhsform) | FQuoPow2 | FSetValue | FPlace.

Definition fn_of (f : fname) : option fnclass :=
  match f with
  | FN_other 2588382620 => Some (FOp Add RConst) | FN_other 3579778582 => Some (FOp Add RExpr)
  | FN_other 3595805487 => Some (FOp Sub RConst) | FN_other 2783925995 => Some (FOp Sub RExpr)
  | FN_other 812155179 => Some (FOp Mul RConst) | FN_other 3949971391 => Some (FOp Mul RExpr)
  | FN_other 2276262884 => Some (FOp Quo RConst) | FN_other 1010877054 => Some (FOp Quo RExpr)
  | FN_other 1950502865 => Some (FOp Rem RConst) | FN_other 3102046861 => Some (FOp Rem RExpr)
  | FN_other 2003003442 => Some (FOp And RConst) | FN_other 1742936068 => Some (FOp And RExpr)
  | FN_other 1437942702 => Some (FOp Or RConst) | FN_other 888918184 => Some (FOp Or RExpr)
  | FN_other 69973482 => Some (FOp Xor RConst) | FN_other 767963612 => Some (FOp Xor RExpr)
  | FN_other 735767755 => Some (FOp AndNot RConst) | FN_other 1137537247 => Some (FOp AndNot RExpr)
  | FN_other 2700420510 => Some (FOp Shl RConst) | FN_other 1685778904 => Some (FOp Shl RExpr)
  | FN_other 3514644204 => Some (FOp Shr RConst) | FN_other 4220855590 => Some (FOp Shr RExpr)
  | FN_other 669356021 => Some FQuoPow2
  | FN_other 2004638349 => Some (FSet RConst) | FN_other 2952105873 => Some (FSet RExpr)
  | FN_other 1783008807 => Some FSetValue
  | FN_other _ => Some FPlace
  | _ => None
  end.

Definition hops_of (c : pcond) : option hops :=
  match c with
  | PCase (EVar V_upn) [ELit 0] => Some H0
  | PCase (EVar V_upn) [ELit 1] => Some H1
  | PCase (EVar V_upn) [ELit 2] => Some H2
  | PCase (EVar V_upn) [EBin Sub (ESel (EVar V_c) F_Depth) (ELit 1)] => Some HFile
  | PDefault (EVar V_upn) _ => Some HLoop
  | _ => None
  end.
Definition tkind := ECall0 (EMeth (EVar V_t) M_Kind).
Definition kind_of (r : rhsform) (shiftfn : bool) (c : pcond) : option gokind :=
  match c with
  | PCase tag [EKindLit k] => if expr_beq tag tkind && (match r with RConst => true | RExpr => shiftfn end) then Some k else None
  | PCase (ETypeOf (EVar V_fun)) [ETypeLit (TFun k)] => match r with RExpr => if shiftfn then None else Some k | RConst => None end
  | _ => None
  end.
Definition class_of (k : gokind) (rest : list pcond) : option sclass :=
  match rest with
  | [PIf (EVar V_intbinds) true] => Some CInt
  | [PIf (EVar V_intbinds) false] => Some CVal
  | [] => match k with GString => Some CVal | _ => None end
  | _ => None
  end.

Definition classify (e : entry) : option tmpl :=
  match fn_of (e_func e), e_path e with
  | Some (FOp op r), kc :: hc :: rest =>
      match kind_of r (is_shiftop op) kc, hops_of hc with
      | Some k, Some h => match class_of k rest with Some c => Some (TVarOp op k h c r) | None => None end
      | _, _ => None
      end
  | Some (FSet r), hc :: PCase tag [EKindLit k] :: rest =>
      if expr_beq tag tkind then
        match hops_of hc, class_of k rest with
        | Some h, Some c => Some (TVarSet k h c r)
        | _, _ => None
        end
      else None
  | Some FQuoPow2, PCase tag [EKindLit k] :: hc :: rest =>
      if expr_beq tag tkind then
        match hops_of hc, rest with
        | Some h, [PIf (EVar V_ypositive) pos] => if is_signed k then Some (TVarQuoPow2 k h (negb pos)) else None
        | Some h, [] => if is_unsigned k then Some (TVarQuoPow2 k h false) else None
        | _, _ => None
        end
      else None
  | _, _ => None
  end.

(* rows that belong to the variable-place theorems: the basic-kind closures of var_ops.go, var_set.go, var_shifts.go.
   Out of scope (reflect based, tied by the harness only): the `default:` clause of varSetConst / varSetExpr
   (non-basic kinds: Vals[i].Set(v)), varSetValue (run-time reflect.Value), and the place_* files (see place_ok). *)
Definition is_default_kind (c : pcond) : bool :=
  match c with PDefault tag _ => expr_beq tag tkind | _ => false end.
Definition in_scope (e : entry) : bool :=
  match fn_of (e_func e) with
  | Some (FOp _ _) | Some FQuoPow2 => true
  | Some (FSet _) => negb (existsb is_default_kind (e_path e))
  | _ => false
  end.

Definition entry_ok (e : entry) : bool :=
  match classify e with
  | Some t => tmpl_valid t && closure_beq (closure_of e) (closure_of_tmpl t)
  | None => false
  end.
Definition row_ok (e : entry) : bool := if in_scope e then entry_ok e else true.

Fixpoint forallb2_ident (a b : list ident) : bool :=
  match a, b with
  | [], [] => true
  | x :: a', y :: b' => ident_beq x y && forallb2_ident a' b'
  | _, _ => false
  end.

(* ------------------------------------------------------------------ non-variable places (place_ops.go, place_set.go, place_shifts.go) *)
(* Single evaluation, syntactically: the calls  f(env)  of captured functions listed in evaluation order, provided every one
   of them sits in a position that is executed exactly once (not in a branch of an if, not in a loop, not on the right of
   && / ||) and nothing in the body is opaque.  None = some call is conditional / repeated, or the body is outside the
   fragment. *)
Definition is_arith_op (op : binop) : bool :=
  match op with Add | Sub | Mul | Quo | Rem | And | Or | Xor | AndNot | Shl | Shr => true | _ => false end.

Fixpoint ecalls (e : expr) : option (list ident) :=
  let seq2 a b := match ecalls a, ecalls b with Some x, Some y => Some (x ++ y) | _, _ => None end in
  match e with
  | EVar _ | ELit _ | EStr _ | EKindLit _ | ETypeLit _ | EGlob _ => Some []
  | EBin LAnd a b | EBin LOr a b =>
      match ecalls a, ecalls b with Some x, Some [] => Some x | _, _ => None end
  | EBin _ a b => seq2 a b
  | EUn _ a | EConv _ a | EAssert _ a | ETypeOf a | ESel a _ | EMeth a _ | EDeref a | EAddr a | EProj _ a => ecalls a
  | ECall0 f => ecalls f
  | ECall1 (EVar f) (EVar V_env) => Some [f]
  | ECall1 f a => seq2 f a
  | ECall2 f a b => match ecalls f, ecalls a, ecalls b with Some x, Some y, Some z => Some (x ++ y ++ z) | _, _, _ => None end
  | ECall3 f a b c =>
      match ecalls f, ecalls a, ecalls b, ecalls c with Some x, Some y, Some z, Some w => Some (x ++ y ++ z ++ w) | _, _, _, _ => None end
  | EIndex a i => seq2 a i
  | ESlice a lo hi => match ecalls a, ecalls lo, ecalls hi with Some x, Some y, Some z => Some (x ++ y ++ z) | _, _, _ => None end
  | EOpaque _ => None
  end.

Fixpoint scalls (s : stmt) : option (list ident) :=
  let seq2 a b := match a, b with Some x, Some y => Some (x ++ y) | _, _ => None end in
  match s with
  | SSkip | SReturn0 => Some []
  | SSeq a b => seq2 (scalls a) (scalls b)
  | SReturn e | SDefine _ e | SExpr e | SIncDec _ e => ecalls e
  | SReturn2 a b | SAssign a b | SOpAssign _ a b => seq2 (ecalls a) (ecalls b)
  | SBlock b => scalls b
  | SIf c t f => match ecalls c, scalls t, scalls f with Some x, Some [], Some [] => Some x | _, _, _ => None end
  | SFor _ _ _ _ => None
  | SOpaque _ => None
  end.

(* the arithmetic / shift operators that occur in a body *)
Fixpoint eops (e : expr) : list binop :=
  match e with
  | EBin op a b => (if is_arith_op op then [op] else []) ++ eops a ++ eops b
  | EUn _ a | EConv _ a | EAssert _ a | ETypeOf a | ESel a _ | EMeth a _ | EDeref a | EAddr a | EProj _ a | ECall0 a => eops a
  | ECall1 f a => eops f ++ eops a
  | ECall2 f a b => eops f ++ eops a ++ eops b
  | ECall3 f a b c => eops f ++ eops a ++ eops b ++ eops c
  | EIndex a i => eops a ++ eops i
  | ESlice a lo hi => eops a ++ eops lo ++ eops hi
  | _ => []
  end.
Fixpoint sops (s : stmt) : list binop :=
  match s with
  | SSeq a b => sops a ++ sops b
  | SReturn e | SDefine _ e | SExpr e => eops e
  | SReturn2 a b | SAssign a b => eops a ++ eops b
  | SOpAssign op a b => (if is_arith_op op then [op] else []) ++ eops a ++ eops b
  | SBlock b => sops b
  | SIf c t f => eops c ++ sops t ++ sops f
  | SFor i c p b => sops i ++ eops c ++ sops p ++ sops b
  | _ => []
  end.

Definition place_fn_ops (f : fname) : option (list binop) :=   (* the operators the body may contain; [] for x = e *)
  match f with
  | FN_other 2371809298 | FN_other 3440442980 => Some [Add]
  | FN_other 1979215301 | FN_other 147144937 => Some [Sub]
  | FN_other 4192245697 | FN_other 3470413693 => Some [Mul]
  | FN_other 486257158 | FN_other 1353110400 => Some [Quo]
  | FN_other 2251665411 | FN_other 1186776887 => Some [Rem]
  | FN_other 1553836284 | FN_other 145221878 => Some [And]
  | FN_other 2865435632 | FN_other 2067008098 => Some [Or]
  | FN_other 274123776 | FN_other 4021002866 => Some [Xor]
  | FN_other 1660121273 | FN_other 3722436469 => Some [AndNot]
  | FN_other 815227768 | FN_other 1747258922 => Some [Shl]
  | FN_other 4016076242 | FN_other 2965270308 => Some [Shr]
  | FN_other 821825487 => Some [Shr; Add]          (* placeQuoPow2: (x + roundup) >> shift *)
  | FN_other 1711412711 | FN_other 4216241155 => Some []
  | _ => None
  end.

(* the captured variable bound to place.Fun / place.MapKey *)
Definition let_of (e : entry) (rhs : expr) : option ident :=
  match find (fun xe => expr_beq (snd xe) rhs) (e_lets e) with Some (x, _) => Some x | None => None end.
Definition placeFunE := ESel (EVar V_place) F_Fun.
Definition placeKeyE := ESel (EVar V_place) F_MapKey.

Definition ends_with_epilogue (s : stmt) : bool :=
  (fix go (s : stmt) : bool :=
     match s with
     | SSeq a b => stmt_beq b epilogue || go b
     | _ => false
     end) s.

(* statement closures of the place files: func(env *Env) (Stmt, *Env) *)
Definition is_stmt_closure (e : entry) : bool := tys_beq (e_results e) stmt_results.

Definition place_row_ok (e : entry) : bool :=
  match place_fn_ops (e_func e), let_of e placeFunE with
  | Some allowed, Some pf =>
      let kf := let_of e placeKeyE in
      match scalls (e_body e) with
      | None => false
      | Some calls =>
          let expected_head := match kf with Some k => [pf; k] | None => [pf] end in
          let rest := skipn (length expected_head) calls in
          (* place function first, then the key function, then at most one operand function; each exactly once *)
          forallb2_ident (firstn (length expected_head) calls) expected_head
          && (Nat.leb (length rest) 1)
          && forallb (fun x => negb (ident_beq x pf) && match kf with Some k => negb (ident_beq x k) | None => true end) rest
          && ends_with_epilogue (e_body e)
          && forallb (fun o => existsb (binop_beq o) allowed) (sops (e_body e))
      end
  | Some _, None => false
  | None, _ => true
  end.

(* ------------------------------------------------------------------ statement semantics *)
Section Exec.
  Variable F : Type.
  Variable fbin : gokind -> binop -> F -> F -> F.
  Variable fcmp : gokind -> binop -> F -> F -> bool.
  Variable fun1 : gokind -> unop -> F -> F.
  Variable fconv : gokind -> gokind -> F -> F.
  Variable fpart : gokind -> bool -> F -> F.
  Variable fofbits : gokind -> Z -> Z -> F.
  Variable ftobits : gokind -> F -> Z * Z.          (* the one or two uint64 slots a float / complex value occupies *)

  Notation value := (value F).
  Notation state := (state F).
  Notation frame := (frame F).
  Notation M := (M F).
  Notation cenv := (cenv F).
  Notation lenv := (lenv F).
  Notation opfun := (opfun F).
  Notation eval := (eval F fbin fcmp fun1 fconv fpart fofbits).
  Notation binop_val := (binop_val F fbin fcmp).
  Notation outcome := (outcome F).

  (* number of bytes*8 a value of kind k occupies at the low end of its uint64 slot *)
  Definition slot_bits (k : gokind) : Z :=
    match k with
    | GBool | GInt8 | GUint8 => 8
    | GInt16 | GUint16 => 16
    | GInt32 | GUint32 | GFloat32 => 32
    | _ => 64
    end.
  (* the narrow store  through the pointer-to-K cast of &slot : only the low slot_bits k bits of the word change *)
  Definition narrow_store (k : gokind) (w z : Z) : Z := w - w mod 2 ^ slot_bits k + z mod 2 ^ slot_bits k.

  Definition set_frame (s : state) (p : nat) (fr : frame) : state := set_nth s p fr.
  Definition with_ints (fr : frame) (ints : list Z) : frame :=
    mkFrame F ints (fr_vals F fr) (fr_outer F fr) (fr_file F fr) (fr_ip F fr).
  Definition with_vals (fr : frame) (vals : list value) : frame :=
    mkFrame F (fr_ints F fr) vals (fr_outer F fr) (fr_file F fr) (fr_ip F fr).
  Definition with_ip (fr : frame) (ip : Z) : frame :=
    mkFrame F (fr_ints F fr) (fr_vals F fr) (fr_outer F fr) (fr_file F fr) ip.

  (* the word(s) written for a value of kind k *)
  Definition store_words (k : gokind) (ints : list Z) (i : Z) (v : value) : res (list Z) :=
    match zth ints i with
    | None => Panic PIndex
    | Some w =>
      match v with
      | VInt k' z => if gokind_beq k' k && is_integer k then Ok (set_nth ints (Z.to_nat i) (narrow_store k w z)) else Stuck
      | VBool b => match k with GBool => Ok (set_nth ints (Z.to_nat i) (narrow_store k w (if b then 1 else 0))) | _ => Stuck end
      | VFlt k' f =>
          if gokind_beq k' k && (is_float k || is_complex k) then
            let (a, b) := ftobits k f in
            match k with
            | GComplex128 =>
                match zth ints (i + 1) with
                | Some _ => Ok (set_nth (set_nth ints (Z.to_nat i) (a mod 2 ^ 64)) (Z.to_nat (i + 1)) (b mod 2 ^ 64))
                | None => Panic PIndex
                end
            | _ => Ok (set_nth ints (Z.to_nat i) (narrow_store k w a))
            end
          else Stuck
      | _ => Stuck
      end
    end.

  Definition store_slot (k : gokind) (p : nat) (i : Z) (v : value) : M unit :=
    fun s => match get_frame F s p with
             | None => Stuck
             | Some fr => match store_words k (fr_ints F fr) i v with
                          | Ok ints => Ok (tt, set_frame s p (with_ints fr ints))
                          | Panic q => Panic q | Stuck => Stuck | OutOfFuel => OutOfFuel
                          end
             end.
  Definition load_ptr (k : gokind) (p : nat) (i : Z) : M value :=
    fun s => match get_frame F s p with
             | None => Stuck
             | Some fr => match load_slot F fofbits k (fr_ints F fr) i with
                          | Ok v => Ok (v, s) | Panic q => Panic q | _ => Stuck end
             end.

  (* reflect.Value.SetInt / SetUint / SetFloat / SetComplex / SetString / SetBool on the value stored in Vals[i]:
     the argument has the wide kind, the stored value keeps its kind (truncation) *)
  Definition setter (m : meth) (old arg : value) : res value :=
    match m, old, arg with
    | M_SetInt, VInt k _, VInt GInt64 z => if is_signed k then Ok (VInt k (GoInt.wrap (ikd k) z)) else Stuck
    | M_SetUint, VInt k _, VInt GUint64 z => if is_unsigned k then Ok (VInt k (GoInt.wrap (ikd k) z)) else Stuck
    | M_SetFloat, VFlt k _, VFlt GFloat64 f => if is_float k then Ok (VFlt k (fconv GFloat64 k f)) else Stuck
    | M_SetComplex, VFlt k _, VFlt GComplex128 f => if is_complex k then Ok (VFlt k (fconv GComplex128 k f)) else Stuck
    | M_SetString, VStr _, VStr s => Ok (VStr s)
    | M_SetBool, VBool _, VBool b => Ok (VBool b)
    | _, _, _ => Stuck
    end.
  Definition set_ref (m : meth) (p : nat) (i : Z) (arg : value) : M unit :=
    fun s => match get_frame F s p with
             | None => Stuck
             | Some fr =>
               match zth (fr_vals F fr) i with
               | None => Panic PIndex
               | Some old => match setter m old arg with
                             | Ok v => Ok (tt, set_frame s p (with_vals fr (set_nth (fr_vals F fr) (Z.to_nat i) v)))
                             | _ => Stuck
                             end
               end
             end.

  Definition local_incdec (inc : bool) (v : value) : res value :=
    match v with
    | VInt k z => match ik_of k with
                  | Some ik => Ok (VInt k (if inc then GoInt.add ik z 1 else GoInt.sub ik z 1))
                  | None => Stuck end
    | _ => Stuck
    end.

  Definition mlift {A} (r : res A) : M A := lift F r.

  (* for ; cond ; post { body } with at most n evaluations of the condition *)
  Fixpoint for_loop (n : nat) (cond : lenv -> M value) (body post : lenv -> M outcome) (l : lenv) {struct n} : M outcome :=
    match n with
    | O => fun _ => OutOfFuel
    | S n' =>
        bind F (cond l) (fun c =>
          match c with
          | VBool false => ret F (ONormal F l)
          | VBool true =>
              bind F (body l) (fun ob =>
                match ob with
                | ONormal _ l2 =>
                    bind F (post l2) (fun op' =>
                      match op' with ONormal _ l3 => for_loop n' cond body post l3 | OReturn _ _ => stuck F end)
                | OReturn _ _ => ret F ob
                end)
          | _ => stuck F
          end)
    end.

  Fixpoint exec2 (s : stmt) (fuel : nat) (ce : cenv) (le : lenv) {struct s} : M outcome :=
    match s with
    | SSkip => ret F (ONormal F le)
    | SSeq a b =>
        bind F (exec2 a fuel ce le) (fun o => match o with ONormal _ le' => exec2 b fuel ce le' | OReturn _ vs => ret F o end)
    | SBlock b =>
        bind F (exec2 b fuel ce le) (fun o =>
          match o with
          | ONormal _ le' => ret F (ONormal F (skipn (length le' - length le) le'))
          | OReturn _ vs => ret F o
          end)
    | SDefine x e => bind F (eval ce le e) (fun v => ret F (ONormal F ((x, default_type F v) :: le)))
    | SIf c t f =>
        bind F (eval ce le c) (fun v =>
          match v with
          | VBool true => exec2 t fuel ce le
          | VBool false => exec2 f fuel ce le
          | _ => stuck F
          end)
    | SAssign (EVar x) e =>
        bind F (eval ce le e) (fun v =>
          match llookup F le x with
          | Some w => match assign_conv F w v with
                      | Ok v' => match lupdate F le x v' with Some le' => ret F (ONormal F le') | None => stuck F end
                      | _ => stuck F end
          | None => stuck F
          end)
    | SAssign (EDeref pe) e =>
        bind F (eval ce le pe) (fun pv => bind F (eval ce le e) (fun v =>
          match pv with
          | VPtr k p i => bind F (store_slot k p i v) (fun _ => ret F (ONormal F le))
          | _ => stuck F
          end))
    | SAssign (EIndex a i) e =>
        bind F (eval ce le a) (fun av => bind F (eval ce le i) (fun iv => bind F (eval ce le e) (fun v =>
          match av, int_of F iv with
          | VInts p, Some z => bind F (store_slot GUint64 p z v) (fun _ => ret F (ONormal F le))
          | _, _ => stuck F
          end)))
    | SOpAssign op (EVar x) e =>
        match llookup F le x with
        | Some w => bind F (eval ce le e) (fun v =>
                      match binop_val op w v with
                      | Ok r => match lupdate F le x r with Some le' => ret F (ONormal F le') | None => stuck F end
                      | Panic p => fun _ => Panic p
                      | _ => stuck F
                      end)
        | None => stuck F
        end
    | SOpAssign op (EDeref pe) e =>
        (* Go: the pointer operand, then the right operand, then the load of the old value *)
        bind F (eval ce le pe) (fun pv => bind F (eval ce le e) (fun v =>
          match pv with
          | VPtr k p i =>
              bind F (load_ptr k p i) (fun old =>
                match binop_val op old v with
                | Ok r => bind F (store_slot k p i r) (fun _ => ret F (ONormal F le))
                | Panic q => fun _ => Panic q
                | _ => stuck F
                end)
          | _ => stuck F
          end))
    | SOpAssign op (EIndex a i) e =>
        bind F (eval ce le a) (fun av => bind F (eval ce le i) (fun iv => bind F (eval ce le e) (fun v =>
          match av, int_of F iv with
          | VInts p, Some z =>
              bind F (load_ptr GUint64 p z) (fun old =>
                match binop_val op old v with
                | Ok r => bind F (store_slot GUint64 p z r) (fun _ => ret F (ONormal F le))
                | Panic q => fun _ => Panic q
                | _ => stuck F
                end)
          | _, _ => stuck F
          end)))
    | SExpr (ECall1 (EMeth lhs m) e) =>
        bind F (eval ce le lhs) (fun lv => bind F (eval ce le e) (fun v =>
          match lv with
          | VRef p i => bind F (set_ref m p i v) (fun _ => ret F (ONormal F le))
          | _ => stuck F
          end))
    | SIncDec inc (ESel e F_IP) =>
        bind F (eval ce le e) (fun ev => fun s =>
          match ev with
          | VEnv p => match get_frame F s p with
                      | Some fr => Ok (ONormal F le, set_frame s p (with_ip fr (if inc then fr_ip F fr + 1 else fr_ip F fr - 1)))
                      | None => Stuck end
          | _ => Stuck
          end)
    | SIncDec inc (EVar x) =>
        match llookup F le x with
        | Some w => match local_incdec inc w with
                    | Ok r => match lupdate F le x r with Some le' => ret F (ONormal F le') | None => stuck F end
                    | _ => stuck F end
        | None => stuck F
        end
    | SFor init cond post body =>
        bind F (exec2 init fuel ce le) (fun o =>
          match o with
          | OReturn _ _ => stuck F
          | ONormal _ le1 =>
            bind F (for_loop fuel (fun l => eval ce l cond) (fun l => exec2 body fuel ce l) (fun l => exec2 post fuel ce l) le1)
              (fun o2 => match o2 with
                         | ONormal _ l' => ret F (ONormal F (skipn (length l' - length le) l'))
                         | OReturn _ _ => ret F o2
                         end)
          end)
    | SReturn2 (EIndex (ESel e1 F_Code) (ESel e2 F_IP)) e3 =>
        (* return env.Code[env.IP], env : the next statement is identified by its index in Code *)
        bind F (eval ce le e1) (fun v1 => bind F (eval ce le e2) (fun v2 => bind F (eval ce le e3) (fun v3 => fun s =>
          match v1, v2, v3 with
          | VEnv p1, VEnv p2, VEnv p3 =>
              if Nat.eqb p1 p2 then
                match get_frame F s p1 with
                | Some fr => Ok (OReturn F [VInt GInt (fr_ip F fr); VEnv p3], s)
                | None => Stuck end
              else Stuck
          | _, _, _ => Stuck
          end)))
    | _ => stuck F
    end.

  (* the statement closure called with the env pointer p: returns (index of the next statement, env) *)
  Definition run_stmt (fuel : nat) (roots : cenv) (c : closure) (p : nat) : M (list value) :=
    match eval_lets F fbin fcmp fun1 fconv fpart fofbits roots (c_lets c) with
    | None => stuck F
    | Some ce =>
      match bind_params F (c_params c) [VEnv p] with
      | None => stuck F
      | Some le =>
          bind F (exec2 (c_body c) fuel ce le) (fun o =>
            match o with
            | OReturn _ vs => ret F vs
            | ONormal _ _ => stuck F
            end)
      end
    end.

  (* ---------------------------------------------------------------- specification *)
  (* what the closure is built from *)
  Record inputs := mkInputs {
    in_idx : Z;        (* va.Desc.Index() *)
    in_upn : Z;        (* va.Upn *)
    in_c : value;      (* the constant operand (shifts: the count as uint64) *)
    in_f : opfun;      (* the operand function (shifts: Expr.AsUint64()) *)
    in_sh : Z          (* power of two templates: the exponent *)
  }.

  (* the frame that holds the variable: upn hops through Outer, or the file frame (it must exist) *)
  Definition target (h : hops) (upn : Z) (p : nat) : M nat :=
    fun s =>
      let chk q := match get_frame F s q with Some _ => Ok (q, s) | None => Stuck end in
      let up n := match env_up F s p n with Ok (VEnv q) => chk q | Panic q => Panic q | _ => Stuck end in
      match h with
      | H0 => chk p
      | H1 => up 1%nat
      | H2 => up 2%nat
      | HLoop => up (Z.to_nat upn)
      | HFile => match get_frame F s p with
                 | Some fr => match fr_file F fr with Some q => chk q | None => Panic PNil end
                 | None => Stuck end
      end.

  (* the constant operand as the closure sees it: K(reflect.ValueOf(c).Int()) ...; shift counts are uint64 already *)
  Definition rhs_const (isshift : bool) (k : gokind) (c : value) : option value :=
    if isshift then Some c else match norm_const F fconv k c with Ok c' => Some c' | _ => None end.

  (* env.IP++ ; return env.Code[env.IP], env *)
  Definition next_stmt (p : nat) : M (list value) :=
    fun s => match get_frame F s p with
             | Some fr => Ok ([VInt GInt (fr_ip F fr + 1); VEnv p], set_frame s p (with_ip fr (fr_ip F fr + 1)))
             | None => Stuck end.

  Definition ok_or_stuck {A} (r : res A) : M A := fun s => match r with Ok a => Ok (a, s) | _ => Stuck end.
  Definition ok_or_panic {A} (r : res A) : M A :=
    fun s => match r with Ok a => Ok (a, s) | Panic q => Panic q | _ => Stuck end.

  (* the value currently stored in Vals[idx] of frame q *)
  Definition read_val (q : nat) (idx : Z) : M value :=
    fun s => match get_frame F s q with
             | Some fr => match zth (fr_vals F fr) idx with Some v => Ok (v, s) | None => Panic PIndex end
             | None => Stuck end.

  (* x OP= e on a variable of class IntBind:  the pointer, then the right operand, then load / operate / store *)
  Definition int_op (op : binop) (k : gokind) (q : nat) (idx : Z) (rhs : M value) : M unit :=
    bind F rhs (fun v => bind F (load_ptr k q idx) (fun old =>
      bind F (ok_or_panic (binop_val op old v)) (fun r => store_slot k q idx r))).
  (* x OP= e on a variable of class VarBind:  lhs.SetInt(lhs.Int() OP int64(e)) - the old value is read (and widened
     by the accessor) BEFORE the right operand is evaluated; the setter narrows the result to the kind of the slot *)
  Definition val_op (op : binop) (k : gokind) (q : nat) (idx : Z) (rhs : M value) : M unit :=
    bind F (read_val q idx) (fun old => bind F (ok_or_stuck (accessor F fconv (acc_meth k) old)) (fun ow =>
      bind F rhs (fun v =>
      bind F (if is_shiftop op then ret F v
              else match k with GString => ret F v | _ => mlift (convert F fconv (wide_kind k) v) end) (fun vw =>
      bind F (mlift (binop_val op ow vw)) (fun r => set_ref (set_meth k) q idx r))))).
  Definition val_set (k : gokind) (q : nat) (idx : Z) (rhs : M value) : M unit :=
    bind F rhs (fun v =>
      bind F (if wide k then ret F v else mlift (convert F fconv (wide_kind k) v)) (fun vw => set_ref (set_meth k) q idx vw)).

  Definition spec_tmpl (t : tmpl) (i : inputs) (p : nat) : M (list value) :=
    match t with
    | TVarOp op k h c r =>
        match (match r with RConst => rhs_const (is_shiftop op) k (in_c i) | RExpr => Some VUnit end) with
        | None => stuck F
        | Some c' =>
          let rhs := match r with RConst => ret F c' | RExpr => in_f i p end in
          bind F (target h (in_upn i) p) (fun q =>
          bind F (match c with CInt => int_op op k q (in_idx i) rhs | CVal => val_op op k q (in_idx i) rhs end)
                 (fun _ => next_stmt p))
        end
    | TVarSet k h c r =>
        match (match r with RConst => rhs_const false k (in_c i) | RExpr => Some VUnit end) with
        | None => stuck F
        | Some c' =>
          let rhs := match r with RConst => ret F c' | RExpr => in_f i p end in
          bind F (target h (in_upn i) p) (fun q =>
          bind F (match c with
                  | CInt => bind F rhs (fun v => store_slot k q (in_idx i) v)
                  | CVal => val_set k q (in_idx i) rhs
                  end) (fun _ => next_stmt p))
        end
    | TVarQuoPow2 k h negy =>
        bind F (target h (in_upn i) p) (fun q =>
        bind F (load_ptr k q (in_idx i)) (fun old =>
          match old with
          | VInt _ x =>
              bind F (store_slot k q (in_idx i)
                        (VInt k (GoInt.quo_total (ikd k) x (if negy then - 2 ^ in_sh i else 2 ^ in_sh i)))) (fun _ => next_stmt p)
          | _ => stuck F
          end))
    end.

  Definition roots_of (t : tmpl) (i : inputs) : cenv :=
    let base := [(ECall0 (EMeth (ESel (EVar V_va) F_Desc) M_Index), CV F (VInt GInt (in_idx i)));
                 (ESel (EVar V_va) F_Upn, CV F (VInt GInt (in_upn i)))] in
    match t with
    | TVarOp op k h c RConst =>
        (if is_shiftop op then (shiftConstE, CV F (in_c i)) else (EVar V_val, CV F (in_c i))) :: base
    | TVarOp op k h c RExpr =>
        (if is_shiftop op then (shiftFunE, CF F GUint64 (in_f i)) else (EVar V_fun, CF F k (in_f i))) :: base
    | TVarSet k h c RConst => (EVar V_v, CV F (in_c i)) :: base
    | TVarSet k h c RExpr => (eFunE, CF F k (in_f i)) :: base
    | TVarQuoPow2 k h negy => (EVar V_y, CV F (VInt GUint64 (2 ^ in_sh i))) :: base
    end.
End Exec.

(* ------------------------------------------------------------------ x++ / x-- and the dispatch of Comp.SetVar *)
(* fast/statement.go Comp.IncDec compiles  x++  as  SetPlace(place, token.ADD, constant 1)  and  x--  with token.SUB:
   the hand model of that dispatch: the statement executed for x++ is the compound assignment template with constant 1 *)
Definition incdec_tmpl (inc : bool) (k : gokind) (h : hops) (c : sclass) : tmpl :=
  TVarOp (if inc then Add else Sub) k h c RConst.

(* ------------------------------------------------------------------ multi-assignment through temporaries (assignment.go) *)
(* Comp.Assign for  p1, ..., pn = e1, ..., en  (assignMulti / assign2): first every place on the left is evaluated
   (object and key / index, in order), then every expression on the right is evaluated and COPIED (dup), then the
   stores are carried out left to right.  Model over an abstract store: places are natural numbers (already
   evaluated), right-hand sides are functions of the store; blank places are None. *)
Section Multi.
  Variable V : Type.
  Definition store := nat -> V.
  Definition upd (st : store) (p : nat) (v : V) : store := fun q => if Nat.eqb q p then v else st q.
  (* phase 2: evaluate all right-hand sides in the store as it is BEFORE any assignment *)
  Definition eval_rhs (st : store) (es : list (store -> V)) : list V := map (fun e => e st) es.
  (* phase 3: the stores, left to right *)
  Fixpoint do_stores (st : store) (ps : list (option nat)) (vs : list V) : store :=
    match ps, vs with
    | Some p :: ps', v :: vs' => do_stores (upd st p v) ps' vs'
    | None :: ps', _ :: vs' => do_stores st ps' vs'
    | _, _ => st
    end.
  Definition multi_assign (st : store) (ps : list (option nat)) (es : list (store -> V)) : store :=
    do_stores st ps (eval_rhs st es).
  (* the naive (wrong) loop the comment in assignment.go warns about: assign one by one *)
  Fixpoint naive_assign (st : store) (ps : list (option nat)) (es : list (store -> V)) : store :=
    match ps, es with
    | Some p :: ps', e :: es' => naive_assign (upd st p (e st)) ps' es'
    | None :: ps', _ :: es' => naive_assign st ps' es'
    | _, _ => st
    end.
End Multi.

(* ------------------------------------------------------------------ correspondence run (integer kinds) *)
Definition uval := value unit.
Definition ubin (_ : gokind) (_ : binop) (_ _ : unit) := tt.
Definition ucmp (_ : gokind) (_ : binop) (_ _ : unit) := false.
Definition uun (_ : gokind) (_ : unop) (_ : unit) := tt.
Definition uconv (_ _ : gokind) (_ : unit) := tt.
Definition upart (_ : gokind) (_ : bool) (_ : unit) := tt.
Definition ubits (_ : gokind) (_ _ : Z) := tt.
Definition utobits (_ : gokind) (_ : unit) := (0, 0).

Inductive obs := ObsVal (z : Z) | ObsPanic (p : panic) | ObsCompileError.
(* one observation of the harness: statement kind, kind, class, hops, constant / expression operand, old value,
   operand value, what gomacro left in the variable *)
Inductive stkind := KOp (op : binop) | KSet | KInc | KDec.
Record case := mkCase {
  c_idx : Z; c_st : stkind; c_kind : gokind; c_class : sclass; c_hops : hops; c_rhs : rhsform;
  c_old : Z; c_v : uval; c_obs : obs
}.

Definition panic_eqb (a b : panic) : bool :=
  match a, b with
  | PDiv0, PDiv0 | PNegShift, PNegShift | PIndex, PIndex | PNil, PNil | POther, POther => true
  | _, _ => false
  end.

(* what Go does *)
Definition case_spec (c : case) : res Z :=
  let k := c_kind c in
  let r := match c_st c with
           | KSet => Ok (c_v c)
           | KOp op => if is_shiftop op then go_shift unit k op (VInt k (c_old c)) (c_v c)
                       else go_binop unit ubin ucmp k op (VInt k (c_old c)) (c_v c)
           | KInc => go_binop unit ubin ucmp k Add (VInt k (c_old c)) (VInt k 1)
           | KDec => go_binop unit ubin ucmp k Sub (VInt k (c_old c)) (VInt k 1)
           end in
  match r with Ok (VInt _ z) => Ok z | Ok _ => Stuck | Panic p => Panic p | Stuck => Stuck | OutOfFuel => OutOfFuel end.

(* a model state with four frames: 0 = current, 1, 2 = outer, 3 = outermost / file frame; the variable sits in
   slot 1 of its frame between two neighbours *)
Definition nb0 : Z := 18446744073709551615.
Definition nb1 : Z := 6148914691236517205.
Definition mk_frame (k : gokind) (c : sclass) (here : bool) (old : Z) (outer : option nat) : frame unit :=
  let w := if here then (old mod 2 ^ 64) else 7 in
  mkFrame unit [nb0; w; nb1] [VInt k (-1 mod 2 ^ 7); (if here then VInt k old else VInt k 3); VInt k 5] outer (Some 3%nat) 10.
Definition depth_of (h : hops) : nat := match h with H0 => 0 | H1 => 1 | H2 => 2 | HFile => 3 | HLoop => 3 end.
Definition mk_state (k : gokind) (c : sclass) (h : hops) (old : Z) : state unit :=
  let d := depth_of h in
  [mk_frame k c (Nat.eqb d 0) old (Some 1%nat); mk_frame k c (Nat.eqb d 1) old (Some 2%nat);
   mk_frame k c (Nat.eqb d 2) old (Some 3%nat); mk_frame k c (Nat.eqb d 3) old None].

Definition find_tmpl (tables : list entry) (t : tmpl) : option entry :=
  find (fun e => match classify e with
                 | Some t' => closure_beq (closure_of_tmpl t) (closure_of_tmpl t') && in_scope e
                 | None => false end) tables.

Definition case_tmpl (c : case) : tmpl :=
  match c_st c with
  | KOp op => TVarOp op (c_kind c) (c_hops c) (c_class c) (c_rhs c)
  | KSet => TVarSet (c_kind c) (c_hops c) (c_class c) (c_rhs c)
  | KInc => incdec_tmpl true (c_kind c) (c_hops c) (c_class c)
  | KDec => incdec_tmpl false (c_kind c) (c_hops c) (c_class c)
  end.

(* the regenerated row run on the model state: the new content of the variable, read back at kind k *)
Definition case_row (tables : list entry) (c : case) : res Z :=
  let k := c_kind c in
  let t := case_tmpl c in
  let v := match c_st c with KInc | KDec => VInt k 1 | _ => c_v c end in
  let i := mkInputs unit 1 3 v (fun _ s => Ok (v, s)) 0 in
  match find_tmpl tables t with
  | None => Stuck
  | Some e =>
      let s0 := mk_state k (c_class c) (c_hops c) (c_old c) in
      match run_stmt unit ubin ucmp uun uconv upart ubits utobits 8 (roots_of unit t i) (closure_of e) 0%nat s0 with
      | Ok ([VInt GInt 11; VEnv 0%nat], s1) =>
          let q := depth_of (c_hops c) in
          match (match c_class c with CInt => load_ptr unit ubits k q 1 s1 | CVal => read_val unit q 1 s1 end) with
          | Ok (VInt _ z, _) =>
              (* neighbours untouched, in every frame *)
              let untouched :=
                forallb (fun fr => match fr with
                                   | mkFrame _ [a; _; b] [x; _; y] _ _ _ => (a =? nb0) && (b =? nb1)
                                   | _ => false end) s1 in
              if untouched then Ok z else Stuck
          | _ => Stuck
          end
      | Ok _ => Stuck
      | Panic p => Panic p
      | Stuck => Stuck
      | OutOfFuel => OutOfFuel
      end
  end.

Definition obs_matches (r : res Z) (o : obs) : bool :=
  match r, o with
  | Ok z, ObsVal w => z =? w
  | Panic p, ObsPanic q => panic_eqb p q
  | _, _ => false
  end.
Definition case_ok (tables : list entry) (c : case) : bool :=
  obs_matches (case_spec c) (c_obs c) && obs_matches (case_row tables c) (c_obs c).
Definition mismatches (tables : list entry) (cs : list case) : list Z :=
  map c_idx (filter (fun c => negb (case_ok tables c)) cs).

(* C02 -- x /= +-2^sh on an IntBind variable (varQuoPow2): the shift template is truncated division *)
From Coq Require Import ZArith List Bool Lia.
From Verif Require Import Common.GoInt Common.GoStr GoLite.Syntax GoLite.Sem GoLite.Templates C01.Model C01.Proof C02.Model C02.ProofA.
Import ListNotations.
Open Scope Z_scope.

Section P.
  Variable F : Type.
  Variable fbin : gokind -> binop -> F -> F -> F.
  Variable fcmp : gokind -> binop -> F -> F -> bool.
  Variable fun1 : gokind -> unop -> F -> F.
  Variable fconv : gokind -> gokind -> F -> F.
  Variable fpart : gokind -> bool -> F -> F.
  Variable fofbits : gokind -> Z -> Z -> F.
  Variable ftobits : gokind -> F -> Z * Z.
  Notation value := (value F).
  Notation state := (state F).
  Notation cenv := (cenv F).
  Notation lenv := (lenv F).
  Notation eval := (eval F fbin fcmp fun1 fconv fpart fofbits).
  Notation exec2 := (exec2 F fbin fcmp fun1 fconv fpart fofbits ftobits).
  Notation target := (target F).
  Notation load_ptr := (load_ptr F fofbits).
  Notation store_slot := (store_slot F ftobits).
  Notation binop_val := (binop_val F fbin fcmp).
  Notation next_stmt := (next_stmt F).
  Notation run_stmt := (run_stmt F fbin fcmp fun1 fconv fpart fofbits ftobits).
  Notation spec_tmpl := (spec_tmpl F fbin fcmp fconv fofbits ftobits).
  Notation roots_of := (roots_of F).
  Notation eval_lets := (eval_lets F fbin fcmp fun1 fconv fpart fofbits).
  Notation ceval := (ceval F fbin fcmp fun1 fconv fpart fofbits).

  Arguments Sem.eval : simpl never.
  Arguments Model.exec2 : simpl never.
  Arguments Z.pow : simpl never.
  Arguments GoInt.wrap : simpl never.
  Arguments GoInt.add : simpl never.
  Arguments GoInt.sub : simpl never.
  Arguments GoInt.shr : simpl never.
  Arguments GoInt.neg : simpl never.
  Arguments bitlen : simpl never.
  Arguments representable : simpl never.

  Lemma eval_deref (ce : cenv) (le : lenv) a :
    eval ce le (EDeref a) =
    bind F (eval ce le a) (fun va => fun s =>
      match va with
      | VPtr k p i => match get_frame F s p with
                      | Some fr => match load_slot F fofbits k (fr_ints F fr) i with Ok v => Ok (v, s) | Panic q => Panic q | _ => Stuck end
                      | None => Stuck end
      | _ => Stuck
      end).
  Proof. reflexivity. Qed.

  Lemma eval_lit (ce : cenv) (le : lenv) z : eval ce le (ELit z) = ret F (VUntyped z).
  Proof. reflexivity. Qed.
  Lemma eval_neg (ce : cenv) (le : lenv) a :
    eval ce le (EUn Neg a) = bind F (eval ce le a) (fun va => lift F (go_unop F fun1 Neg va)).
  Proof. reflexivity. Qed.

  (* the value loaded from an integer slot is a well-formed integer of that kind *)
  Lemma load_int_value k (ints : list Z) i v : is_integer k = true -> load_slot F fofbits k ints i = Ok v ->
    exists x, v = VInt k x /\ in_range (ikd k) x.
  Proof.
    intros Hk. unfold load_slot. destruct (zth ints i) as [w|]; [|discriminate].
    destruct k; try discriminate; intros [= <-]; eexists; (split; [reflexivity|apply wrap_range]).
  Qed.

  (* the signed body: n := *addr; if n < 0 { n += y_1 }; *addr = [-](n >> shift) *)
  Definition pow2_body (k : gokind) (h : hops) (negy : bool) : stmt :=
    SSeq (SDefine V_addr (ptrE k h))
    (SSeq (SDefine V_n (EDeref (EVar V_addr)))
    (SSeq (SIf (EBin Lss vn (ELit 0)) (SOpAssign Add vn (EVar V_y_1)) SSkip)
    (SSeq (SAssign (EDeref (EVar V_addr))
                   (if negy then EUn Neg (EBin Shr vn (EVar V_shift)) else EBin Shr vn (EVar V_shift)))
          epilogue))).

  Lemma pow2_signed_body_sound k h negy upn p idx sh fuel (ce : cenv) (le : lenv) (s : state) :
    is_signed k = true -> 0 <= sh <= GoInt.width (ikd k) - 1 ->
    sel_freeb F ce = true -> le_ok F h upn p le s -> idx_ok F fbin fcmp fun1 fconv fpart fofbits ce le idx ->
    llookup F le V_addr = None -> llookup F le V_n = None -> llookup F le V_y_1 = None -> llookup F le V_shift = None ->
    clookup F ce (EVar V_y_1) = Some (CV F (VInt k (GoInt.wrap (ikd k) (2 ^ sh - 1)))) ->
    clookup F ce (EVar V_shift) = Some (CV F (VInt GUint8 sh)) ->
    exec2 (pow2_body k h negy) fuel ce le s =
    match target h upn p s with
    | Ok (q, _) =>
        match load_ptr k q idx s with
        | Ok (VInt _ x, _) =>
            as_return F (then_next F p (store_slot k q idx (VInt k (GoInt.quo_total (ikd k) x (if negy then - 2 ^ sh else 2 ^ sh)))) s)
        | Ok _ => Stuck
        | Panic x => Panic x
        | _ => Stuck
        end
    | Panic x => Panic x
    | _ => Stuck
    end.
  Proof.
    intros Hsg Hsh Hce Hle Hidx La Ln Ly Ls Cy Cs.
    assert (Hk : is_integer k = true) by (destruct k; try discriminate; reflexivity).
    pose proof (le_ok_env F h upn p le s Hle) as Henv.
    pose proof (target_not_oof F h upn p s) as Hn.
    unfold pow2_body. rewrite exec2_seq.
    change (exec2 (SDefine V_addr (ptrE k h)) fuel ce le) with
      (bind F (eval ce le (ptrE k h)) (fun v => ret F (ONormal F ((V_addr, default_type F v) :: le)))).
    unfold ptrE. rewrite eval_ptr. unfold bind at 1 2 3.
    rewrite (eval_place_fld F fbin fcmp fun1 fconv fpart fofbits h upn p F_Ints ce le s Hce (or_introl eq_refl) Hle).
    destruct (target h upn p s) as [[q s']| | |] eqn:T; simpl sel_of; try reflexivity; [|exfalso; apply Hn; reflexivity].
    destruct (target_state F _ _ _ _ _ _ T) as [-> [fr Hq]]. rewrite (Hidx s).
    change (int_of F (VInt GInt idx)) with (Some idx). unfold ret at 1. cbv beta iota. simpl default_type.
    set (le1 := (V_addr, VPtr k q idx) :: le). unfold ret at 1. cbv beta iota.
    rewrite exec2_seq.
    change (exec2 (SDefine V_n (EDeref (EVar V_addr))) fuel ce le1) with
      (bind F (eval ce le1 (EDeref (EVar V_addr))) (fun v => ret F (ONormal F ((V_n, default_type F v) :: le1)))).
    rewrite eval_deref. unfold bind at 1 2.
    rewrite (eval_lvar F fbin fcmp fun1 fconv fpart fofbits ce le1 V_addr (VPtr k q idx) s eq_refl).
    unfold load_ptr. rewrite Hq.
    destruct (load_slot F fofbits k (fr_ints F fr) idx) as [old| | |] eqn:L; try reflexivity.
    destruct (load_int_value k _ _ _ Hk L) as (x & -> & Hr).
    unfold ret at 1. simpl default_type.
    set (le2 := (V_n, VInt k x) :: le1).
    rewrite exec2_seq.
    (* if n < 0 { n += y_1 } *)
    assert (Hy1 : forall l : lenv, llookup F l V_y_1 = None -> forall s0 : state,
               eval ce l (EVar V_y_1) s0 = Ok (VInt k (GoInt.wrap (ikd k) (2 ^ sh - 1)), s0))
      by (intros l Hl s0; apply eval_cvar; assumption).
    assert (Hshift : forall l : lenv, llookup F l V_shift = None -> forall s0 : state, eval ce l (EVar V_shift) s0 = Ok (VInt GUint8 sh, s0))
      by (intros l Hl s0; apply eval_cvar; assumption).
    assert (Ly2 : llookup F le2 V_y_1 = None) by (unfold le2, le1; simpl; exact Ly).
    assert (Ls2 : llookup F le2 V_shift = None) by (unfold le2, le1; simpl; exact Ls).
    pose proof (quoPow2_pos_sound (ikd k) x sh) as Qp. pose proof (quoPow2_neg_sound (ikd k) x sh) as Qn.
    assert (Hsik : signed (ikd k) = true) by (destruct k; try discriminate; reflexivity).
    specialize (Qp Hsik Hr Hsh). specialize (Qn Hsik Hr Hsh). unfold quoPow2_body in Qp, Qn.
    (* the local n after the conditional fix-up *)
    set (n' := if x <? 0 then GoInt.add (ikd k) x (GoInt.wrap (ikd k) (2 ^ sh - 1)) else x) in *.
    assert (Hif : exec2 (SIf (EBin Lss vn (ELit 0)) (SOpAssign Add vn (EVar V_y_1)) SSkip) fuel ce le2 s =
                  Ok (ONormal F ((V_n, VInt k n') :: le1), s)).
    { change (exec2 (SIf ?c ?t ?f) fuel ce le2) with
        (bind F (eval ce le2 c) (fun v => match v with VBool true => exec2 t fuel ce le2 | VBool false => exec2 f fuel ce le2 | _ => stuck F end)).
      rewrite eval_bin. unfold bind at 1 2 3. unfold vn.
      rewrite (eval_lvar F fbin fcmp fun1 fconv fpart fofbits ce le2 V_n (VInt k x) s eq_refl).
      rewrite eval_lit. unfold ret at 1. unfold lift.
      rewrite (binop_lit F fbin fcmp k Lss x 0 Hk ltac:(lia) eq_refl). unfold arith. rewrite (ik_of_ikd k Hk).
      unfold n'. destruct (x <? 0).
      - change (exec2 (SOpAssign Add (EVar V_n) (EVar V_y_1)) fuel ce le2) with
          (match llookup F le2 V_n with
           | Some w => bind F (eval ce le2 (EVar V_y_1)) (fun v =>
                         match binop_val Add w v with
                         | Ok r => match lupdate F le2 V_n r with Some le' => ret F (ONormal F le') | None => stuck F end
                         | Panic p0 => fun _ => Panic p0
                         | _ => stuck F
                         end)
           | None => stuck F
           end).
        change (llookup F le2 V_n) with (Some (VInt k x : value)). unfold bind. rewrite (Hy1 le2 Ly2 s).
        rewrite (binop_int F fbin fcmp k Add x _ eq_refl). unfold arith. rewrite (ik_of_ikd k Hk). reflexivity.
      - reflexivity. }
    rewrite Hif. set (le3 := (V_n, VInt k n') :: le1).
    assert (Ls3 : llookup F le3 V_shift = None) by (unfold le3, le1; simpl; exact Ls).
    (* *addr = [-](n >> shift) *)
    apply (seq_epilogue F fbin fcmp fun1 fconv fpart fofbits ftobits _ fuel ce le3 p s
             (store_slot k q idx (VInt k (GoInt.quo_total (ikd k) x (if negy then - 2 ^ sh else 2 ^ sh))))).
    all: cycle 1.
    - change (exec2 (SAssign (EDeref (EVar V_addr)) ?e) fuel ce le3) with
        (bind F (eval ce le3 (EVar V_addr)) (fun pv => bind F (eval ce le3 e) (fun v =>
          match pv with
          | VPtr k0 p0 i => bind F (store_slot k0 p0 i v) (fun _ => ret F (ONormal F le3))
          | _ => stuck F
          end))).
      unfold bind at 1. rewrite (eval_lvar F fbin fcmp fun1 fconv fpart fofbits ce le3 V_addr (VPtr k q idx) s eq_refl).
      assert (Eshr : eval ce le3 (EBin Shr vn (EVar V_shift)) s = Ok (VInt k (GoInt.shr (ikd k) n' sh), s)).
      { rewrite eval_bin. unfold bind, vn. rewrite (eval_lvar F fbin fcmp fun1 fconv fpart fofbits ce le3 V_n (VInt k n') s eq_refl).
        rewrite (Hshift le3 Ls3 s). unfold lift. rewrite (shift_u8 F fbin fcmp k Shr n' sh eq_refl). unfold shift. rewrite (ik_of_ikd k Hk). reflexivity. }
      destruct negy.
      + rewrite eval_neg. unfold bind at 1 2. rewrite Eshr. unfold lift, go_unop. rewrite (ik_of_ikd k Hk).
        fold n' in Qn. rewrite Qn. unfold bind, ret.
        destruct (store_slot k q idx (VInt k (quo_total (ikd k) x (- 2 ^ sh))) s) as [[u s1]| | |]; reflexivity.
      + unfold bind at 1. rewrite Eshr. fold n' in Qp. rewrite Qp. unfold bind, ret.
        destruct (store_slot k q idx (VInt k (quo_total (ikd k) x (2 ^ sh))) s) as [[u s1]| | |]; reflexivity.
    - (* both sides agree *)
      unfold le3, le1. simpl. exact Henv.
  Qed.

  (* ---- unsigned: x >>= shift *)
  Lemma pow2_unsigned_body_sound k h upn p idx sh fuel (ce : cenv) (le : lenv) (s : state) :
    is_unsigned k = true -> 0 <= sh <= GoInt.width (ikd k) - 1 ->
    sel_freeb F ce = true -> le_ok F h upn p le s -> idx_ok F fbin fcmp fun1 fconv fpart fofbits ce le idx ->
    llookup F le V_shift = None -> clookup F ce (EVar V_shift) = Some (CV F (VInt GUint8 sh)) ->
    exec2 (SSeq (SOpAssign Shr (slotE k h) (EVar V_shift)) epilogue) fuel ce le s =
    match target h upn p s with
    | Ok (q, _) =>
        match load_ptr k q idx s with
        | Ok (VInt _ x, _) => as_return F (then_next F p (store_slot k q idx (VInt k (GoInt.quo_total (ikd k) x (2 ^ sh)))) s)
        | Ok _ => Stuck
        | Panic x => Panic x
        | _ => Stuck
        end
    | Panic x => Panic x
    | _ => Stuck
    end.
  Proof.
    intros Hu Hsh Hce Hle Hidx Ls Cs.
    assert (Hk : is_integer k = true) by (destruct k; try discriminate; reflexivity).
    pose proof (le_ok_env F h upn p le s Hle) as Henv.
    pose proof (target_not_oof F h upn p s) as Hn.
    pose proof (eval_place_fld F fbin fcmp fun1 fconv fpart fofbits h upn p F_Ints ce le s Hce (or_introl eq_refl) Hle) as E.
    destruct (target h upn p s) as [[q s']| | |] eqn:T; simpl sel_of in E.
    - destruct (target_state F _ _ _ _ _ _ T) as [-> [fr Hq]].
      unfold load_ptr. rewrite Hq.
      destruct (load_slot F fofbits k (fr_ints F fr) idx) as [old| | |] eqn:L.
      + destruct (load_int_value k _ _ _ Hk L) as (x & -> & Hr).
        apply (seq_epilogue F fbin fcmp fun1 fconv fpart fofbits ftobits _ fuel ce le p s
                 (store_slot k q idx (VInt k (GoInt.quo_total (ikd k) x (2 ^ sh))))); [exact Henv|].
        rewrite (exec_opassign_slot F fbin fcmp fun1 fconv fpart fofbits ftobits Shr k h (EVar V_shift) fuel ce le s q idx E Hidx).
        unfold int_store, bind. rewrite (eval_cvar F fbin fcmp fun1 fconv fpart fofbits ce le V_shift (VInt GUint8 sh) s Ls Cs).
        unfold load_ptr. rewrite Hq, L.
        rewrite (shift_u8 F fbin fcmp k Shr x sh eq_refl). unfold shift. rewrite (ik_of_ikd k Hk). simpl.
        assert (Hu' : signed (ikd k) = false) by (destruct k; try discriminate; reflexivity).
        assert (Eq : GoInt.shr (ikd k) x sh = GoInt.quo_total (ikd k) x (2 ^ sh)).
        { rewrite shr_div_pow2 by lia. unfold quo_total.
          assert (0 < 2 ^ sh) by (apply Z.pow_pos_nonneg; lia).
          unfold in_range, imin, imax in Hr. rewrite Hu' in Hr.
          rewrite Z.quot_div_nonneg by lia. symmetry. apply wrap_id.
          unfold in_range, imin, imax. rewrite Hu'. split; [apply Z.div_pos; lia|].
          assert (x / 2 ^ sh <= x) by (apply Z.div_le_upper_bound; nia). lia. }
        rewrite Eq. unfold ret.
        destruct (store_slot k q idx (VInt k (quo_total (ikd k) x (2 ^ sh))) s) as [[u s1]| | |]; reflexivity.
      + rewrite exec2_seq, (exec_opassign_slot F fbin fcmp fun1 fconv fpart fofbits ftobits Shr k h (EVar V_shift) fuel ce le s q idx E Hidx).
        unfold int_store, bind. rewrite (eval_cvar F fbin fcmp fun1 fconv fpart fofbits ce le V_shift (VInt GUint8 sh) s Ls Cs).
        unfold load_ptr. rewrite Hq, L. reflexivity.
      + rewrite exec2_seq, (exec_opassign_slot F fbin fcmp fun1 fconv fpart fofbits ftobits Shr k h (EVar V_shift) fuel ce le s q idx E Hidx).
        unfold int_store, bind. rewrite (eval_cvar F fbin fcmp fun1 fconv fpart fofbits ce le V_shift (VInt GUint8 sh) s Ls Cs).
        unfold load_ptr. rewrite Hq, L. reflexivity.
      + rewrite exec2_seq, (exec_opassign_slot F fbin fcmp fun1 fconv fpart fofbits ftobits Shr k h (EVar V_shift) fuel ce le s q idx E Hidx).
        unfold int_store, bind. rewrite (eval_cvar F fbin fcmp fun1 fconv fpart fofbits ce le V_shift (VInt GUint8 sh) s Ls Cs).
        unfold load_ptr. rewrite Hq, L. reflexivity.
    - rewrite exec2_seq, (proj2 (exec_opassign_slot_fail F fbin fcmp fun1 fconv fpart fofbits ftobits Shr k h (EVar V_shift) fuel ce le s) _ E). reflexivity.
    - rewrite exec2_seq, (proj1 (exec_opassign_slot_fail F fbin fcmp fun1 fconv fpart fofbits ftobits Shr k h (EVar V_shift) fuel ce le s) E). reflexivity.
    - exfalso. apply Hn. reflexivity.
  Qed.

  (* ---- the lets of the power-of-two closures *)
  Lemma eval_gcall (ce : cenv) (le : lenv) g a :
    eval ce le (ECall1 (EGlob g) a) = bind F (eval ce le a) (fun va => lift F (gcall1 F fpart g va)).
  Proof. reflexivity. Qed.

  Lemma ceval_shiftlet (ce : cenv) sh : 0 <= sh <= 63 ->
    clookup F ce (EVar V_y) = Some (CV F (VInt GUint64 (2 ^ sh))) ->
    clookup F ce (EBin Sub (ECall1 (EGlob G_integerLen) (EVar V_y)) (ELit 1)) = None ->
    ceval ce (EBin Sub (ECall1 (EGlob G_integerLen) (EVar V_y)) (ELit 1)) = Some (CV F (VInt GUint8 sh)).
  Proof.
    intros Hs Hy Hn. unfold Sem.ceval. rewrite Hn.
    rewrite eval_bin, eval_gcall. unfold bind.
    rewrite (eval_cvar F fbin fcmp fun1 fconv fpart fofbits ce [] V_y (VInt GUint64 (2 ^ sh)) [] eq_refl Hy).
    unfold lift. cbn [gcall1]. rewrite eval_lit. unfold ret.
    rewrite (binop_lit F fbin fcmp GUint8 Sub (bitlen (2 ^ sh)) 1 eq_refl ltac:(lia) eq_refl).
    unfold arith. cbn [ik_of]. rewrite (shift_let_val sh Hs). reflexivity.
  Qed.

  (* the specification of the template, unfolded *)
  Lemma pow2_spec_unfold k upn p idx (sh : Z) (negy : bool) h (s : state) :
    as_return F (bind F (target h upn p) (fun q =>
      bind F (load_ptr k q idx) (fun old : value =>
        match old with
        | VInt _ x => bind F (store_slot k q idx (VInt k (GoInt.quo_total (ikd k) x (if negy then - 2 ^ sh else 2 ^ sh)))) (fun _ => next_stmt p)
        | _ => stuck F
        end)) s) =
    match target h upn p s with
    | Ok (q, _) =>
        match load_ptr k q idx s with
        | Ok (VInt _ x, _) =>
            as_return F (then_next F p (store_slot k q idx (VInt k (GoInt.quo_total (ikd k) x (if negy then - 2 ^ sh else 2 ^ sh)))) s)
        | Ok _ => Stuck
        | Panic x => Panic x
        | _ => Stuck
        end
    | Panic x => Panic x
    | _ => Stuck
    end.
  Proof.
    pose proof (target_not_oof F h upn p s) as Hn. unfold bind at 1.
    destruct (target h upn p s) as [[q s']| | |] eqn:T; try reflexivity; [|exfalso; apply Hn; reflexivity].
    destruct (target_state F _ _ _ _ _ _ T) as [-> _].
    unfold bind at 1. unfold load_ptr. destruct (get_frame F s q) as [fr|]; [|reflexivity].
    destruct (load_slot F fofbits k (fr_ints F fr) idx) as [old| | |]; try reflexivity.
    destruct old; reflexivity.
  Qed.

  Ltac side_conds2 :=
    match goal with
    | |- sel_freeb _ _ = true => reflexivity
    | |- idx_ok _ _ _ _ _ _ _ _ _ _ => intros ?s0; apply eval_cvar; reflexivity
    | |- _ \/ _ => first [left; reflexivity | right; discriminate]
    | |- llookup _ _ _ = None => reflexivity
    | |- clookup _ _ _ = Some _ => reflexivity
    | _ => idtac
    end.

  Theorem var_quopow2_sound k h negy (i : inputs F) p (s : state) fuel :
    tmpl_valid (TVarQuoPow2 k h negy) = true -> inputs_ok F (TVarQuoPow2 k h negy) i -> hops_ok h (in_upn F i) fuel ->
    run_stmt fuel (roots_of (TVarQuoPow2 k h negy) i) (closure_of_tmpl (TVarQuoPow2 k h negy)) p s
    = spec_tmpl (TVarQuoPow2 k h negy) i p s.
  Proof.
    intros Hv Hi Hh. destruct i as [idx upn cst f sh]. simpl in Hi, Hh.
    apply andb_true_iff in Hv as [Hk Hneg].
    assert (Hw64 : GoInt.width (ikd k) <= 64) by (destruct k; simpl; lia).
    unfold closure_of_tmpl, Model.spec_tmpl, Model.roots_of. cbn [in_idx in_upn in_c in_f in_sh].
    destruct (is_signed k) eqn:Hsg.
    - destruct h;
        (eapply run_of_body;
         [ unfold shiftlet; cbn [app Sem.eval_lets];
           rewrite (ceval_shiftlet _ sh) by (lia || reflexivity);
           rewrite (lets_hops F fbin fcmp fun1 fconv fpart fofbits _ _ _ idx upn) by reflexivity; unfold y1let; cbn [Sem.eval_lets];
           rewrite (ceval_y1 F fbin fcmp fun1 fconv fpart fofbits _ k sh) by (assumption || lia || reflexivity); reflexivity
         | rewrite pow2_spec_unfold;
           rewrite <- (pow2_spec_unfold k upn p idx sh negy _ s);
           apply hops_body_sound; [reflexivity | side_conds2 | exact Hh |];
           intros le Hle Hl1 Hl2; rewrite pow2_spec_unfold;
           apply (pow2_signed_body_sound k _ negy upn p idx sh fuel _ le s Hsg Hi); try exact Hle;
           try (rewrite (Hl1 ltac:(discriminate))); try (destruct (Hl2 eq_refl) as [w ->]); side_conds2 ]).
    - assert (Hu : is_unsigned k = true) by (destruct k; try discriminate; reflexivity).
      destruct negy; [simpl in Hneg; discriminate Hneg|].
      destruct h;
        (eapply run_of_body;
         [ unfold shiftlet; cbn [app Sem.eval_lets];
           rewrite (ceval_shiftlet _ sh) by (lia || reflexivity);
           unfold hop_lets, index_let, upn_let; cbn [Sem.eval_lets];
           repeat (erewrite (ceval_hit F fbin fcmp fun1 fconv fpart fofbits) by reflexivity; cbn [Sem.eval_lets]); reflexivity
         | apply hops_body_sound; [reflexivity | side_conds2 | exact Hh |];
           intros le Hle Hl1 Hl2; refine (eq_trans _ (eq_sym (pow2_spec_unfold k upn p idx sh false _ s)));
           apply (pow2_unsigned_body_sound k _ upn p idx sh fuel _ le s Hu Hi); try exact Hle;
           try (rewrite (Hl1 ltac:(discriminate))); try (destruct (Hl2 eq_refl) as [w ->]); side_conds2 ]).
  Qed.

  (* ---- every template *)
  Definition tmpl_hops (t : tmpl) : hops :=
    match t with TVarOp _ _ h _ _ => h | TVarSet _ h _ _ => h | TVarQuoPow2 _ h _ => h end.

  Theorem tmpl_sound t (i : inputs F) p (s : state) fuel :
    tmpl_valid t = true -> inputs_ok F t i -> hops_ok (tmpl_hops t) (in_upn F i) fuel ->
    run_stmt fuel (roots_of t i) (closure_of_tmpl t) p s = spec_tmpl t i p s.
  Proof.
    intros Hv Hi Hh. destruct t.
    - apply var_op_sound; assumption.
    - apply var_set_sound; assumption.
    - apply var_quopow2_sound; assumption.
  Qed.

  (* soundness of the per-row checker *)
  Theorem entry_ok_sound e : entry_ok e = true ->
    exists t, classify e = Some t /\ tmpl_valid t = true /\
      forall (i : inputs F) p (s : state) fuel, inputs_ok F t i -> hops_ok (tmpl_hops t) (in_upn F i) fuel ->
        run_stmt fuel (roots_of t i) (closure_of e) p s = spec_tmpl t i p s.
  Proof.
    unfold entry_ok. destruct (classify e) as [t|]; [|discriminate].
    intros H. apply andb_true_iff in H as [Hv Hc]. apply closure_beq_eq in Hc.
    exists t. repeat split; auto. intros i p s fuel Hi Hh. rewrite Hc. apply tmpl_sound; assumption.
  Qed.
End P.

(* C02 -- multi-assignment, phase one: the operands of the places on the left (fast/assignment.go assignMulti).
   Definitions only.  C02.Model.multi_assign takes places that are already evaluated; here a place on the left is an
   EXPRESSION: blank, or an element whose slot is computed from operands read in the store (index, map key, pointer,
   the container itself).  assignMulti first evaluates, for every i, objs[i] := placefun(env) and
   keys[i] := a COPY of placekey(env) (an addressable reflect.Value is copied with Convert: the key of `k, m[k] = ..`
   must not remain a reference to the variable k), then all right-hand sides, then performs the stores. *)
From Coq Require Import List Arith.
From Verif Require Import C02.Model.
Import ListNotations.

Section MultiPlaces.
  Variable V : Type.
  Definition pexpr := store V -> option nat.
  (* phase 1: all operands of all places, in the store as it is BEFORE the statement *)
  Definition eval_places (st : store V) (pes : list pexpr) : list (option nat) := map (fun pe => pe st) pes.
  Definition multi_assign_places (st : store V) (pes : list pexpr) (es : list (store V -> V)) : store V :=
    do_stores V st (eval_places st pes) (eval_rhs V st es).
  (* the variant that keeps a reference to the operand variable instead of its value: the place is resolved when
     its store is carried out, i.e. after the stores to its left *)
  Fixpoint alias_stores (st : store V) (pes : list pexpr) (vs : list V) : store V :=
    match pes, vs with
    | pe :: pes', v :: vs' =>
        match pe st with
        | Some p => alias_stores (upd V st p v) pes' vs'
        | None => alias_stores st pes' vs'
        end
    | _, _ => st
    end.
  Definition alias_assign (st : store V) (pes : list pexpr) (es : list (store V -> V)) : store V :=
    alias_stores st pes (eval_rhs V st es).
End MultiPlaces.

(* C02 -- lemmas about the evaluation of the environment chain (env, env.Outer..., env.FileEnv, the hop loop) *)
From Coq Require Import ZArith List Bool Lia.
From Verif Require Import Common.GoInt Common.GoStr GoLite.Syntax GoLite.Sem GoLite.Templates C01.Model C01.Proof C02.Model.
Import ListNotations.
Open Scope Z_scope.

Section P.
  Variable F : Type.
  Variable fbin : gokind -> binop -> F -> F -> F.
  Variable fcmp : gokind -> binop -> F -> F -> bool.
  Variable fun1 : gokind -> unop -> F -> F.
  Variable fconv : gokind -> gokind -> F -> F.
  Variable fpart : gokind -> bool -> F -> F.
  Variable fofbits : gokind -> Z -> Z -> F.
  Variable ftobits : gokind -> F -> Z * Z.
  Notation value := (value F).
  Notation state := (state F).
  Notation cenv := (cenv F).
  Notation lenv := (lenv F).
  Notation eval := (eval F fbin fcmp fun1 fconv fpart fofbits).
  Notation exec2 := (exec2 F fbin fcmp fun1 fconv fpart fofbits ftobits).
  Notation target := (target F).

  (* ---- compile-time environments never bind the selectors the closures evaluate at run time *)
  Definition watched (f : field) : bool :=
    match f with F_Outer | F_FileEnv | F_Ints | F_Vals | F_IP | F_Code => true | _ => false end.
  Fixpoint sel_freeb (ce : cenv) : bool :=
    match ce with
    | [] => true
    | (ESel _ f, _) :: r => negb (watched f) && sel_freeb r
    | _ :: r => sel_freeb r
    end.
  Lemma sel_free_none (ce : cenv) a f : sel_freeb ce = true -> watched f = true -> clookup F ce (ESel a f) = None.
  Proof.
    induction ce as [|[k c] ce IH]; intros H Hw; [reflexivity|].
    simpl. destruct (expr_beq k (ESel a f)) eqn:E.
    - apply expr_beq_eq in E. subst k. simpl in H. rewrite Hw in H. discriminate.
    - apply IH; [|exact Hw]. destruct k; simpl in H; try exact H. apply andb_true_iff in H as [_ H]. exact H.
  Qed.

  Lemma eval_sel (ce : cenv) (le : lenv) a f (s : state) :
    sel_freeb ce = true -> watched f = true ->
    eval ce le (ESel a f) s =
    match eval ce le a s with
    | Ok (VEnv p, s') => match field_of_env F f s' p with Ok v => Ok (v, s') | _ => Stuck end
    | Ok (VNilEnv, s') => Panic PNil
    | Ok (_, _) => Stuck
    | Panic q => Panic q
    | Stuck => Stuck
    | OutOfFuel => OutOfFuel
    end.
  Proof.
    intros H Hw. simpl. rewrite (sel_free_none ce a f H Hw). unfold bind.
    destruct (eval ce le a s) as [[v s']| | |]; try reflexivity; try (destruct v; reflexivity).
  Qed.

  Lemma eval_lvar (ce : cenv) (le : lenv) x v (s : state) : llookup F le x = Some v -> eval ce le (EVar x) s = Ok (v, s).
  Proof. intros H. simpl. rewrite H. reflexivity. Qed.
  Lemma eval_cvar (ce : cenv) (le : lenv) x v (s : state) :
    llookup F le x = None -> clookup F ce (EVar x) = Some (CV F v) -> eval ce le (EVar x) s = Ok (v, s).
  Proof. intros H1 H2. simpl. rewrite H1, H2. reflexivity. Qed.

  (* ---- n hops through Outer, computed the way nested selectors compute them *)
  Fixpoint chain (s : state) (p : nat) (n : nat) : res value :=
    match n with
    | O => Ok (VEnv p)
    | S n' => match chain s p n' with
              | Ok (VEnv q) => field_of_env F F_Outer s q
              | Ok VNilEnv => Panic PNil
              | Ok _ => Stuck
              | r => r
              end
    end.

  Lemma env_up_S (s : state) p n :
    env_up F s p (S n) = match get_frame F s p with
                         | None => Stuck
                         | Some fr => match fr_outer F fr with Some q => env_up F s q n | None => Panic PNil end
                         end.
  Proof. reflexivity. Qed.

  (* one more hop at the far end *)
  Lemma env_up_snoc (s : state) n : forall p,
    env_up F s p (S n) = match env_up F s p n with
                         | Ok (VEnv q) => match get_frame F s q with
                                          | None => Stuck
                                          | Some fr => match fr_outer F fr with Some q' => Ok (VEnv q') | None => Panic PNil end
                                          end
                         | r => r
                         end.
  Proof.
    induction n as [|n IH]; intros p.
    - simpl. destruct (get_frame F s p) as [fr|]; [|reflexivity]. destruct (fr_outer F fr); reflexivity.
    - rewrite env_up_S. rewrite (env_up_S s p n).
      destruct (get_frame F s p) as [fr|]; [|reflexivity].
      destruct (fr_outer F fr) as [q|]; [|reflexivity]. apply IH.
  Qed.

  Lemma env_up_value (s : state) n : forall p v, env_up F s p n = Ok v -> exists q, v = VEnv q.
  Proof.
    induction n as [|n IH]; intros p v H.
    - simpl in H. injection H as <-. eauto.
    - rewrite env_up_S in H. destruct (get_frame F s p) as [fr|]; [|discriminate].
      destruct (fr_outer F fr) as [q|]; [|discriminate]. eapply IH. exact H.
  Qed.

  Lemma chain_value (s : state) p n v : chain s p n = Ok v -> (exists q, v = VEnv q) \/ v = VNilEnv.
  Proof.
    revert v; induction n as [|n IH]; intros v H.
    - simpl in H. injection H as <-. eauto.
    - simpl in H. destruct (chain s p n) as [w| | |]; try discriminate.
      destruct (IH w eq_refl) as [[q ->]| ->]; [|discriminate].
      unfold field_of_env in H. destruct (get_frame F s q) as [fr|]; [|discriminate].
      destruct (fr_outer F fr); injection H as <-; eauto.
  Qed.

  Lemma chain_not_oof (s : state) p n : chain s p n <> OutOfFuel.
  Proof.
    induction n as [|n IH]; [discriminate|]. simpl.
    destruct (chain s p n) as [w| | |] eqn:Ec; try discriminate; [|exact IH].
    destruct (chain_value s p n w Ec) as [[q ->]| ->]; [|discriminate].
    unfold field_of_env. destruct (get_frame F s q) as [fr|]; [|discriminate]. destruct (fr_outer F fr); discriminate.
  Qed.

  Definition norm_nil (r : res value) : res value := match r with Ok VNilEnv => Panic PNil | _ => r end.

  Lemma chain_env_up (s : state) p n : norm_nil (chain s p n) = env_up F s p n.
  Proof.
    induction n as [|n IH]; [reflexivity|].
    rewrite env_up_snoc, <- IH. simpl chain.
    destruct (chain s p n) as [w| | |] eqn:Ec; try reflexivity.
    destruct (chain_value s p n w Ec) as [[q ->]| ->]; [|reflexivity].
    simpl. unfold field_of_env. destruct (get_frame F s q) as [fr|]; [|reflexivity].
    destruct (fr_outer F fr); reflexivity.
  Qed.

  (* the result of resolving a frame, as target reports it *)
  Definition resolved (s : state) (r : res value) : res (nat * state) :=
    match r with
    | Ok (VEnv q) => match get_frame F s q with Some _ => Ok (q, s) | None => Stuck end
    | Ok VNilEnv => Panic PNil
    | Ok _ => Stuck
    | Panic x => Panic x
    | Stuck => Stuck
    | OutOfFuel => OutOfFuel
    end.

  Lemma resolved_chain (s : state) p n :
    resolved s (chain s p n) = match env_up F s p n with
                               | Ok (VEnv q) => match get_frame F s q with Some _ => Ok (q, s) | None => Stuck end
                               | Panic x => Panic x
                               | _ => Stuck
                               end.
  Proof.
    rewrite <- chain_env_up. pose proof (chain_not_oof s p n) as Hn.
    destruct (chain s p n) as [w| | |] eqn:Ec; try reflexivity; [|exfalso; apply Hn; reflexivity].
    destruct (chain_value s p n w Ec) as [[q ->]| ->]; reflexivity.
  Qed.

  (* selecting Ints / Vals of a resolved frame *)
  Definition fld_val (f : field) (q : nat) : value := match f with F_Ints => VInts q | _ => VVals q end.
  Definition sel_of (f : field) (r : res (nat * state)) : res (value * state) :=
    match r with Ok (q, s) => Ok (fld_val f q, s) | Panic x => Panic x | Stuck => Stuck | OutOfFuel => OutOfFuel end.

  Lemma field_resolved (f : field) (s : state) (r : res value) : f = F_Ints \/ f = F_Vals ->
    (forall v, r = Ok v -> (exists q, v = VEnv q) \/ v = VNilEnv) ->
    match r with
    | Ok (VEnv p) => match field_of_env F f s p with Ok v => Ok (v, s) | _ => Stuck end
    | Ok VNilEnv => Panic PNil
    | Ok _ => Stuck
    | Panic q => Panic q
    | Stuck => Stuck
    | OutOfFuel => OutOfFuel
    end = sel_of f (resolved s r).
  Proof.
    intros Hf Hv. destruct r as [v| | |]; try reflexivity.
    destruct (Hv v eq_refl) as [[q ->]| ->]; [|reflexivity].
    simpl. unfold field_of_env. destruct (get_frame F s q); [|reflexivity]. destruct Hf as [-> | ->]; reflexivity.
  Qed.
End P.

(* C02 -- lemmas about the evaluation of the environment chain (env, env.Outer..., env.FileEnv, the hop loop) *)
From Coq Require Import ZArith List Bool Lia.
From Verif Require Import Common.GoInt Common.GoStr GoLite.Syntax GoLite.Sem GoLite.Templates C01.Model C01.Proof C02.Model.
Import ListNotations.
Open Scope Z_scope.

Section P.
  Variable F : Type.
  Variable fbin : gokind -> binop -> F -> F -> F.
  Variable fcmp : gokind -> binop -> F -> F -> bool.
  Variable fun1 : gokind -> unop -> F -> F.
  Variable fconv : gokind -> gokind -> F -> F.
  Variable fpart : gokind -> bool -> F -> F.
  Variable fofbits : gokind -> Z -> Z -> F.
  Variable ftobits : gokind -> F -> Z * Z.
  Notation value := (value F).
  Notation state := (state F).
  Notation cenv := (cenv F).
  Notation lenv := (lenv F).
  Notation eval := (eval F fbin fcmp fun1 fconv fpart fofbits).
  Notation exec2 := (exec2 F fbin fcmp fun1 fconv fpart fofbits ftobits).
  Notation target := (target F).

  (* ---- compile-time environments never bind the selectors the closures evaluate at run time *)
  Definition watched (f : field) : bool :=
    match f with F_Outer | F_FileEnv | F_Ints | F_Vals | F_IP | F_Code => true | _ => false end.
  Fixpoint sel_freeb (ce : cenv) : bool :=
    match ce with
    | [] => true
    | (ESel _ f, _) :: r => negb (watched f) && sel_freeb r
    | _ :: r => sel_freeb r
    end.
  Lemma sel_free_none (ce : cenv) a f : sel_freeb ce = true -> watched f = true -> clookup F ce (ESel a f) = None.
  Proof.
    induction ce as [|[k c] ce IH]; intros H Hw; [reflexivity|].
    simpl. destruct (expr_beq k (ESel a f)) eqn:E.
    - apply expr_beq_eq in E. subst k. simpl in H. rewrite Hw in H. discriminate.
    - apply IH; [|exact Hw]. destruct k; simpl in H; try exact H. apply andb_true_iff in H as [_ H]. exact H.
  Qed.

  Lemma eval_sel (ce : cenv) (le : lenv) a f (s : state) :
    sel_freeb ce = true -> watched f = true ->
    eval ce le (ESel a f) s =
    match eval ce le a s with
    | Ok (VEnv p, s') => match field_of_env F f s' p with Ok v => Ok (v, s') | _ => Stuck end
    | Ok (VNilEnv, s') => Panic PNil
    | Ok (_, _) => Stuck
    | Panic q => Panic q
    | Stuck => Stuck
    | OutOfFuel => OutOfFuel
    end.
  Proof.
    intros H Hw. simpl. rewrite (sel_free_none ce a f H Hw). unfold bind.
    destruct (eval ce le a s) as [[v s']| | |]; try reflexivity; try (destruct v; reflexivity).
  Qed.

  Lemma eval_lvar (ce : cenv) (le : lenv) x v (s : state) : llookup F le x = Some v -> eval ce le (EVar x) s = Ok (v, s).
  Proof. intros H. simpl. rewrite H. reflexivity. Qed.
  Lemma eval_cvar (ce : cenv) (le : lenv) x v (s : state) :
    llookup F le x = None -> clookup F ce (EVar x) = Some (CV F v) -> eval ce le (EVar x) s = Ok (v, s).
  Proof. intros H1 H2. simpl. rewrite H1, H2. reflexivity. Qed.

  (* ---- n hops through Outer, computed the way nested selectors compute them *)
  Fixpoint chain (s : state) (p : nat) (n : nat) : res value :=
    match n with
    | O => Ok (VEnv p)
    | S n' => match chain s p n' with
              | Ok (VEnv q) => field_of_env F F_Outer s q
              | Ok VNilEnv => Panic PNil
              | Ok _ => Stuck
              | r => r
              end
    end.

  Lemma env_up_S (s : state) p n :
    env_up F s p (S n) = match get_frame F s p with
                         | None => Stuck
                         | Some fr => match fr_outer F fr with Some q => env_up F s q n | None => Panic PNil end
                         end.
  Proof. reflexivity. Qed.

  (* one more hop at the far end *)
  Lemma env_up_snoc (s : state) n : forall p,
    env_up F s p (S n) = match env_up F s p n with
                         | Ok (VEnv q) => match get_frame F s q with
                                          | None => Stuck
                                          | Some fr => match fr_outer F fr with Some q' => Ok (VEnv q') | None => Panic PNil end
                                          end
                         | r => r
                         end.
  Proof.
    induction n as [|n IH]; intros p.
    - simpl. destruct (get_frame F s p) as [fr|]; [|reflexivity]. destruct (fr_outer F fr); reflexivity.
    - rewrite env_up_S. rewrite (env_up_S s p n).
      destruct (get_frame F s p) as [fr|]; [|reflexivity].
      destruct (fr_outer F fr) as [q|]; [|reflexivity]. apply IH.
  Qed.

  Lemma env_up_value (s : state) n : forall p v, env_up F s p n = Ok v -> exists q, v = VEnv q.
  Proof.
    induction n as [|n IH]; intros p v H.
    - simpl in H. injection H as <-. eauto.
    - rewrite env_up_S in H. destruct (get_frame F s p) as [fr|]; [|discriminate].
      destruct (fr_outer F fr) as [q|]; [|discriminate]. eapply IH. exact H.
  Qed.

  Lemma chain_value (s : state) p n v : chain s p n = Ok v -> (exists q, v = VEnv q) \/ v = VNilEnv.
  Proof.
    revert v; induction n as [|n IH]; intros v H.
    - simpl in H. injection H as <-. eauto.
    - simpl in H. destruct (chain s p n) as [w| | |]; try discriminate.
      destruct (IH w eq_refl) as [[q ->]| ->]; [|discriminate].
      unfold field_of_env in H. destruct (get_frame F s q) as [fr|]; [|discriminate].
      destruct (fr_outer F fr); injection H as <-; eauto.
  Qed.

  Lemma chain_not_oof (s : state) p n : chain s p n <> OutOfFuel.
  Proof.
    induction n as [|n IH]; [discriminate|]. simpl.
    destruct (chain s p n) as [w| | |] eqn:Ec; try discriminate; [|exact IH].
    destruct (chain_value s p n w Ec) as [[q ->]| ->]; [|discriminate].
    unfold field_of_env. destruct (get_frame F s q) as [fr|]; [|discriminate]. destruct (fr_outer F fr); discriminate.
  Qed.

  Definition norm_nil (r : res value) : res value := match r with Ok VNilEnv => Panic PNil | _ => r end.

  Lemma chain_env_up (s : state) p n : norm_nil (chain s p n) = env_up F s p n.
  Proof.
    induction n as [|n IH]; [reflexivity|].
    rewrite env_up_snoc, <- IH. simpl chain.
    destruct (chain s p n) as [w| | |] eqn:Ec; try reflexivity.
    destruct (chain_value s p n w Ec) as [[q ->]| ->]; [|reflexivity].
    simpl. unfold field_of_env. destruct (get_frame F s q) as [fr|]; [|reflexivity].
    destruct (fr_outer F fr); reflexivity.
  Qed.

  (* the result of resolving a frame, as target reports it *)
  Definition resolved (s : state) (r : res value) : res (nat * state) :=
    match r with
    | Ok (VEnv q) => match get_frame F s q with Some _ => Ok (q, s) | None => Stuck end
    | Ok VNilEnv => Panic PNil
    | Ok _ => Stuck
    | Panic x => Panic x
    | Stuck => Stuck
    | OutOfFuel => OutOfFuel
    end.

  Lemma resolved_chain (s : state) p n :
    resolved s (chain s p n) = match env_up F s p n with
                               | Ok (VEnv q) => match get_frame F s q with Some _ => Ok (q, s) | None => Stuck end
                               | Panic x => Panic x
                               | _ => Stuck
                               end.
  Proof.
    rewrite <- chain_env_up. pose proof (chain_not_oof s p n) as Hn.
    destruct (chain s p n) as [w| | |] eqn:Ec; try reflexivity; [|exfalso; apply Hn; reflexivity].
    destruct (chain_value s p n w Ec) as [[q ->]| ->]; reflexivity.
  Qed.

  (* selecting Ints / Vals of a resolved frame *)
  Definition fld_val (f : field) (q : nat) : value := match f with F_Ints => VInts q | _ => VVals q end.
  Definition sel_of (f : field) (r : res (nat * state)) : res (value * state) :=
    match r with Ok (q, s) => Ok (fld_val f q, s) | Panic x => Panic x | Stuck => Stuck | OutOfFuel => OutOfFuel end.

  Lemma field_resolved (f : field) (s : state) (r : res value) : f = F_Ints \/ f = F_Vals ->
    (forall v, r = Ok v -> (exists q, v = VEnv q) \/ v = VNilEnv) ->
    match r with
    | Ok (VEnv p) => match field_of_env F f s p with Ok v => Ok (v, s) | _ => Stuck end
    | Ok VNilEnv => Panic PNil
    | Ok _ => Stuck
    | Panic q => Panic q
    | Stuck => Stuck
    | OutOfFuel => OutOfFuel
    end = sel_of f (resolved s r).
  Proof.
    intros Hf Hv. destruct r as [v| | |]; try reflexivity.
    destruct (Hv v eq_refl) as [[q ->]| ->]; [|reflexivity].
    simpl. unfold field_of_env. destruct (get_frame F s q); [|reflexivity]. destruct Hf as [-> | ->]; reflexivity.
  Qed.

  Definition hops_eq_dec (a : hops) : {a = HLoop} + {a <> HLoop}.
  Proof. destruct a; try (right; discriminate). left; reflexivity. Defined.

  (* ================================================================== evaluation of the place expressions *)
  Notation load_ptr := (load_ptr F fofbits).
  Notation store_slot := (store_slot F ftobits).
  Notation set_ref := (set_ref F fconv).
  Notation binop_val := (binop_val F fbin fcmp).
  Notation read_val := (read_val F).
  Notation next_stmt := (next_stmt F).
  Notation outcome := (outcome F).

  Arguments Sem.eval : simpl never.
  Arguments Model.exec2 : simpl never.

  Definition ret_of (r : res value) (s : state) : res (value * state) :=
    match r with Ok v => Ok (v, s) | Panic x => Panic x | Stuck => Stuck | OutOfFuel => OutOfFuel end.

  Lemma eval_outer (ce : cenv) (le : lenv) a p n (s : state) : sel_freeb ce = true ->
    eval ce le a s = ret_of (chain s p n) s -> eval ce le (ESel a F_Outer) s = ret_of (chain s p (S n)) s.
  Proof.
    intros H E. rewrite eval_sel by (assumption || reflexivity). rewrite E.
    pose proof (chain_value s p n) as Hv. simpl chain.
    destruct (chain s p n) as [v| | |]; try reflexivity.
    destruct (Hv v eq_refl) as [[q ->]| ->]; simpl; [|reflexivity].
    unfold field_of_env. destruct (get_frame F s q) as [fr|]; [|reflexivity]. destruct (fr_outer F fr); reflexivity.
  Qed.

  Lemma eval_fld (ce : cenv) (le : lenv) a p n f (s : state) : sel_freeb ce = true -> f = F_Ints \/ f = F_Vals ->
    eval ce le a s = ret_of (chain s p n) s -> eval ce le (ESel a f) s = sel_of f (resolved s (chain s p n)).
  Proof.
    intros H Hf E. rewrite eval_sel by (try assumption; destruct Hf as [-> | ->]; reflexivity). rewrite E.
    rewrite <- (field_resolved f s (chain s p n) Hf (chain_value s p n)).
    destruct (chain s p n) as [v| | |]; try reflexivity; try (simpl; destruct v; reflexivity).
  Qed.

  Definition nhops (h : hops) (upn : Z) : nat :=
    match h with H0 => 0 | H1 => 1 | H2 => 2 | HLoop => Z.to_nat upn | HFile => 0 end%nat.

  Lemma target_chain h upn p (s : state) : h <> HFile -> target h upn p s = resolved s (chain s p (nhops h upn)).
  Proof.
    intros Hh. rewrite resolved_chain. destruct h; try reflexivity. exfalso. apply Hh. reflexivity.
  Qed.

  (* what the local environment must provide for the place expression of hops h *)
  Definition le_ok (h : hops) (upn : Z) (p : nat) (le : lenv) (s : state) : Prop :=
    llookup F le V_env = Some (VEnv p) /\
    match h with
    | HLoop => exists v, llookup F le V_o = Some v /\ chain s p (Z.to_nat upn) = Ok v
    | _ => True
    end.

  Lemma eval_place_fld h upn p f (ce : cenv) (le : lenv) (s : state) :
    sel_freeb ce = true -> f = F_Ints \/ f = F_Vals -> le_ok h upn p le s ->
    eval ce le (ESel (envE h) f) s = sel_of f (target h upn p s).
  Proof.
    intros H Hf [Henv Hl].
    assert (E0 : eval ce le venv s = ret_of (chain s p 0) s) by (apply eval_lvar; exact Henv).
    destruct h.
    - rewrite target_chain by discriminate. apply eval_fld; assumption.
    - rewrite target_chain by discriminate. apply eval_fld; try assumption. apply eval_outer; assumption.
    - rewrite target_chain by discriminate. apply eval_fld; try assumption. apply eval_outer; [assumption|]. apply eval_outer; assumption.
    - (* env.FileEnv *)
      assert (Hw : watched f = true) by (destruct Hf as [-> | ->]; reflexivity).
      simpl envE. rewrite eval_sel by assumption. rewrite eval_sel by (assumption || reflexivity).
      unfold venv. rewrite (eval_lvar ce le V_env (VEnv p) s Henv).
      unfold field_of_env, target. destruct (get_frame F s p) as [fr|]; [|reflexivity].
      destruct (fr_file F fr) as [q|]; [|reflexivity].
      destruct (get_frame F s q); [|reflexivity]. destruct Hf as [-> | ->]; reflexivity.
    - destruct Hl as (v & Hv & Hc).
      rewrite target_chain by discriminate. simpl nhops. simpl envE.
      rewrite eval_sel by (try assumption; destruct Hf as [-> | ->]; reflexivity).
      rewrite (eval_lvar ce le V_o v s Hv).
      rewrite <- (field_resolved f s (chain s p (Z.to_nat upn)) Hf (chain_value s p (Z.to_nat upn))).
      rewrite Hc. destruct v; reflexivity.
  Qed.

  (* ================================================================== one-step unfoldings *)
  Lemma eval_ptr (ce : cenv) (le : lenv) k a i :
    eval ce le (EConv (TPtr k) (EConv TUnsafePtr (EAddr (EIndex a i)))) =
    bind F (eval ce le a) (fun va => bind F (eval ce le i) (fun vi =>
      match va, int_of F vi with VInts p, Some z => ret F (VPtr k p z) | _, _ => stuck F end)).
  Proof. reflexivity. Qed.

  Lemma exec2_seq a b fuel (ce : cenv) (le : lenv) (s : state) :
    exec2 (SSeq a b) fuel ce le s =
    match exec2 a fuel ce le s with
    | Ok (ONormal _ le', s') => exec2 b fuel ce le' s'
    | Ok (OReturn _ vs, s') => Ok (OReturn F vs, s')
    | Panic x => Panic x | Stuck => Stuck | OutOfFuel => OutOfFuel
    end.
  Proof.
    change (exec2 (SSeq a b) fuel ce le) with
      (bind F (exec2 a fuel ce le) (fun o => match o with ONormal _ le' => exec2 b fuel ce le' | OReturn _ vs => ret F o end)).
    unfold bind. destruct (exec2 a fuel ce le s) as [[o s']| | |]; try reflexivity. destruct o; reflexivity.
  Qed.

  Definition idx_ok (ce : cenv) (le : lenv) (idx : Z) : Prop :=
    forall s : state, eval ce le (EVar V_index) s = Ok (VInt GInt idx, s).

  (* x OP= e for an IntBind variable: the shape the store takes once the slot is resolved *)
  Definition int_store (op : binop) (k : gokind) (q : nat) (idx : Z) (le : lenv) (rhs : Sem.M F value) : Sem.M F outcome :=
    bind F rhs (fun v => bind F (load_ptr k q idx) (fun old =>
      match binop_val op old v with
      | Ok r => bind F (store_slot k q idx r) (fun _ => ret F (ONormal F le))
      | Panic x => fun _ => Panic x
      | _ => stuck F
      end)).

  Lemma exec_opassign_slot op k h e fuel (ce : cenv) (le : lenv) (s : state) q idx :
    eval ce le (ESel (envE h) F_Ints) s = Ok (VInts q, s) -> idx_ok ce le idx ->
    exec2 (SOpAssign op (slotE k h) e) fuel ce le s = int_store op k q idx le (eval ce le e) s.
  Proof.
    intros E1 E2. unfold int_store.
    assert (G : forall k', exec2 (SOpAssign op (EDeref (ptrE k' h)) e) fuel ce le s =
                bind F (eval ce le e) (fun v => bind F (load_ptr k' q idx) (fun old =>
                  match binop_val op old v with
                  | Ok r => bind F (store_slot k' q idx r) (fun _ => ret F (ONormal F le))
                  | Panic x => fun _ => Panic x
                  | _ => stuck F
                  end)) s).
    { intros k'.
      change (exec2 (SOpAssign op (EDeref (ptrE k' h)) e) fuel ce le) with
        (bind F (eval ce le (ptrE k' h)) (fun pv => bind F (eval ce le e) (fun v =>
          match pv with
          | VPtr k0 p i =>
              bind F (load_ptr k0 p i) (fun old =>
                match binop_val op old v with
                | Ok r => bind F (store_slot k0 p i r) (fun _ => ret F (ONormal F le))
                | Panic q0 => fun _ => Panic q0
                | _ => stuck F
                end)
          | _ => stuck F
          end))).
      unfold ptrE. rewrite eval_ptr. unfold bind at 1 2 3. rewrite E1. rewrite (E2 s). simpl. reflexivity. }
    destruct k; try apply G.
    (* uint64: the slot itself *)
    change (exec2 (SOpAssign op (slotE GUint64 h) e) fuel ce le) with
      (bind F (eval ce le (ESel (envE h) F_Ints)) (fun av => bind F (eval ce le (EVar V_index)) (fun iv => bind F (eval ce le e) (fun v =>
          match av, int_of F iv with
          | VInts p, Some z =>
              bind F (load_ptr GUint64 p z) (fun old =>
                match binop_val op old v with
                | Ok r => bind F (store_slot GUint64 p z r) (fun _ => ret F (ONormal F le))
                | Panic q0 => fun _ => Panic q0
                | _ => stuck F
                end)
          | _, _ => stuck F
          end)))).
    unfold bind at 1 2. rewrite E1. rewrite (E2 s). reflexivity.
  Qed.

  Lemma exec_opassign_slot_fail op k h e fuel (ce : cenv) (le : lenv) (s : state) :
    (eval ce le (ESel (envE h) F_Ints) s = Stuck -> exec2 (SOpAssign op (slotE k h) e) fuel ce le s = Stuck) /\
    (forall x, eval ce le (ESel (envE h) F_Ints) s = Panic x -> exec2 (SOpAssign op (slotE k h) e) fuel ce le s = Panic x).
  Proof.
    assert (G : forall k', (eval ce le (ESel (envE h) F_Ints) s = Stuck -> exec2 (SOpAssign op (EDeref (ptrE k' h)) e) fuel ce le s = Stuck) /\
                (forall x, eval ce le (ESel (envE h) F_Ints) s = Panic x -> exec2 (SOpAssign op (EDeref (ptrE k' h)) e) fuel ce le s = Panic x)).
    { intros k'.
      change (exec2 (SOpAssign op (EDeref (ptrE k' h)) e) fuel ce le) with
        (bind F (eval ce le (ptrE k' h)) (fun pv => bind F (eval ce le e) (fun v =>
          match pv with
          | VPtr k0 p i =>
              bind F (load_ptr k0 p i) (fun old =>
                match binop_val op old v with
                | Ok r => bind F (store_slot k0 p i r) (fun _ => ret F (ONormal F le))
                | Panic q0 => fun _ => Panic q0
                | _ => stuck F
                end)
          | _ => stuck F
          end))).
      unfold ptrE. rewrite eval_ptr. split; [intros E|intros x E]; unfold bind; rewrite E; reflexivity. }
    destruct k; try apply G.
    change (exec2 (SOpAssign op (slotE GUint64 h) e) fuel ce le) with
      (bind F (eval ce le (ESel (envE h) F_Ints)) (fun av => bind F (eval ce le (EVar V_index)) (fun iv => bind F (eval ce le e) (fun v =>
          match av, int_of F iv with
          | VInts p, Some z =>
              bind F (load_ptr GUint64 p z) (fun old =>
                match binop_val op old v with
                | Ok r => bind F (store_slot GUint64 p z r) (fun _ => ret F (ONormal F le))
                | Panic q0 => fun _ => Panic q0
                | _ => stuck F
                end)
          | _, _ => stuck F
          end)))).
    split; [intros E|intros x E]; unfold bind; rewrite E; reflexivity.
  Qed.

  (* ================================================================== frames *)
  Lemma nth_error_set_nth_same {A} (l : list A) n a b : nth_error l n = Some a -> nth_error (set_nth l n b) n = Some b.
  Proof.
    revert n; induction l as [|x l IH]; intros [|n] H; simpl in *; try discriminate; [reflexivity|]. apply IH. exact H.
  Qed.
  Lemma get_set_same (s : state) p fr fr' : get_frame F s p = Some fr -> get_frame F (set_frame F s p fr') p = Some fr'.
  Proof. unfold get_frame, set_frame. apply nth_error_set_nth_same. Qed.

  Lemma target_state h upn p (s s' : state) q : target h upn p s = Ok (q, s') -> s' = s /\ exists fr, get_frame F s q = Some fr.
  Proof.
    unfold target. intros H.
    assert (C : forall q0, match get_frame F s q0 with Some _ => Ok (q0, s) | None => Stuck end = Ok (q, s') ->
                           s' = s /\ exists fr, get_frame F s q = Some fr).
    { intros q0 E. destruct (get_frame F s q0) as [fr|] eqn:G; [|discriminate]. injection E as <- <-. eauto. }
    assert (U : forall n, match env_up F s p n with
                          | Ok (VEnv q0) => match get_frame F s q0 with Some _ => Ok (q0, s) | None => Stuck end
                          | Panic x => Panic x | _ => Stuck end = Ok (q, s') -> s' = s /\ exists fr, get_frame F s q = Some fr).
    { intros n E. destruct (env_up F s p n) as [v| | |]; try discriminate. destruct v; try discriminate. apply (C p0). exact E. }
    destruct h; try (apply U in H; exact H).
    - apply (C p). exact H.
    - destruct (get_frame F s p) as [fr|]; [|discriminate]. destruct (fr_file F fr) as [q0|]; [|discriminate]. apply (C q0). exact H.
  Qed.

  (* ================================================================== epilogue *)
  Definition as_return (r : res (list value * state)) : res (outcome * state) :=
    match r with Ok (vs, s') => Ok (OReturn F vs, s') | Panic x => Panic x | Stuck => Stuck | OutOfFuel => OutOfFuel end.

  Lemma exec_epilogue fuel (ce : cenv) (le : lenv) p (s : state) :
    llookup F le V_env = Some (VEnv p) -> exec2 epilogue fuel ce le s = as_return (next_stmt p s).
  Proof.
    intros Henv. unfold epilogue. rewrite exec2_seq.
    change (exec2 (SIncDec true (ESel venv F_IP)) fuel ce le) with
      (bind F (eval ce le venv) (fun ev => fun s0 : state =>
          match ev with
          | VEnv p0 => match get_frame F s0 p0 with
                      | Some fr => Ok (ONormal F le, set_frame F s0 p0 (with_ip F fr (if true then fr_ip F fr + 1 else fr_ip F fr - 1)))
                      | None => Stuck end
          | _ => Stuck
          end)).
    unfold bind at 1. unfold venv at 1. rewrite (eval_lvar ce le V_env (VEnv p) s Henv).
    unfold next_stmt. destruct (get_frame F s p) as [fr|] eqn:G; [|reflexivity].
    change (exec2 (SReturn2 (EIndex (ESel venv F_Code) (ESel venv F_IP)) venv) fuel ce le) with
      (bind F (eval ce le venv) (fun v1 => bind F (eval ce le venv) (fun v2 => bind F (eval ce le venv) (fun v3 => fun s0 : state =>
          match v1, v2, v3 with
          | VEnv p1, VEnv p2, VEnv p3 =>
              if Nat.eqb p1 p2 then
                match get_frame F s0 p1 with
                | Some fr0 => Ok (OReturn F [VInt GInt (fr_ip F fr0); VEnv p3], s0)
                | None => Stuck end
              else Stuck
          | _, _, _ => Stuck
          end)))).
    unfold bind, venv. rewrite !(eval_lvar ce le V_env (VEnv p) _ Henv).
    rewrite Nat.eqb_refl. rewrite (get_set_same s p fr _ G). reflexivity.
  Qed.

  (* ================================================================== the right operand *)
  Lemma eval_call_var (ce : cenv) (le : lenv) x a :
    eval ce le (ECall1 (EVar x) a) =
    match llookup F le x with
    | Some _ => stuck F
    | None => match clookup F ce (EVar x) with
              | Some (CF _ _ f) => bind F (eval ce le a) (fun va => match va with VEnv p => f p | _ => stuck F end)
              | _ => stuck F
              end
    end.
  Proof. reflexivity. Qed.

  (* the operand expression of the closure evaluates to the operand of the specification *)
  Definition rhs_ok (ce : cenv) (le : lenv) (r : rhsform) (rhs : Sem.M F value) : Prop :=
    forall s : state, eval ce le (rhsE r) s = rhs s.

  Lemma rhs_const_ok (ce : cenv) (le : lenv) c :
    llookup F le V_val = None -> clookup F ce (EVar V_val) = Some (CV F c) -> rhs_ok ce le RConst (ret F c).
  Proof. intros H1 H2 s. apply eval_cvar; assumption. Qed.

  Lemma rhs_expr_ok (ce : cenv) (le : lenv) kf f p :
    llookup F le V_fun = None -> clookup F ce (EVar V_fun) = Some (CF F kf f) -> llookup F le V_env = Some (VEnv p) ->
    rhs_ok ce le RExpr (f p).
  Proof.
    intros H1 H2 H3 s. unfold rhsE. rewrite eval_call_var, H1, H2. unfold bind, venv.
    rewrite (eval_lvar ce le V_env (VEnv p) s H3). reflexivity.
  Qed.

  (* ================================================================== x OP= e, class IntBind *)
  Definition fail_of {A B} (r : res A) : res B :=
    match r with Panic x => Panic x | OutOfFuel => OutOfFuel | _ => Stuck end.

  Lemma op_int_sound op k h r upn p idx fuel (ce : cenv) (le : lenv) (s : state) rhs :
    sel_freeb ce = true -> le_ok h upn p le s -> idx_ok ce le idx -> rhs_ok ce le r rhs ->
    exec2 (op_stmt op k h CInt r) fuel ce le s =
    match target h upn p s with
    | Ok (q, _) => int_store op k q idx le rhs s
    | Panic x => Panic x
    | _ => Stuck
    end.
  Proof.
    intros Hce Hle Hidx Hrhs. simpl op_stmt.
    pose proof (eval_place_fld h upn p F_Ints ce le s Hce (or_introl eq_refl) Hle) as E.
    destruct (target h upn p s) as [[q s']| | |] eqn:T.
    - destruct (target_state _ _ _ _ _ _ T) as [-> _]. simpl in E.
      rewrite (exec_opassign_slot op k h (rhsE r) fuel ce le s q idx E Hidx).
      unfold int_store, bind. rewrite (Hrhs s). reflexivity.
    - simpl in E. apply (proj2 (exec_opassign_slot_fail op k h (rhsE r) fuel ce le s)). exact E.
    - simpl in E. apply (proj1 (exec_opassign_slot_fail op k h (rhsE r) fuel ce le s)). exact E.
    - (* target never runs out of fuel *)
      exfalso. unfold target in T.
      assert (C : forall q0, match get_frame F s q0 with Some _ => Ok (q0, s) | None => Stuck end <> OutOfFuel)
        by (intros q0; destruct (get_frame F s q0); discriminate).
      assert (U : forall n, match env_up F s p n with
                            | Ok (VEnv q0) => match get_frame F s q0 with Some _ => Ok (q0, s) | None => Stuck end
                            | Panic x => Panic x | _ => Stuck end <> OutOfFuel).
      { intros n. destruct (env_up F s p n) as [v| | |]; try discriminate. destruct v; try discriminate. apply C. }
      destruct h; try (eapply U; exact T).
      + eapply C; exact T.
      + destruct (get_frame F s p) as [fr|]; [|discriminate]. destruct (fr_file F fr); [|discriminate]. eapply C; exact T.
  Qed.

  (* ================================================================== x = e, class IntBind *)
  Lemma exec_assign_slot k h e fuel (ce : cenv) (le : lenv) (s : state) q idx :
    eval ce le (ESel (envE h) F_Ints) s = Ok (VInts q, s) -> idx_ok ce le idx ->
    exec2 (SAssign (slotE k h) e) fuel ce le s =
    bind F (eval ce le e) (fun v => bind F (store_slot k q idx v) (fun _ => ret F (ONormal F le))) s.
  Proof.
    intros E1 E2.
    assert (G : forall k', exec2 (SAssign (EDeref (ptrE k' h)) e) fuel ce le s =
                bind F (eval ce le e) (fun v => bind F (store_slot k' q idx v) (fun _ => ret F (ONormal F le))) s).
    { intros k'.
      change (exec2 (SAssign (EDeref (ptrE k' h)) e) fuel ce le) with
        (bind F (eval ce le (ptrE k' h)) (fun pv => bind F (eval ce le e) (fun v =>
          match pv with
          | VPtr k0 p i => bind F (store_slot k0 p i v) (fun _ => ret F (ONormal F le))
          | _ => stuck F
          end))).
      unfold ptrE. rewrite eval_ptr. unfold bind at 1 2 3. rewrite E1. rewrite (E2 s). simpl. reflexivity. }
    destruct k; try apply G.
    change (exec2 (SAssign (slotE GUint64 h) e) fuel ce le) with
      (bind F (eval ce le (ESel (envE h) F_Ints)) (fun av => bind F (eval ce le (EVar V_index)) (fun iv => bind F (eval ce le e) (fun v =>
          match av, int_of F iv with
          | VInts p, Some z => bind F (store_slot GUint64 p z v) (fun _ => ret F (ONormal F le))
          | _, _ => stuck F
          end)))).
    unfold bind at 1 2. rewrite E1. rewrite (E2 s). reflexivity.
  Qed.

  Lemma exec_assign_slot_fail k h e fuel (ce : cenv) (le : lenv) (s : state) :
    (eval ce le (ESel (envE h) F_Ints) s = Stuck -> exec2 (SAssign (slotE k h) e) fuel ce le s = Stuck) /\
    (forall x, eval ce le (ESel (envE h) F_Ints) s = Panic x -> exec2 (SAssign (slotE k h) e) fuel ce le s = Panic x).
  Proof.
    assert (G : forall k', (eval ce le (ESel (envE h) F_Ints) s = Stuck -> exec2 (SAssign (EDeref (ptrE k' h)) e) fuel ce le s = Stuck) /\
                (forall x, eval ce le (ESel (envE h) F_Ints) s = Panic x -> exec2 (SAssign (EDeref (ptrE k' h)) e) fuel ce le s = Panic x)).
    { intros k'.
      change (exec2 (SAssign (EDeref (ptrE k' h)) e) fuel ce le) with
        (bind F (eval ce le (ptrE k' h)) (fun pv => bind F (eval ce le e) (fun v =>
          match pv with
          | VPtr k0 p i => bind F (store_slot k0 p i v) (fun _ => ret F (ONormal F le))
          | _ => stuck F
          end))).
      unfold ptrE. rewrite eval_ptr. split; [intros E|intros x E]; unfold bind; rewrite E; reflexivity. }
    destruct k; try apply G.
    change (exec2 (SAssign (slotE GUint64 h) e) fuel ce le) with
      (bind F (eval ce le (ESel (envE h) F_Ints)) (fun av => bind F (eval ce le (EVar V_index)) (fun iv => bind F (eval ce le e) (fun v =>
          match av, int_of F iv with
          | VInts p, Some z => bind F (store_slot GUint64 p z v) (fun _ => ret F (ONormal F le))
          | _, _ => stuck F
          end)))).
    split; [intros E|intros x E]; unfold bind; rewrite E; reflexivity.
  Qed.

  Lemma target_not_oof h upn p (s : state) : target h upn p s <> OutOfFuel.
  Proof.
    unfold target.
    assert (C : forall q0, match get_frame F s q0 with Some _ => Ok (q0, s) | None => Stuck end <> OutOfFuel)
      by (intros q0; destruct (get_frame F s q0); discriminate).
    assert (U : forall n, match env_up F s p n with
                          | Ok (VEnv q0) => match get_frame F s q0 with Some _ => Ok (q0, s) | None => Stuck end
                          | Panic x => Panic x | _ => Stuck end <> OutOfFuel).
    { intros n. destruct (env_up F s p n) as [v| | |]; try discriminate. destruct v; try discriminate. apply C. }
    destruct h; try apply U.
    - apply C.
    - destruct (get_frame F s p) as [fr|]; [|discriminate]. destruct (fr_file F fr); [|discriminate]. apply C.
  Qed.

  Lemma set_int_sound k h r upn p idx fuel (ce : cenv) (le : lenv) (s : state) rhs :
    sel_freeb ce = true -> le_ok h upn p le s -> idx_ok ce le idx -> rhs_ok ce le r rhs ->
    exec2 (set_stmt k h CInt r) fuel ce le s =
    match target h upn p s with
    | Ok (q, _) => bind F rhs (fun v => bind F (store_slot k q idx v) (fun _ => ret F (ONormal F le))) s
    | Panic x => Panic x
    | _ => Stuck
    end.
  Proof.
    intros Hce Hle Hidx Hrhs. simpl set_stmt.
    pose proof (eval_place_fld h upn p F_Ints ce le s Hce (or_introl eq_refl) Hle) as E.
    pose proof (target_not_oof h upn p s) as Hn.
    destruct (target h upn p s) as [[q s']| | |] eqn:T.
    - destruct (target_state _ _ _ _ _ _ T) as [-> _]. simpl in E.
      rewrite (exec_assign_slot k h (rhsE r) fuel ce le s q idx E Hidx).
      unfold bind. rewrite (Hrhs s). reflexivity.
    - simpl in E. apply (proj2 (exec_assign_slot_fail k h (rhsE r) fuel ce le s)). exact E.
    - simpl in E. apply (proj1 (exec_assign_slot_fail k h (rhsE r) fuel ce le s)). exact E.
    - exfalso. apply Hn. reflexivity.
  Qed.

  (* ================================================================== class VarBind *)
  Lemma eval_index (ce : cenv) (le : lenv) a i :
    eval ce le (EIndex a i) =
    bind F (eval ce le a) (fun va => bind F (eval ce le i) (fun vi =>
      match va, int_of F vi with
      | VStr s, Some z => lift F (str_index F s z)
      | VVals p, Some z => ret F (VRef p z)
      | VInts p, Some z => fun s => match get_frame F s p with
                                    | Some fr => match load_slot F fofbits GUint64 (fr_ints F fr) z with Ok v => Ok (v, s) | Panic q => Panic q | _ => Stuck end
                                    | None => Stuck end
      | _, _ => stuck F
      end)).
  Proof. reflexivity. Qed.

  Lemma eval_vals h upn p idx (ce : cenv) (le : lenv) (s : state) :
    sel_freeb ce = true -> le_ok h upn p le s -> idx_ok ce le idx ->
    eval ce le (valsE h) s = match target h upn p s with
                             | Ok (q, _) => Ok (VRef q idx, s)
                             | Panic x => Panic x
                             | _ => Stuck
                             end.
  Proof.
    intros Hce Hle Hidx. unfold valsE. rewrite eval_index. unfold bind.
    rewrite (eval_place_fld h upn p F_Vals ce le s Hce (or_intror eq_refl) Hle).
    pose proof (target_not_oof h upn p s) as Hn.
    destruct (target h upn p s) as [[q s']| | |] eqn:T; try reflexivity.
    - destruct (target_state _ _ _ _ _ _ T) as [-> _]. simpl. rewrite (Hidx s). reflexivity.
    - exfalso. apply Hn. reflexivity.
  Qed.

  Lemma eval_bin (ce : cenv) (le : lenv) op a b :
    eval ce le (EBin op a b) = bind F (eval ce le a) (fun va => bind F (eval ce le b) (fun vb => lift F (binop_val op va vb))).
  Proof. reflexivity. Qed.
  Lemma eval_conv (ce : cenv) (le : lenv) k a :
    eval ce le (EConv (TK k) a) = bind F (eval ce le a) (fun va => lift F (convert F fconv k va)).
  Proof. reflexivity. Qed.
  Lemma eval_acc (ce : cenv) (le : lenv) a m :
    eval ce le (ECall0 (EMeth a m)) =
    bind F (eval ce le a) (fun va => fun s =>
      match va with
      | VRef p i => match get_frame F s p with
                    | Some fr => match zth (fr_vals F fr) i with
                                 | Some v => match accessor F fconv m v with Ok r => Ok (r, s) | _ => Stuck end
                                 | None => Panic PIndex end
                    | None => Stuck end
      | _ => match accessor F fconv m va with Ok r => Ok (r, s) | _ => Stuck end
      end).
  Proof. reflexivity. Qed.

  Lemma skipn_pushed {A} (x : A) (l : list A) : skipn (length (x :: l) - length l) (x :: l) = l.
  Proof. simpl length. rewrite Nat.sub_succ_l by lia. rewrite Nat.sub_diag. reflexivity. Qed.

  (* the operand under the local environment extended by the block-local lhs *)
  Definition rhs_src (ce : cenv) (le : lenv) (r : rhsform) (p : nat) (rhs : Sem.M F value) : Prop :=
    match r with
    | RConst => llookup F le V_val = None /\ exists c, clookup F ce (EVar V_val) = Some (CV F c) /\ rhs = ret F c
    | RExpr => llookup F le V_fun = None /\ llookup F le V_env = Some (VEnv p) /\
               exists kf f, clookup F ce (EVar V_fun) = Some (CF F kf f) /\ rhs = f p
    end.
  Lemma rhs_src_ok (ce : cenv) (le : lenv) r p rhs : rhs_src ce le r p rhs -> rhs_ok ce le r rhs.
  Proof.
    destruct r; simpl.
    - intros (H1 & c & H2 & ->). apply rhs_const_ok; assumption.
    - intros (H1 & H3 & kf & f & H2 & ->). eapply rhs_expr_ok; eassumption.
  Qed.
  Lemma rhs_src_push (ce : cenv) (le : lenv) r p rhs v : rhs_src ce le r p rhs -> rhs_src ce ((V_lhs, v) :: le) r p rhs.
  Proof. destruct r; simpl; intros H; exact H. Qed.

  Lemma op_val_sound op k h r upn p idx fuel (ce : cenv) (le : lenv) (s : state) rhs :
    sel_freeb ce = true -> le_ok h upn p le s -> idx_ok ce le idx -> rhs_src ce le r p rhs ->
    exec2 (op_stmt op k h CVal r) fuel ce le s =
    match target h upn p s with
    | Ok (q, _) => bind F (val_op F fbin fcmp fconv op k q idx rhs) (fun _ => ret F (ONormal F le)) s
    | Panic x => Panic x
    | _ => Stuck
    end.
  Proof.
    intros Hce Hle Hidx Hsrc. simpl op_stmt.
    change (exec2 (SBlock ?b) fuel ce le) with
      (bind F (exec2 b fuel ce le) (fun o =>
          match o with
          | ONormal _ le' => ret F (ONormal F (skipn (length le' - length le) le'))
          | OReturn _ vs => ret F o
          end)).
    unfold bind at 1. rewrite exec2_seq.
    change (exec2 (SDefine V_lhs (valsE h)) fuel ce le) with
      (bind F (eval ce le (valsE h)) (fun v => ret F (ONormal F ((V_lhs, default_type F v) :: le)))).
    unfold bind at 1. rewrite (eval_vals h upn p idx ce le s Hce Hle Hidx).
    destruct (target h upn p s) as [[q s']| | |] eqn:T; try reflexivity.
    destruct (target_state _ _ _ _ _ _ T) as [-> _]. clear T.
    simpl default_type. unfold ret at 1.
    set (le' := (V_lhs, VRef q idx) :: le).
    pose proof (rhs_src_ok ce le' r p rhs (rhs_src_push ce le r p rhs (VRef q idx) Hsrc)) as Hrhs.
    assert (Hl : forall s0 : state, eval ce le' (EVar V_lhs) s0 = Ok (VRef q idx, s0)) by (intros s0; apply eval_lvar; reflexivity).
    change (exec2 (SExpr (ECall1 (EMeth (EVar V_lhs) ?m) ?e)) fuel ce le') with
      (bind F (eval ce le' (EVar V_lhs)) (fun lv => bind F (eval ce le' e) (fun v =>
          match lv with
          | VRef p0 i => bind F (set_ref m p0 i v) (fun _ => ret F (ONormal F le'))
          | _ => stuck F
          end))).
    rewrite eval_bin, eval_acc.
    unfold val_op, read_val, ok_or_stuck, mlift.
    unfold bind, ret, lift, stuck. rewrite (Hl s). cbv beta iota. rewrite (Hl s). cbv beta iota.
    destruct (get_frame F s q) as [fr|]; [|reflexivity].
    destruct (zth (fr_vals F fr) idx) as [old|]; [|reflexivity].
    destruct (accessor F fconv (acc_meth k) old) as [ow| | |]; try reflexivity.
    (* the right operand, widened *)
    unfold widen_op.
    assert (Fin : forall (v : value) (s1 : state),
      match
        match match binop_val op ow v with Ok a => Ok (a, s1) | Panic p0 => Panic p0 | Stuck => Stuck | OutOfFuel => OutOfFuel end with
        | Ok (a, s'0) =>
            match set_ref (set_meth k) q idx a s'0 with
            | Ok (_, s'1) => Ok (ONormal F le', s'1)
            | Panic p0 => Panic p0 | Stuck => Stuck | OutOfFuel => OutOfFuel end
        | Panic p0 => Panic p0 | Stuck => Stuck | OutOfFuel => OutOfFuel end
      with
      | Ok (a, s'0) =>
          match a with
          | ONormal _ le'0 => fun s0 : state => Ok (ONormal F (skipn (length le'0 - length le) le'0), s0)
          | OReturn _ _ => fun s0 : state => Ok (a, s0)
          end s'0
      | Panic p0 => Panic p0 | Stuck => Stuck | OutOfFuel => OutOfFuel end =
      match
        match match binop_val op ow v with Ok a3 => Ok (a3, s1) | Panic p0 => Panic p0 | Stuck => Stuck | OutOfFuel => OutOfFuel end with
        | Ok (a4, s'1) => set_ref (set_meth k) q idx a4 s'1
        | Panic p0 => Panic p0 | Stuck => Stuck | OutOfFuel => OutOfFuel end
      with
      | Ok (_, s'0) => Ok (ONormal F le, s'0)
      | Panic p0 => Panic p0 | Stuck => Stuck | OutOfFuel => OutOfFuel end).
    { intros v s1. destruct (binop_val op ow v) as [r0| | |]; try reflexivity.
      destruct (set_ref (set_meth k) q idx r0 s1) as [[u s2]| | |]; try reflexivity.
      unfold le'. rewrite skipn_pushed. reflexivity. }
    destruct (is_shiftop op).
    - rewrite (Hrhs s). destruct (rhs s) as [[v s1]| | |]; try reflexivity. apply Fin.
    - destruct k;
        try (rewrite eval_conv; unfold bind, lift; rewrite (Hrhs s); destruct (rhs s) as [[v s1]| | |]; try reflexivity;
             destruct (convert F fconv _ v) as [vw| | |]; try reflexivity; apply Fin).
      rewrite (Hrhs s). destruct (rhs s) as [[v s1]| | |]; try reflexivity. apply Fin.

  Qed.

  Lemma set_val_sound k h r upn p idx fuel (ce : cenv) (le : lenv) (s : state) rhs :
    sel_freeb ce = true -> le_ok h upn p le s -> idx_ok ce le idx -> rhs_ok ce le r rhs ->
    exec2 (set_stmt k h CVal r) fuel ce le s =
    match target h upn p s with
    | Ok (q, _) => bind F (val_set F fconv k q idx rhs) (fun _ => ret F (ONormal F le)) s
    | Panic x => Panic x
    | _ => Stuck
    end.
  Proof.
    intros Hce Hle Hidx Hrhs. simpl set_stmt.
    change (exec2 (SExpr (ECall1 (EMeth (valsE h) ?m) ?e)) fuel ce le) with
      (bind F (eval ce le (valsE h)) (fun lv => bind F (eval ce le e) (fun v =>
          match lv with
          | VRef p0 i => bind F (set_ref m p0 i v) (fun _ => ret F (ONormal F le))
          | _ => stuck F
          end))).
    unfold bind at 1. rewrite (eval_vals h upn p idx ce le s Hce Hle Hidx).
    destruct (target h upn p s) as [[q s']| | |] eqn:T; try reflexivity.
    destruct (target_state _ _ _ _ _ _ T) as [-> _]. clear T.
    unfold val_set, widen_set, mlift. destruct (wide k).
    - unfold bind, ret. rewrite (Hrhs s). destruct (rhs s) as [[v s1]| | |]; try reflexivity.
    - rewrite eval_conv. unfold bind, ret, lift. rewrite (Hrhs s). destruct (rhs s) as [[v s1]| | |]; try reflexivity.
      destruct (convert F fconv (wide_kind k) v) as [vw| | |]; reflexivity.
  Qed.

  (* ================================================================== the hop loop *)
  Notation for_loop := (for_loop F).

  Lemma lss_int j n : binop_val Lss (VInt GInt j) (VInt GInt n) = Ok (VBool (j <? n)).
  Proof. reflexivity. Qed.

  Definition le_loop (p : nat) (j : Z) (v : value) : lenv := [(V_i, VInt GInt j); (V_o, v); (V_env, VEnv p)].

  Lemma ll_o p j v : llookup F (le_loop p j v) V_o = Some v. Proof. reflexivity. Qed.
  Lemma lu_o p j v w : lupdate F (le_loop p j v) V_o w = Some (le_loop p j w). Proof. reflexivity. Qed.
  Lemma ll_i p j v : llookup F (le_loop p j v) V_i = Some (VInt GInt j). Proof. reflexivity. Qed.
  Lemma lu_i p j v j' : lupdate F (le_loop p j v) V_i (VInt GInt j') = Some (le_loop p j' v). Proof. reflexivity. Qed.

  (* m more iterations starting with i = j, o = the frame j hops up *)
  Lemma hop_loop_run (ce : cenv) p upn (s : state) fuel0 :
    sel_freeb ce = true -> clookup F ce (EVar V_upn) = Some (CV F (VInt GInt upn)) -> upn <= 9223372036854775807 ->
    forall m fuel j v, (m < fuel)%nat -> 0 <= j -> j + Z.of_nat m = upn -> chain s p (Z.to_nat j) = Ok v ->
    for_loop fuel (fun l => eval ce l (EBin Lss (EVar V_i) (EVar V_upn)))
             (fun l => exec2 (SAssign (EVar V_o) (ESel (EVar V_o) F_Outer)) fuel0 ce l)
             (fun l => exec2 (SIncDec true (EVar V_i)) fuel0 ce l) (le_loop p j v) s =
    match chain s p (Z.to_nat upn) with
    | Ok w => Ok (ONormal F (le_loop p upn w), s)
    | Panic x => Panic x
    | Stuck => Stuck
    | OutOfFuel => OutOfFuel
    end.
  Proof.
    intros Hce Hupn Hmax. induction m as [|m IH]; intros fuel j v Hf Hj Hm Hc.
    - assert (j = upn) by lia. subst j. rewrite Hc.
      destruct fuel as [|fuel]; [lia|]. simpl for_loop. rewrite eval_bin. unfold bind.
      rewrite (eval_lvar ce (le_loop p upn v) V_i (VInt GInt upn) s eq_refl).
      rewrite (eval_cvar ce (le_loop p upn v) V_upn (VInt GInt upn) s eq_refl Hupn).
      unfold lift. rewrite lss_int. rewrite Z.ltb_irrefl. reflexivity.
    - destruct fuel as [|fuel]; [lia|]. simpl for_loop. rewrite eval_bin. unfold bind at 1 2 3.
      rewrite (eval_lvar ce (le_loop p j v) V_i (VInt GInt j) s eq_refl).
      rewrite (eval_cvar ce (le_loop p j v) V_upn (VInt GInt upn) s eq_refl Hupn).
      unfold lift. rewrite lss_int. assert (Hlt : j <? upn = true) by (apply Z.ltb_lt; lia). rewrite Hlt.
      (* body: o = o.Outer *)
      change (exec2 (SAssign (EVar V_o) (ESel (EVar V_o) F_Outer)) fuel0 ce (le_loop p j v)) with
        (bind F (eval ce (le_loop p j v) (ESel (EVar V_o) F_Outer)) (fun v0 =>
          match llookup F (le_loop p j v) V_o with
          | Some w => match assign_conv F w v0 with
                      | Ok v' => match lupdate F (le_loop p j v) V_o v' with Some le' => ret F (ONormal F le') | None => stuck F end
                      | _ => stuck F end
          | None => stuck F
          end)).
      unfold bind at 1 2.
      rewrite eval_sel by (assumption || reflexivity).
      rewrite (eval_lvar ce (le_loop p j v) V_o v s eq_refl).
      assert (Hs : chain s p (Z.to_nat (j + 1)) = match v with
                                                  | VEnv q => field_of_env F F_Outer s q
                                                  | VNilEnv => Panic PNil
                                                  | _ => Stuck end).
      { replace (Z.to_nat (j + 1)) with (S (Z.to_nat j)) by lia. simpl chain. rewrite Hc. destruct v; reflexivity. }
      assert (Hup : chain s p (Z.to_nat upn) = chain s p (Z.to_nat upn)) by reflexivity.
      destruct (chain_value s p (Z.to_nat j) v Hc) as [[q ->]| ->].
      + unfold field_of_env in *. destruct (get_frame F s q) as [fr|] eqn:G.
        * set (w := (match fr_outer F fr with Some q0 => VEnv q0 | None => VNilEnv end : value)).
          assert (Hw : chain s p (Z.to_nat (j + 1)) = Ok w) by (rewrite Hs; unfold w; destruct (fr_outer F fr); reflexivity).
          assert (Ew : match fr_outer F fr with Some q0 => Ok (VEnv q0) | None => Ok VNilEnv end = Ok w :> res value)
            by (unfold w; destruct (fr_outer F fr); reflexivity).
          rewrite Ew. cbv beta iota.
          assert (Ea : assign_conv F (VEnv q) w = Ok w) by (unfold w; destruct (fr_outer F fr); reflexivity).
          rewrite ll_o, Ea, lu_o. unfold ret at 1.
          (* post: i++ *)
          change (exec2 (SIncDec true (EVar V_i)) fuel0 ce (le_loop p j w)) with
            (match llookup F (le_loop p j w) V_i with
             | Some w0 => match local_incdec F true w0 with
                          | Ok r1 => match lupdate F (le_loop p j w) V_i r1 with Some le1 => ret F (ONormal F le1) | None => stuck F end
                          | _ => stuck F end
             | None => stuck F
             end).
          rewrite ll_i. unfold local_incdec. change (ik_of GInt) with (Some I64).
          assert (Hadd : GoInt.add I64 j 1 = j + 1).
          { unfold GoInt.add. apply wrap_id. unfold in_range. change (imin I64) with (-9223372036854775808).
            change (imax I64) with 9223372036854775807. lia. }
          cbv beta iota. rewrite Hadd, lu_i. unfold bind, ret. apply (IH fuel (j + 1) w); try lia. exact Hw.
        * (* dangling frame: stuck, and so is the chain from here on *)
          assert (Hst : forall n, (Z.to_nat j < n)%nat -> chain s p n = Stuck).
          { intros n Hn. induction n as [|n IHn]; [lia|].
            destruct (Nat.eq_dec n (Z.to_nat j)) as [->|Hne].
            - simpl chain. rewrite Hc. unfold field_of_env. rewrite G. reflexivity.
            - simpl chain. rewrite IHn by lia. reflexivity. }
          rewrite (Hst (Z.to_nat upn)) by lia. reflexivity.
      + (* o is nil: o.Outer panics *)
        assert (Hst : forall n, (Z.to_nat j < n)%nat -> chain s p n = Panic PNil).
        { intros n Hn. induction n as [|n IHn]; [lia|].
          destruct (Nat.eq_dec n (Z.to_nat j)) as [->|Hne].
          - simpl chain. rewrite Hc. reflexivity.
          - simpl chain. rewrite IHn by lia. reflexivity. }
        rewrite (Hst (Z.to_nat upn)) by lia. reflexivity.
  Qed.

  (* ================================================================== statement + epilogue *)
  Notation int_op := (int_op F fbin fcmp fofbits ftobits).
  Notation val_op := (val_op F fbin fcmp fconv).
  Notation val_set := (val_set F fconv).

  Definition then_next (p : nat) (m : Sem.M F unit) : Sem.M F (list value) := bind F m (fun _ => next_stmt p).

  Lemma seq_epilogue st fuel (ce : cenv) (le : lenv) p (s : state) (m : Sem.M F unit) :
    llookup F le V_env = Some (VEnv p) ->
    exec2 st fuel ce le s = match m s with
                            | Ok (_, s') => Ok (ONormal F le, s')
                            | Panic x => Panic x | Stuck => Stuck | OutOfFuel => OutOfFuel end ->
    exec2 (SSeq st epilogue) fuel ce le s = as_return (then_next p m s).
  Proof.
    intros Henv E. rewrite exec2_seq, E. unfold then_next, bind.
    destruct (m s) as [[u s']| | |]; try reflexivity. apply exec_epilogue. exact Henv.
  Qed.

  Lemma le_ok_env h upn p (le : lenv) (s : state) : le_ok h upn p le s -> llookup F le V_env = Some (VEnv p).
  Proof. intros [H _]. exact H. Qed.

  Lemma op_body_sound op k h c r upn p idx fuel (ce : cenv) (le : lenv) (s : state) rhs :
    sel_freeb ce = true -> le_ok h upn p le s -> idx_ok ce le idx -> rhs_src ce le r p rhs ->
    exec2 (SSeq (op_stmt op k h c r) epilogue) fuel ce le s =
    as_return (bind F (target h upn p) (fun q =>
                 then_next p (match c with CInt => int_op op k q idx rhs | CVal => val_op op k q idx rhs end)) s).
  Proof.
    intros Hce Hle Hidx Hsrc. pose proof (le_ok_env _ _ _ _ _ Hle) as Henv.
    pose proof (target_not_oof h upn p s) as Hn.
    unfold bind at 1. destruct c.
    - destruct (target h upn p s) as [[q s']| | |] eqn:T.
      + destruct (target_state _ _ _ _ _ _ T) as [-> _].
        apply seq_epilogue; [exact Henv|].
        rewrite (op_int_sound op k h r upn p idx fuel ce le s rhs Hce Hle Hidx (rhs_src_ok _ _ _ _ _ Hsrc)), T.
        unfold int_store, Model.int_op, ok_or_panic, bind, ret, stuck.
        destruct (rhs s) as [[v s1]| | |]; try reflexivity;
        destruct (load_ptr k q idx s1) as [[old s2]| | |]; try reflexivity;
        destruct (binop_val op old v) as [r0| | |]; try reflexivity;
        try (destruct (store_slot k q idx r0 s2) as [[u s3]| | |]; reflexivity).
      + rewrite exec2_seq, (op_int_sound op k h r upn p idx fuel ce le s rhs Hce Hle Hidx (rhs_src_ok _ _ _ _ _ Hsrc)), T. reflexivity.
      + rewrite exec2_seq, (op_int_sound op k h r upn p idx fuel ce le s rhs Hce Hle Hidx (rhs_src_ok _ _ _ _ _ Hsrc)), T. reflexivity.
      + exfalso. apply Hn. reflexivity.
    - destruct (target h upn p s) as [[q s']| | |] eqn:T.
      + destruct (target_state _ _ _ _ _ _ T) as [-> _].
        apply seq_epilogue; [exact Henv|].
        rewrite (op_val_sound op k h r upn p idx fuel ce le s rhs Hce Hle Hidx Hsrc), T.
        unfold bind, ret. destruct (val_op op k q idx rhs s) as [[u s1]| | |]; reflexivity.
      + rewrite exec2_seq, (op_val_sound op k h r upn p idx fuel ce le s rhs Hce Hle Hidx Hsrc), T. reflexivity.
      + rewrite exec2_seq, (op_val_sound op k h r upn p idx fuel ce le s rhs Hce Hle Hidx Hsrc), T. reflexivity.
      + exfalso. apply Hn. reflexivity.
  Qed.

  Lemma set_body_sound k h c r upn p idx fuel (ce : cenv) (le : lenv) (s : state) rhs :
    sel_freeb ce = true -> le_ok h upn p le s -> idx_ok ce le idx -> rhs_src ce le r p rhs ->
    exec2 (SSeq (set_stmt k h c r) epilogue) fuel ce le s =
    as_return (bind F (target h upn p) (fun q =>
                 then_next p (match c with
                              | CInt => bind F rhs (fun v => store_slot k q idx v)
                              | CVal => val_set k q idx rhs end)) s).
  Proof.
    intros Hce Hle Hidx Hsrc. pose proof (le_ok_env _ _ _ _ _ Hle) as Henv.
    pose proof (target_not_oof h upn p s) as Hn. pose proof (rhs_src_ok _ _ _ _ _ Hsrc) as Hrhs.
    unfold bind at 1. destruct c.
    - destruct (target h upn p s) as [[q s']| | |] eqn:T.
      + destruct (target_state _ _ _ _ _ _ T) as [-> _].
        apply seq_epilogue; [exact Henv|].
        rewrite (set_int_sound k h r upn p idx fuel ce le s rhs Hce Hle Hidx Hrhs), T.
        unfold bind, ret. destruct (rhs s) as [[v s1]| | |]; try reflexivity;
        try (destruct (store_slot k q idx v s1) as [[u s3]| | |]; reflexivity).
      + rewrite exec2_seq, (set_int_sound k h r upn p idx fuel ce le s rhs Hce Hle Hidx Hrhs), T. reflexivity.
      + rewrite exec2_seq, (set_int_sound k h r upn p idx fuel ce le s rhs Hce Hle Hidx Hrhs), T. reflexivity.
      + exfalso. apply Hn. reflexivity.
    - destruct (target h upn p s) as [[q s']| | |] eqn:T.
      + destruct (target_state _ _ _ _ _ _ T) as [-> _].
        apply seq_epilogue; [exact Henv|].
        rewrite (set_val_sound k h r upn p idx fuel ce le s rhs Hce Hle Hidx Hrhs), T.
        unfold bind, ret. destruct (val_set k q idx rhs s) as [[u s1]| | |]; reflexivity.
      + rewrite exec2_seq, (set_val_sound k h r upn p idx fuel ce le s rhs Hce Hle Hidx Hrhs), T. reflexivity.
      + rewrite exec2_seq, (set_val_sound k h r upn p idx fuel ce le s rhs Hce Hle Hidx Hrhs), T. reflexivity.
      + exfalso. apply Hn. reflexivity.
  Qed.

  (* ================================================================== the hop prefix *)
  Lemma chain_fail_mono (s : state) p n m : (forall v, chain s p n <> Ok v) -> chain s p (n + m) = chain s p n.
  Proof.
    intros H. induction m as [|m IH]; [rewrite Nat.add_0_r; reflexivity|].
    rewrite Nat.add_succ_r. simpl chain. rewrite IH.
    destruct (chain s p n) as [v| | |]; try reflexivity. exfalso. apply (H v). reflexivity.
  Qed.

  Definition le0 (p : nat) : lenv := [(V_env, VEnv p)].
  Definition le_o (p : nat) (w : value) : lenv := [(V_o, w); (V_env, VEnv p)].

  Lemma hops_prefix rest fuel (ce : cenv) p upn (s : state) :
    sel_freeb ce = true -> clookup F ce (EVar V_upn) = Some (CV F (VInt GInt upn)) ->
    3 <= upn <= 9223372036854775807 -> (Z.to_nat upn - 3 < fuel)%nat ->
    exec2 (with_hops HLoop rest) fuel ce (le0 p) s =
    match chain s p (Z.to_nat upn) with
    | Ok w => exec2 rest fuel ce (le_o p w) s
    | Panic x => Panic x
    | Stuck => Stuck
    | OutOfFuel => OutOfFuel
    end.
  Proof.
    intros Hce Hupn [H3 Hmax] Hfuel. simpl with_hops. rewrite exec2_seq.
    change (exec2 (SDefine V_o ?e) fuel ce (le0 p)) with
      (bind F (eval ce (le0 p) e) (fun v => ret F (ONormal F ((V_o, default_type F v) :: le0 p)))).
    unfold bind at 1.
    assert (E3 : eval ce (le0 p) (ESel (ESel (ESel venv F_Outer) F_Outer) F_Outer) s = ret_of (chain s p 3) s).
    { apply eval_outer; [assumption|]. apply eval_outer; [assumption|]. apply eval_outer; [assumption|]. apply eval_lvar. reflexivity. }
    rewrite E3.
    assert (Hsplit : Z.to_nat upn = (3 + (Z.to_nat upn - 3))%nat) by lia.
    destruct (chain s p 3) as [v| | |] eqn:C3.
    2,3,4: (rewrite Hsplit, chain_fail_mono by (rewrite C3; discriminate); rewrite C3; reflexivity).
    simpl ret_of. unfold ret at 1.
    assert (Hd : default_type F v = v) by (destruct (chain_value s p 3 v C3) as [[q ->]| ->]; reflexivity).
    rewrite Hd. rewrite exec2_seq.
    change (exec2 hop_loop fuel ce ((V_o, v) :: le0 p)) with
      (bind F (exec2 (SDefine V_i (ELit 3)) fuel ce ((V_o, v) :: le0 p)) (fun o =>
          match o with
          | OReturn _ _ => stuck F
          | ONormal _ le1 =>
            bind F (for_loop fuel (fun l => eval ce l (EBin Lss (EVar V_i) (EVar V_upn)))
                      (fun l => exec2 (SAssign (EVar V_o) (ESel (EVar V_o) F_Outer)) fuel ce l)
                      (fun l => exec2 (SIncDec true (EVar V_i)) fuel ce l) le1)
              (fun o2 => match o2 with
                         | ONormal _ l' => ret F (ONormal F (skipn (length l' - length ((V_o, v) :: le0 p)) l'))
                         | OReturn _ _ => ret F o2
                         end)
          end)).
    change (exec2 (SDefine V_i (ELit 3)) fuel ce ((V_o, v) :: le0 p)) with
      (bind F (eval ce ((V_o, v) :: le0 p) (ELit 3)) (fun v0 => ret F (ONormal F ((V_i, default_type F v0) :: (V_o, v) :: le0 p)))).
    change (eval ce ((V_o, v) :: le0 p) (ELit 3)) with (ret F (VUntyped 3) : Sem.M F value).
    unfold bind at 1 2. unfold ret at 1 2. simpl default_type. unfold bind at 1.
    change ((V_i, VInt GInt 3) :: (V_o, v) :: le0 p) with (le_loop p 3 v).
    rewrite (hop_loop_run ce p upn s fuel Hce Hupn Hmax (Z.to_nat upn - 3) fuel 3 v Hfuel) by (try lia; exact C3).
    destruct (chain s p (Z.to_nat upn)) as [w| | |]; try reflexivity.
  Qed.

  (* ================================================================== the whole closure *)
  Notation run_stmt := (run_stmt F fbin fcmp fun1 fconv fpart fofbits ftobits).
  Notation spec_tmpl := (spec_tmpl F fbin fcmp fconv fofbits ftobits).
  Notation roots_of := (roots_of F).
  Notation eval_lets := (eval_lets F fbin fcmp fun1 fconv fpart fofbits).
  Notation ceval := (ceval F fbin fcmp fun1 fconv fpart fofbits).
  Notation norm_const := (norm_const F fconv).
  Transparent has_ty.

  Definition hops_ok (h : hops) (upn : Z) (fuel : nat) : Prop :=
    match h with HLoop => 3 <= upn <= 9223372036854775807 /\ (Z.to_nat upn - 3 < fuel)%nat | _ => True end.

  Definition inputs_ok (t : tmpl) (i : inputs F) : Prop :=
    match t with
    | TVarOp op k h c RConst => if is_shiftop op then True else wf_value F k (in_c F i)
    | TVarSet k h c RConst => wf_value F k (in_c F i)
    | TVarQuoPow2 k h negy => 0 <= in_sh F i <= GoInt.width (ikd k) - 1
    | _ => True
    end.

  Lemma run_of_body fuel (roots ce : cenv) lets body p (s : state) (X : Sem.M F (list value)) :
    eval_lets roots lets = Some ce ->
    exec2 body fuel ce (le0 p) s = as_return (X s) ->
    run_stmt fuel roots (mkClosure lets envp stmt_results body) p s = X s.
  Proof.
    intros L E. unfold Model.run_stmt. cbn [c_lets c_params c_body]. rewrite L.
    change (bind_params F envp [VEnv p]) with (Some (le0 p)).
    unfold bind. rewrite E. destruct (X s) as [[vs s']| | |]; reflexivity.
  Qed.

  (* the body of a template under the hop prefix *)
  Lemma hops_body_sound h rest fuel (ce : cenv) p upn (s : state) (X : nat -> Sem.M F (list value)) :
    sel_freeb ce = true -> clookup F ce (EVar V_upn) = Some (CV F (VInt GInt upn)) \/ h <> HLoop -> hops_ok h upn fuel ->
    (forall le, le_ok h upn p le s -> (h <> HLoop -> le = le0 p) -> (h = HLoop -> exists w, le = le_o p w) ->
       exec2 rest fuel ce le s = as_return (bind F (target h upn p) X s)) ->
    exec2 (with_hops h rest) fuel ce (le0 p) s = as_return (bind F (target h upn p) X s).
  Proof.
    intros Hce Hupn Hh Hbody.
    destruct (hops_eq_dec h) as [->|Hne].
    - destruct Hupn as [Hupn|Hx]; [|exfalso; apply Hx; reflexivity].
      destruct Hh as [Hb Hf]. rewrite (hops_prefix rest fuel ce p upn s Hce Hupn Hb Hf).
      destruct (chain s p (Z.to_nat upn)) as [w| | |] eqn:C.
      + apply Hbody; [split; [reflexivity|exists w; split; [reflexivity|exact C]] | intros Hx; exfalso; apply Hx; reflexivity | intros _; exists w; reflexivity].
      + unfold bind. rewrite target_chain by discriminate. simpl nhops. rewrite C. reflexivity.
      + unfold bind. rewrite target_chain by discriminate. simpl nhops. rewrite C. reflexivity.
      + exfalso. apply (chain_not_oof s p (Z.to_nat upn)). exact C.
    - assert (E : with_hops h rest = rest) by (destruct h; try reflexivity; exfalso; apply Hne; reflexivity).
      rewrite E. apply Hbody; [split; [reflexivity|destruct h; try exact I; exfalso; apply Hne; reflexivity] | intros _; reflexivity | intros Hx; exfalso; apply Hne; exact Hx].
  Qed.

  Definition hop_ce (h : hops) (idx upn : Z) (roots : cenv) : cenv :=
    match h with
    | HLoop => (EVar V_index, CV F (VInt GInt idx)) :: (EVar V_upn, CV F (VInt GInt upn)) :: roots
    | _ => (EVar V_index, CV F (VInt GInt idx)) :: roots
    end.

  Lemma lets_hops h (roots : cenv) rest idx upn :
    clookup F roots (ECall0 (EMeth (ESel (EVar V_va) F_Desc) M_Index)) = Some (CV F (VInt GInt idx)) ->
    clookup F roots (ESel (EVar V_va) F_Upn) = Some (CV F (VInt GInt upn)) ->
    eval_lets roots (hop_lets h ++ rest) = eval_lets (hop_ce h idx upn roots) rest.
  Proof.
    intros H1 H2. destruct h; simpl; unfold Sem.ceval; try (rewrite H1; reflexivity).
    rewrite H2. simpl. rewrite H1. reflexivity.
  Qed.

  Ltac side_conds :=
    match goal with
    | |- sel_freeb _ = true => reflexivity
    | |- idx_ok _ _ _ => intros ?s0; apply eval_cvar; reflexivity
    | |- _ \/ _ => first [left; reflexivity | right; discriminate]
    | |- rhs_src _ _ RConst _ _ => split; [reflexivity | eexists; split; reflexivity]
    | |- rhs_src _ _ RExpr _ _ => split; [reflexivity | split; [reflexivity | do 2 eexists; split; reflexivity]]
    | _ => idtac
    end.

  Theorem var_op_sound op k h c r (i : inputs F) p (s : state) fuel :
    inputs_ok (TVarOp op k h c r) i -> hops_ok h (in_upn F i) fuel ->
    run_stmt fuel (roots_of (TVarOp op k h c r) i) (closure_of_tmpl (TVarOp op k h c r)) p s = spec_tmpl (TVarOp op k h c r) i p s.
  Proof.
    intros Hi Hh. destruct i as [idx upn cst f sh]. simpl in Hi, Hh.
    unfold closure_of_tmpl, Model.spec_tmpl, Model.roots_of, Model.rhs_const, op_lets. cbn [in_idx in_upn in_c in_f in_sh].
    destruct (is_shiftop op) eqn:Hs; destruct r.
    - (* shift by a constant *)
      destruct h;
        (eapply run_of_body;
         [ rewrite (lets_hops _ _ _ idx upn) by reflexivity; reflexivity
         | apply hops_body_sound; [reflexivity | side_conds | exact Hh |];
           intros le Hle Hl1 Hl2;
           apply (op_body_sound op k _ c RConst upn p idx fuel _ le s (ret F cst)); try exact Hle;
           try (rewrite (Hl1 ltac:(discriminate))); try (destruct (Hl2 eq_refl) as [w ->]); side_conds ]).
    - (* shift by an expression *)
      destruct h;
        (eapply run_of_body;
         [ rewrite (lets_hops _ _ _ idx upn) by reflexivity; reflexivity
         | apply hops_body_sound; [reflexivity | side_conds | exact Hh |];
           intros le Hle Hl1 Hl2;
           apply (op_body_sound op k _ c RExpr upn p idx fuel _ le s (f p)); try exact Hle;
           try (rewrite (Hl1 ltac:(discriminate))); try (destruct (Hl2 eq_refl) as [w ->]); side_conds ]).
    - (* constant operand *)
      destruct h;
        (match goal with |- run_stmt _ ?roots (mkClosure (?hl ++ _) _ _ _) _ _ = _ =>
           assert (L : eval_lets roots (hl ++ [(V_val, cextract k (valueOf (EVar V_val)))]) =
                       match norm_const k cst with
                       | Ok c' => Some ((EVar V_val, CV F c') :: hop_ce _ idx upn roots)
                       | _ => None end)
             by (rewrite (lets_hops _ _ _ idx upn) by reflexivity; cbn [Sem.eval_lets];
                 rewrite (ceval_cextract F fbin fcmp fun1 fconv fpart fofbits _ k (valueOf (EVar V_val)) cst) by (reflexivity || exact Hi);
                 destruct (norm_const k cst); reflexivity)
         end;
         destruct (norm_const k cst) as [c'| | |] eqn:N;
         [ eapply run_of_body;
           [ exact L
           | apply hops_body_sound; [reflexivity | side_conds | exact Hh |];
             intros le Hle Hl1 Hl2;
             apply (op_body_sound op k _ c RConst upn p idx fuel _ le s (ret F c')); try exact Hle;
             try (rewrite (Hl1 ltac:(discriminate))); try (destruct (Hl2 eq_refl) as [w ->]); side_conds ]
         | unfold Model.run_stmt; cbn [c_lets]; rewrite L; reflexivity
         | unfold Model.run_stmt; cbn [c_lets]; rewrite L; reflexivity
         | unfold Model.run_stmt; cbn [c_lets]; rewrite L; reflexivity ]).
    - (* operand expression *)
      destruct h;
        (eapply run_of_body;
         [ rewrite (lets_hops _ _ _ idx upn) by reflexivity; unfold assertf; cbn [Sem.eval_lets];
           rewrite (ceval_assert F fbin fcmp fun1 fconv fpart fofbits _ k V_fun f) by reflexivity; reflexivity
         | apply hops_body_sound; [reflexivity | side_conds | exact Hh |];
           intros le Hle Hl1 Hl2;
           apply (op_body_sound op k _ c RExpr upn p idx fuel _ le s (f p)); try exact Hle;
           try (rewrite (Hl1 ltac:(discriminate))); try (destruct (Hl2 eq_refl) as [w ->]); side_conds ]).
  Qed.

  Lemma ceval_hit (ce : cenv) e c : clookup F ce e = Some c -> ceval ce e = Some c.
  Proof. intros H. unfold Sem.ceval. rewrite H. reflexivity. Qed.

  Theorem var_set_sound k h c r (i : inputs F) p (s : state) fuel :
    inputs_ok (TVarSet k h c r) i -> hops_ok h (in_upn F i) fuel ->
    run_stmt fuel (roots_of (TVarSet k h c r) i) (closure_of_tmpl (TVarSet k h c r)) p s = spec_tmpl (TVarSet k h c r) i p s.
  Proof.
    intros Hi Hh. destruct i as [idx upn cst f sh]. simpl in Hi, Hh.
    unfold closure_of_tmpl, Model.spec_tmpl, Model.roots_of, Model.rhs_const, set_lets. cbn [in_idx in_upn in_c in_f in_sh].
    destruct r.
    - destruct h;
        (match goal with |- run_stmt _ ?roots (mkClosure (?hl ++ _) _ _ _) _ _ = _ =>
           assert (L : eval_lets roots (hl ++ [(V_val, cextract k (EVar V_v))]) =
                       match norm_const k cst with
                       | Ok c' => Some ((EVar V_val, CV F c') :: hop_ce _ idx upn roots)
                       | _ => None end)
             by (rewrite (lets_hops _ _ _ idx upn) by reflexivity; cbn [Sem.eval_lets];
                 rewrite (ceval_cextract F fbin fcmp fun1 fconv fpart fofbits _ k (EVar V_v) cst) by (reflexivity || exact Hi);
                 destruct (norm_const k cst); reflexivity)
         end;
         destruct (norm_const k cst) as [c'| | |] eqn:N;
         [ eapply run_of_body;
           [ exact L
           | apply hops_body_sound; [reflexivity | side_conds | exact Hh |];
             intros le Hle Hl1 Hl2;
             apply (set_body_sound k _ c RConst upn p idx fuel _ le s (ret F c')); try exact Hle;
             try (rewrite (Hl1 ltac:(discriminate))); try (destruct (Hl2 eq_refl) as [w ->]); side_conds ]
         | unfold Model.run_stmt; cbn [c_lets]; rewrite L; reflexivity
         | unfold Model.run_stmt; cbn [c_lets]; rewrite L; reflexivity
         | unfold Model.run_stmt; cbn [c_lets]; rewrite L; reflexivity ]).
    - destruct h;
        (eapply run_of_body;
         [ rewrite (lets_hops _ _ _ idx upn) by reflexivity; unfold assertf; cbn [Sem.eval_lets];
           rewrite (ceval_hit _ eFunE (CF F k f)) by reflexivity; cbn [Sem.eval_lets];
           rewrite (ceval_assert F fbin fcmp fun1 fconv fpart fofbits _ k V_fun f) by reflexivity; reflexivity
         | apply hops_body_sound; [reflexivity | side_conds | exact Hh |];
           intros le Hle Hl1 Hl2;
           apply (set_body_sound k _ c RExpr upn p idx fuel _ le s (f p)); try exact Hle;
           try (rewrite (Hl1 ltac:(discriminate))); try (destruct (Hl2 eq_refl) as [w ->]); side_conds ]).
  Qed.
End P.

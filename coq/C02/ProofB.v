(* C02 -- arithmetic layer: the narrow store, the VarBind (wide) path on integers, multi-assignment *)
From Coq Require Import ZArith List Bool Lia.
From Verif Require Import Common.GoInt Common.GoStr GoLite.Syntax GoLite.Sem C01.Model C02.Model.
Import ListNotations.
Open Scope Z_scope.

(* ------------------------------------------------------------------ narrow store *)
Lemma pow2_pos n : 0 <= n -> 0 < 2 ^ n.
Proof. intros. apply Z.pow_pos_nonneg; lia. Qed.

Lemma slot_bits_range k : 8 <= slot_bits k <= 64.
Proof. destruct k; simpl; lia. Qed.

(* writing a value of kind k through the narrow pointer changes only the low slot_bits k bits of the uint64 word:
   the high part (the neighbouring bytes of the slot) is preserved, the low part is the value, the word stays a uint64 *)
Theorem narrow_store_spec k w z : 0 <= w < 2 ^ 64 ->
  let w' := narrow_store k w z in
  w' / 2 ^ slot_bits k = w / 2 ^ slot_bits k /\ w' mod 2 ^ slot_bits k = z mod 2 ^ slot_bits k /\ 0 <= w' < 2 ^ 64.
Proof.
  intros Hw. unfold narrow_store. pose proof (slot_bits_range k) as Hb.
  set (B := 2 ^ slot_bits k). assert (HB : 0 < B) by (apply pow2_pos; lia).
  assert (H64 : 2 ^ 64 = B * 2 ^ (64 - slot_bits k)).
  { unfold B. rewrite <- Z.pow_add_r by lia. f_equal. lia. }
  assert (HC : 0 < 2 ^ (64 - slot_bits k)) by (apply pow2_pos; lia).
  pose proof (Z.div_mod w B ltac:(lia)) as Dw. pose proof (Z.mod_pos_bound w B HB) as Mw.
  pose proof (Z.mod_pos_bound z B HB) as Mz.
  assert (E : w - w mod B + z mod B = z mod B + (w / B) * B) by lia.
  rewrite E. cbv zeta. repeat split.
  - rewrite Z.div_add by lia. rewrite Z.div_small by lia. lia.
  - rewrite Z.mod_add by lia. apply Z.mod_small. lia.
  - assert (0 <= w / B) by (apply Z.div_pos; lia). nia.
  - assert (w / B < 2 ^ (64 - slot_bits k)) by (apply Z.div_lt_upper_bound; lia). nia.
Qed.

(* the store followed by the load at the same kind gives back the value (integer kinds) *)
Lemma slot_bits_width k : is_integer k = true -> slot_bits k = GoInt.width (ikd k).
Proof. destruct k; try discriminate; reflexivity. Qed.

Lemma wrap_mod k a b : a mod modulus k = b mod modulus k -> GoInt.wrap k a = GoInt.wrap k b.
Proof.
  intros H. pose proof (modulus_pos k).
  assert (E : a = b + (a / modulus k - b / modulus k) * modulus k).
  { pose proof (Z.div_mod a (modulus k) ltac:(lia)). pose proof (Z.div_mod b (modulus k) ltac:(lia)). lia. }
  apply (wrap_eq_of_cong k a b _ E).
Qed.

Theorem load_after_narrow_store k w z : is_integer k = true -> 0 <= w < 2 ^ 64 ->
  GoInt.wrap (ikd k) (narrow_store k w z) = GoInt.wrap (ikd k) z.
Proof.
  intros Hk Hw. apply wrap_mod. unfold modulus. rewrite <- (slot_bits_width k Hk).
  exact (proj1 (proj2 (narrow_store_spec k w z Hw))).
Qed.

(* ------------------------------------------------------------------ the wide path of class VarBind *)
(* lhs.SetInt(lhs.Int() OP int64(v)): the operation is carried out at 64 bits and the setter truncates to the kind of the
   variable; for every operation of the form wrap(f a b) this is the operation at the kind itself *)
Lemma wrap_narrow ik wk z : GoInt.width ik <= GoInt.width wk -> GoInt.wrap ik (GoInt.wrap wk z) = GoInt.wrap ik z.
Proof.
  intros Hw. destruct (wrap_cong wk z) as [q E]. rewrite E.
  apply (wrap_eq_of_cong ik _ z (q * 2 ^ (GoInt.width wk - GoInt.width ik))).
  unfold modulus. pose proof (width_pos ik).
  replace (2 ^ GoInt.width wk) with (2 ^ (GoInt.width wk - GoInt.width ik) * 2 ^ GoInt.width ik).
  - lia.
  - rewrite <- Z.pow_add_r by lia. f_equal. lia.
Qed.

Definition wide_ik (k : gokind) : ikind := if is_signed k then I64 else U64.
Lemma width_wide k : GoInt.width (ikd k) <= GoInt.width (wide_ik k).
Proof. unfold wide_ik. destruct k; simpl; lia. Qed.

(* add sub mul and or xor andnot shl : wrap at 64 bits, then at the kind *)
Theorem wide_then_narrow k (f : Z -> Z -> Z) a b :
  GoInt.wrap (ikd k) (GoInt.wrap (wide_ik k) (f a b)) = GoInt.wrap (ikd k) (f a b).
Proof. apply wrap_narrow, width_wide. Qed.

Corollary wide_add k a b : GoInt.wrap (ikd k) (GoInt.add (wide_ik k) a b) = GoInt.add (ikd k) a b.
Proof. apply (wide_then_narrow k Z.add). Qed.
Corollary wide_sub k a b : GoInt.wrap (ikd k) (GoInt.sub (wide_ik k) a b) = GoInt.sub (ikd k) a b.
Proof. apply (wide_then_narrow k Z.sub). Qed.
Corollary wide_mul k a b : GoInt.wrap (ikd k) (GoInt.mul (wide_ik k) a b) = GoInt.mul (ikd k) a b.
Proof. apply (wide_then_narrow k Z.mul). Qed.
Corollary wide_and k a b : GoInt.wrap (ikd k) (GoInt.and_ (wide_ik k) a b) = GoInt.and_ (ikd k) a b.
Proof. apply (wide_then_narrow k Z.land). Qed.
Corollary wide_or k a b : GoInt.wrap (ikd k) (GoInt.or_ (wide_ik k) a b) = GoInt.or_ (ikd k) a b.
Proof. apply (wide_then_narrow k Z.lor). Qed.
Corollary wide_xor k a b : GoInt.wrap (ikd k) (GoInt.xor (wide_ik k) a b) = GoInt.xor (ikd k) a b.
Proof. apply (wide_then_narrow k Z.lxor). Qed.
Corollary wide_andnot k a b : GoInt.wrap (ikd k) (GoInt.andnot (wide_ik k) a b) = GoInt.andnot (ikd k) a b.
Proof. apply (wide_then_narrow k (fun x y => Z.land x (Z.lnot y))). Qed.
Corollary wide_shl k a n : GoInt.wrap (ikd k) (GoInt.shl (wide_ik k) a n) = GoInt.shl (ikd k) a n.
Proof. apply (wide_then_narrow k Z.shiftl). Qed.
Corollary wide_quo k a b : b <> 0 ->
  option_map (GoInt.wrap (ikd k)) (GoInt.quo (wide_ik k) a b) = GoInt.quo (ikd k) a b.
Proof.
  intros Hb. unfold GoInt.quo. destruct (Z.eqb_spec b 0); [contradiction|]. simpl. f_equal. apply (wide_then_narrow k Z.quot).
Qed.
Corollary wide_rem k a b : b <> 0 ->
  option_map (GoInt.wrap (ikd k)) (GoInt.rem (wide_ik k) a b) = GoInt.rem (ikd k) a b.
Proof.
  intros Hb. unfold GoInt.rem. destruct (Z.eqb_spec b 0); [contradiction|]. simpl. f_equal. apply (wide_then_narrow k Z.rem).
Qed.
(* >> does not wrap: the result of shifting an in-range value is in range *)
Corollary wide_shr k a n : 0 <= n -> in_range (ikd k) a -> GoInt.wrap (ikd k) (GoInt.shr (wide_ik k) a n) = GoInt.shr (ikd k) a n.
Proof. intros Hn Ha. unfold GoInt.shr. apply wrap_id. apply (shr_range (ikd k) a n Hn Ha). Qed.

(* the operand int64(v) of the wide path is v itself *)
Lemma range_wide k z : is_integer k = true -> in_range (ikd k) z -> in_range (wide_ik k) z.
Proof.
  intros Hk [H1 H2].
  assert (B : imin (wide_ik k) <= imin (ikd k) /\ imax (ikd k) <= imax (wide_ik k))
    by (destruct k; try discriminate; split; vm_compute; intro C; discriminate C).
  unfold in_range. lia.
Qed.
Lemma wide_operand k z : is_integer k = true -> in_range (ikd k) z -> GoInt.wrap (wide_ik k) z = z.
Proof. intros Hk Hr. apply wrap_id, range_wide; assumption. Qed.

(* ------------------------------------------------------------------ multi-assignment through temporaries *)
Section MultiP.
  Variable V : Type.
  Notation store := (store V).

  Lemma upd_same (st : store) p v : upd V st p v p = v.
  Proof. unfold upd. rewrite Nat.eqb_refl. reflexivity. Qed.
  Lemma upd_other (st : store) p v q : q <> p -> upd V st p v q = st q.
  Proof. intros H. unfold upd. destruct (Nat.eqb_spec q p); [contradiction|reflexivity]. Qed.

  (* a place that is not assigned keeps its value *)
  Lemma do_stores_other ps : forall (st : store) vs q, ~ In (Some q) ps -> do_stores V st ps vs q = st q.
  Proof.
    induction ps as [|[p|] ps IH]; intros st vs q Hq; [reflexivity| |].
    - destruct vs as [|v vs]; [reflexivity|]. simpl. rewrite IH by (intro C; apply Hq; right; exact C).
      apply upd_other. intro E. apply Hq. left. rewrite E. reflexivity.
    - destruct vs as [|v vs]; [reflexivity|]. simpl. apply IH. intro C. apply Hq. right. exact C.
  Qed.

  (* the i-th place receives the i-th value, provided no LATER place is the same (Go: stores left to right, the last wins) *)
  Lemma do_stores_at ps : forall (st : store) vs i p v,
    nth_error ps i = Some (Some p) -> nth_error vs i = Some v -> length vs = length ps ->
    ~ In (Some p) (skipn (S i) ps) -> do_stores V st ps vs p = v.
  Proof.
    induction ps as [|[p0|] ps IH]; intros st vs i p v Hp Hv Hl Hn.
    - destruct i; discriminate.
    - destruct vs as [|v0 vs]; [destruct i; discriminate|]. destruct i as [|i]; simpl in *.
      + injection Hp as ->. injection Hv as ->. rewrite do_stores_other by exact Hn. apply upd_same.
      + eapply IH; try eassumption. lia.
    - destruct vs as [|v0 vs]; [destruct i; discriminate|]. destruct i as [|i]; simpl in *; [discriminate|].
      eapply IH; try eassumption. lia.
  Qed.

  (* Go's two-phase rule: every right-hand side is evaluated in the store as it was BEFORE the statement *)
  Theorem multi_assign_parallel (st : store) ps es i p e :
    length es = length ps -> nth_error ps i = Some (Some p) -> nth_error es i = Some e ->
    ~ In (Some p) (skipn (S i) ps) -> multi_assign V st ps es p = e st.
  Proof.
    intros Hl Hp He Hn. unfold multi_assign, eval_rhs.
    apply (do_stores_at ps st (map (fun e0 => e0 st) es) i p (e st)); try assumption.
    - rewrite nth_error_map, He. reflexivity.
    - rewrite map_length. exact Hl.
  Qed.
  Theorem multi_assign_frame (st : store) ps es q : ~ In (Some q) ps -> multi_assign V st ps es q = st q.
  Proof. intros H. unfold multi_assign. apply do_stores_other. exact H. Qed.

  (* a, b = b, a *)
  Theorem multi_assign_swap (st : store) a b : a <> b ->
    let st' := multi_assign V st [Some a; Some b] [fun s => s b; fun s => s a] in
    st' a = st b /\ st' b = st a /\ forall q, q <> a -> q <> b -> st' q = st q.
  Proof.
    intros Hab. cbv zeta. unfold multi_assign. simpl. repeat split.
    - rewrite upd_other by exact Hab. apply upd_same.
    - apply upd_same.
    - intros q Ha Hb. rewrite upd_other by exact Hb. apply upd_other. exact Ha.
  Qed.
End MultiP.

(* the naive one-by-one loop (the bug the comment in assignment.go describes) does not swap *)
Theorem naive_assign_does_not_swap :
  exists st : store nat,
    naive_assign nat st [Some 0%nat; Some 1%nat] [fun s => s 1%nat; fun s => s 0%nat] 1%nat <> st 0%nat.
Proof. exists (fun q => q). simpl. unfold upd. simpl. discriminate. Qed.

(* ------------------------------------------------------------------ the effect of x OP= v on an IntBind variable *)
Section Effect.
  Variable F : Type.
  Variable fbin : gokind -> binop -> F -> F -> F.
  Variable fcmp : gokind -> binop -> F -> F -> bool.
  Variable fofbits : gokind -> Z -> Z -> F.
  Variable ftobits : gokind -> F -> Z * Z.
  Notation state := (state F).
  Notation frame := (frame F).

  Lemma nth_error_set_nth_other {A} (l : list A) n m a : n <> m -> nth_error (set_nth l n a) m = nth_error l m.
  Proof.
    revert n m; induction l as [|x l IH]; intros [|n] [|m] H; simpl; try reflexivity; try (exfalso; apply H; reflexivity).
    apply IH. intro E. apply H. rewrite E. reflexivity.
  Qed.
  (* frames other than the target are untouched *)
  Lemma get_set_other (s : state) q q' fr : q <> q' -> get_frame F (set_frame F s q fr) q' = get_frame F s q'.
  Proof. intros H. unfold get_frame, set_frame. apply nth_error_set_nth_other. exact H. Qed.

  Lemma load_int k (ints : list Z) idx w : is_integer k = true -> zth ints idx = Some w ->
    load_slot F fofbits k ints idx = Ok (VInt k (GoInt.wrap (ikd k) w)).
  Proof. intros Hk H. unfold load_slot. rewrite H. destruct k; try discriminate; reflexivity. Qed.

  (* x OP= y on slot idx of frame q (IntBind, integer kind): the slot receives the Go result at kind k through the
     narrow store -- every other slot of the frame, every other frame, Vals, Outer, IP are what they were *)
  Lemma binop_arith op k x y : is_shiftop op = false ->
    binop_val F fbin fcmp op (VInt k x) (VInt k y) = arith F k op x y.
  Proof. intros Hs. unfold binop_val. rewrite gokind_beq_refl. destruct op; try discriminate; reflexivity. Qed.

  Theorem int_op_effect op k q idx (fr : frame) w y r (s : state) :
    is_integer k = true -> is_shiftop op = false -> get_frame F s q = Some fr -> zth (fr_ints F fr) idx = Some w ->
    arith F k op (GoInt.wrap (ikd k) w) y = Ok (VInt k r) ->
    int_op F fbin fcmp fofbits ftobits op k q idx (ret F (VInt k y)) s =
    Ok (tt, set_frame F s q (with_ints F fr (set_nth (fr_ints F fr) (Z.to_nat idx) (narrow_store k w r)))).
  Proof.
    intros Hk Hs Hq Hw Ha. unfold int_op, bind, ret, load_ptr, ok_or_panic. rewrite Hq, (load_int k _ idx w Hk Hw).
    rewrite (binop_arith op k _ y Hs), Ha.
    unfold store_slot. rewrite Hq. unfold store_words. rewrite Hw, gokind_beq_refl, Hk. reflexivity.
  Qed.

  (* integer division by zero: the statement panics and stores nothing *)
  Theorem int_op_panic op k q idx (fr : frame) w y p (s : state) :
    is_integer k = true -> is_shiftop op = false -> get_frame F s q = Some fr -> zth (fr_ints F fr) idx = Some w ->
    arith F k op (GoInt.wrap (ikd k) w) y = Panic p ->
    int_op F fbin fcmp fofbits ftobits op k q idx (ret F (VInt k y)) s = Panic p.
  Proof.
    intros Hk Hs Hq Hw Ha. unfold int_op, bind, ret, load_ptr, ok_or_panic. rewrite Hq, (load_int k _ idx w Hk Hw).
    rewrite (binop_arith op k _ y Hs), Ha. reflexivity.
  Qed.
End Effect.

(* C02 -- lemmas about the place operands of a multi-assignment (C02/PlacesModel.v) *)
From Coq Require Import ZArith List Bool Lia.
From Verif Require Import C02.Model C02.ProofB C02.PlacesModel.
Import ListNotations.

Section PlacesP.
  Variable V : Type.

  (* Go's two-phase rule including the operands on the left: the element designated by the i-th place expression
     EVALUATED IN THE OLD STORE receives the i-th right-hand side evaluated in the old store *)
  Theorem multi_assign_places_old (st : store V) pes es i pe p e :
    length es = length pes -> nth_error pes i = Some pe -> pe st = Some p -> nth_error es i = Some e ->
    ~ In (Some p) (skipn (S i) (eval_places V st pes)) -> multi_assign_places V st pes es p = e st.
  Proof.
    intros Hl Hpe Hp He Hn. unfold multi_assign_places.
    apply (multi_assign_parallel V st (eval_places V st pes) es i p e); try assumption.
    - unfold eval_places. rewrite map_length. exact Hl.
    - unfold eval_places. rewrite nth_error_map, Hpe. simpl. rewrite Hp. reflexivity.
  Qed.

  (* slots that no place expression designates in the old store keep their value *)
  Theorem multi_assign_places_frame (st : store V) pes es q :
    ~ In (Some q) (eval_places V st pes) -> multi_assign_places V st pes es q = st q.
  Proof. intros H. unfold multi_assign_places. apply (multi_assign_frame V st (eval_places V st pes) es q H). Qed.

  (* when no place expression reads a slot that the statement assigns, copying or aliasing the operands is the same *)
  Lemma alias_stores_indep : forall pes (st st0 : store V) vs,
    (forall pe, In pe pes -> forall s s' : store V, pe s = pe s') ->
    alias_stores V st pes vs = do_stores V st (eval_places V st0 pes) vs.
  Proof.
    induction pes as [|pe pes IH]; intros st st0 vs H; [reflexivity|].
    destruct vs as [|v vs]; simpl.
    - destruct (pe st0); reflexivity.
    - rewrite (H pe (or_introl eq_refl) st st0). destruct (pe st0).
      + apply IH. intros pe' Hin. apply H. right. exact Hin.
      + apply IH. intros pe' Hin. apply H. right. exact Hin.
  Qed.
End PlacesP.

(* `k, m[k] = 1, 2` with k = 0 (slot 0 holds k, slot 10+j holds m[j]): Go stores 2 into m[0]; the aliasing variant
   stores it into m[1] *)
Theorem alias_assign_differs :
  let st : store nat := fun _ => 0%nat in
  let pes : list (pexpr nat) := [fun _ => Some 0%nat; fun s => Some (10 + s 0%nat)%nat] in
  let es : list (store nat -> nat) := [fun _ => 1%nat; fun _ => 2%nat] in
  multi_assign_places nat st pes es 0%nat = 1%nat /\ multi_assign_places nat st pes es 10%nat = 2%nat /\
  multi_assign_places nat st pes es 11%nat = 0%nat /\
  alias_assign nat st pes es 10%nat = 0%nat /\ alias_assign nat st pes es 11%nat = 2%nat.
Proof. repeat split. Qed.

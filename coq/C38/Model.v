(* C38 — the classic interpreter evaluates the syntax tree directly: on the MiniGo fragment its model IS the
   reference semantics MiniGo.Sem (fuelled big-step evaluation).  Definitions only.
   classic/statement.go evalStatement/evalBlock/evalIf, classic/for.go evalFor (cond; body; post; break/continue
   delivered by panic(eBreak)/panic(eContinue) and caught by the innermost loop or switch), classic/switch.go.
   The documented subset has no goto ("unimplemented: goto") and no labels (break/continue carry a label that no
   loop ever compares): [classic_subset]. *)
From Coq Require Import List ZArith Bool Arith.
From Verif Require Import MiniGo.Syntax MiniGo.Sem.
Import ListNotations.
Open Scope Z_scope.

Definition nolabel (l : option nat) : bool := match l with None => true | Some _ => false end.

Fixpoint classic_subset (s : stmt) : bool :=
  match s with
  | SGoto _ => false
  | SLabeled _ _ => false
  | SBreak l | SContinue l => nolabel l
  | SSeq a b => classic_subset a && classic_subset b
  | SBlock _ b => classic_subset b
  | SIf _ _ t _ e => classic_subset t && classic_subset e
  | SFor _ _ _ _ _ b => classic_subset b
  | SSwitch _ cs => classic_subset_cs cs
  | _ => true
  end
with classic_subset_cs (cs : clauses) : bool :=
  match cs with
  | CNil => true
  | CCons _ _ b _ r => classic_subset b && classic_subset_cs r
  end.

(* ---------- correspondence: observed behaviour of classic.Interp on a MiniGo program ---------- *)
Record case := mkCase {
  c_idx : Z; c_nres : nat; c_prog : stmt; c_fuel : nat;
  c_trace : list Z; c_finals : list Z }.

Fixpoint zs_eqb (a b : list Z) : bool :=
  match a, b with
  | [], [] => true
  | x :: a', y :: b' => Z.eqb x y && zs_eqb a' b'
  | _, _ => false
  end.

Definition finishedb (o : outcome) : bool := match o with ONormal | ORet => true | _ => false end.

Definition case_ok (c : case) : bool :=
  classic_subset (c_prog c) &&
  match exec_func (c_fuel c) (c_nres c) (c_prog c) with
  | Some (o, st, tr) => finishedb o && zs_eqb (rev tr) (c_trace c) && zs_eqb (last st []) (c_finals c)
  | None => false
  end.

Definition mismatches (cs : list case) : list Z :=
  map c_idx (filter (fun c => negb (case_ok c)) cs).

(* C38 — property theorems only: each closed by [exact lemma], followed by Print Assumptions.
   The classic interpreter evaluates the syntax tree directly; on the MiniGo fragment (integer / boolean expressions,
   assignment, blocks with locals, if / else, the three for forms, switch with default anywhere and fallthrough,
   unlabelled break / continue, return) its model is the reference semantics MiniGo.Sem, which the C05 and C38
   harnesses validate against compiled Go.  Typed values (float64, string, slices, maps, structs), calls, closures and
   defer / recover are outside MiniGo: they are covered by the differential run against compiled Go only (partial). *)
From Coq Require Import List ZArith Bool Arith.
From Verif Require Import MiniGo.Syntax MiniGo.Sem MiniGo.Fast C05.Sim C05.Final C38.Model C38.Proof.
Import ListNotations.

(* fuel is only a termination device: a result obtained with fuel n is obtained with every larger fuel
   (statements, statement lists with goto targets, loops, switch clause chains) *)
Theorem C38_sem_fuel_monotone : forall n,
  (forall lbls s st tr r m, exec n lbls s st tr = Some r -> n <= m -> exec m lbls s st tr = Some r) /\
  (forall whole cur st tr r m, blk n whole cur st tr = Some r -> n <= m -> blk m whole cur st tr = Some r) /\
  (forall lbls cond post nb body st tr r m, loop n lbls cond post nb body st tr = Some r -> n <= m ->
     loop m lbls cond post nb body st tr = Some r) /\
  (forall cs st tr r m, clauses_from n cs st tr = Some r -> n <= m -> clauses_from m cs st tr = Some r).
Proof. exact mono_all. Qed.
Print Assumptions C38_sem_fuel_monotone.

(* the reference semantics is a (partial) function of the program and the store: the result does not depend on
   the fuel with which it terminates *)
Theorem C38_sem_deterministic : forall n m lbls s st tr r1 r2,
  exec n lbls s st tr = Some r1 -> exec m lbls s st tr = Some r2 -> r1 = r2.
Proof. exact exec_deterministic. Qed.
Print Assumptions C38_sem_deterministic.

Theorem C38_sem_func_deterministic : forall n m nres body r1 r2,
  exec_func n nres body = Some r1 -> exec_func m nres body = Some r2 -> r1 = r2.
Proof. exact exec_func_deterministic. Qed.
Print Assumptions C38_sem_func_deterministic.

(* the documented subset (no goto, no labels) lies inside the fragment of C05_compile_correct_partial *)
Theorem C38_subset_in_C05_fragment : forall s, classic_subset s = true -> nogoto s = true.
Proof. exact subset_nogoto. Qed.
Print Assumptions C38_subset_in_C05_fragment.

(* Corollary of C05_compile_correct_partial: on the subset, whenever direct evaluation of the tree (the classic
   strategy) terminates normally or by return, the code the fast interpreter compiles halts with the same event
   trace and the same final store (below the frames still pushed at a return), and no other fuel gives the direct
   evaluation another result.  _partial with the exclusions of C05 (goto) plus labels, and the constructs outside
   MiniGo named above. *)
Theorem C38_classic_eq_fast_on_subset_partial : forall nres body fuel o st' tr' code,
  classic_subset body = true ->
  exec_func fuel nres body = Some (o, st', tr') -> finished o ->
  compile_func nres body = Some code ->
  (exists fuel' m, run fuel' code (init_state nres) = Some m /\ m_tr m = tr' /\ exists k, skipn k (m_env m) = st') /\
  (forall fuel2 r2, exec_func fuel2 nres body = Some r2 -> r2 = (o, st', tr')).
Proof. exact classic_eq_fast. Qed.
Print Assumptions C38_classic_eq_fast_on_subset_partial.

(* non-vacuity: a loop with a switch (default in the middle, fallthrough), unlabelled continue from inside the
   switch and break, a block with a local; in the subset, terminates, compiles *)
Definition ex_prog : stmt :=
  SSeq (SFor 1 [SiAssign 0 0 (EConst 0)] (Some (ELt (EVar 0 0) (EConst 4))) [SiAssign 0 0 (EAdd (EVar 0 0) (EConst 1))] 0
     (SSwitch (Some (EVar 0 0))
        (CCons (CCase [EConst 0]) 0 (SEmit (EConst 10)) true
        (CCons CDefault 1 (SSeq (SAssign 0 0 (EConst 5)) (SSeq (SEmit (EVar 0 0)) (SContinue None))) false
        (CCons (CCase [EConst 3; EConst 9]) 0 (SSeq (SEmit (EConst 12)) (SBreak None)) false CNil)))))
  (SSeq (SAssign 0 1 (EConst 42)) SReturn).

Example ex_hyp : classic_subset ex_prog = true /\
  exists o st tr code, exec_func 50 2 ex_prog = Some (o, st, tr) /\ finished o /\ compile_func 2 ex_prog = Some code /\
                       rev tr = [10; 5; 5; 5; 12]%Z /\ st = [[0; 42]%Z].
Proof.
  split; [reflexivity|]. eexists _, _, _, _. split; [vm_compute; reflexivity|].
  split; [right; reflexivity|]. split; [vm_compute; reflexivity|]. split; reflexivity.
Qed.

(* C38 — the reference semantics is a function of the program: fuel monotonicity and determinism. *)
From Coq Require Import List ZArith Bool Arith Lia.
From Verif Require Import MiniGo.Syntax MiniGo.Sem C38.Model.
Import ListNotations.
Open Scope nat_scope.

Definition Mono (n : nat) : Prop :=
  (forall lbls s st tr r m, exec n lbls s st tr = Some r -> n <= m -> exec m lbls s st tr = Some r) /\
  (forall whole cur st tr r m, blk n whole cur st tr = Some r -> n <= m -> blk m whole cur st tr = Some r) /\
  (forall lbls cond post nb body st tr r m, loop n lbls cond post nb body st tr = Some r -> n <= m ->
     loop m lbls cond post nb body st tr = Some r) /\
  (forall cs st tr r m, clauses_from n cs st tr = Some r -> n <= m -> clauses_from m cs st tr = Some r).

Lemma after_block_some nl x r : after_block nl x = Some r -> exists r0, x = Some r0.
Proof. destruct x as [r0|]; [eauto|discriminate]. Qed.

Lemma mono_all : forall n, Mono n.
Proof.
  induction n as [|n IH].
  - repeat split; intros; discriminate.
  - destruct IH as (IHe & IHb & IHl & IHc).
    repeat split.
    + (* exec *)
      intros lbls s st tr r m H Hle. destruct m as [|m]; [lia|]. assert (Hle' : n <= m) by lia.
      destruct s; simpl in H |- *; try exact H.
      * (* SSeq *)
        destruct (exec n [] s1 st tr) as [r1|] eqn:E; [|discriminate].
        rewrite (IHe _ _ _ _ _ m E Hle'). destruct r1 as [[o st1] tr1].
        destruct o; try exact H. now apply IHe.
      * (* SBlock *)
        destruct (after_block_some _ _ _ H) as [r0 E]. rewrite (IHb _ _ _ _ _ m E Hle'). now rewrite E in H.
      * (* SIf *)
        destruct (truthy (eval c st)).
        -- destruct (after_block_some _ _ _ H) as [r0 E]. rewrite (IHb _ _ _ _ _ m E Hle'). now rewrite E in H.
        -- destruct he; [now apply IHe|exact H].
      * (* SFor *)
        destruct (run_simple init (push n0 st) tr) as [st1 tr1].
        destruct (after_block_some _ _ _ H) as [r0 E]. rewrite (IHl _ _ _ _ _ _ _ _ m E Hle'). now rewrite E in H.
      * (* SSwitch *)
        destruct (clauses_from n _ st tr) as [r1|] eqn:E; [|discriminate].
        rewrite (IHc _ _ _ _ m E Hle'). exact H.
      * (* SLabeled *)
        now apply IHe.
    + (* blk *)
      intros whole cur st tr r m H Hle. destruct m as [|m]; [lia|]. assert (Hle' : n <= m) by lia.
      simpl in H |- *.
      destruct (exec n [] cur st tr) as [r1|] eqn:E; [|discriminate].
      rewrite (IHe _ _ _ _ _ m E Hle'). destruct r1 as [[o st1] tr1].
      destruct o; try exact H.
      destruct (find_label l whole); [now apply IHb|exact H].
    + (* loop *)
      intros lbls cond post nb body st tr r m H Hle. destruct m as [|m]; [lia|]. assert (Hle' : n <= m) by lia.
      simpl in H |- *.
      destruct (match cond with Some c => truthy (eval c st) | None => true end); [|exact H].
      destruct (after_block nb (blk n body body (push nb st) tr)) as [r1|] eqn:E; [|discriminate].
      destruct (after_block_some _ _ _ E) as [r0 E0]. rewrite (IHb _ _ _ _ _ m E0 Hle').
      rewrite E0 in E. rewrite E. destruct r1 as [[o st1] tr1].
      destruct o; try exact H.
      * destruct (run_simple post st1 tr1). now apply IHl.
      * destruct (lmatch l lbls); [|exact H]. destruct (run_simple post st1 tr1). now apply IHl.
    + (* clauses_from *)
      intros cs st tr r m H Hle. destruct m as [|m]; [lia|]. assert (Hle' : n <= m) by lia.
      simpl in H |- *. destruct cs as [|k nb body fall rest]; [exact H|].
      destruct (after_block nb (blk n body body (push nb st) tr)) as [r1|] eqn:E; [|discriminate].
      destruct (after_block_some _ _ _ E) as [r0 E0]. rewrite (IHb _ _ _ _ _ m E0 Hle').
      rewrite E0 in E. rewrite E. destruct r1 as [[o st1] tr1].
      destruct o; try exact H. destruct fall; [now apply IHc|exact H].
Qed.

Lemma exec_mono n m lbls s st tr r : exec n lbls s st tr = Some r -> n <= m -> exec m lbls s st tr = Some r.
Proof. apply (mono_all n). Qed.

Lemma blk_mono n m whole cur st tr r : blk n whole cur st tr = Some r -> n <= m -> blk m whole cur st tr = Some r.
Proof. apply (mono_all n). Qed.

Lemma exec_func_mono n m nres body r : exec_func n nres body = Some r -> n <= m -> exec_func m nres body = Some r.
Proof. unfold exec_func. apply blk_mono. Qed.

Lemma exec_deterministic n m lbls s st tr r1 r2 :
  exec n lbls s st tr = Some r1 -> exec m lbls s st tr = Some r2 -> r1 = r2.
Proof.
  intros H1 H2.
  pose proof (exec_mono n (Nat.max n m) _ _ _ _ _ H1 (Nat.le_max_l _ _)) as A.
  pose proof (exec_mono m (Nat.max n m) _ _ _ _ _ H2 (Nat.le_max_r _ _)) as B.
  congruence.
Qed.

Lemma exec_func_deterministic n m nres body r1 r2 :
  exec_func n nres body = Some r1 -> exec_func m nres body = Some r2 -> r1 = r2.
Proof.
  intros H1 H2.
  pose proof (exec_func_mono n (Nat.max n m) _ _ _ H1 (Nat.le_max_l _ _)) as A.
  pose proof (exec_func_mono m (Nat.max n m) _ _ _ H2 (Nat.le_max_r _ _)) as B.
  congruence.
Qed.

(* ---------- the documented subset lies inside the fragment covered by C05's compile-correctness theorem ---------- *)
From Verif Require Import MiniGo.Fast C05.Sim C05.Final.

Lemma subset_nogoto_all :
  (forall s, classic_subset s = true -> nogoto s = true) /\
  (forall cs, classic_subset_cs cs = true -> nogoto_cs cs = true).
Proof.
  apply stmt_clauses_ind; simpl; intros; trivial; try discriminate;
    repeat match goal with
           | H : _ && _ = true |- _ => apply andb_true_iff in H; destruct H
           end;
    try (apply andb_true_iff; split); auto.
Qed.

Lemma subset_nogoto s : classic_subset s = true -> nogoto s = true.
Proof. apply subset_nogoto_all. Qed.

Lemma classic_eq_fast : forall nres body fuel o st' tr' code,
  classic_subset body = true ->
  exec_func fuel nres body = Some (o, st', tr') -> finished o ->
  compile_func nres body = Some code ->
  (exists fuel' m, run fuel' code (init_state nres) = Some m /\ m_tr m = tr' /\ exists k, skipn k (m_env m) = st') /\
  (forall fuel2 r2, exec_func fuel2 nres body = Some r2 -> r2 = (o, st', tr')).
Proof.
  intros nres body fuel o st' tr' code Hs He Hf Hc. split.
  - eapply compile_correct_partial; eauto. now apply subset_nogoto.
  - intros fuel2 r2 H2. eapply exec_func_deterministic; eauto.
Qed.

(* C37 — histories: Add/Del preserve the table invariant, never crash, and refine a set of commands *)
From Coq Require Import List NArith ZArith Bool Lia Sorted Permutation.
From Verif Require Import Common.GoStr Common.ListX C37.Model C37.Proof.
Import ListNotations.
Open Scope Z_scope.

(* ================= sorted vectors: splitting ================= *)
Lemma sorted_app_iff a b :
  sorted (a ++ b) <-> sorted a /\ sorted b /\ (forall x y, In x a -> In y b -> lt_cmd x y).
Proof.
  unfold sorted. induction a as [|x a IH]; simpl.
  - split; [intros H; repeat split; [constructor|exact H|intros ? ? []]|tauto].
  - split.
    + intros H. inversion H as [|? ? S F]; subst. apply IH in S as (Sa & Sb & C).
      apply Forall_app in F as [Fa Fb]. repeat split.
      * constructor; assumption.
      * exact Sb.
      * intros u y [<-|Hu] Hy; [rewrite Forall_forall in Fb; auto|auto].
    + intros (Sa & Sb & C). inversion Sa as [|? ? S F]; subst. constructor.
      * apply IH. repeat split; auto.
      * apply Forall_app. split; [exact F|]. apply Forall_forall. intros y Hy. apply C; auto.
Qed.

Lemma sorted_mid a x b : sorted (a ++ x :: b) ->
  sorted (a ++ b) /\ (forall y, In y a -> lt_cmd y x) /\ (forall y, In y b -> lt_cmd x y).
Proof.
  intros H. apply sorted_app_iff in H as (Sa & Sxb & C).
  inversion Sxb as [|? ? Sb F]; subst. rewrite Forall_forall in F. repeat split.
  - apply sorted_app_iff. repeat split; auto. intros u y Hu Hy. apply C; simpl; auto.
  - intros y Hy. apply C; simpl; auto.
  - exact F.
Qed.

Lemma lt_cmd_neq x y : lt_cmd x y -> cname x <> cname y.
Proof. unfold lt_cmd. intros L E. rewrite E in L. eapply str_lt_irrefl; eauto. Qed.

Lemma sorted_replace a x b c : cname c = cname x -> sorted (a ++ x :: b) -> sorted (a ++ c :: b).
Proof.
  intros E H. apply sorted_app_iff in H as (Sa & Sxb & C).
  inversion Sxb as [|? ? Sb F]; subst. apply sorted_app_iff. repeat split; auto.
  - constructor; [exact Sb|]. eapply Forall_impl; [|exact F]. unfold lt_cmd. simpl. intros; congruence.
  - intros u y Hu [<-|Hy].
    + unfold lt_cmd. rewrite E. apply (C u x); simpl; auto.
    + apply C; simpl; auto.
Qed.

Lemma nth_split_at {A} (v : list A) i x : nth_error v i = Some x ->
  v = firstn i v ++ x :: skipn (S i) v /\ (i < length v)%nat.
Proof.
  revert i; induction v as [|y v IH]; intros [|i] H; simpl in *; try discriminate.
  - inversion H; subst. split; [reflexivity|lia].
  - destruct (IH _ H) as [E L]. split; [f_equal; exact E|lia].
Qed.

Lemma set_nth_split {A} (v : list A) i c : (i < length v)%nat ->
  set_nth v i c = firstn i v ++ c :: skipn (S i) v.
Proof.
  revert i; induction v as [|y v IH]; intros [|i] H; simpl in *; try lia; [reflexivity|].
  f_equal. apply IH. lia.
Qed.

(* ================= insertion sort ================= *)
Lemma insert_perm c v : Permutation (c :: v) (insert_sorted c v).
Proof.
  induction v as [|d v IH]; simpl; [apply Permutation_refl|].
  destruct (str_ltb (cname d) (cname c)); [|apply Permutation_refl].
  eapply Permutation_trans; [apply perm_swap|]. apply perm_skip. exact IH.
Qed.

Lemma insert_sorted_ok c v : sorted v -> (forall d, In d v -> cname d <> cname c) ->
  sorted (insert_sorted c v).
Proof.
  induction 1 as [|d v S IH F]; intros N; simpl.
  - constructor; constructor.
  - destruct (str_ltb (cname d) (cname c)) eqn:L.
    + constructor; [apply IH; intros; apply N; simpl; auto|].
      eapply Permutation_Forall; [apply insert_perm|]. constructor; [|exact F].
      apply str_ltb_lt; exact L.
    + assert (lt_cmd c d) as Lcd.
      { unfold lt_cmd. destruct (str_trichotomy (cname c) (cname d)) as [H|[H|H]]; [exact H| |].
        - exfalso. apply (N d); simpl; auto.
        - apply str_ltb_lt in H. congruence. }
      constructor; [constructor; assumption|]. constructor; [exact Lcd|].
      eapply Forall_impl; [|exact F]. intros y Hy. unfold lt_cmd in *. eapply str_lt_trans; eauto.
Qed.

Lemma sort_cmds_perm l : Permutation l (sort_cmds l).
Proof.
  induction l as [|c l IH]; simpl; [constructor|].
  eapply Permutation_trans; [apply perm_skip; exact IH|apply insert_perm].
Qed.

Lemma sort_cmds_sorted l : NoDup (map cname l) -> sorted (sort_cmds l).
Proof.
  induction l as [|c l IH]; simpl; intros ND; [constructor|].
  inversion ND as [|? ? Hn ND']; subst. apply insert_sorted_ok; [apply IH; exact ND'|].
  intros d Hd E. apply Hn. rewrite <- E. apply in_map.
  eapply Permutation_in; [apply Permutation_sym, sort_cmds_perm|exact Hd].
Qed.

Lemma sorted_NoDup_names v : sorted v -> NoDup (map cname v).
Proof.
  induction 1 as [|x v S IH F]; simpl; constructor; [|exact IH].
  intros H. apply in_map_iff in H as (y & E & Hy). rewrite Forall_forall in F.
  apply (lt_cmd_neq x y); auto.
Qed.

(* ================= removeCmd ================= *)
Lemma overlay_spec {A} (src dst : list A) off : (off + length src <= length dst)%nat ->
  overlay dst off src = firstn off dst ++ src ++ skipn (off + length src) dst.
Proof.
  revert dst src; induction off as [|off IH]; intros dst src H.
  - simpl. revert dst H; induction src as [|s src IHs]; intros dst H.
    + destruct dst; reflexivity.
    + destruct dst as [|d dst]; simpl in *; [lia|]. f_equal. apply IHs. lia.
  - destruct dst as [|d dst]; simpl in *; [lia|]. f_equal. apply IH. lia.
Qed.

Lemma removeCmd_spec vec pos : (pos < length vec)%nat ->
  removeCmd vec pos = firstn pos vec ++ skipn (S pos) vec.
Proof.
  intros L. unfold removeCmd.
  destruct (Nat.eqb_spec pos (length vec - 1)) as [E|NE].
  - rewrite (skipn_all2 vec) by lia. rewrite app_nil_r. reflexivity.
  - destruct (Nat.eqb_spec pos 0) as [->|N0]; [reflexivity|].
    assert (length (skipn (S pos) vec) = length vec - S pos)%nat as Lt by apply skipn_length.
    destruct (Nat.leb_spec (length (skipn (S pos) vec)) pos) as [Q|Q].
    + rewrite overlay_spec by lia. rewrite app_assoc, firstn_app.
      assert (length (firstn pos vec ++ skipn (S pos) vec) = length vec - 1)%nat as Ll.
      { rewrite app_length, firstn_length_le, Lt by lia. lia. }
      rewrite Ll, Nat.sub_diag, firstn_O, app_nil_r. rewrite <- Ll. apply firstn_all.
    + rewrite overlay_spec by (rewrite firstn_length_le by lia; lia).
      rewrite firstn_length_le by lia.
      destruct vec as [|x vec]; [simpl in L; lia|]. reflexivity.
Qed.

(* ================= vector-level effect of Add and Del ================= *)
Lemma bs_false_fresh vec e i : bs_post vec e i false -> forall d, In d vec -> cname d <> e.
Proof.
  intros (_ & _ & Hf) d Hd E. destruct (Hf eq_refl) as [Hlt Hgt].
  apply In_nth_error in Hd as [j Hj]. destruct (Z.lt_ge_cases (Z.of_nat j) i) as [L|G].
  - specialize (Hlt _ _ L Hj). rewrite E in Hlt. eapply str_lt_irrefl; eauto.
  - specialize (Hgt _ _ G Hj). rewrite E in Hgt. eapply str_lt_irrefl; eauto.
Qed.

(* replace in place *)
Lemma vec_replace vec pos x c : sorted vec -> nth_error vec pos = Some x -> cname x = cname c ->
  sorted (set_nth vec pos c) /\
  (forall d, In d (set_nth vec pos c) <-> d = c \/ (In d vec /\ cname d <> cname c)).
Proof.
  intros S Hn E. destruct (nth_split_at _ _ _ Hn) as [Hv L]. rewrite set_nth_split by exact L.
  rewrite Hv in S. split; [apply (sorted_replace _ x); [symmetry; exact E|exact S]|].
  destruct (sorted_mid _ _ _ S) as (_ & Ha & Hb).
  intros d. rewrite Hv at 3. rewrite !in_app_iff. simpl. split.
  - intros [H|[H|H]]; [right|left; auto|right].
    + split; [auto|]. rewrite <- E. apply lt_cmd_neq. auto.
    + split; [auto|]. rewrite <- E. intros Q. apply (lt_cmd_neq x d); auto.
  - intros [->|[[H|[H|H]] N]]; auto. subst d. congruence.
Qed.

(* append + sort *)
Lemma vec_insert vec c : sorted vec -> (forall d, In d vec -> cname d <> cname c) ->
  sorted (sort_cmds (vec ++ [c])) /\
  (forall d, In d (sort_cmds (vec ++ [c])) <-> d = c \/ (In d vec /\ cname d <> cname c)).
Proof.
  intros S N. split.
  - apply sort_cmds_sorted. rewrite map_app. simpl.
    apply (Permutation_NoDup (l := cname c :: map cname vec)); [apply Permutation_cons_append|].
    constructor; [|apply sorted_NoDup_names; exact S].
    intros H. apply in_map_iff in H as (y & E & Hy). apply (N y); auto.
  - intros d. split.
    + intros H. eapply Permutation_in in H; [|apply Permutation_sym, sort_cmds_perm].
      apply in_app_iff in H as [H|[H|[]]]; auto.
    + intros H. eapply Permutation_in; [apply sort_cmds_perm|]. apply in_app_iff.
      destruct H as [->|[H _]]; simpl; auto.
Qed.

(* remove at pos *)
Lemma vec_remove vec pos x : sorted vec -> nth_error vec pos = Some x ->
  sorted (removeCmd vec pos) /\
  (forall d, In d (removeCmd vec pos) <-> In d vec /\ cname d <> cname x).
Proof.
  intros S Hn. destruct (nth_split_at _ _ _ Hn) as [Hv L]. rewrite removeCmd_spec by exact L.
  rewrite Hv in S. destruct (sorted_mid _ _ _ S) as (Sab & Ha & Hb). split; [exact Sab|].
  intros d. rewrite Hv at 3. rewrite !in_app_iff. simpl. split.
  - intros [H|H]; (split; [auto|]).
    + apply lt_cmd_neq; auto.
    + intros Q. apply (lt_cmd_neq x d); auto.
  - intros [[H|[H|H]] N]; auto. subst d. congruence.
Qed.

(* ================= buckets ================= *)
Definition bucket (t : table) (b : N) : list cmd := match tget t b with Some v => v | None => [] end.
Definition other (t : table) (b : N) (d : cmd) : Prop := exists k w, In (k, w) t /\ k <> b /\ In d w.

Lemma tget_none t b : tget t b = None -> forall w, ~ In (b, w) t.
Proof.
  induction t as [|[k v] t IH]; simpl; intros H w; [tauto|].
  destruct (N.eqb_spec k b) as [->|Ne]; [discriminate|].
  intros [Q|Q]; [inversion Q; congruence|]. eapply IH; eauto.
Qed.

Lemma has_split t b d : Inv t -> has t d <-> In d (bucket t b) \/ other t b d.
Proof.
  intros I. rewrite has_iff. unfold bucket, other. split.
  - intros (k & v & Hin & Hd). destruct (N.eq_dec k b) as [->|Ne].
    + left. rewrite (in_tget t b v); [exact Hd|apply I|exact Hin].
    + right. eauto.
  - intros [H|(k & w & Hin & _ & Hd)]; [|eauto].
    destruct (tget t b) as [v|] eqn:E; [|contradiction]. apply tget_in in E. eauto.
Qed.

Lemma bucket_ok t b : Inv t -> sorted (bucket t b) /\ Forall (fun c => hd_error (cname c) = Some b) (bucket t b).
Proof.
  intros I. unfold bucket. destruct (tget t b) as [v|] eqn:E.
  - apply tget_in in E. destruct (Inv_bucket _ _ _ I E) as (_ & S & F). auto.
  - split; constructor.
Qed.

Lemma other_name t b d rest : Inv t -> other t b d -> cname d <> b :: rest.
Proof.
  intros I (k & w & Hin & Ne & Hd) E. destruct (Inv_bucket _ _ _ I Hin) as (_ & _ & F).
  rewrite Forall_forall in F. specialize (F _ Hd). rewrite E in F. simpl in F. congruence.
Qed.

Lemma has_nonempty_name t d : Inv t -> has t d -> cname d <> [].
Proof.
  intros I H E. apply has_iff in H as (k & v & Hin & Hd).
  destruct (Inv_bucket _ _ _ I Hin) as (_ & _ & F). rewrite Forall_forall in F.
  specialize (F _ Hd). rewrite E in F. discriminate.
Qed.

Lemma has_tset_other t b v d : has (tset t b v) d <-> In d v \/ other t b d.
Proof. apply has_tset. Qed.

Lemma has_tdel_other t b d : has (tdel t b) d <-> other t b d.
Proof. apply has_tdel. Qed.

(* ================= Add ================= *)
Lemma add_empty t c : cname c = [] -> add t c = Some (t, false).
Proof. intros E. unfold add. rewrite E. reflexivity. Qed.

Lemma add_spec t c : Inv t -> cname c <> [] ->
  exists t', add t c = Some (t', true) /\ Inv t' /\
    (forall d, has t' d <-> d = c \/ (has t d /\ cname d <> cname c)).
Proof.
  intros I Nc. unfold add. destruct (cname c) as [|b rest] eqn:Ec; [congruence|].
  fold (bucket t b). destruct (bucket_ok t b I) as [S Fb].
  destruct (binarySearch_spec (bucket t b) (b :: rest) S) as (i & ex & -> & Post).
  assert (forall d, other t b d -> cname d <> cname c) as Hoth
    by (intros d Hd; rewrite Ec; eapply other_name; eauto).
  assert (forall v', (forall d, In d v' <-> d = c \/ (In d (bucket t b) /\ cname d <> cname c)) ->
            forall d, has (tset t b v') d <-> d = c \/ (has t d /\ cname d <> cname c)) as Hhas.
  { intros v' Hv' d. rewrite has_tset_other, (has_split t b d I), Hv'.
    specialize (Hoth d). tauto. }
  assert (forall v', sorted v' -> (forall d, In d v' <-> d = c \/ (In d (bucket t b) /\ cname d <> cname c)) ->
            vec_ok b v') as Hok.
  { intros v' Sv' Hv'. split; [|split; [exact Sv'|]].
    - intros E. assert (In c v') as K by (apply Hv'; auto). rewrite E in K. exact K.
    - apply Forall_forall. intros d Hd. apply Hv' in Hd as [->|[Hd _]].
      + rewrite Ec. reflexivity.
      + rewrite Forall_forall in Fb. auto. }
  destruct ex.
  - destruct Post as (_ & Ht & _). destruct (Ht eq_refl) as (x & Hx & Ex).
    rewrite <- Ec in Ex.
    destruct (vec_replace _ _ _ c S Hx Ex) as [S' In'].
    eexists. split; [reflexivity|]. split; [apply Inv_tset; auto|rewrite <- Ec; auto].
  - pose proof (bs_false_fresh _ _ _ Post) as Fresh. rewrite <- Ec in Fresh.
    destruct (vec_insert _ c S Fresh) as [S' In'].
    eexists. split; [reflexivity|]. split; [apply Inv_tset; auto|rewrite <- Ec; auto].
Qed.

(* ================= Del ================= *)
Lemma del_spec t n : Inv t ->
  exists t' r, del t n = Some (t', r) /\ Inv t' /\
    (forall d, has t' d <-> has t d /\ cname d <> n) /\
    (r = true <-> exists d, has t d /\ cname d = n).
Proof.
  intros I. unfold del. destruct n as [|b rest].
  - exists t, false. split; [reflexivity|]. split; [exact I|]. split.
    + intros d. split; [intros H; split; [exact H|eapply has_nonempty_name; eauto]|tauto].
    + split; [discriminate|]. intros (d & Hd & E). exfalso. eapply has_nonempty_name; eauto.
  - assert (forall v, tget t b = Some v \/ (tget t b = None /\ v = []) ->
              (forall d, In d v -> cname d <> b :: rest) ->
              (forall d, has t d <-> has t d /\ cname d <> b :: rest) /\
              (false = true <-> exists d, has t d /\ cname d = b :: rest)) as Hnot.
    { intros v Hv Fresh.
      assert (forall d, has t d -> cname d <> b :: rest) as K.
      { intros d Hd E. destruct (has_first_byte t d b rest I Hd E) as (v' & Hv' & Hdv).
        destruct Hv as [Hv|[Hv _]]; [|congruence]. rewrite Hv in Hv'. inversion Hv'; subst v'.
        apply (Fresh d); auto. }
      split; [intros d; split; [intros H; split; auto|tauto]|].
      split; [discriminate|]. intros (d & Hd & E). exfalso. apply (K d); auto. }
    destruct (tget t b) as [vec|] eqn:Hv.
    + pose proof (tget_in _ _ _ Hv) as Hin. destruct (Inv_bucket _ _ _ I Hin) as (_ & S & Fb).
      destruct (binarySearch_spec vec (b :: rest) S) as (i & ex & -> & Post). destruct ex.
      * destruct Post as (_ & Ht & _). destruct (Ht eq_refl) as (x & Hx & Ex).
        destruct (vec_remove _ _ _ S Hx) as [S' In']. rewrite Ex in In'.
        set (v' := removeCmd vec (Z.to_nat i)) in *.
        assert (bucket t b = vec) as Hb by (unfold bucket; rewrite Hv; reflexivity).
        assert (forall t', (forall d, has t' d <-> In d v' \/ other t b d) ->
                  forall d, has t' d <-> has t d /\ cname d <> b :: rest) as Hhas.
        { intros t' Ht' d. rewrite Ht', (has_split t b d I), Hb, In'. split.
          - intros [[H1 H2]|H]; [auto|]. split; [auto|]. eapply other_name; eauto.
          - intros [[H|H] H2]; auto. }
        assert (exists d, has t d /\ cname d = b :: rest) as Hex.
        { exists x. split; [|exact Ex]. apply has_iff. exists b, vec. split; [exact Hin|].
          eapply nth_error_In; eauto. }
        destruct v' as [|y v''] eqn:Ev.
        -- eexists _, true. split; [reflexivity|]. split; [apply Inv_tdel; exact I|]. split.
           ++ apply Hhas. intros d. rewrite has_tdel_other. simpl. tauto.
           ++ tauto.
        -- eexists _, true. split; [reflexivity|]. split.
           ++ apply Inv_tset; [exact I|]. split; [discriminate|]. split; [exact S'|].
              apply Forall_forall. intros d Hd. apply In' in Hd as [Hd _].
              rewrite Forall_forall in Fb. auto.
           ++ split; [|tauto]. apply Hhas. intros d. apply has_tset_other.
      * exists t, false. split; [reflexivity|]. split; [exact I|].
        apply (Hnot vec); [auto|]. eapply bs_false_fresh; eauto.
    + exists t, false. split; [reflexivity|]. split; [exact I|].
      apply (Hnot []); [auto|]. intros d [].
Qed.

(* ================= lookup never crashes ================= *)
Lemma Inv_nil : Inv [].
Proof. split; constructor. Qed.

Lemma lookup_no_crash t p : Inv t -> lookup t p <> Crash.
Proof.
  intros I E. destruct p as [|b rest]; [discriminate|].
  pose proof (lookup_spec t (b :: rest) I ltac:(discriminate)) as K. rewrite E in K. exact K.
Qed.

Lemma dispatch_no_crash t src : Inv t -> dispatch_cmd t src <> DCrash.
Proof.
  intros I. unfold dispatch_cmd. destruct (split2 (tl src)) as [p a].
  pose proof (lookup_no_crash t p I) as K. destruct (lookup t p); congruence.
Qed.

(* ================= histories ================= *)
Lemma step_Inv t o : Inv t -> Inv (fst (step t o)) /\ snd (step t o) <> RLook Crash /\ snd (step t o) <> RDisp DCrash.
Proof.
  intros I. destruct o as [c|n|p|src]; simpl.
  - destruct (cname c) as [|b rest] eqn:Ec.
    + rewrite add_empty by exact Ec. simpl. split; [exact I|split; [discriminate|discriminate]].
    + destruct (add_spec t c I) as (t' & -> & I' & _); [congruence|]. simpl.
      split; [exact I'|split; [discriminate|discriminate]].
  - destruct (del_spec t n I) as (t' & r & -> & I' & _). simpl.
    split; [exact I'|split; [discriminate|discriminate]].
  - split; [exact I|split; [ |discriminate]]. intros E. inversion E as [E']. eapply lookup_no_crash; eauto.
  - split; [exact I|split; [discriminate|]]. intros E. inversion E as [E']. eapply dispatch_no_crash; eauto.
Qed.

Lemma run_cons t o ops : run t (o :: ops) =
  (fst (run (fst (step t o)) ops), snd (step t o) :: snd (run (fst (step t o)) ops)).
Proof. simpl. destruct (step t o) as [t1 r]. simpl. destruct (run t1 ops). reflexivity. Qed.

Lemma run_Inv ops : forall t, Inv t ->
  Inv (fst (run t ops)) /\ ~ In (RLook Crash) (snd (run t ops)) /\ ~ In (RDisp DCrash) (snd (run t ops)).
Proof.
  induction ops as [|o ops IH]; intros t I; [simpl; auto|].
  rewrite run_cons. simpl. destruct (step_Inv t o I) as (I1 & N1 & N2).
  destruct (IH _ I1) as (I2 & M1 & M2). split; [exact I2|split]; intros [H|H]; auto.
Qed.

Theorem sorted_invariant ops : Inv (run_table ops).
Proof. apply (run_Inv ops [] Inv_nil). Qed.

Theorem no_crash ops : ~ In (RLook Crash) (snd (run [] ops)) /\ ~ In (RDisp DCrash) (snd (run [] ops)).
Proof. apply (run_Inv ops [] Inv_nil). Qed.

Theorem lookup_history ops p : p <> [] -> lookup_ok (run_table ops) p (lookup (run_table ops) p).
Proof. intros Np. apply lookup_spec; [apply sorted_invariant|exact Np]. Qed.

(* ================= abstract specification: a set of commands keyed by name ================= *)
Definition aset := list cmd.
Definition name_is (n : str) (d : cmd) : bool := str_eqb (cname d) n.
Definition a_remove (s : aset) (n : str) : aset := filter (fun d => negb (name_is n d)) s.
Definition a_add (s : aset) (c : cmd) : aset * bool :=
  match cname c with [] => (s, false) | _ => (c :: a_remove s (cname c), true) end.
Definition a_del (s : aset) (n : str) : aset * bool := (a_remove s n, existsb (name_is n) s).

(* the abstract machine answers Add/Del with a boolean and is silent on queries *)
Definition a_step (s : aset) (o : op) : aset * option bool :=
  match o with
  | OAdd c => let '(s', b) := a_add s c in (s', Some b)
  | ODel n => let '(s', b) := a_del s n in (s', Some b)
  | _ => (s, None)
  end.
Fixpoint a_run (s : aset) (ops : list op) : aset * list (option bool) :=
  match ops with
  | [] => (s, [])
  | o :: ops' => let '(s1, r) := a_step s o in let '(s2, rs) := a_run s1 ops' in (s2, r :: rs)
  end.
Definition out_bool (o : out) : option bool := match o with RBool b => Some b | _ => None end.
Definition refines (t : table) (s : aset) : Prop := forall d, has t d <-> In d s.

Lemma a_remove_in s n d : In d (a_remove s n) <-> In d s /\ cname d <> n.
Proof.
  unfold a_remove, name_is. rewrite filter_In. split; intros [H1 H2]; (split; [exact H1|]).
  - intros E. apply str_eqb_eq in E. rewrite E in H2. discriminate.
  - destruct (str_eqb (cname d) n) eqn:E; [|reflexivity]. apply str_eqb_eq in E. contradiction.
Qed.

Lemma step_refines t s o : Inv t -> refines t s ->
  refines (fst (step t o)) (fst (a_step s o)) /\ out_bool (snd (step t o)) = snd (a_step s o).
Proof.
  intros I R. destruct o as [c|n|p|src]; simpl; [| |auto|auto].
  - unfold a_add. destruct (cname c) as [|b rest] eqn:Ec.
    + rewrite add_empty by exact Ec. simpl. auto.
    + destruct (add_spec t c I) as (t' & -> & _ & H); [congruence|]. simpl. split; [|reflexivity].
      intros d. rewrite H. simpl. rewrite a_remove_in, (R d), Ec. split; (intros [Q|Q]; [left; congruence|right; exact Q]).
  - destruct (del_spec t n I) as (t' & r & -> & _ & H & Hr). simpl. split.
    + intros d. rewrite H, a_remove_in, (R d). tauto.
    + f_equal. destruct (existsb (name_is n) s) eqn:E.
      * apply Hr. apply existsb_exists in E as (d & Hd & Q). exists d. split; [apply R; exact Hd|].
        apply str_eqb_eq; exact Q.
      * destruct r; [|reflexivity]. destruct Hr as [Hr _]. destruct (Hr eq_refl) as (d & Hd & Q).
        assert (existsb (name_is n) s = true) as K.
        { apply existsb_exists. exists d. split; [apply R; exact Hd|]. apply str_eqb_eq; exact Q. }
        congruence.
Qed.

Lemma a_run_cons s o ops : a_run s (o :: ops) =
  (fst (a_run (fst (a_step s o)) ops), snd (a_step s o) :: snd (a_run (fst (a_step s o)) ops)).
Proof. simpl. destruct (a_step s o) as [s1 r]. simpl. destruct (a_run s1 ops). reflexivity. Qed.

Lemma run_refines ops : forall t s, Inv t -> refines t s ->
  refines (fst (run t ops)) (fst (a_run s ops)) /\ map out_bool (snd (run t ops)) = snd (a_run s ops).
Proof.
  induction ops as [|o ops IH]; intros t s I R; [simpl; auto|].
  rewrite run_cons, a_run_cons. simpl. destruct (step_refines t s o I R) as [R1 E1].
  destruct (step_Inv t o I) as (I1 & _). destruct (IH _ _ I1 R1) as [R2 E2].
  split; [exact R2|]. rewrite E1, E2. reflexivity.
Qed.

Theorem table_refines_set ops :
  refines (run_table ops) (fst (a_run [] ops)) /\ map out_bool (snd (run [] ops)) = snd (a_run [] ops).
Proof. apply run_refines; [apply Inv_nil|]. intros d. unfold has. simpl. tauto. Qed.

(* ================= dispatch ================= *)
Lemma dispatch_cases t src :
  match lookup t (fst (split2 (tl src))) with
  | Found c => dispatch_cmd t src = RunCmd c (snd (split2 (tl src)))
  | NoMatch => dispatch_cmd t src = EvalAsCode (32%N :: tl src)
  | Ambiguous _ => dispatch_cmd t src = WarnAmbiguous
  | Crash => dispatch_cmd t src = DCrash
  end.
Proof. unfold dispatch_cmd. destruct (split2 (tl src)) as [p a]. simpl. destruct (lookup t p); reflexivity. Qed.

Lemma unknown_is_code t src : lookup t (fst (split2 (tl src))) = NoMatch ->
  dispatch_cmd t src = EvalAsCode (32%N :: tl src).
Proof. intros H. pose proof (dispatch_cases t src) as K. rewrite H in K. exact K. Qed.

Lemma dispatch_runs_found t src c : lookup t (fst (split2 (tl src))) = Found c ->
  dispatch_cmd t src = RunCmd c (snd (split2 (tl src))).
Proof. intros H. pose proof (dispatch_cases t src) as K. rewrite H in K. exact K. Qed.

(* semantic form: when no registered name starts with the typed word, the input is evaluated as code *)
Lemma no_match_lookup t p : Inv t -> (forall d, has t d -> prefixb p (cname d) = false) -> lookup t p = NoMatch.
Proof.
  intros I H. destruct p as [|b rest]; [reflexivity|].
  pose proof (lookup_spec t (b :: rest) I ltac:(discriminate)) as K.
  destruct (lookup t (b :: rest)) as [c| |ns|]; unfold lookup_ok in K; [|reflexivity| |contradiction].
  - destruct K as (Hc & Pc & _). rewrite (H c Hc) in Pc. discriminate.
  - destruct K as (_ & L & _ & Hn). destruct ns as [|n ns]; [simpl in L; lia|].
    destruct (Hn n) as [Q _]. destruct (Q (or_introl eq_refl)) as (d & Hd & E & Pd).
    rewrite <- E, (H d Hd) in Pd. discriminate.
Qed.

Theorem unknown_is_code_history ops src :
  (forall d, has (run_table ops) d -> prefixb (fst (split2 (tl src))) (cname d) = false) ->
  dispatch_cmd (run_table ops) src = EvalAsCode (32%N :: tl src).
Proof. intros H. apply unknown_is_code. apply no_match_lookup; [apply sorted_invariant|exact H]. Qed.

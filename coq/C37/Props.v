(* C37 — property theorems only: each closed by [exact lemma], followed by Print Assumptions. *)
From Coq Require Import List NArith ZArith Bool Sorted.
From Verif Require Import Common.GoStr C37.Model C37.Proof.
Import ListNotations.

(* binarySearch as written returns the position of the exact name, or the insertion point *)
Theorem C37_binarySearch_correct : forall vec e, sorted vec ->
  exists i b, binarySearch vec e = Some (i, b) /\ bs_post vec e i b.
Proof. exact binarySearch_spec. Qed.
Print Assumptions C37_binarySearch_correct.

(* prefixSearch as written (two scan loops after the binary search) = the declarative rule:
   exact name wins, else unique prefix match, else ambiguity listing all matches in order *)
Theorem C37_prefixSearch_is_rule : forall v p, sorted v -> prefixSearch v p = spec_lookup_vec v p.
Proof. exact prefixSearch_spec. Qed.
Print Assumptions C37_prefixSearch_is_rule.

(* full statement of the lookup property on any table satisfying the invariant *)
Theorem C37_lookup_spec : forall t p, Inv t -> p <> [] -> lookup_ok t p (lookup t p).
Proof. exact lookup_spec. Qed.
Print Assumptions C37_lookup_spec.

Theorem C37_names_unique : forall t c d, Inv t -> has t c -> has t d -> cname c = cname d -> c = d.
Proof. exact names_unique. Qed.
Print Assumptions C37_names_unique.

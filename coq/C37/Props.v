(* C37 — property theorems only: each closed by [exact lemma], followed by Print Assumptions. *)
From Coq Require Import List NArith ZArith Bool Sorted.
From Verif Require Import Common.GoStr C37.Model C37.Proof.
Import ListNotations.

(* binarySearch as written returns the position of the exact name, or the insertion point *)
Theorem C37_binarySearch_correct : forall vec e, sorted vec ->
  exists i b, binarySearch vec e = Some (i, b) /\ bs_post vec e i b.
Proof. exact binarySearch_spec. Qed.
Print Assumptions C37_binarySearch_correct.

(* prefixSearch as written (two scan loops after the binary search) = the declarative rule:
   exact name wins, else unique prefix match, else ambiguity listing all matches in order *)
Theorem C37_prefixSearch_is_rule : forall v p, sorted v -> prefixSearch v p = spec_lookup_vec v p.
Proof. exact prefixSearch_spec. Qed.
Print Assumptions C37_prefixSearch_is_rule.

(* full statement of the lookup property on any table satisfying the invariant *)
Theorem C37_lookup_spec : forall t p, Inv t -> p <> [] -> lookup_ok t p (lookup t p).
Proof. exact lookup_spec. Qed.
Print Assumptions C37_lookup_spec.

Theorem C37_names_unique : forall t c d, Inv t -> has t c -> has t d -> cname c = cname d -> c = d.
Proof. exact names_unique. Qed.
Print Assumptions C37_names_unique.

(* ---------------- histories (Proof2.v) ---------------- *)
From Verif Require Import C37.Proof2.
Open Scope N_scope.

(* (a) every history of Add/Del/Lookup/dispatch from the empty table keeps the table invariant:
   bucket keys unique, every bucket non-empty, strictly sorted by name (hence duplicate-free) and
   holding only names that start with the bucket's byte *)
Theorem C37_sorted_invariant : forall ops, Inv (run_table ops).
Proof. exact sorted_invariant. Qed.
Print Assumptions C37_sorted_invariant.

(* (b) no history makes the model hit an index out of range or exhaust the binary-search loop bound *)
Theorem C37_no_crash : forall ops,
  ~ In (RLook Crash) (snd (run [] ops)) /\ ~ In (RDisp DCrash) (snd (run [] ops)).
Proof. exact no_crash. Qed.
Print Assumptions C37_no_crash.

(* removeCmd's two overlapping copies = deleting position pos *)
Theorem C37_removeCmd_is_delete : forall vec pos, (pos < length vec)%nat ->
  removeCmd vec pos = firstn pos vec ++ skipn (S pos) vec.
Proof. exact removeCmd_spec. Qed.
Print Assumptions C37_removeCmd_is_delete.

(* (c) one step: Add *)
Theorem C37_add_updates : forall t c, Inv t -> cname c <> [] ->
  exists t', add t c = Some (t', true) /\ Inv t' /\
    (forall d, has t' d <-> d = c \/ (has t d /\ cname d <> cname c)).
Proof. exact add_spec. Qed.
Print Assumptions C37_add_updates.

Theorem C37_add_empty_name : forall t c, cname c = [] -> add t c = Some (t, false).
Proof. exact add_empty. Qed.
Print Assumptions C37_add_empty_name.

(* (c) one step: Del removes exactly the command named n; the result is true iff it existed *)
Theorem C37_del_updates : forall t n, Inv t ->
  exists t' r, del t n = Some (t', r) /\ Inv t' /\
    (forall d, has t' d <-> has t d /\ cname d <> n) /\
    (r = true <-> exists d, has t d /\ cname d = n).
Proof. exact del_spec. Qed.
Print Assumptions C37_del_updates.

(* (c) histories: the table is, after every history, the same set as the abstract machine's
   (a list of commands with remove-by-name / cons), and the booleans returned by Add/Del agree *)
Theorem C37_table_refines_set : forall ops,
  (forall d, has (run_table ops) d <-> In d (fst (a_run [] ops))) /\
  map out_bool (snd (run [] ops)) = snd (a_run [] ops).
Proof. exact table_refines_set. Qed.
Print Assumptions C37_table_refines_set.

(* (d) the lookup property holds after every history *)
Theorem C37_lookup_history : forall ops p, p <> [] ->
  lookup_ok (run_table ops) p (lookup (run_table ops) p).
Proof. exact lookup_history. Qed.
Print Assumptions C37_lookup_history.

(* (e) Interp.Cmd: an input whose first word matches no command is evaluated as code (the text after
   the command character, with one blank in its place); otherwise exactly the command found runs *)
Theorem C37_unknown_is_code : forall t src, lookup t (fst (split2 (tl src))) = NoMatch ->
  dispatch_cmd t src = EvalAsCode (32 :: tl src).
Proof. exact unknown_is_code. Qed.
Print Assumptions C37_unknown_is_code.

Theorem C37_dispatch_runs_found : forall t src c, lookup t (fst (split2 (tl src))) = Found c ->
  dispatch_cmd t src = RunCmd c (snd (split2 (tl src))).
Proof. exact dispatch_runs_found. Qed.
Print Assumptions C37_dispatch_runs_found.

Theorem C37_unknown_is_code_history : forall ops src,
  (forall d, has (run_table ops) d -> prefixb (fst (split2 (tl src))) (cname d) = false) ->
  dispatch_cmd (run_table ops) src = EvalAsCode (32 :: tl src).
Proof. exact unknown_is_code_history. Qed.
Print Assumptions C37_unknown_is_code_history.

(* ---------------- (f) non-vacuity: a reachable table on which every outcome occurs ---------------- *)
Definition s_env : str := [101;110;118].
Definition s_environ : str := [101;110;118;105;114;111;110].
Definition s_exit : str := [101;120;105;116].
Definition ex_ops : list op := [OAdd (mkCmd s_exit 3); OAdd (mkCmd s_env 1); OAdd (mkCmd s_environ 2)].
Definition ex_t : table := run_table ex_ops.

Example C37_ex_table : ex_t = [(101, [mkCmd s_env 1; mkCmd s_environ 2; mkCmd s_exit 3])].
Proof. vm_compute. reflexivity. Qed.
Example C37_ex_exact_wins : lookup ex_t s_env = Found (mkCmd s_env 1).       (* "env" although "environ" matches too *)
Proof. vm_compute. reflexivity. Qed.
Example C37_ex_unique_prefix : lookup ex_t [101;120] = Found (mkCmd s_exit 3). (* "ex" *)
Proof. vm_compute. reflexivity. Qed.
Example C37_ex_ambiguous : lookup ex_t [101;110] = Ambiguous [s_env; s_environ]. (* "en" *)
Proof. vm_compute. reflexivity. Qed.
Example C37_ex_ambiguous3 : lookup ex_t [101] = Ambiguous [s_env; s_environ; s_exit]. (* "e" *)
Proof. vm_compute. reflexivity. Qed.
Example C37_ex_nomatch : lookup ex_t [101;110;120] = NoMatch /\ lookup ex_t [113] = NoMatch. (* "enx", "q" *)
Proof. vm_compute. split; reflexivity. Qed.
(* ":foo 1+1" -> evaluate " foo 1+1";  ":ex  a b " -> run exit with argument "a b" *)
Example C37_ex_dispatch_code : dispatch_cmd ex_t [58;102;111;111;32;49;43;49] = EvalAsCode [32;102;111;111;32;49;43;49].
Proof. vm_compute. reflexivity. Qed.
Example C37_ex_dispatch_run : dispatch_cmd ex_t [58;101;120;32;32;97;32;98;32] = RunCmd (mkCmd s_exit 3) [97;32;98].
Proof. vm_compute. reflexivity. Qed.
(* after Del "env" the prefix "env" resolves to the only remaining match; re-Add overwrites in place *)
Example C37_ex_del : snd (run [] (ex_ops ++ [ODel s_env; OLookup s_env; ODel s_env; OAdd (mkCmd s_exit 9); OLookup s_exit]))
  = [RBool true; RBool true; RBool true; RBool true; RLook (Found (mkCmd s_environ 2)); RBool false; RBool true; RLook (Found (mkCmd s_exit 9))].
Proof. vm_compute. reflexivity. Qed.

(* C37 — executable model of fast/cmd.go: Cmds (per-first-byte sorted vectors), binarySearch,
   prefixSearch, Lookup, Add, Del, removeCmd, and the dispatch decision of Interp.Cmd.
   Definitions only (no proofs) so the model keeps running when a proof breaks. *)
From Coq Require Import List NArith ZArith Bool.
From Verif Require Import Common.GoStr.
Import ListNotations.
Open Scope Z_scope.

Record cmd := mkCmd { cname : str; cid : N }.   (* cid stands for (Func, Help) *)

(* map[byte][]Cmd as an association list keyed by first byte (keys unique) *)
Definition table := list (N * list cmd).

Fixpoint tget (t : table) (c : N) : option (list cmd) :=
  match t with
  | [] => None
  | (k, v) :: t' => if N.eqb k c then Some v else tget t' c
  end.

Fixpoint tdel (t : table) (c : N) : table :=
  match t with
  | [] => []
  | (k, v) :: t' => if N.eqb k c then tdel t' c else (k, v) :: tdel t' c
  end.

Definition tset (t : table) (c : N) (v : list cmd) : table := (c, v) :: tdel t c.

(* Cmd.Match *)
Definition cmatch (c : cmd) (prefix : str) : Z := match3 (cname c) prefix.

(* binarySearch, as written: lo, hi := 0, len(vec)-1; for lo <= hi {...}; fuel = loop bound *)
Fixpoint bsearch (fuel : nat) (vec : list cmd) (exact : str) (lo hi : Z) : option (Z * bool) :=
  match fuel with
  | O => None
  | S f =>
      if lo <=? hi then
        let mid := (lo + hi) / 2 in
        match nth_error vec (Z.to_nat mid) with
        | None => None (* index out of range: Go would panic *)
        | Some c =>
            match str_cmp (cname c) exact with
            | Lt => bsearch f vec exact (mid + 1) hi
            | Gt => bsearch f vec exact lo (mid - 1)
            | Eq => Some (mid, true)
            end
        end
      else Some (lo, false)
  end.

Definition binarySearch (vec : list cmd) (exact : str) : option (Z * bool) :=
  bsearch (S (length vec)) vec exact 0 (Z.of_nat (length vec) - 1).

Inductive lookup_res :=
| Found (c : cmd)
| NoMatch                       (* io.EOF *)
| Ambiguous (names : list str)  (* errors.New(strings.Join(names, " ")) *)
| Crash.                        (* index out of range / loop bound exceeded: never for reachable tables *)

(* first loop of prefixSearch: for ; lo < n; lo++ { cmp<0: continue; cmp==0: break; else return EOF } *)
Fixpoint skip_less (vec : list cmd) (prefix : str) (lo : nat) : option nat :=
  (* vec is the suffix starting at index lo; returns index of first match, None = io.EOF *)
  match vec with
  | [] => None
  | c :: vec' =>
      let m := cmatch c prefix in
      if m <? 0 then skip_less vec' prefix (S lo)
      else if m =? 0 then Some lo
      else None
  end.

(* second loop: for ; hi < n; hi++ { if Match > 0 break } ; vec is the suffix starting at hi *)
Fixpoint scan_hi (vec : list cmd) (prefix : str) (hi : nat) : nat :=
  match vec with
  | [] => hi
  | c :: vec' => if cmatch c prefix >? 0 then hi else scan_hi vec' prefix (S hi)
  end.

Definition prefixSearch (vec : list cmd) (prefix : str) : lookup_res :=
  match binarySearch vec prefix with
  | None => Crash
  | Some (lo, true) =>       (* the "fix:" commit: exact name wins *)
      match nth_error vec (Z.to_nat lo) with Some c => Found c | None => Crash end
  | Some (lo, false) =>
      let lo0 := Z.to_nat lo in
      match skip_less (skipn lo0 vec) prefix lo0 with
      | None => NoMatch
      | Some lo1 =>
          let hi := scan_hi (skipn (S lo1) vec) prefix (S lo1) in
          if Nat.eqb (S lo1) hi then
            match nth_error vec lo1 with Some c => Found c | None => Crash end
          else Ambiguous (map cname (firstn (hi - lo1) (skipn lo1 vec)))
      end
  end.

Definition lookup (t : table) (prefix : str) : lookup_res :=
  match prefix with
  | [] => NoMatch
  | c :: _ =>
      match tget t c with
      | Some vec => prefixSearch vec prefix
      | None => NoMatch
      end
  end.

(* sortCmdList: sort.Slice by name (trusted to sort; names in a vector are distinct) *)
Fixpoint insert_sorted (c : cmd) (v : list cmd) : list cmd :=
  match v with
  | [] => [c]
  | d :: v' => if str_ltb (cname d) (cname c) then d :: insert_sorted c v' else c :: d :: v'
  end.
Definition sort_cmds (v : list cmd) : list cmd := fold_right insert_sorted [] v.

Fixpoint set_nth {A} (l : list A) (i : nat) (x : A) : list A :=
  match l, i with
  | [], _ => []
  | _ :: l', O => x :: l'
  | y :: l', S i' => y :: set_nth l' i' x
  end.

(* Cmds.Add *)
Definition add (t : table) (c : cmd) : option (table * bool) :=
  match cname c with
  | [] => Some (t, false)
  | b :: _ =>
      let vec := match tget t b with Some v => v | None => [] end in
      match binarySearch vec (cname c) with
      | None => None
      | Some (pos, true) => Some (tset t b (set_nth vec (Z.to_nat pos) c), true)
      | Some (_, false) => Some (tset t b (sort_cmds (vec ++ [c])), true)
      end
  end.

(* copy(dst[off:], src) on lists *)
Fixpoint overlay {A} (dst : list A) (off : nat) (src : list A) : list A :=
  match off, dst with
  | O, _ =>
      match src, dst with
      | s :: src', _ :: dst' => s :: overlay dst' O src'
      | _, _ => dst
      end
  | S off', d :: dst' => d :: overlay dst' off' src
  | S _, [] => []
  end.

(* removeCmd, as written (head/tail copies inside the same backing array) *)
Definition removeCmd (vec : list cmd) (pos : nat) : list cmd :=
  let head := firstn pos vec in
  let n := length vec in
  if Nat.eqb pos (n - 1) then head
  else
    let tail := skipn (S pos) vec in
    if Nat.eqb pos 0 then tail
    else if Nat.leb (length tail) pos
         then firstn (n - 1) (overlay vec pos tail)
         else skipn 1 (overlay vec 1 head).

(* Cmds.Del *)
Definition del (t : table) (name : str) : option (table * bool) :=
  match name with
  | [] => Some (t, false)
  | b :: _ =>
      match tget t b with
      | None => Some (t, false)
      | Some vec =>
          match binarySearch vec name with
          | None => None
          | Some (pos, true) =>
              let vec' := removeCmd vec (Z.to_nat pos) in
              Some (match vec' with [] => tdel t b | _ => tset t b vec' end, true)
          | Some (_, false) => Some (t, false)
          end
      end
  end.

(* Interp.Cmd's decision for an input that starts with the command character *)
Inductive dispatch := RunCmd (c : cmd) (arg : str) | EvalAsCode (src : str) | WarnAmbiguous | DCrash.

(* strings.TrimSpace restricted to ASCII white space (the harness generates ASCII only) *)
Definition is_space (x : N) : bool := N.eqb x 32 || (N.leb 9 x && N.leb x 13).
Fixpoint trim_left (s : str) : str :=
  match s with
  | x :: s' => if is_space x then trim_left s' else s
  | [] => []
  end.
Definition trim_space (s : str) : str := rev (trim_left (rev (trim_left s))).

Fixpoint index_byte (s : str) (sep : N) (i : nat) : option nat :=
  match s with
  | [] => None
  | x :: s' => if N.eqb x sep then Some i else index_byte s' sep (S i)
  end.

(* base/strings.Split2, as written: splits at the first space only if its index is > 0 *)
Definition split2 (s : str) : str * str :=
  match index_byte s 32%N 0 with
  | Some (S i) => (firstn (S i) s, trim_space (skipn (S (S i)) s))
  | _ => (s, [])
  end.

(* src is the trimmed input including the leading command character (Interp.Cmd) *)
Definition dispatch_cmd (t : table) (src : str) : dispatch :=
  let '(prefix, arg) := split2 (tl src) in
  match lookup t prefix with
  | Found c => RunCmd c arg
  | NoMatch => EvalAsCode (32%N :: tl src)
  | Ambiguous _ => WarnAmbiguous
  | Crash => DCrash
  end.

(* operation histories *)
Inductive op := OAdd (c : cmd) | ODel (n : str) | OLookup (p : str) | ODispatch (src : str).
Inductive out := RBool (b : bool) | RLook (r : lookup_res) | RDisp (d : dispatch).

Definition step (t : table) (o : op) : table * out :=
  match o with
  | OAdd c => match add t c with Some (t', b) => (t', RBool b) | None => (t, RLook Crash) end
  | ODel n => match del t n with Some (t', b) => (t', RBool b) | None => (t, RLook Crash) end
  | OLookup p => (t, RLook (lookup t p))
  | ODispatch src => (t, RDisp (dispatch_cmd t src))
  end.

Fixpoint run (t : table) (ops : list op) : table * list out :=
  match ops with
  | [] => (t, [])
  | o :: ops' => let '(t1, r) := step t o in let '(t2, rs) := run t1 ops' in (t2, r :: rs)
  end.

Definition run_table (ops : list op) : table := fst (run [] ops).

(* ---------- correspondence support: compare a model run with observed outputs ---------- *)
Definition cmd_eqb (a b : cmd) := str_eqb (cname a) (cname b) && N.eqb (cid a) (cid b).
Fixpoint strs_eqb (a b : list str) : bool :=
  match a, b with
  | [], [] => true
  | x :: a', y :: b' => str_eqb x y && strs_eqb a' b'
  | _, _ => false
  end.
Definition out_eqb (a b : out) : bool :=
  match a, b with
  | RBool x, RBool y => Bool.eqb x y
  | RLook (Found c), RLook (Found d) => cmd_eqb c d
  | RLook NoMatch, RLook NoMatch => true
  | RLook (Ambiguous x), RLook (Ambiguous y) => strs_eqb x y
  | RDisp (RunCmd c x), RDisp (RunCmd d y) => cmd_eqb c d && str_eqb x y
  | RDisp (EvalAsCode x), RDisp (EvalAsCode y) => str_eqb x y
  | RDisp WarnAmbiguous, RDisp WarnAmbiguous => true
  | _, _ => false
  end.
Fixpoint outs_eqb (a b : list out) : bool :=
  match a, b with
  | [], [] => true
  | x :: a', y :: b' => out_eqb x y && outs_eqb a' b'
  | _, _ => false
  end.

(* final table as a sorted list of (name,id), for comparison with Cmds.List() *)
Definition all_cmds (t : table) : list cmd := concat (map snd t).
Definition listing (t : table) : list cmd := sort_cmds (all_cmds t).
Fixpoint cmds_eqb (a b : list cmd) : bool :=
  match a, b with
  | [], [] => true
  | x :: a', y :: b' => cmd_eqb x y && cmds_eqb a' b'
  | _, _ => false
  end.

Record case := mkCase { c_idx : Z; c_ops : list op; c_outs : list out; c_list : list cmd }.

Definition case_ok (c : case) : bool :=
  let '(t, outs) := run [] (c_ops c) in
  outs_eqb outs (c_outs c) && cmds_eqb (listing t) (c_list c).

Definition mismatches (cs : list case) : list Z :=
  map c_idx (filter (fun c => negb (case_ok c)) cs).

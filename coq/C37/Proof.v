From Coq Require Import List NArith ZArith Bool Lia Sorted Permutation.
From Verif Require Import Common.GoStr Common.ListX C37.Model.
Import ListNotations.
Open Scope Z_scope.

Definition lt_cmd (a b : cmd) : Prop := str_lt (cname a) (cname b).
Definition sorted (v : list cmd) : Prop := StronglySorted lt_cmd v.

Lemma sorted_nth v : sorted v -> forall i j a b, (i < j)%nat ->
  nth_error v i = Some a -> nth_error v j = Some b -> lt_cmd a b.
Proof.
  induction 1 as [|x v S IH F]; intros i j a b L Hi Hj.
  - destruct i; discriminate.
  - destruct j as [|j]; [exfalso; lia|]. destruct i as [|i]; simpl in *.
    + inversion Hi; subst. rewrite Forall_forall in F. apply F. eapply nth_error_In; eauto.
    + apply (IH i j a b); [lia|exact Hi|exact Hj].
Qed.

Lemma nth_error_Z_lt {A} (v : list A) (m : Z) : 0 <= m < Z.of_nat (length v) ->
  exists c, nth_error v (Z.to_nat m) = Some c.
Proof.
  intros H. destruct (nth_error v (Z.to_nat m)) eqn:E; [eauto|].
  apply nth_error_None in E. lia.
Qed.

Definition bs_post (vec : list cmd) (e : str) (i : Z) (b : bool) : Prop :=
  0 <= i <= Z.of_nat (length vec) /\
  (b = true -> exists c, nth_error vec (Z.to_nat i) = Some c /\ cname c = e) /\
  (b = false ->
     (forall j c, Z.of_nat j < i -> nth_error vec j = Some c -> str_lt (cname c) e) /\
     (forall j c, i <= Z.of_nat j -> nth_error vec j = Some c -> str_lt e (cname c))).

Lemma bsearch_spec vec e : sorted vec -> forall fuel lo hi,
  0 <= lo -> hi < Z.of_nat (length vec) -> hi - lo + 1 < Z.of_nat fuel -> lo <= hi + 1 ->
  (forall j c, Z.of_nat j < lo -> nth_error vec j = Some c -> str_lt (cname c) e) ->
  (forall j c, hi < Z.of_nat j -> nth_error vec j = Some c -> str_lt e (cname c)) ->
  exists i b, bsearch fuel vec e lo hi = Some (i, b) /\ bs_post vec e i b.
Proof.
  intros S. induction fuel as [|f IH]; intros lo hi H0 Hn Hf Hle Hlo Hhi; [lia|].
  simpl. destruct (Z.leb_spec lo hi) as [L|L].
  - set (mid := (lo + hi) / 2).
    assert (lo <= mid <= hi) as Hm by (unfold mid; split; [apply Z.div_le_lower_bound|apply Z.div_le_upper_bound]; lia).
    destruct (nth_error_Z_lt vec mid) as [c Hc]; [lia|]. rewrite Hc.
    destruct (str_cmp (cname c) e) eqn:E.
    + exists mid, true. split; [reflexivity|]. split; [lia|]. split; [|discriminate].
      intros _. exists c. split; [exact Hc|]. apply str_cmp_eq; exact E.
    + apply IH; try lia.
      * intros j d Hj Hd. destruct (Z.eq_dec (Z.of_nat j) mid) as [Ej|Nj].
        -- replace j with (Z.to_nat mid) in Hd by lia. congruence.
        -- eapply str_lt_trans; [|exact E].
           eapply (sorted_nth vec S j (Z.to_nat mid)); eauto. lia.
      * exact Hhi.
    + apply IH; try lia.
      * exact Hlo.
      * intros j d Hj Hd. apply str_lt_gt in E. destruct (Z.eq_dec (Z.of_nat j) mid) as [Ej|Nj].
        -- replace j with (Z.to_nat mid) in Hd by lia. congruence.
        -- eapply str_lt_trans; [exact E|].
           eapply (sorted_nth vec S (Z.to_nat mid) j); eauto. lia.
  - exists lo, false. split; [reflexivity|]. split; [lia|]. split; [discriminate|].
    intros _. split; [exact Hlo|]. intros j c Hj Hc. apply (Hhi j c); [lia|exact Hc].
Qed.

Lemma binarySearch_spec vec e : sorted vec ->
  exists i b, binarySearch vec e = Some (i, b) /\ bs_post vec e i b.
Proof.
  intros S. unfold binarySearch. apply bsearch_spec; try lia; try exact S.
  intros j c Hj Hc. assert (nth_error vec j <> None) as K by congruence.
  apply nth_error_Some in K. exfalso. lia.
Qed.

(* ---- sorted vectors and the three-way classification ---- *)
Definition cls (p : str) (c : cmd) : Z := pcls p (cname c).

Lemma cmatch_cls c p : cmatch c p = cls p c.
Proof. apply match3_pcls. Qed.

Lemma sorted_cls_mono p x v : sorted (x :: v) -> Forall (fun y => cls p x <= cls p y) v.
Proof.
  intros S. inversion S as [|? ? _ F]; subst. rewrite Forall_forall in *. intros y Hy.
  apply pcls_mono. apply F. exact Hy.
Qed.

Lemma sorted_tail x v : sorted (x :: v) -> sorted v.
Proof. intros S; inversion S; assumption. Qed.

Lemma sorted_skipn n v : sorted v -> sorted (skipn n v).
Proof.
  revert v; induction n as [|n IH]; intros v S; [exact S|].
  destruct v; [exact S|]. simpl. apply IH. eapply sorted_tail; eauto.
Qed.

Definition matches (p : str) (v : list cmd) : list cmd := filter (fun c => prefixb p (cname c)) v.

Lemma cls0_prefix p c : cls p c = 0 <-> prefixb p (cname c) = true.
Proof. apply pcls_prefix. Qed.

Lemma matches_all_pos p v : Forall (fun y => 0 < cls p y) v -> matches p v = [].
Proof.
  induction 1 as [|y v Hy F IH]; [reflexivity|]. simpl.
  destruct (prefixb p (cname y)) eqn:E; [|exact IH]. apply cls0_prefix in E. lia.
Qed.

(* scan_hi on a sorted suffix: returns start + number of matches, when nothing is < 0 *)
Lemma scan_hi_spec p v : sorted v -> forall hi, Forall (fun y => 0 <= cls p y) v ->
  scan_hi v p hi = (hi + length (matches p v))%nat /\
  firstn (length (matches p v)) v = matches p v.
Proof.
  induction v as [|y v IH]; intros S hi F; simpl; [split; [lia|reflexivity]|].
  rewrite cmatch_cls. inversion F as [|? ? Hy F']; subst.
  destruct (Z.gtb_spec (cls p y) 0) as [G|G].
  - assert (prefixb p (cname y) = false) as E.
    { destruct (prefixb p (cname y)) eqn:E; [|reflexivity]. apply cls0_prefix in E. lia. }
    rewrite E. pose proof (sorted_cls_mono p y v S) as M.
    rewrite matches_all_pos; [simpl; split; [lia|reflexivity]|].
    eapply Forall_impl; [|exact M]. simpl. intros; lia.
  - assert (cls p y = 0) as Z0 by lia. apply cls0_prefix in Z0. rewrite Z0. simpl.
    destruct (IH (sorted_tail _ _ S) (Datatypes.S hi) F') as [A B]. split; [lia|]. f_equal. exact B.
Qed.

(* skip_less on a sorted suffix whose elements are the vector's tail *)
Lemma skip_less_spec p v : sorted v -> forall lo,
  match skip_less v p lo with
  | None => matches p v = []
  | Some k => exists pre m rest, v = pre ++ m :: rest /\ k = (lo + length pre)%nat /\
                Forall (fun y => cls p y < 0) pre /\ cls p m = 0
  end.
Proof.
  induction v as [|y v IH]; intros S lo; simpl; [reflexivity|].
  rewrite cmatch_cls. destruct (Z.ltb_spec (cls p y) 0) as [L|L].
  - specialize (IH (sorted_tail _ _ S) (Datatypes.S lo)).
    assert (prefixb p (cname y) = false) as E.
    { destruct (prefixb p (cname y)) eqn:E; [|reflexivity]. apply cls0_prefix in E. lia. }
    destruct (skip_less v p (Datatypes.S lo)) as [k|].
    + destruct IH as (pre & m & rest & -> & -> & F & M).
      exists (y :: pre), m, rest. repeat split; simpl; auto.
    + rewrite E. exact IH.
  - destruct (Z.eqb_spec (cls p y) 0) as [Z0|NZ].
    + exists [], y, v. repeat split; simpl; auto.
    + assert (prefixb p (cname y) = false) as E.
      { destruct (prefixb p (cname y)) eqn:E; [|reflexivity]. apply cls0_prefix in E. lia. }
      rewrite E. pose proof (sorted_cls_mono p y v S) as M.
      apply matches_all_pos. eapply Forall_impl; [|exact M]. simpl. intros; lia.
Qed.

Lemma matches_app p a b : matches p (a ++ b) = matches p a ++ matches p b.
Proof. apply filter_app. Qed.

Lemma matches_all_neg p v : Forall (fun y => cls p y < 0) v -> matches p v = [].
Proof.
  induction 1 as [|y v Hy F IH]; [reflexivity|]. simpl.
  destruct (prefixb p (cname y)) eqn:E; [|exact IH]. apply cls0_prefix in E. lia.
Qed.

Definition find_name (e : str) (v : list cmd) : option cmd := find (fun c => str_eqb (cname c) e) v.

Definition spec_lookup_vec (v : list cmd) (p : str) : lookup_res :=
  match find_name p v with
  | Some c => Found c
  | None =>
      match matches p v with
      | [] => NoMatch
      | [c] => Found c
      | cs => Ambiguous (map cname cs)
      end
  end.

Lemma find_name_none e v : find_name e v = None <-> forall c, In c v -> cname c <> e.
Proof.
  unfold find_name. split.
  - intros H c Hc E. eapply find_none in H; eauto. simpl in H.
    apply str_eqb_eq in E. congruence.
  - intros H. destruct (find _ v) eqn:E; [|reflexivity]. apply find_some in E as [A B].
    apply str_eqb_eq in B. exfalso. eapply H; eauto.
Qed.

Lemma sorted_find_nth e v i c : sorted v -> nth_error v i = Some c -> cname c = e -> find_name e v = Some c.
Proof.
  intros S. revert i; induction S as [|x v S IH F]; intros i Hi E; [destruct i; discriminate|].
  unfold find_name. simpl. destruct i as [|i]; simpl in Hi.
  - inversion Hi; subst. unfold str_eqb. rewrite str_cmp_refl. reflexivity.
  - destruct (str_eqb (cname x) e) eqn:Q.
    + exfalso. apply str_eqb_eq in Q. rewrite Forall_forall in F.
      apply nth_error_In in Hi. specialize (F _ Hi). unfold lt_cmd in F.
      rewrite Q, E in F. eapply str_lt_irrefl; eauto.
    + eapply IH; eauto.
Qed.

Theorem prefixSearch_spec v p : sorted v -> prefixSearch v p = spec_lookup_vec v p.
Proof.
  intros S. unfold prefixSearch, spec_lookup_vec.
  destruct (binarySearch_spec v p S) as (i & b & -> & Hr & Ht & Hf).
  destruct b.
  - destruct (Ht eq_refl) as (c & Hc & E). rewrite Hc.
    erewrite sorted_find_nth; eauto.
  - destruct (Hf eq_refl) as [Hlt Hgt]. clear Ht Hf.
    assert (find_name p v = None) as FN.
    { apply find_name_none. intros c Hc E. apply In_nth_error in Hc as [j Hj].
      destruct (Z.lt_ge_cases (Z.of_nat j) i) as [L|G].
      - specialize (Hlt _ _ L Hj). rewrite E in Hlt. eapply str_lt_irrefl; eauto.
      - specialize (Hgt _ _ G Hj). rewrite E in Hgt. eapply str_lt_irrefl; eauto. }
    rewrite FN. set (lo0 := Z.to_nat i).
    (* everything before lo0 is < p, hence a non-match *)
    assert (matches p (firstn lo0 v) = []) as Mpre.
    { apply matches_all_neg. apply Forall_forall. intros y Hy.
      apply In_nth_error in Hy as [j Hj].
      assert (j < lo0)%nat as Lj.
      { assert (nth_error (firstn lo0 v) j <> None) as K by congruence.
        apply nth_error_Some in K. rewrite firstn_length in K. lia. }
      rewrite nth_error_firstn in Hj by exact Lj.
      assert (Z.of_nat j < i) as Lz by lia.
      specialize (Hlt _ _ Lz Hj). unfold cls.
      destruct (pcls_range p (cname y)) as [R|[R|R]]; try lia.
      - apply pcls_prefix in R. exfalso. eapply prefix_ge; eauto.
      - exfalso. assert (pcls p (cname y) <> -1) as N1 by lia. apply N1. apply pcls_neg.
        split; [|exact Hlt]. destruct (prefixb p (cname y)) eqn:E; [|reflexivity].
        apply pcls_prefix in E. lia. }
    assert (matches p v = matches p (skipn lo0 v)) as Msplit.
    { rewrite (firstn_skipn_split v lo0) at 1. rewrite matches_app, Mpre. reflexivity. }
    pose proof (skip_less_spec p (skipn lo0 v) (sorted_skipn lo0 v S) lo0) as SL.
    destruct (skip_less (skipn lo0 v) p lo0) as [lo1|].
    + destruct SL as (pre & m & rest & Hv & -> & Fpre & Mm).
      assert (skipn (lo0 + length pre) v = m :: rest) as Hsk.
      { rewrite Nat.add_comm, <- skipn_skipn_add. rewrite Hv. rewrite skipn_app, skipn_all, Nat.sub_diag. reflexivity. }
      assert (sorted (m :: rest)) as Smr by (rewrite <- Hsk; apply sorted_skipn; exact S).
      assert (skipn (Datatypes.S (lo0 + length pre)) v = rest) as Hsk1.
      { replace (Datatypes.S (lo0 + length pre)) with (1 + (lo0 + length pre))%nat by lia.
        rewrite <- skipn_skipn_add. rewrite Hsk. reflexivity. }
      rewrite Hsk1, Hsk.
      assert (Forall (fun y => 0 <= cls p y) rest) as Fr.
      { pose proof (sorted_cls_mono p m rest Smr) as M. eapply Forall_impl; [|exact M].
        simpl. intros; lia. }
      destruct (scan_hi_spec p rest (sorted_tail _ _ Smr) (Datatypes.S (lo0 + length pre)) Fr) as [Hhi Hfirst].
      rewrite Hhi.
      assert (matches p v = m :: matches p rest) as Mv.
      { rewrite Msplit, Hv, matches_app, (matches_all_neg p pre Fpre). simpl.
        apply cls0_prefix in Mm. rewrite Mm. reflexivity. }
      rewrite Mv.
      assert (nth_error v (lo0 + length pre) = Some m) as Hnth.
      { rewrite <- (Nat.add_0_r (lo0 + length pre)), <- nth_error_skipn, Hsk. reflexivity. }
      destruct (matches p rest) as [|m2 ms] eqn:Mr.
      * simpl. rewrite Nat.add_0_r, Nat.eqb_refl, Hnth. reflexivity.
      * simpl length.
        destruct (Nat.eqb_spec (Datatypes.S (lo0 + length pre)) (Datatypes.S (lo0 + length pre) + Datatypes.S (length ms))) as [Q|Q]; [lia|].
        replace (Datatypes.S (lo0 + length pre) + Datatypes.S (length ms) - (lo0 + length pre))%nat
          with (Datatypes.S (Datatypes.S (length ms))) by lia.
        simpl firstn. f_equal. simpl map. f_equal.
        simpl in Hfirst. rewrite Hfirst. reflexivity.
    + rewrite Msplit, SL. reflexivity.
Qed.

(* ================= table invariant ================= *)
Definition vec_ok (k : N) (v : list cmd) : Prop :=
  v <> [] /\ sorted v /\ Forall (fun c => hd_error (cname c) = Some k) v.
Definition Inv (t : table) : Prop :=
  NoDup (map fst t) /\ Forall (fun kv => vec_ok (fst kv) (snd kv)) t.
Definition has (t : table) (c : cmd) : Prop := In c (all_cmds t).

Lemma has_iff t c : has t c <-> exists k v, In (k, v) t /\ In c v.
Proof.
  unfold has, all_cmds. rewrite in_concat. split.
  - intros (v & Hv & Hc). apply in_map_iff in Hv as ([k v'] & E & Hin). simpl in E; subst. eauto.
  - intros (k & v & Hin & Hc). exists v. split; [|exact Hc]. apply in_map_iff. exists (k, v). auto.
Qed.

Lemma tget_in t c v : tget t c = Some v -> In (c, v) t.
Proof.
  induction t as [|[k w] t IH]; simpl; [discriminate|].
  destruct (N.eqb_spec k c); intros H.
  - inversion H; subst. left; reflexivity.
  - right. apply IH. exact H.
Qed.

Lemma in_tget t c v : NoDup (map fst t) -> In (c, v) t -> tget t c = Some v.
Proof.
  induction t as [|[k w] t IH]; simpl; intros ND H; [contradiction|].
  inversion ND as [|? ? Hn ND']; subst. destruct H as [H|H].
  - inversion H; subst. rewrite N.eqb_refl. reflexivity.
  - destruct (N.eqb_spec k c) as [->|_]; [|apply IH; assumption].
    exfalso. apply Hn. apply in_map_iff. exists (c, v). auto.
Qed.

Lemma tdel_in t c k v : In (k, v) (tdel t c) <-> In (k, v) t /\ k <> c.
Proof.
  induction t as [|[k' w] t IH]; simpl; [tauto|].
  destruct (N.eqb_spec k' c) as [->|Ne]; simpl; rewrite IH.
  - split; [tauto|]. intros [[H|H] N0]; [inversion H; congruence|tauto].
  - split; [intros [H|H]; [inversion H; subst; auto|tauto]|tauto].
Qed.

Lemma tdel_keys t c : NoDup (map fst t) -> NoDup (map fst (tdel t c)) /\ ~ In c (map fst (tdel t c)).
Proof.
  induction t as [|[k w] t IH]; simpl; intros ND; [split; [constructor|tauto]|].
  inversion ND as [|? ? Hn ND']; subst. destruct (IH ND') as [A B].
  destruct (N.eqb_spec k c) as [->|Ne]; simpl; [auto|]. split.
  - constructor; [|exact A]. intros H. apply in_map_iff in H as ([k' v'] & E & Hin). simpl in E; subst.
    apply tdel_in in Hin as [Hin _]. apply Hn. apply in_map_iff. exists (k, v'). auto.
  - intros [H|H]; [congruence|auto].
Qed.

Lemma Inv_tdel t c : Inv t -> Inv (tdel t c).
Proof.
  intros [ND F]. split; [apply tdel_keys; exact ND|].
  apply Forall_forall. intros [k v] H. apply tdel_in in H as [H _].
  rewrite Forall_forall in F. apply (F _ H).
Qed.

Lemma Inv_tset t c v : Inv t -> vec_ok c v -> Inv (tset t c v).
Proof.
  intros I V. destruct (Inv_tdel t c I) as [ND F]. destruct I as [ND0 _].
  split; simpl.
  - constructor; [apply tdel_keys; exact ND0|exact ND].
  - constructor; [exact V|exact F].
Qed.

Lemma has_tset t c v d : has (tset t c v) d <-> In d v \/ exists k w, In (k, w) t /\ k <> c /\ In d w.
Proof.
  rewrite has_iff. unfold tset. split.
  - intros (k & w & [H|H] & Hd); [inversion H; subst; auto|].
    apply tdel_in in H as [H N0]. right. eauto.
  - intros [H|(k & w & H & N0 & Hd)].
    + exists c, v. split; [left; reflexivity|exact H].
    + exists k, w. split; [right; apply tdel_in; auto|exact Hd].
Qed.

Lemma has_tdel t c d : has (tdel t c) d <-> exists k w, In (k, w) t /\ k <> c /\ In d w.
Proof.
  rewrite has_iff. split.
  - intros (k & w & H & Hd). apply tdel_in in H as [H N0]. eauto.
  - intros (k & w & H & N0 & Hd). exists k, w. split; [apply tdel_in; auto|exact Hd].
Qed.

Lemma Inv_bucket t k v : Inv t -> In (k, v) t -> vec_ok k v.
Proof. intros [_ F] H. rewrite Forall_forall in F. apply (F _ H). Qed.

Lemma has_first_byte t d b rest : Inv t -> has t d -> cname d = b :: rest ->
  exists v, tget t b = Some v /\ In d v.
Proof.
  intros I H E. apply has_iff in H as (k & v & Hin & Hd).
  destruct (Inv_bucket _ _ _ I Hin) as (_ & _ & F). rewrite Forall_forall in F.
  specialize (F _ Hd). rewrite E in F. simpl in F. inversion F; subst.
  exists v. split; [apply in_tget; [apply I|exact Hin]|exact Hd].
Qed.

Lemma sorted_names_inj v c d : sorted v -> In c v -> In d v -> cname c = cname d -> c = d.
Proof.
  intros S Hc Hd E. apply In_nth_error in Hc as [i Hi]. apply In_nth_error in Hd as [j Hj].
  destruct (Nat.lt_trichotomy i j) as [L|[->|L]].
  - exfalso. pose proof (sorted_nth v S i j c d L Hi Hj) as K. unfold lt_cmd in K. rewrite E in K.
    eapply str_lt_irrefl; eauto.
  - congruence.
  - exfalso. pose proof (sorted_nth v S j i d c L Hj Hi) as K. unfold lt_cmd in K. rewrite E in K.
    eapply str_lt_irrefl; eauto.
Qed.

Lemma names_unique t c d : Inv t -> has t c -> has t d -> cname c = cname d -> c = d.
Proof.
  intros I Hc Hd E. destruct (cname c) as [|b rest] eqn:Ec.
  - exfalso. apply has_iff in Hc as (k & v & Hin & Hcv).
    destruct (Inv_bucket _ _ _ I Hin) as (_ & _ & F). rewrite Forall_forall in F.
    specialize (F _ Hcv). rewrite Ec in F. discriminate.
  - destruct (has_first_byte t c b rest I Hc Ec) as (v & Hv & Hcv).
    destruct (has_first_byte t d b rest I Hd (eq_sym E)) as (v' & Hv' & Hdv).
    rewrite Hv in Hv'. inversion Hv'; subst v'.
    apply tget_in in Hv. destruct (Inv_bucket _ _ _ I Hv) as (_ & S & _).
    eapply sorted_names_inj; eauto. congruence.
Qed.

(* ================= lookup ================= *)
Definition lookup_ok (t : table) (p : str) (r : lookup_res) : Prop :=
  match r with
  | Found c => has t c /\ prefixb p (cname c) = true /\
               (cname c = p \/ forall d, has t d -> prefixb p (cname d) = true -> d = c)
  | NoMatch => forall d, has t d -> prefixb p (cname d) = false
  | Ambiguous ns =>
      (forall d, has t d -> cname d <> p) /\ (2 <= length ns)%nat /\ StronglySorted str_lt ns /\
      (forall n, In n ns <-> exists d, has t d /\ cname d = n /\ prefixb p n = true)
  | Crash => False
  end.

Lemma prefix_first_byte p b rest x : p = b :: rest -> prefixb p x = true -> hd_error x = Some b.
Proof. intros -> H. destruct x; simpl in *; [discriminate|]. apply andb_true_iff in H as [H _]. apply N.eqb_eq in H. subst; reflexivity. Qed.

Lemma matches_in p v c : In c (matches p v) <-> In c v /\ prefixb p (cname c) = true.
Proof. unfold matches. apply filter_In. Qed.

Lemma sorted_matches p v : sorted v -> sorted (matches p v).
Proof.
  induction 1 as [|x v S IH F]; simpl; [constructor|].
  destruct (prefixb p (cname x)); [|exact IH]. constructor; [exact IH|].
  rewrite Forall_forall in *. intros y Hy. apply matches_in in Hy as [Hy _]. apply F; exact Hy.
Qed.

Lemma sorted_map_names v : sorted v -> StronglySorted str_lt (map cname v).
Proof.
  induction 1 as [|x v S IH F]; simpl; constructor; [exact IH|].
  rewrite Forall_forall in *. intros n Hn. apply in_map_iff in Hn as (y & <- & Hy). apply F; exact Hy.
Qed.

Lemma lookup_vec_ok t p b rest v : Inv t -> p = b :: rest -> tget t b = Some v ->
  lookup_ok t p (spec_lookup_vec v p).
Proof.
  intros I Ep Hv. pose proof (tget_in _ _ _ Hv) as Hin.
  destruct (Inv_bucket _ _ _ I Hin) as (_ & S & Fb).
  assert (forall d, In d v -> has t d) as Hhas by (intros d Hd; apply has_iff; eauto).
  assert (forall d, has t d -> prefixb p (cname d) = true -> In d v) as Hback.
  { intros d Hd Pd. pose proof (prefix_first_byte p b rest _ Ep Pd) as Hb.
    destruct (cname d) as [|b' r'] eqn:Ed; [discriminate|]. simpl in Hb. inversion Hb; subst b'.
    destruct (has_first_byte t d b r' I Hd Ed) as (v' & Hv' & Hdv). congruence. }
  unfold spec_lookup_vec. destruct (find_name p v) as [c|] eqn:FN.
  - unfold find_name in FN. apply find_some in FN as [Hc E]. apply str_eqb_eq in E. simpl.
    split; [auto|]. split; [rewrite E; apply prefixb_refl|left; exact E].
  - assert (forall d, has t d -> cname d <> p) as Hno.
    { intros d Hd E. rewrite find_name_none in FN. apply (FN d); [|exact E].
      apply Hback; [exact Hd|]. rewrite E. apply prefixb_refl. }
    destruct (matches p v) as [|c [|c2 cs]] eqn:M.
    + simpl. intros d Hd. destruct (prefixb p (cname d)) eqn:Pd; [|reflexivity].
      exfalso. assert (In d (matches p v)) as K by (apply matches_in; auto). rewrite M in K. exact K.
    + simpl. assert (In c (matches p v)) as K by (rewrite M; left; reflexivity).
      apply matches_in in K as [Kc Kp]. split; [auto|]. split; [exact Kp|]. right.
      intros d Hd Pd. assert (In d (matches p v)) as K by (apply matches_in; auto).
      rewrite M in K. destruct K as [K|[]]. auto.
    + unfold lookup_ok. rewrite <- M. split; [exact Hno|]. split; [rewrite M; simpl; lia|]. split.
      * apply sorted_map_names. apply sorted_matches. exact S.
      * intros n. rewrite in_map_iff. split.
        -- intros (d & <- & Hd). apply matches_in in Hd as [Hd Pd]. exists d. auto.
        -- intros (d & Hd & <- & Pd). exists d. split; [reflexivity|]. apply matches_in. auto.
Qed.

Theorem lookup_spec t p : Inv t -> p <> [] -> lookup_ok t p (lookup t p).
Proof.
  intros I Np. destruct p as [|b rest]; [congruence|]. unfold lookup.
  destruct (tget t b) as [v|] eqn:Hv.
  - rewrite prefixSearch_spec.
    + eapply lookup_vec_ok; eauto.
    + apply tget_in in Hv. apply (Inv_bucket _ _ _ I Hv).
  - unfold lookup_ok. intros d Hd. destruct (prefixb (b :: rest) (cname d)) eqn:Pd; [|reflexivity].
    exfalso. pose proof (prefix_first_byte (b :: rest) b rest _ eq_refl Pd) as Hb.
    destruct (cname d) as [|b' r'] eqn:Ed; [discriminate|]. simpl in Hb. inversion Hb; subst b'.
    destruct (has_first_byte t d b r' I Hd Ed) as (v' & Hv' & _). congruence.
Qed.

(* C07 -- how a defer statement reaches Go's defer stack: the SigDefer hand-over in fast/code.go reExecWithFlags.
   Definitions only.

   [mc_acts] (Model.v) treats `defer f()` as one step that pushes the call on the activation's defer list.  In the code the
   statement only stores the call in Run.InstallDefer, sets Run.Signals.Sync = SigDefer and returns Run.Interrupt; the
   executor loop of the activation must notice the signal and execute `defer rundefer(fun)`:

     fast half   for j := 0; j < 5; j++ { up to 14 statements while stmt != nil;
                   for Sync == SigDefer { Sync = SigNone; defer rundefer(InstallDefer); stmt = env.Code[env.IP] } ... continue }
     steady half run.Interrupt = spinInterrupt
                 for { 15 statements (after a defer statement the remaining slots run spinInterrupt, a no-op while Sync != SigNone);
                       for Sync == SigDefer { Sync = SigNone; defer rundefer(InstallDefer); stmt = env.Code[env.IP]; stmt, env = stmt(env) }
                       if !Signals.IsEmpty() { goto signal } }          (signal: ... return)

   The phases and their successor function are those of C13.Model (PPro j p / PSteady p / PSingle, [advance]), which the C13
   correspondence run ties to the real loop.  A frame is seen as the list of the statements it executes, in execution
   order (loops unrolled by the execution itself): plain statements (anything that returns the next statement: assignments,
   calls, jumps ...), defer statements, and the return statement.

   [strict = true]  : the code that exists (`for Sync == SigDefer` in both halves).
   [strict = false] : the steady half tests the signal once (`if` instead of `for`): kept for the refutation. *)
From Coq Require Import List Arith Bool.
Require Verif.C13.Model.
Import ListNotations.

Module E := Verif.C13.Model.

Section Deliver.
Variable D : Type.          (* what a defer statement installs (Run.InstallDefer) *)

Inductive skd := DPlain | DDefer (d : D) | DRet.

Inductive outcome :=
| Returned       (* the return statement ran: Sync = SigReturn, goto signal, return *)
| EarlyExit      (* goto signal with Sync = SigDefer still set: the activation returns before its return statement *)
| OutOfCode.     (* (the list ended without a return statement) *)

Record fres := mkF {
  f_defers : list D;     (* Go's defer stack of the activation, most recent first: `defer rundefer(fun)` executed so far *)
  f_done : nat;          (* statements executed *)
  f_out : outcome }.

Fixpoint deliver (strict : bool) (ph : E.phase) (l : list skd) (ds : list D) (n : nat) : fres :=
  match l with
  | [] => mkF ds n OutOfCode
  | DRet :: _ => mkF ds (S n) Returned
  | DPlain :: l' => deliver strict (fst (E.advance ph E.SkCont)) l' ds (S n)
  | DDefer d :: l' =>
      match ph, strict with
      | E.PSingle, false =>
          (* single-stepped inside `if Sync == SigDefer {...}`: the statement sets SigDefer again, nobody looks:
             `if !Signals.IsEmpty() { goto signal }` ends the activation; d is never registered *)
          mkF ds (S n) EarlyExit
      | _, _ => deliver strict (fst (E.advance ph E.SkDefer)) l' (d :: ds) (S n)
      end
  end.

Definition exec_frame (strict : bool) (l : list skd) : fres := deliver strict E.ph0 l [] 0.

Fixpoint defers_of (l : list skd) : list D :=
  match l with
  | [] => []
  | DDefer d :: l' => d :: defers_of l'
  | _ :: l' => defers_of l'
  end.

Definition no_ret (l : list skd) : Prop := forall x, In x l -> x <> DRet.

End Deliver.

Arguments DPlain {D}.
Arguments DDefer {D} d.
Arguments DRet {D}.
Arguments mkF {D}.
Arguments f_defers {D}.
Arguments f_done {D}.
Arguments f_out {D}.
Arguments deliver {D}.
Arguments exec_frame {D}.
Arguments defers_of {D}.
Arguments no_ret {D}.

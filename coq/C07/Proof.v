(* C07 — lemmas. *)
From Coq Require Import List ZArith Bool Arith Lia.
From Verif Require Import C07.Model.
Import ListNotations.
Open Scope Z_scope.

(* ---------- callRecover: exactly when the panic value is returned ---------- *)
Lemma call_recover_spec g v :
  fst (call_recover g) = Some v <->
  gIsDefer g = true /\ gPanic g = Some v /\ exists pf, gPanicFun g = Some pf /\ gDeferOf g = Some pf.
Proof.
  unfold call_recover. destruct g as [pn pf df isd sd nx]; simpl. destruct isd; simpl.
  - destruct pf as [pf|]; simpl.
    + destruct df as [d|]; simpl.
      * destruct (Nat.eqb_spec d pf) as [->|Hne]; simpl.
        -- split; [intros ->; repeat split; eauto|]. intros (_ & H & _). exact H.
        -- split; [discriminate|]. intros (_ & _ & x & Hx & Hy). inversion Hx; inversion Hy; subst. congruence.
      * split; [discriminate|]. intros (_ & _ & x & _ & Hy). discriminate.
    + split; [discriminate|]. intros (_ & _ & x & Hx & _). discriminate.
  - split; [discriminate|]. intros (H & _). discriminate.
Qed.

(* a successful recover consumes the panic: Panic and PanicFun are cleared, so maybeRepanic does not re-panic *)
Lemma call_recover_consumes g v :
  fst (call_recover g) = Some v -> gPanicFun (snd (call_recover g)) = None /\ gPanic (snd (call_recover g)) = None.
Proof.
  unfold call_recover. destruct g as [pn pf df isd sd nx]; simpl. destruct isd; simpl; [|discriminate].
  destruct pf as [pf|]; simpl; [|discriminate].
  destruct (negb (onat_eqb df (Some pf))); simpl; [discriminate|]. auto.
Qed.

(* an unsuccessful recover changes nothing: the panic continues *)
Lemma call_recover_nil_unchanged g : fst (call_recover g) = None -> gPanic g <> None \/ True -> 
  gPanicFun (snd (call_recover g)) = gPanicFun g \/ gPanic g = None.
Proof.
  unfold call_recover. destruct g as [pn pf df isd sd nx]; simpl. destruct isd; simpl; [|auto].
  destruct pf as [pf|]; simpl; [|auto].
  destruct (negb (onat_eqb df (Some pf))); simpl; [auto|]. intros ->. auto.
Qed.

(* the deferred call started by rundefer(fun) while panicking with v: recover() called directly in its body *)
Lemma recover_direct g fid v :
  let g1 := push_defer fid true (set_panic (Some v) g) in
  let '(_, _, ge) := enter g1 in
  fst (call_recover ge) = Some v.
Proof.
  destruct g as [pn pf df isd sd nx]. simpl. unfold call_recover. simpl. rewrite Nat.eqb_refl. reflexivity.
Qed.

(* one call deeper: the activation of any function entered while StartDefer is clear has IsDefer = false,
   so recover() returns nil and leaves the Run state untouched *)
Lemma recover_deeper g :
  gStartDefer g = false ->
  let '(_, _, ge) := enter g in call_recover ge = (None, ge).
Proof.
  destruct g as [pn pf df isd sd nx]. simpl. intros ->. reflexivity.
Qed.

(* entering an activation consumes StartDefer: everything the deferred function calls is "one call deeper" *)
Lemma enter_clears_start g : let '(_, _, ge) := enter g in gStartDefer ge = false.
Proof. destruct g; reflexivity. Qed.

(* the same function called by the frame's normal return (not panicking): nothing to recover *)
Lemma recover_not_panicking g fid :
  gPanicFun g = None ->
  let g1 := push_defer fid false g in
  let '(_, _, ge) := enter g1 in
  fst (call_recover ge) = None.
Proof.
  destruct g as [pn pf df isd sd nx]. simpl. intros ->. reflexivity.
Qed.

(* ---------- LIFO: deferred closures of one activation run in reverse order of installation ---------- *)
Definition emit_clo (k : Z) : act := ADeferClo [AEmit k].

Lemma m_acts_install P ks : forall n r ds g tr, (length ks < n)%nat ->
  m_acts n P (map emit_clo ks) r ds g tr = Some (RNormal, r, rev (map (fun k => DClo [AEmit k]) ks) ++ ds, g, tr).
Proof.
  induction ks as [|k ks IH]; intros n r ds g tr Hn; destruct n as [|n]; simpl in *; try lia.
  - reflexivity.
  - rewrite IH by lia. rewrite <- app_assoc. reflexivity.
Qed.

Lemma m_frame_emit n P k r pn pf df isd sd nx tr : (3 <= n)%nat ->
  m_frame n P [AEmit k] r (mkG pn pf df isd sd nx) tr
  = Some (RNormal, r, leave nx isd (mkG pn pf df sd false (S nx)), k :: tr).
Proof. intros H. destruct n as [|[|[|n]]]; try lia. reflexivity. Qed.

(* not panicking: each deferred emit-closure runs, in list order; the Run flags are restored *)
Lemma m_defers_emit P fid ks : forall n r g tr, (length ks + 4 < n)%nat ->
  gPanicFun g = None -> gStartDefer g = false ->
  exists g', m_defers n P fid (map (fun k => DClo [AEmit k]) ks) r false false None g tr
             = Some (None, r, g', rev ks ++ tr) /\
             gPanicFun g' = None /\ gStartDefer g' = false /\ gIsDefer g' = gIsDefer g /\ gDeferOf g' = gDeferOf g
             /\ gPanic g' = gPanic g.
Proof.
  induction ks as [|k ks IH]; intros n r g tr Hn Hpf Hsd.
  - destruct n; [simpl in Hn; lia|]. simpl. exists g. repeat split; assumption.
  - destruct n as [|n]; [simpl in Hn; lia|].
    destruct g as [pn pf df isd sd nx]. simpl in Hpf, Hsd. subst pf sd.
    simpl map. simpl m_defers. unfold push_defer. simpl.
    rewrite m_frame_emit by (simpl in Hn; lia). simpl.
    edestruct (IH n r (mkG pn None df isd false (S nx)) (k :: tr)) as (g' & Hm & H1 & H2 & H3 & H4 & H5);
      [simpl in *; lia|reflexivity|reflexivity|].
    exists g'. split.
    + unfold pop_defer, leave. simpl. rewrite Hm. rewrite <- app_assoc. reflexivity.
    + simpl in *. repeat split; assumption.
Qed.

Theorem defer_lifo P0 ks n : (length ks + 6 < n)%nat ->
  m_run n (map emit_clo ks :: P0) 0 = Some (RNormal, 0, ks).
Proof.
  intros Hn. unfold m_run, mc_run. destruct n as [|n]; [lia|]. simpl mc_frame. unfold body_of. simpl nth.
  rewrite m_acts_install by lia. rewrite app_nil_r, <- map_rev.
  edestruct (m_defers_emit (map emit_clo ks :: P0) 0%nat (rev ks) n 0 (mkG None None None false false 1) [])
    as (g' & Hm & _); [rewrite rev_length; lia|reflexivity|reflexivity|].
  simpl pan_of. rewrite Hm. rewrite rev_involutive, app_nil_r. reflexivity.
Qed.

(* the reference semantics says the same *)
Lemma sem_acts_install P ks : forall n r ds cur tr, (length ks < n)%nat ->
  sem_acts n P (map emit_clo ks) r ds cur tr = Some (RNormal, r, rev (map (fun k => DClo [AEmit k]) ks) ++ ds, cur, tr).
Proof.
  induction ks as [|k ks IH]; intros n r ds cur tr Hn; destruct n as [|n]; simpl in *; try lia.
  - reflexivity.
  - rewrite IH by lia. rewrite <- app_assoc. reflexivity.
Qed.

Lemma sem_defers_emit P ks : forall n r tr, (length ks + 4 < n)%nat ->
  sem_defers n P (map (fun k => DClo [AEmit k]) ks) r None tr = Some (None, r, rev ks ++ tr).
Proof.
  induction ks as [|k ks IH]; intros n r tr Hn.
  - destruct n; [simpl in Hn; lia|]. reflexivity.
  - destruct n as [|n]; [simpl in Hn; lia|]. simpl map. simpl sem_defers.
    assert (E : sem_frame n P [AEmit k] r None tr = Some (RNormal, r, None, k :: tr)).
    { destruct n as [|[|[|n]]]; try (simpl in Hn; lia). reflexivity. }
    rewrite E. rewrite IH by (simpl in Hn; lia). simpl. rewrite <- app_assoc. reflexivity.
Qed.

Theorem defer_lifo_sem P0 ks n : (length ks + 6 < n)%nat ->
  sem_run n (map emit_clo ks :: P0) 0 = Some (RNormal, 0, ks).
Proof.
  intros Hn. unfold sem_run. destruct n as [|n]; [lia|]. simpl sem_frame. unfold body_of. simpl nth.
  rewrite sem_acts_install by lia. rewrite app_nil_r, <- map_rev. simpl pan_of.
  rewrite sem_defers_emit by (rewrite rev_length; lia). rewrite rev_involutive, app_nil_r. reflexivity.
Qed.

(* ---------- named results, nested panics: closed forms for all values ---------- *)
Lemma named_result_after_recover a b v :
  m_run 20 [[ADeferClo [ARecover; AAddR b]; ASetR a; APanic v]] 0 = Some (RNormal, a + b, [1000 + v]) /\
  sem_run 20 [[ADeferClo [ARecover; AAddR b]; ASetR a; APanic v]] 0 = Some (RNormal, a + b, [1000 + v]).
Proof. split; reflexivity. Qed.

Lemma named_result_normal_return a b c :
  m_run 20 [[ADeferClo [AAddR b]; ADeferClo [ASetR c]; ASetR a]] 0 = Some (RNormal, c + b, []) /\
  sem_run 20 [[ADeferClo [AAddR b]; ADeferClo [ASetR c]; ASetR a]] 0 = Some (RNormal, c + b, []).
Proof. split; reflexivity. Qed.

Lemma panic_in_deferred_replaces v w :
  m_run 20 [[ADeferClo [ARecover]; ADeferClo [APanic w]; APanic v]] 0 = Some (RNormal, 0, [1000 + w]) /\
  sem_run 20 [[ADeferClo [ARecover]; ADeferClo [APanic w]; APanic v]] 0 = Some (RNormal, 0, [1000 + w]).
Proof. split; reflexivity. Qed.

Lemma unrecovered_panic_escapes v k :
  m_run 20 [[ADeferClo [AEmit k; ARecoverDeep]; APanic v]] 0 = Some (RPanic v, 0, [-1; k]) /\
  sem_run 20 [[ADeferClo [AEmit k; ARecoverDeep]; APanic v]] 0 = Some (RPanic v, 0, [-1; k]).
Proof. split; reflexivity. Qed.

(* finding C07-1: an inner panic raised and recovered inside a deferred call swallows the outer panic *)
Definition k1 : prog := [[ADeferClo [ADeferClo [ARecover]; APanic 2]; APanic 1]].

(* before the fix (fx = false) the modelled executor returned normally; with restorePanic it agrees with Go *)
Lemma nested_recovered_refuted_before_fix :
  sem_run 30 k1 0 = Some (RPanic 1, 0, [1002]) /\ mc_run false 30 k1 0 = Some (RNormal, 0, [1002]).
Proof. split; reflexivity. Qed.

Lemma nested_recovered_fixed :
  sem_run 30 k1 0 = Some (RPanic 1, 0, [1002]) /\ m_run 30 k1 0 = Some (RPanic 1, 0, [1002]).
Proof. split; reflexivity. Qed.

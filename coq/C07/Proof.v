(* C07 — lemmas. *)
From Coq Require Import List ZArith Bool Arith Lia.
From Verif Require Import C07.Model.
Import ListNotations.
Open Scope Z_scope.

(* ---------- callRecover: exactly when the panic value is returned ---------- *)
Lemma call_recover_spec g v :
  fst (call_recover g) = Some v <->
  gIsDefer g = true /\ gPanic g = Some v /\ exists pf, gPanicFun g = Some pf /\ gDeferOf g = Some pf.
Proof.
  unfold call_recover. destruct g as [pn pf df isd sd nx]; simpl. destruct isd; simpl.
  - destruct pf as [pf|]; simpl.
    + destruct df as [d|]; simpl.
      * destruct (Nat.eqb_spec d pf) as [->|Hne]; simpl.
        -- split; [intros ->; repeat split; eauto|]. intros (_ & H & _). exact H.
        -- split; [discriminate|]. intros (_ & _ & x & Hx & Hy). inversion Hx; inversion Hy; subst. congruence.
      * split; [discriminate|]. intros (_ & _ & x & _ & Hy). discriminate.
    + split; [discriminate|]. intros (_ & _ & x & Hx & _). discriminate.
  - split; [discriminate|]. intros (H & _). discriminate.
Qed.

(* a successful recover consumes the panic: Panic and PanicFun are cleared, so maybeRepanic does not re-panic *)
Lemma call_recover_consumes g v :
  fst (call_recover g) = Some v -> gPanicFun (snd (call_recover g)) = None /\ gPanic (snd (call_recover g)) = None.
Proof.
  unfold call_recover. destruct g as [pn pf df isd sd nx]; simpl. destruct isd; simpl; [|discriminate].
  destruct pf as [pf|]; simpl; [|discriminate].
  destruct (negb (onat_eqb df (Some pf))); simpl; [discriminate|]. auto.
Qed.

(* an unsuccessful recover changes nothing: the panic continues *)
Lemma call_recover_nil_unchanged g : fst (call_recover g) = None -> gPanic g <> None \/ True -> 
  gPanicFun (snd (call_recover g)) = gPanicFun g \/ gPanic g = None.
Proof.
  unfold call_recover. destruct g as [pn pf df isd sd nx]; simpl. destruct isd; simpl; [|auto].
  destruct pf as [pf|]; simpl; [|auto].
  destruct (negb (onat_eqb df (Some pf))); simpl; [auto|]. intros ->. auto.
Qed.

(* the deferred call started by rundefer(fun) while panicking with v: recover() called directly in its body *)
Lemma recover_direct g fid v :
  let g1 := push_defer fid true (set_panic (Some v) g) in
  let '(_, _, ge) := enter g1 in
  fst (call_recover ge) = Some v.
Proof.
  destruct g as [pn pf df isd sd nx]. simpl. unfold call_recover. simpl. rewrite Nat.eqb_refl. reflexivity.
Qed.

(* one call deeper: the activation of any function entered while StartDefer is clear has IsDefer = false,
   so recover() returns nil and leaves the Run state untouched *)
Lemma recover_deeper g :
  gStartDefer g = false ->
  let '(_, _, ge) := enter g in call_recover ge = (None, ge).
Proof.
  destruct g as [pn pf df isd sd nx]. simpl. intros ->. reflexivity.
Qed.

(* entering an activation consumes StartDefer: everything the deferred function calls is "one call deeper" *)
Lemma enter_clears_start g : let '(_, _, ge) := enter g in gStartDefer ge = false.
Proof. destruct g; reflexivity. Qed.

(* the same function called by the frame's normal return (not panicking): nothing to recover *)
Lemma recover_not_panicking g fid :
  gPanicFun g = None ->
  let g1 := push_defer fid false g in
  let '(_, _, ge) := enter g1 in
  fst (call_recover ge) = None.
Proof.
  destruct g as [pn pf df isd sd nx]. simpl. intros ->. reflexivity.
Qed.

(* ---------- LIFO: deferred closures of one activation run in reverse order of installation ---------- *)
Definition emit_clo (k : Z) : act := ADeferClo [AEmit k].

Lemma m_acts_install P ks : forall n r ds g tr, (length ks < n)%nat ->
  m_acts n P (map emit_clo ks) r ds g tr = Some (RNormal, r, rev (map (fun k => DClo [AEmit k]) ks) ++ ds, g, tr).
Proof.
  induction ks as [|k ks IH]; intros n r ds g tr Hn; destruct n as [|n]; simpl in *; try lia.
  - reflexivity.
  - rewrite IH by lia. rewrite <- app_assoc. reflexivity.
Qed.

Lemma m_frame_emit n P k r pn pf df isd sd nx tr : (3 <= n)%nat ->
  m_frame n P [AEmit k] r (mkG pn pf df isd sd nx) tr
  = Some (RNormal, r, leave nx isd (mkG pn pf df sd false (S nx)), k :: tr).
Proof. intros H. destruct n as [|[|[|n]]]; try lia. reflexivity. Qed.

(* not panicking: each deferred emit-closure runs, in list order; the Run flags are restored *)
Lemma m_defers_emit P fid ks : forall n r g tr, (length ks + 4 < n)%nat ->
  gPanicFun g = None -> gStartDefer g = false ->
  exists g', m_defers n P fid (map (fun k => DClo [AEmit k]) ks) r false false None g tr
             = Some (None, r, g', rev ks ++ tr) /\
             gPanicFun g' = None /\ gStartDefer g' = false /\ gIsDefer g' = gIsDefer g /\ gDeferOf g' = gDeferOf g
             /\ gPanic g' = gPanic g.
Proof.
  induction ks as [|k ks IH]; intros n r g tr Hn Hpf Hsd.
  - destruct n; [simpl in Hn; lia|]. simpl. exists g. repeat split; assumption.
  - destruct n as [|n]; [simpl in Hn; lia|].
    destruct g as [pn pf df isd sd nx]. simpl in Hpf, Hsd. subst pf sd.
    simpl map. simpl m_defers. unfold push_defer. simpl.
    rewrite m_frame_emit by (simpl in Hn; lia). simpl.
    edestruct (IH n r (mkG pn None df isd false (S nx)) (k :: tr)) as (g' & Hm & H1 & H2 & H3 & H4 & H5);
      [simpl in *; lia|reflexivity|reflexivity|].
    exists g'. split.
    + unfold pop_defer, leave. simpl. rewrite Hm. rewrite <- app_assoc. reflexivity.
    + simpl in *. repeat split; assumption.
Qed.

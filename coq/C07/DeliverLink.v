(* C07 -- the one-step treatment of defer statements in [mc_acts] is what the SigDefer hand-over delivers (lemmas). *)
From Coq Require Import List ZArith Bool Lia.
From Verif Require Import C07.Model C07.Deliver C07.DeliverProof.
Import ListNotations.

(* the defer statements of a body, in execution order *)
Fixpoint act_defers (acts : list act) : list dfr :=
  match acts with
  | [] => []
  | ADeferClo b :: r => DClo b :: act_defers r
  | ADeferFn f :: r => DFn f :: act_defers r
  | _ :: r => act_defers r
  end.

(* a body that ends normally has pushed exactly its defer statements, most recent first *)
Lemma mc_acts_defers fx : forall n P acts r ds g tr r' ds' g' tr',
  mc_acts fx n P acts r ds g tr = Some (RNormal, r', ds', g', tr') -> ds' = rev (act_defers acts) ++ ds.
Proof.
  induction n as [|n IH]; intros P acts r ds g tr r' ds' g' tr' H; [discriminate|].
  cbn [mc_acts] in H. destruct acts as [|a rest].
  - inversion H; subst. reflexivity.
  - destruct a; cbn [act_defers].
    + eapply IH; eauto.
    + eapply IH; eauto.
    + eapply IH; eauto.
    + discriminate.
    + destruct (mc_frame fx n P (body_of P f) 0 g tr) as [[[[o x] g1] tr1]|]; [|discriminate].
      destruct o; [eapply IH; eauto | discriminate].
    + apply IH in H. rewrite H. cbn [rev]. rewrite <- app_assoc. reflexivity.
    + apply IH in H. rewrite H. cbn [rev]. rewrite <- app_assoc. reflexivity.
    + destruct (call_recover g) as [x g1]. eapply IH; eauto.
    + destruct (enter g) as [[fid saved] ge]. destruct (call_recover ge) as [x g1]. eapply IH; eauto.
Qed.

(* ... and that is the defer stack the executor loop builds for ANY statement list with the same defer statements
   (however many plain statements the acts compile to, in whatever phase the activation is) *)
Lemma mc_acts_defers_delivered fx n P acts r g tr r' ds' g' tr' (l rest : list (skd dfr)) ph :
  mc_acts fx n P acts r [] g tr = Some (RNormal, r', ds', g', tr') ->
  no_ret l -> defers_of l = act_defers acts ->
  f_defers (deliver true ph (l ++ DRet :: rest) [] 0) = ds' /\ f_out (deliver true ph (l ++ DRet :: rest) [] 0) = Returned.
Proof.
  intros H Hn Hd. apply mc_acts_defers in H. rewrite deliver_all by exact Hn. cbn. rewrite Hd, H. auto.
Qed.

(* C07 -- every executed defer statement is registered, wherever in the activation it runs (lemmas). *)
From Coq Require Import List Arith Bool Lia.
From Verif Require Import C07.Deliver.
Require Verif.C13.Model.
Import ListNotations.

Section P.
Variable D : Type.
Notation skd := (skd D).

Lemma deliver_all : forall (pre : list skd) ph rest ds n,
  no_ret pre ->
  deliver true ph (pre ++ DRet :: rest) ds n = mkF (rev (defers_of pre) ++ ds) (n + length pre + 1) Returned.
Proof.
  induction pre as [|x pre IH]; intros ph rest ds n H.
  - cbn. f_equal. lia.
  - assert (Hp : no_ret pre) by (intros y Hy; apply H; right; exact Hy).
    destruct x as [|d|].
    + cbn [app deliver]. rewrite IH by exact Hp. cbn [defers_of length]. f_equal. lia.
    + cbn [app deliver]. destruct ph; rewrite IH by exact Hp; cbn [defers_of rev length]; rewrite <- app_assoc; cbn [app]; f_equal; lia.
    + exfalso. apply (H DRet); [left; reflexivity | reflexivity].
Qed.

Lemma exec_frame_all (pre rest : list skd) :
  no_ret pre ->
  exec_frame true (pre ++ DRet :: rest) = mkF (rev (defers_of pre)) (length pre + 1) Returned.
Proof. intros H. unfold exec_frame. rewrite deliver_all by exact H. rewrite app_nil_r. reflexivity. Qed.

(* position independence: the phase in which the frame happens to be does not matter *)
Lemma deliver_phase_irrelevant (pre rest : list skd) ph1 ph2 ds n :
  no_ret pre -> deliver true ph1 (pre ++ DRet :: rest) ds n = deliver true ph2 (pre ++ DRet :: rest) ds n.
Proof. intros H. rewrite !deliver_all by exact H. reflexivity. Qed.

End P.

(* the `if` variant: 70 plain statements bring the frame into the steady half; of two adjacent defer statements the
   second is single-stepped, never registered, and the activation returns before its return statement *)
Definition if_witness : list (skd nat) := repeat DPlain 70 ++ [DDefer 1; DDefer 2; DPlain; DRet].

Lemma if_variant_refuted :
  no_ret (repeat DPlain 70 ++ [DDefer 1; DDefer 2; DPlain]) /\
  exec_frame false if_witness = mkF [1] 72 EarlyExit /\
  exec_frame true if_witness = mkF [2; 1] 74 Returned.
Proof.
  split; [|split; vm_compute; reflexivity].
  intros x Hx. apply in_app_or in Hx. destruct Hx as [Hx|Hx].
  - apply repeat_spec in Hx. subst. discriminate.
  - cbn in Hx. intuition (subst; discriminate).
Qed.

(* the same two statements at the start of the frame (fast half) are both registered by the `if` variant too:
   the defect needs "after n statements" *)
Lemma if_variant_fast_half_ok :
  exec_frame false ([DDefer 1; DDefer 2; DPlain; DRet] : list (skd nat)) = mkF [2; 1] 4 Returned.
Proof. vm_compute. reflexivity. Qed.

(* ... or after five earlier defer statements (each ends one round of the fast half) *)
Lemma if_variant_after_five_defers :
  exec_frame false ([DDefer 1; DDefer 2; DDefer 3; DDefer 4; DDefer 5; DDefer 6; DDefer 7; DRet] : list (skd nat))
  = mkF [6; 5; 4; 3; 2; 1] 7 EarlyExit.
Proof. vm_compute. reflexivity. Qed.

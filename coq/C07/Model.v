(* C07 — defer / panic / recover.  Definitions only.
   Call trees: a program is a table of function bodies; a body is a list of actions.
   [sem_*]  : reference semantics = what Go does (validated against compiled Go by the harness).
   [mc_* fx] : model of gomacro's mechanism (fast/code.go reExecWithFlags, rundefer, pushDefer, popDefer,
              restorePanic, maybeRepanic, restore; fast/builtin.go callRecover): per-goroutine Run state
              Panic / PanicFun / DeferOfFun / ExecFlags.IsDefer / ExecFlags.StartDefer, the per-call locals
              panicking / panicking2, Go's own defer stack and Go's own in-flight panic (abstracted as LIFO list
              and [option Z]: Go's documented semantics).
              fx = true : the code after fix C07-1 (rundefer starts with `defer restorePanic(run, run.Panic, run.PanicFun)`);
              fx = false: the code before it (kept for the refutation witness and for checking unfixed trees).
   [m_*]    : notation for [mc_* true], the code that exists now. *)
From Coq Require Import List ZArith Bool.
Import ListNotations.
Open Scope Z_scope.

Inductive act :=
| AEmit (k : Z)            (* emit(k) *)
| ASetR (k : Z)            (* r = k : the named result of the enclosing function *)
| AAddR (k : Z)            (* r += k *)
| APanic (v : Z)           (* panic(v) *)
| ACall (f : nat)          (* emit(500 + f()) *)
| ADeferClo (body : list act)   (* defer func() { body }() : closure over r *)
| ADeferFn (f : nat)       (* defer f() *)
| ARecover                 (* x := recover(); emit(1000+x) if x != nil else emit(-1) *)
| ARecoverDeep.            (* emit(rec()) where rec calls recover(): one call deeper *)

Definition prog := list (list act).
Definition body_of (P : prog) (f : nat) : list act := nth f P [].

Inductive dfr := DClo (body : list act) | DFn (f : nat).
Inductive res := RNormal | RPanic (v : Z).

Definition pan_of (o : res) : option Z := match o with RPanic v => Some v | RNormal => None end.
Definition res_of (p : option Z) : res := match p with Some v => RPanic v | None => RNormal end.

(* ------------------------------------------------------------------ reference semantics (Go) *)
(* cur: what recover() yields when called directly in this function body: Some v iff the function is a deferred
   call run by the panic sequence of its caller's frame with the not yet recovered panic v *)
Fixpoint sem_acts (n : nat) (P : prog) (acts : list act) (r : Z) (ds : list dfr) (cur : option Z) (tr : list Z)
  {struct n} : option (res * Z * list dfr * option Z * list Z) :=
  match n with
  | O => None
  | S n' =>
    match acts with
    | [] => Some (RNormal, r, ds, cur, tr)
    | a :: rest =>
      match a with
      | AEmit k => sem_acts n' P rest r ds cur (k :: tr)
      | ASetR k => sem_acts n' P rest k ds cur tr
      | AAddR k => sem_acts n' P rest (r + k) ds cur tr
      | APanic v => Some (RPanic v, r, ds, cur, tr)
      | ACall f =>
          match sem_frame n' P (body_of P f) 0 None tr with
          | Some (RNormal, x, _, tr1) => sem_acts n' P rest r ds cur ((500 + x) :: tr1)
          | Some (RPanic v, _, _, tr1) => Some (RPanic v, r, ds, cur, tr1)
          | None => None
          end
      | ADeferClo b => sem_acts n' P rest r (DClo b :: ds) cur tr
      | ADeferFn f => sem_acts n' P rest r (DFn f :: ds) cur tr
      | ARecover =>
          match cur with
          | Some v => sem_acts n' P rest r ds None ((1000 + v) :: tr)
          | None => sem_acts n' P rest r ds None ((-1) :: tr)
          end
      | ARecoverDeep => sem_acts n' P rest r ds cur ((-1) :: tr)
      end
    end
  end

(* one function activation: body, then its deferred calls in LIFO order; returns outcome, r, final cur, trace *)
with sem_frame (n : nat) (P : prog) (body : list act) (r : Z) (cur : option Z) (tr : list Z)
  {struct n} : option (res * Z * option Z * list Z) :=
  match n with
  | O => None
  | S n' =>
    match sem_acts n' P body r [] cur tr with
    | Some (o, r1, ds, cur1, tr1) =>
        match sem_defers n' P ds r1 (pan_of o) tr1 with
        | Some (pan, r2, tr2) => Some (res_of pan, r2, cur1, tr2)
        | None => None
        end
    | None => None
    end
  end

with sem_defers (n : nat) (P : prog) (ds : list dfr) (r : Z) (pan : option Z) (tr : list Z)
  {struct n} : option (option Z * Z * list Z) :=
  match n with
  | O => None
  | S n' =>
    match ds with
    | [] => Some (pan, r, tr)
    | d :: rest =>
        match (match d with
               | DClo b => sem_frame n' P b r pan tr
               | DFn f => match sem_frame n' P (body_of P f) 0 pan tr with
                          | Some (o, _, c, t) => Some (o, r, c, t)
                          | None => None
                          end
               end) with
        | Some (o, r1, cur1, tr1) =>
            let pan1 := match o with
                        | RPanic v2 => Some v2                    (* a new panic replaces the current one *)
                        | RNormal => match pan, cur1 with
                                     | Some _, None => None      (* recovered by the deferred call itself *)
                                     | _, _ => pan
                                     end
                        end in
            sem_defers n' P rest r1 pan1 tr1
        | None => None
        end
    end
  end.

Definition sem_run (n : nat) (P : prog) (top : nat) : option (res * Z * list Z) :=
  match sem_frame n P (body_of P top) 0 None [] with
  | Some (o, r, _, tr) => Some (o, r, tr)
  | None => None
  end.

(* ------------------------------------------------------------------ model of gomacro's executor *)
Record G := mkG {
  gPanic : option Z;        (* Run.Panic *)
  gPanicFun : option nat;   (* Run.PanicFun : *Env of the function whose deferred calls run while panicking *)
  gDeferOf : option nat;    (* Run.DeferOfFun *)
  gIsDefer : bool;          (* ExecFlags.IsDefer *)
  gStartDefer : bool;       (* ExecFlags.StartDefer *)
  gNext : nat }.            (* next fresh *Env identity *)

Definition g0 : G := mkG None None None false false 0.

Definition onat_eqb (a b : option nat) : bool :=
  match a, b with Some x, Some y => Nat.eqb x y | None, None => true | _, _ => false end.

(* builtin.go callRecover *)
Definition call_recover (g : G) : option Z * G :=
  if negb (gIsDefer g) then (None, g)
  else match gPanicFun g with
       | None => (None, g)
       | Some pf =>
           if negb (onat_eqb (gDeferOf g) (Some pf)) then (None, g)
           else (gPanic g, mkG None None (gDeferOf g) (gIsDefer g) (gStartDefer g) (gNext g))
       end.

Definition rec_event (x : option Z) : Z := match x with Some v => 1000 + v | None => -1 end.

(* reExecWithFlags prologue: ef.SetDefer(ef.StartDefer()); ef.SetStartDefer(false); a fresh *Env *)
Definition enter (g : G) : nat * bool * G :=
  (gNext g, gIsDefer g, mkG (gPanic g) (gPanicFun g) (gDeferOf g) (gStartDefer g) false (S (gNext g))).

(* restore(run, funenv, isDefer, ...) *)
Definition leave (fid : nat) (saved : bool) (g : G) : G :=
  if onat_eqb (gPanicFun g) (Some fid)
  then mkG None None (gDeferOf g) saved (gStartDefer g) (gNext g)
  else mkG (gPanic g) (gPanicFun g) (gDeferOf g) saved (gStartDefer g) (gNext g).

(* pushDefer(run, funenv, panicking) *)
Definition push_defer (fid : nat) (panicking : bool) (g : G) : G :=
  mkG (gPanic g) (if panicking then Some fid else gPanicFun g) (Some fid) (gIsDefer g) true (gNext g).

(* popDefer(run, oldDeferOf, oldIsDefer) *)
Definition pop_defer (oldDeferOf : option nat) (oldIsDefer : bool) (g : G) : G :=
  mkG (gPanic g) (gPanicFun g) oldDeferOf oldIsDefer false (gNext g).

Definition set_panic (v : option Z) (g : G) : G :=
  mkG v (gPanicFun g) (gDeferOf g) (gIsDefer g) (gStartDefer g) (gNext g).

(* restorePanic(run, panik, panicFun): deferred first in rundefer, hence runs last (after popDefer), on both exits.
   Absent before fix C07-1 (fx = false). *)
Definition restore_panic (fx : bool) (pn : option Z) (pf : option nat) (g : G) : G :=
  if fx then mkG pn pf (gDeferOf g) (gIsDefer g) (gStartDefer g) (gNext g) else g.

Fixpoint mc_acts (fx : bool) (n : nat) (P : prog) (acts : list act) (r : Z) (ds : list dfr) (g : G) (tr : list Z)
  {struct n} : option (res * Z * list dfr * G * list Z) :=
  match n with
  | O => None
  | S n' =>
    match acts with
    | [] => Some (RNormal, r, ds, g, tr)
    | a :: rest =>
      match a with
      | AEmit k => mc_acts fx n' P rest r ds g (k :: tr)
      | ASetR k => mc_acts fx n' P rest k ds g tr
      | AAddR k => mc_acts fx n' P rest (r + k) ds g tr
      | APanic v => Some (RPanic v, r, ds, g, tr)           (* a Go panic is now in flight *)
      | ACall f =>
          match mc_frame fx n' P (body_of P f) 0 g tr with
          | Some (RNormal, x, g1, tr1) => mc_acts fx n' P rest r ds g1 ((500 + x) :: tr1)
          | Some (RPanic v, _, g1, tr1) => Some (RPanic v, r, ds, g1, tr1)
          | None => None
          end
      | ADeferClo b => mc_acts fx n' P rest r (DClo b :: ds) g tr   (* SigDefer: `defer rundefer(fun)` *)
      | ADeferFn f => mc_acts fx n' P rest r (DFn f :: ds) g tr
      | ARecover => let '(x, g1) := call_recover g in mc_acts fx n' P rest r ds g1 (rec_event x :: tr)
      | ARecoverDeep =>
          (* rec() is an interpreted function: its activation has its own IsDefer *)
          let '(fid, saved, ge) := enter g in
          let '(x, g1) := call_recover ge in
          mc_acts fx n' P rest r ds (leave fid saved g1) (rec_event x :: tr)
      end
    end
  end

with mc_frame (fx : bool) (n : nat) (P : prog) (body : list act) (r : Z) (g : G) (tr : list Z)
  {struct n} : option (res * Z * G * list Z) :=
  match n with
  | O => None
  | S n' =>
    let '(fid, saved, ge) := enter g in
    match mc_acts fx n' P body r [] ge tr with
    | Some (o, r1, ds, g1, tr1) =>
        (* panicking stays true unless the body ended normally *)
        match mc_defers fx n' P fid ds r1 (match o with RPanic _ => true | RNormal => false end) false (pan_of o) g1 tr1 with
        | Some (infl, r2, g2, tr2) => Some (res_of infl, r2, leave fid saved g2, tr2)
        | None => None
        end
    | None => None
    end
  end

(* Go runs the deferred rundefer(fun) closures LIFO.  p = panicking, p2 = panicking2, infl = Go's in-flight panic *)
with mc_defers (fx : bool) (n : nat) (P : prog) (fid : nat) (ds : list dfr) (r : Z) (p p2 : bool) (infl : option Z)
              (g : G) (tr : list Z) {struct n} : option (option Z * Z * G * list Z) :=
  match n with
  | O => None
  | S n' =>
    match ds with
    | [] => Some (infl, r, g, tr)
    | d :: rest =>
        (* defer restorePanic(run, run.Panic, run.PanicFun): the arguments are evaluated here *)
        let savedPanic := gPanic g in
        let savedPanicFun := gPanicFun g in
        (* if panicking || panicking2 { panicking = true; panicking2 = false; run.Panic = recover() } *)
        let '(p, infl, g) := if p || p2 then (true, @None Z, set_panic infl g) else (p, infl, g) in
        let oldDeferOf := gDeferOf g in
        let oldIsDefer := gIsDefer g in
        let g := push_defer fid p g in
        match (match d with
               | DClo b => mc_frame fx n' P b r g tr
               | DFn f => match mc_frame fx n' P (body_of P f) 0 g tr with
                          | Some (o, _, g1, t) => Some (o, r, g1, t)
                          | None => None
                          end
               end) with
        | Some (RPanic v2, r1, g1, tr1) =>
            (* fun() panicked: panicking2 stays true, popDefer runs while unwinding *)
            mc_defers fx n' P fid rest r1 p true (Some v2) (restore_panic fx savedPanic savedPanicFun (pop_defer oldDeferOf oldIsDefer g1)) tr1
        | Some (RNormal, r1, g1, tr1) =>
            (* panicking2 = false; if panicking { panicking = maybeRepanic(run) } *)
            if p then
              match gPanicFun g1 with
              | Some _ => mc_defers fx n' P fid rest r1 true false
                            (Some (match gPanic g1 with Some v => v | None => 0 end))
                            (restore_panic fx savedPanic savedPanicFun (pop_defer oldDeferOf oldIsDefer g1)) tr1
              | None => mc_defers fx n' P fid rest r1 false false None (restore_panic fx savedPanic savedPanicFun (pop_defer oldDeferOf oldIsDefer g1)) tr1
              end
            else mc_defers fx n' P fid rest r1 false false infl (restore_panic fx savedPanic savedPanicFun (pop_defer oldDeferOf oldIsDefer g1)) tr1
        | None => None
        end
    end
  end.

Notation m_acts := (mc_acts true).
Notation m_frame := (mc_frame true).
Notation m_defers := (mc_defers true).

Definition mc_run (fx : bool) (n : nat) (P : prog) (top : nat) : option (res * Z * list Z) :=
  match mc_frame fx n P (body_of P top) 0 g0 [] with
  | Some (o, r, _, tr) => Some (o, r, tr)
  | None => None
  end.

Definition m_run (n : nat) (P : prog) (top : nat) : option (res * Z * list Z) := mc_run true n P top.

(* ------------------------------------------------------------------ correspondence support *)
(* c_fixed: whether the tree under test contains fix C07-1 (decided by the harness by replaying the recorded input
   of the finding on the real code); it selects which of the two described code versions must reproduce the observation *)
Record case := mkCase { c_idx : Z; c_fixed : bool; c_prog : prog; c_top : nat; c_fuel : nat;
                        c_trace : list Z; c_result : Z; c_panic : option Z }.

Fixpoint zs_eqb (a b : list Z) : bool :=
  match a, b with
  | [], [] => true
  | x :: a', y :: b' => Z.eqb x y && zs_eqb a' b'
  | _, _ => false
  end.

Definition obs_ok (c : case) (x : option (res * Z * list Z)) : bool :=
  match x with
  | Some (RNormal, r, tr) => match c_panic c with None => Z.eqb r (c_result c) && zs_eqb (rev tr) (c_trace c) | Some _ => false end
  | Some (RPanic v, _, tr) => match c_panic c with Some w => Z.eqb v w && zs_eqb (rev tr) (c_trace c) | None => false end
  | None => false
  end.

Definition case_ok (c : case) : bool :=
  obs_ok c (sem_run (c_fuel c) (c_prog c) (c_top c)) && obs_ok c (mc_run (c_fixed c) (c_fuel c) (c_prog c) (c_top c)).

Definition mismatches (cs : list case) : list Z := map c_idx (filter (fun c => negb (case_ok c)) cs).

(* C07 — lemmas, part 2: the model of the executor (code after fix C07-1) and the reference semantics compute the
   same outcome, result and event trace for EVERY program, entry point and fuel (mutual induction on the fuel). *)
From Coq Require Import List ZArith Bool Arith Lia.
From Verif Require Import C07.Model.
Import ListNotations.
Open Scope Z_scope.

(* invariant of the Run state: PanicFun, when set, is an *Env already allocated, and Panic holds the value *)
Definition wf (g : G) : Prop :=
  match gPanicFun g with
  | Some pf => (pf < gNext g)%nat /\ gPanic g <> None
  | None => True
  end.

(* what recover() yields when called directly in the running activation *)
Definition cur_of (g : G) : option Z := fst (call_recover g).

Definition same_or_consumed (g g1 : G) (cur cur1 : option Z) : Prop :=
  (cur1 = cur /\ gPanic g1 = gPanic g /\ gPanicFun g1 = gPanicFun g) \/
  (cur1 = None /\ cur <> None /\ gPanic g1 = None /\ gPanicFun g1 = None).

(* g1 is the Run state after part of an activation body ran from g; cur -> cur1 is what the semantics tracks *)
Definition rel (g g1 : G) (cur cur1 : option Z) : Prop :=
  gDeferOf g1 = gDeferOf g /\ gIsDefer g1 = gIsDefer g /\ gStartDefer g1 = gStartDefer g /\
  (gNext g <= gNext g1)%nat /\ same_or_consumed g g1 cur cur1.

(* g1 is the Run state after a whole activation entered from g returned (or panicked) *)
Definition frel (g g1 : G) (cur cur1 : option Z) : Prop :=
  gDeferOf g1 = gDeferOf g /\ gIsDefer g1 = gIsDefer g /\ gStartDefer g1 = false /\
  (gNext g <= gNext g1)%nat /\ same_or_consumed g g1 cur cur1.

Definition flight (p p2 : bool) (infl : option Z) : Prop :=
  match infl with Some _ => p || p2 = true | None => p = false /\ p2 = false end.

Lemma rel_refl g cur : rel g g cur cur.
Proof. unfold rel, same_or_consumed. repeat split; auto. Qed.

Lemma rel_trans g g1 g2 c c1 c2 : rel g g1 c c1 -> rel g1 g2 c1 c2 -> rel g g2 c c2.
Proof.
  unfold rel, same_or_consumed. intros (A1 & A2 & A3 & A4 & A5) (B1 & B2 & B3 & B4 & B5).
  repeat split; try congruence; try lia.
  destruct A5 as [(E1 & E2 & E3)|(E1 & E2 & E3 & E4)], B5 as [(F1 & F2 & F3)|(F1 & F2 & F3 & F4)].
  - left. repeat split; congruence.
  - right. repeat split; congruence.
  - right. repeat split; congruence.
  - congruence.
Qed.

Lemma rel_wf g g1 c c1 : wf g -> rel g g1 c c1 -> wf g1.
Proof.
  unfold wf, rel, same_or_consumed. intros W (A1 & A2 & A3 & A4 & A5).
  destruct A5 as [(E1 & E2 & E3)|(E1 & E2 & E3 & E4)].
  - rewrite E3, E2. destruct (gPanicFun g); [|exact I]. destruct W. split; [lia|assumption].
  - rewrite E4. exact I.
Qed.

Lemma rel_cur g g1 c c1 : cur_of g = c -> rel g g1 c c1 -> cur_of g1 = c1.
Proof.
  destruct g as [pn pf df isd sd nx], g1 as [pn1 pf1 df1 isd1 sd1 nx1].
  unfold cur_of, call_recover, rel, same_or_consumed. simpl. intros C (A1 & A2 & A3 & A4 & A5). subst df1 isd1 sd1.
  destruct A5 as [(E1 & E2 & E3)|(E1 & E2 & E3 & E4)]; subst.
  - destruct isd; simpl; [|reflexivity]. destruct pf as [q|]; [|reflexivity].
    destruct (negb (onat_eqb df (Some q))); reflexivity.
  - destruct (negb isd); reflexivity.
Qed.

Lemma rel_sd g g1 c c1 : gStartDefer g = false -> rel g g1 c c1 -> gStartDefer g1 = false.
Proof. intros H (_ & _ & A3 & _). congruence. Qed.

(* a non-deferred activation (StartDefer clear) cannot recover *)
Lemma enter_cur_none g : gStartDefer g = false -> cur_of (snd (enter g)) = None.
Proof. destruct g as [pn pf df isd sd nx]. simpl. intros ->. reflexivity. Qed.

Lemma enter_wf g : wf g -> wf (snd (enter g)).
Proof. destruct g as [pn pf df isd sd nx]. unfold wf. simpl. destruct pf; [|auto]. intros []. split; [lia|assumption]. Qed.

(* recover() called directly *)
Lemma recover_rel g : wf g -> rel g (snd (call_recover g)) (cur_of g) None.
Proof.
  destruct g as [pn pf df isd sd nx]. unfold wf, cur_of, call_recover, rel, same_or_consumed. simpl.
  destruct isd; simpl; [|intros _; repeat split; auto].
  destruct pf as [pf|]; simpl; [|intros _; repeat split; auto].
  intros [W1 W2]. destruct (onat_eqb df (Some pf)); simpl; repeat split; auto.
Qed.

(* rec(): recover() one call deeper *)
Lemma recover_deep_rel g cur : gStartDefer g = false -> wf g ->
  let '(fid, saved, ge) := enter g in
  call_recover ge = (None, ge) /\ rel g (leave fid saved ge) cur cur.
Proof.
  destruct g as [pn pf df isd sd nx]. unfold wf, rel, same_or_consumed, leave. simpl. intros -> W.
  split; [reflexivity|].
  assert (E : onat_eqb pf (Some nx) = false).
  { destruct pf as [pf|]; [|reflexivity]. simpl. destruct W as [W _]. apply Nat.eqb_neq. lia. }
  rewrite E. simpl. repeat split; auto.
Qed.

(* ---------- the three statements, by mutual induction on the fuel ---------- *)
Definition P_acts (n : nat) : Prop :=
  forall P acts r ds g tr cur, gStartDefer g = false -> wf g -> cur_of g = cur ->
  match sem_acts n P acts r ds cur tr with
  | None => m_acts n P acts r ds g tr = None
  | Some (o, r1, ds1, c1, tr1) =>
      exists g1, m_acts n P acts r ds g tr = Some (o, r1, ds1, g1, tr1) /\ rel g g1 cur c1
  end.

Definition P_frame (n : nat) : Prop :=
  forall P body r g tr, wf g ->
  match sem_frame n P body r (cur_of (snd (enter g))) tr with
  | None => m_frame n P body r g tr = None
  | Some (o, r2, c1, tr2) =>
      exists g1, m_frame n P body r g tr = Some (o, r2, g1, tr2) /\ frel g g1 (cur_of (snd (enter g))) c1
  end.

Definition P_defers (n : nat) : Prop :=
  forall P fid ds r p p2 infl g tr,
  gStartDefer g = false -> wf g -> (fid < gNext g)%nat -> gPanicFun g <> Some fid -> flight p p2 infl ->
  match sem_defers n P ds r infl tr with
  | None => m_defers n P fid ds r p p2 infl g tr = None
  | Some (pan1, r1, tr1) =>
      exists g1, m_defers n P fid ds r p p2 infl g tr = Some (pan1, r1, g1, tr1) /\ rel g g1 None None
  end.

Lemma frel_call g g1 cur c1 : gStartDefer g = false -> frel g g1 None c1 -> rel g g1 cur cur.
Proof.
  unfold frel, rel, same_or_consumed. intros Hs (A1 & A2 & A3 & A4 & A5).
  repeat split; try congruence. left.
  destruct A5 as [(E1 & E2 & E3)|(E1 & E2 & E3 & E4)]; [auto|congruence].
Qed.

Lemma step_acts n : P_acts n -> P_frame n -> P_acts (S n).
Proof.
  intros IHa IHf P acts r ds g tr cur Hsd Hwf Hcur.
  destruct acts as [|a rest]; [simpl; exists g; split; [reflexivity|apply rel_refl]|].
  destruct a as [k|k|k|v|f|b|f| |]; cbn [sem_acts mc_acts].
  - exact (IHa P rest r ds g (k :: tr) cur Hsd Hwf Hcur).
  - exact (IHa P rest k ds g tr cur Hsd Hwf Hcur).
  - exact (IHa P rest (r + k) ds g tr cur Hsd Hwf Hcur).
  - exists g. split; [reflexivity|apply rel_refl].
  - assert (Hf := IHf P (body_of P f) 0 g tr Hwf). rewrite (enter_cur_none g Hsd) in Hf.
    destruct (sem_frame n P (body_of P f) 0 None tr) as [[[[o x] c1] tr1]|].
    + destruct Hf as (g1 & Hm & Hr). rewrite Hm. apply (frel_call g g1 cur c1 Hsd) in Hr.
      destruct o.
      * assert (Ha := IHa P rest r ds g1 ((500 + x) :: tr1) cur (rel_sd _ _ _ _ Hsd Hr) (rel_wf _ _ _ _ Hwf Hr)
                        (rel_cur _ _ _ _ Hcur Hr)).
        destruct (sem_acts n P rest r ds cur ((500 + x) :: tr1)) as [[[[[o2 r2] ds2] c2] tr2]|]; [|exact Ha].
        destruct Ha as (g2 & Hm2 & Hr2). exists g2. split; [exact Hm2|eapply rel_trans; eauto].
      * exists g1. split; [reflexivity|exact Hr].
    + rewrite Hf. reflexivity.
  - exact (IHa P rest r (DClo b :: ds) g tr cur Hsd Hwf Hcur).
  - exact (IHa P rest r (DFn f :: ds) g tr cur Hsd Hwf Hcur).
  - assert (Hr := recover_rel g Hwf). rewrite Hcur in Hr.
    assert (Ex : fst (call_recover g) = cur) by exact Hcur.
    destruct (call_recover g) as [x g1] eqn:E. cbn [fst snd] in Ex, Hr. subst x. unfold rec_event.
    assert (Ha := fun t => IHa P rest r ds g1 t None (rel_sd _ _ _ _ Hsd Hr) (rel_wf _ _ _ _ Hwf Hr)
                      (rel_cur _ _ _ _ Hcur Hr)).
    destruct cur as [v|].
    + specialize (Ha ((1000 + v) :: tr)).
      destruct (sem_acts n P rest r ds None ((1000 + v) :: tr)) as [[[[[o2 r2] ds2] c2] tr2]|]; [|exact Ha].
      destruct Ha as (g2 & Hm2 & Hr2). exists g2. split; [exact Hm2|eapply rel_trans; eauto].
    + specialize (Ha ((-1) :: tr)).
      destruct (sem_acts n P rest r ds None ((-1) :: tr)) as [[[[[o2 r2] ds2] c2] tr2]|]; [|exact Ha].
      destruct Ha as (g2 & Hm2 & Hr2). exists g2. split; [exact Hm2|eapply rel_trans; eauto].
  - assert (Hd := recover_deep_rel g cur Hsd Hwf).
    destruct (enter g) as [[fid saved] ge]. destruct Hd as [Hc Hr]. rewrite Hc. unfold rec_event.
    assert (Ha := IHa P rest r ds (leave fid saved ge) ((-1) :: tr) cur (rel_sd _ _ _ _ Hsd Hr) (rel_wf _ _ _ _ Hwf Hr)
                      (rel_cur _ _ _ _ Hcur Hr)).
    destruct (sem_acts n P rest r ds cur ((-1) :: tr)) as [[[[[o2 r2] ds2] c2] tr2]|]; [|exact Ha].
    destruct Ha as (g2 & Hm2 & Hr2). exists g2. split; [exact Hm2|eapply rel_trans; eauto].
Qed.

Lemma step_frame n : P_acts n -> P_defers n -> P_frame (S n).
Proof.
  intros IHa IHd P body r g tr Hwf. simpl.
  assert (Hwe := enter_wf g Hwf).
  destruct g as [pn pf df isd sd nx]. simpl in *.
  set (ge := mkG pn pf df sd false (S nx)) in *.
  assert (Ha := IHa P body r [] ge tr (cur_of ge) eq_refl Hwe eq_refl).
  destruct (sem_acts n P body r [] (cur_of ge) tr) as [[[[[o r1] ds] c1] tr1]|]; [|rewrite Ha; reflexivity].
  destruct Ha as (g1 & Hm & Hr). rewrite Hm.
  assert (Hwf1 := rel_wf _ _ _ _ Hwe Hr).
  destruct Hr as (A1 & A2 & A3 & A4 & A5). simpl in A1, A2, A3, A4.
  assert (Hpf1 : gPanicFun g1 <> Some nx).
  { destruct A5 as [(_ & _ & E3)|(_ & _ & _ & E4)]; [|congruence].
    rewrite E3. simpl. unfold wf in Hwf. simpl in Hwf. destruct pf as [pf|]; [|congruence].
    destruct Hwf as [W _]. intros X. inversion X. lia. }
  assert (Hfl : flight (match o with RPanic _ => true | RNormal => false end) false (pan_of o))
    by (destruct o; simpl; auto).
  assert (Hd := IHd P nx ds r1 _ false (pan_of o) g1 tr1 A3 Hwf1 ltac:(lia) Hpf1 Hfl).
  destruct (sem_defers n P ds r1 (pan_of o) tr1) as [[[pan2 r2] tr2]|]; [|rewrite Hd; reflexivity].
  destruct Hd as (g2 & Hm2 & (B1 & B2 & B3 & B4 & B5)). rewrite Hm2.
  eexists. split; [reflexivity|].
  destruct B5 as [(_ & F2 & F3)|(_ & X & _)]; [|congruence].
  unfold leave. assert (E : onat_eqb (gPanicFun g2) (Some nx) = false).
  { rewrite F3. destruct (gPanicFun g1) as [q|]; [|reflexivity]. simpl. apply Nat.eqb_neq. congruence. }
  rewrite E. unfold frel, same_or_consumed. simpl. repeat split; try congruence; try lia.
  rewrite F2, F3. exact A5.
Qed.

(* one deferred call, uniformly for closures and named functions *)
Lemma one_deferred n : P_frame n -> forall P d r g tr, wf g ->
  match (match d with
         | DClo b => sem_frame n P b r (cur_of (snd (enter g))) tr
         | DFn f => match sem_frame n P (body_of P f) 0 (cur_of (snd (enter g))) tr with
                    | Some (o, _, c, t) => Some (o, r, c, t)
                    | None => None
                    end
         end) with
  | None => (match d with
             | DClo b => m_frame n P b r g tr
             | DFn f => match m_frame n P (body_of P f) 0 g tr with
                        | Some (o, _, g1, t) => Some (o, r, g1, t)
                        | None => None
                        end
             end) = None
  | Some (o, r1, c1, tr1) =>
      exists g1, (match d with
                  | DClo b => m_frame n P b r g tr
                  | DFn f => match m_frame n P (body_of P f) 0 g tr with
                             | Some (o, _, g1, t) => Some (o, r, g1, t)
                             | None => None
                             end
                  end) = Some (o, r1, g1, tr1) /\ frel g g1 (cur_of (snd (enter g))) c1
  end.
Proof.
  intros IHf P d r g tr Hwf. destruct d as [b|f].
  - exact (IHf P b r g tr Hwf).
  - assert (H := IHf P (body_of P f) 0 g tr Hwf).
    destruct (sem_frame n P (body_of P f) 0 (cur_of (snd (enter g))) tr) as [[[[o x] c1] tr1]|].
    + destruct H as (g1 & Hm & Hr). exists g1. rewrite Hm. split; [reflexivity|exact Hr].
    + rewrite H. reflexivity.
Qed.

Lemma step_defers n : P_frame n -> P_defers n -> P_defers (S n).
Proof.
  intros IHf IHd P fid ds r p p2 infl g tr Hsd Hwf Hfid Hpf Hfl.
  destruct ds as [|d rest]; [simpl; exists g; split; [reflexivity|apply rel_refl]|].
  destruct g as [pn pf df isd sd nx]. simpl in Hsd, Hfid, Hpf. subst sd.
  cbn [sem_defers mc_defers]. unfold flight in Hfl.
  destruct infl as [v|].
  - (* a Go panic is in flight: rundefer recovers it into Run.Panic and marks funenv as the panicking function *)
    rewrite Hfl. unfold set_panic, push_defer. cbn [gPanic gPanicFun gDeferOf gIsDefer gStartDefer gNext].
    set (gb := mkG (Some v) (Some fid) (Some fid) isd true nx).
    assert (Wb : wf gb) by (unfold wf; simpl; split; [exact Hfid|discriminate]).
    assert (Cb : cur_of (snd (enter gb)) = Some v).
    { unfold cur_of, call_recover. simpl. rewrite Nat.eqb_refl. reflexivity. }
    assert (H1 := one_deferred n IHf P d r gb tr Wb). rewrite Cb in H1.
    match goal with |- match (match ?X with _ => _ end) with _ => _ end => destruct X as [[[[o r1] c1] tr1]|] end;
      [|rewrite H1; reflexivity].
    destruct H1 as (g1 & Hm & (A1 & A2 & A3 & A4 & A5)). rewrite Hm. simpl in A1, A2, A4.
    destruct o as [|v2].
    + (* the deferred call returned: maybeRepanic *)
      destruct A5 as [(E1 & E2 & E3)|(E1 & _ & E3 & E4)].
      * (* not recovered: re-panic with Run.Panic *)
        rewrite E3, E2. subst c1. simpl.
        set (g' := restore_panic true pn pf (pop_defer df isd g1)).
        assert (Hd := IHd P fid rest r1 true false (Some v) g' tr1 eq_refl).
        assert (W' : wf g').
        { unfold g', wf. simpl. unfold wf in Hwf. simpl in Hwf. destruct pf; [|exact I]. destruct Hwf. split; [lia|assumption]. }
        specialize (Hd W' ltac:(unfold g'; simpl; lia) Hpf eq_refl).
        destruct (sem_defers n P rest r1 (Some v) tr1) as [[[pan2 r2] tr2]|]; [|exact Hd].
        destruct Hd as (g2 & Hm2 & Hr2). exists g2. split; [exact Hm2|].
        eapply rel_trans; [|exact Hr2]. unfold rel, same_or_consumed, g'. simpl. repeat split; auto; lia.
      * (* recovered by the deferred call *)
        rewrite E4. subst c1. simpl.
        set (g' := restore_panic true pn pf (pop_defer df isd g1)).
        assert (Hd := IHd P fid rest r1 false false None g' tr1 eq_refl).
        assert (W' : wf g').
        { unfold g', wf. simpl. unfold wf in Hwf. simpl in Hwf. destruct pf; [|exact I]. destruct Hwf. split; [lia|assumption]. }
        specialize (Hd W' ltac:(unfold g'; simpl; lia) Hpf (conj eq_refl eq_refl)).
        destruct (sem_defers n P rest r1 None tr1) as [[[pan2 r2] tr2]|]; [|exact Hd].
        destruct Hd as (g2 & Hm2 & Hr2). exists g2. split; [exact Hm2|].
        eapply rel_trans; [|exact Hr2]. unfold rel, same_or_consumed, g'. simpl. repeat split; auto; lia.
    + (* the deferred call panicked: the new panic replaces the current one *)
      set (g' := restore_panic true pn pf (pop_defer df isd g1)).
      assert (Hd := IHd P fid rest r1 true true (Some v2) g' tr1 eq_refl).
      assert (W' : wf g').
      { unfold g', wf. simpl. unfold wf in Hwf. simpl in Hwf. destruct pf; [|exact I]. destruct Hwf. split; [lia|assumption]. }
      specialize (Hd W' ltac:(unfold g'; simpl; lia) Hpf eq_refl).
      destruct (sem_defers n P rest r1 (Some v2) tr1) as [[[pan2 r2] tr2]|]; [|exact Hd].
      destruct Hd as (g2 & Hm2 & Hr2). exists g2. split; [exact Hm2|].
      eapply rel_trans; [|exact Hr2]. unfold rel, same_or_consumed, g'. simpl. repeat split; auto; lia.
  - (* no panic in flight *)
    destruct Hfl as [-> ->]. unfold push_defer. cbn [orb gPanic gPanicFun gDeferOf gIsDefer gStartDefer gNext].
    set (gb := mkG pn pf (Some fid) isd true nx).
    assert (Wb : wf gb) by exact Hwf.
    assert (Cb : cur_of (snd (enter gb)) = None).
    { unfold cur_of, call_recover. simpl. destruct pf as [q|]; [|reflexivity]. simpl.
      assert (E : Nat.eqb fid q = false) by (apply Nat.eqb_neq; congruence). rewrite E. reflexivity. }
    assert (H1 := one_deferred n IHf P d r gb tr Wb). rewrite Cb in H1.
    match goal with |- match (match ?X with _ => _ end) with _ => _ end => destruct X as [[[[o r1] c1] tr1]|] end;
      [|rewrite H1; reflexivity].
    destruct H1 as (g1 & Hm & (A1 & A2 & A3 & A4 & A5)). rewrite Hm. simpl in A1, A2, A4.
    set (g' := restore_panic true pn pf (pop_defer df isd g1)).
    assert (W' : wf g').
    { unfold g', wf. simpl. unfold wf in Hwf. simpl in Hwf. destruct pf; [|exact I]. destruct Hwf. split; [lia|assumption]. }
    destruct o as [|v2].
    + assert (Hd := IHd P fid rest r1 false false None g' tr1 eq_refl W' ltac:(unfold g'; simpl; lia) Hpf (conj eq_refl eq_refl)).
      assert (Ep : match c1 with Some _ | None => @None Z end = None) by (destruct c1; reflexivity).
      simpl. rewrite ?Ep.
      destruct (sem_defers n P rest r1 None tr1) as [[[pan2 r2] tr2]|]; [|exact Hd].
      destruct Hd as (g2 & Hm2 & Hr2). exists g2. split; [exact Hm2|].
      eapply rel_trans; [|exact Hr2]. unfold rel, same_or_consumed, g'. simpl. repeat split; auto; lia.
    + assert (Hd := IHd P fid rest r1 false true (Some v2) g' tr1 eq_refl W' ltac:(unfold g'; simpl; lia) Hpf eq_refl).
      destruct (sem_defers n P rest r1 (Some v2) tr1) as [[[pan2 r2] tr2]|]; [|exact Hd].
      destruct Hd as (g2 & Hm2 & Hr2). exists g2. split; [exact Hm2|].
      eapply rel_trans; [|exact Hr2]. unfold rel, same_or_consumed, g'. simpl. repeat split; auto; lia.
Qed.

Theorem equiv_all : forall n, P_acts n /\ P_frame n /\ P_defers n.
Proof.
  induction n as [|n (Ha & Hf & Hd)].
  - repeat split; red; intros; reflexivity.
  - repeat split.
    + apply step_acts; assumption.
    + apply step_frame; assumption.
    + apply step_defers; assumption.
Qed.

(* the property: same outcome (normal / escaping panic value), same result, same event trace, same fuel behaviour *)
Theorem trace_equiv : forall n P top, m_run n P top = sem_run n P top.
Proof.
  intros n P top. unfold m_run, mc_run, sem_run.
  destruct (equiv_all n) as (_ & Hf & _).
  assert (H := Hf P (body_of P top) 0 g0 [] I). change (cur_of (snd (enter g0))) with (@None Z) in H.
  destruct (sem_frame n P (body_of P top) 0 None []) as [[[[o r] c1] tr]|].
  - destruct H as (g1 & Hm & _). rewrite Hm. reflexivity.
  - rewrite H. reflexivity.
Qed.

(* C07 — property theorems only: each closed by [exact lemma], followed by Print Assumptions. *)
From Coq Require Import List ZArith Bool.
From Verif Require Import C07.Model C07.Proof C07.Equiv C07.Deliver C07.DeliverProof C07.DeliverLink.
Import ListNotations.
Open Scope Z_scope.

(* deferred calls of one activation run in reverse order of installation, for every number of defers:
   the chronological event order is rev ks (the trace is kept newest-first, hence = ks); model and reference agree *)
Theorem C07_defer_lifo : forall P0 ks n, (length ks + 6 < n)%nat ->
  m_run n (map emit_clo ks :: P0) 0 = Some (RNormal, 0, ks) /\
  sem_run n (map emit_clo ks :: P0) 0 = Some (RNormal, 0, ks).
Proof. intros; split; [apply defer_lifo|apply defer_lifo_sem]; assumption. Qed.
Print Assumptions C07_defer_lifo.

(* callRecover returns the panic value iff the running activation was started by rundefer (IsDefer) for the
   function through which the panic propagates (DeferOfFun = PanicFun); then the panic is consumed *)
Theorem C07_recover_iff_direct : forall g v,
  (fst (call_recover g) = Some v <->
   gIsDefer g = true /\ gPanic g = Some v /\ exists pf, gPanicFun g = Some pf /\ gDeferOf g = Some pf) /\
  (fst (call_recover g) = Some v ->
   gPanicFun (snd (call_recover g)) = None /\ gPanic (snd (call_recover g)) = None).
Proof. intros; split; [apply call_recover_spec|apply call_recover_consumes]. Qed.
Print Assumptions C07_recover_iff_direct.

(* directly in the deferred call: the value; in any activation entered from it (one call deeper): nil, state unchanged *)
Theorem C07_recover_direct_vs_deeper : forall g fid v,
  (let g1 := push_defer fid true (set_panic (Some v) g) in
   let '(_, _, ge) := enter g1 in fst (call_recover ge) = Some v) /\
  (gStartDefer g = false -> let '(_, _, ge) := enter g in call_recover ge = (None, ge)) /\
  (let '(_, _, ge) := enter g in gStartDefer ge = false).
Proof. intros; split; [apply recover_direct|split; [apply recover_deeper|apply enter_clears_start]]. Qed.
Print Assumptions C07_recover_direct_vs_deeper.

(* named results: the caller receives r as left by the deferred closures (all values) *)
Theorem C07_named_results : forall a b c v,
  (m_run 20 [[ADeferClo [ARecover; AAddR b]; ASetR a; APanic v]] 0 = Some (RNormal, a + b, [1000 + v]) /\
   sem_run 20 [[ADeferClo [ARecover; AAddR b]; ASetR a; APanic v]] 0 = Some (RNormal, a + b, [1000 + v])) /\
  (m_run 20 [[ADeferClo [AAddR b]; ADeferClo [ASetR c]; ASetR a]] 0 = Some (RNormal, c + b, []) /\
   sem_run 20 [[ADeferClo [AAddR b]; ADeferClo [ASetR c]; ASetR a]] 0 = Some (RNormal, c + b, [])).
Proof. intros; split; [apply named_result_after_recover|apply named_result_normal_return]. Qed.
Print Assumptions C07_named_results.

(* a panic raised inside a deferred call replaces the current one (all values); an unrecovered one escapes *)
Theorem C07_nested_panic_replaces : forall v w k,
  (m_run 20 [[ADeferClo [ARecover]; ADeferClo [APanic w]; APanic v]] 0 = Some (RNormal, 0, [1000 + w]) /\
   sem_run 20 [[ADeferClo [ARecover]; ADeferClo [APanic w]; APanic v]] 0 = Some (RNormal, 0, [1000 + w])) /\
  (m_run 20 [[ADeferClo [AEmit k; ARecoverDeep]; APanic v]] 0 = Some (RPanic v, 0, [-1; k]) /\
   sem_run 20 [[ADeferClo [AEmit k; ARecoverDeep]; APanic v]] 0 = Some (RPanic v, 0, [-1; k])).
Proof. intros; split; [apply panic_in_deferred_replaces|apply unrecovered_panic_escapes]. Qed.
Print Assumptions C07_nested_panic_replaces.

(* "recovered inner panics leave the outer one": REFUTED on the code before fix C07-1 (fx = false: rundefer without
   restorePanic): Go lets panic(1) escape from k1, the modelled executor (and the real one of that tree: replayed by the
   harness) returned normally ... *)
Theorem C07_nested_panic_refuted_before_fix : exists P top n,
  sem_run n P top = Some (RPanic 1, 0, [1002]) /\ mc_run false n P top = Some (RNormal, 0, [1002]).
Proof. exists k1, 0%nat, 30%nat. exact nested_recovered_refuted_before_fix. Qed.
Print Assumptions C07_nested_panic_refuted_before_fix.

(* ... and holds on the current code for the witness (for ALL trees it is an instance of C07_trace_equiv below) *)
Theorem C07_nested_panic_recovered_inner_leaves_outer :
  sem_run 30 k1 0 = Some (RPanic 1, 0, [1002]) /\ m_run 30 k1 0 = Some (RPanic 1, 0, [1002]).
Proof. exact nested_recovered_fixed. Qed.
Print Assumptions C07_nested_panic_recovered_inner_leaves_outer.

(* The model of the executor state machine (code with fix C07-1) and the reference semantics agree on EVERY call tree
   built from emit / r = k / r += k / panic / call / defer closure / defer function / recover / recover one call
   deeper, for every entry point and every fuel: same outcome (normal return or the escaping panic value), same named
   result, same event trace, and the same out-of-fuel behaviour ([None] on one side iff on the other).  Proved by
   mutual induction on the fuel with the invariant [Equiv.rel]: between two points of an activation the Run fields
   DeferOfFun / IsDefer / StartDefer are unchanged and (Panic, PanicFun) are either unchanged or were consumed by
   the one successful recover() the semantics also records; every rundefer leaves the Run state as it found it. *)
Theorem C07_trace_equiv : forall n P top, m_run n P top = sem_run n P top.
Proof. exact trace_equiv. Qed.
Print Assumptions C07_trace_equiv.

(* non-vacuity: a tree with nested deferred calls, an inner panic recovered inside a deferred call, a re-panic,
   recover one call deeper, a deferred named function that itself defers: both sides terminate with a long trace *)
Definition ex_tree : prog :=
  [ [ADeferClo [ARecover; AAddR 3]; AEmit 7; APanic 5];
    [ADeferClo [ARecoverDeep; ADeferClo [ARecover]; ACall 0; APanic 9]; ADeferFn 0; ADeferClo [ARecover; APanic 4]; ASetR 2; APanic 1] ].

Example ex_tree_runs :
  sem_run 60 ex_tree 1 = Some (RPanic 4, 2, [1009; 503; 1005; 7; -1; 1005; 7; 1001]) /\
  m_run 60 ex_tree 1 = sem_run 60 ex_tree 1.
Proof. split; [vm_compute; reflexivity|apply trace_equiv]. Qed.

(* ---- how a defer statement reaches the defer stack: the SigDefer hand-over of reExecWithFlags (Deliver.v) ----
   skd D: the statements an activation executes, in execution order (plain / defer statement installing d / return);
   exec_frame true l: the executor loop of the code that exists (phases of C13.Model: 5 rounds of 14 statements,
   then blocks of 15 + single steps), exec_frame false l: the variant testing SigDefer once (`if`) in the steady half *)

(* EVERY executed defer statement is registered, in order, and the activation runs up to its return statement:
   after any number of statements, any number of earlier defers, adjacent or not, inside (unrolled) loops or not *)
Theorem C07_every_defer_statement_registered : forall (D : Type) (pre rest : list (skd D)),
  no_ret pre ->
  exec_frame true (pre ++ DRet :: rest) = mkF (rev (defers_of pre)) (length pre + 1) Returned.
Proof. exact exec_frame_all. Qed.
Print Assumptions C07_every_defer_statement_registered.

(* the phase in which the loop happens to be (how many statements the activation already executed) is irrelevant *)
Theorem C07_defer_delivery_position_independent : forall (D : Type) (pre rest : list (skd D)) ph1 ph2 ds n,
  no_ret pre -> deliver true ph1 (pre ++ DRet :: rest) ds n = deliver true ph2 (pre ++ DRet :: rest) ds n.
Proof. exact deliver_phase_irrelevant. Qed.
Print Assumptions C07_defer_delivery_position_independent.

(* hence the one-step treatment of defer statements in the executor model mc_acts (the defer list a body leaves when it
   ends normally) is exactly the defer stack the loop builds for any statement list with the same defer statements *)
Theorem C07_defer_statements_of_body_delivered :
  forall fx n P acts r g tr r' ds' g' tr' (l rest : list (skd dfr)) ph,
  mc_acts fx n P acts r [] g tr = Some (RNormal, r', ds', g', tr') ->
  no_ret l -> defers_of l = act_defers acts ->
  f_defers (deliver true ph (l ++ DRet :: rest) [] 0) = ds' /\ f_out (deliver true ph (l ++ DRet :: rest) [] 0) = Returned.
Proof. exact mc_acts_defers_delivered. Qed.
Print Assumptions C07_defer_statements_of_body_delivered.

(* the `if` variant loses the second of two adjacent defer statements once the activation has left the fast half
   (70 statements, or five earlier defer statements) and returns early; at the start of a frame it does not *)
Theorem C07_defer_delivery_if_variant_refuted :
  exists l : list (skd nat), exists pre, l = pre ++ [DRet] /\ no_ret pre /\
    exec_frame false l = mkF [1%nat] 72 EarlyExit /\ exec_frame true l = mkF [2%nat; 1%nat] 74 Returned.
Proof.
  exists if_witness, (repeat DPlain 70 ++ [DDefer 1%nat; DDefer 2%nat; DPlain]).
  destruct if_variant_refuted as (A & B & C). repeat split; auto.
Qed.
Print Assumptions C07_defer_delivery_if_variant_refuted.

Example C07_if_variant_needs_many_statements :
  exec_frame false ([DDefer 1; DDefer 2; DPlain; DRet]%nat : list (skd nat)) = mkF [2; 1]%nat 4 Returned /\
  exec_frame false ([DDefer 1; DDefer 2; DDefer 3; DDefer 4; DDefer 5; DDefer 6; DDefer 7; DRet]%nat : list (skd nat))
  = mkF [6; 5; 4; 3; 2; 1]%nat 7 EarlyExit.
Proof. split; [exact if_variant_fast_half_ok | exact if_variant_after_five_defers]. Qed.

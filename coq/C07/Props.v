(* C07 — property theorems only: each closed by [exact lemma], followed by Print Assumptions. *)
From Coq Require Import List ZArith Bool.
From Verif Require Import C07.Model C07.Proof.
Import ListNotations.
Open Scope Z_scope.

(* deferred calls of one activation run in reverse order of installation, for every number of defers:
   the chronological event order is rev ks (the trace is kept newest-first, hence = ks); model and reference agree *)
Theorem C07_defer_lifo : forall P0 ks n, (length ks + 6 < n)%nat ->
  m_run n (map emit_clo ks :: P0) 0 = Some (RNormal, 0, ks) /\
  sem_run n (map emit_clo ks :: P0) 0 = Some (RNormal, 0, ks).
Proof. intros; split; [apply defer_lifo|apply defer_lifo_sem]; assumption. Qed.
Print Assumptions C07_defer_lifo.

(* callRecover returns the panic value iff the running activation was started by rundefer (IsDefer) for the
   function through which the panic propagates (DeferOfFun = PanicFun); then the panic is consumed *)
Theorem C07_recover_iff_direct : forall g v,
  (fst (call_recover g) = Some v <->
   gIsDefer g = true /\ gPanic g = Some v /\ exists pf, gPanicFun g = Some pf /\ gDeferOf g = Some pf) /\
  (fst (call_recover g) = Some v ->
   gPanicFun (snd (call_recover g)) = None /\ gPanic (snd (call_recover g)) = None).
Proof. intros; split; [apply call_recover_spec|apply call_recover_consumes]. Qed.
Print Assumptions C07_recover_iff_direct.

(* directly in the deferred call: the value; in any activation entered from it (one call deeper): nil, state unchanged *)
Theorem C07_recover_direct_vs_deeper : forall g fid v,
  (let g1 := push_defer fid true (set_panic (Some v) g) in
   let '(_, _, ge) := enter g1 in fst (call_recover ge) = Some v) /\
  (gStartDefer g = false -> let '(_, _, ge) := enter g in call_recover ge = (None, ge)) /\
  (let '(_, _, ge) := enter g in gStartDefer ge = false).
Proof. intros; split; [apply recover_direct|split; [apply recover_deeper|apply enter_clears_start]]. Qed.
Print Assumptions C07_recover_direct_vs_deeper.

(* named results: the caller receives r as left by the deferred closures (all values) *)
Theorem C07_named_results : forall a b c v,
  (m_run 20 [[ADeferClo [ARecover; AAddR b]; ASetR a; APanic v]] 0 = Some (RNormal, a + b, [1000 + v]) /\
   sem_run 20 [[ADeferClo [ARecover; AAddR b]; ASetR a; APanic v]] 0 = Some (RNormal, a + b, [1000 + v])) /\
  (m_run 20 [[ADeferClo [AAddR b]; ADeferClo [ASetR c]; ASetR a]] 0 = Some (RNormal, c + b, []) /\
   sem_run 20 [[ADeferClo [AAddR b]; ADeferClo [ASetR c]; ASetR a]] 0 = Some (RNormal, c + b, [])).
Proof. intros; split; [apply named_result_after_recover|apply named_result_normal_return]. Qed.
Print Assumptions C07_named_results.

(* a panic raised inside a deferred call replaces the current one (all values); an unrecovered one escapes *)
Theorem C07_nested_panic_replaces : forall v w k,
  (m_run 20 [[ADeferClo [ARecover]; ADeferClo [APanic w]; APanic v]] 0 = Some (RNormal, 0, [1000 + w]) /\
   sem_run 20 [[ADeferClo [ARecover]; ADeferClo [APanic w]; APanic v]] 0 = Some (RNormal, 0, [1000 + w])) /\
  (m_run 20 [[ADeferClo [AEmit k; ARecoverDeep]; APanic v]] 0 = Some (RPanic v, 0, [-1; k]) /\
   sem_run 20 [[ADeferClo [AEmit k; ARecoverDeep]; APanic v]] 0 = Some (RPanic v, 0, [-1; k])).
Proof. intros; split; [apply panic_in_deferred_replaces|apply unrecovered_panic_escapes]. Qed.
Print Assumptions C07_nested_panic_replaces.

(* "recovered inner panics leave the outer one" is REFUTED on the current code (finding C07-1): Go lets panic(1)
   escape from k1; the modelled executor (and the real one: replayed by the harness) returns normally *)
Theorem C07_nested_panic_refuted : exists P top n,
  sem_run n P top = Some (RPanic 1, 0, [1002]) /\ m_run n P top = Some (RNormal, 0, [1002]).
Proof. exists k1, 0%nat, 30%nat. exact nested_recovered_refuted. Qed.
Print Assumptions C07_nested_panic_refuted.

(* C07_trace_equiv (model = reference semantics for ALL call trees without a panic recovered inside a deferred
   call) is not proved: it is tied only by the correspondence run (both evaluated on every generated tree). *)

(* C36 — proofs, part 2: TailIdentifier, word splitting, head/tail reassembly *)
From Coq Require Import List NArith ZArith Bool Arith Lia Sorted.
From Verif Require Import Common.GoStr Common.ListX C36.Model C36.Proof.
Import ListNotations.

Definition identc (ch : N) : bool := is_letter ch || is_digit ch.

(* ================= TailIdentifier ================= *)
Lemma tail_scan_spec r : forall d acc, exists k d',
  tail_scan r d acc = (rev (firstn k r) ++ acc, d') /\ (k <= length r)%nat /\
  Forall (fun c => identc c = true) (firstn k r) /\ (d' = true -> d = true \/ (0 < k)%nat).
Proof.
  induction r as [|ch r IH]; intros d acc; simpl.
  - exists 0%nat, d. simpl. split; [reflexivity|]. split; [lia|]. split; [constructor|auto].
  - destruct (is_letter ch) eqn:L.
    + destruct (IH false (ch :: acc)) as (k & d' & E & Lk & F & D).
      exists (S k), d'. simpl. rewrite E, <- app_assoc. simpl.
      split; [reflexivity|]. split; [lia|]. split; [|intros _; right; lia].
      constructor; [unfold identc; rewrite L; reflexivity|exact F].
    + destruct (is_digit ch) eqn:Dg.
      * destruct (IH true (ch :: acc)) as (k & d' & E & Lk & F & D).
        exists (S k), d'. simpl. rewrite E, <- app_assoc. simpl.
        split; [reflexivity|]. split; [lia|]. split; [|intros _; right; lia].
        constructor; [unfold identc; rewrite L, Dg; reflexivity|exact F].
      * exists 0%nat, d. simpl. split; [reflexivity|]. split; [lia|]. split; [constructor|auto].
Qed.

(* TailIdentifier returns a suffix of its argument made of identifier characters only *)
Lemma tail_identifier_suffix s : exists m, (m <= length s)%nat /\ tail_identifier s = skipn m s /\
  Forall (fun c => identc c = true) (tail_identifier s).
Proof.
  destruct s as [|c0 s0]; [exists 0%nat; simpl; repeat split; auto|].
  set (s := c0 :: s0). unfold tail_identifier. change (match s with [] => [] | _ => ?x end) with x.
  destruct (tail_scan_spec (rev s) false []) as (k & d' & E & Lk & F & D).
  change (match c0 :: s0 with [] => [] | _ :: _ => ?x end) with x. fold s. rewrite E.
  rewrite app_nil_r, rev_length in *.
  assert (rev (firstn k (rev s)) = skipn (length s - k) s) as Q.
  { rewrite firstn_rev, rev_involutive. reflexivity. }
  assert (Forall (fun c => identc c = true) (skipn (length s - k) s)) as F'.
  { rewrite <- Q. apply Forall_forall. intros x Hx. apply in_rev in Hx. rewrite Forall_forall in F. auto. }
  rewrite Q. destruct d'.
  - destruct (D eq_refl) as [D0|Kpos]; [discriminate|].
    exists (S (length s - k)). split; [lia|].
    assert (tl (skipn (length s - k) s) = skipn (S (length s - k)) s) as T.
    { replace (S (length s - k)) with (1 + (length s - k))%nat by lia.
      rewrite <- skipn_skipn_add. destruct (skipn (length s - k) s); reflexivity. }
    rewrite T. split; [reflexivity|]. rewrite <- T. destruct (skipn (length s - k) s); [constructor|].
    inversion F'; assumption.
  - exists (length s - k)%nat. split; [lia|]. split; [reflexivity|exact F'].
Qed.

Lemma tail_identifier_split s : s = firstn (length s - length (tail_identifier s)) s ++ tail_identifier s.
Proof.
  destruct (tail_identifier_suffix s) as (m & Lm & E & _). rewrite E at 2. rewrite E.
  rewrite skipn_length. replace (length s - (length s - m))%nat with m by lia.
  symmetry. apply firstn_skipn.
Qed.

Lemma tail_identifier_full s : length (tail_identifier s) = length s -> tail_identifier s = s.
Proof.
  intros H. destruct (tail_identifier_suffix s) as (m & Lm & E & _). rewrite E in *.
  rewrite skipn_length in H. assert (m = 0)%nat as -> by lia. reflexivity.
Qed.

(* a non-identifier character hides everything to its left *)
Lemma tail_scan_stop r1 c r2 : identc c = false -> forall d acc,
  tail_scan (r1 ++ c :: r2) d acc = tail_scan r1 d acc.
Proof.
  intros Hc. unfold identc in Hc. apply orb_false_iff in Hc as [L D].
  induction r1 as [|x r1 IH]; intros d acc; simpl.
  - rewrite L, D. reflexivity.
  - destruct (is_letter x); [apply IH|]. destruct (is_digit x); [apply IH|reflexivity].
Qed.

Lemma tail_identifier_cut a c b : identc c = false -> tail_identifier (a ++ c :: b) = tail_identifier b.
Proof.
  intros Hc. unfold tail_identifier.
  assert (a ++ c :: b <> []) as N0 by (destruct a; discriminate).
  destruct (a ++ c :: b) as [|x y] eqn:E; [congruence|]. rewrite <- E. clear E N0 x y.
  rewrite rev_app_distr. simpl. rewrite <- app_assoc. simpl. rewrite (tail_scan_stop _ _ _ Hc).
  destruct b as [|b0 b']; [reflexivity|reflexivity].
Qed.

(* ================= new head: the '.' branch never fires ================= *)
Lemma last_index_spec s c : forall i found p, last_index s c i found = Some p ->
  found = Some p \/ ((i <= p)%nat /\ nth_error s (p - i) = Some c).
Proof.
  induction s as [|x s IH]; intros i found p H; simpl in H; [left; exact H|].
  apply IH in H. destruct H as [H|[L H]].
  - destruct (N.eqb_spec x c) as [->|Ne]; [|left; exact H].
    inversion H; subst. right. split; [lia|]. rewrite Nat.sub_diag. reflexivity.
  - right. split; [lia|]. replace (p - i)%nat with (S (p - S i)) by lia. exact H.
Qed.

Theorem new_head_spec s : new_head s ++ tail_identifier s = s.
Proof.
  unfold new_head. set (fixed := (length s - length (tail_identifier s))%nat).
  assert (firstn fixed s ++ tail_identifier s = s) as Main by (symmetry; apply tail_identifier_split).
  destruct (last_index s 46%N 0 None) as [pos|] eqn:E; [|exact Main].
  destruct (Nat.leb_spec fixed pos) as [L|L]; [|exact Main]. exfalso.
  apply last_index_spec in E as [E|[_ E]]; [discriminate|]. rewrite Nat.sub_0_r in E.
  destruct (tail_identifier_suffix s) as (m & Lm & Em & F).
  assert (fixed = m) as Fm by (unfold fixed; rewrite Em, skipn_length; lia).
  assert (nth_error (tail_identifier s) (pos - m) = Some 46%N) as K.
  { rewrite Em, nth_error_skipn. replace (m + (pos - m))%nat with pos by lia. exact E. }
  apply nth_error_In in K. rewrite Forall_forall in F. specialize (F _ K). discriminate.
Qed.

(* ================= strings.Split(head, ".") ================= *)
Fixpoint join_dot (ws : list str) : str :=
  match ws with
  | [] => []
  | [w] => w
  | w :: rest => w ++ 46%N :: join_dot rest
  end.

Lemma split_dot_nonempty s : split_dot s <> [].
Proof.
  destruct s as [|c s]; simpl; [discriminate|]. destruct (N.eqb c 46); [discriminate|].
  destruct (split_dot s); discriminate.
Qed.

Lemma join_split s : join_dot (split_dot s) = s.
Proof.
  induction s as [|c s IH]; [reflexivity|]. simpl. destruct (N.eqb_spec c 46) as [->|Ne].
  - pose proof (split_dot_nonempty s) as Nn. destruct (split_dot s) as [|w ws]; [congruence|].
    simpl in *. rewrite IH. reflexivity.
  - pose proof (split_dot_nonempty s) as Nn. destruct (split_dot s) as [|w ws]; [congruence|].
    destruct ws as [|w2 ws]; simpl in *; rewrite <- IH; reflexivity.
Qed.

Lemma join_last ws : ws <> [] -> exists stuff, join_dot ws = stuff ++ last ws [] /\
  (stuff = [] \/ exists s', stuff = s' ++ [46%N]).
Proof.
  induction ws as [|w ws IH]; intros Nn; [congruence|]. destruct ws as [|w2 ws].
  - exists []. split; [reflexivity|left; reflexivity].
  - destruct IH as (stuff & E & Hs); [discriminate|].
    change (join_dot (w :: w2 :: ws)) with (w ++ 46%N :: join_dot (w2 :: ws)).
    change (last (w :: w2 :: ws) []) with (last (w2 :: ws) []). rewrite E.
    exists (w ++ 46%N :: stuff). split; [rewrite <- app_assoc; reflexivity|]. right.
    destruct Hs as [->|(s' & ->)].
    + exists w. reflexivity.
    + exists (w ++ 46%N :: s'). rewrite <- app_assoc. reflexivity.
Qed.

Lemma head_last_word s : exists stuff, s = stuff ++ last (split_dot s) [] /\
  (stuff = [] \/ exists s', stuff = s' ++ [46%N]).
Proof.
  destruct (join_last (split_dot s) (split_dot_nonempty s)) as (stuff & E & H).
  rewrite join_split in E. eauto.
Qed.

(* ================= blanks ================= *)
Definition ends_nonblank (s : str) : Prop := forall a c, s = a ++ [c] -> is_space c = false.

Lemma space_not_ident c : is_space c = true -> identc c = false.
Proof.
  unfold is_space, identc, is_letter, is_digit. intros H.
  apply orb_true_iff in H. destruct H as [H|H].
  - apply N.eqb_eq in H. subst c. reflexivity.
  - apply andb_true_iff in H as [H1 H2]. apply N.leb_le in H1. apply N.leb_le in H2.
    repeat match goal with
    | |- context [N.leb ?a ?b] => destruct (N.leb_spec a b); try lia
    | |- context [N.eqb ?a ?b] => destruct (N.eqb_spec a b); try lia
    end; reflexivity.
Qed.

Lemma trim_left_split s : exists sp, s = sp ++ trim_left s /\ Forall (fun c => is_space c = true) sp.
Proof.
  induction s as [|x s IH]; simpl; [exists []; split; [reflexivity|constructor]|].
  destruct (is_space x) eqn:E.
  - destruct IH as (sp & Es & F). exists (x :: sp). split; [simpl; f_equal; exact Es|constructor; assumption].
  - exists []. split; [reflexivity|constructor].
Qed.

Lemma tail_identifier_blanks sp s : Forall (fun c => is_space c = true) sp ->
  tail_identifier (sp ++ s) = tail_identifier s.
Proof.
  intros F. destruct sp as [|x0 sp0]; [reflexivity|].
  destruct (@exists_last _ (x0 :: sp0)) as (sp' & c & E); [discriminate|]. rewrite E in *.
  rewrite <- app_assoc. simpl. apply tail_identifier_cut. apply space_not_ident.
    rewrite Forall_forall in F. apply F. apply in_app_iff. right. left. reflexivity.
Qed.

(* ================= the word completed = TailIdentifier(head) ================= *)
Lemma chain_loop_ext : forall ws b acc, exists pre, chain_loop ws b acc = pre ++ acc.
Proof.
  induction ws as [|w ws IH]; intros b acc; simpl; [exists []; reflexivity|].
  destruct (b && (length (trim_space w) =? 0)%nat).
  - destruct (IH false (trim_space w :: acc)) as (pre & ->). exists (pre ++ [trim_space w]).
    rewrite <- app_assoc. reflexivity.
  - destruct (negb (length (tail_identifier (trim_space w)) =? length (trim_space w))%nat).
    + destruct (negb (length (tail_identifier (trim_space w)) =? 0)%nat).
      * exists [tail_identifier (trim_space w)]. reflexivity.
      * exists []. reflexivity.
    + destruct (IH false (trim_space w :: acc)) as (pre & ->). exists (pre ++ [trim_space w]).
      rewrite <- app_assoc. reflexivity.
Qed.

Lemma last_app_ne {A} (l1 l2 : list A) d : l2 <> [] -> last (l1 ++ l2) d = last l2 d.
Proof.
  intros Nn. induction l1 as [|x l1 IH]; [reflexivity|]. simpl.
  destruct (l1 ++ l2) eqn:E; [|exact IH]. apply app_eq_nil in E as [_ E]. congruence.
Qed.

Lemma typed_word h : split_words h <> [] ->
  last (split_words h) [] = tail_identifier (trim_space (last (split_dot h) [])).
Proof.
  unfold split_words. destruct (exists_last (split_dot_nonempty h)) as (l' & wl & E). rewrite E.
  rewrite last_last, rev_app_distr. simpl.
  destruct (Nat.eqb_spec (length (trim_space wl)) 0) as [Z0|NZ].
  - intros _. destruct (chain_loop_ext (rev l') false [trim_space wl]) as (pre & ->).
    rewrite last_app_ne by discriminate. simpl.
    destruct (trim_space wl); [reflexivity|discriminate].
  - destruct (Nat.eqb_spec (length (tail_identifier (trim_space wl))) (length (trim_space wl))) as [Q|Q]; simpl.
    + intros _. destruct (chain_loop_ext (rev l') false [trim_space wl]) as (pre & ->).
      rewrite last_app_ne by discriminate. simpl. symmetry. apply tail_identifier_full. exact Q.
    + destruct (Nat.eqb_spec (length (tail_identifier (trim_space wl))) 0) as [Q0|Q0]; simpl.
      * intros H. congruence.
      * intros _. reflexivity.
Qed.

Lemma trim_space_nonblank s : ends_nonblank s -> trim_space s = trim_left s.
Proof.
  intros En. unfold trim_space. destruct (trim_left_split s) as (sp & Es & _).
  set (x := trim_left s) in *.
  destruct x as [|x0 x1] eqn:Ex; [reflexivity|]. rewrite <- Ex in *.
  destruct (@exists_last _ x) as (a & c & Ea); [rewrite Ex; discriminate|].
  assert (is_space c = false) as Hc.
  { apply (En (sp ++ a) c). rewrite Es, Ea, app_assoc. reflexivity. }
  rewrite Ea, rev_app_distr. simpl. rewrite Hc. simpl. rewrite rev_involutive. reflexivity.
Qed.

Lemma ident46 : identc 46%N = false.
Proof. reflexivity. Qed.

Theorem typed_is_tail h : ends_nonblank h ->
  tail_identifier (trim_space (last (split_dot h) [])) = tail_identifier h.
Proof.
  intros En. destruct (head_last_word h) as (stuff & E & Hs). set (wl := last (split_dot h) []) in *.
  assert (ends_nonblank wl) as Enw.
  { intros a c Ea. apply (En (stuff ++ a) c). rewrite E at 1. rewrite Ea, app_assoc. reflexivity. }
  rewrite (trim_space_nonblank wl Enw).
  destruct (trim_left_split wl) as (sp & Es & Fs).
  assert (tail_identifier (trim_left wl) = tail_identifier wl) as ->.
  { rewrite Es at 2. symmetry. apply tail_identifier_blanks. exact Fs. }
  rewrite E at 1. destruct Hs as [->|(s' & ->)]; [reflexivity|].
  rewrite <- app_assoc. simpl. symmetry. apply tail_identifier_cut. apply ident46.
Qed.

(* ================= Interp.CompleteWords ================= *)
Theorem complete_line_spec e line pos h comps t : (0 <= pos)%Z ->
  complete_line e line pos = (h, comps, t) ->
  let p := Nat.min (Z.to_nat pos) (length line) in
  let head := firstn p line in
  t = skipn p line /\
  StronglySorted str_lt comps /\
  (comps = [] -> h = head) /\
  (comps <> [] ->
     h ++ tail_identifier head = head /\
     line = h ++ tail_identifier head ++ t /\
     (ends_nonblank head -> Forall (fun c => prefixb (tail_identifier head) c = true) comps)).
Proof.
  intros Hpos. unfold complete_line. destruct (Z.ltb_spec pos 0) as [L|_]; [lia|].
  set (p := Nat.min (Z.to_nat pos) (length line)). set (head := firstn p line).
  destruct (comp_complete_words_sound e (split_words head)) as [S F].
  destruct (comp_complete_words e (split_words head)) as [|c cs] eqn:E; intros Q; inversion Q; subst; cbv zeta.
  - split; [reflexivity|]. split; [constructor|]. split; [reflexivity|]. intros N0. congruence.
  - split; [reflexivity|]. split; [exact S|]. split; [discriminate|]. intros _.
    split; [apply new_head_spec|]. split.
    + rewrite app_assoc, new_head_spec. symmetry. apply firstn_skipn.
    + intros En. assert (split_words head <> []) as Nw.
      { intros Z0. rewrite Z0 in E. discriminate. }
      rewrite (typed_word head Nw), (typed_is_tail head En) in F. exact F.
Qed.

(* C36 — proofs, part 1: sortUnique, prefix filtering, "exactly the matching names" *)
From Coq Require Import List NArith ZArith Bool Arith Lia Sorted Permutation.
From Verif Require Import Common.GoStr C36.Model.
Import ListNotations.

(* ================= string order ================= *)
Definition str_le (a b : str) : Prop := a = b \/ str_lt a b.

Lemma str_le_refl a : str_le a a.
Proof. left; reflexivity. Qed.

Lemma str_lt_le_trans a b c : str_lt a b -> str_le b c -> str_lt a c.
Proof. intros H [<-|K]; [exact H|eapply str_lt_trans; eauto]. Qed.

Lemma str_le_lt_trans a b c : str_le a b -> str_lt b c -> str_lt a c.
Proof. intros [->|K] H; [exact H|eapply str_lt_trans; eauto]. Qed.

Lemma str_le_trans a b c : str_le a b -> str_le b c -> str_le a c.
Proof. intros [->|K] H; [exact H|]. right. eapply str_lt_le_trans; eauto. Qed.

Lemma not_ltb_le y x : str_ltb y x = false -> str_le x y.
Proof.
  intros H. destruct (str_trichotomy x y) as [L|[E|L]].
  - right; exact L.
  - left; exact E.
  - apply str_ltb_lt in L. congruence.
Qed.

Lemma str_eqb_neq a b : str_eqb a b = false <-> a <> b.
Proof.
  split.
  - intros H E. apply str_eqb_eq in E. congruence.
  - intros H. destruct (str_eqb a b) eqn:E; [|reflexivity]. apply str_eqb_eq in E. contradiction.
Qed.

(* ================= sort.Strings model ================= *)
Lemma insert_str_perm x v : Permutation (x :: v) (insert_str x v).
Proof.
  induction v as [|y v IH]; simpl; [apply Permutation_refl|].
  destruct (str_ltb y x); [|apply Permutation_refl].
  eapply Permutation_trans; [apply perm_swap|]. apply perm_skip. exact IH.
Qed.

Lemma insert_str_sorted x v : StronglySorted str_le v -> StronglySorted str_le (insert_str x v).
Proof.
  induction 1 as [|y v S IH F]; simpl; [constructor; constructor|].
  destruct (str_ltb y x) eqn:L.
  - constructor; [exact IH|]. eapply Permutation_Forall; [apply insert_str_perm|].
    constructor; [right; apply str_ltb_lt; exact L|exact F].
  - pose proof (not_ltb_le _ _ L) as Lxy. constructor; [constructor; assumption|].
    constructor; [exact Lxy|]. eapply Forall_impl; [|exact F]. intros z Hz. eapply str_le_trans; eauto.
Qed.

Lemma sort_strs_perm v : Permutation v (sort_strs v).
Proof.
  induction v as [|x v IH]; simpl; [constructor|].
  eapply Permutation_trans; [apply perm_skip; exact IH|apply insert_str_perm].
Qed.

Lemma sort_strs_sorted v : StronglySorted str_le (sort_strs v).
Proof. induction v as [|x v IH]; simpl; [constructor|apply insert_str_sorted; exact IH]. Qed.

(* ================= the compaction loop ================= *)
Lemma uniq_loop_spec v : forall prev, StronglySorted str_le (prev :: v) ->
  StronglySorted str_lt (prev :: uniq_loop prev v) /\
  (forall x, In x (prev :: uniq_loop prev v) <-> In x (prev :: v)).
Proof.
  induction v as [|s v IH]; intros prev S; simpl.
  - split; [constructor; constructor|tauto].
  - inversion S as [|? ? S' F]; subst. inversion F as [|? ? Hps F']; subst.
    destruct (str_eqb s prev) eqn:E.
    + apply str_eqb_eq in E. subst s.
      assert (StronglySorted str_le (prev :: v)) as S2.
      { constructor; [inversion S'; assumption|exact F']. }
      destruct (IH prev S2) as [A B]. split; [exact A|].
      intros x. specialize (B x). simpl in *. tauto.
    + apply str_eqb_neq in E. destruct (IH s S') as [A B].
      assert (str_lt prev s) as Lps by (destruct Hps as [Q|Q]; [congruence|exact Q]).
      split.
      * constructor; [exact A|]. apply Forall_forall. intros y Hy. apply B in Hy.
        inversion S' as [|? ? _ Fs]; subst. rewrite Forall_forall in Fs.
        destruct Hy as [<-|Hy]; [exact Lps|]. eapply str_lt_le_trans; [exact Lps|]. apply Fs; exact Hy.
      * intros x. specialize (B x). simpl in *. tauto.
Qed.

Lemma sortUnique_two a b v : sortUnique (a :: b :: v) =
  match sort_strs (a :: b :: v) with x :: w => x :: uniq_loop x w | [] => [] end.
Proof. reflexivity. Qed.

Theorem sortUnique_spec v :
  StronglySorted str_lt (sortUnique v) /\ (forall x, In x (sortUnique v) <-> In x v).
Proof.
  destruct v as [|a [|b v]].
  - split; [constructor|simpl; tauto].
  - split; [constructor; constructor|simpl; tauto].
  - rewrite sortUnique_two. set (l := a :: b :: v).
    pose proof (sort_strs_sorted l) as S. pose proof (sort_strs_perm l) as P.
    destruct (sort_strs l) as [|x w] eqn:E.
    + exfalso. apply Permutation_sym, Permutation_nil in P. discriminate.
    + destruct (uniq_loop_spec w x S) as [A B]. split; [exact A|].
      intros y. rewrite B. split; intros H.
      * eapply Permutation_in; [apply Permutation_sym; exact P|exact H].
      * eapply Permutation_in; [exact P|exact H].
Qed.

Lemma sorted_lt_NoDup l : StronglySorted str_lt l -> NoDup l.
Proof.
  induction 1 as [|x l S IH F]; constructor; [|exact IH].
  intros H. rewrite Forall_forall in F. apply (str_lt_irrefl x). apply F; exact H.
Qed.

(* a strictly sorted list is determined by its set of elements *)
Lemma sorted_lt_unique l1 : forall l2, StronglySorted str_lt l1 -> StronglySorted str_lt l2 ->
  (forall x, In x l1 <-> In x l2) -> l1 = l2.
Proof.
  induction l1 as [|a l1 IH]; intros l2 S1 S2 H.
  - destruct l2 as [|b l2]; [reflexivity|]. exfalso. apply (H b). left; reflexivity.
  - destruct l2 as [|b l2]; [exfalso; apply (H a); left; reflexivity|].
    inversion S1 as [|? ? S1' F1]; subst. inversion S2 as [|? ? S2' F2]; subst.
    rewrite Forall_forall in F1, F2.
    assert (a = b) as ->.
    { destruct (proj1 (H a) (or_introl eq_refl)) as [E|Ha]; [congruence|].
      destruct (proj2 (H b) (or_introl eq_refl)) as [E|Hb]; [congruence|].
      exfalso. apply (str_lt_irrefl a). eapply str_lt_trans; [apply F1; exact Hb|apply F2; exact Ha]. }
    f_equal. apply IH; [exact S1'|exact S2'|]. intros x. split; intros Hx.
    + destruct (proj1 (H x) (or_intror Hx)) as [E|K]; [|exact K].
      exfalso. subst x. apply (str_lt_irrefl b). apply F1; exact Hx.
    + destruct (proj2 (H x) (or_intror Hx)) as [E|K]; [|exact K].
      exfalso. subst x. apply (str_lt_irrefl b). apply F2; exact Hx.
Qed.

(* sortUnique is a function of the set of its input: the iteration order of Go maps cannot matter *)
Theorem sortUnique_set v w : (forall x, In x v <-> In x w) -> sortUnique v = sortUnique w.
Proof.
  intros H. destruct (sortUnique_spec v) as [S1 I1]. destruct (sortUnique_spec w) as [S2 I2].
  apply sorted_lt_unique; [exact S1|exact S2|]. intros x. rewrite I1, I2. apply H.
Qed.

(* ================= prefix test ================= *)
Lemma firstn_eq_prefix w : forall n, (length w <= length n)%nat -> firstn (length w) n = w -> prefixb w n = true.
Proof.
  induction w as [|x w IH]; intros n L E; [reflexivity|].
  destruct n as [|y n]; simpl in *; [lia|]. inversion E; subst. rewrite N.eqb_refl. simpl.
  rewrite H1. apply IH; [lia|exact H1].
Qed.

Lemma prefix_firstn w : forall n, prefixb w n = true -> (length w <= length n)%nat /\ firstn (length w) n = w.
Proof.
  induction w as [|x w IH]; intros n H; simpl; [split; [lia|reflexivity]|].
  destruct n as [|y n]; simpl in H; [discriminate|]. apply andb_true_iff in H as [H1 H2].
  apply N.eqb_eq in H1. subst y. destruct (IH _ H2) as [L E]. simpl. split; [lia|]. f_equal. exact E.
Qed.

Lemma has_prefix_prefixb w n : has_prefix w n = prefixb w n.
Proof.
  unfold has_prefix. destruct (prefixb w n) eqn:P.
  - destruct (prefix_firstn _ _ P) as [L E]. apply andb_true_iff. split.
    + apply Nat.leb_le; exact L.
    + apply str_eqb_eq; exact E.
  - destruct (Nat.leb_spec (length w) (length n)) as [L|L]; [|reflexivity]. simpl.
    destruct (str_eqb (firstn (length w) n) w) eqn:E; [|reflexivity].
    apply str_eqb_eq in E. rewrite (firstn_eq_prefix _ _ L E) in P. discriminate.
Qed.

Lemma has_prefix_nil n : has_prefix [] n = true.
Proof. rewrite has_prefix_prefixb. reflexivity. Qed.

Lemma filter_prefix_in w l n : In n (filter (has_prefix w) l) <-> In n l /\ prefixb w n = true.
Proof. rewrite filter_In, has_prefix_prefixb. tauto. Qed.

(* ================= completeWord ================= *)
Definition candidates (e : env) : list str := flat_map scope_names e ++ keywords.

Lemma completeWord_raw_in e w n :
  In n (flat_map (fun sc => filter (has_prefix w) (map fst (s_binds sc)) ++
                            filter (has_prefix w) (map fst (s_types sc))) e
        ++ filter (has_prefix w) keywords)
  <-> In n (candidates e) /\ prefixb w n = true.
Proof.
  unfold candidates, scope_names. rewrite !in_app_iff, !in_flat_map, filter_prefix_in. split.
  - intros [(sc & Hsc & H)|[H P]]; [|tauto].
    apply in_app_iff in H. rewrite !filter_prefix_in in H.
    split; [left; exists sc; split; [exact Hsc|apply in_app_iff; tauto]|tauto].
  - intros [[(sc & Hsc & H)|H] P]; [left|right; tauto].
    exists sc. split; [exact Hsc|]. apply in_app_iff in H. apply in_app_iff. rewrite !filter_prefix_in. tauto.
Qed.

Theorem completeWord_spec e w : w <> [] ->
  StronglySorted str_lt (completeWord e w) /\
  (forall n, In n (completeWord e w) <-> In n (candidates e) /\ prefixb w n = true).
Proof.
  intros Nw. unfold completeWord. destruct w as [|c w]; [congruence|].
  match goal with |- context [sortUnique ?l] => destruct (sortUnique_spec l) as [S I] end.
  split; [exact S|]. intros n. rewrite I. apply completeWord_raw_in.
Qed.

Lemma completeWord_nil e : completeWord e [] = [].
Proof. reflexivity. Qed.

(* two states exposing the same set of names give the same answer, whatever the map iteration order *)
Theorem completeWord_order_irrelevant e e' w :
  (forall n, In n (candidates e) <-> In n (candidates e')) -> completeWord e w = completeWord e' w.
Proof.
  intros H. destruct w as [|c w]; [reflexivity|].
  destruct (completeWord_spec e (c :: w)) as [S1 I1]; [discriminate|].
  destruct (completeWord_spec e' (c :: w)) as [S2 I2]; [discriminate|].
  apply sorted_lt_unique; [exact S1|exact S2|]. intros n. rewrite I1, I2, (H n). tauto.
Qed.

(* ================= fields and methods: filtering commutes with listing ================= *)
Lemma filter_flat_map {A B} (f : B -> bool) (g : A -> list B) l :
  filter f (flat_map g l) = flat_map (fun x => filter f (g x)) l.
Proof. induction l as [|x l IH]; simpl; [reflexivity|]. rewrite filter_app, IH. reflexivity. Qed.

Lemma filter_true {A} (f : A -> bool) l : (forall x, f x = true) -> filter f l = l.
Proof. intros H. induction l as [|x l IH]; simpl; [reflexivity|]. rewrite H, IH. reflexivity. Qed.

Lemma collect_methods_filter typ p : collect_methods typ p = filter (has_prefix p) (collect_methods typ []).
Proof.
  unfold collect_methods. destruct typ as [id ms fs|e|ms|ms]; try (rewrite (filter_true (has_prefix [])); [reflexivity|apply has_prefix_nil]).
  destruct e; try reflexivity; rewrite (filter_true (has_prefix [])); try reflexivity; apply has_prefix_nil.
Qed.

Theorem list_fm_filter t p : list_fm t p = filter (has_prefix p) (list_fm t []).
Proof.
  unfold list_fm.
  assert (forall t1, collect_methods t1 p ++
     match t1 with
     | TStruct _ _ _ => flat_map (fun f => (if has_prefix p (fname f) then [fname f] else []) ++
                             (if fanon f then collect_methods (ftype f) p else []))
                          (visit_fields (S (ty_height t1)) [t1] [])
     | _ => []
     end =
     filter (has_prefix p) (collect_methods t1 [] ++
     match t1 with
     | TStruct _ _ _ => flat_map (fun f => (if has_prefix [] (fname f) then [fname f] else []) ++
                             (if fanon f then collect_methods (ftype f) [] else []))
                          (visit_fields (S (ty_height t1)) [t1] [])
     | _ => []
     end)) as K.
  { intros t1. rewrite filter_app, <- collect_methods_filter. f_equal.
    destruct t1; try reflexivity. rewrite filter_flat_map. apply flat_map_ext. intros f.
    rewrite filter_app, has_prefix_nil.
    replace (filter (has_prefix p) [fname f]) with (if has_prefix p (fname f) then [fname f] else [])
      by (simpl; destruct (has_prefix p (fname f)); reflexivity).
    f_equal. destruct (fanon f); [apply collect_methods_filter|reflexivity]. }
  destruct t as [id ms fs|e|ms|ms]; try apply K.
  destruct e; try apply K. reflexivity.
Qed.

Lemma last_candidates_filter nd w : last_candidates nd w = filter (has_prefix w) (last_candidates nd []).
Proof.
  unfold last_candidates. destruct (norm nd) as [b|bs ts|t].
  - reflexivity.
  - rewrite filter_app, !(filter_true (has_prefix [])) by apply has_prefix_nil. reflexivity.
  - apply list_fm_filter.
Qed.

(* members a node offers: what completeLastWord lists for the empty prefix *)
Definition members (nd : node) : list str := last_candidates nd [].

Theorem completeLastWord_spec nd w :
  StronglySorted str_lt (completeLastWord nd w) /\
  (forall n, In n (completeLastWord nd w) <-> In n (members nd) /\ prefixb w n = true).
Proof.
  unfold completeLastWord. destruct (sortUnique_spec (last_candidates nd w)) as [S I].
  split; [exact S|]. intros n. rewrite I, last_candidates_filter. apply filter_prefix_in.
Qed.

(* ================= Comp.CompleteWords ================= *)
Lemma walk_cons2 nd i a b ws : walk nd i (a :: b :: ws) =
  match norm nd with
  | NImp bs ts =>
      if negb (Nat.eqb i 0) then None
      else match assoc bs a with
           | Some t => walk (NBind (BVal t)) (S i) (b :: ws)
           | None => match assoc ts a with
                     | Some t => walk (NType t) (S i) (b :: ws)
                     | None => None
                     end
           end
  | NType t =>
      match try_lookup_field (deref1 t) a with
      | Some ft => walk (NType ft) (S i) (b :: ws)
      | None => None
      end
  | NBind _ => None
  end.
Proof. reflexivity. Qed.

Lemma walk_last : forall ws nd i nd' w, walk nd i ws = Some (nd', w) -> w = last ws [].
Proof.
  induction ws as [|a ws IH]; intros nd i nd' w H; [discriminate|].
  destruct ws as [|b ws].
  - simpl in H. inversion H; reflexivity.
  - change (last (a :: b :: ws) []) with (last (b :: ws) []).
    rewrite walk_cons2 in H. destruct (norm nd) as [bd|bs ts|t]; [discriminate| |].
    + destruct (negb (i =? 0)%nat); [discriminate|].
      destruct (assoc bs a); [eapply IH; exact H|]. destruct (assoc ts a); [eapply IH; exact H|discriminate].
    + destruct (try_lookup_field (deref1 t) a); [eapply IH; exact H|discriminate].
Qed.

(* every answer of Comp.CompleteWords is strictly sorted and consists of names that start with the last word *)
Theorem comp_complete_words_sound e ws :
  StronglySorted str_lt (comp_complete_words e ws) /\
  Forall (fun c => prefixb (last ws []) c = true) (comp_complete_words e ws).
Proof.
  unfold comp_complete_words. destruct ws as [|w0 [|w1 rest]].
  - split; constructor.
  - destruct w0 as [|c w0]; [split; constructor|].
    destruct (completeWord_spec e (c :: w0)) as [S I]; [discriminate|]. split; [exact S|].
    apply Forall_forall. intros n Hn. apply I in Hn. apply Hn.
  - destruct (first_node e w0) as [nd|]; [|split; constructor].
    destruct (walk nd 0 (w1 :: rest)) as [[nd' w]|] eqn:W; [|split; constructor].
    apply walk_last in W. change (last (w0 :: w1 :: rest) []) with (last (w1 :: rest) []). rewrite <- W.
    destruct (completeLastWord_spec nd' w) as [S I]. split; [exact S|].
    apply Forall_forall. intros n Hn. apply I in Hn. apply Hn.
Qed.

(* exact form: which node is listed, and with which prefix *)
Theorem comp_complete_words_exact e ws :
  match ws with
  | [] => comp_complete_words e ws = []
  | [w] => w <> [] -> forall n, In n (comp_complete_words e ws) <-> In n (candidates e) /\ prefixb w n = true
  | w0 :: rest =>
      match first_node e w0 with
      | None => comp_complete_words e ws = []
      | Some nd =>
          match walk nd 0 rest with
          | None => comp_complete_words e ws = []
          | Some (nd', w) => forall n, In n (comp_complete_words e ws) <-> In n (members nd') /\ prefixb w n = true
          end
      end
  end.
Proof.
  destruct ws as [|w0 [|w1 rest]]; [reflexivity| |].
  - intros Nw. apply completeWord_spec; exact Nw.
  - unfold comp_complete_words. destruct (first_node e w0) as [nd|]; [|reflexivity].
    destruct (walk nd 0 (w1 :: rest)) as [[nd' w]|]; [|reflexivity]. apply completeLastWord_spec.
Qed.

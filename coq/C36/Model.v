(* C36 — executable model of code completion:
     fast/repl.go   Interp.CompleteWords, Comp.CompleteWords, completeWords, completeWord, completeLastWord, sortUnique
     fast/selector.go  listFieldsAndMethods (with fixes/C36-1.diff: methods only of embedded fields, pointer deref on typ),
                       TryLookupFieldOrMethod
     xreflect/lookup.go VisitFields, FieldByName/MethodByName (breadth-first by depth, as far as completion uses them)
     imports/util/util.go TailIdentifier (ASCII: bytes >= 0x80 are treated as non-identifier characters)
   Definitions only. Strings are byte lists (Common.GoStr). *)
From Coq Require Import List NArith ZArith Bool Arith.
From Verif Require Import Common.GoStr.
Import ListNotations.

(* ---------- strings ---------- *)
Definition is_space (x : N) : bool := N.eqb x 32 || (N.leb 9 x && N.leb x 13).
Fixpoint trim_left (s : str) : str :=
  match s with
  | x :: s' => if is_space x then trim_left s' else s
  | [] => []
  end.
(* strings.TrimSpace, ASCII white space *)
Definition trim_space (s : str) : str := rev (trim_left (rev (trim_left s))).

(* strings.Split(s, "."): never empty *)
Fixpoint split_dot (s : str) : list str :=
  match s with
  | [] => [[]]
  | c :: s' =>
      if N.eqb c 46 then [] :: split_dot s'
      else match split_dot s' with
           | w :: ws => (c :: w) :: ws
           | [] => [[c]]
           end
  end.

Definition is_letter (ch : N) : bool :=
  (N.leb 65 ch && N.leb ch 90) || N.eqb ch 95 || (N.leb 97 ch && N.leb ch 122).
Definition is_digit (ch : N) : bool := N.leb 48 ch && N.leb ch 57.

(* TailIdentifier's loop "for i = n-1; i >= 0; i--": r is the not yet visited part, reversed;
   acc = chars[i+1:] collected so far; digit = class of the last accepted character *)
Fixpoint tail_scan (r : str) (digit : bool) (acc : str) : str * bool :=
  match r with
  | [] => (acc, digit)
  | ch :: r' =>
      if is_letter ch then tail_scan r' false (ch :: acc)
      else if is_digit ch then tail_scan r' true (ch :: acc)
      else (acc, digit)
  end.
Definition tail_identifier (s : str) : str :=
  match s with
  | [] => []
  | _ => let '(acc, digit) := tail_scan (rev s) false [] in
         if digit then tl acc (* i++ *) else acc
  end.

(* len(name) >= size && name[:size] == word *)
Definition has_prefix (word name : str) : bool :=
  Nat.leb (length word) (length name) && str_eqb (firstn (length word) name) word.

(* strings.LastIndexByte *)
Fixpoint last_index (s : str) (c : N) (i : nat) (found : option nat) : option nat :=
  match s with
  | [] => found
  | x :: s' => last_index s' c (S i) (if N.eqb x c then Some i else found)
  end.

(* ---------- sortUnique ---------- *)
(* sort.Strings: trusted to sort; modelled as insertion sort (duplicates kept) *)
Fixpoint insert_str (x : str) (v : list str) : list str :=
  match v with
  | [] => [x]
  | y :: v' => if str_ltb y x then y :: insert_str x v' else x :: y :: v'
  end.
Definition sort_strs (v : list str) : list str := fold_right insert_str [] v.

(* the compaction loop: for i := 1; i < n; i++ { if s := vec[i]; s != prev { vec[j] = s; prev = s; j++ } } *)
Fixpoint uniq_loop (prev : str) (v : list str) : list str :=
  match v with
  | [] => []
  | s :: v' => if str_eqb s prev then uniq_loop prev v' else s :: uniq_loop s v'
  end.
Definition sortUnique (vec : list str) : list str :=
  match vec with
  | [] | [_] => vec                     (* n <= 1: returned unchanged *)
  | _ => match sort_strs vec with
         | x :: v => x :: uniq_loop x v
         | [] => []
         end
  end.

(* ---------- what completion sees of the interpreter state ---------- *)
(* a type: only kind, method names (NumMethod/Method(i).Name) and fields (name, Anonymous, type) matter.
   id identifies a struct type (VisitFields keeps a 'seen' set). *)
Inductive ty :=
| TStruct (id : N) (methods : list str) (fields : list (str * bool * ty))
| TPtr (elem : ty)
| TIface (methods : list str)
| TOther (methods : list str).

Definition fld := (str * bool * ty)%type.
Definition fname (f : fld) : str := fst (fst f).
Definition fanon (f : fld) : bool := snd (fst f).
Definition ftype (f : fld) : ty := snd f.

(* a Bind is either a constant holding an *Import, or anything else (only its type matters) *)
Inductive bind :=
| BImport (binds : list (str * ty)) (types : list (str * ty))
| BVal (t : ty).

Record scope := mkScope { s_binds : list (str * bind); s_types : list (str * ty) }.
Definition env := list scope.             (* innermost first: c, c.Outer, ... *)

Inductive node := NBind (b : bind) | NImp (binds types : list (str * ty)) | NType (t : ty).

Fixpoint assoc {A} (l : list (str * A)) (k : str) : option A :=
  match l with
  | [] => None
  | (n, v) :: l' => if str_eqb n k then Some v else assoc l' k
  end.

(* token.BREAK .. token.VAR in token order, then "macro", "template" *)
Definition S_ (l : list N) : str := l.
Definition keywords : list str := [
  [98;114;101;97;107]; [99;97;115;101]; [99;104;97;110]; [99;111;110;115;116]; [99;111;110;116;105;110;117;101];
  [100;101;102;97;117;108;116]; [100;101;102;101;114]; [101;108;115;101]; [102;97;108;108;116;104;114;111;117;103;104]; [102;111;114];
  [102;117;110;99]; [103;111]; [103;111;116;111]; [105;102]; [105;109;112;111;114;116];
  [105;110;116;101;114;102;97;99;101]; [109;97;112]; [112;97;99;107;97;103;101]; [114;97;110;103;101]; [114;101;116;117;114;110];
  [115;101;108;101;99;116]; [115;116;114;117;99;116]; [115;119;105;116;99;104]; [116;121;112;101]; [118;97;114];
  [109;97;99;114;111]; [116;101;109;112;108;97;116;101] ]%N.

(* ---------- completeWord ---------- *)
Definition scope_names (sc : scope) : list str := map fst (s_binds sc) ++ map fst (s_types sc).

Definition completeWord (e : env) (word : str) : list str :=
  match word with
  | [] => sortUnique []
  | _ =>
      sortUnique (flat_map (fun sc => filter (has_prefix word) (map fst (s_binds sc)) ++
                                      filter (has_prefix word) (map fst (s_types sc))) e
                  ++ filter (has_prefix word) keywords)
  end.

(* ---------- xreflect: fields and methods ---------- *)
Fixpoint ty_height (t : ty) : nat :=
  match t with
  | TStruct _ _ fs =>
      S ((fix go (l : list (str * bool * ty)) : nat :=
            match l with
            | [] => 0
            | (_, ft) :: l' => Nat.max (ty_height ft) (go l')
            end) fs)
  | TPtr e => S (ty_height e)
  | _ => 1
  end.

Definition own_methods (t : ty) : list str :=
  match t with
  | TStruct _ ms _ => ms
  | TIface ms => ms
  | TOther ms => ms
  | TPtr _ => []
  end.

(* derefStruct *)
Definition deref_struct (t : ty) : option (N * list fld) :=
  match t with
  | TStruct id _ fs => Some (id, fs)
  | TPtr (TStruct id _ fs) => Some (id, fs)
  | _ => None
  end.

Definition mem_id (x : N) (l : list N) : bool := existsb (N.eqb x) l.

(* one breadth-first level of Universe.VisitFields: (fields visited in order, next level, seen) *)
Fixpoint visit_level (curr : list ty) (seen : list N) : list fld * list ty * list N :=
  match curr with
  | [] => ([], [], seen)
  | xt :: rest =>
      match deref_struct xt with
      | Some (id, fs) =>
          if mem_id id seen then visit_level rest seen
          else let '(vf, tv, seen') := visit_level rest (id :: seen) in
               (fs ++ vf, map ftype (filter fanon fs) ++ tv, seen')
      | None => visit_level rest seen
      end
  end.

(* for len(curr) != 0 { ... }; fuel = bound on the nesting depth *)
Fixpoint visit_fields (fuel : nat) (curr : list ty) (seen : list N) : list fld :=
  match fuel with
  | O => []
  | S f =>
      match curr with
      | [] => []
      | _ => let '(vf, tv, seen') := visit_level curr seen in vf ++ visit_fields f tv seen'
      end
  end.

(* collectMethods (after the fix: tests and dereferences typ, not the captured t) *)
Definition collect_methods (typ : ty) (prefix : str) : list str :=
  match typ with
  | TPtr (TIface _) => []
  | TPtr e => filter (has_prefix prefix) (own_methods e)
  | _ => filter (has_prefix prefix) (own_methods typ)
  end.

Definition deref1 (t : ty) : ty := match t with TPtr e => e | _ => t end.

(* Comp.listFieldsAndMethods *)
Definition list_fm (t : ty) (prefix : str) : list str :=
  match t with
  | TPtr (TIface _) => []
  | _ =>
      let t1 := deref1 t in
      collect_methods t1 prefix ++
      match t1 with
      | TStruct _ _ _ =>
          flat_map (fun f => (if has_prefix prefix (fname f) then [fname f] else []) ++
                             (if fanon f then collect_methods (ftype f) prefix else []))
                   (visit_fields (S (ty_height t1)) [t1] [])
      | _ => []
      end
  end.

(* FieldByName: breadth-first by depth; returns (first match, count at the shallowest depth, depth) *)
Definition fields_named (name : str) (fs : list fld) : list fld := filter (fun f => str_eqb (fname f) name) fs.
Definition struct_fields (t : ty) : list fld := match deref_struct t with Some (_, fs) => fs | None => [] end.

Fixpoint field_by_name (fuel : nat) (level : list ty) (name : str) (depth : nat) : option fld * nat * nat :=
  match fuel with
  | O => (None, 0, depth)
  | S f =>
      match level with
      | [] => (None, 0, depth)
      | _ =>
          let found := flat_map (fun t => fields_named name (struct_fields t)) level in
          match found with
          | x :: _ => (Some x, length found, depth)
          | [] => field_by_name f (flat_map (fun t => map ftype (filter fanon (struct_fields t))) level) name (S depth)
          end
      end
  end.

Definition methods_of (t : ty) : list str :=
  match t with TPtr e => own_methods e | _ => own_methods t end.

Fixpoint method_by_name (fuel : nat) (level : list ty) (name : str) (depth : nat) : nat * nat :=
  match fuel with
  | O => (0, depth)
  | S f =>
      match level with
      | [] => (0, depth)
      | _ =>
          let cnt := length (flat_map (fun t => filter (str_eqb name) (methods_of t)) level) in
          if Nat.eqb cnt 0
          then method_by_name f (flat_map (fun t => map ftype (filter fanon (struct_fields t))) level) name (S depth)
          else (cnt, depth)
      end
  end.

(* TryLookupFieldOrMethod as used by completeWords: Some field.Type iff err == nil && fieldok *)
Definition try_lookup_field (t : ty) (name : str) : option ty :=
  match t with
  | TStruct _ _ _ =>
      let '(fo, fieldn, fielddepth) := field_by_name (S (ty_height t)) [t] name 1 in
      let '(mtdn, mtddepth) := method_by_name (S (ty_height t)) [t] name 1 in
      (* both found: the shallower wins, same depth is an error *)
      let '(fieldn1, mtdn1, err) :=
        if negb (Nat.eqb fieldn 0) && negb (Nat.eqb mtdn 0) then
          if Nat.ltb fielddepth mtddepth then (fieldn, 0, false)
          else if Nat.ltb mtddepth fielddepth then (0, mtdn, false)
          else (fieldn, mtdn, true)
        else (fieldn, mtdn, false) in
      let err1 := err || Nat.ltb 1 fieldn1 || Nat.ltb 1 mtdn1 in
      if err1 then None
      else if Nat.eqb fieldn1 1 then match fo with Some f => Some (ftype f) | None => None end
      else None
  | _ => None     (* FieldByName: t.kind != r.Struct => nothing *)
  end.

(* ---------- completeWords / completeLastWord ---------- *)
(* the *Bind cases of both loops: a constant holding an *Import becomes the import, else the bind's type *)
Definition norm (nd : node) : node :=
  match nd with
  | NBind (BImport b t) => NImp b t
  | NBind (BVal t) => NType t
  | x => x
  end.

(* for i+1 < n {...}: words = words[i:]; result: the node and the last word, None = "return nil" *)
Fixpoint walk (nd : node) (i : nat) (words : list str) : option (node * str) :=
  match words with
  | [] => None
  | [w] => Some (nd, w)
  | w :: rest =>
      match norm nd with
      | NImp bs ts =>
          if negb (Nat.eqb i 0) then None
          else match assoc bs w with
               | Some t => walk (NBind (BVal t)) (S i) rest
               | None => match assoc ts w with
                         | Some t => walk (NType t) (S i) rest
                         | None => None
                         end
               end
      | NType t =>
          (* with the fix: a pointer is dereferenced before the field lookup *)
          match try_lookup_field (deref1 t) w with
          | Some ft => walk (NType ft) (S i) rest
          | None => None
          end
      | NBind _ => None
      end
  end.

(* candidates listed by completeLastWord before sortUnique *)
Definition last_candidates (nd : node) (word : str) : list str :=
  match norm nd with
  | NImp bs ts => filter (has_prefix word) (map fst bs) ++ filter (has_prefix word) (map fst ts)
  | NType t => list_fm t word
  | NBind _ => []
  end.
Definition completeLastWord (nd : node) (word : str) : list str := sortUnique (last_candidates nd word).

(* TryResolve / TryResolveType along the scope chain *)
Fixpoint resolve_bind (e : env) (name : str) : option bind :=
  match e with
  | [] => None
  | sc :: e' => match assoc (s_binds sc) name with Some b => Some b | None => resolve_bind e' name end
  end.
Fixpoint resolve_type (e : env) (name : str) : option ty :=
  match e with
  | [] => None
  | sc :: e' => match assoc (s_types sc) name with Some t => Some t | None => resolve_type e' name end
  end.

Definition first_node (e : env) (w0 : str) : option node :=
  match resolve_bind e w0 with
  | Some b => Some (NBind b)
  | None => match resolve_type e w0 with Some t => Some (NType t) | None => None end
  end.

(* Comp.CompleteWords *)
Definition comp_complete_words (e : env) (words : list str) : list str :=
  match words with
  | [] => []
  | [w] => completeWord e w
  | w0 :: rest =>
      match first_node e w0 with
      | None => []
      | Some nd => match walk nd 0 rest with
                   | Some (nd', w) => completeLastWord nd' w
                   | None => []
                   end
      end
  end.

(* ---------- Interp.CompleteWords ---------- *)
(* the loop "for i := n-1; i >= 0; i--": ws_rev = words[0..i] reversed, acc = words[i+1:] already trimmed *)
Fixpoint chain_loop (ws_rev : list str) (is_last : bool) (acc : list str) : list str :=
  match ws_rev with
  | [] => acc
  | w :: rest =>
      let wt := trim_space w in
      if is_last && Nat.eqb (length wt) 0 then chain_loop rest false (wt :: acc)
      else
        let word := tail_identifier wt in
        if negb (Nat.eqb (length word) (length wt)) then
          if negb (Nat.eqb (length word) 0) then word :: acc   (* words[i] = word; words = words[i:] *)
          else acc                                             (* i++; words = words[i:] *)
        else chain_loop rest false (wt :: acc)
  end.

Definition split_words (head : str) : list str := chain_loop (rev (split_dot head)) true [].

Definition new_head (head : str) : str :=
  let fixed := (length head - length (tail_identifier head))%nat in
  match last_index head 46%N 0 None with
  | Some pos => if Nat.leb fixed pos then firstn (S pos) head else firstn fixed head
  | None => firstn fixed head
  end.

Definition complete_line (e : env) (line : str) (pos : Z) : str * list str * str :=
  if Z.ltb pos 0 then ([], [], [])       (* line[:pos] panics; recovered: "", nil, "" *)
  else
    let p := Nat.min (Z.to_nat pos) (length line) in
    let head := firstn p line in
    let tail := skipn p line in
    let comps := comp_complete_words e (split_words head) in
    match comps with
    | [] => (head, [], tail)
    | _ => (new_head head, comps, tail)
    end.

(* ---------- correspondence support ---------- *)
Fixpoint strs_eqb (a b : list str) : bool :=
  match a, b with
  | [], [] => true
  | x :: a', y :: b' => str_eqb x y && strs_eqb a' b'
  | _, _ => false
  end.

Record case := mkCase { c_idx : Z; c_env : env; c_line : str; c_pos : Z;
                        c_head : str; c_comps : list str; c_tail : str }.

Definition case_ok (c : case) : bool :=
  let '(h, cs, t) := complete_line (c_env c) (c_line c) (c_pos c) in
  str_eqb h (c_head c) && strs_eqb cs (c_comps c) && str_eqb t (c_tail c).

Definition mismatches (cs : list case) : list Z :=
  map c_idx (filter (fun c => negb (case_ok c)) cs).

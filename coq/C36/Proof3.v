(* C36 — proofs, part 3: what listFieldsAndMethods offers, against Go's promotion rule (soundness) *)
From Coq Require Import List NArith ZArith Bool Arith Lia.
From Verif Require Import Common.GoStr C36.Model C36.Proof.
Import ListNotations.

(* the field lists of the struct types reachable from t through chains of embedded fields
   (an embedded pointer to struct is followed, as derefStruct does) *)
Inductive reach : ty -> list fld -> Prop :=
| R_here t id fs : deref_struct t = Some (id, fs) -> reach t fs
| R_step t id fs f fs' : deref_struct t = Some (id, fs) -> In f fs -> fanon f = true ->
    reach (ftype f) fs' -> reach t fs'.

(* Go's rule (without the ambiguity clause): a selector x.n on a value of type t is
   - a method declared on t (after the automatic dereference of one pointer), or
   - a field of t or of a struct embedded in t at any depth, or
   - a method of the type of an embedded field at any depth *)
Definition is_struct (t : ty) : Prop := match t with TStruct _ _ _ => True | _ => False end.

Definition go_member (t : ty) (n : str) : Prop :=
  match t with
  | TPtr (TIface _) => False
  | _ =>
      let t1 := deref1 t in
      In n (collect_methods t1 []) \/
      (is_struct t1 /\ exists fs f, reach t1 fs /\ In f fs /\
        (fname f = n \/ (fanon f = true /\ In n (collect_methods (ftype f) []))))
  end.

Lemma visit_level_sound curr : forall seen vf tv seen', visit_level curr seen = (vf, tv, seen') ->
  (forall f, In f vf -> exists x id fs, In x curr /\ deref_struct x = Some (id, fs) /\ In f fs) /\
  (forall y, In y tv -> exists x id fs f, In x curr /\ deref_struct x = Some (id, fs) /\ In f fs /\
                                          fanon f = true /\ y = ftype f).
Proof.
  induction curr as [|xt rest IH]; intros seen vf tv seen' H; simpl in H.
  - inversion H; subst. split; intros ? [].
  - assert (forall vf tv seen' seen0, visit_level rest seen0 = (vf, tv, seen') ->
      (forall f, In f vf -> exists x id fs, In x (xt :: rest) /\ deref_struct x = Some (id, fs) /\ In f fs) /\
      (forall y, In y tv -> exists x id fs f, In x (xt :: rest) /\ deref_struct x = Some (id, fs) /\ In f fs /\
                                              fanon f = true /\ y = ftype f)) as Rest.
    { intros vf0 tv0 s0 seen0 H0. destruct (IH _ _ _ _ H0) as [A B]. split.
      - intros f Hf. destruct (A f Hf) as (x & id & fs & Hx & D & Hin). exists x, id, fs. simpl; auto.
      - intros y Hy. destruct (B y Hy) as (x & id & fs & f & Hx & D & Hin & An & E). exists x, id, fs, f. simpl; auto. }
    destruct (deref_struct xt) as [[id fs]|] eqn:D; [|eapply Rest; exact H].
    destruct (mem_id id seen); [eapply Rest; exact H|].
    destruct (visit_level rest (id :: seen)) as [[vf0 tv0] s0] eqn:E. inversion H; subst.
    destruct (Rest _ _ _ _ E) as [A B]. split.
    + intros f Hf. apply in_app_iff in Hf as [Hf|Hf]; [|apply A; exact Hf].
      exists xt, id, fs. simpl; auto.
    + intros y Hy. apply in_app_iff in Hy as [Hy|Hy]; [|apply B; exact Hy].
      apply in_map_iff in Hy as (f & <- & Hf). apply filter_In in Hf as [Hf An].
      exists xt, id, fs, f. simpl; auto.
Qed.

Lemma visit_fields_sound fuel : forall curr seen f, In f (visit_fields fuel curr seen) ->
  exists x fs, In x curr /\ reach x fs /\ In f fs.
Proof.
  induction fuel as [|fuel IH]; intros curr seen f H; simpl in H; [contradiction|].
  destruct curr as [|c0 curr0]; [contradiction|]. set (curr := c0 :: curr0) in *.
  destruct (visit_level curr seen) as [[vf tv] seen'] eqn:E.
  destruct (visit_level_sound _ _ _ _ _ E) as [A B].
  apply in_app_iff in H as [H|H].
  - destruct (A f H) as (x & id & fs & Hx & D & Hin). exists x, fs. split; [exact Hx|]. split; [|exact Hin].
    eapply R_here; eauto.
  - destruct (IH _ _ _ H) as (y & fs' & Hy & Ry & Hin).
    destruct (B y Hy) as (x & id & fs & g & Hx & D & Hg & An & ->).
    exists x, fs'. split; [exact Hx|]. split; [|exact Hin]. eapply R_step; eauto.
Qed.

(* every name offered after "x." is a member by Go's rule *)
Theorem list_fm_sound t n : In n (list_fm t []) -> go_member t n.
Proof.
  unfold list_fm, go_member. intros H.
  assert (forall t1, In n (collect_methods t1 [] ++
            match t1 with
            | TStruct _ _ _ => flat_map (fun f => (if has_prefix [] (fname f) then [fname f] else []) ++
                                    (if fanon f then collect_methods (ftype f) [] else []))
                                 (visit_fields (S (ty_height t1)) [t1] [])
            | _ => []
            end) ->
          In n (collect_methods t1 []) \/
          (is_struct t1 /\ exists fs f, reach t1 fs /\ In f fs /\
            (fname f = n \/ (fanon f = true /\ In n (collect_methods (ftype f) []))))) as K.
  { intros t1 Hn. apply in_app_iff in Hn as [Hn|Hn]; [left; exact Hn|right].
    destruct t1 as [id ms fs0|e|ms|ms]; try contradiction.
    apply in_flat_map in Hn as (f & Hf & Hn).
    apply visit_fields_sound in Hf as (x & fs & Hx & R & Hin).
    destruct Hx as [<-|[]]. split; [exact I|]. exists fs, f. split; [exact R|]. split; [exact Hin|].
    apply in_app_iff in Hn as [Hn|Hn].
    - rewrite has_prefix_nil in Hn. destruct Hn as [Hn|[]]. left; exact Hn.
    - destruct (fanon f) eqn:An; [right; split; [reflexivity|exact Hn]|contradiction]. }
  destruct t as [id ms fs|e|ms|ms]; try (apply K; exact H).
  destruct e; try (apply K; exact H). contradiction.
Qed.

(* the same for the answer with a prefix *)
Theorem list_fm_prefix_sound t p n : In n (list_fm t p) -> go_member t n /\ prefixb p n = true.
Proof.
  rewrite list_fm_filter. intros H. apply filter_prefix_in in H as [H P]. split; [apply list_fm_sound; exact H|exact P].
Qed.

(* ================= completeness, for types whose embedded struct types are pairwise distinct ================= *)
(* ids of the struct types reachable through embedded fields, one entry per occurrence *)
Fixpoint emb_ids (t : ty) : list N :=
  match t with
  | TStruct id _ fs =>
      id :: (fix go (l : list (str * bool * ty)) : list N :=
               match l with
               | [] => []
               | ((_, a), ft) :: l' => (if a then emb_ids ft else []) ++ go l'
               end) fs
  | TPtr e => match e with TStruct _ _ _ => emb_ids e | _ => [] end
  | _ => []
  end.

Definition children (t : ty) : list ty := map ftype (filter fanon (struct_fields t)).
Definition top_id (t : ty) : list N := match deref_struct t with Some (id, _) => [id] | None => [] end.

Lemma emb_go_flat fs :
  (fix go (l : list (str * bool * ty)) : list N :=
     match l with
     | [] => []
     | ((_, a), ft) :: l' => (if a then emb_ids ft else []) ++ go l'
     end) fs = flat_map emb_ids (map ftype (filter fanon fs)).
Proof.
  induction fs as [|[[nm a] ft] fs IH]; [reflexivity|]. rewrite IH. unfold fanon, ftype. simpl.
  destruct a; reflexivity.
Qed.

Lemma emb_ids_unfold t : emb_ids t = top_id t ++ flat_map emb_ids (children t).
Proof.
  destruct t as [id ms fs|e|ms|ms]; try reflexivity.
  - unfold top_id, children, struct_fields. simpl deref_struct. simpl emb_ids. rewrite emb_go_flat. reflexivity.
  - destruct e as [id ms fs|e'|ms|ms]; try reflexivity.
    unfold top_id, children, struct_fields. simpl deref_struct. simpl emb_ids. rewrite emb_go_flat. reflexivity.
Qed.

Lemma height_go_le fs f : In f fs ->
  (ty_height (ftype f) <=
   (fix go (l : list (str * bool * ty)) : nat :=
      match l with
      | [] => 0
      | (_, ft) :: l' => Nat.max (ty_height ft) (go l')
      end) fs)%nat.
Proof.
  induction fs as [|[na ft] fs IH]; intros H; [contradiction|]. destruct H as [<-|H].
  - unfold ftype. simpl. lia.
  - specialize (IH H). lia.
Qed.

Lemma height_child t c : In c (children t) -> (ty_height c < ty_height t)%nat.
Proof.
  unfold children, struct_fields. intros H. apply in_map_iff in H as (f & <- & Hf). apply filter_In in Hf as [Hf _].
  destruct t as [id ms fs|e|ms|ms]; simpl in Hf; try contradiction.
  - simpl. pose proof (height_go_le fs f Hf). lia.
  - destruct e as [id ms fs|e'|ms|ms]; simpl in Hf; try contradiction.
    simpl. pose proof (height_go_le fs f Hf). lia.
Qed.

Lemma NoDup_app_remove_l {A} (a b : list A) : NoDup (a ++ b) -> NoDup b.
Proof. induction a as [|x a IH]; intros H; [exact H|]. inversion H; subst. apply IH; assumption. Qed.

Lemma NoDup_app_remove_r {A} (a b : list A) : NoDup (a ++ b) -> NoDup a.
Proof.
  induction a as [|x a IH]; intros H; [constructor|]. simpl in H. inversion H as [|? ? Nx ND]; subst.
  constructor; [|apply IH; exact ND]. intros Hx. apply Nx. apply in_app_iff. left; exact Hx.
Qed.

Lemma nodup_app_disj {A} (a b : list A) : NoDup (a ++ b) -> forall i, In i a -> ~ In i b.
Proof.
  induction a as [|x a IH]; intros ND i Hi; [contradiction|]. simpl in ND. inversion ND as [|? ? Nx ND']; subst.
  destruct Hi as [<-|Hi]; [|apply IH; assumption]. intros Hb. apply Nx. apply in_app_iff. right; exact Hb.
Qed.

Lemma in_flat_map_weaken {X} (A B : X -> list N) l i : In i (flat_map B l) -> In i (flat_map (fun x => A x ++ B x) l).
Proof.
  rewrite !in_flat_map. intros (x & Hx & Hi). exists x. split; [exact Hx|]. apply in_app_iff. right; exact Hi.
Qed.

Lemma in_flat_map_weaken_l {X} (A B : X -> list N) l i : In i (flat_map A l) -> In i (flat_map (fun x => A x ++ B x) l).
Proof.
  rewrite !in_flat_map. intros (x & Hx & Hi). exists x. split; [exact Hx|]. apply in_app_iff. left; exact Hi.
Qed.

Lemma nodup_flat_split {X} (A B : X -> list N) l : NoDup (flat_map (fun x => A x ++ B x) l) ->
  NoDup (flat_map B l) /\ (forall i, In i (flat_map A l) -> ~ In i (flat_map B l)).
Proof.
  induction l as [|x l IH]; simpl; intros ND; [split; [constructor|intros ? []]|].
  pose proof (NoDup_app_remove_l _ _ ND) as NDr. pose proof (NoDup_app_remove_r _ _ ND) as NDx.
  pose proof (nodup_app_disj _ _ ND) as Dis. destruct (IH NDr) as [NB DAB]. split.
  - apply NoDup_app_remove_l in NDx as NBx.
    (* NoDup (B x ++ flat_map B l) *)
    assert (forall i, In i (B x) -> ~ In i (flat_map B l)) as D1.
    { intros i Hi Hl. apply (Dis i); [apply in_app_iff; right; exact Hi|apply in_flat_map_weaken; exact Hl]. }
    clear -NBx NB D1. induction (B x) as [|b bs IHb]; [exact NB|]. simpl. inversion NBx; subst. constructor.
    + intros H. apply in_app_iff in H as [H|H]; [contradiction|]. apply (D1 b); [left; reflexivity|exact H].
    + apply IHb; [assumption|]. intros i Hi. apply D1. right; exact Hi.
  - intros i Hi Hb. apply in_app_iff in Hi. apply in_app_iff in Hb. destruct Hi as [Hi|Hi], Hb as [Hb|Hb].
    + apply (nodup_app_disj _ _ NDx i Hi Hb).
    + apply (Dis i); [apply in_app_iff; left; exact Hi|apply in_flat_map_weaken; exact Hb].
    + apply (Dis i); [apply in_app_iff; right; exact Hb|apply in_flat_map_weaken_l; exact Hi].
    + apply (DAB i Hi Hb).
Qed.

Definition ids_of (curr : list ty) : list N := flat_map emb_ids curr.

Lemma ids_of_unfold curr : ids_of curr = flat_map (fun x => top_id x ++ flat_map emb_ids (children x)) curr.
Proof. unfold ids_of. apply flat_map_ext. intros x. apply emb_ids_unfold. Qed.

Lemma ids_of_children curr : ids_of (flat_map children curr) = flat_map (fun x => flat_map emb_ids (children x)) curr.
Proof.
  unfold ids_of. induction curr as [|x curr IH]; [reflexivity|]. simpl. rewrite flat_map_app, IH. reflexivity.
Qed.

Lemma mem_id_false id seen : ~ In id seen -> mem_id id seen = false.
Proof.
  intros H. unfold mem_id. destruct (existsb (N.eqb id) seen) eqn:E; [|reflexivity].
  apply existsb_exists in E as (y & Hy & Q). apply N.eqb_eq in Q. subst y. contradiction.
Qed.

Lemma visit_level_cons x rest seen : visit_level (x :: rest) seen =
  match deref_struct x with
  | Some (id, fs) =>
      if mem_id id seen then visit_level rest seen
      else let '(vf, tv, seen') := visit_level rest (id :: seen) in
           (fs ++ vf, map ftype (filter fanon fs) ++ tv, seen')
  | None => visit_level rest seen
  end.
Proof. reflexivity. Qed.

(* with distinct ids nothing is skipped: one level visits all fields of all structs of the level *)
Lemma visit_level_complete curr : forall seen, NoDup (ids_of curr) -> (forall i, In i seen -> ~ In i (ids_of curr)) ->
  exists seen', visit_level curr seen = (flat_map struct_fields curr, flat_map children curr, seen') /\
    (forall i, In i seen' <-> In i seen \/ In i (flat_map top_id curr)).
Proof.
  induction curr as [|x rest IH]; intros seen ND Dj.
  - exists seen. split; [reflexivity|]. intros i. simpl. tauto.
  - unfold ids_of in ND, Dj. simpl in ND, Dj. fold (ids_of rest) in ND, Dj.
    pose proof (NoDup_app_remove_l _ _ ND) as NDr.
    rewrite visit_level_cons.
    change (flat_map struct_fields (x :: rest)) with (struct_fields x ++ flat_map struct_fields rest).
    change (flat_map children (x :: rest)) with (children x ++ flat_map children rest).
    change (flat_map top_id (x :: rest)) with (top_id x ++ flat_map top_id rest).
    destruct (deref_struct x) as [[id fs]|] eqn:D.
    + assert (struct_fields x = fs) as Es by (unfold struct_fields; rewrite D; reflexivity).
      assert (children x = map ftype (filter fanon fs)) as Ec by (unfold children; rewrite Es; reflexivity).
      assert (top_id x = [id]) as Et by (unfold top_id; rewrite D; reflexivity).
      assert (In id (emb_ids x)) as Hid by (rewrite emb_ids_unfold, Et; left; reflexivity).
      rewrite mem_id_false.
      2:{ intros Hs. apply (Dj id Hs). apply in_app_iff. left; exact Hid. }
      destruct (IH (id :: seen) NDr) as (seen' & E & Hs').
      { intros i [<-|Hi].
        - apply (nodup_app_disj _ _ ND). exact Hid.
        - intros Hr. apply (Dj i Hi). apply in_app_iff. right; exact Hr. }
      rewrite E, Es, Ec, Et. exists seen'. split; [reflexivity|]. intros i. rewrite Hs'. simpl. tauto.
    + assert (struct_fields x = []) as Es by (unfold struct_fields; rewrite D; reflexivity).
      assert (children x = []) as Ec by (unfold children; rewrite Es; reflexivity).
      assert (top_id x = []) as Et by (unfold top_id; rewrite D; reflexivity).
      destruct (IH seen NDr) as (seen' & E & Hs').
      { intros i Hi Hr. apply (Dj i Hi). apply in_app_iff. right; exact Hr. }
      rewrite E, Es, Ec, Et. exists seen'. split; [reflexivity|]. intros i. rewrite Hs'. simpl. tauto.
Qed.

Lemma visit_fields_complete fuel : forall curr seen,
  NoDup (ids_of curr) -> (forall i, In i seen -> ~ In i (ids_of curr)) ->
  (forall x, In x curr -> (ty_height x <= fuel)%nat) ->
  forall x fs, In x curr -> reach x fs -> incl fs (visit_fields fuel curr seen).
Proof.
  induction fuel as [|fuel IH]; intros curr seen ND Dj Hh x fs Hx R.
  - exfalso. specialize (Hh x Hx). destruct x; simpl in Hh; lia.
  - simpl. destruct curr as [|c0 curr0]; [contradiction|]. set (curr := c0 :: curr0) in *.
    destruct (visit_level_complete curr seen ND Dj) as (seen' & E & Hs'). rewrite E.
    rewrite ids_of_unfold in ND. destruct (nodup_flat_split _ _ _ ND) as [NDn Dn].
    assert (forall i, In i seen' -> ~ In i (ids_of (flat_map children curr))) as Dj'.
    { intros i Hi. rewrite ids_of_children. apply Hs' in Hi as [Hi|Hi].
      - intros Hn. apply (Dj i Hi). rewrite ids_of_unfold. apply in_flat_map_weaken. exact Hn.
      - apply Dn. exact Hi. }
    assert (forall y, In y (flat_map children curr) -> (ty_height y <= fuel)%nat) as Hh'.
    { intros y Hy. apply in_flat_map in Hy as (z & Hz & Hy). apply height_child in Hy. specialize (Hh z Hz). lia. }
    inversion R as [? id fs0 D|? id fs0 f fs' D Hf An R']; subst.
    + intros g Hg. apply in_app_iff. left. apply in_flat_map. exists x. split; [exact Hx|].
      unfold struct_fields. rewrite D. exact Hg.
    + intros g Hg. apply in_app_iff. right.
      assert (In (ftype f) (flat_map children curr)) as Hc.
      { apply in_flat_map. exists x. split; [exact Hx|]. unfold children, struct_fields. rewrite D.
        apply in_map. apply filter_In. split; assumption. }
      refine (IH (flat_map children curr) seen' _ Dj' Hh' (ftype f) fs Hc R' g Hg).
      rewrite ids_of_children. exact NDn.
Qed.

(* every member by Go's rule is offered, when the embedded struct types are pairwise distinct *)
Theorem list_fm_complete t n : NoDup (emb_ids (deref1 t)) -> go_member t n -> In n (list_fm t []).
Proof.
  unfold go_member, list_fm. intros ND H.
  assert (forall t1, NoDup (emb_ids t1) ->
          In n (collect_methods t1 []) \/
          (is_struct t1 /\ exists fs f, reach t1 fs /\ In f fs /\
            (fname f = n \/ (fanon f = true /\ In n (collect_methods (ftype f) [])))) ->
          In n (collect_methods t1 [] ++
            match t1 with
            | TStruct _ _ _ => flat_map (fun f => (if has_prefix [] (fname f) then [fname f] else []) ++
                                    (if fanon f then collect_methods (ftype f) [] else []))
                                 (visit_fields (S (ty_height t1)) [t1] [])
            | _ => []
            end)) as K.
  { intros t1 ND1 [Hm|(Is & fs & f & R & Hf & Hn)]; apply in_app_iff; [left; exact Hm|right].
    destruct t1 as [id ms fs0|e|ms|ms]; try contradiction.
    apply in_flat_map. exists f. split.
    - eapply (visit_fields_complete _ [TStruct id ms fs0] []); [| | |left; reflexivity|exact R|exact Hf].
      + unfold ids_of. simpl flat_map. rewrite app_nil_r. exact ND1.
      + intros i [].
      + intros x [<-|[]]. lia.
    - apply in_app_iff. destruct Hn as [<-|[An Hn]].
      + left. rewrite has_prefix_nil. left; reflexivity.
      + right. rewrite An. exact Hn. }
  destruct t as [id ms fs|e|ms|ms]; try (apply K; assumption).
  destruct e; try (apply K; assumption). contradiction.
Qed.

(* C36 — property theorems only: each closed by [exact lemma], followed by Print Assumptions. *)
From Coq Require Import List NArith ZArith Bool Sorted.
From Verif Require Import Common.GoStr C36.Model C36.Proof C36.Proof2 C36.Proof3 C36.Examples.
Import ListNotations.

(* sortUnique as written (sort, then the in-place compaction loop): for every input the result is strictly
   increasing (= sorted and duplicate-free) and has exactly the elements of the input *)
Theorem C36_sortUnique_spec : forall v,
  StronglySorted str_lt (sortUnique v) /\ (forall x, In x (sortUnique v) <-> In x v).
Proof. exact sortUnique_spec. Qed.
Print Assumptions C36_sortUnique_spec.

(* hence the answer depends only on the set collected: the iteration order of Go maps cannot show *)
Theorem C36_sortUnique_order_irrelevant : forall v w, (forall x, In x v <-> In x w) -> sortUnique v = sortUnique w.
Proof. exact sortUnique_set. Qed.
Print Assumptions C36_sortUnique_order_irrelevant.

(* the test "len(name) >= size && name[:size] == word" is the prefix relation *)
Theorem C36_prefix_test : forall w n, has_prefix w n = prefixb w n.
Proof. exact has_prefix_prefixb. Qed.
Print Assumptions C36_prefix_test.

(* a single word: the completions are exactly the sorted, duplicate-free
   { n in binds and types of every scope of the chain, or keyword | w is a prefix of n } *)
Theorem C36_exactly_matching : forall e w, w <> [] ->
  StronglySorted str_lt (completeWord e w) /\
  (forall n, In n (completeWord e w) <-> In n (candidates e) /\ prefixb w n = true).
Proof. exact completeWord_spec. Qed.
Print Assumptions C36_exactly_matching.

Theorem C36_map_order_irrelevant : forall e e' w,
  (forall n, In n (candidates e) <-> In n (candidates e')) -> completeWord e w = completeWord e' w.
Proof. exact completeWord_order_irrelevant. Qed.
Print Assumptions C36_map_order_irrelevant.

(* the last word of a chain: exactly the members the node offers (= what is listed for the empty prefix:
   package binds and types, or fields / promoted fields / methods / methods of embedded fields) that start with w *)
Theorem C36_exactly_matching_member : forall nd w,
  StronglySorted str_lt (completeLastWord nd w) /\
  (forall n, In n (completeLastWord nd w) <-> In n (members nd) /\ prefixb w n = true).
Proof. exact completeLastWord_spec. Qed.
Print Assumptions C36_exactly_matching_member.

(* listFieldsAndMethods with a prefix = the filter of its answer for the empty prefix *)
Theorem C36_listing_commutes_with_filter : forall t p, list_fm t p = filter (has_prefix p) (list_fm t []).
Proof. exact list_fm_filter. Qed.
Print Assumptions C36_listing_commutes_with_filter.

(* Comp.CompleteWords on ident.ident...: which node is listed and with which prefix *)
Theorem C36_exactly_matching_chain : forall e ws,
  match ws with
  | [] => comp_complete_words e ws = []
  | [w] => w <> [] -> forall n, In n (comp_complete_words e ws) <-> In n (candidates e) /\ prefixb w n = true
  | w0 :: rest =>
      match first_node e w0 with
      | None => comp_complete_words e ws = []
      | Some nd =>
          match walk nd 0 rest with
          | None => comp_complete_words e ws = []
          | Some (nd', w) => forall n, In n (comp_complete_words e ws) <-> In n (members nd') /\ prefixb w n = true
          end
      end
  end.
Proof. exact comp_complete_words_exact. Qed.
Print Assumptions C36_exactly_matching_chain.

(* TailIdentifier is a suffix; the '.'-branch of the head computation can never fire; what is cut from the
   head is exactly TailIdentifier(head) *)
Theorem C36_head_cut : forall hd, new_head hd ++ tail_identifier hd = hd.
Proof. exact new_head_spec. Qed.
Print Assumptions C36_head_cut.

(* Interp.CompleteWords, every state, line and cursor >= 0: tail is the text after the cursor; completions are
   strictly sorted; without completions head is the text before the cursor; with completions
   head ++ typed ++ tail = line where typed = TailIdentifier(text before the cursor), and - when the text before
   the cursor does not end in a blank - typed is a prefix of every completion, so head ++ completion ++ tail is the
   line with the typed prefix replaced by the completion at the cursor *)
Theorem C36_reassembly : forall e line pos h comps t, (0 <= pos)%Z ->
  complete_line e line pos = (h, comps, t) ->
  let p := Nat.min (Z.to_nat pos) (length line) in
  let head := firstn p line in
  t = skipn p line /\
  StronglySorted str_lt comps /\
  (comps = [] -> h = head) /\
  (comps <> [] ->
     h ++ tail_identifier head = head /\
     line = h ++ tail_identifier head ++ t /\
     (ends_nonblank head -> Forall (fun c => prefixb (tail_identifier head) c = true) comps)).
Proof. exact complete_line_spec. Qed.
Print Assumptions C36_reassembly.

(* what is offered after "x." against Go's promotion rule [go_member] (Proof3.v: a method of the type after one
   automatic dereference, a field of the struct or of a struct embedded at any depth, a method of the type of an
   embedded field; the ambiguity clause of the Go spec is not part of go_member):
   soundness for every type, and with the typed prefix *)
Theorem C36_members_sound : forall t p n, In n (list_fm t p) -> go_member t n /\ prefixb p n = true.
Proof. exact list_fm_prefix_sound. Qed.
Print Assumptions C36_members_sound.

(* completeness when the struct types reachable through embedded fields are pairwise distinct
   (then VisitFields' seen-set skips nothing and the fuel bound is never reached) *)
Theorem C36_members_complete : forall t n, NoDup (emb_ids (deref1 t)) -> go_member t n -> In n (list_fm t []).
Proof. exact list_fm_complete. Qed.
Print Assumptions C36_members_complete.

(* ---------------- non-vacuity on a concrete state (Examples.v) ---------------- *)
From Coq Require Import String.
Example C36_ex_word : complete_line ex_env (s "x + fo + 1") 6 = (s "x + ", [s "foo1"; s "fooF"; s "for"], s " + 1").
Proof. vm_compute. reflexivity. Qed.
Example C36_ex_word_f : complete_line ex_env (s "f") 1 =
  ([], [s "fallthrough"; s "false"; s "float32"; s "float64"; s "foo1"; s "fooF"; s "for"; s "func"], []).
Proof. vm_compute. reflexivity. Qed.
(* fields, promoted fields (X once although declared twice), own methods, methods promoted through an embedded
   value and an embedded pointer; not the method Im of the plain field A *)
Example C36_ex_members : complete_line ex_env (s "t.") 2 =
  (s "t.", [s "A"; s "I2m"; s "I3pm"; s "Inner2"; s "Inner3"; s "Tm"; s "W"; s "X"; s "Z"; s "fooBar"], []).
Proof. vm_compute. reflexivity. Qed.
Example C36_ex_chain : complete_line ex_env (s "y := pt . A.") 12 = (s "y := pt . A.", [s "Im"; s "X"; s "Y"], []).
Proof. vm_compute. reflexivity. Qed.
Example C36_ex_chain_prefix : complete_line ex_env (s "t.Inner3.W)") 10 = (s "t.Inner3.", [s "W"], s ")").
Proof. vm_compute. reflexivity. Qed.
Example C36_ex_package : complete_line ex_env (s "strings.Has") 11 = (s "strings.", [s "HasPrefix"; s "HasSuffix"], []).
Proof. vm_compute. reflexivity. Qed.
Example C36_ex_nothing : complete_line ex_env (s "t.q") 3 = (s "t.q", [], []) /\ complete_line ex_env (s "zz.") 3 = (s "zz.", [], []).
Proof. vm_compute. split; reflexivity. Qed.
(* the hypothesis [ends_nonblank] of C36_reassembly is needed: after "fo<blank>" the word "fo" is still completed
   but nothing is cut from the head, so inserting a completion yields "fo for" (outside the property's input class) *)
Example C36_ex_trailing_blank : complete_line ex_env (s "fo ") 3 = (s "fo ", [s "foo1"; s "fooF"; s "for"], []).
Proof. vm_compute. reflexivity. Qed.
(* TailIdentifier as written skips one leading digit only: "x 12" gives "2", no name starts with it *)
Example C36_ex_digits : tail_identifier (s "x 12") = s "2" /\ complete_line ex_env (s "x 12") 4 = (s "x 12", [], []).
Proof. vm_compute. split; reflexivity. Qed.
(* the hypothesis of C36_members_complete holds for the example type, and go_member is inhabited by a method
   promoted through an embedded pointer *)
Example C36_ex_distinct : NoDup (emb_ids tT) /\ go_member (TPtr tT) (s "I3pm") /\ ~ In (s "Im") (list_fm tT []).
Proof.
  split; [|split].
  - vm_compute. repeat constructor; simpl; intuition discriminate.
  - apply list_fm_sound. vm_compute. intuition.
  - vm_compute. intuition discriminate.
Qed.

(* the hypothesis of C36_members_complete is sufficient, not necessary: in a DIAMOND (type Core struct{X int}, method Cm;
   type L struct{Core; A int}; type R struct{*Core; B int}; type D struct{L; R}) the struct Core is reached twice, so
   NoDup fails and VisitFields' seen-set skips the second visit, yet every member by Go's promotion rule is offered
   (the skipped visit would only repeat names).  The general statement for repeated struct types is not proved. *)
Definition tCore : ty := TStruct 10 [s "Cm"] [(s "X", false, tInt)].
Definition tL : ty := TStruct 11 [] [(s "Core", true, tCore); (s "A", false, tInt)].
Definition tR : ty := TStruct 12 [] [(s "Core", true, TPtr tCore); (s "B", false, tInt)].
Definition tD : ty := TStruct 13 [] [(s "L", true, tL); (s "R", true, tR)].
Example C36_ex_diamond :
  ~ NoDup (emb_ids tD) /\
  (forall n, In n [s "L"; s "R"; s "Core"; s "Cm"; s "A"; s "B"; s "X"] -> go_member tD n /\ In n (list_fm tD [])).
Proof.
  split.
  - assert (E : emb_ids tD = [13; 11; 10; 12; 10]%N) by (vm_compute; reflexivity). rewrite E. intros H.
    apply NoDup_cons_iff in H as [_ H]. apply NoDup_cons_iff in H as [_ H]. apply NoDup_cons_iff in H as [H _].
    apply H. simpl. auto.
  - intros n Hn.
    assert (Hl : In n (list_fm tD [])).
    { simpl in Hn. repeat (destruct Hn as [<-|Hn]; [vm_compute; auto 20|]). contradiction. }
    split; [apply list_fm_sound; exact Hl|exact Hl].
Qed.

(* C36 — a concrete interpreter state used by the non-vacuity Examples in Props.v (definitions only) *)
From Coq Require Import List NArith ZArith String Ascii.
From Verif Require Import Common.GoStr C36.Model.
Import ListNotations.

Definition s (x : string) : str := map N_of_ascii (list_ascii_of_string x).

(*  type Inner struct{ X, Y int }; func (i Inner) Im(); type Inner2 struct{ Z int; X string }; func (i Inner2) I2m()
    type Inner3 struct{ W int }; func (p *Inner3) I3pm()
    type T struct{ A Inner; Inner2; *Inner3; fooBar int }; func (x T) Tm()
    var t T; var pt *T; var foo1 int; func fooF(); import "strings"                                   *)
Definition tInt : ty := TOther [].
Definition tInner : ty := TStruct 2 [s "Im"] [(s "X", false, tInt); (s "Y", false, tInt)].
Definition tInner2 : ty := TStruct 3 [s "I2m"] [(s "Z", false, tInt); (s "X", false, tInt)].
Definition tInner3 : ty := TStruct 4 [s "I3pm"] [(s "W", false, tInt)].
Definition tT : ty := TStruct 1 [s "Tm"]
  [(s "A", false, tInner); (s "Inner2", true, tInner2); (s "Inner3", true, TPtr tInner3); (s "fooBar", false, tInt)].

Definition ex_global : scope := mkScope
  [(s "t", BVal tT); (s "pt", BVal (TPtr tT)); (s "fooF", BVal tInt); (s "foo1", BVal tInt);
   (s "strings", BImport [(s "HasSuffix", tInt); (s "HasPrefix", tInt); (s "Join", tInt)] [(s "Builder", tInt)])]
  [(s "T", tT); (s "Inner", tInner)].
Definition ex_universe : scope := mkScope
  [(s "false", BVal tInt); (s "len", BVal tInt)] [(s "float64", tInt); (s "float32", tInt); (s "error", TIface [s "Error"])].
Definition ex_env : env := [ex_global; ex_universe].

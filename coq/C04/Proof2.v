(* C04 — typed contexts: representability of constants (integers, floats), math/big *)
From Coq Require Import List NArith ZArith QArith Qabs Bool Lia.
From Verif Require Import Common.GoInt Common.GoStr C04.Model C04.Proof.
Import ListNotations.
Open Scope Z_scope.

(* ---------- constant.ToInt is sound and complete ---------- *)
Lemma Qintegral_spec q z : (Qintegral q = true /\ Qtrunc_exact q = z) <-> (q == Qz z)%Q.
Proof.
  unfold Qintegral, Qtrunc_exact, Qeq, Qz. destruct q as [n d]. simpl.
  rewrite Z.eqb_eq, Z.mul_1_r. split.
  - intros [H1 H2]. pose proof (Z.div_mod n (Z.pos d) ltac:(lia)). subst z. lia.
  - intros H. subst n. rewrite Z.mod_mul, Z.div_mul by lia. auto.
Qed.

Lemma to_int_spec (l : lit) z : wf l -> numeric l ->
  (to_int (lval l) = Some z <-> (re_of l == Qz z)%Q /\ (im_of l == 0)%Q).
Proof.
  intros Hw Hn. wf_cases l; unfold re_of, im_of; simpl.
  - split. { intros H; inversion H; split; reflexivity. }
    intros [H _]. unfold Qeq, Qz in H. simpl in H. f_equal. lia.
  - split. { intros H; inversion H; split; reflexivity. }
    intros [H _]. unfold Qeq, Qz in H. simpl in H. f_equal. lia.
  - split.
    + destruct (Qintegral q) eqn:E; [|discriminate]. intros H; inversion H. split; [|reflexivity].
      apply Qintegral_spec. auto.
    + intros [H _]. apply Qintegral_spec in H. destruct H as [H1 H2]. rewrite H1, H2. reflexivity.
  - split.
    + destruct (Qzero im) eqn:Z0; [|discriminate]. destruct (Qintegral re) eqn:E; [|discriminate].
      intros H; inversion H. split; [apply Qintegral_spec; auto|apply Qzero_spec; auto].
    + intros [H Hi]. apply Qzero_spec in Hi. rewrite Hi. apply Qintegral_spec in H. destruct H as [H1 H2]. rewrite H1, H2. reflexivity.
Qed.

(* ---------- ConvertLiteralCheckOverflow: convert, convert back, compare = range test ---------- *)
Lemma signed_sub k z : signed k = true -> in_range k z -> in_range I64 z.
Proof. destruct k; simpl; try discriminate; unfold in_range, imin, imax, half, modulus, width, signed; simpl; lia. Qed.
Lemma unsigned_sub k z : signed k = false -> in_range k z -> in_range U64 z.
Proof. destruct k; simpl; try discriminate; unfold in_range, imin, imax, half, modulus, width, signed; simpl; lia. Qed.

Lemma check_overflow_spec ks k z v : in_range ks z -> (forall u, in_range k u -> in_range ks u) ->
  (check_overflow ks k z = TVInt v <-> v = z /\ in_range k z) /\
  (check_overflow ks k z = TErr <-> ~ in_range k z).
Proof.
  intros Hz Hsub. unfold check_overflow.
  pose proof (wrap_range k z) as Hr.
  rewrite (wrap_id ks (wrap k z)) by (apply Hsub; assumption).
  destruct (wrap k z =? z) eqn:E; [apply Z.eqb_eq in E|apply Z.eqb_neq in E].
  - assert (in_range k z) by (rewrite <- E; exact Hr). rewrite E.
    split; split; intros H0.
    + inversion H0; subst; auto.
    + destruct H0; subst; reflexivity.
    + discriminate.
    + contradiction.
  - assert (~ in_range k z) by (intro C; apply E, wrap_id; exact C).
    split; split; intros H0.
    + discriminate.
    + destruct H0; contradiction.
    + assumption.
    + reflexivity.
Qed.

(* the integer target kinds *)
Definition int_target (t : tkind) : option ikind :=
  match cat_of t with CatInt k | CatUint k => Some k | _ => None end.

Lemma int64_exact_spec z : int64_exact z = true <-> in_range I64 z.
Proof. apply in_rangeb_spec. Qed.
Lemma uint64_exact_spec' z : uint64_exact z = true <-> in_range U64 z.
Proof. apply in_rangeb_spec. Qed.

Definition conv_int (ks k : ikind) (oz : option Z) : tres :=
  match oz with
  | None => TErr
  | Some z => if in_rangeb ks z then check_overflow ks k z else TErr
  end.

Lemma conv_int_spec ks k oz : (forall u, in_range k u -> in_range ks u) ->
  (forall v, conv_int ks k oz = TVInt v <-> oz = Some v /\ in_range k v) /\
  (conv_int ks k oz = TErr <-> ~ exists v, oz = Some v /\ in_range k v) /\
  (conv_int ks k oz = TErr \/ exists v, conv_int ks k oz = TVInt v).
Proof.
  intros Hsub. unfold conv_int. destruct oz as [z|].
  - destruct (in_rangeb ks z) eqn:E.
    + apply in_rangeb_spec in E.
      destruct (check_overflow_spec ks k z z E Hsub) as [_ Herr].
      split; [|split].
      * intros v. destruct (check_overflow_spec ks k z v E Hsub) as [Hok _]. rewrite Hok.
        split; [intros [? ?]; subst; auto|intros [H ?]; inversion H; subst; auto].
      * rewrite Herr. split; [intros Hn [v [H Hr]]; inversion H; subst; contradiction|intros Hn Hr; apply Hn; eauto].
      * unfold check_overflow. destruct (_ =? _); [right; eexists; reflexivity|left; reflexivity].
    + assert (~ in_range ks z) by (intro C; apply in_rangeb_spec in C; congruence).
      split; [|split]; auto.
      * intros v; split; [discriminate|intros [Hv Hr]; inversion Hv; subst; exfalso; auto].
      * split; auto. intros _ [v [Hv Hr]]. inversion Hv; subst. auto.
  - split; [|split]; auto.
    + intros v; split; [discriminate|intros [Hv _]; discriminate].
    + split; auto. intros _ [v [Hv _]]. discriminate.
Qed.

Lemma extract_number_int v t k : match v with CInt _ | CRat _ | CCplx _ _ => True | _ => False end ->
  int_target t = Some k ->
  exists ks, (forall u, in_range k u -> in_range ks u) /\ extract_number v t = conv_int ks k (to_int v).
Proof.
  intros Hv Ht. unfold int_target in Ht. unfold extract_number.
  destruct (cat_of t) as [k1|k1| | | |] eqn:Ec; try discriminate; inversion Ht; subst k1.
  - exists I64. split.
    { intros u. apply signed_sub. destruct t; simpl in Ec; inversion Ec; reflexivity. }
    destruct v; try contradiction; unfold conv_int, int64_exact; reflexivity.
  - exists U64. split.
    { intros u. apply unsigned_sub. destruct t; simpl in Ec; inversion Ec; reflexivity. }
    destruct v; try contradiction; unfold conv_int, uint64_exact; reflexivity.
Qed.

(* an untyped numeric constant of ANY kind (int, rune, float, complex) is accepted by an integer type iff its
   value is an integer in the range of the type, and then the typed value is that integer *)
Lemma int_const_fits (l : lit) (t : tkind) k : wf l -> numeric l -> int_target t = Some k ->
  (forall v, convert l t = TVInt v <-> ((re_of l == Qz v)%Q /\ (im_of l == 0)%Q /\ in_range k v)) /\
  (convert l t = TErr <-> ~ exists v, (re_of l == Qz v)%Q /\ (im_of l == 0)%Q /\ in_range k v) /\
  (convert l t = TErr \/ exists v, convert l t = TVInt v).
Proof.
  intros Hw Hn Ht.
  set (v0 := match lkind l, lval l with
             | KComplex, CCplx a b => if Qzero b then CRat a else lval l
             | _, v => v end).
  assert (Hto: to_int v0 = to_int (lval l)).
  { subst v0. destruct l as [k0 v]; destruct k0, v; simpl; try reflexivity. destruct (Qzero im) eqn:Ez; simpl; rewrite ?Ez; reflexivity. }
  assert (Hnum: match v0 with CInt _ | CRat _ | CCplx _ _ => True | _ => False end).
  { subst v0. wf_cases l; simpl; auto. destruct (Qzero im); exact I. }
  assert (Hconv: convert l t = extract_number v0 t).
  { unfold convert, int_target in *. destruct (cat_of t); try discriminate; reflexivity. }
  destruct (extract_number_int v0 t k Hnum Ht) as [ks [Hsub Hex]].
  rewrite Hconv, Hex, Hto.
  destruct (conv_int_spec ks k (to_int (lval l)) Hsub) as [H1 [H2 H3]].
  split; [|split]; auto.
  - intros v. rewrite H1. rewrite (to_int_spec l v Hw Hn). tauto.
  - rewrite H2. split; intros Hne [v Hv]; apply Hne; exists v.
    + rewrite (to_int_spec l v Hw Hn). tauto.
    + rewrite (to_int_spec l v Hw Hn) in Hv. tauto.
Qed.

(* ---------- floats: a constant is rejected iff it rounds (to nearest even) to infinity ---------- *)
Lemma pow2_pos k : 0 < 2 ^ k \/ k < 0.
Proof. destruct (Z_lt_le_dec k 0); [right; assumption|left; apply Z.pow_pos_nonneg; lia]. Qed.

Lemma flog2_ge n d K : 0 < n -> 0 < d -> 0 <= K -> d * 2 ^ K <= n -> K <= flog2 n d.
Proof.
  intros Hn Hd HK H. unfold flog2.
  pose proof (Z.log2_spec n Hn) as [A1 A2]. pose proof (Z.log2_spec d Hd) as [B1 B2].
  pose proof (Z.log2_nonneg n). pose proof (Z.log2_nonneg d).
  set (a := Z.log2 n) in *. set (b := Z.log2 d) in *.
  assert (Hab: b + K <= a).
  { assert (2 ^ (b + K) < 2 ^ (Z.succ a)).
    { rewrite Z.pow_add_r by lia. assert (0 < 2 ^ K) by (apply Z.pow_pos_nonneg; lia). nia. }
    apply Z.pow_lt_mono_r_iff in H2; lia. }
  replace (0 <=? a - b) with true by (symmetry; apply Z.leb_le; lia).
  destruct (d * 2 ^ (a - b) <=? n) eqn:E; [lia|].
  apply Z.leb_gt in E. destruct (Z.eq_dec (a - b) K) as [Heq|]; [rewrite Heq in E; lia|lia].
Qed.

Lemma flog2_lt n d K : 0 < n -> 0 < d -> 0 <= K -> n < d * 2 ^ K -> flog2 n d < K.
Proof.
  intros Hn Hd HK H. unfold flog2.
  pose proof (Z.log2_spec n Hn) as [A1 A2]. pose proof (Z.log2_spec d Hd) as [B1 B2].
  pose proof (Z.log2_nonneg n). pose proof (Z.log2_nonneg d).
  set (a := Z.log2 n) in *. set (b := Z.log2 d) in *.
  assert (Hab: a <= b + K).
  { assert (2 ^ a < 2 ^ (Z.succ b + K)).
    { rewrite Z.pow_add_r by lia. assert (0 < 2 ^ K) by (apply Z.pow_pos_nonneg; lia). nia. }
    apply Z.pow_lt_mono_r_iff in H2; lia. }
  destruct (0 <=? a - b) eqn:E0.
  - apply Z.leb_le in E0. destruct (d * 2 ^ (a - b) <=? n) eqn:E; [|lia].
    apply Z.leb_le in E. destruct (Z.eq_dec (a - b) K) as [Heq|]; [rewrite Heq in E; lia|lia].
  - apply Z.leb_gt in E0. destruct (_ <=? _); lia.
Qed.

(* rounding to nearest even in the top binade carries to 2^p exactly from the midpoint between the two largest significands on *)
Lemma rne_top N D P2 : 0 < D -> 1 <= P2 -> P2 * D <= N < 2 * P2 * D ->
  (rne N D = 2 * P2 <-> (4 * P2 - 1) * D <= 2 * N) /\ rne N D <= 2 * P2.
Proof.
  intros HD HP [H1 H2]. unfold rne.
  pose proof (Z.div_mod N D ltac:(lia)) as Hdm. pose proof (Z.mod_pos_bound N D HD) as Hr.
  set (m := N / D) in *. set (r := N mod D) in *.
  assert (Hm: P2 <= m <= 2 * P2 - 1) by nia.
  destruct (2 * r <? D) eqn:E1; [apply Z.ltb_lt in E1|apply Z.ltb_ge in E1].
  { split; [split; intros; nia|lia]. }
  destruct (D <? 2 * r) eqn:E2; [apply Z.ltb_lt in E2|apply Z.ltb_ge in E2].
  { split; [split; intros; nia|lia]. }
  assert (Ht: 2 * r = D) by lia.
  destruct (Z.even m) eqn:Ev.
  - split; [|lia]. split; intros Hc; [lia|].
    exfalso. assert (m = 2 * P2 - 1) by nia. subst m. rewrite H in Ev.
    rewrite Z.even_sub, Z.even_mul in Ev. simpl in Ev. discriminate.
  - split; [split; intros; nia|lia].
Qed.

Definition fmt_ok (f : fmt) : Prop := 1 <= fprec f /\ 1 <= femax f /\ femin f < femax f.

Lemma round_pos_inf_iff f n d : fmt_ok f -> 0 < n -> 0 < d ->
  (round_pos f n d = FInf <-> (2 ^ (fprec f + 1) - 1) * 2 ^ (femax f - 1) * d <= n).
Proof.
  intros [Hp [Hx Hmn]] Hn Hd. unfold round_pos.
  set (p := fprec f) in *. set (emax := femax f) in *. set (emin := femin f) in *.
  set (K := emax + p - 1).
  assert (HA: 0 < 2 ^ (emax - 1)) by (apply Z.pow_pos_nonneg; lia).
  assert (HP: 1 <= 2 ^ (p - 1)) by (assert (0 < 2 ^ (p - 1)) by (apply Z.pow_pos_nonneg; lia); lia).
  set (A := 2 ^ (emax - 1)) in *. set (P2 := 2 ^ (p - 1)) in *.
  assert (Ep: 2 ^ p = 2 * P2) by (subst P2; replace p with (1 + (p - 1)) at 1 by lia; rewrite Z.pow_add_r by lia; reflexivity).
  assert (Ep1: 2 ^ (p + 1) = 4 * P2) by (rewrite Z.pow_add_r, Ep by lia; rewrite Z.pow_1_r; lia).
  assert (Ee: 2 ^ emax = 2 * A) by (subst A; replace emax with (1 + (emax - 1)) at 1 by lia; rewrite Z.pow_add_r by lia; reflexivity).
  assert (EK: 2 ^ K = 2 * P2 * A) by (subst K; replace (emax + p - 1) with (p + (emax - 1)) by lia; rewrite Z.pow_add_r, Ep by lia; reflexivity).
  assert (EK1: 2 ^ (K + 1) = 4 * P2 * A) by (rewrite Z.pow_add_r, EK by lia; rewrite Z.pow_1_r; lia).
  rewrite Ep1.
  set (DA := d * A). set (X := P2 * DA).
  assert (HDA: 0 < DA) by (subst DA; nia). assert (HX: DA <= X) by (subst X; nia).
  assert (ET: (4 * P2 - 1) * A * d = 4 * X - DA) by (subst X DA; ring).
  rewrite ET.
  destruct (Z_lt_le_dec n (d * 2 ^ K)) as [Hlo|Hlo].
  - (* below the top binade: finite *)
    pose proof (flog2_lt n d K Hn Hd ltac:(lia) Hlo) as Hfl.
    rewrite EK in Hlo. replace (d * (2 * P2 * A)) with (2 * X) in Hlo by (subst X DA; ring).
    set (e0 := Z.max (flog2 n d - (p - 1)) emin).
    assert (He0: e0 <= emax - 1) by (subst e0 K; lia).
    split; [|lia].
    destruct (_ =? 2 ^ p); destruct (emax <? _) eqn:E; try discriminate; apply Z.ltb_lt in E; lia.
  - destruct (Z_lt_le_dec n (d * 2 ^ (K + 1))) as [Hhi|Hhi].
    + (* the top binade *)
      pose proof (flog2_ge n d K Hn Hd ltac:(lia) Hlo) as Hf1.
      pose proof (flog2_lt n d (K + 1) Hn Hd ltac:(lia) Hhi) as Hf2.
      assert (Hfl: flog2 n d = K) by lia. rewrite Hfl.
      replace (Z.max (K - (p - 1)) emin) with emax by (subst K; lia).
      replace (0 <=? emax) with true by (symmetry; apply Z.leb_le; lia).
      rewrite Ee, Ep.
      rewrite EK in Hlo. rewrite EK1 in Hhi.
      destruct (rne_top n (d * (2 * A)) P2 ltac:(nia) HP ltac:(split; nia)) as [Hiff Hle].
      replace ((4 * P2 - 1) * (d * (2 * A))) with (2 * (4 * X - DA)) in Hiff by (subst X DA; ring).
      destruct (rne n (d * (2 * A)) =? 2 * P2) eqn:E; [apply Z.eqb_eq in E|apply Z.eqb_neq in E].
      * replace (emax <? emax + 1) with true by (symmetry; apply Z.ltb_lt; lia).
        split; [intros _; apply Hiff in E; lia|reflexivity].
      * replace (emax <? emax) with false by (symmetry; apply Z.ltb_ge; lia).
        split; [discriminate|]. intros Hc. exfalso. apply E, Hiff. lia.
    + (* beyond: infinite *)
      pose proof (flog2_ge n d (K + 1) Hn Hd ltac:(lia) Hhi) as Hfl.
      rewrite EK1 in Hhi. replace (d * (4 * P2 * A)) with (4 * X) in Hhi by (subst X DA; ring).
      set (e0 := Z.max (flog2 n d - (p - 1)) emin).
      assert (He0: emax + 1 <= e0) by (subst e0 K; lia).
      split; [lia|intros _].
      destruct (_ =? 2 ^ p); destruct (emax <? _) eqn:E; try reflexivity; apply Z.ltb_ge in E; lia.
Qed.

(* the overflow thresholds: MaxFloat + half an ulp *)
Definition overflow_threshold (f : fmt) : Q := Qz ((2 ^ (fprec f + 1) - 1) * 2 ^ (femax f - 1)).

Lemma Qabs_ge_threshold q T : 0 < T ->
  (Qle (Qz T) (Qabs q) <-> T * Zpos (Qden q) <= Z.abs (Qnum q)).
Proof. intros HT. destruct q as [n d]. unfold Qle, Qabs, Qz. simpl. rewrite Z.mul_1_r. lia. Qed.

Lemma extract_float_none_iff f q : fmt_ok f ->
  (extract_float f q = None <-> Qle (overflow_threshold f) (Qabs q)).
Proof.
  intros Hf. unfold extract_float, round_q, overflow_threshold.
  assert (HT: 0 < (2 ^ (fprec f + 1) - 1) * 2 ^ (femax f - 1)).
  { destruct Hf as [H1 [H2 H3]].
    assert (0 < 2 ^ (femax f - 1)) by (apply Z.pow_pos_nonneg; lia).
    assert (2 <= 2 ^ (fprec f + 1)).
    { replace 2 with (2 ^ 1) at 1 by reflexivity. apply Z.pow_le_mono_r; lia. }
    nia. }
  rewrite (Qabs_ge_threshold q _ HT).
  destruct (Qnum q =? 0) eqn:E0.
  - apply Z.eqb_eq in E0. rewrite E0. simpl. split; [discriminate|]. intros H.
    assert (0 < Z.pos (Qden q)) by lia. nia.
  - apply Z.eqb_neq in E0.
    pose proof (round_pos_inf_iff f (Z.abs (Qnum q)) (Z.pos (Qden q)) Hf ltac:(lia) ltac:(lia)) as Hi.
    destruct (round_pos f (Z.abs (Qnum q)) (Z.pos (Qden q))) eqn:Er.
    + split; [discriminate|]. intros H. apply Hi in H. discriminate.
    + split; [intros _; apply Hi; reflexivity|reflexivity].
Qed.

Lemma b64_ok : fmt_ok b64. Proof. unfold fmt_ok, b64; simpl; lia. Qed.
Lemma b32_ok : fmt_ok b32. Proof. unfold fmt_ok, b32; simpl; lia. Qed.

(* a real constant (int, rune or float kind) is accepted by float32 / float64 iff |value| < MaxFloat + ulp/2 *)
Definition float_target (t : tkind) : option fmt :=
  match cat_of t with CatFloat f => Some f | _ => None end.

Lemma float_const_fits (l : lit) (t : tkind) f : wf l -> real_kind l -> float_target t = Some f -> fmt_ok f ->
  (convert l t = TErr <-> Qle (overflow_threshold f) (Qabs (re_of l))) /\
  (convert l t = TErr \/ exists b, convert l t = TVFloat b).
Proof.
  intros Hw Hr Ht Hf. unfold float_target in Ht. unfold convert.
  destruct (cat_of t) eqn:Ec; try discriminate. inversion Ht; subst f0.
  unfold real_kind in Hr.
  wf_cases l; try contradiction; unfold extract_number, re_of; simpl; rewrite Ec; simpl;
  pose proof (extract_float_none_iff f) as Hi;
  match goal with |- context [extract_float f ?q] =>
    specialize (Hi q Hf); destruct (extract_float f q) eqn:E end;
  (split; [split; [intros; try discriminate; apply Hi; reflexivity | intros H; apply Hi in H; try discriminate; reflexivity]
          | try (left; reflexivity); right; eexists; reflexivity]).
Qed.

(* ---------- math/big ---------- *)
Lemma big_exact (l : lit) : wf l -> real_kind l ->
  (forall q, to_big l BRat = Some q -> (q == re_of l)%Q) /\ (exists q, to_big l BRat = Some q) /\
  (forall q, to_big l BFloat = Some q -> (q == re_of l)%Q) /\
  (forall q, to_big l BInt = Some q -> (q == re_of l)%Q /\ exists z, q = Qz z) /\
  (to_big l BInt = None <-> ~ exists z, (re_of l == Qz z)%Q).
Proof.
  intros Hw Hr. unfold real_kind in Hr.
  assert (Hint: forall z k, (k = KInt \/ k = KRune) -> l = mkLit k (CInt z) ->
    (forall q, to_big l BRat = Some q -> (q == re_of l)%Q) /\ (exists q, to_big l BRat = Some q) /\
    (forall q, to_big l BFloat = Some q -> (q == re_of l)%Q) /\
    (forall q, to_big l BInt = Some q -> (q == re_of l)%Q /\ exists z, q = Qz z) /\
    (to_big l BInt = None <-> ~ exists z, (re_of l == Qz z)%Q)).
  { intros z k _ El. subst l. unfold to_big, re_of. simpl.
    split; [intros q0 H0; inversion H0; reflexivity|].
    split; [eexists; reflexivity|].
    split; [intros q0 H0; inversion H0; reflexivity|].
    split; [intros q0 H0; inversion H0; split; [reflexivity|eexists; reflexivity]|].
    split; [discriminate|]. intros H0. exfalso. apply H0. exists z. reflexivity. }
  destruct l as [k v]; destruct k, v; unfold wf in Hw; simpl in *; try contradiction.
  - eapply Hint; [left; reflexivity|reflexivity].
  - eapply Hint; [right; reflexivity|reflexivity].
  - unfold to_big, re_of. simpl.
    split; [intros q0 H0; inversion H0; reflexivity|].
    split; [eexists; reflexivity|].
    split; [intros q0 H0; inversion H0; reflexivity|].
    split.
    + intros q0 H0. destruct (Qintegral q) eqn:E; [|discriminate]. inversion H0; subst.
      split; [symmetry; apply Qintegral_spec; auto|eexists; reflexivity].
    + split.
      * destruct (Qintegral q) eqn:E; [discriminate|]. intros _ [z Hz].
        apply Qintegral_spec in Hz. destruct Hz. congruence.
      * intros Hne. destruct (Qintegral q) eqn:E; [|reflexivity].
        exfalso. apply Hne. exists (Qtrunc_exact q). apply Qintegral_spec. auto.
Qed.

(* C04 — executable model of gomacro's untyped constant evaluation and typed-context conversion
   (code as it is AFTER the fix: commits C04-1..C04-7, C04-9):
     fast/binary.go   Comp.BinaryExprUntyped, untypedClass, Comp.ShiftUntyped
     fast/unary.go    Comp.UnaryExprUntyped
     fast/builtin.go  compileRealImagUntyped, compileComplexUntyped, checkComplexUntypedArg
     fast/convert.go  Comp.convert (untyped operand)
     base/untyped/lit.go  Lit.Convert, ConvertExplicitOnly, extractNumber, extractFloat,
                          ConvertLiteralCheckOverflow, BigInt, BigRat, BigFloat
   go/constant is modelled as exact arithmetic on Z and Q (it is exact as long as numerators and
   denominators stay below 2^4096; the harness only emits such cases).  A gomacro untyped literal is a
   pair (gomacro kind, go/constant value); both kinds are kept because the code consults both.
   Definitions only. *)
From Coq Require Import List NArith ZArith QArith Bool.
From Verif Require Import Common.GoInt Common.GoStr Common.Utf8.
Import ListNotations.
Open Scope Z_scope.

(* ------------------------------------------------------------------ values *)
Inductive kind := KBool | KInt | KRune | KFloat | KComplex | KString.        (* untyped.Kind *)
Inductive cval :=                                                            (* constant.Value by constant.Kind *)
| CBool (b : bool) | CInt (z : Z) | CRat (q : Q) | CCplx (re im : Q) | CStr (s : str).
Record lit := mkLit { lkind : kind; lval : cval }.

Definition mkQ (n d : Z) : Q := Qmake n (Z.to_pos d).
Definition Qz (z : Z) : Q := Qmake z 1.

Definition kind_eqb (a b : kind) : bool :=
  match a, b with
  | KBool, KBool | KInt, KInt | KRune, KRune | KFloat, KFloat | KComplex, KComplex | KString, KString => true
  | _, _ => false
  end.

(* untyped.MakeKind(constant.Kind) *)
Definition make_kind (v : cval) : kind :=
  match v with CBool _ => KBool | CInt _ => KInt | CRat _ => KFloat | CCplx _ _ => KComplex | CStr _ => KString end.

(* ------------------------------------------------------------------ go/constant *)
Inductive binop := OAdd | OSub | OMul | OQuo | ORem | OAnd | OOr | OXor | OAndNot
                 | OShl | OShr | OEql | ONeq | OLss | OLeq | OGtr | OGeq | OLand | OLor.
Inductive unop := UPlus | UMinus | UXor | UNot.
(* arithmetic tokens passed to constant.BinaryOp; AQuoInt is token.QUO_ASSIGN (forces integer division) *)
Inductive aop := AAdd | ASub | AMul | AQuo | AQuoInt | ARem | AAnd | AOr | AXor | AAndNot.

Definition Qzero (q : Q) : bool := Qnum q =? 0.

(* constant.match: convert both operands to the larger representation; None = mismatch (bool/string with
   a number, or bool with string: go/constant returns (x,x) there; never reached after fix C04-3) *)
Definition ord (v : cval) : Z :=
  match v with CBool _ | CStr _ => 1 | CInt _ => 2 | CRat _ => 4 | CCplx _ _ => 6 end.
Definition to_rat (v : cval) : option Q :=
  match v with CInt z => Some (Qz z) | CRat q => Some q | _ => None end.
Definition to_cplx (v : cval) : option (Q * Q) :=
  match v with CInt z => Some (Qz z, 0%Q) | CRat q => Some (q, 0%Q) | CCplx a b => Some (a, b) | _ => None end.

Definition cmatch (x y : cval) : option (cval * cval) :=
  match x, y with
  | CBool _, CBool _ | CStr _, CStr _ | CInt _, CInt _ => Some (x, y)
  | (CBool _ | CStr _), _ | _, (CBool _ | CStr _) => None
  | CCplx _ _, _ | _, CCplx _ _ =>
      match to_cplx x, to_cplx y with
      | Some (a, b), Some (c, d) => Some (CCplx a b, CCplx c d)
      | _, _ => None
      end
  | _, _ =>
      match to_rat x, to_rat y with
      | Some a, Some b => Some (CRat a, CRat b)
      | _, _ => None
      end
  end.

(* constant.BinaryOp after match; None = panic (invalid operation, division by zero) *)
Definition binop_c (op : aop) (x y : cval) : option cval :=
  match cmatch x y with
  | None => None
  | Some (CInt a, CInt b) =>
      match op with
      | AAdd => Some (CInt (a + b))
      | ASub => Some (CInt (a - b))
      | AMul => Some (CInt (a * b))
      | AQuo => if b =? 0 then None else Some (CRat (Qmake a 1 / Qmake b 1))
      | AQuoInt => if b =? 0 then None else Some (CInt (Z.quot a b))
      | ARem => if b =? 0 then None else Some (CInt (Z.rem a b))
      | AAnd => Some (CInt (Z.land a b))
      | AOr => Some (CInt (Z.lor a b))
      | AXor => Some (CInt (Z.lxor a b))
      | AAndNot => Some (CInt (Z.ldiff a b))
      end
  | Some (CRat a, CRat b) =>
      match op with
      | AAdd => Some (CRat (a + b))
      | ASub => Some (CRat (a - b))
      | AMul => Some (CRat (a * b))
      | AQuo => if Qzero b then None else Some (CRat (a / b))
      | _ => None
      end
  | Some (CCplx a b, CCplx c d) =>
      match op with
      | AAdd => Some (CCplx (a + c) (b + d))
      | ASub => Some (CCplx (a - c) (b - d))
      | AMul => Some (CCplx (a * c - b * d) (b * c + a * d))
      | AQuo => let s := (c * c + d * d)%Q in
                if Qzero s then None else Some (CCplx ((a * c + b * d) / s) ((b * c - a * d) / s))
      | _ => None
      end
  | Some (CStr a, CStr b) => match op with AAdd => Some (CStr (a ++ b)) | _ => None end
  | Some _ => None
  end.

Inductive cmp := CEq | CNe | CLt | CLe | CGt | CGe.
Definition cmp_of (c : comparison) (op : cmp) : bool :=
  match op, c with
  | CEq, Eq => true | CEq, _ => false
  | CNe, Eq => false | CNe, _ => true
  | CLt, Lt => true | CLt, _ => false
  | CLe, Gt => false | CLe, _ => true
  | CGt, Gt => true | CGt, _ => false
  | CGe, Lt => false | CGe, _ => true
  end.

(* constant.Compare after match; None = panic *)
Definition compare_c (op : cmp) (x y : cval) : option bool :=
  match cmatch x y with
  | Some (CBool a, CBool b) =>
      match op with CEq => Some (Bool.eqb a b) | CNe => Some (negb (Bool.eqb a b)) | _ => None end
  | Some (CInt a, CInt b) => Some (cmp_of (a ?= b) op)
  | Some (CRat a, CRat b) => Some (cmp_of (a ?= b)%Q op)
  | Some (CCplx a b, CCplx c d) =>
      match op with
      | CEq => Some (Qeq_bool a c && Qeq_bool b d)
      | CNe => Some (negb (Qeq_bool a c && Qeq_bool b d))
      | _ => None
      end
  | Some (CStr a, CStr b) => Some (cmp_of (str_cmp a b) op)
  | _ => None
  end.

(* constant.UnaryOp(op, y, 0) *)
Definition unop_c (op : unop) (y : cval) : option cval :=
  match op, y with
  | UPlus, (CInt _ | CRat _ | CCplx _ _) => Some y
  | UMinus, CInt z => Some (CInt (- z))
  | UMinus, CRat q => Some (CRat (- q))
  | UMinus, CCplx a b => Some (CCplx (- a) (- b))
  | UXor, CInt z => Some (CInt (Z.lnot z))
  | UNot, CBool b => Some (CBool (negb b))
  | _, _ => None
  end.

Definition Qintegral (q : Q) : bool := (Qnum q) mod (Zpos (Qden q)) =? 0.
Definition Qtrunc_exact (q : Q) : Z := Qnum q / Zpos (Qden q).

(* constant.ToInt: Some z iff the value is an integer *)
Definition to_int (v : cval) : option Z :=
  match v with
  | CInt z => Some z
  | CRat q => if Qintegral q then Some (Qtrunc_exact q) else None
  | CCplx a b => if Qzero b then (if Qintegral a then Some (Qtrunc_exact a) else None) else None
  | _ => None
  end.
(* constant.ToFloat *)
Definition to_float (v : cval) : option Q :=
  match v with
  | CInt z => Some (Qz z)
  | CRat q => Some q
  | CCplx a b => if Qzero b then Some a else None
  | _ => None
  end.
(* constant.Shift: the operand must be an Int *)
Definition shift_c (x : cval) (left : bool) (n : Z) : option cval :=
  match x with
  | CInt z => Some (CInt (if left then Z.shiftl z n else Z.shiftr z n))
  | _ => None
  end.

Definition int64_exact (z : Z) : bool := in_rangeb I64 z.
Definition uint64_exact (z : Z) : bool := in_rangeb U64 z.

(* ------------------------------------------------------------------ gomacro: fast/binary.go, fast/unary.go *)
Inductive class := ClNum | ClBool | ClStr.
(* untypedClass (fix C04-3) *)
Definition class_of (l : lit) : class :=
  match lkind l with
  | KInt | KRune | KFloat | KComplex => ClNum
  | KBool => ClBool
  | KString => ClStr
  end.
Definition class_eqb (a b : class) : bool :=
  match a, b with ClNum, ClNum | ClBool, ClBool | ClStr, ClStr => true | _, _ => false end.

Definition is_intkind (k : kind) : bool := match k with KInt | KRune => true | _ => false end.

(* Lit.Convert(TypeOfBool) *)
Definition as_bool (l : lit) : option bool := match lval l with CBool b => Some b | _ => None end.

(* go/types' bound on constant shift counts, adopted by fix C04-6 *)
Definition shift_bound : Z := 1023 - 1 + 52.

(* Comp.ShiftUntyped (after fixes C04-4, C04-6): None = c.Errorf *)
Definition shift_untyped (left : bool) (x y : lit) : option lit :=
  match to_int (lval y) with
  | None => None
  | Some n =>
    if negb (uint64_exact n) || (shift_bound <? n) then None else
    let r :=
      match lkind x with
      | KInt | KRune => Some (lval x, lkind x)
      | KFloat | KComplex => match to_int (lval x) with Some z => Some (CInt z, KInt) | None => None end
      | _ => None
      end in
    match r with
    | None => None
    | Some (xn, xk) => match shift_c xn left n with Some z => Some (mkLit xk z) | None => None end
    end
  end.

Definition aop_of (op : binop) : option aop :=
  match op with
  | OAdd => Some AAdd | OSub => Some ASub | OMul => Some AMul | OQuo => Some AQuo | ORem => Some ARem
  | OAnd => Some AAnd | OOr => Some AOr | OXor => Some AXor | OAndNot => Some AAndNot
  | _ => None
  end.
Definition cmp_op (op : binop) : option cmp :=
  match op with
  | OEql => Some CEq | ONeq => Some CNe | OLss => Some CLt | OLeq => Some CLe | OGtr => Some CGt | OGeq => Some CGe
  | _ => None
  end.

(* Comp.BinaryExprUntyped (after fix C04-3) *)
Definition binary_untyped (op : binop) (x y : lit) : option lit :=
  if negb (class_eqb (class_of x) (class_of y)) then None else
  match op with
  | OLand | OLor =>
      match as_bool x, as_bool y with
      | Some a, Some b => Some (mkLit KBool (CBool (match op with OLand => a && b | _ => a || b end)))
      | _, _ => None
      end
  | OEql | ONeq | OLss | OLeq | OGtr | OGeq =>
      match cmp_op op with
      | Some c => match compare_c c (lval x) (lval y) with Some b => Some (mkLit KBool (CBool b)) | None => None end
      | None => None
      end
  | OShl => shift_untyped true x y
  | OShr => shift_untyped false x y
  | _ =>
      match aop_of op with
      | None => None
      | Some a =>
        let xint := is_intkind (lkind x) in
        let yint := is_intkind (lkind y) in
        let a2 := match a with AQuo => if xint && yint then AQuoInt else AQuo | _ => a end in
        match binop_c a2 (lval x) (lval y) with
        | None => None
        | Some z =>
          let zk := make_kind z in
          (* untyped.Rune has precedence over untyped.Int *)
          let zk := match z with
                    | CInt _ => if xint && negb (kind_eqb (lkind x) KInt) then lkind x
                                else if yint && negb (kind_eqb (lkind y) KInt) then lkind y else zk
                    | _ => zk
                    end in
          Some (mkLit zk z)
        end
      end
  end.

(* Comp.UnaryExprUntyped *)
Definition unary_untyped (op : unop) (x : lit) : option lit :=
  match unop_c op (lval x) with Some z => Some (mkLit (lkind x) z) | None => None end.

(* ------------------------------------------------------------------ gomacro: fast/builtin.go *)
(* constant.Real, constant.Imag followed by constant.ToFloat: the component as a rational; None = panic (not a number).
   go/constant keeps an integral component as an Int (real(3+2i), real(1), imag('a')): ToFloat makes it a Float. *)
Definition real_c (v : cval) : option Q :=
  match v with CInt z => Some (Qz z) | CRat q => Some q | CCplx a _ => Some a | _ => None end.
Definition imag_c (v : cval) : option Q :=
  match v with CInt _ | CRat _ => Some 0%Q | CCplx _ b => Some b | _ => None end.

Inductive builtin1 := BReal | BImag.

(* compileRealImagUntyped (after fix C04-7): numeric kinds only; the result is ALWAYS an untyped float *)
Definition real_imag_untyped (f : builtin1) (x : lit) : option lit :=
  match class_of x with
  | ClNum =>
      match (match f with BReal => real_c | BImag => imag_c end) (lval x) with
      | Some q => Some (mkLit KFloat (CRat q))
      | None => None
      end
  | _ => None
  end.

(* checkComplexUntypedArg: int, rune, float, or complex with a zero imaginary part *)
Definition complex_arg_ok (l : lit) : bool :=
  match lkind l with
  | KInt | KRune | KFloat => true
  | KComplex => match imag_c (lval l) with Some b => Qzero b | None => false end
  | _ => false
  end.

Definition imag_one : cval := CCplx 0 1.   (* complexImagOne = 1i *)

(* compileComplexUntyped: re + im * 1i with constant.BinaryOp; the result is an untyped complex *)
Definition complex_untyped (x y : lit) : option lit :=
  if complex_arg_ok x && complex_arg_ok y then
    match binop_c AMul (lval y) imag_one with
    | Some iy => match binop_c AAdd (lval x) iy with Some z => Some (mkLit KComplex z) | None => None end
    | None => None
    end
  else None.

Inductive expr := ELit (l : lit) | EUn (op : unop) (x : expr) | EBin (op : binop) (x y : expr)
                | ECall1 (f : builtin1) (x : expr) | ECplx (x y : expr).

Fixpoint eval (e : expr) : option lit :=
  match e with
  | ELit l => Some l
  | EUn op x => match eval x with Some a => unary_untyped op a | None => None end
  | EBin op x y =>
      match eval x, eval y with
      | Some a, Some b => binary_untyped op a b
      | _, _ => None
      end
  | ECall1 f x => match eval x with Some a => real_imag_untyped f a | None => None end
  | ECplx x y =>
      match eval x, eval y with
      | Some a, Some b => complex_untyped a b
      | _, _ => None
      end
  end.

(* ------------------------------------------------------------------ IEEE rounding in Z arithmetic *)
(* a binary format: precision p (bits of the significand incl. the hidden bit), emin = exponent of the least
   subnormal (value = m * 2^e, 0 <= m < 2^p, emin <= e <= emax).  binary64: 53, -1074, 971; binary32: 24, -149, 104 *)
Record fmt := mkFmt { fprec : Z; femin : Z; femax : Z; fwidth : Z }.
Definition b64 := mkFmt 53 (-1074) 971 64.
Definition b32 := mkFmt 24 (-149) 104 32.

(* floor(log2 (n/d)) for n, d > 0 *)
Definition flog2 (n d : Z) : Z :=
  let l := Z.log2 n - Z.log2 d in
  if (if 0 <=? l then d * 2 ^ l <=? n else d <=? n * 2 ^ (- l)) then l else l - 1.

(* nearest integer to N/D (D > 0), ties to even *)
Definition rne (N D : Z) : Z :=
  let m := N / D in
  let r := N mod D in
  if 2 * r <? D then m else if D <? 2 * r then m + 1 else if Z.even m then m else m + 1.

Inductive fres := FFin (m e : Z) | FInf.   (* magnitude m * 2^e *)

(* round the positive rational n/d to the format: big.Rat.Float64 / Float32 *)
Definition round_pos (f : fmt) (n d : Z) : fres :=
  let e := Z.max (flog2 n d - (fprec f - 1)) (femin f) in
  let m := if 0 <=? e then rne n (d * 2 ^ e) else rne (n * 2 ^ (- e)) d in
  let '(m, e) := if m =? 2 ^ fprec f then (2 ^ (fprec f - 1), e + 1) else (m, e) in
  if femax f <? e then FInf else FFin m e.

(* sign, result: constant.Float64Val / Float32Val of a rational *)
Definition round_q (f : fmt) (q : Q) : bool * fres :=
  let n := Qnum q in
  if n =? 0 then (false, FFin 0 (femin f))
  else (n <? 0, round_pos f (Z.abs n) (Zpos (Qden q))).

(* IEEE bit pattern; the zero is always +0 (extractFloat returns f + 0) *)
Definition bits_of (f : fmt) (neg : bool) (m e : Z) : Z :=
  let h := 2 ^ (fprec f - 1) in
  let mag := if m <? h then m else (e - femin f + 1) * h + (m - h) in
  if neg && negb (m =? 0) then mag + 2 ^ (fwidth f - 1) else mag.

(* Lit.extractFloat: None = overflow error *)
Definition extract_float (f : fmt) (q : Q) : option Z :=
  match round_q f q with
  | (_, FInf) => None
  | (neg, FFin m e) => Some (bits_of f neg m e)
  end.

(* ------------------------------------------------------------------ typed contexts: base/untyped/lit.go *)
Inductive tkind := TInt | TInt8 | TInt16 | TInt32 | TInt64 | TUint | TUint8 | TUint16 | TUint32 | TUint64 | TUintptr
                 | TFloat32 | TFloat64 | TComplex64 | TComplex128 | TBool | TString.
Inductive tcat := CatInt (k : ikind) | CatUint (k : ikind) | CatFloat (f : fmt) | CatComplex (f : fmt) | CatBool | CatString.
Definition cat_of (t : tkind) : tcat :=
  match t with
  | TInt | TInt64 => CatInt I64 | TInt8 => CatInt I8 | TInt16 => CatInt I16 | TInt32 => CatInt I32
  | TUint | TUint64 | TUintptr => CatUint U64 | TUint8 => CatUint U8 | TUint16 => CatUint U16 | TUint32 => CatUint U32
  | TFloat32 => CatFloat b32 | TFloat64 => CatFloat b64
  | TComplex64 => CatComplex b32 | TComplex128 => CatComplex b64
  | TBool => CatBool | TString => CatString
  end.

Inductive tres := TErr | TVBool (b : bool) | TVInt (z : Z) | TVFloat (bits : Z) | TVCplx (re im : Z) | TVStr (s : str).

(* ConvertLiteralCheckOverflow for an integer source of kind ks (int64 or uint64) and target kind k:
   convert (wrap), convert back, compare *)
Definition check_overflow (ks k : ikind) (n : Z) : tres :=
  let v := wrap k n in
  if wrap ks v =? n then TVInt v else TErr.

(* extractNumber + ConvertLiteralCheckOverflow (after fixes C04-1, C04-2, C04-9) *)
Definition extract_number (src : cval) (t : tkind) : tres :=
  match src with
  | CInt _ | CRat _ | CCplx _ _ =>
    match cat_of t with
    | CatInt k =>
        match to_int src with
        | None => TErr                                       (* truncated *)
        | Some z => if int64_exact z then check_overflow I64 k z else TErr
        end
    | CatUint k =>
        match to_int src with
        | None => TErr
        | Some z => if uint64_exact z then check_overflow U64 k z else TErr
        end
    | CatFloat f =>
        match src with
        | CCplx _ _ => TErr       (* non-zero imaginary part (convert drops a zero one): "truncated", fix C04-9 *)
        | _ => match to_float src with
               | Some q => match extract_float f q with Some b => TVFloat b | None => TErr end
               | None => TErr
               end
        end
    | CatComplex f =>
        let '(re, im) := match src with CCplx a b => (a, b) | CInt z => (Qz z, 0%Q) | CRat q => (q, 0%Q) | _ => (0%Q, 0%Q) end in
        match extract_float f re, extract_float f im with
        | Some a, Some b => TVCplx a b
        | _, _ => TErr
        end
    | _ => TErr
    end
  | _ => TErr
  end.

(* Lit.Convert for the basic kinds *)
Definition convert (l : lit) (t : tkind) : tres :=
  match cat_of t with
  | CatBool => match lval l with CBool b => TVBool b | _ => TErr end
  | CatString => match lval l with CStr s => TVStr s | _ => TErr end
  | CatInt _ | CatUint _ | CatFloat _ =>
      let v := match lkind l, lval l with
               | KComplex, CCplx a b => if Qzero b then CRat a else lval l
               | _, v => v
               end in
      extract_number v t
  | CatComplex _ => extract_number (lval l) t
  end.

Definition str_of_Z (l : list Z) : str := map Z.to_N l.

(* Lit.ConvertExplicitOnly for basic kinds (fix C04-5): integer constant -> string *)
Definition convert_explicit_only (l : lit) (t : tkind) : option tres :=
  match t, lval l with
  | TString, CInt z =>
      if is_intkind (lkind l)
      then Some (TVStr (str_of_Z (if int64_exact z && (0 <=? z) && (z <=? 1114111) then encode_rune z else encode_rune rune_error)))
      else None
  | _, _ => None
  end.

(* typed context: explicit = T(e) (Comp.convert), otherwise var x T = e (ConstTo) *)
Definition typed_context (l : lit) (t : tkind) (explicit : bool) : tres :=
  if explicit then match convert_explicit_only l t with Some r => r | None => convert l t end
  else convert l t.

(* ------------------------------------------------------------------ math/big contexts *)
Inductive bigkind := BInt | BRat | BFloat.
(* toMathBig: only Int and Float constants; result as an exact fraction; None = rejected.
   BFloat is modelled for values that binary floating point can hold (dyadic rationals): SetInt/SetRat/
   SetFloat64 pick a precision that holds them exactly; other rationals are rounded (not modelled, judged
   by the direct oracle only). *)
Definition to_big (l : lit) (b : bigkind) : option Q :=
  match lval l with
  | CInt z => Some (Qz z)
  | CRat q =>
      match b with
      | BInt => if Qintegral q then Some (Qz (Qtrunc_exact q)) else None
      | _ => Some q
      end
  | _ => None
  end.

(* ------------------------------------------------------------------ correspondence *)
Definition cval_eqb (a b : cval) : bool :=
  match a, b with
  | CBool x, CBool y => Bool.eqb x y
  | CInt x, CInt y => x =? y
  | CRat x, CRat y => Qeq_bool x y
  | CCplx a1 b1, CCplx a2 b2 => Qeq_bool a1 a2 && Qeq_bool b1 b2
  | CStr x, CStr y => str_eqb x y
  | _, _ => false
  end.
Definition lit_eqb (a b : lit) : bool := kind_eqb (lkind a) (lkind b) && cval_eqb (lval a) (lval b).
Definition olit_eqb (a b : option lit) : bool :=
  match a, b with Some x, Some y => lit_eqb x y | None, None => true | _, _ => false end.
Definition tres_eqb (a b : tres) : bool :=
  match a, b with
  | TErr, TErr => true
  | TVBool x, TVBool y => Bool.eqb x y
  | TVInt x, TVInt y => x =? y
  | TVFloat x, TVFloat y => x =? y
  | TVCplx a1 b1, TVCplx a2 b2 => (a1 =? a2) && (b1 =? b2)
  | TVStr x, TVStr y => str_eqb x y
  | _, _ => false
  end.

Inductive case :=
| CEval (idx : Z) (e : expr) (obs : option lit)
| CConv (idx : Z) (l : lit) (t : tkind) (explicit : bool) (obs : tres)
| CBig (idx : Z) (l : lit) (b : bigkind) (obs : option (Z * Z)).

Definition case_idx (c : case) : Z := match c with CEval i _ _ | CConv i _ _ _ _ | CBig i _ _ _ => i end.
Definition case_ok (c : case) : bool :=
  match c with
  | CEval _ e obs => olit_eqb (eval e) obs
  | CConv _ l t ex obs => tres_eqb (typed_context l t ex) obs
  | CBig _ l b obs =>
      match to_big l b, obs with
      | Some q, Some (n, d) => Qeq_bool q (mkQ n d)
      | None, None => true
      | _, _ => false
      end
  end.
Definition mismatches (cs : list case) : list Z := map case_idx (filter (fun c => negb (case_ok c)) cs).

(* C04 — lemmas about the model of untyped constant arithmetic (kind rules, exactness) *)
From Coq Require Import List NArith ZArith QArith Bool Lia Qfield.
From Verif Require Import Common.GoInt Common.GoStr C04.Model.
Import ListNotations.
Open Scope Z_scope.

(* ---------- well-formed literals: the gomacro kind agrees with the go/constant representation ---------- *)
Definition wf (l : lit) : Prop :=
  match lkind l, lval l with
  | KBool, CBool _ | KInt, CInt _ | KRune, CInt _ | KFloat, CRat _ | KComplex, CCplx _ _ | KString, CStr _ => True
  | _, _ => False
  end.
Definition numeric (l : lit) : Prop := class_of l = ClNum.

(* the mathematical value of a numeric literal: a complex rational *)
Definition re_of (l : lit) : Q := match lval l with CInt z => Qz z | CRat q => q | CCplx a _ => a | _ => 0%Q end.
Definition im_of (l : lit) : Q := match lval l with CCplx _ b => b | _ => 0%Q end.

(* Go: "the result kind is the one that appears later in: integer, rune, floating-point, complex" *)
Definition krank (k : kind) : Z := match k with KInt => 1 | KRune => 2 | KFloat => 3 | KComplex => 4 | _ => 0 end.
Definition kmax (a b : kind) : kind := if krank a <? krank b then b else a.

Ltac qsolve :=
  unfold Qeq, Qplus, Qminus, Qmult, Qopp, Qz; simpl; rewrite ?Pos2Z.inj_mul; ring.

Ltac wf_cases x :=
  let k := fresh "k" in let v := fresh "v" in
  destruct x as [k v]; destruct k, v; unfold wf, numeric, class_of in *; simpl in *; try contradiction; try discriminate.

Inductive arith3 := A_add | A_sub | A_mul.
Definition binop_of3 (a : arith3) : binop := match a with A_add => OAdd | A_sub => OSub | A_mul => OMul end.
(* exact complex-rational arithmetic *)
Definition spec_re (a : arith3) (xr xi yr yi : Q) : Q :=
  match a with A_add => xr + yr | A_sub => xr - yr | A_mul => xr * yr - xi * yi end.
Definition spec_im (a : arith3) (xr xi yr yi : Q) : Q :=
  match a with A_add => xi + yi | A_sub => xi - yi | A_mul => xi * yr + xr * yi end.

Lemma arith_exact (a : arith3) (x y : lit) : wf x -> wf y -> numeric x -> numeric y ->
  exists z, binary_untyped (binop_of3 a) x y = Some z /\ wf z /\ numeric z /\
            lkind z = kmax (lkind x) (lkind y) /\
            (re_of z == spec_re a (re_of x) (im_of x) (re_of y) (im_of y))%Q /\
            (im_of z == spec_im a (re_of x) (im_of x) (re_of y) (im_of y))%Q.
Proof.
  intros Hx Hy Nx Ny. wf_cases x; wf_cases y; destruct a;
    (eexists; split; [reflexivity|]; unfold wf, numeric, class_of, re_of, im_of, spec_re, spec_im; simpl;
     repeat split; try reflexivity; try qsolve; try ring).
Qed.

(* ---------- division ---------- *)
Definition both_int (x y : lit) : bool := is_intkind (lkind x) && is_intkind (lkind y).

Lemma Qzero_spec q : Qzero q = true <-> (q == 0)%Q.
Proof. unfold Qzero, Qeq. simpl. rewrite Z.eqb_eq. lia. Qed.
Lemma Qzero_false q : Qzero q = false -> ~ (q == 0)%Q.
Proof. intros H C. apply Qzero_spec in C. congruence. Qed.

Lemma quot_rem_law a b : b <> 0 ->
  a = Z.quot a b * b + Z.rem a b /\ Z.abs (Z.rem a b) < Z.abs b /\ (0 <= a -> 0 <= Z.rem a b) /\ (a <= 0 -> Z.rem a b <= 0).
Proof.
  intros Hb. pose proof (Z.quot_rem' a b). pose proof (Z.rem_bound_abs a b Hb).
  repeat split; try lia; intros; [apply Z.rem_nonneg|apply Z.rem_nonpos]; assumption.
Qed.

(* integer division of two integer-kind constants truncates toward zero (Go's rule for typed and untyped ints):
   x = q*y + r with |r| < |y| and r having the sign of x *)
Lemma int_quo_exact (x y : lit) a b : wf x -> wf y -> both_int x y = true ->
  lval x = CInt a -> lval y = CInt b ->
  (b = 0 -> binary_untyped OQuo x y = None /\ binary_untyped ORem x y = None) /\
  (b <> 0 -> exists q r, binary_untyped OQuo x y = Some (mkLit (kmax (lkind x) (lkind y)) (CInt q)) /\
                         binary_untyped ORem x y = Some (mkLit (kmax (lkind x) (lkind y)) (CInt r)) /\
                         a = q * b + r /\ Z.abs r < Z.abs b /\ (0 <= a -> 0 <= r) /\ (a <= 0 -> r <= 0)).
Proof.
  intros Hx Hy Hb Ha Hbv. unfold both_int in Hb.
  wf_cases x; wf_cases y; inversion Ha; inversion Hbv; subst; (split; intros Hz;
    [ subst; unfold binary_untyped, class_of, binop_c; simpl; split; reflexivity
    | exists (Z.quot a b), (Z.rem a b); unfold binary_untyped, class_of, binop_c; simpl;
      destruct (b =? 0) eqn:E; [apply Z.eqb_eq in E; contradiction|];
      split; [reflexivity|split; [reflexivity|apply quot_rem_law; assumption]] ]).
Qed.

(* division with at least one non-integer operand is exact rational / complex division: quotient * divisor = dividend *)
Lemma quo_exact (x y z : lit) : wf x -> wf y -> numeric x -> numeric y -> both_int x y = false ->
  binary_untyped OQuo x y = Some z ->
  wf z /\ lkind z = kmax (lkind x) (lkind y) /\
  (re_of z * re_of y - im_of z * im_of y == re_of x)%Q /\
  (im_of z * re_of y + re_of z * im_of y == im_of x)%Q.
Proof.
  intros Hx Hy Nx Ny Hb. unfold both_int in Hb.
  wf_cases x; wf_cases y; unfold binary_untyped, class_of, binop_c; simpl;
  try discriminate;
  try (destruct (z0 =? 0) eqn:E; [discriminate|]; apply Z.eqb_neq in E);
  try (destruct (Qzero q) eqn:E; [discriminate|]; apply Qzero_false in E);
  try (destruct (Qzero q0) eqn:E; [discriminate|]; apply Qzero_false in E);
  try (match goal with |- context [Qzero ?s] => destruct (Qzero s) eqn:E; [discriminate|]; apply Qzero_false in E end);
  intros H; inversion H; subst; unfold wf, re_of, im_of; simpl; (split; [exact I|]); (split; [reflexivity|]);
  try (assert (~ (Qz z0 == 0)%Q) by (unfold Qz, Qeq; simpl; lia));
  split.
  all: try (field; auto).
  all: try (unfold Qz in *; field; auto).
  all: try (intro C; apply E; rewrite C; ring).
Qed.

(* division by zero is rejected *)
Lemma quo_zero_rejected (x y : lit) : wf x -> wf y -> numeric x -> numeric y ->
  (re_of y == 0)%Q -> (im_of y == 0)%Q -> binary_untyped OQuo x y = None.
Proof.
  intros Hx Hy Nx Ny Hr Hi.
  wf_cases x; wf_cases y; unfold binary_untyped, class_of, binop_c, re_of, im_of in *; simpl in *;
  try (assert (z0 = 0) by (unfold Qz, Qeq in Hr; simpl in Hr; lia); subst; reflexivity);
  try (apply Qzero_spec in Hr; rewrite Hr; reflexivity);
  try (assert (E: Qzero (Qz z0 * Qz z0 + 0 * 0) = true) by (apply Qzero_spec; unfold Qz, Qeq in *; simpl in *; nia); rewrite E; reflexivity);
  try (assert (E: Qzero (q0 * q0 + 0 * 0) = true) by (apply Qzero_spec; rewrite Hr; ring); rewrite E; reflexivity);
  try (assert (E: Qzero (q * q + 0 * 0) = true) by (apply Qzero_spec; rewrite Hr; ring); rewrite E; reflexivity);
  try (match goal with |- context [Qzero ?s] => assert (E: Qzero s = true) by (apply Qzero_spec; first [rewrite Hr, Hi; ring | rewrite Hr; ring]); rewrite E; reflexivity end).
Qed.

(* ---------- comparisons ---------- *)
Definition cmp_binop (c : cmp) : binop :=
  match c with CEq => OEql | CNe => ONeq | CLt => OLss | CLe => OLeq | CGt => OGtr | CGe => OGeq end.
Definition real_kind (l : lit) : Prop := match lkind l with KInt | KRune | KFloat => True | _ => False end.

(* comparison of real constants of any two kinds = comparison of their exact rational values; the result is an untyped bool *)
Lemma cmp_exact (c : cmp) (x y : lit) : wf x -> wf y -> real_kind x -> real_kind y ->
  binary_untyped (cmp_binop c) x y = Some (mkLit KBool (CBool (cmp_of (re_of x ?= re_of y)%Q c))).
Proof.
  intros Hx Hy Rx Ry. unfold real_kind in *.
  wf_cases x; wf_cases y; try contradiction; destruct c; unfold binary_untyped, class_of, compare_c, re_of; simpl;
  try reflexivity;
  try (unfold Qz, Qcompare; simpl; rewrite ?Z.mul_1_r; reflexivity).
Qed.

(* equality of complex constants *)
Lemma cmp_complex_exact (x y : lit) : wf x -> wf y -> numeric x -> numeric y ->
  binary_untyped OEql x y = Some (mkLit KBool (CBool (Qeq_bool (re_of x) (re_of y) && Qeq_bool (im_of x) (im_of y)))).
Proof.
  intros Hx Hy Nx Ny.
  wf_cases x; wf_cases y; unfold binary_untyped, class_of, compare_c, re_of, im_of; simpl;
  rewrite ?andb_true_r; try reflexivity;
  unfold Qeq_bool, Qz; simpl; rewrite !Z.mul_1_r; unfold Zeq_bool; reflexivity.
Qed.

(* operands of different classes (number / string / bool) are rejected (fix C04-3) *)
Lemma mismatched_rejected (op : binop) (x y : lit) : class_of x <> class_of y -> binary_untyped op x y = None.
Proof.
  intros H. unfold binary_untyped.
  destruct (class_of x), (class_of y); simpl; try reflexivity; contradiction.
Qed.

(* ---------- shifts ---------- *)
Lemma uint64_exact_spec n : uint64_exact n = true <-> 0 <= n < 2 ^ 64.
Proof. unfold uint64_exact. rewrite in_rangeb_spec. unfold in_range, imin, imax, modulus, signed, width. simpl. lia. Qed.

Lemma shift_guard n : negb (uint64_exact n) || (shift_bound <? n) = false <-> 0 <= n <= shift_bound.
Proof.
  rewrite orb_false_iff, negb_false_iff, uint64_exact_spec, Z.ltb_ge. unfold shift_bound. lia.
Qed.

(* x << n = x * 2^n and x >> n = floor (x / 2^n) for every integer x and every count 0 <= n <= 1074;
   any other count (negative, non-integral -- then to_int fails -- or larger) is rejected *)
Lemma shift_exact (left : bool) (x y : lit) a n : is_intkind (lkind x) = true -> lval x = CInt a ->
  numeric y -> to_int (lval y) = Some n ->
  (0 <= n <= shift_bound ->
     binary_untyped (if left then OShl else OShr) x y =
       Some (mkLit (lkind x) (CInt (if left then a * 2 ^ n else a / 2 ^ n)))) /\
  (~ (0 <= n <= shift_bound) -> binary_untyped (if left then OShl else OShr) x y = None).
Proof.
  intros Hk Ha Ny Hn. unfold numeric in Ny.
  destruct x as [k v]; simpl in *; subst v.
  assert (Cx: class_of {| lkind := k; lval := CInt a |} = ClNum) by (destruct k; try discriminate; reflexivity).
  split; intros Hr.
  - apply shift_guard in Hr.
    destruct left; unfold binary_untyped; rewrite Cx, Ny; simpl; unfold shift_untyped; simpl; rewrite Hn, Hr;
    apply shift_guard in Hr; destruct k; try discriminate; simpl;
    rewrite ?Z.shiftl_mul_pow2, ?Z.shiftr_div_pow2 by lia; reflexivity.
  - assert (Hf: negb (uint64_exact n) || (shift_bound <? n) = true).
    { destruct (negb (uint64_exact n) || (shift_bound <? n)) eqn:E; [reflexivity|]. apply shift_guard in E. contradiction. }
    destruct left; unfold binary_untyped; rewrite Cx, Ny; simpl; unfold shift_untyped; simpl; rewrite Hn, Hf; reflexivity.
Qed.

Lemma shift_count_not_integer (left : bool) (x y : lit) : to_int (lval y) = None ->
  binary_untyped (if left then OShl else OShr) x y = None.
Proof.
  intros Hn. destruct left; unfold binary_untyped; destruct (negb _); try reflexivity; unfold shift_untyped; rewrite Hn; reflexivity.
Qed.

(* an integer-valued float/complex left operand is first converted exactly to an integer (fix C04-4); result kind int *)
Lemma shift_float_operand (left : bool) (x y : lit) a n : wf x -> numeric x -> numeric y -> is_intkind (lkind x) = false ->
  to_int (lval x) = Some a -> to_int (lval y) = Some n -> 0 <= n <= shift_bound ->
  binary_untyped (if left then OShl else OShr) x y = Some (mkLit KInt (CInt (if left then a * 2 ^ n else a / 2 ^ n))).
Proof.
  intros Hx Nx Ny Hk Ha Hn Hr.
  pose proof Hr as Hg. apply shift_guard in Hg.
  unfold numeric in *.
  assert (Cx: class_of x = ClNum) by assumption.
  destruct left; unfold binary_untyped; rewrite Cx, Ny; simpl; unfold shift_untyped; rewrite Hn, Hg; simpl;
  destruct x as [k v]; destruct k, v; unfold wf in Hx; simpl in *; try contradiction; try discriminate;
  rewrite Ha; simpl; rewrite ?Z.shiftl_mul_pow2, ?Z.shiftr_div_pow2 by lia; reflexivity.
Qed.

(* ---------- well-formedness is preserved: exactness composes over whole expression trees ---------- *)
Lemma unary_wf op x z : wf x -> unary_untyped op x = Some z -> wf z.
Proof.
  intros Hx. unfold unary_untyped.
  wf_cases x; destruct op; simpl; intros H; inversion H; exact I.
Qed.

Lemma binary_wf op x y z : wf x -> wf y -> binary_untyped op x y = Some z -> wf z.
Proof.
  intros Hx Hy.
  wf_cases x; wf_cases y; destruct op; unfold binary_untyped, class_of, shift_untyped, binop_c, compare_c; simpl;
  intros H;
  repeat (simpl in H; match type of H with
         | context [if ?c then _ else _] => destruct c
         | context [match ?c with _ => _ end] => destruct c
         end);
  simpl in H; try discriminate; inversion H; try exact I.
Qed.

(* ---------- builtins on untyped constants: real, imag, complex (fix C04-7) ---------- *)
Definition component (f : builtin1) (x : lit) : Q := match f with BReal => re_of x | BImag => im_of x end.

(* real(x), imag(x) of a numeric constant of ANY kind: accepted, the result is an untyped FLOAT constant (never an
   integer, whatever the representation of the component) holding exactly the real / imaginary part *)
Lemma real_imag_exact (f : builtin1) (x : lit) : wf x -> numeric x ->
  exists z, real_imag_untyped f x = Some z /\ wf z /\ lkind z = KFloat /\
            (re_of z == component f x)%Q /\ (im_of z == 0)%Q.
Proof.
  intros Hx Nx. wf_cases x; destruct f;
    (eexists; split; [reflexivity|]; unfold wf, re_of, im_of, component; simpl; repeat split; reflexivity).
Qed.

Lemma real_imag_non_numeric (f : builtin1) (x : lit) : ~ numeric x -> real_imag_untyped f x = None.
Proof.
  unfold numeric, real_imag_untyped. destruct (class_of x); intros H; try reflexivity. exfalso; apply H; reflexivity.
Qed.

Lemma real_imag_wf f x z : wf x -> real_imag_untyped f x = Some z -> wf z.
Proof.
  intros Hx. unfold real_imag_untyped.
  wf_cases x; destruct f; simpl; intros H; inversion H; exact I.
Qed.

Lemma complex_arg_ok_spec (x : lit) : wf x -> (complex_arg_ok x = true <-> numeric x /\ (im_of x == 0)%Q).
Proof.
  intros Hx. destruct x as [k v]; destruct k, v; unfold wf in Hx; simpl in Hx; try contradiction;
    unfold complex_arg_ok, numeric, class_of, im_of; simpl.
  - split; [discriminate|intros [N _]; discriminate].
  - split; [intros _; split; reflexivity|reflexivity].
  - split; [intros _; split; reflexivity|reflexivity].
  - split; [intros _; split; reflexivity|reflexivity].
  - rewrite Qzero_spec. split; [intros H; split; [reflexivity|exact H]|intros [_ H]; exact H].
  - split; [discriminate|intros [N _]; discriminate].
Qed.

(* complex(x, y): accepted iff both operands are numeric constants with a zero imaginary part;
   the result is the untyped complex constant  re x + (re y) i *)
Lemma complex_exact (x y : lit) : wf x -> wf y ->
  (numeric x /\ (im_of x == 0)%Q /\ numeric y /\ (im_of y == 0)%Q ->
     exists z, complex_untyped x y = Some z /\ wf z /\ lkind z = KComplex /\
               (re_of z == re_of x)%Q /\ (im_of z == re_of y)%Q) /\
  (~ (numeric x /\ (im_of x == 0)%Q /\ numeric y /\ (im_of y == 0)%Q) -> complex_untyped x y = None).
Proof.
  intros Hx Hy. pose proof (complex_arg_ok_spec x Hx) as Sx. pose proof (complex_arg_ok_spec y Hy) as Sy.
  split.
  - intros (Nx & Ix & Ny & Iy).
    assert (Ox: complex_arg_ok x = true) by (apply Sx; split; assumption).
    assert (Oy: complex_arg_ok y = true) by (apply Sy; split; assumption).
    unfold complex_untyped. rewrite Ox, Oy. clear Sx Sy Ox Oy.
    wf_cases x; wf_cases y; unfold im_of, re_of in *; simpl in *;
      (eexists; split; [reflexivity|]; unfold wf, re_of, im_of; simpl; repeat split; try reflexivity;
       try (rewrite ?Ix, ?Iy; qsolve); try (rewrite ?Ix, ?Iy; ring)).
  - intros H. clear Sx Sy. unfold complex_untyped.
    destruct (complex_arg_ok x) eqn:Ox; [|reflexivity].
    destruct (complex_arg_ok y) eqn:Oy; [|reflexivity].
    exfalso. apply H.
    apply (proj1 (complex_arg_ok_spec x Hx)) in Ox. apply (proj1 (complex_arg_ok_spec y Hy)) in Oy. tauto.
Qed.

Lemma complex_wf x y z : wf x -> wf y -> complex_untyped x y = Some z -> wf z.
Proof.
  intros Hx Hy. unfold complex_untyped.
  destruct (complex_arg_ok x && complex_arg_ok y); [|discriminate].
  wf_cases x; wf_cases y; unfold binop_c; simpl; intros H; try discriminate; inversion H; exact I.
Qed.

Fixpoint lits_wf (e : expr) : Prop :=
  match e with
  | ELit l => wf l
  | EUn _ x => lits_wf x
  | EBin _ x y => lits_wf x /\ lits_wf y
  | ECall1 _ x => lits_wf x
  | ECplx x y => lits_wf x /\ lits_wf y
  end.

Lemma eval_wf e : forall z, lits_wf e -> eval e = Some z -> wf z.
Proof.
  induction e; simpl; intros z H E.
  - inversion E; subst; assumption.
  - destruct (eval e) eqn:E1; [|discriminate]. eapply unary_wf; [|exact E]. eapply IHe; eauto.
  - destruct H as [H1 H2].
    destruct (eval e1) eqn:E1; [|discriminate]. destruct (eval e2) eqn:E2; [|discriminate].
    eapply binary_wf; [| |exact E]; eauto.
  - destruct (eval e) eqn:E1; [|discriminate]. eapply real_imag_wf; [|exact E]. eapply IHe; eauto.
  - destruct H as [H1 H2].
    destruct (eval e1) eqn:E1; [|discriminate]. destruct (eval e2) eqn:E2; [|discriminate].
    eapply complex_wf; [| |exact E]; eauto.
Qed.

(* C04 — property theorems only.  The model (C04/Model.v) is gomacro's untyped-constant code after the
   fix: commits C04-1..C04-7 and C04-9, with go/constant modelled as exact Z/Q arithmetic. *)
From Coq Require Import List NArith ZArith QArith Qabs Bool.
From Verif Require Import Common.GoInt Common.GoStr C04.Model C04.Proof C04.Proof2.
Import ListNotations.
Open Scope Z_scope.

(* + - * on numeric constants of any two kinds and any magnitude: accepted, exact complex-rational arithmetic,
   result kind = the later of the operand kinds in  int < rune < float < complex, representation stays well-formed *)
Theorem C04_arith_exact : forall (a : arith3) (x y : lit), wf x -> wf y -> numeric x -> numeric y ->
  exists z, binary_untyped (binop_of3 a) x y = Some z /\ wf z /\ numeric z /\
            lkind z = kmax (lkind x) (lkind y) /\
            (re_of z == spec_re a (re_of x) (im_of x) (re_of y) (im_of y))%Q /\
            (im_of z == spec_im a (re_of x) (im_of x) (re_of y) (im_of y))%Q.
Proof. exact arith_exact. Qed.
Print Assumptions C04_arith_exact.

(* / and % between integer-kind constants: truncated division (x = q*y + r, |r| < |y|, sign r = sign x); zero divisor rejected *)
Theorem C04_int_division_exact : forall (x y : lit) a b, wf x -> wf y -> both_int x y = true ->
  lval x = CInt a -> lval y = CInt b ->
  (b = 0 -> binary_untyped OQuo x y = None /\ binary_untyped ORem x y = None) /\
  (b <> 0 -> exists q r, binary_untyped OQuo x y = Some (mkLit (kmax (lkind x) (lkind y)) (CInt q)) /\
                         binary_untyped ORem x y = Some (mkLit (kmax (lkind x) (lkind y)) (CInt r)) /\
                         a = q * b + r /\ Z.abs r < Z.abs b /\ (0 <= a -> 0 <= r) /\ (a <= 0 -> r <= 0)).
Proof. exact int_quo_exact. Qed.
Print Assumptions C04_int_division_exact.

(* / with a float or complex operand: exact field division (quotient * divisor = dividend, as complex rationals) *)
Theorem C04_quotient_exact : forall (x y z : lit), wf x -> wf y -> numeric x -> numeric y -> both_int x y = false ->
  binary_untyped OQuo x y = Some z ->
  wf z /\ lkind z = kmax (lkind x) (lkind y) /\
  (re_of z * re_of y - im_of z * im_of y == re_of x)%Q /\
  (im_of z * re_of y + re_of z * im_of y == im_of x)%Q.
Proof. exact quo_exact. Qed.
Print Assumptions C04_quotient_exact.

Theorem C04_division_by_zero_rejected : forall (x y : lit), wf x -> wf y -> numeric x -> numeric y ->
  (re_of y == 0)%Q -> (im_of y == 0)%Q -> binary_untyped OQuo x y = None.
Proof. exact quo_zero_rejected. Qed.
Print Assumptions C04_division_by_zero_rejected.

(* comparisons of real constants of any two kinds = comparison of the exact rationals; the result is an untyped bool *)
Theorem C04_comparison_exact : forall (c : cmp) (x y : lit), wf x -> wf y -> real_kind x -> real_kind y ->
  binary_untyped (cmp_binop c) x y = Some (mkLit KBool (CBool (cmp_of (re_of x ?= re_of y)%Q c))).
Proof. exact cmp_exact. Qed.
Print Assumptions C04_comparison_exact.

Theorem C04_complex_equality_exact : forall (x y : lit), wf x -> wf y -> numeric x -> numeric y ->
  binary_untyped OEql x y = Some (mkLit KBool (CBool (Qeq_bool (re_of x) (re_of y) && Qeq_bool (im_of x) (im_of y)))).
Proof. exact cmp_complex_exact. Qed.
Print Assumptions C04_complex_equality_exact.

(* operands of different classes (number / string / boolean) are rejected for every operator *)
Theorem C04_mismatched_kinds_rejected : forall (op : binop) (x y : lit), class_of x <> class_of y -> binary_untyped op x y = None.
Proof. exact mismatched_rejected. Qed.
Print Assumptions C04_mismatched_kinds_rejected.

(* x << n = x * 2^n, x >> n = floor(x / 2^n) for every integer x and every count 0 <= n <= 1074; other counts rejected *)
Theorem C04_shift_exact : forall (left : bool) (x y : lit) a n, is_intkind (lkind x) = true -> lval x = CInt a ->
  numeric y -> to_int (lval y) = Some n ->
  (0 <= n <= shift_bound ->
     binary_untyped (if left then OShl else OShr) x y =
       Some (mkLit (lkind x) (CInt (if left then a * 2 ^ n else a / 2 ^ n)))) /\
  (~ (0 <= n <= shift_bound) -> binary_untyped (if left then OShl else OShr) x y = None).
Proof. exact shift_exact. Qed.
Print Assumptions C04_shift_exact.

Theorem C04_shift_count_must_be_integer : forall (left : bool) (x y : lit), to_int (lval y) = None ->
  binary_untyped (if left then OShl else OShr) x y = None.
Proof. exact shift_count_not_integer. Qed.
Print Assumptions C04_shift_count_must_be_integer.

(* an integer-valued float or complex left operand is converted exactly; the result is an untyped int *)
Theorem C04_shift_float_operand : forall (left : bool) (x y : lit) a n, wf x -> numeric x -> numeric y ->
  is_intkind (lkind x) = false -> to_int (lval x) = Some a -> to_int (lval y) = Some n -> 0 <= n <= shift_bound ->
  binary_untyped (if left then OShl else OShr) x y = Some (mkLit KInt (CInt (if left then a * 2 ^ n else a / 2 ^ n))).
Proof. exact shift_float_operand. Qed.
Print Assumptions C04_shift_float_operand.

(* constant.ToInt as modelled is sound and complete: defined exactly on the integer values *)
Theorem C04_to_int_iff_integer : forall (l : lit) z, wf l -> numeric l ->
  (to_int (lval l) = Some z <-> (re_of l == Qz z)%Q /\ (im_of l == 0)%Q).
Proof. exact to_int_spec. Qed.
Print Assumptions C04_to_int_iff_integer.

(* builtins (fix C04-7): real(x) / imag(x) of a numeric constant of any kind is accepted and is an untyped FLOAT
   constant -- never an integer, whatever representation go/constant chose for the component -- holding exactly the
   real / imaginary part of x; in particular real(3+2i)/2 is the exact field division of C04_quotient_exact *)
Theorem C04_real_imag_exact : forall (f : builtin1) (x : lit), wf x -> numeric x ->
  exists z, real_imag_untyped f x = Some z /\ wf z /\ lkind z = KFloat /\
            (re_of z == component f x)%Q /\ (im_of z == 0)%Q.
Proof. exact real_imag_exact. Qed.
Print Assumptions C04_real_imag_exact.

Theorem C04_real_imag_rejects_non_numeric : forall (f : builtin1) (x : lit), ~ numeric x -> real_imag_untyped f x = None.
Proof. exact real_imag_non_numeric. Qed.
Print Assumptions C04_real_imag_rejects_non_numeric.

(* complex(x, y) is accepted iff both operands are numeric constants with a zero imaginary part; the result is the
   untyped complex constant  re(x) + re(y) i *)
Theorem C04_complex_exact : forall (x y : lit), wf x -> wf y ->
  (numeric x /\ (im_of x == 0)%Q /\ numeric y /\ (im_of y == 0)%Q ->
     exists z, complex_untyped x y = Some z /\ wf z /\ lkind z = KComplex /\
               (re_of z == re_of x)%Q /\ (im_of z == re_of y)%Q) /\
  (~ (numeric x /\ (im_of x == 0)%Q /\ numeric y /\ (im_of y == 0)%Q) -> complex_untyped x y = None).
Proof. exact complex_exact. Qed.
Print Assumptions C04_complex_exact.

(* exactness composes: every accepted expression tree over well-formed literals yields a well-formed literal *)
Theorem C04_eval_wellformed : forall e z, lits_wf e -> eval e = Some z -> wf z.
Proof. exact eval_wf. Qed.
Print Assumptions C04_eval_wellformed.

(* typed context, integer types: a numeric constant of ANY kind is accepted iff its value is an integer in the
   range of the type; the typed value is that integer; otherwise it is rejected (no third outcome) *)
Theorem C04_int_const_fits_iff : forall (l : lit) (t : tkind) k, wf l -> numeric l -> int_target t = Some k ->
  (forall v, convert l t = TVInt v <-> ((re_of l == Qz v)%Q /\ (im_of l == 0)%Q /\ in_range k v)) /\
  (convert l t = TErr <-> ~ exists v, (re_of l == Qz v)%Q /\ (im_of l == 0)%Q /\ in_range k v) /\
  (convert l t = TErr \/ exists v, convert l t = TVInt v).
Proof. exact int_const_fits. Qed.
Print Assumptions C04_int_const_fits_iff.

(* typed context, float32/float64: a real constant is rejected iff |value| >= MaxFloat + ulp/2, i.e. iff
   rounding to nearest even gives infinity; otherwise it is accepted as a float *)
Theorem C04_const_fits_iff : forall (l : lit) (t : tkind) f, wf l -> real_kind l -> float_target t = Some f -> fmt_ok f ->
  (convert l t = TErr <-> Qle (overflow_threshold f) (Qabs (re_of l))) /\
  (convert l t = TErr \/ exists b, convert l t = TVFloat b).
Proof. exact float_const_fits. Qed.
Print Assumptions C04_const_fits_iff.

(* the rounding function itself: overflow iff the rational is at or above (2^(p+1)-1) * 2^(emax-1) *)
Theorem C04_round_overflow_iff : forall f n d, fmt_ok f -> 0 < n -> 0 < d ->
  (round_pos f n d = FInf <-> (2 ^ (fprec f + 1) - 1) * 2 ^ (femax f - 1) * d <= n).
Proof. exact round_pos_inf_iff. Qed.
Print Assumptions C04_round_overflow_iff.

(* math/big: *big.Rat and *big.Float (dyadic values) always exact; *big.Int exact and accepted iff the value is an integer *)
Theorem C04_big_exact : forall (l : lit), wf l -> real_kind l ->
  (forall q, to_big l BRat = Some q -> (q == re_of l)%Q) /\ (exists q, to_big l BRat = Some q) /\
  (forall q, to_big l BFloat = Some q -> (q == re_of l)%Q) /\
  (forall q, to_big l BInt = Some q -> (q == re_of l)%Q /\ exists z, q = Qz z) /\
  (to_big l BInt = None <-> ~ exists z, (re_of l == Qz z)%Q).
Proof. exact big_exact. Qed.
Print Assumptions C04_big_exact.

(* ---------------- non-vacuity / worked values ---------------- *)
Definition I (z : Z) := ELit (mkLit KInt (CInt z)).
Definition F (n d : Z) := ELit (mkLit KFloat (CRat (mkQ n d))).
Example C04_ex_shift : eval (EBin OShr (EBin OShl (I 1) (I 100)) (I 98)) = Some (mkLit KInt (CInt 4)).
Proof. vm_compute. reflexivity. Qed.
Example C04_ex_rune_kind : eval (EBin OAdd (I 1) (ELit (mkLit KRune (CInt 97)))) = Some (mkLit KRune (CInt 98)).
Proof. vm_compute. reflexivity. Qed.
Example C04_ex_formats_ok : fmt_ok b64 /\ fmt_ok b32.
Proof. split; [exact b64_ok|exact b32_ok]. Qed.
(* DESIGN 7 #8: 9007199254740993.0 fits int64 exactly *)
Example C04_ex_finding8 : typed_context (mkLit KFloat (CRat (mkQ 9007199254740993 1))) TInt64 false = TVInt 9007199254740993.
Proof. vm_compute. reflexivity. Qed.
(* DESIGN 7 #9: 1e39 overflows float32; MaxFloat32 does not; 1<<100 as float64 = 0x4630000000000000 *)
Example C04_ex_finding9 : typed_context (mkLit KFloat (CRat (mkQ (10 ^ 39) 1))) TFloat32 false = TErr
  /\ typed_context (mkLit KFloat (CRat (mkQ ((2 ^ 24 - 1) * 2 ^ 104) 1))) TFloat32 false = TVFloat 2139095039
  /\ typed_context (mkLit KInt (CInt (2 ^ 100))) TFloat64 false = TVFloat 5057542381537067008.
Proof. vm_compute. repeat split; reflexivity. Qed.
Example C04_ex_mismatch : eval (EBin OAdd (ELit (mkLit KString (CStr [97%N]))) (I 1)) = None.
Proof. vm_compute. reflexivity. Qed.
Example C04_ex_string_conv : typed_context (mkLit KInt (CInt 65)) TString true = TVStr [65%N]
  /\ typed_context (mkLit KInt (CInt 65)) TString false = TErr.
Proof. vm_compute. split; reflexivity. Qed.
(* finding C04-7: real(3+2i)/2 = 1.5 (was the integer division 3/2 = 1); imag('a') is the float 0; real("a") rejected *)
Definition Im (n d : Z) := ELit (mkLit KComplex (CCplx 0 (mkQ n d))).
Example C04_ex_real_quo : olit_eqb (eval (EBin OQuo (ECall1 BReal (EBin OAdd (I 3) (Im 2 1))) (I 2))) (Some (mkLit KFloat (CRat (mkQ 3 2)))) = true
  /\ olit_eqb (eval (ECall1 BImag (ELit (mkLit KRune (CInt 97))))) (Some (mkLit KFloat (CRat 0))) = true
  /\ eval (ECall1 BReal (ELit (mkLit KString (CStr [97%N])))) = None
  /\ eval (EBin ORem (ECall1 BReal (EBin OAdd (I 7) (Im 3 1))) (I 2)) = None.
Proof. vm_compute. repeat split; reflexivity. Qed.
Example C04_ex_complex : olit_eqb (eval (EBin OQuo (ECplx (I 1) (I 2)) (I 2))) (Some (mkLit KComplex (CCplx (mkQ 1 2) 1))) = true
  /\ eval (ECplx (I 1) (Im 2 1)) = None
  /\ olit_eqb (eval (ECplx (EBin OAdd (I 1) (Im 0 1)) (F 5 2))) (Some (mkLit KComplex (CCplx 1 (mkQ 5 2)))) = true.
Proof. vm_compute. repeat split; reflexivity. Qed.
(* finding C04-9: a complex constant with a non-zero imaginary part, however small, is rejected by float32/float64 *)
Example C04_ex_tiny_imag : typed_context (mkLit KComplex (CCplx 1 (mkQ 1 (10 ^ 400)))) TFloat64 true = TErr
  /\ typed_context (mkLit KComplex (CCplx 1 0)) TFloat64 true = TVFloat 4607182418800017408.
Proof. vm_compute. split; reflexivity. Qed.

(* GoLite: lemmas shared by the template soundness proofs (C34, C01, C02). *)
From Coq Require Import ZArith List Bool Lia.
From Verif Require Import Common.GoInt Common.GoStr GoLite.Syntax GoLite.Sem.
Import ListNotations.
Open Scope Z_scope.

Section T.
  Variable F : Type.
  Variable fbin : gokind -> binop -> F -> F -> F.
  Variable fcmp : gokind -> binop -> F -> F -> bool.
  Variable fun1 : gokind -> unop -> F -> F.
  Variable fconv : gokind -> gokind -> F -> F.
  Variable fpart : gokind -> bool -> F -> F.
  Variable fofbits : gokind -> Z -> Z -> F.
  Notation value := (value F).
  Notation denote := (denote F fbin fcmp fun1 fconv fpart fofbits).
  Notation binop_val := (binop_val F fbin fcmp).
  Notation go_binop := (go_binop F fbin fcmp).
  Notation go_unop := (go_unop F fun1).

  Lemma has_ty_inv k (v : value) : has_ty F (TK k) v = true ->
    (k = GBool /\ exists b, v = VBool b) \/ (k = GString /\ exists s, v = VStr s) \/
    (exists z, v = VInt k z /\ is_integer k = true) \/
    (exists f, v = VFlt k f /\ (is_float k || is_complex k) = true).
  Proof.
    destruct v; simpl; intros H; try discriminate.
    - left. apply gokind_beq_eq in H. eauto.
    - right. right. left. apply andb_true_iff in H as [H1 H2]. apply gokind_beq_eq in H1. subst. eauto.
    - right. left. apply gokind_beq_eq in H. eauto.
    - right. right. right. apply andb_true_iff in H as [H1 H2]. apply gokind_beq_eq in H1. subst. eauto.
  Qed.

  Definition is_shift (op : binop) := match op with Shl | Shr => true | _ => false end.

  (* the evaluator's dynamically dispatched operator is the Go operator of kind k on operands of kind k *)
  Lemma binop_val_spec k op (a b : value) : is_shift op = false ->
    has_ty F (TK k) a = true -> has_ty F (TK k) b = true -> binop_val op a b = go_binop k op a b.
  Proof.
    intros Hs Ha Hb.
    destruct (has_ty_inv _ _ Ha) as [[-> [x ->]]|[[-> [x ->]]|[[x [-> Hx]]|[x [-> Hx]]]]];
    destruct (has_ty_inv _ _ Hb) as [[E [y ->]]|[[E [y ->]]|[[y [-> Hy]]|[y [-> Hy]]]]]; try discriminate;
      try (subst; discriminate); try (destruct k; discriminate).
    - destruct op; try discriminate; reflexivity.
    - destruct op; try discriminate; reflexivity.
    - unfold Sem.binop_val, Sem.go_binop. rewrite !gokind_beq_refl. destruct op; try discriminate; reflexivity.
    - unfold Sem.binop_val, Sem.go_binop. rewrite !gokind_beq_refl. destruct op; try discriminate; reflexivity.
  Qed.

  Lemma shift_val_spec k op (a c : value) : is_shift op = true ->
    has_ty F (TK k) a = true -> has_ty F (TK GUint8) c = true -> binop_val op a c = go_shift F k op a c.
  Proof.
    intros Hs Ha Hc.
    destruct (has_ty_inv _ _ Hc) as [[E _]|[[E _]|[[n [-> Hn]]|[y [-> Hy]]]]]; try discriminate.
    destruct (has_ty_inv _ _ Ha) as [[-> [x ->]]|[[-> [x ->]]|[[x [-> Hx]]|[x [-> Hx]]]]];
      destruct op; try discriminate; simpl; try reflexivity; rewrite gokind_beq_refl; reflexivity.
  Qed.

  (* results of operators are typed values: the implicit conversion at return leaves them alone *)
  Lemma coerce_typed t (v : value) : (forall z, v <> VUntyped z) -> coerce F t v = Ok v.
  Proof. destruct v; intros H; try reflexivity. exfalso. eapply H. reflexivity. Qed.

  Lemma arith_typed k op x y (v : value) : arith F k op x y = Ok v -> forall z, v <> VUntyped z.
  Proof.
    unfold arith. destruct (ik_of k); [|discriminate].
    destruct op; try discriminate; try (intros [= <-]; discriminate);
      match goal with |- context[match ?q with _ => _ end] => destruct q end; try discriminate; intros [= <-]; discriminate.
  Qed.
  Lemma shift_typed k op x sg n (v : value) : shift F k op x sg n = Ok v -> forall z, v <> VUntyped z.
  Proof.
    unfold shift. destruct (ik_of k); [|discriminate]. destruct (sg && (n <? 0)); [discriminate|].
    destruct op; try discriminate; intros [= <-]; discriminate.
  Qed.
  Lemma go_binop_typed k op a b (v : value) : go_binop k op a b = Ok v -> forall z, v <> VUntyped z.
  Proof.
    unfold Sem.go_binop. destruct a; try discriminate; destruct b; try discriminate.
    - destruct k; try discriminate. destruct op; try discriminate; intros [= <-]; discriminate.
    - destruct (gokind_beq k0 k && gokind_beq k1 k); [|discriminate]. apply arith_typed.
    - destruct k; try discriminate. destruct op; try discriminate; intros [= <-]; discriminate.
    - destruct (gokind_beq k0 k && gokind_beq k1 k); [|discriminate].
      unfold flt_binop. destruct (is_farith op); [intros [= <-]; discriminate|].
      destruct (is_complex k); [destruct op; try discriminate; intros [= <-]; discriminate|].
      destruct (is_cmp op); [intros [= <-]; discriminate|discriminate].
  Qed.
  Lemma go_shift_typed k op a c (v : value) : go_shift F k op a c = Ok v -> forall z, v <> VUntyped z.
  Proof.
    unfold go_shift. destruct a; try discriminate; destruct c; try discriminate.
    destruct (gokind_beq k0 k && is_integer k1); [|discriminate]. apply shift_typed.
  Qed.

  Opaque has_ty.
  Arguments Sem.binop_val : simpl never.
  Arguments Sem.go_binop : simpl never.

  Definition pack (s : state F) (r : res value) : res (list value * state F) :=
    match r with Ok v => Ok ([v], s) | Panic p => Panic p | Stuck => Stuck | OutOfFuel => OutOfFuel end.

  Lemma bind_params1 x1 t1 (args : list value) le :
    bind_params F [(x1, t1)] args = Some le ->
    exists a, args = [a] /\ le = [(x1, a)] /\ has_ty F t1 a = true.
  Proof.
    destruct args as [|a [|b r]]; simpl; try discriminate;
      repeat (match goal with |- context[if ?x then _ else _] => destruct x eqn:? end; try discriminate).
    intros [= <-]. exists a. auto.
  Qed.
  Lemma bind_params2 x1 t1 x2 t2 (args : list value) le :
    bind_params F [(x1, t1); (x2, t2)] args = Some le ->
    exists a b, args = [a; b] /\ le = [(x1, a); (x2, b)] /\ has_ty F t1 a = true /\ has_ty F t2 b = true.
  Proof.
    destruct args as [|a [|b [|c r]]]; simpl; try discriminate;
      repeat (match goal with |- context[if ?x then _ else _] => destruct x eqn:? end; try discriminate).
    intros [= <-]. exists a, b. auto.
  Qed.
  Lemma bind_params3 x1 t1 x2 t2 x3 t3 (args : list value) le :
    bind_params F [(x1, t1); (x2, t2); (x3, t3)] args = Some le ->
    exists a b c, args = [a; b; c] /\ le = [(x1, a); (x2, b); (x3, c)] /\
                  has_ty F t1 a = true /\ has_ty F t2 b = true /\ has_ty F t3 c = true.
  Proof.
    destruct args as [|a [|b [|c [|d r]]]]; simpl; try discriminate;
      repeat (match goal with |- context[if ?x then _ else _] => destruct x eqn:? end; try discriminate).
    intros [= <-]. exists a, b, c. auto.
  Qed.

End T.

Arguments has_ty_inv {F}.
Arguments binop_val_spec {F fbin fcmp}.
Arguments shift_val_spec {F fbin fcmp}.
Arguments coerce_typed {F}.
Arguments arith_typed {F}.
Arguments shift_typed {F}.
Arguments go_binop_typed {F fbin fcmp}.
Arguments go_shift_typed {F}.
Arguments bind_params1 {F}.
Arguments bind_params2 {F}.
Arguments bind_params3 {F}.

(* GoLite: deep embedding of the fragment of Go in which gomacro's generated closures are written
   (fast/binary_*.go, unary_ops.go, identifier.go, var_*.go, place_*.go, xreflect/cti_basic_method.go).
   The translator translators/tr_golite maps go/ast nodes to these constructors one to one; everything it does
   not know becomes EOpaque / SOpaque, which no template contains, so such a row can never pass the checker.
   All names are enumerated constructors (cheap to type-check in 4000-row tables). *)
From Coq Require Import ZArith List Bool.
Import ListNotations.

(* the 17 basic kinds of Go (reflect.Kind) *)
Inductive gokind :=
  | GBool | GInt | GInt8 | GInt16 | GInt32 | GInt64
  | GUint | GUint8 | GUint16 | GUint32 | GUint64 | GUintptr
  | GFloat32 | GFloat64 | GComplex64 | GComplex128 | GString.

(* identifiers that occur in the generated closures and in the code around them *)
Inductive ident :=
  | V_a | V_b | V_c | V_z | V_x | V_y | V_env | V_n | V_y_1 | V_shift | V_xv | V_yv | V_xe | V_ye
  | V_idx | V_index | V_upn | V_val | V_fun | V_lhs | V_o | V_i | V_sym | V_bind | V_va | V_x1 | V_v
  | V_result | V_addr | V_place | V_obj | V_key | V_mapv | V_t | V_k | V_xk | V_kind | V_depth | V_ypositive
  | V_intbinds | V_xc | V_yc | V_ok | V_sy | V_rt | V_zero | V_ret | V_stmt | V_g | V_node | V_op | V_init
  | V_fn | V_f | V_e | V_l | V_r | V_tmp | V_p | V_nil | V_true | V_false | V_xt | V_mvec | V_keyfun | V_objfun
  | V_other (n : N).

(* struct fields *)
Inductive field :=
  | F_Fun | F_Value | F_Type | F_Outer | F_FileEnv | F_Ints | F_Vals | F_IP | F_Code | F_Upn | F_Desc | F_Depth
  | F_Bind | F_Name | F_kind | F_Var | F_Fun_ | F_MapKey | F_Addr | F_Op | F_other (n : N).

(* methods *)
Inductive meth :=
  | M_Int | M_Uint | M_Float | M_Complex | M_String | M_Bool
  | M_SetInt | M_SetUint | M_SetFloat | M_SetComplex | M_SetString | M_SetBool | M_Set
  | M_Up | M_Index | M_Class | M_Kind | M_Const | M_AsUint64 | M_Elem | M_Method | M_NumMethod | M_GetMethods
  | M_MapIndex | M_SetMapIndex | M_IsValid | M_Interface | M_Convert | M_AsX1 | M_Addr | M_Len
  | M_other (n : N).

(* package-level functions / builtins / qualified names *)
Inductive gname :=
  | G_ValueOf | G_integerLen | G_real | G_imag | G_len | G_complex | G_constAsUint64 | G_panic
  | G_negativeShiftAmount | G_IntBind | G_VarBind | G_unsafe_Pointer | G_isLiteralNumber | G_Category
  | G_r_ValueOf | G_Zero | G_New | G_other (n : N).

(* string literals that matter: the CTI method names *)
Inductive sname :=
  | S_Equal | S_Cmp | S_Less | S_Add | S_Sub | S_Mul | S_Quo | S_Rem | S_Neg | S_And | S_AndNot | S_Or | S_Xor
  | S_Not | S_Lsh | S_Rsh | S_Real | S_Imag | S_Index | S_Len | S_Slice | S_Cap | S_Append | S_Copy | S_empty
  | S_other (n : N).

(* enclosing functions (they name the operator whose closures the function builds) *)
Inductive fname :=
  | FN_Add | FN_Sub | FN_Mul | FN_Quo | FN_Rem | FN_And | FN_Or | FN_Xor | FN_Andnot
  | FN_mulPow2 | FN_quoPow2 | FN_remPow2 | FN_exprZero
  | FN_Shl | FN_Shr | FN_Lss | FN_Gtr | FN_Leq | FN_Geq | FN_Eql | FN_Neq | FN_eqlneqMisc | FN_eqlneqNilR
  | FN_UnaryPlus | FN_UnaryMinus | FN_UnaryXor | FN_UnaryNot | FN_StarExpr | FN_Deref | FN_derefUnwrap
  | FN_Bind_expr | FN_Symbol_expr | FN_Bind_intExpr | FN_Symbol_intExpr | FN_AsUint64
  | FN_addBasicTypeMethodsCTI
  | FN_other (n : N).

Inductive binop :=
  | Add | Sub | Mul | Quo | Rem | And | Or | Xor | AndNot | Shl | Shr
  | Eql | Neq | Lss | Leq | Gtr | Geq | LAnd | LOr.
Inductive unop := Neg | Compl | LNot | Plus.

(* types that occur in signatures, conversions and type assertions *)
Inductive ty :=
  | TK (k : gokind)            (* basic type *)
  | TFun (k : gokind)          (* func(env) K *)
  | TFunPtr (k : gokind)       (* func(env) *K *)
  | TFunV                      (* func(env) xr.Value *)
  | TFunVV                     (* func(env) (xr.Value, []xr.Value) *)
  | TPtr (k : gokind)          (* *K *)
  | TEnv                       (* *Env *)
  | TValue                     (* xr.Value / r.Value *)
  | TStmt                      (* Stmt *)
  | TUnsafePtr
  | TIface                     (* interface{} / I *)
  | TOther (n : N).

Inductive expr :=
  | EVar (x : ident)
  | ELit (z : Z)                          (* integer literal *)
  | EStr (s : sname)                      (* string literal *)
  | EKindLit (k : gokind)                 (* xr.Int8, r.Int8, reflect.Int8 *)
  | ETypeLit (t : ty)                     (* a type used as a value: case label of a type switch *)
  | EGlob (g : gname)                     (* package-level name *)
  | EBin (op : binop) (a b : expr)
  | EUn (op : unop) (a : expr)
  | EConv (t : ty) (a : expr)             (* T(a) *)
  | EAssert (t : ty) (a : expr)           (* a.(T) *)
  | ETypeOf (a : expr)                    (* a.(type) in a type switch *)
  | ECall0 (f : expr)
  | ECall1 (f a : expr)
  | ECall2 (f a b : expr)
  | ECall3 (f a b c : expr)
  | ESel (a : expr) (f : field)
  | EMeth (a : expr) (m : meth)           (* method value a.m ; applied with ECall* *)
  | EIndex (a i : expr)
  | ESlice (a lo hi : expr)
  | EDeref (a : expr)
  | EAddr (a : expr)
  | EProj (i : N) (a : expr)              (* i-th result of a multi-valued call *)
  | EOpaque (n : N).

Inductive stmt :=
  | SSkip
  | SSeq (a b : stmt)
  | SReturn0
  | SReturn (e : expr)
  | SReturn2 (e1 e2 : expr)
  | SDefine (x : ident) (e : expr)                    (* x := e *)
  | SAssign (lhs : expr) (rhs : expr)                 (* lhs = rhs *)
  | SOpAssign (op : binop) (lhs : expr) (rhs : expr)  (* lhs op= rhs *)
  | SIncDec (inc : bool) (lhs : expr)
  | SIf (c : expr) (t f : stmt)
  | SBlock (s : stmt)
  | SExpr (e : expr)
  | SFor (init : stmt) (cond : expr) (post : stmt) (body : stmt)
  | SOpaque (n : N).

(* path conditions under which the closure is selected *)
Inductive pcond :=
  | PIf (c : expr) (taken : bool)                   (* inside the then (true) / else (false) branch of if c *)
  | PCase (tag : expr) (vals : list expr)           (* inside  switch tag { case vals: } *)
  | PDefault (tag : expr) (others : list expr)      (* inside the default clause; others = all case values *)
  | PLoop.                                          (* inside a for / range body *)

Record entry := mkEntry {
  e_line : Z;
  e_func : fname;
  e_path : list pcond;
  e_lets : list (ident * expr);     (* the := definitions the closure's captured variables depend on, source order *)
  e_params : list (ident * ty);
  e_results : list ty;
  e_body : stmt
}.

Scheme Equality for positive.
Scheme Equality for N.
Scheme Equality for Z.
Scheme Equality for gokind.
Scheme Equality for ident.
Scheme Equality for field.
Scheme Equality for meth.
Scheme Equality for gname.
Scheme Equality for sname.
Scheme Equality for fname.
Scheme Equality for binop.
Scheme Equality for unop.
Scheme Equality for ty.
Scheme Equality for expr.
Scheme Equality for stmt.

Definition expr_beq_eq : forall a b, expr_beq a b = true -> a = b := internal_expr_dec_bl.
Definition stmt_beq_eq : forall a b, stmt_beq a b = true -> a = b := internal_stmt_dec_bl.
Definition ty_beq_eq : forall a b, ty_beq a b = true -> a = b := internal_ty_dec_bl.
Definition ident_beq_eq : forall a b, ident_beq a b = true -> a = b := internal_ident_dec_bl.
Definition gokind_beq_eq : forall a b, gokind_beq a b = true -> a = b := internal_gokind_dec_bl.
Definition fname_beq_eq : forall a b, fname_beq a b = true -> a = b := internal_fname_dec_bl.

Lemma gokind_beq_refl k : gokind_beq k k = true. Proof. destruct k; reflexivity. Qed.
Lemma expr_beq_refl e : expr_beq e e = true. Proof. apply internal_expr_dec_lb. reflexivity. Qed.
Lemma ty_beq_refl t : ty_beq t t = true. Proof. apply internal_ty_dec_lb. reflexivity. Qed.

(* equality of the parts of an entry that a template fixes *)
Fixpoint lets_beq (a b : list (ident * expr)) : bool :=
  match a, b with
  | [], [] => true
  | (x, e) :: a', (y, f) :: b' => ident_beq x y && expr_beq e f && lets_beq a' b'
  | _, _ => false
  end.
Fixpoint params_beq (a b : list (ident * ty)) : bool :=
  match a, b with
  | [], [] => true
  | (x, e) :: a', (y, f) :: b' => ident_beq x y && ty_beq e f && params_beq a' b'
  | _, _ => false
  end.
Fixpoint tys_beq (a b : list ty) : bool :=
  match a, b with
  | [], [] => true
  | x :: a', y :: b' => ty_beq x y && tys_beq a' b'
  | _, _ => false
  end.

Lemma lets_beq_eq a b : lets_beq a b = true -> a = b.
Proof.
  revert b; induction a as [|[x e] a IH]; intros [|[y f] b] H; simpl in H; try discriminate; [reflexivity|].
  apply andb_true_iff in H as [H H3]. apply andb_true_iff in H as [H1 H2].
  apply ident_beq_eq in H1. apply expr_beq_eq in H2. subst. f_equal. apply IH, H3.
Qed.
Lemma params_beq_eq a b : params_beq a b = true -> a = b.
Proof.
  revert b; induction a as [|[x e] a IH]; intros [|[y f] b] H; simpl in H; try discriminate; [reflexivity|].
  apply andb_true_iff in H as [H H3]. apply andb_true_iff in H as [H1 H2].
  apply ident_beq_eq in H1. apply ty_beq_eq in H2. subst. f_equal. apply IH, H3.
Qed.
Lemma tys_beq_eq a b : tys_beq a b = true -> a = b.
Proof.
  revert b; induction a as [|x a IH]; intros [|y b] H; simpl in H; try discriminate; [reflexivity|].
  apply andb_true_iff in H as [H1 H2]. apply ty_beq_eq in H1. subst. f_equal. apply IH, H2.
Qed.

(* the closure proper: what a template determines *)
Record closure := mkClosure {
  c_lets : list (ident * expr);
  c_params : list (ident * ty);
  c_results : list ty;
  c_body : stmt
}.
Definition closure_of (e : entry) : closure := mkClosure (e_lets e) (e_params e) (e_results e) (e_body e).
Definition closure_beq (a b : closure) : bool :=
  lets_beq (c_lets a) (c_lets b) && params_beq (c_params a) (c_params b)
  && tys_beq (c_results a) (c_results b) && stmt_beq (c_body a) (c_body b).
Lemma closure_beq_eq a b : closure_beq a b = true -> a = b.
Proof.
  destruct a, b; unfold closure_beq; simpl. intros H.
  apply andb_true_iff in H as [H H4]. apply andb_true_iff in H as [H H3]. apply andb_true_iff in H as [H1 H2].
  apply lets_beq_eq in H1. apply params_beq_eq in H2. apply tys_beq_eq in H3. apply stmt_beq_eq in H4. subst. reflexivity.
Qed.

(* kind classification *)
Definition is_signed (k : gokind) : bool :=
  match k with GInt | GInt8 | GInt16 | GInt32 | GInt64 => true | _ => false end.
Definition is_unsigned (k : gokind) : bool :=
  match k with GUint | GUint8 | GUint16 | GUint32 | GUint64 | GUintptr => true | _ => false end.
Definition is_integer (k : gokind) : bool := is_signed k || is_unsigned k.
Definition is_float (k : gokind) : bool := match k with GFloat32 | GFloat64 => true | _ => false end.
Definition is_complex (k : gokind) : bool := match k with GComplex64 | GComplex128 => true | _ => false end.
Definition all_kinds : list gokind :=
  [GBool; GInt; GInt8; GInt16; GInt32; GInt64; GUint; GUint8; GUint16; GUint32; GUint64; GUintptr;
   GFloat32; GFloat64; GComplex64; GComplex128; GString].

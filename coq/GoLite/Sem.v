(* GoLite: total denotational semantics.
   Values are dynamically tagged with their Go kind, so the evaluator needs no static typing pass: an
   ill-typed combination (int8 + int16, .Int() on an unsigned value, a call of a non-function ...) is [Stuck].
   Integers follow Common.GoInt.  Floats and complex numbers are values of an abstract carrier F with abstract
   operators (Section variables): a theorem about a float closure says "it applies the Go operator of that name"
   under every interpretation of these operators.
   State: a heap of interpreter frames (pointer to Env): Ints (uint64 slots), Vals (reflect.Value slots), Outer, FileEnv, IP. *)
From Coq Require Import ZArith List Bool Lia.
From Verif Require Import Common.GoInt Common.GoStr GoLite.Syntax.
Import ListNotations.
Open Scope Z_scope.

Definition ik_of (k : gokind) : option ikind :=
  match k with
  | GInt | GInt64 => Some I64 | GInt8 => Some I8 | GInt16 => Some I16 | GInt32 => Some I32
  | GUint | GUint64 | GUintptr => Some U64 | GUint8 => Some U8 | GUint16 => Some U16 | GUint32 => Some U32
  | _ => None
  end.
(* integer kinds always have an ikind; this total version avoids option in statements *)
Definition ikd (k : gokind) : ikind := match ik_of k with Some i => i | None => I64 end.

Inductive panic := PDiv0 | PNegShift | PIndex | PNil | POther.
Inductive res (A : Type) :=
  | Ok (a : A)
  | Panic (p : panic)
  | Stuck          (* ill-typed, or outside the modelled fragment *)
  | OutOfFuel.
Arguments Ok {A} a. Arguments Panic {A} p. Arguments Stuck {A}. Arguments OutOfFuel {A}.

Definition rbind {A B} (r : res A) (f : A -> res B) : res B :=
  match r with Ok a => f a | Panic p => Panic p | Stuck => Stuck | OutOfFuel => OutOfFuel end.

Section Sem.
  Variable F : Type.                                   (* float32/float64/complex64/complex128 values *)
  Variable fbin : gokind -> binop -> F -> F -> F.       (* + - * / at the given kind *)
  Variable fcmp : gokind -> binop -> F -> F -> bool.    (* == != < <= > >= *)
  Variable fun1 : gokind -> unop -> F -> F.             (* unary - + *)
  Variable fconv : gokind -> gokind -> F -> F.          (* conversion from kind to kind *)
  Variable fpart : gokind -> bool -> F -> F.            (* real (false) / imag (true) of a complex kind *)
  Variable fofbits : gokind -> Z -> Z -> F.             (* reinterpretation of one or two uint64 slots *)

  Inductive value :=
    | VBool (b : bool)
    | VInt (k : gokind) (z : Z)
    | VUntyped (z : Z)                 (* untyped integer constant *)
    | VStr (s : str)
    | VFlt (k : gokind) (f : F)
    | VEnv (p : nat)                   (* *Env : index into the heap of frames *)
    | VNilEnv
    | VPtr (k : gokind) (p : nat) (i : Z)   (* (ptr K)(unsafe.Pointer(&frame_p.Ints[i])) *)
    | VRef (p : nat) (i : Z)           (* the reflect.Value stored in frame_p.Vals[i] (settable handle) *)
    | VInts (p : nat)                  (* the slice frame_p.Ints *)
    | VVals (p : nat)
    | VUnit.

  Record frame := mkFrame {
    fr_ints : list Z;                  (* uint64 slots *)
    fr_vals : list value;              (* contents of the reflect.Value slots *)
    fr_outer : option nat;
    fr_file : option nat;
    fr_ip : Z
  }.
  Definition state := list frame.

  Definition M (A : Type) := state -> res (A * state).
  Definition ret {A} (a : A) : M A := fun s => Ok (a, s).
  Definition bind {A B} (m : M A) (f : A -> M B) : M B :=
    fun s => match m s with Ok (a, s') => f a s' | Panic p => Panic p | Stuck => Stuck | OutOfFuel => OutOfFuel end.
  Definition lift {A} (r : res A) : M A :=
    fun s => match r with Ok a => Ok (a, s) | Panic p => Panic p | Stuck => Stuck | OutOfFuel => OutOfFuel end.
  Definition stuck {A} : M A := fun _ => Stuck.

  (* operand functions func(env) K : called with the env pointer, may read / change the state, may panic *)
  Definition opfun := nat -> M value.
  Inductive cval :=
    | CV (v : value)
    | CF (k : gokind) (f : opfun).
  Definition cenv := list (expr * cval).
  Definition lenv := list (ident * value).

  Fixpoint clookup (ce : cenv) (e : expr) : option cval :=
    match ce with
    | [] => None
    | (k, c) :: ce' => if expr_beq k e then Some c else clookup ce' e
    end.
  Fixpoint llookup (le : lenv) (x : ident) : option value :=
    match le with
    | [] => None
    | (y, v) :: le' => if ident_beq y x then Some v else llookup le' x
    end.
  Fixpoint lupdate (le : lenv) (x : ident) (v : value) : option lenv :=
    match le with
    | [] => None
    | (y, w) :: le' => if ident_beq y x then Some ((y, v) :: le')
                       else match lupdate le' x v with Some l => Some ((y, w) :: l) | None => None end
    end.

  (* ------------------------------------------------------------------ Go operators on values *)
  Definition representable (k : gokind) (z : Z) : bool :=
    match ik_of k with Some ik => in_rangeb ik z | None => false end.

  (* arithmetic / comparison on two integers of kind k *)
  Definition arith (k : gokind) (op : binop) (a b : Z) : res value :=
    match ik_of k with
    | None => Stuck
    | Some ik =>
      match op with
      | Add => Ok (VInt k (GoInt.add ik a b))
      | Sub => Ok (VInt k (GoInt.sub ik a b))
      | Mul => Ok (VInt k (GoInt.mul ik a b))
      | Quo => match GoInt.quo ik a b with Some z => Ok (VInt k z) | None => Panic PDiv0 end
      | Rem => match GoInt.rem ik a b with Some z => Ok (VInt k z) | None => Panic PDiv0 end
      | And => Ok (VInt k (GoInt.and_ ik a b))
      | Or => Ok (VInt k (GoInt.or_ ik a b))
      | Xor => Ok (VInt k (GoInt.xor ik a b))
      | AndNot => Ok (VInt k (GoInt.andnot ik a b))
      | Eql => Ok (VBool (a =? b))
      | Neq => Ok (VBool (negb (a =? b)))
      | Lss => Ok (VBool (a <? b))
      | Leq => Ok (VBool (a <=? b))
      | Gtr => Ok (VBool (b <? a))
      | Geq => Ok (VBool (b <=? a))
      | _ => Stuck
      end
    end.

  (* x << n, x >> n : n is the value of the count, signedc tells whether the count has a signed type *)
  Definition shift (k : gokind) (op : binop) (a : Z) (signedc : bool) (n : Z) : res value :=
    match ik_of k with
    | None => Stuck
    | Some ik =>
      if signedc && (n <? 0) then Panic PNegShift
      else match op with
           | Shl => Ok (VInt k (GoInt.shl ik a n))
           | Shr => Ok (VInt k (GoInt.shr ik a n))
           | _ => Stuck
           end
    end.

  Definition is_cmp (op : binop) : bool :=
    match op with Eql | Neq | Lss | Leq | Gtr | Geq => true | _ => false end.
  Definition is_farith (op : binop) : bool :=
    match op with Add | Sub | Mul | Quo => true | _ => false end.

  Definition str_binop (op : binop) (a b : str) : res value :=
    match op with
    | Add => Ok (VStr (a ++ b))
    | Eql => Ok (VBool (str_eqb a b))
    | Neq => Ok (VBool (negb (str_eqb a b)))
    | Lss => Ok (VBool (str_ltb a b))
    | Leq => Ok (VBool (negb (str_ltb b a)))
    | Gtr => Ok (VBool (str_ltb b a))
    | Geq => Ok (VBool (negb (str_ltb a b)))
    | _ => Stuck
    end.
  Definition bool_binop (op : binop) (a b : bool) : res value :=
    match op with
    | Eql => Ok (VBool (Bool.eqb a b))
    | Neq => Ok (VBool (negb (Bool.eqb a b)))
    | LAnd => Ok (VBool (a && b))
    | LOr => Ok (VBool (a || b))
    | _ => Stuck
    end.
  Definition flt_binop (k : gokind) (op : binop) (a b : F) : res value :=
    if is_farith op then Ok (VFlt k (fbin k op a b))
    else if is_complex k then
      match op with Eql | Neq => Ok (VBool (fcmp k op a b)) | _ => Stuck end
    else if is_cmp op then Ok (VBool (fcmp k op a b))
    else Stuck.

  (* THE specification of a Go binary operator on two operands of the same basic kind k *)
  Definition go_binop (k : gokind) (op : binop) (a b : value) : res value :=
    match a, b with
    | VInt ka x, VInt kb y => if gokind_beq ka k && gokind_beq kb k then arith k op x y else Stuck
    | VFlt ka x, VFlt kb y => if gokind_beq ka k && gokind_beq kb k then flt_binop k op x y else Stuck
    | VStr x, VStr y => match k with GString => str_binop op x y | _ => Stuck end
    | VBool x, VBool y => match k with GBool => bool_binop op x y | _ => Stuck end
    | _, _ => Stuck
    end.
  (* shift: left operand of integer kind k, count of any integer kind *)
  Definition go_shift (k : gokind) (op : binop) (a c : value) : res value :=
    match a, c with
    | VInt ka x, VInt kc n => if gokind_beq ka k && is_integer kc then shift k op x (is_signed kc) n else Stuck
    | _, _ => Stuck
    end.

  (* dynamic dispatch used by the evaluator *)
  Definition binop_val (op : binop) (a b : value) : res value :=
    match op with
    | Shl | Shr =>
      match a, b with
      | VInt k x, VInt kc n => if is_integer kc then shift k op x (is_signed kc) n else Stuck
      | VInt k x, VUntyped n => if n <? 0 then Stuck else shift k op x false n
      | _, _ => Stuck
      end
    | _ =>
      match a, b with
      | VInt k x, VInt k' y => if gokind_beq k k' then arith k op x y else Stuck
      | VInt k x, VUntyped y => if representable k y then arith k op x y else Stuck
      | VUntyped x, VInt k y => if representable k x then arith k op x y else Stuck
      | VFlt k x, VFlt k' y => if gokind_beq k k' then flt_binop k op x y else Stuck
      | VStr x, VStr y => str_binop op x y
      | VBool x, VBool y => bool_binop op x y
      | _, _ => Stuck
      end
    end.

  Definition go_unop (op : unop) (a : value) : res value :=
    match op, a with
    | Neg, VInt k x => match ik_of k with Some ik => Ok (VInt k (GoInt.neg ik x)) | None => Stuck end
    | Neg, VUntyped x => Ok (VUntyped (- x))
    | Neg, VFlt k x => Ok (VFlt k (fun1 k Neg x))
    | Plus, VInt k x => Ok (VInt k x)
    | Plus, VUntyped x => Ok (VUntyped x)
    | Plus, VFlt k x => Ok (VFlt k x)
    | Compl, VInt k x => match ik_of k with Some ik => Ok (VInt k (GoInt.compl ik x)) | None => Stuck end
    | LNot, VBool b => Ok (VBool (negb b))
    | _, _ => Stuck
    end.

  (* T(v) for a basic T *)
  Definition convert (k : gokind) (v : value) : res value :=
    match v with
    | VInt k' z => match ik_of k with Some ik => Ok (VInt k (GoInt.wrap ik z)) | None => Stuck end
    | VUntyped z => if representable k z then Ok (VInt k z) else Stuck
    | VFlt k' f =>
        if (is_float k && is_float k') || (is_complex k && is_complex k') then Ok (VFlt k (fconv k' k f)) else Stuck
    | VStr s => match k with GString => Ok v | _ => Stuck end
    | VBool b => match k with GBool => Ok v | _ => Stuck end
    | _ => Stuck
    end.

  (* reflect.Value accessors on a value of a basic kind (reflect panics on the wrong category: Stuck) *)
  Definition accessor (m : meth) (v : value) : res value :=
    match m, v with
    | M_Int, VInt k z => if is_signed k then Ok (VInt GInt64 z) else Stuck
    | M_Uint, VInt k z => if is_unsigned k then Ok (VInt GUint64 z) else Stuck
    | M_Float, VFlt k f => if is_float k then Ok (VFlt GFloat64 (fconv k GFloat64 f)) else Stuck
    | M_Complex, VFlt k f => if is_complex k then Ok (VFlt GComplex128 (fconv k GComplex128 f)) else Stuck
    | M_String, VStr s => Ok v
    | M_Bool, VBool b => Ok v
    | _, _ => Stuck
    end.

  Definition bitlen (n : Z) : Z := if n <=? 0 then 0 else Z.log2 n + 1.

  Definition str_index (s : str) (i : Z) : res value :=
    if (0 <=? i) && (i <? Z.of_nat (length s))
    then Ok (VInt GUint8 (Z.of_N (nth (Z.to_nat i) s 0%N))) else Panic PIndex.
  Definition str_slice (s : str) (lo hi : Z) : res value :=
    if (0 <=? lo) && (lo <=? hi) && (hi <=? Z.of_nat (length s))
    then Ok (VStr (firstn (Z.to_nat (hi - lo)) (skipn (Z.to_nat lo) s))) else Panic PIndex.
  Definition int_of (v : value) : option Z :=
    match v with VInt k z => if is_integer k then Some z else None | VUntyped z => Some z | _ => None end.

  Definition part_kind (k : gokind) : gokind := match k with GComplex64 => GFloat32 | _ => GFloat64 end.

  (* one-argument builtins / package functions *)
  Definition gcall1 (g : gname) (v : value) : res value :=
    match g, v with
    | G_ValueOf, _ => Ok v                  (* xr.ValueOf(c): the reflect wrapper of c; accessors act on c *)
    | G_r_ValueOf, _ => Ok v
    | G_integerLen, VInt GUint64 n => Ok (VInt GUint8 (bitlen n))
    | G_real, VFlt k f => if is_complex k then Ok (VFlt (part_kind k) (fpart k false f)) else Stuck
    | G_imag, VFlt k f => if is_complex k then Ok (VFlt (part_kind k) (fpart k true f)) else Stuck
    | G_len, VStr s => Ok (VInt GInt (Z.of_nat (length s)))
    | _, _ => Stuck
    end.

  (* ------------------------------------------------------------------ heap access *)
  Definition get_frame (s : state) (p : nat) : option frame := nth_error s p.
  Fixpoint set_nth {A} (l : list A) (n : nat) (a : A) : list A :=
    match l, n with
    | [], _ => []
    | _ :: t, O => a :: t
    | h :: t, S n' => h :: set_nth t n' a
    end.
  Definition zth {A} (l : list A) (i : Z) : option A := if i <? 0 then None else nth_error l (Z.to_nat i).

  (* reinterpret the low bytes of a uint64 slot at kind k (little endian), floats through fofbits *)
  Definition load_slot (k : gokind) (ints : list Z) (i : Z) : res value :=
    match zth ints i with
    | None => Panic PIndex
    | Some w =>
      match k with
      | GBool => Ok (VBool (negb (GoInt.wrap U8 w =? 0)))
      | GFloat32 | GFloat64 | GComplex64 => Ok (VFlt k (fofbits k w 0))
      | GComplex128 => match zth ints (i + 1) with Some w2 => Ok (VFlt k (fofbits k w w2)) | None => Panic PIndex end
      | GString => Stuck
      | _ => Ok (VInt k (GoInt.wrap (ikd k) w))
      end
    end.

  Definition field_of_env (f : field) (s : state) (p : nat) : res value :=
    match get_frame s p with
    | None => Stuck
    | Some fr =>
      match f with
      | F_Outer => match fr_outer fr with Some q => Ok (VEnv q) | None => Ok VNilEnv end
      | F_FileEnv => match fr_file fr with Some q => Ok (VEnv q) | None => Ok VNilEnv end
      | F_Ints => Ok (VInts p)
      | F_Vals => Ok (VVals p)
      | F_IP => Ok (VInt GInt (fr_ip fr))
      | _ => Stuck
      end
    end.

  (* env.Up(n) of fast/compile.go: n hops through Outer *)
  Fixpoint env_up (s : state) (p : nat) (n : nat) : res value :=
    match n with
    | O => Ok (VEnv p)
    | S n' => match get_frame s p with
              | None => Stuck
              | Some fr => match fr_outer fr with Some q => env_up s q n' | None => Panic PNil end
              end
    end.

  (* ------------------------------------------------------------------ expressions *)
  Fixpoint eval (ce : cenv) (le : lenv) (e : expr) {struct e} : M value :=
    match e with
    | EVar x =>
        match llookup le x with
        | Some v => ret v
        | None => match clookup ce (EVar x) with Some (CV v) => ret v | _ => stuck end
        end
    | ELit z => ret (VUntyped z)
    | EBin op a b => bind (eval ce le a) (fun va => bind (eval ce le b) (fun vb => lift (binop_val op va vb)))
    | EUn op a => bind (eval ce le a) (fun va => lift (go_unop op va))
    | EConv (TK k) a => bind (eval ce le a) (fun va => lift (convert k va))
    | EConv (TPtr k) (EConv TUnsafePtr (EAddr (EIndex a i))) =>
        bind (eval ce le a) (fun va => bind (eval ce le i) (fun vi =>
          match va, int_of vi with VInts p, Some z => ret (VPtr k p z) | _, _ => stuck end))
    | EDeref a =>
        bind (eval ce le a) (fun va => fun s =>
          match va with
          | VPtr k p i => match get_frame s p with
                          | Some fr => match load_slot k (fr_ints fr) i with Ok v => Ok (v, s) | Panic q => Panic q | _ => Stuck end
                          | None => Stuck end
          | _ => Stuck
          end)
    | ECall1 (EVar x) a =>
        match llookup le x with
        | Some _ => stuck
        | None => match clookup ce (EVar x) with
                  | Some (CF _ f) => bind (eval ce le a) (fun va => match va with VEnv p => f p | _ => stuck end)
                  | _ => stuck
                  end
        end
    | ECall1 (EGlob g) a => bind (eval ce le a) (fun va => lift (gcall1 g va))
    | ECall1 (EMeth a M_Up) n =>
        bind (eval ce le a) (fun va => bind (eval ce le n) (fun vn => fun s =>
          match va, int_of vn with
          | VEnv p, Some z => if z <? 0 then Stuck else match env_up s p (Z.to_nat z) with Ok v => Ok (v, s) | Panic q => Panic q | _ => Stuck end
          | _, _ => Stuck
          end))
    | ECall0 (EMeth a m) =>
        bind (eval ce le a) (fun va => fun s =>
          match va with
          | VRef p i => match get_frame s p with
                        | Some fr => match zth (fr_vals fr) i with
                                     | Some v => match accessor m v with Ok r => Ok (r, s) | _ => Stuck end
                                     | None => Panic PIndex end
                        | None => Stuck end
          | _ => match accessor m va with Ok r => Ok (r, s) | _ => Stuck end
          end)
    | ESel a f =>
        match clookup ce (ESel a f) with
        | Some (CV v) => ret v          (* a compile-time input addressed by its access path, e.g. ye.Value *)
        | _ =>
        bind (eval ce le a) (fun va => fun s =>
          match va with
          | VEnv p => match field_of_env f s p with Ok v => Ok (v, s) | _ => Stuck end
          | VNilEnv => Panic PNil
          | _ => Stuck
          end)
        end
    | EIndex a i =>
        bind (eval ce le a) (fun va => bind (eval ce le i) (fun vi =>
          match va, int_of vi with
          | VStr s, Some z => lift (str_index s z)
          | VVals p, Some z => ret (VRef p z)
          | VInts p, Some z => fun s => match get_frame s p with
                                        | Some fr => match load_slot GUint64 (fr_ints fr) z with Ok v => Ok (v, s) | Panic q => Panic q | _ => Stuck end
                                        | None => Stuck end
          | _, _ => stuck
          end))
    | ESlice a lo hi =>
        bind (eval ce le a) (fun va => bind (eval ce le lo) (fun vl => bind (eval ce le hi) (fun vh =>
          match va, int_of vl, int_of vh with
          | VStr s, Some l, Some h => lift (str_slice s l h)
          | _, _, _ => stuck
          end)))
    | _ => stuck
    end.

  (* ------------------------------------------------------------------ statements *)
  Inductive outcome := ONormal (le : lenv) | OReturn (vs : list value).

  (* a value stored into a variable gets a type: untyped constants default to int *)
  Definition default_type (v : value) : value := match v with VUntyped z => VInt GInt z | _ => v end.
  (* assignment to a variable that currently holds w *)
  Definition assign_conv (w v : value) : res value :=
    match v, w with
    | VUntyped z, VInt k _ => if representable k z then Ok (VInt k z) else Stuck
    | VUntyped _, _ => Stuck
    | _, _ => Ok v
    end.

  Fixpoint exec (fuel : nat) (ce : cenv) (le : lenv) (s : stmt) {struct s} : M outcome :=
    match s with
    | SSkip => ret (ONormal le)
    | SSeq a b => bind (exec fuel ce le a) (fun o => match o with ONormal le' => exec fuel ce le' b | OReturn vs => ret o end)
    | SReturn0 => ret (OReturn [])
    | SReturn e => bind (eval ce le e) (fun v => ret (OReturn [v]))
    | SDefine x e => bind (eval ce le e) (fun v => ret (ONormal ((x, default_type v) :: le)))
    | SAssign (EVar x) e =>
        bind (eval ce le e) (fun v =>
          match llookup le x with
          | Some w => match assign_conv w v with
                      | Ok v' => match lupdate le x v' with Some le' => ret (ONormal le') | None => stuck end
                      | _ => stuck end
          | None => stuck
          end)
    | SOpAssign op (EVar x) e =>
        match llookup le x with
        | Some w => bind (eval ce le e) (fun v =>
                      match binop_val op w v with
                      | Ok r => match lupdate le x r with Some le' => ret (ONormal le') | None => stuck end
                      | Panic p => fun _ => Panic p
                      | _ => stuck
                      end)
        | None => stuck
        end
    | SIf c t f =>
        bind (eval ce le c) (fun v =>
          match v with
          | VBool true => exec fuel ce le t
          | VBool false => exec fuel ce le f
          | _ => stuck
          end)
    | SBlock b =>
        bind (exec fuel ce le b) (fun o =>
          match o with
          | ONormal le' => ret (ONormal (skipn (length le' - length le) le'))
          | OReturn vs => ret o
          end)
    | SExpr (ECall1 (EGlob G_panic) (EGlob G_negativeShiftAmount)) => fun _ => Panic PNegShift
    | _ => stuck
    end.

  (* ------------------------------------------------------------------ closures *)
  (* compile-time evaluation of the right-hand side of a := that the closure captures *)
  Definition ceval (ce : cenv) (e : expr) : option cval :=
    match clookup ce e with
    | Some c => Some c
    | None =>
      match e with
      | EAssert (TFun k) a =>
          match clookup ce a with
          | Some (CF k' f) => if gokind_beq k k' then Some (CF k f) else None
          | _ => None
          end
      | _ => match eval ce [] e [] with Ok (v, _) => Some (CV v) | _ => None end
      end
    end.
  Fixpoint eval_lets (ce : cenv) (lets : list (ident * expr)) : option cenv :=
    match lets with
    | [] => Some ce
    | (x, e) :: rest => match ceval ce e with Some c => eval_lets ((EVar x, c) :: ce) rest | None => None end
    end.

  Definition has_ty (t : ty) (v : value) : bool :=
    match t with
    | TK k =>
        match v with
        | VBool _ => gokind_beq k GBool
        | VStr _ => gokind_beq k GString
        | VInt k' _ => gokind_beq k k' && is_integer k
        | VFlt k' _ => gokind_beq k k' && (is_float k || is_complex k)
        | _ => false
        end
    | TEnv => match v with VEnv _ => true | _ => false end
    | _ => false
    end.
  Fixpoint bind_params (ps : list (ident * ty)) (args : list value) : option lenv :=
    match ps, args with
    | [], [] => Some []
    | (x, t) :: ps', v :: args' =>
        if has_ty t v then match bind_params ps' args' with Some le => Some ((x, v) :: le) | None => None end else None
    | _, _ => None
    end.

  (* implicit conversion of returned untyped constants to the declared result type *)
  Definition coerce (t : ty) (v : value) : res value :=
    match v, t with
    | VUntyped z, TK k => if representable k z then Ok (VInt k z) else Stuck
    | VUntyped _, _ => Stuck
    | _, _ => Ok v
    end.
  Fixpoint coerce_all (ts : list ty) (vs : list value) : res (list value) :=
    match ts, vs with
    | [], [] => Ok []
    | t :: ts', v :: vs' => rbind (coerce t v) (fun v' => rbind (coerce_all ts' vs') (fun r => Ok (v' :: r)))
    | _, _ => Stuck
    end.

  Definition denote (fuel : nat) (roots : cenv) (c : closure) (args : list value) : M (list value) :=
    match eval_lets roots (c_lets c) with
    | None => stuck
    | Some ce =>
      match bind_params (c_params c) args with
      | None => stuck
      | Some le =>
          bind (exec fuel ce le (c_body c)) (fun o =>
            match o with
            | OReturn vs => lift (coerce_all (c_results c) vs)
            | ONormal _ => match c_results c with [] => ret [] | _ => stuck end
            end)
      end
    end.

  (* well-formed values of a basic kind *)
  Definition wf_value (k : gokind) (v : value) : Prop :=
    match v with
    | VInt k' z => k' = k /\ is_integer k = true /\ in_range (ikd k) z
    | VFlt k' _ => k' = k /\ (is_float k || is_complex k) = true
    | VStr _ => k = GString
    | VBool _ => k = GBool
    | _ => False
    end.
  Definition wf_opfun (k : gokind) (f : opfun) : Prop :=
    forall p s v s', f p s = Ok (v, s') -> wf_value k v.

End Sem.

Arguments VBool {F}. Arguments VInt {F}. Arguments VUntyped {F}. Arguments VStr {F}. Arguments VEnv {F}.
Arguments VNilEnv {F}. Arguments VPtr {F}. Arguments VRef {F}. Arguments VInts {F}. Arguments VVals {F}. Arguments VUnit {F}.
Arguments VFlt {F}.

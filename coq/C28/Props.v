(* C28 — property theorems only *)
From Coq Require Import List NArith ZArith Bool.
From Verif Require Import Common.GoStr C28.Model C28.Proof.
Import ListNotations.

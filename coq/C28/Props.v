(* C28 — property theorems only: each closed by [exact lemma], followed by Print Assumptions. *)
From Coq Require Import List NArith ZArith Bool RelationClasses.
From Verif Require Import Common.GoStr C28.Model C28.Proof.
Import ListNotations.

(* identical returns for all type terms: with fuel >= size x + size y the answer is a boolean and the
   same boolean for every larger fuel (fuel exhaustion never masquerades as an answer) *)
Theorem C28_identical_total : forall x y, exists b : bool,
  forall fuel, (size x + size y <= fuel)%nat -> identical fuel x y = Some b.
Proof. exact identical_total_bound. Qed.
Print Assumptions C28_identical_total.

(* typeutil.Identical (fixed tree) is an equivalence relation on all type terms *)
Theorem C28_identical_equivalence : Equivalence (fun a b : ty => identb a b = true).
Proof. exact identb_equivalence. Qed.
Print Assumptions C28_identical_equivalence.

(* Identical(a,b) => Hasher.Hash(a) == Hasher.Hash(b) (uint32 arithmetic explicit), for every pointer-hash
   function nh of named types, on well-formed terms (wfb: in every interface exactly the inherited methods are
   the non-explicit ones, for the environment e of named interfaces) *)
Theorem C28_identical_hash : forall (nh : N -> Z) (e : env) a b,
  wfb e a = true -> wfb e b = true -> identb a b = true -> hash nh a = hash nh b.
Proof. exact identb_hash'. Qed.
Print Assumptions C28_identical_hash.

(* the hash is a uint32 *)
Theorem C28_hash_range : forall (nh : N -> Z) a, (forall i, 0 <= nh i < 4294967296)%Z -> (0 <= hash nh a < 4294967296)%Z.
Proof. exact hash_range. Qed.
Print Assumptions C28_hash_range.

(* C28 — property theorems only: each closed by [exact lemma], followed by Print Assumptions. *)
From Coq Require Import List NArith ZArith Bool RelationClasses Permutation.
From Verif Require Import Common.GoStr C28.Model C28.Proof C28.MapProof C28.Named.
Import ListNotations.

(* identical returns for all type terms: with fuel >= size x + size y the answer is a boolean and the
   same boolean for every larger fuel (fuel exhaustion never masquerades as an answer).
   Finite trees only (named types are opaque, receivers may point back to the enclosing interface): cycles
   through named interfaces are outside the term language, see the model header. *)
Theorem C28_identical_total : forall x y, exists b : bool,
  forall fuel, (size x + size y <= fuel)%nat -> identical fuel x y = Some b.
Proof. exact identical_total_bound. Qed.
Print Assumptions C28_identical_total.

(* typeutil.Identical (fixed tree) is an equivalence relation on all type terms *)
Theorem C28_identical_equivalence : Equivalence (fun a b : ty => identb a b = true).
Proof. exact identb_equivalence. Qed.
Print Assumptions C28_identical_equivalence.

(* Identical(a,b) => Hasher.Hash(a) == Hasher.Hash(b) (uint32 arithmetic explicit), for every pointer-hash
   function nh of named types, on well-formed terms (wfb: in every interface exactly the inherited methods are
   the non-explicit ones, for the environment e of named interfaces) *)
Theorem C28_identical_hash : forall (nh : N -> Z) (e : env) a b,
  wfb e a = true -> wfb e b = true -> identb a b = true -> hash nh a = hash nh b.
Proof. exact identb_hash'. Qed.
Print Assumptions C28_identical_hash.

(* the hash is a uint32 *)
Theorem C28_hash_range : forall (nh : N -> Z) a, (forall i, 0 <= nh i < 4294967296)%Z -> (0 <= hash nh a < 4294967296)%Z.
Proof. exact hash_range. Qed.
Print Assumptions C28_hash_range.

(* typeutil.Map (hash buckets, tombstones left by Delete and reused by Set, length counter) refines the
   association list keyed by identity, for EVERY history of Set/At/Delete/Len/Iterate over well-formed keys:
   equal outputs (Iterate: the same entries in some order), same final entries, Len = number of entries, and
   the entries are pairwise non-identical *)
Theorem C28_map_refines_assoc : forall (nh : N -> Z) (e : env) (ops : list (mop ty)),
  Forall (op_good ty (fun t => wfb e t = true)) ops ->
  let mr := map_run ty identb (hash nh) (empty_map ty) ops in
  let sr := spec_run ty identb [] ops in
  Forall2 (out_equiv ty) (snd mr) (snd sr)
  /\ Permutation (map_items ty (fst mr)) (fst sr)
  /\ mlen ty (fst mr) = Z.of_nat (length (fst sr))
  /\ uniq ty identb (fst sr).
Proof. exact map_refines_assoc_ty. Qed.
Print Assumptions C28_map_refines_assoc.

(* the same refinement for any key type, identity relation and hash that respects it *)
Theorem C28_map_refines_assoc_generic : forall (K : Type) (eqv : K -> K -> bool) (hsh : K -> Z) (good : K -> Prop),
  (forall k, eqv k k = true) -> (forall a b, eqv a b = true -> eqv b a = true) ->
  (forall a b c, eqv a b = true -> eqv b c = true -> eqv a c = true) ->
  (forall a b, good a -> good b -> eqv a b = true -> hsh a = hsh b) ->
  forall ops, Forall (op_good K good) ops ->
  let mr := map_run K eqv hsh (empty_map K) ops in
  let sr := spec_run K eqv [] ops in
  Forall2 (out_equiv K) (snd mr) (snd sr)
  /\ Permutation (map_items K (fst mr)) (fst sr)
  /\ mlen K (fst mr) = Z.of_nat (length (fst sr))
  /\ uniq K eqv (fst sr).
Proof. exact map_refines_assoc. Qed.
Print Assumptions C28_map_refines_assoc_generic.

(* named types are compared by the identity of their type name, whatever their underlying types are: two
   different names are different types even when their underlying types are structurally identical *)
Theorem C28_named_by_identity : forall a b, identb (TNamed a) (TNamed b) = true <-> a = b.
Proof. exact identb_named_iff. Qed.
Print Assumptions C28_named_by_identity.

(* ... and so are the named interfaces embedded in an interface literal (e.Obj() != f.Obj()): identical interface
   literals embed the same type names in the same order - interface{Reader} and interface{Writer} are different
   types even if Reader and Writer have the same method set (their hashes differ too: hashFor hashes the names) *)
Theorem C28_embedded_by_identity : forall ms es ms' es',
  identb (TIface ms es) (TIface ms' es') = true -> es = es'.
Proof. exact identb_iface_embs. Qed.
Print Assumptions C28_embedded_by_identity.

(* ---- the hypotheses are satisfiable on non-trivial values ---- *)
Definition ex_env : env := [(1%N, [([77%N], Some [112%N])])].                 (* E1 = interface{ p.M() } *)
Definition ex_E1u : ty := TIface [mkMeth true [77%N] (Some [112%N]) None [] [] false] [].
(* interface{ E1; p.P(int) }: inherited M (receiver: E1's own interface), explicit P with self receiver *)
Definition ex_x : ty := TIface [mkMeth false [77%N] (Some [112%N]) (Some ex_E1u) [] [] false;
                                mkMeth true [80%N] (Some [112%N]) None [TBasic 2] [] false] [1%N].
(* the same interface whose explicit method object is shared with another interface (receiver = a copy of x) *)
Definition ex_y : ty := TIface [mkMeth false [77%N] (Some [112%N]) (Some ex_E1u) [] [] false;
                                mkMeth true [80%N] (Some [112%N]) (Some ex_x) [TBasic 2] [] false] [1%N].
Example C28_example_identical_hash :
  wfb ex_env ex_x = true /\ wfb ex_env ex_y = true /\ identb ex_x ex_y = true /\ identb ex_y ex_x = true
  /\ hash (fun _ => 12345%Z) ex_x = hash (fun _ => 12345%Z) ex_y
  /\ identb ex_x (TIface [mkMeth true [80%N] (Some [112%N]) None [TBasic 2] [] false] []) = false.
Proof. vm_compute. repeat split. Qed.

(* two keys with equal hash that are not identical (field package is not hashed) share a bucket; Delete of the
   second leaves the first, the tombstone is reused *)
Definition ex_k (p : N) : ty := TSig (Some (TStruct [(mkF [97%N] (Some [p]) [] false, TBasic 2)])) [] [] false.
Example C28_example_map :
  Forall (op_good ty (fun t => wfb ex_env t = true)) [OSet (ex_k 112) 1%Z; OSet (ex_k 113) 2%Z; ODel (ex_k 113); OAt (ex_k 112); OSet ex_x 3%Z; OAt ex_y; OLen]
  /\ hash (fun _ => 0%Z) (ex_k 112) = hash (fun _ => 0%Z) (ex_k 113) /\ identb (ex_k 112) (ex_k 113) = false
  /\ snd (map_run ty identb (hash (fun _ => 0%Z)) (empty_map ty)
            [OSet (ex_k 112) 1%Z; OSet (ex_k 113) 2%Z; ODel (ex_k 113); OAt (ex_k 112); OSet ex_x 3%Z; OAt ex_y; OLen])
     = [RPrev None; RPrev None; RDel true; RVal (Some 1%Z); RPrev None; RVal (Some 3%Z); RLen 2%Z].
Proof. split; [repeat constructor|]. vm_compute. repeat split. Qed.

(* Reader = id 1 and Writer = id 2 have the same method set {p.M()} (ex_env2); interface{Reader} / interface{Writer}
   with the inherited method are well formed, have identical method lists, and are NOT identical; neither are
   []interface{Reader} / []interface{Writer} nor func(interface{Reader}) / func(interface{Writer}) *)
Definition ex_env2 : env := [(1%N, [([77%N], Some [112%N])]); (2%N, [([77%N], Some [112%N])])].
Definition ex_emb (id : N) : ty := TIface [mkMeth false [77%N] (Some [112%N]) (Some ex_E1u) [] [] false] [id].
Example C28_example_embedded_clone :
  wfb ex_env2 (ex_emb 1) = true /\ wfb ex_env2 (ex_emb 2) = true
  /\ identb (ex_emb 1) (ex_emb 1) = true /\ identb (ex_emb 1) (ex_emb 2) = false
  /\ identb (TSlice (ex_emb 1)) (TSlice (ex_emb 2)) = false
  /\ identb (TSig None [ex_emb 1] [] false) (TSig None [ex_emb 2] [] false) = false
  /\ identb (TNamed 1) (TNamed 2) = false.
Proof. vm_compute. repeat split. Qed.
